(* C19, text layer: the option-exercise (ESO) round trip for all well-formed
   records, by induction over the grant blocks. *)
From Coq Require Import String Ascii.
From Coq Require Import List NArith ZArith QArith Qcanon Bool Lia.
From ACB Require Import Base.Outcome Base.QcExtra Base.Fit Base.Arith Model.QText Model.Etrade
  Model.EtradeText Spec.EtradeLayoutChunks Spec.EtradeLayout Proofs.EtradeTextFrame Proofs.EtradeTextRT.
Import ListNotations.
Local Open Scope N_scope.

(* ------------------------------------------------------------------ generic: repeated blocks *)
Lemma amf_find_eq {A} (m : text -> option (A * text)) s1 s2 f :
  find m s1 = find m s2 -> all_matches_fuel f m s1 = all_matches_fuel f m s2.
Proof. intros H. destruct f; [reflexivity|]. cbn [all_matches_fuel]. rewrite H. reflexivity. Qed.

Section Blocks.
Context {A G : Type} (m : text -> option (A * text)) (P : G -> Prop) (Q : text -> Prop)
        (blk rem : nat -> G -> text) (val : nat -> G -> A).
Hypothesis Hhit : forall i g R, P g -> Q R -> find m (blk i g ++ R) = Some (val i g, rem i g ++ R).
Hypothesis Hskip : forall i g R, P g -> find m (rem i g ++ R) = find m R.
Hypothesis HQ : forall i g R, Q (blk i g ++ R).

Fixpoint blocks (i : nat) (gs : list G) : text :=
  match gs with [] => [] | g :: r => blk i g ++ blocks (S i) r end.
Fixpoint vals (i : nat) (gs : list G) : list A :=
  match gs with [] => [] | g :: r => val i g :: vals (S i) r end.

Lemma Q_blocks i gs tail : Q tail -> Q (blocks i gs ++ tail).
Proof. intros H. destruct gs as [|g gs]; [exact H|]. cbn [blocks]. rewrite <- app_assoc. apply HQ. Qed.

Lemma all_matches_fuel_blocks : forall gs i fuel tail,
  Forall P gs -> (length gs < fuel)%nat -> Q tail -> find m tail = None ->
  all_matches_fuel fuel m (blocks i gs ++ tail) = vals i gs.
Proof.
  induction gs as [|g gs IH]; intros i fuel tail HP Hf HQt Ht.
  - destruct fuel; [cbn in Hf; lia|]. cbn [blocks app all_matches_fuel vals]. rewrite Ht. reflexivity.
  - destruct fuel; [cbn in Hf; lia|]. inversion HP as [|? ? Pg Pgs]; subst.
    cbn [blocks all_matches_fuel vals]. rewrite <- app_assoc, (Hhit i g _ Pg (Q_blocks (S i) gs tail HQt)).
    rewrite (amf_find_eq m _ (blocks (S i) gs ++ tail) fuel (Hskip i g _ Pg)).
    rewrite IH; [reflexivity|assumption|cbn [length] in Hf; lia|assumption|assumption].
Qed.
Lemma vals_length i gs : length (vals i gs) = length gs.
Proof. revert i. induction gs as [|g gs IH]; intros i; [reflexivity|]. cbn [vals length]. rewrite IH. reflexivity. Qed.
End Blocks.
Lemma vals_const {A G} (f : G -> A) gs : forall i, vals (fun _ g => f g) i gs = map f gs.
Proof. induction gs as [|g gs IH]; intros i; [reflexivity|]. cbn [vals map]. rewrite IH. reflexivity. Qed.

(* blocks with no possible match: search passes over them *)
Section SkipBlocks.
Context {A G : Type} (m : text -> option A) (P : G -> Prop) (blk : nat -> G -> text).
Hypothesis Hfind : forall i g R, P g -> find m (blk i g ++ R) = find m R.
Lemma find_skip_blocks : forall gs i tail, Forall P gs -> find m (blocks blk i gs ++ tail) = find m tail.
Proof.
  induction gs as [|g gs IH]; intros i tail HP; [reflexivity|]. inversion HP; subst.
  cbn [blocks]. rewrite <- app_assoc, Hfind by assumption. apply IH. assumption.
Qed.
Hypothesis Hlast : forall i g R, P g -> find_last m R = None -> find_last m (blk i g ++ R) = None.
Lemma find_last_none_blocks : forall gs i tail, Forall P gs -> find_last m tail = None ->
  find_last m (blocks blk i gs ++ tail) = None.
Proof.
  induction gs as [|g gs IH]; intros i tail HP Ht; [exact Ht|]. inversion HP; subst.
  cbn [blocks]. rewrite <- app_assoc. apply Hlast; [assumption|]. apply IH; assumption.
Qed.
End SkipBlocks.

(* ------------------------------------------------------------------ split_last *)
Definition occ (key : text) (s : text) : option unit := if starts_with key s then Some tt else None.
Lemma occ_guarded key : guarded (occ key) (glit key).
Proof. intros s H. rewrite prefix_sat_glit in H. unfold occ. rewrite H. reflexivity. Qed.

Lemma split_last_none key : forall s, find_last (occ key) s = None -> split_last key s = None.
Proof.
  induction s as [|c s IH]; intros H; [reflexivity|]. cbn [split_last].
  rewrite (IH (find_last_none_tail _ c s H)).
  pose proof (find_last_none_all _ _ H) as Hc. unfold occ in Hc.
  destruct (starts_with key (c :: s)); [discriminate|reflexivity].
Qed.
Lemma split_last_app key p s a b : split_last key s = Some (a, b) -> split_last key (p ++ s) = Some (p ++ a, b).
Proof. intros H. induction p as [|c p IH]; [exact H|]. cbn [app split_last]. rewrite IH. reflexivity. Qed.
Lemma split_last_here key c s :
  split_last key s = None -> starts_with key (c :: s) = true -> split_last key (c :: s) = Some ([], c :: s).
Proof. intros H1 H2. cbn [split_last]. rewrite H1, H2. reflexivity. Qed.

(* ------------------------------------------------------------------ numerals *)
Lemma digits_of_pos_fuel_digits : forall fuel n acc, digits acc -> digits (digits_of_pos_fuel fuel n acc).
Proof.
  induction fuel as [|f IH]; intros n acc Ha; [exact Ha|]. cbn [digits_of_pos_fuel].
  assert (Hd : digits ((48 + n mod 10) :: acc)).
  { unfold digits. cbn [forallb]. unfold digits in Ha. rewrite Ha, andb_true_r. unfold is_digit.
    assert (H : n mod 10 < 10) by (apply N.mod_lt; discriminate). revert H. generalize (n mod 10). intros x H.
    apply andb_true_iff. split; apply N.leb_le; lia. }
  destruct (n / 10 =? 0); [exact Hd|apply IH; exact Hd].
Qed.
Lemma digits_of_pos_fuel_nonnil : forall fuel n acc, acc <> [] -> digits_of_pos_fuel fuel n acc <> [].
Proof.
  induction fuel as [|f IH]; intros n acc Ha; [exact Ha|]. cbn [digits_of_pos_fuel].
  destruct (n / 10 =? 0); [discriminate|apply IH; discriminate].
Qed.
Lemma digits_of_N_ok n : digits (digits_of_N n) /\ digits_of_N n <> [].
Proof.
  unfold digits_of_N. split.
  - apply digits_of_pos_fuel_digits. reflexivity.
  - cbn [digits_of_pos_fuel]. destruct (n / 10 =? 0); [discriminate|apply digits_of_pos_fuel_nonnil; discriminate].
Qed.

Lemma strip_commas_app a b : strip_commas (a ++ b) = strip_commas a ++ strip_commas b.
Proof. unfold strip_commas. apply filter_app. Qed.
Lemma strip_commas_dc a : forallb is_dc a = true -> strip_commas a = filter is_digit a /\ digits (filter is_digit a).
Proof.
  induction a as [|c a IH]; intros H; [split; reflexivity|].
  cbn [forallb] in H. apply andb_true_iff in H. destruct H as [Hc Ha]. destruct (IH Ha) as [E D].
  unfold strip_commas in *. cbn [filter]. unfold is_dc in Hc. destruct (is_digit c) eqn:Ed.
  - rewrite (digit_not_comma c Ed). cbn [negb]. rewrite E. split; [reflexivity|]. unfold digits. cbn [forallb]. rewrite Ed. exact D.
  - cbn [orb] in Hc. rewrite Hc. cbn [negb]. split; assumption.
Qed.

(* [\d,]+\.\d+ *)
Definition cdecparts (a b : text) : Prop :=
  forallb is_dc a = true /\ hd_in is_digit a = true /\ digits b /\ b <> []
  /\ (length (filter is_digit a) + length b <= 28)%nat.
Lemma is_cdec_spec t : is_cdec t = true -> exists a b, t = a ++ 46 :: b /\ cdecparts a b.
Proof.
  unfold is_cdec. destruct (span is_dc t) as [a r] eqn:E. destruct (span_spec _ _ _ _ E) as [H1 H2].
  destruct r as [|c b]; [discriminate|]. destruct (c =? 46) eqn:Ec.
  2:{ intros H. exfalso. destruct c as [|p]; [discriminate|]. repeat (destruct p as [p|p|]; try discriminate). }
  apply N.eqb_eq in Ec. subst c. intros H. repeat (apply andb_true_iff in H; destruct H as [H ?]).
  exists a, b. repeat split; auto.
  - intros ->. discriminate.
  - apply Nat.leb_le. assumption.
Qed.
Lemma cdec_nonnil a b : cdecparts a b -> a <> [].
Proof. intros (_ & H & _). destruct a; [discriminate|discriminate]. Qed.
Lemma filter_digit_nonnil a : hd_in is_digit a = true -> filter is_digit a <> [].
Proof. destruct a as [|c a]; [discriminate|]. cbn [hd_in filter]. intros ->. discriminate. Qed.
Lemma parse_large_cdec a b : cdecparts a b -> parse_large (a ++ 46 :: b) = Ok (dval (a ++ 46 :: b)).
Proof.
  intros (Ha & Hh & Hb & Hn & Hl). unfold parse_large, dval.
  destruct (strip_commas_dc a Ha) as [Ea Da].
  assert (E : strip_commas (a ++ 46 :: b) = strip_commas (filter is_digit a ++ 46 :: b)).
  { rewrite !strip_commas_app, Ea. change (strip_commas (46 :: b)) with (46 :: strip_commas b).
    rewrite (strip_commas_digits _ Da). reflexivity. }
  rewrite E, dec_ok; auto. apply filter_digit_nonnil. exact Hh.
Qed.
Definition cintparts (t : text) : Prop :=
  hd_in is_digit t = true /\ forallb is_dc t = true /\ (length (filter is_digit t) <= 28)%nat.
Lemma is_cint_spec t : is_cint t = true -> cintparts t.
Proof. unfold is_cint. intros H. repeat (apply andb_true_iff in H; destruct H as [H ?]). repeat split; auto. apply Nat.leb_le; assumption. Qed.
Lemma parse_large_cint t : cintparts t -> parse_large t = Ok (dval t).
Proof.
  intros (Hh & Hd & Hl). unfold parse_large, dval. destruct (strip_commas_dc t Hd) as [E D]. rewrite E.
  pose proof (parse_large_int (filter is_digit t) D (filter_digit_nonnil t Hh) Hl) as P.
  unfold parse_large, dval in P. rewrite (strip_commas_digits _ D) in P.
  destruct (plain_num_ok (filter is_digit t)); [reflexivity|discriminate].
Qed.

(* ------------------------------------------------------------------ one grant block *)
Record gp : Type := { gp_num : text; gp_fa : text; gp_fb : text; gp_sh : text; gp_sa : text; gp_sb : text;
                      gp_ea : text; gp_eb : text }.
Definition gp_ok (g : gp) : Prop :=
  digits (gp_num g) /\ gp_num g <> [] /\ (length (gp_num g) <= 19)%nat
  /\ cdecparts (gp_fa g) (gp_fb g) /\ cintparts (gp_sh g) /\ cdecparts (gp_sa g) (gp_sb g)
  /\ cdecparts (gp_ea g) (gp_eb g).
Definition cdecseg (a b : text) : list seg := [SF c_dc a; SL [46]; SF c_digit b].
Definition grant_segs' (st : bool) (idx num fa fb sh sa sb ea eb : text) : list seg :=
  [SL (sty st eso0_ind eso1_ind); SL k_Grant_; SF c_digit idx; SL (sty st eso0_g1 eso1_g1);
   SF c_digit num; SL (sty st eso0_g2 eso1_g2)] ++ cdecseg fa fb
  ++ [SL (sty st eso0_g3 eso1_g3); SF c_dc sh; SL (sty st eso0_g4 eso1_g4)] ++ cdecseg sa sb
  ++ [SL (sty st eso0_g5 eso1_g5)] ++ cdecseg ea eb ++ [SL (sty st eso0_g6 eso1_g6)].
Definition grant_segs (st : bool) (i : nat) (g : gp) : list seg :=
  grant_segs' st (digits_of_N (N.of_nat i)) (gp_num g) (gp_fa g) (gp_fb g) (gp_sh g) (gp_sa g) (gp_sb g) (gp_ea g) (gp_eb g).
Definition gblk (st : bool) (i : nat) (g : gp) : text := flat (grant_segs st i g).

Lemma cdecseg_ok a b : cdecparts a b -> Forall seg_ok (cdecseg a b).
Proof. intros H. pose proof (cdec_nonnil a b H). destruct H as (? & ? & ? & ? & ?). repeat constructor; auto. Qed.
Lemma cint_nonnil t : cintparts t -> t <> [].
Proof. intros (H & _). destruct t; [discriminate|discriminate]. Qed.
Lemma grant_segs_ok st i g : gp_ok g -> Forall seg_ok (grant_segs st i g).
Proof.
  intros (N1 & N2 & N3 & F & S & A & E). destruct (digits_of_N_ok (N.of_nat i)) as [I1 I2].
  pose proof (cint_nonnil _ S). destruct S as (? & ? & ?).
  unfold grant_segs, grant_segs'. repeat (apply Forall_app; split); try (apply cdecseg_ok; assumption); repeat constructor; auto.
Qed.

(* what follows a grant block: the indentation, then a letter (the next "Grant n" or "Exercise Date") *)
Definition after_blk (st : bool) (R : text) : Prop :=
  exists c R', R = sty st eso0_ind eso1_ind ++ c :: R' /\ is_space c = false /\ is_dcd c = false /\ (c =? 36) = false.
Lemma after_blk_gblk st i g R : after_blk st (gblk st i g ++ R).
Proof.
  exists 71. eexists. split; [|repeat split; reflexivity].
  unfold gblk, grant_segs, grant_segs'. cbn [flat seg_text app]. rewrite <- app_assoc. reflexivity.
Qed.

Lemma dc_dcd c : is_dc c = true -> is_dcd c = true.
Proof. unfold is_dc, is_dcd. intros H. rewrite H. reflexivity. Qed.
Lemma digit_dcd c : is_digit c = true -> is_dcd c = true.
Proof. unfold is_dcd. intros H. rewrite H. reflexivity. Qed.
Lemma cdec_dcd a b : cdecparts a b -> forallb is_dcd (a ++ 46 :: b) = true /\ a ++ 46 :: b <> [].
Proof.
  intros (Ha & _ & Hb & _). split; [|destruct a; discriminate].
  rewrite forallb_app. cbn [forallb]. rewrite (forallb_imp is_dc is_dcd a dc_dcd Ha).
  rewrite (forallb_imp is_digit is_dcd b digit_dcd Hb). reflexivity.
Qed.

Lemma g_grant_idx : guarded m_grant_idx (glit k_grant_ ++ [is_digit]).
Proof.
  intros s H. rewrite prefix_sat_app_lit in H. unfold m_grant_idx, lit.
  destruct (strip_prefix k_grant_ s) as [r|]; [|reflexivity]. cbn [obind]. apply run1_hd.
  destruct r as [|c r]; [reflexivity|]. cbn [prefix_sat hd_in] in *. rewrite andb_true_r in H. exact H.
Qed.
Lemma g_row key vp : guarded (m_row key vp) (glit key).
Proof. exact (guarded_lit _ _). Qed.

(* KEY \s+ VAL (optional second value absent) *)
Lemma m_row_hit key vp w v X :
  hd_in nonspace w = true -> vp (w ++ X) = Some (v, X) -> (r3 <~~ sp1 X ;; vp r3) = None ->
  m_row key vp (key ++ 32 :: w ++ X) = Some (v, X).
Proof.
  intros Hw Hv Hn. unfold m_row, lit. rewrite strip_prefix_app. cbn [obind]. rewrite sp1_sp. cbn [obind].
  destruct w as [|c w]; [discriminate|]. cbn [hd_in] in Hw. unfold nonspace in Hw. apply negb_true_iff in Hw.
  cbn [app skip_spaces]. rewrite Hw. cbn [app] in Hv. rewrite Hv. unfold obind in *. destruct (sp1 X) as [a0|]; [rewrite Hn|]; reflexivity.
Qed.

Lemma m_row_hit' key vp W v X :
  hd_in nonspace W = true -> vp W = Some (v, X) -> (r3 <~~ sp1 X ;; vp r3) = None ->
  m_row key vp (key ++ 32 :: W) = Some (v, X).
Proof.
  intros Hw Hv Hn. unfold m_row, lit. rewrite strip_prefix_app. cbn [obind]. rewrite sp1_sp. cbn [obind].
  destruct W as [|c W]; [discriminate|]. cbn [hd_in] in Hw. unfold nonspace in Hw. apply negb_true_iff in Hw.
  cbn [skip_spaces]. rewrite Hw, Hv. unfold obind in *. destruct (sp1 X) as [a0|]; [rewrite Hn|]; reflexivity.
Qed.

Definition ndcd (r : text) : Prop := match r with [] => True | c :: _ => is_dcd c = false end.
Lemma run1_dcd_cdec fa fb X : cdecparts fa fb -> ndcd X ->
  run1 is_dcd (fa ++ 46 :: fb ++ X) = Some (fa ++ 46 :: fb, X).
Proof.
  intros H HX. destruct (cdec_dcd fa fb H) as [H1 H2].
  replace (fa ++ 46 :: fb ++ X) with ((fa ++ 46 :: fb) ++ X) by (rewrite <- app_assoc; reflexivity).
  apply run1_all; assumption.
Qed.
Lemma run1_dcd_cint t X : cintparts t -> ndcd X -> run1 is_dcd (t ++ X) = Some (t, X).
Proof.
  intros H HX. pose proof (cint_nonnil t H). destruct H as (_ & Hd & _).
  apply run1_all; [assumption|apply (forallb_imp is_dc is_dcd t dc_dcd Hd)|assumption].
Qed.

Ltac blk_seek Hg Hok :=
  match goal with
  | |- find ?m (flat ?D ++ ?R) = _ =>
      rewrite <- (find_seek m _ Hg D R Hok);
      match goal with |- find _ (flat ?S ++ _) = _ =>
        let s' := eval vm_compute in S in change S with s' end
  end.
Ltac expose2 :=
  match goal with |- find ?m (flat (?s1 :: ?s2 :: ?Q) ++ ?R) = _ =>
    change (flat (s1 :: s2 :: Q)) with (seg_text s1 ++ seg_text s2 ++ flat Q); rewrite <- !app_assoc; cbn [seg_text] end.
Ltac expose4 :=
  match goal with |- find ?m (flat (?s1 :: ?s2 :: ?s3 :: ?s4 :: ?Q) ++ ?R) = _ =>
    change (flat (s1 :: s2 :: s3 :: s4 :: Q)) with (seg_text s1 ++ seg_text s2 ++ seg_text s3 ++ seg_text s4 ++ flat Q);
    rewrite <- !app_assoc; cbn [seg_text] end.

Section Blk.
Variables idx num fa fb sh sa sb ea eb : text.
Hypothesis Hidx : digits idx /\ idx <> [].
Hypothesis Hnum : digits num /\ num <> [].
Hypothesis Hfmv : cdecparts fa fb.
Hypothesis Hsh : cintparts sh.
Hypothesis Hsale : cdecparts sa sb.
Hypothesis Hfee : cdecparts ea eb.
Definition B (st : bool) : list seg := grant_segs' st idx num fa fb sh sa sb ea eb.
Lemma B_ok st : Forall seg_ok (B st).
Proof.
  destruct Hidx, Hnum. pose proof (cint_nonnil _ Hsh). destruct Hsh as (? & ? & ?).
  unfold B, grant_segs'. repeat (apply Forall_app; split); try (apply cdecseg_ok; assumption); repeat constructor; auto.
Qed.

Ltac bseek Hg :=
  match goal with
  | |- find ?m (flat (B ?b) ++ ?R) = _ =>
      rewrite <- (find_seek m _ Hg (B b) R (B_ok b));
      match goal with |- find _ (flat ?S ++ _) = Some (_, flat ?Q ++ _) =>
        let s' := eval vm_compute in S in change S with s';
        let q' := eval vm_compute in Q in change Q with q' end
  end.

Definition blk_fact {A} (m : text -> option (A * text)) (g : guard) (st : bool) (v : A) (k : nat) : Prop :=
  (forall R, after_blk st R -> find m (flat (B st) ++ R) = Some (v, flat (skipn k (B st)) ++ R))
  /\ seek g true (skipn k (B st)) = [].

Lemma blk_idx st : blk_fact m_grant_idx (glit k_grant_ ++ [is_digit]) st idx 3.
Proof.
  destruct Hidx as [I1 I2]. split; [|destruct st; vm_compute; reflexivity].
  intros R HR. destruct st; (bseek g_grant_idx; expose2; apply find_hit;
    unfold m_grant_idx, lit; rewrite strip_prefix_app; cbn [obind];
    apply run1_all; [assumption|assumption|reflexivity]).
Qed.

Lemma hd_nonspace_digits v X : digits v -> v <> [] -> hd_in nonspace (v ++ X) = true.
Proof.
  intros Hd Hn. destruct v as [|c v]; [congruence|]. unfold digits in Hd. cbn [forallb] in Hd.
  apply andb_true_iff in Hd. destruct Hd as [Hc _]. cbn [app hd_in]. unfold nonspace. rewrite (digit_nonspace c Hc). reflexivity.
Qed.
Lemma hd_nonspace_hd_digit v X : hd_in is_digit v = true -> hd_in nonspace (v ++ X) = true.
Proof.
  destruct v as [|c v]; [discriminate|]. cbn [app hd_in]. intros H. unfold nonspace. rewrite (digit_nonspace c H). reflexivity.
Qed.

Ltac row_apply :=
  match goal with
  | |- m_row ?k ?vp (_ ++ ?W) = Some (?v, ?X) => apply (m_row_hit' k vp W v X)
  end.
Ltac row_apply_dollar :=
  match goal with
  | |- m_row ?k ?vp (_ ++ ?W) = Some (?v, ?X) => apply (m_row_hit' k vp (36 :: W) v X)
  end.

Lemma blk_num st : blk_fact (m_row k_grant_number vp_digits) (glit k_grant_number) st num 5.
Proof.
  destruct Hnum as [N1 N2]. split; [|destruct st; vm_compute; reflexivity].
  intros R HR. destruct st; (bseek (g_row k_grant_number vp_digits); expose2; apply find_hit; row_apply;
    [apply hd_nonspace_digits; assumption | apply nd_run1; [assumption|assumption|reflexivity] | reflexivity]).
Qed.
Lemma blk_fmv st : blk_fact (m_row k_exercise_mv vp_dollar_dcd) (glit k_exercise_mv) st (fa ++ 46 :: fb) 9.
Proof.
  split; [|destruct st; vm_compute; reflexivity].
  intros R HR. destruct st; (bseek (g_row k_exercise_mv vp_dollar_dcd); expose4; apply find_hit; row_apply_dollar;
    [reflexivity | unfold vp_dollar_dcd; cbn [chr N.eqb Pos.eqb obind app]; apply run1_dcd_cdec; [assumption|reflexivity] | reflexivity]).
Qed.
Lemma blk_shares st : blk_fact (m_row k_shares_exercised vp_dcd) (glit k_shares_exercised) st sh 11.
Proof.
  split; [|destruct st; vm_compute; reflexivity].
  intros R HR. destruct st; (bseek (g_row k_shares_exercised vp_dcd); expose2; apply find_hit; row_apply;
    [apply hd_nonspace_hd_digit; apply Hsh | apply run1_dcd_cint; [assumption|reflexivity] | reflexivity]).
Qed.
Lemma blk_sale st : blk_fact (m_row k_sale_price vp_dollar_dcd) (glit k_sale_price) st (sa ++ 46 :: sb) 15.
Proof.
  split; [|destruct st; vm_compute; reflexivity].
  intros R HR. destruct st; (bseek (g_row k_sale_price vp_dollar_dcd); expose4; apply find_hit; row_apply_dollar;
    [reflexivity | unfold vp_dollar_dcd; cbn [chr N.eqb Pos.eqb obind app]; apply run1_dcd_cdec; [assumption|reflexivity] | reflexivity]).
Qed.
Lemma blk_fee st : blk_fact (m_row k_comission_fee vp_dollar_dcd) (glit k_comission_fee) st (ea ++ 46 :: eb) 19.
Proof.
  split; [|destruct st; vm_compute; reflexivity].
  intros R (c & R' & -> & Hc1 & Hc2 & Hc3).
  destruct st; (bseek (g_row k_comission_fee vp_dollar_dcd); expose4; apply find_hit; row_apply_dollar;
    [reflexivity | unfold vp_dollar_dcd; cbn [chr N.eqb Pos.eqb obind app]; apply run1_dcd_cdec; [assumption|reflexivity] | ]).
  - change (flat [SL [10; 10]] ++ sty true eso0_ind eso1_ind ++ c :: R') with (10 :: 10 :: c :: R').
    rewrite sp1_nl. cbn [obind]. change (skip_spaces (10 :: c :: R')) with (skip_spaces (c :: R')).
    rewrite skip_spaces_nonspace by assumption. unfold vp_dollar_dcd, chr. rewrite Hc3. reflexivity.
  - change (flat [SL [10; 10]] ++ sty false eso0_ind eso1_ind ++ c :: R') with (10 :: 10 :: eso0_ind ++ c :: R').
    rewrite sp1_nl. cbn [obind]. change (skip_spaces (10 :: eso0_ind ++ c :: R')) with (skip_spaces (c :: R')).
    rewrite skip_spaces_nonspace by assumption. unfold vp_dollar_dcd, chr. rewrite Hc3. reflexivity.
Qed.
End Blk.

(* ------------------------------------------------------------------ the grant blocks of a document *)
Definition gidx (i : nat) : text := digits_of_N (N.of_nat i).
Lemma gblk_B st i g : gblk st i g = flat (B (gidx i) (gp_num g) (gp_fa g) (gp_fb g) (gp_sh g) (gp_sa g) (gp_sb g) (gp_ea g) (gp_eb g) st).
Proof. reflexivity. Qed.

Section Rows.
Context {A : Type} (m : text -> option (A * text)) (g : guard) (Hg : guarded m g) (val : nat -> gp -> A) (k : nat).
Hypothesis Hfact : forall st i gr, gp_ok gr ->
  blk_fact (gidx i) (gp_num gr) (gp_fa gr) (gp_fb gr) (gp_sh gr) (gp_sa gr) (gp_sb gr) (gp_ea gr) (gp_eb gr) m g st (val i gr) k.

Definition grem (st : bool) (i : nat) (gr : gp) : text :=
  flat (skipn k (B (gidx i) (gp_num gr) (gp_fa gr) (gp_fb gr) (gp_sh gr) (gp_sa gr) (gp_sb gr) (gp_ea gr) (gp_eb gr) st)).

Lemma gp_B_ok st i gr : gp_ok gr ->
  Forall seg_ok (B (gidx i) (gp_num gr) (gp_fa gr) (gp_fb gr) (gp_sh gr) (gp_sa gr) (gp_sb gr) (gp_ea gr) (gp_eb gr) st).
Proof.
  intros (N1 & N2 & N3 & F & S & Sa & E). apply B_ok; auto. apply digits_of_N_ok.
Qed.

Lemma rows_hit st i gr R : gp_ok gr -> after_blk st R -> find m (gblk st i gr ++ R) = Some (val i gr, grem st i gr ++ R).
Proof. intros Hok HR. rewrite gblk_B. exact (proj1 (Hfact st i gr Hok) R HR). Qed.
Lemma rows_skip st i gr R : gp_ok gr -> find m (grem st i gr ++ R) = find m R.
Proof.
  intros Hok. unfold grem. rewrite <- (find_seek m g Hg _ R).
  - rewrite (proj2 (Hfact st i gr Hok)). reflexivity.
  - pose proof (gp_B_ok st i gr Hok) as H. rewrite <- (firstn_skipn k _) in H. apply Forall_app in H. exact (proj2 H).
Qed.

Lemma gblk_nonnil st i gr : (1 <= length (gblk st i gr))%nat.
Proof. unfold gblk, grant_segs, grant_segs'. cbn [flat seg_text app]. rewrite !app_length. cbn [length k_Grant_]. lia. Qed.
Lemma blocks_length st gs : forall i, (length gs <= length (blocks (gblk st) i gs))%nat.
Proof.
  induction gs as [|gr gs IH]; intros i; [cbn; lia|]. cbn [blocks length]. rewrite app_length.
  pose proof (gblk_nonnil st i gr). specialize (IH (S i)). lia.
Qed.

(* the rows of one kind over the whole body *)
Lemma rows_all st gs hd tl :
  Forall gp_ok gs -> (forall X, find m (hd ++ X) = find m X) -> after_blk st tl -> find m tl = None ->
  all_matches m (hd ++ blocks (gblk st) 1 gs ++ tl) = vals val 1 gs.
Proof.
  intros Hgs Hhd Htl Hn. unfold all_matches.
  rewrite (amf_find_eq m _ (blocks (gblk st) 1 gs ++ tl) _ (Hhd _)).
  apply (all_matches_fuel_blocks m gp_ok (after_blk st) (gblk st) (grem st) val); auto.
  - intros i gr R. apply rows_hit.
  - intros i gr R. apply rows_skip.
  - intros i gr R. apply after_blk_gblk.
  - rewrite !app_length. pose proof (blocks_length st gs 1). lia.
Qed.
End Rows.

Definition eso_hd : text := k_exercise_details ++ [10; 10].
Definition eso_tl (st : bool) : text := sty st eso0_ind eso1_ind ++ k_exercise_date.
Definition eso_body (st : bool) (gs : list gp) : text := eso_hd ++ blocks (gblk st) 1 gs ++ eso_tl st.

Lemma after_blk_tl st : after_blk st (eso_tl st).
Proof. exists 69. eexists. split; [reflexivity|repeat split; reflexivity]. Qed.

Ltac hd_skip Hg :=
  intros X; match goal with |- find ?m _ = _ =>
    rewrite <- (find_seek m _ Hg [SL eso_hd] X ltac:(repeat constructor)) end;
  match goal with |- find _ (flat ?S ++ _) = _ => let s' := eval vm_compute in S in change S with s' end; reflexivity.
Ltac tl_none Hg :=
  match goal with |- find ?m (eso_tl ?b) = None =>
    destruct b;
    [ change (eso_tl true) with (flat [SL eso1_ind; SL k_exercise_date])
    | change (eso_tl false) with (flat [SL eso0_ind; SL k_exercise_date]) ];
    (apply (find_none m _ Hg eq_refl); [repeat constructor|vm_compute; reflexivity])
  end.

Lemma body_idx st gs : Forall gp_ok gs -> length (all_matches m_grant_idx (eso_body st gs)) = length gs.
Proof.
  intros H. unfold eso_body.
  rewrite (rows_all m_grant_idx _ g_grant_idx (fun i _ => gidx i) 3); auto.
  - apply vals_length.
  - intros s i gr (N1 & N2 & N3 & F & S & Sa & E). apply blk_idx; auto. apply digits_of_N_ok.
  - apply after_blk_tl.
  - tl_none g_grant_idx.
Qed.

Ltac body_rows Hg fact kk :=
  intros H; unfold eso_body;
  match goal with |- all_matches ?m _ = map ?f _ =>
    rewrite (rows_all m _ Hg (fun _ gr => f gr) kk); auto;
    [ apply vals_const
    | intros s i gr (N1 & N2 & N3 & F & S & Sa & E); apply fact; auto; apply digits_of_N_ok
    | apply after_blk_tl
    | tl_none Hg ]
  end.

Lemma body_nums st gs : Forall gp_ok gs ->
  all_matches (m_row k_grant_number vp_digits) (eso_body st gs) = map gp_num gs.
Proof. body_rows (g_row k_grant_number vp_digits) blk_num 5%nat. Qed.
Lemma body_fmvs st gs : Forall gp_ok gs ->
  all_matches (m_row k_exercise_mv vp_dollar_dcd) (eso_body st gs) = map (fun gr => gp_fa gr ++ 46 :: gp_fb gr) gs.
Proof. body_rows (g_row k_exercise_mv vp_dollar_dcd) blk_fmv 9%nat. Qed.
Lemma body_shares st gs : Forall gp_ok gs ->
  all_matches (m_row k_shares_exercised vp_dcd) (eso_body st gs) = map gp_sh gs.
Proof. body_rows (g_row k_shares_exercised vp_dcd) blk_shares 11%nat. Qed.
Lemma body_sales st gs : Forall gp_ok gs ->
  all_matches (m_row k_sale_price vp_dollar_dcd) (eso_body st gs) = map (fun gr => gp_sa gr ++ 46 :: gp_sb gr) gs.
Proof. body_rows (g_row k_sale_price vp_dollar_dcd) blk_sale 15%nat. Qed.
Lemma body_fees st gs : Forall gp_ok gs ->
  all_matches (m_row k_comission_fee vp_dollar_dcd) (eso_body st gs) = map (fun gr => gp_ea gr ++ 46 :: gp_eb gr) gs.
Proof. body_rows (g_row k_comission_fee vp_dollar_dcd) blk_fee 19%nat. Qed.

(* ------------------------------------------------------------------ the block area as one field *)
Definition is_blk (c : N) : bool :=
  is_digit c || is_upper c || is_lower c || (c =? 32) || (c =? 10) || (c =? 36) || (c =? 47) || (c =? 44) || (c =? 46).
Lemma c_blk_reps c (H : is_blk c = true) : In c (nrange 48 10 ++ nrange 65 26 ++ nrange 97 26 ++ [32; 10; 36; 47; 44; 46]).
Proof.
  unfold is_blk in H. repeat (apply orb_true_iff in H; destruct H as [H|H]).
  - unfold is_digit in H. range_tac. apply in_app_l, in_nrange; lia.
  - unfold is_upper in H. range_tac. apply in_app_r, in_app_l, in_nrange; lia.
  - unfold is_lower in H. range_tac. apply in_app_r, in_app_r, in_app_l, in_nrange; lia.
  - apply N.eqb_eq in H. subst. apply in_app_r, in_app_r, in_app_r. cbn. tauto.
  - apply N.eqb_eq in H. subst. apply in_app_r, in_app_r, in_app_r. cbn. tauto.
  - apply N.eqb_eq in H. subst. apply in_app_r, in_app_r, in_app_r. cbn. tauto.
  - apply N.eqb_eq in H. subst. apply in_app_r, in_app_r, in_app_r. cbn. tauto.
  - apply N.eqb_eq in H. subst. apply in_app_r, in_app_r, in_app_r. cbn. tauto.
  - apply N.eqb_eq in H. subst. apply in_app_r, in_app_r, in_app_r. cbn. tauto.
Qed.
Definition c_blk : cls := {| mem := is_blk; reps := _; reps_ok := c_blk_reps |}.

Definition seg_in (p : N -> bool) (s : seg) : bool :=
  match s with SL t => forallb p t | SF k _ => forallb p (reps k) end.
Lemma flat_in p d : Forall seg_ok d -> forallb (seg_in p) d = true -> forallb p (flat d) = true.
Proof.
  intros Hd. induction Hd as [|s d Hs Hd IH]; intros H; [reflexivity|].
  cbn [forallb] in H. apply andb_true_iff in H. destruct H as [H1 H2].
  cbn [flat]. rewrite forallb_app, (IH H2), andb_true_r.
  destruct s as [t|k v]; cbn [seg_in seg_text] in *; [exact H1|].
  destruct Hs as [_ Hm]. rewrite forallb_forall in *. intros x Hx. apply H1, reps_ok, Hm, Hx.
Qed.
Lemma gblk_in_blk st i gr : gp_ok gr -> forallb is_blk (gblk st i gr) = true.
Proof.
  intros H. unfold gblk. apply flat_in; [apply grant_segs_ok; exact H|]. destruct st; vm_compute; reflexivity.
Qed.
Lemma blocks_in_blk st gs : Forall gp_ok gs -> forall i, forallb is_blk (blocks (gblk st) i gs) = true.
Proof.
  induction 1 as [|gr gs Hg Hgs IH]; intros i; [reflexivity|].
  cbn [blocks]. rewrite forallb_app, (gblk_in_blk st i gr Hg), IH. reflexivity.
Qed.
Lemma blocks_nonnil st gs i : gs <> [] -> blocks (gblk st) i gs <> [].
Proof.
  destruct gs as [|gr gs]; [congruence|]. intros _ H. apply (f_equal (@length N)) in H.
  cbn [blocks] in H. rewrite app_length in H. pose proof (gblk_nonnil st i gr). cbn [length] in H. lia.
Qed.

(* a key cannot straddle from a text into a continuation none of whose prefixes is a proper suffix of the key *)
Fixpoint tails (k : text) : list text := match k with [] => [] | _ :: r => k :: tails r end.
Lemma strip_prefix_in_field T : forall u K r,
  forallb (fun K2 => negb (starts_with K2 T)) (tails K) = true ->
  strip_prefix K (u ++ T) = Some r -> exists u0 u', u = u0 ++ u' /\ r = u' ++ T.
Proof.
  induction u as [|c u IH]; intros K r HK H.
  - destruct K as [|k K]; [cbn in H; inversion H; exists [], []; split; reflexivity|].
    cbn [tails forallb] in HK. apply andb_true_iff in HK. destruct HK as [H1 _]. apply negb_true_iff in H1.
    unfold starts_with in H1. cbn [app] in H. rewrite H in H1. discriminate.
  - destruct K as [|k K]; [cbn in H; inversion H; exists [], (c :: u); split; reflexivity|].
    cbn [app strip_prefix] in H. destruct (k =? c); [|discriminate].
    cbn [tails forallb] in HK. apply andb_true_iff in HK. destruct HK as [_ HK].
    destruct (IH K r HK H) as (u0 & u' & -> & ->). exists (c :: u0), u'. split; reflexivity.
Qed.

(* ------------------------------------------------------------------ tactics (as in EtradeTextRT.v) *)
Ltac trunc1 :=
  idtac; match goal with
  | |- context [flat (?s1 :: ?R)] =>
      change (flat (s1 :: R)) with (seg_text s1 ++ flat R); generalize (flat R); intro
  end.
Ltac const_hit := erewrite find_hit; [|vm_compute; reflexivity].
Ltac const_get Hg Hok :=
  apply is_ok_ex; unfold get1; seek_with Hg Hok; trunc1; const_hit; reflexivity.

(* ------------------------------------------------------------------ the exercise type *)
Lemma prefixes_line_app v : forallb not_nl v = true -> forall acc s,
  exists l, prefixes_line acc (v ++ s) = l ++ prefixes_line (rev v ++ acc) s.
Proof.
  induction v as [|c v IH]; intros Hv acc s; [exists []; reflexivity|].
  cbn [forallb] in Hv. apply andb_true_iff in Hv. destruct Hv as [Hc Hv]. unfold not_nl in Hc. apply negb_true_iff in Hc.
  destruct (IH Hv (c :: acc) s) as [l El]. exists ((acc, (c :: v) ++ s) :: l).
  cbn [app prefixes_line]. rewrite Hc, El. cbn [rev]. rewrite <- app_assoc. reflexivity.
Qed.

Definition type_cand (pr : text * text) : option (text * text) :=
  match sp1_registration (snd pr) with Some rest => Some (rev (fst pr), rest) | None => None end.
Lemma type_tail_eval st acc X :
  first_some type_cand (rev (prefixes_line acc (sty st eso0_3 eso1_3 ++ X)))
  = Some (rev acc, skipn 13 (sty st eso0_3 eso1_3) ++ X).
Proof. destruct st; reflexivity. Qed.

Lemma g_exercise_type : guarded m_exercise_type (glit k_exercise_type).
Proof. exact (guarded_lit _ _). Qed.
Lemma g_exercise_date : guarded m_exercise_date (glit k_exercise_date_c).
Proof. exact (guarded_lit _ _). Qed.
Lemma g_eso_shares_sold : guarded m_eso_shares_sold (glit k_shares_sold).
Proof. exact (guarded_lit _ _). Qed.

Lemma m_exercise_type_hit st ty X :
  forallb is_typec ty = true -> hd_in nonspace ty = true ->
  m_exercise_type (k_exercise_type ++ 32 :: ty ++ sty st eso0_3 eso1_3 ++ X)
  = Some (ty, skipn 13 (sty st eso0_3 eso1_3) ++ X).
Proof.
  intros Ht Hh. unfold m_exercise_type, lit. rewrite strip_prefix_app. cbn [obind].
  change (is_space 32) with true. cbn iota.
  destruct ty as [|c ty']; [discriminate|]. cbn [hd_in] in Hh. unfold nonspace in Hh. apply negb_true_iff in Hh.
  cbn [app skip_spaces]. rewrite Hh.
  change (c :: ty' ++ sty st eso0_3 eso1_3 ++ X) with ((c :: ty') ++ sty st eso0_3 eso1_3 ++ X).
  destruct (prefixes_line_app (c :: ty') (forallb_imp is_typec not_nl _ typec_not_nl Ht) [] (sty st eso0_3 eso1_3 ++ X)) as [l El].
  rewrite El, rev_app_distr, first_some_app, app_nil_r.
  change (fun pr : text * text => match sp1_registration (snd pr) with
                                  | Some rest => Some (rev (fst pr), rest) | None => None end) with type_cand.
  rewrite type_tail_eval, rev_involutive. reflexivity.
Qed.

(* "Shares Sold\s+([\d,\.]+)" cannot match inside the exercise type (no digit, comma or point there), nor
   straddle into " Registration" *)
Lemma typec_run_none u T' : forallb is_typec u = true ->
  run1 is_dcd (skip_spaces (u ++ 32 :: 82 :: T')) = None.
Proof.
  induction u as [|c u IH]; intros Hu; [reflexivity|].
  cbn [forallb] in Hu. apply andb_true_iff in Hu. destruct Hu as [Hc Hu]. cbn [app skip_spaces].
  destruct (is_space c) eqn:E; [apply IH; exact Hu|].
  apply run1_hd. cbn [hd_in]. unfold is_typec in Hc. unfold is_dcd, is_digit, is_comma, is_dot.
  repeat (apply orb_true_iff in Hc; destruct Hc as [Hc|Hc]).
  - unfold is_upper in Hc. range_tac. repeat (apply orb_false_iff; split); try (apply N.eqb_neq; lia).
    apply andb_false_iff. right. apply N.leb_gt. lia.
  - unfold is_lower in Hc. range_tac. repeat (apply orb_false_iff; split); try (apply N.eqb_neq; lia).
    apply andb_false_iff. right. apply N.leb_gt. lia.
  - apply N.eqb_eq in Hc. subst c. reflexivity.
  - apply N.eqb_eq in Hc. subst c. discriminate E.
Qed.
Lemma shares_sold_not_in_type u T' : forallb is_typec u = true ->
  m_eso_shares_sold (u ++ 32 :: 82 :: T') = None.
Proof.
  intros Hu. unfold m_eso_shares_sold, lit.
  destruct (strip_prefix k_shares_sold (u ++ 32 :: 82 :: T')) as [r|] eqn:E; [|reflexivity]. cbn [obind].
  destruct (strip_prefix_in_field (32 :: 82 :: T') u k_shares_sold r eq_refl E) as (u0 & u' & -> & ->).
  rewrite forallb_app in Hu. apply andb_true_iff in Hu. destruct Hu as [_ Hu'].
  destruct u' as [|c u'].
  - reflexivity.
  - cbn [app sp1]. destruct (is_space c); [|reflexivity]. cbn [obind].
    cbn [forallb] in Hu'. apply andb_true_iff in Hu'. destruct Hu' as [_ Hu'']. apply typec_run_none. exact Hu''.
Qed.
Lemma find_shares_sold_skip_type ty T' : forallb is_typec ty = true ->
  find m_eso_shares_sold (ty ++ 32 :: 82 :: T') = find m_eso_shares_sold (32 :: 82 :: T').
Proof.
  induction ty as [|c ty IH]; intros Ht; [reflexivity|].
  cbn [app]. rewrite find_cons_none.
  - apply IH. cbn [forallb] in Ht. apply andb_true_iff in Ht. exact (proj2 Ht).
  - exact (shares_sold_not_in_type (c :: ty) T' Ht).
Qed.

(* ------------------------------------------------------------------ the document *)
Definition e4pre (st : bool) : text := firstn (length (sty st eso0_4 eso1_4) - 18) (sty st eso0_4 eso1_4).
Lemma e4_split st : sty st eso0_4 eso1_4 = e4pre st ++ eso_hd.
Proof. destruct st; reflexivity. Qed.

Section ESO.
Variables sym m d y ty sold : text.
Variable gs : list gp.
Hypothesis Hsym : sym <> [] /\ forallb is_updot sym = true /\ forallb is_symc sym = true.
Hypothesis Hdate : digits m /\ digits d /\ digits y /\ m <> [] /\ d <> [] /\ y <> [].
Hypothesis Hpd : parse_mdy (m, d, y) = Ok (date_ord (m, d, y)).
Hypothesis Hty : forallb is_typec ty = true /\ ty <> [] /\ hd_in nonspace ty = true.
Hypothesis Hsold : cintparts sold.
Hypothesis Hgs : Forall gp_ok gs /\ gs <> [].

Definition BLK (st : bool) : text := blocks (gblk st) 1 gs.
Definition eso_head (st : bool) : list seg :=
  [SL (sty st eso0_0 eso1_0); SF c_updot sym; SL (sty st eso0_1 eso1_1); SF c_updot sym; SL (sty st eso0_2 eso1_2)].
Definition eso_dtail (st : bool) : list seg :=
  [SF c_updot sym; SL (sty st eso0_2 eso1_2); SF c_type ty; SL (sty st eso0_3 eso1_3); SF c_dc sold;
   SL (sty st eso0_4 eso1_4); SF c_blk (BLK st); SL (sty st eso0_9 eso1_9)] ++ dateseg 47 m d y
  ++ [SL (sty st eso0_10 eso1_10); SF c_updot sym; SL (sty st eso0_11 eso1_11)].
Definition eso_doc (st : bool) : list seg :=
  [SL (sty st eso0_0 eso1_0); SF c_updot sym; SL (sty st eso0_1 eso1_1)] ++ eso_dtail st.

Lemma eso_dtail_ok st : Forall seg_ok (eso_dtail st).
Proof.
  destruct Hsym as (? & ? & ?), Hdate as (? & ? & ? & ? & ? & ?), Hty as (? & ? & ?), Hgs as [G1 G2].
  pose proof (cint_nonnil _ Hsold). destruct Hsold as (? & ? & ?).
  pose proof (blocks_in_blk st gs G1 1). pose proof (blocks_nonnil st gs 1 G2).
  unfold eso_dtail, dateseg. cbn [app]. repeat constructor; auto.
Qed.
Lemma eso_doc_ok st : Forall seg_ok (eso_doc st).
Proof.
  unfold eso_doc. apply Forall_app. split; [|apply eso_dtail_ok]. destruct Hsym as (? & ? & ?). repeat constructor; auto.
Qed.

Lemma eso_employee st : exists x, get1 m_employee (flat (eso_doc st)) = Ok x.
Proof. destruct st; [const_get g_employee (eso_doc_ok true)|const_get g_employee (eso_doc_ok false)]. Qed.
Lemma eso_account st : exists x, get1 m_account (flat (eso_doc st)) = Ok x.
Proof. destruct st; [const_get g_account (eso_doc_ok true)|const_get g_account (eso_doc_ok false)]. Qed.
Lemma eso_no_later_group st : find_last sym_group_at (flat (eso_dtail st)) = None.
Proof.
  destruct st; (apply (find_last_none sym_group_at _ guarded_sym_group sym_group_nil);
    [apply eso_dtail_ok | vm_compute; reflexivity]).
Qed.
Lemma eso_symbol st : get1 m_symbol (flat (eso_doc st)) = Ok sym.
Proof.
  destruct Hsym as (Hn & _ & Hsc). unfold get1. destruct st.
  - seek_with g_symbol (eso_doc_ok true). erewrite find_hit; [reflexivity|].
    refine (m_symbol_hit (41 :: 32 :: nil) (removelast eso1_1) sym (flat (eso_dtail true)) Hn Hsc _ (eso_no_later_group true)).
    eexists. reflexivity.
  - seek_with g_symbol (eso_doc_ok false). erewrite find_hit; [reflexivity|].
    refine (m_symbol_hit (41 :: 32 :: nil) (removelast eso0_1) sym (flat (eso_dtail false)) Hn Hsc _ (eso_no_later_group false)).
    eexists. reflexivity.
Qed.

Lemma eso_type st : exists rest, get1 m_exercise_type (flat (eso_doc st)) = Ok (ty, rest).
Proof.
  destruct Hty as (T1 & T2 & T3). apply get1_of_fst.
  destruct st.
  - seek_with g_exercise_type (eso_doc_ok true).
    match goal with |- context [flat (?s1 :: ?s2 :: ?s3 :: ?R)] =>
      change (flat (s1 :: s2 :: s3 :: R)) with (seg_text s1 ++ seg_text s2 ++ seg_text s3 ++ flat R); generalize (flat R); intro X end.
    erewrite find_hit; cycle 1. { cbn [seg_text]. exact (m_exercise_type_hit true ty X T1 T3). } reflexivity.
  - seek_with g_exercise_type (eso_doc_ok false).
    match goal with |- context [flat (?s1 :: ?s2 :: ?s3 :: ?R)] =>
      change (flat (s1 :: s2 :: s3 :: R)) with (seg_text s1 ++ seg_text s2 ++ seg_text s3 ++ flat R); generalize (flat R); intro X end.
    erewrite find_hit; cycle 1. { cbn [seg_text]. exact (m_exercise_type_hit false ty X T1 T3). } reflexivity.
Qed.

Lemma eso_date st : exists rest, get1 m_exercise_date (flat (eso_doc st)) = Ok ((m, d, y), rest).
Proof.
  destruct Hdate as (? & ? & ? & ? & ? & ?). apply get1_of_fst.
  destruct st; [seek_with g_exercise_date (eso_doc_ok true)|seek_with g_exercise_date (eso_doc_ok false)];
  (trunc7; erewrite find_hit; cycle 1;
   [ unfold m_exercise_date, lit, k_exercise_date_c; cbn [seg_text app strip_prefix N.eqb Pos.eqb obind];
     rewrite sp1_sp; cbn [obind]; rewrite skip_sp_digits by auto; rewrite date3_hit by (auto; reflexivity); reflexivity
   | reflexivity ]).
Qed.

Definition eso_header_segs (st : bool) : list seg :=
  [SL (sty st eso0_0 eso1_0); SF c_updot sym; SL (sty st eso0_1 eso1_1); SF c_updot sym; SL (sty st eso0_2 eso1_2);
   SF c_type ty; SL (sty st eso0_3 eso1_3); SF c_dc sold].
Definition eso_header (st : bool) : text := flat (eso_header_segs st) ++ e4pre st.
Definition eso_after_date (st : bool) : list seg :=
  [SL [58; 32; 32]] ++ dateseg 47 m d y ++ [SL (sty st eso0_10 eso1_10); SF c_updot sym; SL (sty st eso0_11 eso1_11)].

Lemma eso_doc_text st :
  flat (eso_doc st) = eso_header st ++ eso_body st gs ++ flat (eso_after_date st).
Proof.
  unfold eso_doc, eso_dtail, eso_header, eso_header_segs, eso_body, eso_tl, eso_after_date, BLK.
  cbn [app flat seg_text]. rewrite (e4_split st). 
  assert (E9 : sty st eso0_9 eso1_9 = sty st eso0_ind eso1_ind ++ k_exercise_date ++ [58; 32; 32]) by (destruct st; reflexivity).
  rewrite E9. rewrite <- !app_assoc. reflexivity.
Qed.

Lemma occ_nil key : key <> [] -> occ key [] = None.
Proof. destruct key; [congruence|reflexivity]. Qed.

Lemma blk_clear_details st i gr R : gp_ok gr ->
  find_last (occ k_exercise_details) R = None -> find_last (occ k_exercise_details) (gblk st i gr ++ R) = None.
Proof.
  intros Hok HR. unfold gblk. apply (find_last_none_open (occ k_exercise_details) _ (occ_guarded k_exercise_details));
    [apply grant_segs_ok; exact Hok| |exact HR].
  unfold grant_segs. destruct st; vm_compute; reflexivity.
Qed.

Lemma eso_split_doc st : eso_split (flat (eso_doc st)) = Some (eso_header st, eso_body st gs).
Proof.
  destruct Hgs as [G1 G2]. unfold eso_split. rewrite eso_doc_text.
  (* the last "Exercise Date" *)
  assert (S1 : split_last k_exercise_date (eso_header st ++ eso_body st gs ++ flat (eso_after_date st))
               = Some (eso_header st ++ eso_hd ++ BLK st ++ sty st eso0_ind eso1_ind,
                       k_exercise_date ++ flat (eso_after_date st))).
  { unfold eso_body, eso_tl. 
    replace (eso_header st ++ (eso_hd ++ blocks (gblk st) 1 gs ++ sty st eso0_ind eso1_ind ++ k_exercise_date) ++ flat (eso_after_date st))
      with ((eso_header st ++ eso_hd ++ BLK st ++ sty st eso0_ind eso1_ind) ++ k_exercise_date ++ flat (eso_after_date st))
      by (unfold BLK; rewrite <- !app_assoc; reflexivity).
    rewrite (split_last_app k_exercise_date _ _ [] (k_exercise_date ++ flat (eso_after_date st))); [rewrite app_nil_r; reflexivity|].
    change (k_exercise_date ++ flat (eso_after_date st)) with (69 :: flat (SL (tl k_exercise_date) :: eso_after_date st)).
    apply split_last_here; [|reflexivity]. apply split_last_none.
    apply (find_last_none (occ k_exercise_date) _ (occ_guarded k_exercise_date) eq_refl).
    - destruct Hsym as (? & ? & ?), Hdate as (? & ? & ? & ? & ? & ?). unfold eso_after_date, dateseg. cbn [app]. repeat constructor; auto.
    - destruct st; vm_compute; reflexivity. }
  rewrite S1. cbn [obind].
  (* the last "Exercise Details" before it *)
  assert (S2 : split_last k_exercise_details (eso_header st ++ eso_hd ++ BLK st ++ sty st eso0_ind eso1_ind)
               = Some (eso_header st, eso_hd ++ BLK st ++ sty st eso0_ind eso1_ind)).
  { rewrite (split_last_app k_exercise_details _ _ [] (eso_hd ++ BLK st ++ sty st eso0_ind eso1_ind)); [rewrite app_nil_r; reflexivity|].
    change (eso_hd ++ BLK st ++ sty st eso0_ind eso1_ind)
      with (69 :: flat [SL (tl eso_hd)] ++ (BLK st ++ sty st eso0_ind eso1_ind)).
    apply split_last_here; [|reflexivity]. apply split_last_none.
    apply (find_last_none_open (occ k_exercise_details) _ (occ_guarded k_exercise_details)); [repeat constructor|vm_compute; reflexivity|].
    unfold BLK. apply (find_last_none_blocks (occ k_exercise_details) gp_ok (gblk st)); [|exact G1|].
    - intros i gr R. apply blk_clear_details.
    - destruct st; vm_compute; reflexivity. }
  rewrite S2. cbn [obind]. unfold eso_body, eso_tl, BLK. rewrite <- !app_assoc. reflexivity.
Qed.

Lemma eso_shares_sold st : get1_dec m_eso_shares_sold (eso_header st) = Ok (dval sold).
Proof.
  destruct Hty as (T1 & T2 & T3), Hsym as (? & ? & ?).
  pose proof (cint_nonnil _ Hsold) as Ns. pose proof Hsold as (S1 & S2 & S3).
  assert (Hns : forallb nonspace sold = true).
  { apply (forallb_imp is_dc nonspace); [|exact S2].
    intros c Hc. unfold nonspace. apply negb_true_iff. unfold is_dc in Hc. apply orb_true_iff in Hc. destruct Hc as [Hc|Hc];
      [apply digit_nonspace; exact Hc|unfold is_comma in Hc; apply N.eqb_eq in Hc; subst c; reflexivity]. }
  assert (F : find m_eso_shares_sold (eso_header st) = Some (sold, e4pre st)).
  { unfold eso_header, eso_header_segs.
    replace (flat [SL (sty st eso0_0 eso1_0); SF c_updot sym; SL (sty st eso0_1 eso1_1); SF c_updot sym; SL (sty st eso0_2 eso1_2);
                  SF c_type ty; SL (sty st eso0_3 eso1_3); SF c_dc sold] ++ e4pre st)
      with (flat (eso_head st) ++ (ty ++ sty st eso0_3 eso1_3 ++ sold ++ e4pre st))
      by (unfold eso_head; cbn [flat seg_text app]; rewrite <- ?app_assoc, ?app_nil_r; cbn [app]; reflexivity).
    rewrite <- (find_seek m_eso_shares_sold _ g_eso_shares_sold (eso_head st)).
    2:{ unfold eso_head. repeat constructor; auto. }
    assert (E0 : seek (glit k_shares_sold) true (eso_head st) = []) by (destruct st; vm_compute; reflexivity).
    rewrite E0. cbn [flat app].
    assert (E3 : sty st eso0_3 eso1_3 = 32 :: 82 :: skipn 2 (sty st eso0_3 eso1_3)) by (destruct st; reflexivity).
    rewrite E3 at 1. cbn [app]. rewrite find_shares_sold_skip_type by exact T1.
    replace (32 :: 82 :: skipn 2 (sty st eso0_3 eso1_3) ++ sold ++ e4pre st)
      with (flat [SL (sty st eso0_3 eso1_3); SF c_dc sold; SL (e4pre st)])
      by (cbn [flat seg_text]; rewrite E3 at 1; rewrite app_nil_r; reflexivity).
    assert (Hok : Forall seg_ok [SL (sty st eso0_3 eso1_3); SF c_dc sold; SL (e4pre st)]) by (repeat constructor; auto).
    destruct st.
    - seek_with g_eso_shares_sold Hok. apply find_hit. unfold m_eso_shares_sold, lit, k_shares_sold.
      cbn [flat seg_text app strip_prefix N.eqb Pos.eqb obind]. rewrite sp1_sp. cbn [obind].
      rewrite (skip_nonspace_fld sold) by auto.
      rewrite run1_dcd_cint by (auto; reflexivity). reflexivity.
    - seek_with g_eso_shares_sold Hok. apply find_hit. unfold m_eso_shares_sold, lit, k_shares_sold.
      cbn [flat seg_text app strip_prefix N.eqb Pos.eqb obind]. rewrite sp1_sp. cbn [obind].
      rewrite (skip_nonspace_fld sold) by auto.
      rewrite run1_dcd_cint by (auto; reflexivity). reflexivity. }
  unfold get1_dec, get1. rewrite F. cbn [bind]. apply parse_large_cint. exact Hsold.
Qed.

(* ------------------------------------------------------------------ parse_eso_data on the document *)
Definition grant_of (gr : gp) : eso_grant :=
  {| g_num := digits_value (gp_num gr); g_fmv := dval (gp_fa gr ++ 46 :: gp_fb gr); g_shares := dval (gp_sh gr);
     g_sale := dval (gp_sa gr ++ 46 :: gp_sb gr); g_fee := dval (gp_ea gr ++ 46 :: gp_eb gr) |}.

Lemma map_res_parse {T} (f : T -> text) (l : list T) :
  Forall (fun x => parse_large (f x) = Ok (dval (f x))) l ->
  map_res parse_large (map f l) = Ok (map (fun x => dval (f x)) l).
Proof.
  induction 1 as [|x l Hx Hl IH]; [reflexivity|]. cbn [map map_res]. rewrite Hx. cbn [bind]. rewrite IH. reflexivity.
Qed.
Lemma u64_num gr : gp_ok gr -> u64_or_zero (gp_num gr) = digits_value (gp_num gr).
Proof.
  intros (N1 & N2 & N3 & _). unfold u64_or_zero.
  pose proof (digits_value_bound (gp_num gr) N1 0) as H. unfold digits_value.
  assert (H10 : 10 ^ N.of_nat (length (gp_num gr)) <= 10 ^ 19) by (apply N.pow_le_mono_r; lia).
  change (10 ^ 19) with 10000000000000000000 in H10.
  destruct (N.leb_spec (fold_left (fun acc c => acc * 10 + digit_val c) (gp_num gr) 0) 18446744073709551615); [reflexivity|lia].
Qed.
Lemma zip_grants_map gl : forall idx, length idx = length gl -> Forall gp_ok gl ->
  zip_grants idx (map u64_or_zero (map gp_num gl)) (map (fun gr => dval (gp_fa gr ++ 46 :: gp_fb gr)) gl)
    (map (fun gr => dval (gp_sh gr)) gl) (map (fun gr => dval (gp_sa gr ++ 46 :: gp_sb gr)) gl)
    (map (fun gr => dval (gp_ea gr ++ 46 :: gp_eb gr)) gl) = map grant_of gl.
Proof.
  induction gl as [|gr gl IH]; intros idx Hl HF; [destruct idx; reflexivity|].
  destruct idx as [|i idx]; [discriminate|]. inversion HF; subst. cbn [map zip_grants].
  rewrite IH by (auto; cbn in Hl; lia). unfold grant_of at 2. rewrite u64_num by assumption. reflexivity.
Qed.

Lemma search_rows_ok key vp (f : gp -> text) st :
  all_matches (m_row key vp) (eso_body st gs) = map f gs -> search_for_rows key vp (eso_body st gs) = Ok (map f gs).
Proof.
  intros H. unfold search_for_rows. rewrite H. destruct Hgs as [_ G2]. destruct gs; [congruence|reflexivity].
Qed.

Lemma eso_data st :
  parse_eso_data (flat (eso_doc st))
  = Ok {| e_sym := sym; e_type := ty; e_date := date_ord (m, d, y); e_sold := dval sold; e_grants := map grant_of gs |}.
Proof.
  intros. destruct Hgs as [G1 G2]. unfold parse_eso_data. rewrite eso_split_doc.
  rewrite (search_rows_ok _ _ gp_num st (body_nums st gs G1)). cbn [bind].
  unfold search_for_dec_rows.
  rewrite (search_rows_ok _ _ (fun gr => gp_fa gr ++ 46 :: gp_fb gr) st (body_fmvs st gs G1)). cbn [bind].
  rewrite (map_res_parse (fun gr => gp_fa gr ++ 46 :: gp_fb gr) gs).
  2:{ eapply Forall_impl; [|exact G1]. intros gr (N1 & N2 & N3 & F & S & Sa & E). apply parse_large_cdec; assumption. }
  cbn [bind].
  rewrite (search_rows_ok _ _ gp_sh st (body_shares st gs G1)). cbn [bind].
  rewrite (map_res_parse gp_sh gs).
  2:{ eapply Forall_impl; [|exact G1]. intros gr (N1 & N2 & N3 & F & S & Sa & E). apply parse_large_cint; assumption. }
  cbn [bind].
  rewrite (search_rows_ok _ _ (fun gr => gp_sa gr ++ 46 :: gp_sb gr) st (body_sales st gs G1)). cbn [bind].
  rewrite (map_res_parse (fun gr => gp_sa gr ++ 46 :: gp_sb gr) gs).
  2:{ eapply Forall_impl; [|exact G1]. intros gr (N1 & N2 & N3 & F & S & Sa & E). apply parse_large_cdec; assumption. }
  cbn [bind].
  rewrite (search_rows_ok _ _ (fun gr => gp_ea gr ++ 46 :: gp_eb gr) st (body_fees st gs G1)). cbn [bind].
  rewrite (map_res_parse (fun gr => gp_ea gr ++ 46 :: gp_eb gr) gs).
  2:{ eapply Forall_impl; [|exact G1]. intros gr (N1 & N2 & N3 & F & S & Sa & E). apply parse_large_cdec; assumption. }
  cbn [bind].
  rewrite !map_length, (body_idx st gs G1). unfold rows_complete. rewrite !Nat.eqb_refl. cbn [andb negb].
  unfold parse_common.
  destruct (eso_employee st) as [x1 E1]. rewrite E1. cbn [bind].
  destruct (eso_account st) as [x2 E2]. rewrite E2. cbn [bind].
  rewrite eso_symbol. cbn [bind].
  destruct (eso_type st) as [x3 E3]. rewrite E3. cbn [bind].
  destruct (eso_date st) as [x4 E4]. rewrite E4. cbn [bind].
  destruct Hdate as (D1 & D2 & D3 & D4 & D5 & D6).
  rewrite Hpd. cbn [bind]. rewrite eso_shares_sold. cbn [bind].
  rewrite zip_grants_map; [reflexivity|apply (body_idx st gs G1)|exact G1].
Qed.

Definition gl_of (gr : gp) : grant_lay :=
  {| gl_num := gp_num gr; gl_fmv := gp_fa gr ++ 46 :: gp_fb gr; gl_shares := gp_sh gr;
     gl_sale := gp_sa gr ++ 46 :: gp_sb gr; gl_fee := gp_ea gr ++ 46 :: gp_eb gr |}.
Definition eso_lay_of : eso_lay :=
  {| ol_sym := sym; ol_date := (m, d, y); ol_type := ty; ol_sold := sold; ol_grants := map gl_of gs |}.

Lemma fee_sum_ok : forall l acc, fees_ok acc (map (fun gr => dval (gl_fee (gl_of gr))) l) = true ->
  fee_sum acc (map grant_of l) = Ok (dec_sum_from acc (map (fun gr => dval (gl_fee (gl_of gr))) l)).
Proof.
  induction l as [|gr l IH]; intros acc H; [reflexivity|]. cbn [map fees_ok fee_sum dec_sum_from] in *.
  change (g_fee (grant_of gr)) with (dval (gl_fee (gl_of gr))).
  unfold dec_sum. destruct (a_add dec acc (dval (gl_fee (gl_of gr)))) as [v| |]; try discriminate. cbn [bind]. apply IH. exact H.
Qed.

Lemma eso_entries_ok e S fees : forall l,
  (forall gr, In gr l -> g_sale (grant_of gr) = S) ->
  e_sym e = sym -> e_date e = date_ord (m, d, y) -> e_sold e = dval sold -> e_type e = ty ->
  eso_entries e S fees (map grant_of l) = Ok (eso_records_aux eso_lay_of fees (map gl_of l)).
Proof.
  induction l as [|gr l IH]; intros HS E1 E2 E3 E4; [reflexivity|].
  cbn [map eso_entries eso_records_aux].
  assert (Q : Qceqb (g_sale (grant_of gr)) S = true) by (apply Qceqb_true; apply HS; left; reflexivity). rewrite Q. cbn [negb].
  rewrite IH; auto; [|intros g Hg; apply HS; right; exact Hg]. cbn [bind].
  rewrite E1, E2, E3, E4. destruct l; reflexivity.
Qed.

Variable S : Qc.
Hypothesis Hsales : forall gr, In gr gs -> Qceqb (dval (gl_sale (gl_of gr))) S = true.
Hypothesis Hfees : fees_ok 0%Qc (map (fun gr => dval (gl_fee (gl_of gr))) gs) = true.

Lemma eso_parse st : parse_eso (flat (eso_doc st)) = Ok (eso_records eso_lay_of).
Proof.
  unfold parse_eso. rewrite eso_data. cbn [bind e_grants].
  destruct Hgs as [G1 G2].
  assert (HS : forall gr, In gr gs -> g_sale (grant_of gr) = S).
  { intros gr Hin. apply Qceqb_true. exact (Hsales gr Hin). }
  destruct (rev (map grant_of gs)) as [|lastg r] eqn:ER.
  { apply (f_equal (@length eso_grant)) in ER. rewrite rev_length, map_length in ER. cbn in ER.
    apply length_zero_iff_nil in ER. congruence. }
  assert (HL : g_sale lastg = S).
  { assert (Hin : In lastg (map grant_of gs)) by (apply in_rev; rewrite ER; left; reflexivity).
    apply in_map_iff in Hin. destruct Hin as (gr & <- & Hgr). apply HS. exact Hgr. }
  rewrite (fee_sum_ok gs 0%Qc Hfees). cbn [bind]. rewrite HL.
  rewrite (eso_entries_ok _ S _ gs HS); try reflexivity.
  unfold eso_records. cbn [ol_grants eso_lay_of]. rewrite map_map. reflexivity.
Qed.

Lemma render_grants_blocks st : forall l i, render_grants st i (map gl_of l) = blocks (gblk st) i l.
Proof.
  induction l as [|gr l IH]; intros i; [reflexivity|]. cbn [map render_grants blocks]. rewrite IH. f_equal.
  unfold render_grant, gblk, grant_segs, grant_segs', cdecseg, gl_of.
  cbn [gl_num gl_fmv gl_shares gl_sale gl_fee flat seg_text app]. rewrite <- ?app_assoc, ?app_nil_r. cbn [app]. reflexivity.
Qed.
Lemma render_eso_doc st : render_eso st eso_lay_of = flat (eso_doc st).
Proof.
  unfold render_eso, eso_lay_of, eso_doc, eso_dtail, dateseg, date_text, BLK.
  cbn [ol_sym ol_date ol_type ol_sold ol_grants app flat seg_text]. rewrite render_grants_blocks.
  norm_apps. rewrite ?app_nil_r. reflexivity.
Qed.
End ESO.

(* ------------------------------------------------------------------ the theorem *)
Lemma is_cdec_span t : is_cdec t = true ->
  exists a b, span is_dc t = (a, 46 :: b) /\ t = a ++ 46 :: b /\ cdecparts a b.
Proof.
  intros H. pose proof H as H0. unfold is_cdec in H. destruct (span is_dc t) as [a r] eqn:E.
  destruct (span_spec _ _ _ _ E) as [H1 H2]. destruct r as [|c b]; [discriminate|].
  destruct (c =? 46) eqn:Ec.
  2:{ exfalso. destruct c as [|p]; [discriminate|]. repeat (destruct p as [p|p|]; try discriminate). }
  apply N.eqb_eq in Ec. subst c. exists a, b. split; [reflexivity|]. split; [exact H1|].
  repeat (apply andb_true_iff in H; destruct H as [H ?]). repeat split; auto.
  - intros ->. discriminate.
  - apply Nat.leb_le. assumption.
Qed.

Definition gp_of (g : grant_lay) : gp :=
  let '(fa, r1) := span is_dc (gl_fmv g) in
  let '(sa, r2) := span is_dc (gl_sale g) in
  let '(ea, r3) := span is_dc (gl_fee g) in
  {| gp_num := gl_num g; gp_fa := fa; gp_fb := tl r1; gp_sh := gl_shares g; gp_sa := sa; gp_sb := tl r2;
     gp_ea := ea; gp_eb := tl r3 |}.

Lemma grant_ok_spec S g : grant_ok S g = true ->
  gp_ok (gp_of g) /\ gl_of (gp_of g) = g /\ Qceqb (dval (gl_sale g)) S = true.
Proof.
  unfold grant_ok. intros H.
  apply andb_true_iff in H; destruct H as [H Wq]. apply andb_true_iff in H; destruct H as [H Wfee].
  apply andb_true_iff in H; destruct H as [H Wsale]. apply andb_true_iff in H; destruct H as [H Wsh].
  apply andb_true_iff in H; destruct H as [H Wfmv]. apply andb_true_iff in H; destruct H as [Wnum Wlen].
  destruct (is_cdec_span _ Wfmv) as (fa & fb & E1 & T1 & C1). destruct (is_cdec_span _ Wsale) as (sa & sb & E2 & T2 & C2).
  destruct (is_cdec_span _ Wfee) as (ea & eb & E3 & T3 & C3). destruct (num_ok_spec _ Wnum) as [N1 N2].
  apply Nat.leb_le in Wlen. pose proof (is_cint_spec _ Wsh) as CS.
  unfold gp_of. rewrite E1, E2, E3. cbn [tl]. split; [|split; [|exact Wq]].
  - unfold gp_ok. cbn [gp_num gp_fa gp_fb gp_sh gp_sa gp_sb gp_ea gp_eb]. repeat split; auto; try apply C1; try apply C2; try apply C3; try apply CS.
  - unfold gl_of. cbn [gp_num gp_fa gp_fb gp_sh gp_sa gp_sb gp_ea gp_eb]. rewrite <- T1, <- T2, <- T3. destruct g; reflexivity.
Qed.

Theorem eso_text_roundtrip st r : wf_eso r = true -> parse_eso (render_eso st r) = Ok (eso_records r).
Proof.
  destruct r as [sym [[m d] y] ty sold gl]. unfold wf_eso. cbn [ol_sym ol_date ol_type ol_sold ol_grants]. intros H.
  apply andb_true_iff in H; destruct H as [H Wfees]. apply andb_true_iff in H; destruct H as [H Wgr].
  apply andb_true_iff in H; destruct H as [H Wsold]. apply andb_true_iff in H; destruct H as [H Wty].
  apply andb_true_iff in H; destruct H as [Wsym Wdate].
  destruct gl as [|g0 gl0] eqn:EGL; [discriminate|]. rewrite <- EGL in *.
  set (S := dval (gl_sale g0)) in *.
  assert (HG : Forall (fun g => gp_ok (gp_of g) /\ gl_of (gp_of g) = g /\ Qceqb (dval (gl_sale g)) S = true) gl).
  { apply Forall_forall. intros g Hg. apply grant_ok_spec. rewrite forallb_forall in Wgr. exact (Wgr g Hg). }
  assert (EM : map gl_of (map gp_of gl) = gl).
  { rewrite map_map. rewrite <- (map_id gl) at 2. apply map_ext_in. intros g Hg. rewrite Forall_forall in HG. apply (HG g Hg). }
  destruct (date_ok_spec _ _ _ Wdate) as (D1 & D2 & D3 & D4 & D5 & D6 & Hpd).
  pose proof (sym_ok_spec _ Wsym) as Hsym.
  unfold type_ok in Wty. apply andb_true_iff in Wty; destruct Wty as [Wty T4].
  apply andb_true_iff in Wty; destruct Wty as [Wty T3]. apply andb_true_iff in Wty; destruct Wty as [T1 T2].
  apply Nat.leb_le in T2. assert (Nt : ty <> []) by (intros ->; cbn in T2; lia).
  pose proof (eso_parse sym m d y ty sold (map gp_of gl) Hsym (conj D1 (conj D2 (conj D3 (conj D4 (conj D5 D6))))) Hpd
                (conj T1 (conj Nt T3)) (is_cint_spec _ Wsold)) as P.
  assert (G : Forall gp_ok (map gp_of gl) /\ map gp_of gl <> []).
  { split; [|rewrite EGL; discriminate]. apply Forall_forall. intros x Hx. apply in_map_iff in Hx. destruct Hx as (g & <- & Hg).
    rewrite Forall_forall in HG. apply (HG g Hg). }
  specialize (P G S).
  assert (HSa : forall gr, In gr (map gp_of gl) -> Qceqb (dval (gl_sale (gl_of gr))) S = true).
  { intros gr Hx. apply in_map_iff in Hx. destruct Hx as (g & <- & Hg). rewrite Forall_forall in HG.
    destruct (HG g Hg) as (_ & E & Q). rewrite E. exact Q. }
  assert (HF : fees_ok 0%Qc (map (fun gr => dval (gl_fee (gl_of gr))) (map gp_of gl)) = true).
  { rewrite map_map. erewrite map_ext_in; [exact Wfees|]. intros g Hg. cbn beta. rewrite Forall_forall in HG.
    destruct (HG g Hg) as (_ & E & _). rewrite E. reflexivity. }
  specialize (P HSa HF st).
  pose proof (render_eso_doc sym m d y ty sold (map gp_of gl) st) as RD.
  unfold eso_lay_of in P, RD. rewrite EM in P, RD. rewrite RD. exact P.
Qed.
