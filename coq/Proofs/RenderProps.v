(* Theorems about the render model (Model/Render.v): cent rounding and its
   text, display-only rounding, row locality and the meaning of the cells the
   seeded defects hit, the footer, totality. *)
From Coq Require Import List NArith ZArith QArith Qcanon Bool Lia Lqa Sorted.
From ACB Require Import Model.CsvFields Proofs.CsvDigits Proofs.CsvFieldProps.
From ACB Require Import Base.Outcome Base.QcExtra Base.Fit Base.Arith Model.Tx Model.Ledger Model.Sfl
     Model.DeltaList Model.App Model.Gains Model.Render Proofs.Tactics Proofs.GainsProps.
Import ListNotations.

(* ================================================================ A. rounding to cents *)
Local Open Scope Z_scope.

(* rha n d is the integer nearest to n/d, the one away from zero on a tie *)
Lemma rha_spec n d :
  (0 <= n -> 2 * rha n d * Zpos d - Zpos d <= 2 * n < 2 * rha n d * Zpos d + Zpos d) /\
  (n < 0 -> 2 * rha n d * Zpos d - Zpos d < 2 * n <= 2 * rha n d * Zpos d + Zpos d).
Proof.
  unfold rha.
  pose proof (Z.div_mod (Z.abs n) (Zpos d) ltac:(lia)) as Hdm.
  pose proof (Z.mod_pos_bound (Z.abs n) (Zpos d) ltac:(lia)) as Hr.
  set (q := Z.abs n / Zpos d) in *. set (r := Z.abs n mod Zpos d) in *.
  destruct (Z.leb_spec (Zpos d) (2 * r)) as [Hh|Hh]; destruct (Z.ltb_spec n 0) as [Hn|Hn];
    split; intros H; try lia; nia.
Qed.

Lemma rha_unique n d m :
  (0 <= n -> 2 * m * Zpos d - Zpos d <= 2 * n < 2 * m * Zpos d + Zpos d) ->
  (n < 0 -> 2 * m * Zpos d - Zpos d < 2 * n <= 2 * m * Zpos d + Zpos d) ->
  m = rha n d.
Proof.
  intros Hp Hn. destruct (rha_spec n d) as [Sp Sn].
  destruct (Z.ltb_spec n 0) as [H|H].
  - specialize (Hn H). specialize (Sn H). nia.
  - specialize (Hp H). specialize (Sp H). nia.
Qed.

Local Open Scope Qc_scope.

Lemma Qc_num_den (q : Qc) : (this q == Qnum (this q) # Qden (this q))%Q.
Proof. destruct q as [[a b] Hc]. reflexivity. Qed.

Lemma Qc_sign (q : Qc) : (0 <= q <-> (0 <= Qnum (this q))%Z) /\ (q < 0 <-> (Qnum (this q) < 0)%Z).
Proof. destruct q as [[a b] Hc]. unfold Qcle, Qclt, Qle, Qlt. simpl. split; split; lia. Qed.

(* q * 100 against a half-integer bound, in integers *)
Lemma cents_cmp (q : Qc) (n : Z) :
  let a := Qnum (this q) in let b := Zpos (Qden (this q)) in
  ((QcZ n - Qcfrac 1 2 <= q * QcZ 100) <-> (2 * n * b - b <= 2 * (a * 100))%Z) /\
  ((QcZ n - Qcfrac 1 2 < q * QcZ 100) <-> (2 * n * b - b < 2 * (a * 100))%Z) /\
  ((q * QcZ 100 <= QcZ n + Qcfrac 1 2) <-> (2 * (a * 100) <= 2 * n * b + b)%Z) /\
  ((q * QcZ 100 < QcZ n + Qcfrac 1 2) <-> (2 * (a * 100) < 2 * n * b + b)%Z).
Proof.
  destruct q as [[a b] Hc]. cbn [this Qnum Qden].
  unfold QcZ, Qcfrac. qc_unfold. cbn [this]. rewrite ?Qred_correct.
  unfold Qle, Qlt, Qminus, Qplus, Qmult, Qopp, inject_Z. cbn [Qnum Qden].
  repeat split; intros H; nia.
Qed.

(* round_cents q is the integer nearest to 100 q; on a tie the one away from zero *)
Theorem round_cents_spec (q : Qc) :
  (0 <= q -> QcZ (round_cents q) - Qcfrac 1 2 <= q * QcZ 100 /\ q * QcZ 100 < QcZ (round_cents q) + Qcfrac 1 2) /\
  (q < 0 -> QcZ (round_cents q) - Qcfrac 1 2 < q * QcZ 100 /\ q * QcZ 100 <= QcZ (round_cents q) + Qcfrac 1 2).
Proof.
  destruct (cents_cmp q (round_cents q)) as (C1 & C2 & C3 & C4).
  destruct (rha_spec (Qnum (this q) * 100) (Qden (this q))) as [Sp Sn].
  fold (round_cents q) in Sp, Sn.
  destruct (Qc_sign q) as [Hs1 Hs2].
  split; intros H.
  - apply Hs1 in H. split; [apply C1 | apply C4]; lia.
  - apply Hs2 in H. split; [apply C2 | apply C3]; lia.
Qed.

Theorem round_cents_unique (q : Qc) (n : Z) :
  (0 <= q -> QcZ n - Qcfrac 1 2 <= q * QcZ 100 /\ q * QcZ 100 < QcZ n + Qcfrac 1 2) ->
  (q < 0 -> QcZ n - Qcfrac 1 2 < q * QcZ 100 /\ q * QcZ 100 <= QcZ n + Qcfrac 1 2) ->
  n = round_cents q.
Proof.
  intros Hp Hn.
  destruct (cents_cmp q n) as (C1 & C2 & C3 & C4).
  destruct (Qc_sign q) as [Hs1 Hs2].
  apply rha_unique.
  - intros H. assert (H' : 0 <= q) by (apply Hs1; lia). destruct (Hp H') as [A1 A2].
    apply C1 in A1. apply C4 in A2. lia.
  - intros H. assert (H' : q < 0) by (apply Hs2; lia). destruct (Hn H') as [A1 A2].
    apply C2 in A1. apply C3 in A2. lia.
Qed.

(* ---------------------------------------------------------------- the cent text *)
Local Open Scope N_scope.

(* shape of dollar_precision_str's text: optional '-', whole digits (at least
   one), '.', exactly two decimals; its digits are |round_cents q|; the sign
   is shown iff the ROUNDED figure is negative (never "-0.00") *)
Theorem dollar2_text_shape (q : Qc) :
  exists (w : list N) (d1 d2 : N),
    dollar2_text q = (if (round_cents q <? 0)%Z then [45] else []) ++ chars w ++ [46] ++ chars [d1; d2]
    /\ Forall (fun d => d < 10) w /\ w <> [] /\ d1 < 10 /\ d2 < 10
    /\ Z.of_N (val w * 100 + d1 * 10 + d2) = Z.abs (round_cents q).
Proof.
  unfold dollar2_text, fmt_prec. set (d := cents_dec q).
  destruct (mant_digits_split d) as [HM [HL [HV HF]]].
  destruct (digits_parts d) as [HW HFr]. destruct (whole'_props _ HW) as [HW' [HVW HN]].
  change (d_scale d) with 2%nat in HL.
  destruct (frac_digits d) as [|d1 [|d2 [|d3 r]]] eqn:Ef; try discriminate HL.
  exists (whole' (whole_digits d)), d1, d2.
  change (d_neg d) with (round_cents q <? 0)%Z. rewrite whole_chars_eq.
  cbn [Nat.eqb]. change (take_pad 2 [d1; d2]) with [d1; d2].
  split; [reflexivity|]. split; [exact HW'|]. split.
  { intros E. rewrite E in HN. discriminate. }
  inversion HFr as [|x1 l1 Hd1 Hr1]; subst. inversion Hr1 as [|x2 l2 Hd2 Hr2]; subst.
  split; [exact Hd1|]. split; [exact Hd2|].
  rewrite HM, val_app in HV. cbn [length] in HV. rewrite HVW.
  change (CsvFields.pow10 2) with 100 in HV. change (val [d1; d2]) with ((0 * 10 + d1) * 10 + d2) in HV.
  change (d_mant d) with (Z.to_N (Z.abs (round_cents q))) in HV.
  assert (E : val (whole_digits d) * 100 + d1 * 10 + d2 = Z.to_N (Z.abs (round_cents q))) by lia.
  rewrite E. apply Z2N.id. lia.
Qed.

(* Decimal::from_str of the text gives back the rounded figure (same sign and
   value), whenever the cents fit the 96-bit mantissa *)
Theorem dollar2_text_parses (q : Qc) :
  (Z.abs (round_cents q) <= Z.of_N CsvFields.max_mant)%Z ->
  exists d', parse_dec (dollar2_text q) = Ok d' /\ dec_same (cents_dec q) d'.
Proof.
  intros Hb. set (d := cents_dec q).
  assert (Hv : valid_dec d = true).
  { apply valid_dec_spec. unfold d, cents_dec. cbn [d_mant d_scale d_neg mk_dec].
    split; [lia|]. split; [lia|]. intros Hn E. apply Z.ltb_lt in Hn. lia. }
  destruct (parse_tsmp d 2 Hv ltac:(lia)) as [d' [Hp [Hs _]]].
  exists d'. split; [|exact Hs].
  assert (Ht : tsmp 2 d = dollar2_text q).
  { unfold tsmp, dollar2_text. fold d.
    destruct (frac_core d) as [core [j [_ [_ Hsum]]]]. change (d_scale d) with 2%nat in Hsum.
    replace (Nat.max (trimmed_prec d) 2) with 2%nat by lia. reflexivity. }
  rewrite <- Ht. exact Hp.
Qed.

(* the value of the rounded decimal *)
Lemma cents_dec_value (q : Qc) :
  d_scale (cents_dec q) = 2%nat /\
  (if d_neg (cents_dec q) then - Z.of_N (d_mant (cents_dec q)) else Z.of_N (d_mant (cents_dec q)))%Z = round_cents q.
Proof.
  unfold cents_dec. cbn [d_scale d_neg d_mant mk_dec]. split; [reflexivity|].
  destruct (Z.ltb_spec (round_cents q) 0); rewrite Z2N.id; lia.
Qed.

(* ================================================================ B. rounding is display-only *)
Local Close Scope N_scope.
Local Open Scope Qc_scope.

Lemma map_res_bind {T U V} (f : U -> V) (m : res T) (k : T -> res U) :
  map_res f (bind m k) = bind m (fun x => map_res f (k x)).
Proof. destruct m; reflexivity. Qed.
Lemma bind_map_res {T U V} (f : T -> U) (m : res T) (k : U -> res V) :
  bind (map_res f m) k = bind m (fun x => k (f x)).
Proof. destruct m; reflexivity. Qed.

Ltac dres :=
  repeat (rewrite ?bind_map_res;
          match goal with
          | |- context [bind ?m _] => destruct m; cbn [bind map_res]; try reflexivity
          end).

Definition round_parts (p : rowparts) : rowparts :=
  {| rp_amount := round_cell (rp_amount p); rp_shares := rp_shares p; rp_aps := round_cell (rp_aps p);
     rp_acb := round_cell (rp_acb p); rp_com := round_cell (rp_com p); rp_gain := round_cell (rp_gain p);
     rp_bal := round_cell (rp_bal p) |}.
Definition round_state (st : rstate) : rstate :=
  {| rs_rows := map (map round_cell) (rs_rows st); rs_sfl := rs_sfl st; rs_over := rs_over st |}.

Section Display.
  Variable A : arith.
  Variable cur : tx -> bytes * bytes.

  Lemma curr_str_round v : curr_str false v = round_amount (curr_str true v).
  Proof. reflexivity. Qed.

  Lemma curr_with_fx_round v r c :
    curr_with_fx A false v r c = map_res round_cell (curr_with_fx A true v r c).
  Proof. unfold curr_with_fx. destruct (cur_is_default c); [reflexivity|]. dres. Qed.

  Lemma plus_minus_round v sp : plus_minus A false v sp = map_res round_pm (plus_minus A true v sp).
  Proof. unfold plus_minus. destruct (Qcltb v 0); [|reflexivity]. dres. Qed.

  Lemma plus_minus_opt_round o sp :
    plus_minus_opt A false o sp = map_res round_cell (plus_minus_opt A true o sp).
  Proof.
    unfold plus_minus_opt. destruct o as [v|]; [|reflexivity].
    rewrite plus_minus_round, bind_map_res. dres.
  Qed.

  Lemma sfl_note_round d : sfl_note A false d = map_res (option_map round_note) (sfl_note A true d).
  Proof.
    unfold sfl_note. destruct (t_act (d_tx d)); try reflexivity.
    destruct (is_superficial_loss d); [|reflexivity].
    destruct (d_sfl d) as [i|]; [|reflexivity].
    rewrite plus_minus_round, bind_map_res. dres.
  Qed.

  Lemma acb_of_sale_round d sh : acb_of_sale A false d sh = map_res round_cell (acb_of_sale A true d sh).
  Proof.
    unfold acb_of_sale. destruct (Qcltb 0 (s_sh (d_pre d))); [|reflexivity].
    destruct (s_acb (d_pre d)); [|reflexivity]. dres.
  Qed.

  Lemma gain_cell_round d note :
    gain_cell A false d (option_map round_note note) = map_res round_cell (gain_cell A true d note).
  Proof.
    unfold gain_cell. destruct (d_gain d); [|reflexivity].
    rewrite plus_minus_round, bind_map_res. dres.
  Qed.

  Lemma commission_cell_round t com crate :
    commission_cell A false cur t com crate = map_res round_cell (commission_cell A true cur t com crate).
  Proof. unfold commission_cell. destruct (Qceqb com 0); [reflexivity|]. apply curr_with_fx_round. Qed.

  Lemma row_parts_round d note :
    row_parts A false cur d (option_map round_note note) = map_res round_parts (row_parts A true cur d note).
  Proof.
    unfold row_parts. destruct (t_act (d_tx d)).
    - destruct (a_mul A sh aps); cbn [bind map_res]; try reflexivity.
      rewrite !curr_with_fx_round, commission_cell_round, !bind_map_res.
      dres.
    - destruct (a_mul A sh aps); cbn [bind map_res]; try reflexivity.
      rewrite !curr_with_fx_round, acb_of_sale_round, gain_cell_round, commission_cell_round, !bind_map_res.
      destruct (curr_with_fx A true a rate (fst (cur (d_tx d)))); cbn [bind map_res]; try reflexivity.
      destruct (curr_with_fx A true aps rate (fst (cur (d_tx d)))); cbn [bind map_res]; try reflexivity.
      rewrite !bind_map_res.
      destruct (acb_of_sale A true d sh); cbn [bind map_res]; try reflexivity.
      rewrite !bind_map_res.
      destruct (gain_cell A true d note); cbn [bind map_res]; try reflexivity.
      rewrite !bind_map_res.
      destruct (commission_cell A true cur (d_tx d) com crate); cbn [bind map_res]; reflexivity.
    - destruct (a_mul A (s_sh (d_pre d)) aps); cbn [bind map_res]; try reflexivity.
      rewrite !curr_with_fx_round, !bind_map_res. dres.
    - dres.
    - dres.
  Qed.

  Lemma acb_per_share_round d : acb_per_share A false d = map_res round_cell (acb_per_share A true d).
  Proof.
    unfold acb_per_share. destruct (Qcltb 0 (s_sh (d_post d))); [|reflexivity].
    destruct (s_acb (d_post d)); [|reflexivity]. dres.
  Qed.

  Lemma acb_delta_cell_round d : acb_delta_cell A false d = map_res round_cell (acb_delta_cell A true d).
  Proof.
    unfold acb_delta_cell. destruct (s_acb (d_pre d)), (s_acb (d_post d)); try reflexivity.
    destruct (a_sub A q0 q); cbn [bind map_res]; try reflexivity. apply plus_minus_opt_round.
  Qed.

  Lemma opt_dollar_str_round o : opt_dollar_str false o = round_cell (opt_dollar_str true o).
  Proof. destruct o; reflexivity. Qed.

  Lemma render_row_round d note :
    render_row A false cur d (option_map round_note note)
    = map_res (map round_cell) (render_row A true cur d note).
  Proof.
    unfold render_row. rewrite row_parts_round, acb_per_share_round, acb_delta_cell_round, !bind_map_res.
    destruct (row_parts A true cur d note) as [p| |]; cbn [bind map_res]; try reflexivity.
    rewrite !bind_map_res.
    destruct (acb_per_share A true d); cbn [bind map_res]; try reflexivity.
    rewrite !bind_map_res.
    destruct (acb_delta_cell A true d); cbn [bind map_res]; try reflexivity.
    rewrite opt_dollar_str_round. reflexivity.
  Qed.

  Lemma render_step_round st d :
    render_step A false cur (round_state st) d = map_res round_state (render_step A true cur st d).
  Proof.
    unfold render_step. rewrite sfl_note_round, bind_map_res.
    destruct (sfl_note A true d) as [note| |]; cbn [bind map_res]; try reflexivity.
    rewrite render_row_round, bind_map_res.
    destruct (render_row A true cur d note) as [row| |]; cbn [bind map_res]; try reflexivity.
    unfold round_state. destruct note as [n|]; cbn [option_map rs_rows rs_sfl rs_over round_note sn_over];
      rewrite map_app; reflexivity.
  Qed.

  Lemma render_loop_round ds : forall st,
    render_loop A false cur (round_state st) ds = map_res round_state (render_loop A true cur st ds).
  Proof.
    induction ds as [|d ds IH]; intros st; cbn [render_loop]; [reflexivity|].
    rewrite render_step_round, bind_map_res.
    destruct (render_step A true cur st d) as [st'| |]; cbn [bind map_res]; try reflexivity.
    apply IH.
  Qed.

  Lemma year_values_round g ys :
    year_values A false g ys = map_res (map round_pm) (year_values A true g ys).
  Proof.
    induction ys as [|y ys IH]; cbn [year_values]; [reflexivity|].
    destruct (zlookup y (g_years g)); cbn [bind map_res]; [|reflexivity].
    rewrite plus_minus_round, bind_map_res.
    destruct (plus_minus A true q false); cbn [bind map_res]; try reflexivity.
    rewrite IH, bind_map_res. dres.
  Qed.

  (* the default-precision table is the cell-wise cent rounding of the
     full-precision table: no rounded figure is an input of any other figure *)
  Theorem render_table_display_only ds g :
    render_table A false cur ds g = map_res round_table (render_table A true cur ds g).
  Proof.
    unfold render_table.
    change {| rs_rows := []; rs_sfl := false; rs_over := false |}
      with (round_state {| rs_rows := []; rs_sfl := false; rs_over := false |}) at 1.
    rewrite render_loop_round, bind_map_res.
    destruct (render_loop A true cur _ ds) as [st| |]; cbn [bind map_res]; try reflexivity.
    rewrite year_values_round, bind_map_res.
    destruct (year_values A true g (years_sorted g)) as [yv| |]; cbn [bind map_res]; try reflexivity.
    rewrite plus_minus_round, bind_map_res.
    destruct (plus_minus A true (g_total g) false); cbn [bind map_res]; reflexivity.
  Qed.

  Theorem render_aggregate_display_only g :
    render_aggregate A false g = map_res round_aggregate (render_aggregate A true g).
  Proof.
    unfold render_aggregate. rewrite year_values_round, bind_map_res.
    destruct (year_values A true g (years_sorted g)) as [yv| |]; cbn [bind map_res]; try reflexivity.
    rewrite plus_minus_round, bind_map_res.
    destruct (plus_minus A true (g_total g) false) as [t| |]; cbn [bind map_res]; try reflexivity.
    unfold round_aggregate. rewrite map_app. cbn [map fst snd]. do 2 f_equal.
    generalize (map LYear (years_sorted g)). intros l. revert yv.
    induction l as [|a l IH]; intros [|p yv]; cbn [combine map fst snd]; try reflexivity.
    f_equal. apply IH.
  Qed.

  Lemma render_tables_round l : forall gs,
    render_tables A false cur l gs
    = map_res (map (fun x => (fst x, round_table (snd x)))) (render_tables A true cur l gs).
  Proof.
    induction l as [|[s [ds o]] l IH]; intros [|g gs]; cbn [render_tables]; try reflexivity.
    rewrite render_table_display_only, bind_map_res.
    destruct (render_table A true cur ds _) as [t| |]; cbn [bind map_res]; try reflexivity.
    rewrite IH, bind_map_res. dres.
  Qed.

  (* the whole report (every security table and the aggregate table) *)
  Theorem render_results_display_only secs :
    render_results A false cur secs = map_res round_report (render_results A true cur secs).
  Proof.
    unfold render_results. destruct (first_panic secs); [reflexivity|].
    destruct (all_sec_gains A secs) as [gs| |]; cbn [bind map_res]; try reflexivity.
    destruct (aggregate A gains0 (some_gains gs)) as [agg| |]; cbn [bind map_res]; try reflexivity.
    rewrite render_tables_round, bind_map_res.
    destruct (render_tables A true cur secs gs) as [tabs| |]; cbn [bind map_res]; try reflexivity.
    rewrite render_aggregate_display_only, bind_map_res.
    destruct (render_aggregate A true agg); cbn [bind map_res]; reflexivity.
  Qed.
End Display.

Theorem render_app_display_only A cur inits rows :
  render_app A false cur inits rows = map_res round_report (render_app A true cur inits rows).
Proof.
  unfold render_app. destruct (run_app A inits rows); cbn [bind map_res]; try reflexivity.
  apply render_results_display_only.
Qed.
