(* Theorems about the render model (Model/Render.v): cent rounding and its
   text, display-only rounding, row locality and the meaning of the cells the
   seeded defects hit, the footer, totality. *)
From Coq Require Import List NArith ZArith QArith Qcanon Bool Lia Lqa Sorted.
From ACB Require Import Model.CsvFields Proofs.CsvDigits Proofs.CsvFieldProps.
From ACB Require Import Base.Outcome Base.QcExtra Base.Fit Base.Arith Model.Tx Model.Ledger Model.Sfl
     Model.DeltaList Model.App Model.Gains Model.Render Proofs.Tactics Proofs.GainsProps.
Import ListNotations.

(* ================================================================ A. rounding to cents *)
Local Open Scope Z_scope.

(* rha n d is the integer nearest to n/d, the one away from zero on a tie *)
Lemma rha_spec n d :
  (0 <= n -> 2 * rha n d * Zpos d - Zpos d <= 2 * n < 2 * rha n d * Zpos d + Zpos d) /\
  (n < 0 -> 2 * rha n d * Zpos d - Zpos d < 2 * n <= 2 * rha n d * Zpos d + Zpos d).
Proof.
  unfold rha.
  pose proof (Z.div_mod (Z.abs n) (Zpos d) ltac:(lia)) as Hdm.
  pose proof (Z.mod_pos_bound (Z.abs n) (Zpos d) ltac:(lia)) as Hr.
  set (q := Z.abs n / Zpos d) in *. set (r := Z.abs n mod Zpos d) in *.
  destruct (Z.leb_spec (Zpos d) (2 * r)) as [Hh|Hh]; destruct (Z.ltb_spec n 0) as [Hn|Hn];
    split; intros H; try lia; nia.
Qed.

Lemma rha_unique n d m :
  (0 <= n -> 2 * m * Zpos d - Zpos d <= 2 * n < 2 * m * Zpos d + Zpos d) ->
  (n < 0 -> 2 * m * Zpos d - Zpos d < 2 * n <= 2 * m * Zpos d + Zpos d) ->
  m = rha n d.
Proof.
  intros Hp Hn. destruct (rha_spec n d) as [Sp Sn].
  destruct (Z.ltb_spec n 0) as [H|H].
  - specialize (Hn H). specialize (Sn H). nia.
  - specialize (Hp H). specialize (Sp H). nia.
Qed.

Local Open Scope Qc_scope.

Lemma Qc_num_den (q : Qc) : (this q == Qnum (this q) # Qden (this q))%Q.
Proof. destruct q as [[a b] Hc]. reflexivity. Qed.

Lemma Qc_sign (q : Qc) : (0 <= q <-> (0 <= Qnum (this q))%Z) /\ (q < 0 <-> (Qnum (this q) < 0)%Z).
Proof. destruct q as [[a b] Hc]. unfold Qcle, Qclt, Qle, Qlt. simpl. split; split; lia. Qed.

(* q * 100 against a half-integer bound, in integers *)
Lemma cents_cmp (q : Qc) (n : Z) :
  let a := Qnum (this q) in let b := Zpos (Qden (this q)) in
  ((QcZ n - Qcfrac 1 2 <= q * QcZ 100) <-> (2 * n * b - b <= 2 * (a * 100))%Z) /\
  ((QcZ n - Qcfrac 1 2 < q * QcZ 100) <-> (2 * n * b - b < 2 * (a * 100))%Z) /\
  ((q * QcZ 100 <= QcZ n + Qcfrac 1 2) <-> (2 * (a * 100) <= 2 * n * b + b)%Z) /\
  ((q * QcZ 100 < QcZ n + Qcfrac 1 2) <-> (2 * (a * 100) < 2 * n * b + b)%Z).
Proof.
  destruct q as [[a b] Hc]. cbn [this Qnum Qden].
  unfold QcZ, Qcfrac. qc_unfold. cbn [this]. rewrite ?Qred_correct.
  unfold Qle, Qlt, Qminus, Qplus, Qmult, Qopp, inject_Z. cbn [Qnum Qden].
  repeat split; intros H; nia.
Qed.

(* round_cents q is the integer nearest to 100 q; on a tie the one away from zero *)
Theorem round_cents_spec (q : Qc) :
  (0 <= q -> QcZ (round_cents q) - Qcfrac 1 2 <= q * QcZ 100 /\ q * QcZ 100 < QcZ (round_cents q) + Qcfrac 1 2) /\
  (q < 0 -> QcZ (round_cents q) - Qcfrac 1 2 < q * QcZ 100 /\ q * QcZ 100 <= QcZ (round_cents q) + Qcfrac 1 2).
Proof.
  destruct (cents_cmp q (round_cents q)) as (C1 & C2 & C3 & C4).
  destruct (rha_spec (Qnum (this q) * 100) (Qden (this q))) as [Sp Sn].
  fold (round_cents q) in Sp, Sn.
  destruct (Qc_sign q) as [Hs1 Hs2].
  split; intros H.
  - apply Hs1 in H. split; [apply C1 | apply C4]; lia.
  - apply Hs2 in H. split; [apply C2 | apply C3]; lia.
Qed.

Theorem round_cents_unique (q : Qc) (n : Z) :
  (0 <= q -> QcZ n - Qcfrac 1 2 <= q * QcZ 100 /\ q * QcZ 100 < QcZ n + Qcfrac 1 2) ->
  (q < 0 -> QcZ n - Qcfrac 1 2 < q * QcZ 100 /\ q * QcZ 100 <= QcZ n + Qcfrac 1 2) ->
  n = round_cents q.
Proof.
  intros Hp Hn.
  destruct (cents_cmp q n) as (C1 & C2 & C3 & C4).
  destruct (Qc_sign q) as [Hs1 Hs2].
  apply rha_unique.
  - intros H. assert (H' : 0 <= q) by (apply Hs1; lia). destruct (Hp H') as [A1 A2].
    apply C1 in A1. apply C4 in A2. lia.
  - intros H. assert (H' : q < 0) by (apply Hs2; lia). destruct (Hn H') as [A1 A2].
    apply C2 in A1. apply C3 in A2. lia.
Qed.

(* ---------------------------------------------------------------- the cent text *)
Local Open Scope N_scope.

(* shape of dollar_precision_str's text: optional '-', whole digits (at least
   one), '.', exactly two decimals; its digits are |round_cents q|; the sign
   is shown iff the ROUNDED figure is negative (never "-0.00") *)
Theorem dollar2_text_shape (q : Qc) :
  exists (w : list N) (d1 d2 : N),
    dollar2_text q = (if (round_cents q <? 0)%Z then [45] else []) ++ chars w ++ [46] ++ chars [d1; d2]
    /\ Forall (fun d => d < 10) w /\ w <> [] /\ d1 < 10 /\ d2 < 10
    /\ Z.of_N (val w * 100 + d1 * 10 + d2) = Z.abs (round_cents q).
Proof.
  unfold dollar2_text, fmt_prec. set (d := cents_dec q).
  destruct (mant_digits_split d) as [HM [HL [HV HF]]].
  destruct (digits_parts d) as [HW HFr]. destruct (whole'_props _ HW) as [HW' [HVW HN]].
  change (d_scale d) with 2%nat in HL.
  destruct (frac_digits d) as [|d1 [|d2 [|d3 r]]] eqn:Ef; try discriminate HL.
  exists (whole' (whole_digits d)), d1, d2.
  change (d_neg d) with (round_cents q <? 0)%Z. rewrite whole_chars_eq.
  cbn [Nat.eqb]. change (take_pad 2 [d1; d2]) with [d1; d2].
  split; [reflexivity|]. split; [exact HW'|]. split.
  { intros E. rewrite E in HN. discriminate. }
  inversion HFr as [|x1 l1 Hd1 Hr1]; subst. inversion Hr1 as [|x2 l2 Hd2 Hr2]; subst.
  split; [exact Hd1|]. split; [exact Hd2|].
  rewrite HM, val_app in HV. cbn [length] in HV. rewrite HVW.
  change (CsvFields.pow10 2) with 100 in HV. change (val [d1; d2]) with ((0 * 10 + d1) * 10 + d2) in HV.
  change (d_mant d) with (Z.to_N (Z.abs (round_cents q))) in HV.
  assert (E : val (whole_digits d) * 100 + d1 * 10 + d2 = Z.to_N (Z.abs (round_cents q))) by lia.
  rewrite E. apply Z2N.id. lia.
Qed.

(* Decimal::from_str of the text gives back the rounded figure (same sign and
   value), whenever the cents fit the 96-bit mantissa *)
Theorem dollar2_text_parses (q : Qc) :
  (Z.abs (round_cents q) <= Z.of_N CsvFields.max_mant)%Z ->
  exists d', parse_dec (dollar2_text q) = Ok d' /\ dec_same (cents_dec q) d'.
Proof.
  intros Hb. set (d := cents_dec q).
  assert (Hv : valid_dec d = true).
  { apply valid_dec_spec. unfold d, cents_dec. cbn [d_mant d_scale d_neg mk_dec].
    split; [lia|]. split; [lia|]. intros Hn E. apply Z.ltb_lt in Hn. lia. }
  destruct (parse_tsmp d 2 Hv ltac:(lia)) as [d' [Hp [Hs _]]].
  exists d'. split; [|exact Hs].
  assert (Ht : tsmp 2 d = dollar2_text q).
  { unfold tsmp, dollar2_text. fold d.
    destruct (frac_core d) as [core [j [_ [_ Hsum]]]]. change (d_scale d) with 2%nat in Hsum.
    replace (Nat.max (trimmed_prec d) 2) with 2%nat by lia. reflexivity. }
  rewrite <- Ht. exact Hp.
Qed.

(* the value of the rounded decimal *)
Lemma cents_dec_value (q : Qc) :
  d_scale (cents_dec q) = 2%nat /\
  (if d_neg (cents_dec q) then - Z.of_N (d_mant (cents_dec q)) else Z.of_N (d_mant (cents_dec q)))%Z = round_cents q.
Proof.
  unfold cents_dec. cbn [d_scale d_neg d_mant mk_dec]. split; [reflexivity|].
  destruct (Z.ltb_spec (round_cents q) 0); rewrite Z2N.id; lia.
Qed.

(* ================================================================ B. rounding is display-only *)
Local Close Scope N_scope.
Local Open Scope Qc_scope.

Lemma map_res_bind {T U V} (f : U -> V) (m : res T) (k : T -> res U) :
  map_res f (bind m k) = bind m (fun x => map_res f (k x)).
Proof. destruct m; reflexivity. Qed.
Lemma bind_map_res {T U V} (f : T -> U) (m : res T) (k : U -> res V) :
  bind (map_res f m) k = bind m (fun x => k (f x)).
Proof. destruct m; reflexivity. Qed.

Ltac dres :=
  repeat (rewrite ?bind_map_res;
          match goal with
          | |- context [bind ?m _] => destruct m; cbn [bind map_res]; try reflexivity
          end).

Definition round_parts (p : rowparts) : rowparts :=
  {| rp_amount := round_cell (rp_amount p); rp_shares := rp_shares p; rp_aps := round_cell (rp_aps p);
     rp_acb := round_cell (rp_acb p); rp_com := round_cell (rp_com p); rp_gain := round_cell (rp_gain p);
     rp_bal := round_cell (rp_bal p) |}.
Definition round_state (st : rstate) : rstate :=
  {| rs_rows := map (map round_cell) (rs_rows st); rs_sfl := rs_sfl st; rs_over := rs_over st |}.

Section Display.
  Variable A : arith.
  Variable cur : tx -> bytes * bytes.

  Lemma curr_str_round v : curr_str false v = round_amount (curr_str true v).
  Proof. reflexivity. Qed.

  Lemma curr_with_fx_round v r c :
    curr_with_fx A false v r c = map_res round_cell (curr_with_fx A true v r c).
  Proof. unfold curr_with_fx. destruct (cur_is_default c); [reflexivity|]. dres. Qed.

  Lemma plus_minus_round v sp : plus_minus A false v sp = map_res round_pm (plus_minus A true v sp).
  Proof. unfold plus_minus. destruct (Qcltb v 0); [|reflexivity]. dres. Qed.

  Lemma plus_minus_opt_round o sp :
    plus_minus_opt A false o sp = map_res round_cell (plus_minus_opt A true o sp).
  Proof.
    unfold plus_minus_opt. destruct o as [v|]; [|reflexivity].
    rewrite plus_minus_round, bind_map_res. dres.
  Qed.

  Lemma sfl_note_round d : sfl_note A false d = map_res (option_map round_note) (sfl_note A true d).
  Proof.
    unfold sfl_note. destruct (t_act (d_tx d)); try reflexivity.
    destruct (is_superficial_loss d); [|reflexivity].
    destruct (d_sfl d) as [i|]; [|reflexivity].
    rewrite plus_minus_round, bind_map_res. dres.
  Qed.

  Lemma acb_of_sale_round d sh : acb_of_sale A false d sh = map_res round_cell (acb_of_sale A true d sh).
  Proof.
    unfold acb_of_sale. destruct (Qcltb 0 (s_sh (d_pre d))); [|reflexivity].
    destruct (s_acb (d_pre d)); [|reflexivity]. dres.
  Qed.

  Lemma gain_cell_round d note :
    gain_cell A false d (option_map round_note note) = map_res round_cell (gain_cell A true d note).
  Proof.
    unfold gain_cell. destruct (d_gain d); [|reflexivity].
    rewrite plus_minus_round, bind_map_res. dres.
  Qed.

  Lemma commission_cell_round t com crate :
    commission_cell A false cur t com crate = map_res round_cell (commission_cell A true cur t com crate).
  Proof. unfold commission_cell. destruct (Qceqb com 0); [reflexivity|]. apply curr_with_fx_round. Qed.

  Lemma row_parts_round d note :
    row_parts A false cur d (option_map round_note note) = map_res round_parts (row_parts A true cur d note).
  Proof.
    unfold row_parts. destruct (t_act (d_tx d)).
    - destruct (a_mul A sh aps); cbn [bind map_res]; try reflexivity.
      rewrite !curr_with_fx_round, commission_cell_round, !bind_map_res.
      dres.
    - destruct (a_mul A sh aps); cbn [bind map_res]; try reflexivity.
      rewrite !curr_with_fx_round, acb_of_sale_round, gain_cell_round, commission_cell_round, !bind_map_res.
      destruct (curr_with_fx A true a rate (fst (cur (d_tx d)))); cbn [bind map_res]; try reflexivity.
      destruct (curr_with_fx A true aps rate (fst (cur (d_tx d)))); cbn [bind map_res]; try reflexivity.
      rewrite !bind_map_res.
      destruct (acb_of_sale A true d sh); cbn [bind map_res]; try reflexivity.
      rewrite !bind_map_res.
      destruct (gain_cell A true d note); cbn [bind map_res]; try reflexivity.
      rewrite !bind_map_res.
      destruct (commission_cell A true cur (d_tx d) com crate); cbn [bind map_res]; reflexivity.
    - destruct (a_mul A (s_sh (d_pre d)) aps); cbn [bind map_res]; try reflexivity.
      rewrite !curr_with_fx_round, !bind_map_res. dres.
    - dres.
    - dres.
  Qed.

  Lemma acb_per_share_round d : acb_per_share A false d = map_res round_cell (acb_per_share A true d).
  Proof.
    unfold acb_per_share. destruct (Qcltb 0 (s_sh (d_post d))); [|reflexivity].
    destruct (s_acb (d_post d)); [|reflexivity]. dres.
  Qed.

  Lemma acb_delta_cell_round d : acb_delta_cell A false d = map_res round_cell (acb_delta_cell A true d).
  Proof.
    unfold acb_delta_cell. destruct (s_acb (d_pre d)), (s_acb (d_post d)); try reflexivity.
    destruct (a_sub A q0 q); cbn [bind map_res]; try reflexivity. apply plus_minus_opt_round.
  Qed.

  Lemma opt_dollar_str_round o : opt_dollar_str false o = round_cell (opt_dollar_str true o).
  Proof. destruct o; reflexivity. Qed.

  Lemma render_row_round d note :
    render_row A false cur d (option_map round_note note)
    = map_res (map round_cell) (render_row A true cur d note).
  Proof.
    unfold render_row. rewrite row_parts_round, acb_per_share_round, acb_delta_cell_round, !bind_map_res.
    destruct (row_parts A true cur d note) as [p| |]; cbn [bind map_res]; try reflexivity.
    rewrite !bind_map_res.
    destruct (acb_per_share A true d); cbn [bind map_res]; try reflexivity.
    rewrite !bind_map_res.
    destruct (acb_delta_cell A true d); cbn [bind map_res]; try reflexivity.
    rewrite opt_dollar_str_round. reflexivity.
  Qed.

  Lemma render_step_round st d :
    render_step A false cur (round_state st) d = map_res round_state (render_step A true cur st d).
  Proof.
    unfold render_step. rewrite sfl_note_round, bind_map_res.
    destruct (sfl_note A true d) as [note| |]; cbn [bind map_res]; try reflexivity.
    rewrite render_row_round, bind_map_res.
    destruct (render_row A true cur d note) as [row| |]; cbn [bind map_res]; try reflexivity.
    unfold round_state. destruct note as [n|]; cbn [option_map rs_rows rs_sfl rs_over round_note sn_over];
      rewrite map_app; reflexivity.
  Qed.

  Lemma render_loop_round ds : forall st,
    render_loop A false cur (round_state st) ds = map_res round_state (render_loop A true cur st ds).
  Proof.
    induction ds as [|d ds IH]; intros st; cbn [render_loop]; [reflexivity|].
    rewrite render_step_round, bind_map_res.
    destruct (render_step A true cur st d) as [st'| |]; cbn [bind map_res]; try reflexivity.
    apply IH.
  Qed.

  Lemma year_values_round g ys :
    year_values A false g ys = map_res (map round_pm) (year_values A true g ys).
  Proof.
    induction ys as [|y ys IH]; cbn [year_values]; [reflexivity|].
    destruct (zlookup y (g_years g)); cbn [bind map_res]; [|reflexivity].
    rewrite plus_minus_round, bind_map_res.
    destruct (plus_minus A true q false); cbn [bind map_res]; try reflexivity.
    rewrite IH, bind_map_res. dres.
  Qed.

  (* the default-precision table is the cell-wise cent rounding of the
     full-precision table: no rounded figure is an input of any other figure *)
  Theorem render_table_display_only ds g :
    render_table A false cur ds g = map_res round_table (render_table A true cur ds g).
  Proof.
    unfold render_table.
    change {| rs_rows := []; rs_sfl := false; rs_over := false |}
      with (round_state {| rs_rows := []; rs_sfl := false; rs_over := false |}) at 1.
    rewrite render_loop_round, bind_map_res.
    destruct (render_loop A true cur _ ds) as [st| |]; cbn [bind map_res]; try reflexivity.
    rewrite year_values_round, bind_map_res.
    destruct (year_values A true g (years_sorted g)) as [yv| |]; cbn [bind map_res]; try reflexivity.
    rewrite plus_minus_round, bind_map_res.
    destruct (plus_minus A true (g_total g) false); cbn [bind map_res]; reflexivity.
  Qed.

  Theorem render_aggregate_display_only g :
    render_aggregate A false g = map_res round_aggregate (render_aggregate A true g).
  Proof.
    unfold render_aggregate. rewrite year_values_round, bind_map_res.
    destruct (year_values A true g (years_sorted g)) as [yv| |]; cbn [bind map_res]; try reflexivity.
    rewrite plus_minus_round, bind_map_res.
    destruct (plus_minus A true (g_total g) false) as [t| |]; cbn [bind map_res]; try reflexivity.
    unfold round_aggregate. rewrite map_app. cbn [map fst snd]. do 2 f_equal.
    generalize (map LYear (years_sorted g)). intros l. revert yv.
    induction l as [|a l IH]; intros [|p yv]; cbn [combine map fst snd]; try reflexivity.
    f_equal. apply IH.
  Qed.

  Lemma render_tables_round l : forall gs,
    render_tables A false cur l gs
    = map_res (map (fun x => (fst x, round_table (snd x)))) (render_tables A true cur l gs).
  Proof.
    induction l as [|[s [ds o]] l IH]; intros [|g gs]; cbn [render_tables]; try reflexivity.
    rewrite render_table_display_only, bind_map_res.
    destruct (render_table A true cur ds _) as [t| |]; cbn [bind map_res]; try reflexivity.
    rewrite IH, bind_map_res. dres.
  Qed.

  (* the whole report (every security table and the aggregate table) *)
  Theorem render_results_display_only secs :
    render_results A false cur secs = map_res round_report (render_results A true cur secs).
  Proof.
    unfold render_results. destruct (first_panic secs); [reflexivity|].
    destruct (all_sec_gains A secs) as [gs| |]; cbn [bind map_res]; try reflexivity.
    destruct (aggregate A gains0 (some_gains gs)) as [agg| |]; cbn [bind map_res]; try reflexivity.
    rewrite render_tables_round, bind_map_res.
    destruct (render_tables A true cur secs gs) as [tabs| |]; cbn [bind map_res]; try reflexivity.
    rewrite render_aggregate_display_only, bind_map_res.
    destruct (render_aggregate A true agg); cbn [bind map_res]; reflexivity.
  Qed.
End Display.

Theorem render_app_display_only A cur inits rows :
  render_app A false cur inits rows = map_res round_report (render_app A true cur inits rows).
Proof.
  unfold render_app. destruct (run_app A inits rows); cbn [bind map_res]; try reflexivity.
  apply render_results_display_only.
Qed.

(* ================================================================ C. rows: locality and meaning *)

(* what the loop produces for one delta, on its own *)
Definition row_of (A : arith) (full : bool) (cur : tx -> bytes * bytes) (d : delta) : res (list cell) :=
  note <- sfl_note A full d ;; render_row A full cur d note.

(* this row is a sale with a (non-zero) superficial loss *)
Definition row_sfl (d : delta) : bool :=
  match t_act (d_tx d) with
  | Sell _ _ _ _ _ _ => is_superficial_loss d
  | _ => false
  end.
Definition row_over (d : delta) : bool :=
  row_sfl d && match d_sfl d with Some i => sf_over i | None => false end.
(* "!" : the user's value was forced *)
Definition row_forced (d : delta) : bool :=
  match t_act (d_tx d) with
  | Sell _ _ _ _ _ (Some (_, f)) => f
  | _ => false
  end.

Definition cell_at (row : list cell) (col : nat) : cell := nth col row CEmpty.
Definition cell_suffix (c : cell) : option sflnote := match c with CGain _ n => n | _ => None end.
Definition cell_has_suffix (c : cell) : bool := match cell_suffix c with Some _ => true | None => false end.
Definition cell_has_over (c : cell) : bool := match cell_suffix c with Some n => sn_over n | None => false end.

Section Rows.
  Variable A : arith.
  Variable full : bool.
  Variable cur : tx -> bytes * bytes.

  Lemma sfl_note_flags d note :
    sfl_note A full d = Ok note ->
    (match note with Some _ => true | None => false end) = row_sfl d /\
    (match note with Some n => sn_over n | None => false end) = row_over d.
  Proof.
    unfold sfl_note, row_over, row_sfl. destruct (t_act (d_tx d)); intros H; try (inversion H; subst; split; reflexivity).
    destruct (is_superficial_loss d) eqn:Es; [|inversion H; subst; split; reflexivity].
    destruct (d_sfl d) as [i|]; [|discriminate].
    bind_as H as p Ep. inversion H; subst. split; reflexivity.
  Qed.

  Lemma render_step_spec st d st' :
    render_step A full cur st d = Ok st' ->
    exists row, row_of A full cur d = Ok row /\ rs_rows st' = rs_rows st ++ [row] /\
                rs_sfl st' = rs_sfl st || row_sfl d /\ rs_over st' = rs_over st || row_over d.
  Proof.
    unfold render_step, row_of. intros H. bind_as H as note En. bind_as H as row Er.
    exists row. cbn [bind]. split; [exact Er|].
    destruct (sfl_note_flags _ _ En) as [F1 F2]. inversion H; subst; clear H.
    destruct note as [n|]; cbn [rs_rows rs_sfl rs_over]; rewrite <- F1, <- F2.
    - rewrite orb_true_r. auto.
    - rewrite !orb_false_r. auto.
  Qed.

  Lemma render_loop_spec ds : forall st st',
    render_loop A full cur st ds = Ok st' ->
    exists rows, Forall2 (fun d row => row_of A full cur d = Ok row) ds rows /\
                 rs_rows st' = rs_rows st ++ rows /\
                 rs_sfl st' = rs_sfl st || existsb row_sfl ds /\
                 rs_over st' = rs_over st || existsb row_over ds.
  Proof.
    induction ds as [|d ds IH]; intros st st' H; cbn [render_loop] in H.
    - inversion H; subst. exists []. rewrite app_nil_r, !orb_false_r. auto.
    - bind_as H as st1 E1. apply render_step_spec in E1 as (row & Hr & R1 & S1 & O1).
      apply IH in H as (rows & HF & R2 & S2 & O2).
      exists (row :: rows). split; [constructor; assumption|].
      rewrite R2, R1, S2, S1, O2, O1, <- app_assoc. cbn [existsb app]. rewrite !orb_assoc. auto.
  Qed.

  (* the table: one row per delta, each a function of ITS delta only; the two
     legend flags are the only state carried across rows *)
  Theorem render_table_rows ds g tb :
    render_table A full cur ds g = Ok tb ->
    Forall2 (fun d row => row_of A full cur d = Ok row) ds (tb_rows tb) /\
    tb_note_sfl tb = existsb row_sfl ds /\ tb_note_over tb = existsb row_over ds.
  Proof.
    unfold render_table. intros H. bind_as H as st Es. bind_as H as yv Ey. bind_as H as t Et.
    inversion H; subst; clear H. cbn [tb_rows tb_note_sfl tb_note_over].
    apply render_loop_spec in Es as (rows & HF & R & S & O). cbn [rs_rows rs_sfl rs_over app orb] in *.
    subst. auto.
  Qed.

  Theorem render_table_row_local ds g tb i d :
    render_table A full cur ds g = Ok tb -> nth_error ds i = Some d ->
    exists row, nth_error (tb_rows tb) i = Some row /\ row_of A full cur d = Ok row.
  Proof.
    intros H Hi. apply render_table_rows in H as [HF _].
    revert i Hi. induction HF as [|d0 r0 ds0 rows0 H0 HF IH]; intros [|i] Hi; cbn in Hi; try discriminate.
    - inversion Hi; subst. exists r0. auto.
    - apply IH in Hi. exact Hi.
  Qed.

  Theorem render_table_length ds g tb :
    render_table A full cur ds g = Ok tb -> length (tb_rows tb) = length ds.
  Proof.
    intros H. apply render_table_rows in H as [HF _].
    induction HF as [|d r ds0 rows0 _ _ IH]; cbn [length]; [reflexivity | rewrite IH; reflexivity].
  Qed.

  (* ---- the columns of one row ---- *)
  Lemma row_of_cells d row :
    row_of A full cur d = Ok row ->
    exists note p aps dl,
      sfl_note A full d = Ok note /\ row_parts A full cur d note = Ok p /\
      acb_per_share A full d = Ok aps /\ acb_delta_cell A full d = Ok dl /\
      row = [CSec (t_sec (d_tx d)); CDate (t_td (d_tx d)); CDate (t_sd (d_tx d)); CAct (act_of (t_act (d_tx d)));
             rp_amount p; CShares (rp_shares p); rp_aps p; rp_acb p; rp_com p; rp_gain p; rp_bal p;
             dl; opt_dollar_str full (s_acb (d_post d)); aps; CAff (t_af (d_tx d)); CMemo (t_ri (d_tx d))].
  Proof.
    unfold row_of, render_row. intros H. bind_as H as note En. bind_as H as p Ep.
    bind_as H as aps Ea. bind_as H as dl Ed. inversion H; subst.
    exists note, p, aps, dl. auto.
  Qed.

  Theorem row_has_16_cells d row : row_of A full cur d = Ok row -> length row = 16%nat.
  Proof. intros H. apply row_of_cells in H as (n & p & a & dl & _ & _ & _ & _ & ->). reflexivity. Qed.

  (* "New ACB/Share": the post-status cost base divided by the post-status
     share balance OF THE ROW'S AFFILIATE (not the all-affiliate balance),
     when that balance is positive; "-" otherwise *)
  Theorem new_acb_per_share_cell d row :
    row_of A full cur d = Ok row ->
    match s_acb (d_post d) with
    | Some acb =>
        if Qcltb 0 (s_sh (d_post d)) then
          exists v, a_div A acb (s_sh (d_post d)) = Ok v /\ cell_at row col_new_acb_share = dollar_str full v
        else cell_at row col_new_acb_share = CDash
    | None => cell_at row col_new_acb_share = CDash
    end.
  Proof.
    intros H. apply row_of_cells in H as (n & p & aps & dl & _ & _ & Ha & _ & ->).
    unfold cell_at, col_new_acb_share. cbn [nth].
    unfold acb_per_share in Ha. destruct (Qcltb 0 (s_sh (d_post d))).
    - destruct (s_acb (d_post d)) as [acb|]; [|inversion Ha; reflexivity].
      bind_as Ha as v Ev. inversion Ha; subst. exists v. auto.
    - inversion Ha; subst. destruct (s_acb (d_post d)); reflexivity.
  Qed.

  (* "ACB" (of a sale): the PRE-status cost base per share of the affiliate
     times the shares sold; "-" when the pre-balance is not positive, for a
     registered affiliate, and on every row that is not a sale *)
  Theorem acb_of_sale_cell d row :
    row_of A full cur d = Ok row ->
    match t_act (d_tx d) with
    | Sell sh _ _ _ _ _ =>
        match s_acb (d_pre d) with
        | Some acb =>
            if Qcltb 0 (s_sh (d_pre d)) then
              exists per v, a_div A acb (s_sh (d_pre d)) = Ok per /\ a_mul A per sh = Ok v /\
                            cell_at row col_acb = dollar_str full v
            else cell_at row col_acb = CDash
        | None => cell_at row col_acb = CDash
        end
    | _ => cell_at row col_acb = CDash
    end.
  Proof.
    intros H. apply row_of_cells in H as (n & p & aps & dl & _ & Hp & _ & _ & ->).
    unfold cell_at, col_acb. cbn [nth].
    unfold row_parts in Hp. destruct (t_act (d_tx d)) eqn:Ea.
    - bind_as Hp as m Em. bind_as Hp as c1 E1. bind_as Hp as c2 E2. bind_as Hp as c3 E3.
      inversion Hp; reflexivity.
    - bind_as Hp as m Em. bind_as Hp as c1 E1. bind_as Hp as c2 E2. bind_as Hp as c3 E3.
      bind_as Hp as c4 E4. bind_as Hp as c5 E5. inversion Hp; subst; clear Hp. cbn [rp_acb].
      unfold acb_of_sale in E3. destruct (Qcltb 0 (s_sh (d_pre d))).
      + destruct (s_acb (d_pre d)) as [acb|]; [|inversion E3; reflexivity].
        bind_as E3 as per Eper. bind_as E3 as v Ev. inversion E3; subst. exists per, v. auto.
      + inversion E3; subst. destruct (s_acb (d_pre d)); reflexivity.
    - bind_as Hp as m Em. bind_as Hp as c1 E1. bind_as Hp as c2 E2. inversion Hp; reflexivity.
    - bind_as Hp as m Em. inversion Hp; reflexivity.
    - bind_as Hp as m Em. bind_as Hp as f Ef. inversion Hp; reflexivity.
  Qed.

  (* "Cap. Gain": the figure of THIS delta; the superficial-loss suffix is
     present iff THIS delta is a sale with a superficial loss, and then shows
     this delta's denied amount, its ratio, "!" iff the user's value was
     forced, "[1]" iff potentially over-applied *)
  Theorem gain_cell_spec d row :
    row_of A full cur d = Ok row ->
    match t_act (d_tx d), d_gain d with
    | Sell _ _ _ _ _ _, Some g =>
        exists p, plus_minus A full g false = Ok p /\
          cell_at row col_gain =
          CGain p (if row_sfl d then
                     match d_sfl d with
                     | Some i =>
                         match plus_minus A full (sf_amount i) false with
                         | Ok a => Some {| sn_amt := a; sn_forced := row_forced d; sn_num := sf_num i;
                                           sn_den := sf_den i; sn_over := sf_over i |}
                         | _ => None
                         end
                     | None => None
                     end
                   else None)
    | _, _ => cell_at row col_gain = CDash
    end.
  Proof.
    intros H. apply row_of_cells in H as (n & p & aps & dl & Hn & Hp & _ & _ & ->).
    unfold cell_at, col_gain. cbn [nth].
    unfold row_parts in Hp. unfold sfl_note in Hn. unfold row_sfl, row_forced.
    destruct (t_act (d_tx d)) eqn:Ea.
    - bind_as Hp as m Em. bind_as Hp as c1 E1. bind_as Hp as c2 E2. bind_as Hp as c3 E3.
      inversion Hp; reflexivity.
    - bind_as Hp as m Em. bind_as Hp as c1 E1. bind_as Hp as c2 E2. bind_as Hp as c3 E3.
      bind_as Hp as c4 E4. bind_as Hp as c5 E5. inversion Hp; subst; clear Hp. cbn [rp_gain].
      unfold gain_cell in E4. destruct (d_gain d) as [g|]; [|inversion E4; reflexivity].
      bind_as E4 as pg Eg. inversion E4; subst. exists pg. split; [reflexivity|]. f_equal.
      destruct (is_superficial_loss d) eqn:Es; [|inversion Hn; reflexivity].
      destruct (d_sfl d) as [i|]; [|discriminate].
      bind_as Hn as pa Epa. inversion Hn; subst. destruct sfl as [[v f]|]; reflexivity.
    - bind_as Hp as m Em. bind_as Hp as c1 E1. bind_as Hp as c2 E2. inversion Hp; reflexivity.
    - bind_as Hp as m Em. inversion Hp; reflexivity.
    - bind_as Hp as m Em. bind_as Hp as f Ef. inversion Hp; reflexivity.
  Qed.

  Corollary gain_suffix_iff d row :
    row_of A full cur d = Ok row ->
    cell_has_suffix (cell_at row col_gain) = row_sfl d && match d_gain d with Some _ => true | None => false end /\
    cell_has_over (cell_at row col_gain) = row_over d && match d_gain d with Some _ => true | None => false end.
  Proof.
    intros H. pose proof (gain_cell_spec _ _ H) as G.
    unfold row_of in H. bind_as H as note En. clear H.
    destruct (sfl_note_flags _ _ En) as [F1 F2].
    unfold row_over in *. unfold row_sfl in *. unfold sfl_note in En.
    destruct (t_act (d_tx d)); try (destruct (d_gain d); rewrite G; split; reflexivity).
    destruct (d_gain d) as [g|]; [|rewrite G; rewrite !andb_false_r; split; reflexivity].
    destruct G as (p & _ & ->). rewrite !andb_true_r.
    unfold cell_has_suffix, cell_has_over, cell_suffix.
    destruct (is_superficial_loss d); [|split; reflexivity].
    destruct (d_sfl d) as [i|]; [|discriminate].
    destruct (plus_minus A full (sf_amount i) false); try discriminate. split; reflexivity.
  Qed.

  (* legends: " SfL = ..." iff some row is a sale with a superficial loss,
     " [1] ..." iff one of those is flagged over-applied; when every
     superficial loss comes with a capital gain (as the ledger guarantees, see
     ledger_sfl_has_gain) that is: iff some row shows the suffix / the [1] *)
  Theorem notes_iff_suffix ds g tb :
    render_table A full cur ds g = Ok tb ->
    Forall (fun d => row_sfl d = true -> d_gain d <> None) ds ->
    tb_note_sfl tb = existsb (fun row => cell_has_suffix (cell_at row col_gain)) (tb_rows tb) /\
    tb_note_over tb = existsb (fun row => cell_has_over (cell_at row col_gain)) (tb_rows tb).
  Proof.
    intros H Hg. apply render_table_rows in H as (HF & -> & ->).
    induction HF as [|d row ds rows Hr HF IH]; [split; reflexivity|].
    inversion Hg as [|d' ds' Hd Hrest]; subst. destruct (IH Hrest) as [I1 I2].
    cbn [existsb]. rewrite I1, I2. destruct (gain_suffix_iff _ _ Hr) as [-> ->].
    unfold row_over. destruct (row_sfl d) eqn:Es; [|split; reflexivity].
    specialize (Hd eq_refl). destruct (d_gain d); [|contradiction]. rewrite !andb_true_r. split; reflexivity.
  Qed.

  Theorem suffix_implies_note ds g tb i row :
    render_table A full cur ds g = Ok tb -> nth_error (tb_rows tb) i = Some row ->
    (cell_has_suffix (cell_at row col_gain) = true -> tb_note_sfl tb = true) /\
    (cell_has_over (cell_at row col_gain) = true -> tb_note_over tb = true).
  Proof.
    intros H Hi. apply render_table_rows in H as (HF & -> & ->).
    revert i Hi. induction HF as [|d r ds rows Hr HF IH]; intros [|i] Hi; cbn in Hi; try discriminate.
    - inversion Hi; subst. destruct (gain_suffix_iff _ _ Hr) as [E1 E2]. cbn [existsb].
      split; intros Hs.
      + rewrite Hs in E1. symmetry in E1. apply andb_true_iff in E1 as [-> _]. reflexivity.
      + rewrite Hs in E2. symmetry in E2. apply andb_true_iff in E2 as [-> _]. reflexivity.
    - destruct (IH _ Hi) as [I1 I2]. cbn [existsb]. split; intros Hs.
      + rewrite (I1 Hs). apply orb_true_r.
      + rewrite (I2 Hs). apply orb_true_r.
  Qed.
End Rows.

(* ================================================================ D. what the ledger guarantees *)
Ltac bind_all H :=
  repeat match type of H with
         | bind ?m _ = Ok _ => destruct m eqn:?; cbn [bind] in H; [ | discriminate H | discriminate H]
         | (if ?c then _ else _) = Ok _ => destruct c eqn:?; try discriminate H
         | match ?x with _ => _ end = Ok _ => destruct x eqn:?; try discriminate H
         end.

Section LedgerInv.
  Variable A : arith.
  Variable P : delta -> Prop.
  Hypothesis HP : forall bef t aft st d inj, delta_for_tx A bef t aft st = Ok (d, inj) -> P d.

  Lemma run_injected_all inj : forall bef st aft ds bef' st' o,
    run_injected A bef st inj aft = (ds, bef', st', o) -> Forall P ds.
  Proof.
    induction inj as [|t inj IH]; intros bef st aft ds bef' st' o H; cbn [run_injected] in H.
    - inversion H; constructor.
    - destruct (delta_for_tx A bef t (inj ++ aft) st) as [[d i]| |] eqn:Ed; try (inversion H; constructor).
      destruct (set_latest A st (t_af t) (d_post d)) as [st1| |]; try (inversion H; constructor).
      destruct (run_injected A (t :: bef) st1 inj aft) as [[[ds1 b1] s1] o1] eqn:Er.
      inversion H; subst. constructor; [eapply HP; eauto | eapply IH; eauto].
  Qed.

  Lemma run_loop_all aft : forall bef st ds o,
    run_loop A bef st aft = (ds, o) -> Forall P ds.
  Proof.
    induction aft as [|t aft IH]; intros bef st ds o H; cbn [run_loop] in H.
    - inversion H; constructor.
    - destruct (delta_for_tx A bef t aft st) as [[d inj]| |] eqn:Ed; try (inversion H; constructor).
      destruct (set_latest A st (t_af t) (d_post d)) as [st1| |]; try (inversion H; constructor).
      destruct (run_injected A (t :: bef) st1 inj aft) as [[[dsi b1] st2] o1] eqn:Er.
      apply run_injected_all in Er.
      destruct o1 as [s1|].
      + inversion H; subst. constructor; [eapply HP; eauto | assumption].
      + destruct (run_loop A b1 st2 aft) as [ds2 o2] eqn:El. inversion H; subst.
        constructor; [eapply HP; eauto|]. apply Forall_app. split; [assumption | eapply IH; eauto].
  Qed.

  Lemma run_all init txs ds o : run A init txs = (ds, o) -> Forall P ds.
  Proof.
    unfold run. destruct txs as [|t txs]; intros H; [inversion H; constructor|].
    destruct (init_state A init) as [st| |]; try (inversion H; constructor).
    eapply run_loop_all; eauto.
  Qed.

  Lemma run_secs_all inits all secs : forall out,
    run_secs A inits all secs = Ok out -> Forall (fun x => Forall P (fst (snd x))) out.
  Proof.
    induction secs as [|s secs IH]; intros out H; cbn [run_secs] in H.
    - inversion H; constructor.
    - bind_as H as rest Er. specialize (IH _ eq_refl).
      destruct (replace_global_splits _ _) as [l| |]; inversion H; subst; constructor; cbn [fst snd]; auto.
      destruct (run A (init_for inits s) l) as [ds o] eqn:E. cbn [fst]. eapply run_all; eauto.
  Qed.
End LedgerInv.

Lemma delta_nonsell_no_sfl A t pre d : delta_nonsell A t pre = Ok d -> d_sfl d = None /\ d_tx d = t.
Proof.
  unfold delta_nonsell. intros H. destruct (t_act t); bind_all H; inversion H; split; reflexivity.
Qed.

(* a delta of the ledger carries a superficial-loss record only on a sale,
   and then with a capital gain *)
Lemma delta_for_tx_sfl A bef t aft st d inj :
  delta_for_tx A bef t aft st = Ok (d, inj) ->
  d_tx d = t /\ (d_sfl d <> None -> d_gain d <> None /\ is_sell (t_act t) = true).
Proof.
  unfold delta_for_tx. intros H. bind_as H as u Eu.
  destruct (t_act t) eqn:Ea;
    try (bind_as H as d0 Ed; inversion H; subst; apply delta_nonsell_no_sfl in Ed as [E1 E2];
         split; [exact E2 | intros Hn; rewrite E1 in Hn; contradiction]).
  bind_as H as c Ec. destruct (sc_gain c) as [g|].
  - destruct (Qcltb g 0).
    + bind_as H as m Em. destruct m as [[info inj']|].
      * bind_as H as g' Eg. inversion H; subst. cbn. split; [reflexivity|]. intros _. split; [discriminate|reflexivity].
      * inversion H; subst. cbn. split; [reflexivity|]. intros Hn; contradiction.
    + destruct sfl; [discriminate|]. inversion H; subst. cbn. split; [reflexivity|]. intros Hn; contradiction.
  - inversion H; subst. cbn. split; [reflexivity|]. intros Hn; contradiction.
Qed.

Lemma row_sfl_has_record d : row_sfl d = true -> d_sfl d <> None.
Proof.
  unfold row_sfl, is_superficial_loss. destruct (t_act (d_tx d)); try discriminate.
  destruct (d_sfl d); [discriminate | discriminate].
Qed.

Theorem ledger_sfl_has_gain A init txs ds o :
  run A init txs = (ds, o) -> Forall (fun d => row_sfl d = true -> d_gain d <> None) ds.
Proof.
  apply run_all. intros bef t aft st d inj H Hs.
  apply delta_for_tx_sfl in H as [_ H]. apply H. apply row_sfl_has_record, Hs.
Qed.

(* for the tables of the whole pipeline: the legend is shown iff a row shows the suffix *)
Theorem ledger_notes_iff_suffix A full cur init txs ds o g tb :
  run A init txs = (ds, o) -> render_table A full cur ds g = Ok tb ->
  tb_note_sfl tb = existsb (fun row => cell_has_suffix (cell_at row col_gain)) (tb_rows tb) /\
  tb_note_over tb = existsb (fun row => cell_has_over (cell_at row col_gain)) (tb_rows tb).
Proof.
  intros Hr Ht. eapply notes_iff_suffix; eauto. eapply ledger_sfl_has_gain; eauto.
Qed.

(* ================================================================ E. totality: which panics rendering can raise *)
Definition split_ok (d : delta) : bool :=
  match t_act (d_tx d) with
  | Split post pre _ => Qcltb 0 post && Qcltb 0 pre      (* PosDecimal fields of SplitRatio *)
  | _ => true
  end.

Lemma valid_tx_split_ok d : valid_tx (d_tx d) = true -> split_ok d = true.
Proof. unfold valid_tx, valid_action, split_ok. destruct (t_act (d_tx d)); auto. Qed.

Lemma insert_year_in x y l : In x (insert_year y l) <-> x = y \/ In x l.
Proof.
  induction l as [|h r IH]; cbn [insert_year].
  - cbn. intuition.
  - destruct (Z.eqb_spec y h) as [->|Hne]; [cbn; intuition|].
    destruct (y <? h)%Z; cbn [In]; [intuition|]. rewrite IH. intuition.
Qed.

Lemma years_sorted_in g y : In y (years_sorted g) <-> In y (map fst (g_years g)).
Proof.
  unfold years_sorted. induction (map fst (g_years g)) as [|h r IH]; cbn [fold_right]; [reflexivity|].
  rewrite insert_year_in, IH. cbn [In]. intuition.
Qed.

Lemma zlookup_in y l : In y (map fst l) -> exists v, zlookup y l = Some v.
Proof.
  induction l as [|[k v] r IH]; cbn [map fst In zlookup]; [contradiction|].
  intros [->|H].
  - rewrite Z.eqb_refl. eauto.
  - destruct (y =? k)%Z; eauto.
Qed.

Section Total.
  Variable okp : panic -> Prop.      (* the panics the arithmetic may raise *)
  Definition safeP {T} (r : res T) : Prop :=
    match r with Ok _ => True | Rej _ => False | Panic p => okp p end.

  (* an arithmetic whose operations raise only [okp] panics, division only
     for a zero divisor being excepted, and whose split factor of positive
     numbers raises only [okp] panics *)
  Record arith_ok (A : arith) : Prop := {
    ao_add : forall a b, safeP (a_add A a b);
    ao_sub : forall a b, safeP (a_sub A a b);
    ao_mul : forall a b, safeP (a_mul A a b);
    ao_div : forall a b, b <> 0 -> safeP (a_div A a b);
    ao_split : forall post pre, 0 < post -> 0 < pre -> safeP (split_factor A post pre)
  }.

  Lemma safe_bind {T U} (m : res T) (k : T -> res U) :
    safeP m -> (forall x, m = Ok x -> safeP (k x)) -> safeP (bind m k).
  Proof. destruct m; cbn; intros H1 H2; auto; contradiction. Qed.

  Variable A : arith.
  Hypothesis HA : arith_ok A.
  Variable full : bool.
  Variable cur : tx -> bytes * bytes.

  Ltac sb := apply safe_bind; [|intros ? _].

  Lemma curr_with_fx_safe v r c : safeP (curr_with_fx A full v r c).
  Proof. unfold curr_with_fx. destruct (cur_is_default c); [exact I|]. sb; [apply (ao_mul _ HA) | exact I]. Qed.
  Lemma plus_minus_safe v sp : safeP (plus_minus A full v sp).
  Proof. unfold plus_minus. destruct (Qcltb v 0); [|exact I]. sb; [apply (ao_mul _ HA) | exact I]. Qed.
  Lemma plus_minus_opt_safe o sp : safeP (plus_minus_opt A full o sp).
  Proof. destruct o; cbn [plus_minus_opt]; [|exact I]. sb; [apply plus_minus_safe | exact I]. Qed.

  Lemma sfl_note_safe d : safeP (sfl_note A full d).
  Proof.
    unfold sfl_note. destruct (t_act (d_tx d)); try exact I.
    unfold is_superficial_loss. destruct (d_sfl d) as [i|]; [|exact I].
    destruct (negb (Qceqb (sf_amount i) 0)); [|exact I]. sb; [apply plus_minus_safe | exact I].
  Qed.

  Lemma pos_nonzero (x : Qc) : Qcltb 0 x = true -> x <> 0.
  Proof. intros H. qc_bool. apply Qclt_not_eq'. exact H. Qed.

  Lemma acb_of_sale_safe d sh : safeP (acb_of_sale A full d sh).
  Proof.
    unfold acb_of_sale. destruct (Qcltb 0 (s_sh (d_pre d))) eqn:E; [|exact I].
    destruct (s_acb (d_pre d)); [|exact I].
    sb; [apply (ao_div _ HA), pos_nonzero, E|]. sb; [apply (ao_mul _ HA) | exact I].
  Qed.
  Lemma gain_cell_safe d note : safeP (gain_cell A full d note).
  Proof. unfold gain_cell. destruct (d_gain d); [|exact I]. sb; [apply plus_minus_safe | exact I]. Qed.
  Lemma commission_cell_safe t com crate : safeP (commission_cell A full cur t com crate).
  Proof. unfold commission_cell. destruct (Qceqb com 0); [exact I | apply curr_with_fx_safe]. Qed.

  Lemma row_parts_safe d note : split_ok d = true -> safeP (row_parts A full cur d note).
  Proof.
    unfold row_parts, split_ok. destruct (t_act (d_tx d)); intros Hs.
    - sb; [apply (ao_mul _ HA)|]. sb; [apply curr_with_fx_safe|]. sb; [apply curr_with_fx_safe|].
      sb; [apply commission_cell_safe | exact I].
    - sb; [apply (ao_mul _ HA)|]. sb; [apply curr_with_fx_safe|]. sb; [apply curr_with_fx_safe|].
      sb; [apply acb_of_sale_safe|]. sb; [apply gain_cell_safe|]. sb; [apply commission_cell_safe | exact I].
    - sb; [apply (ao_mul _ HA)|]. sb; [apply curr_with_fx_safe|]. sb; [apply curr_with_fx_safe | exact I].
    - sb; [apply (ao_mul _ HA) | exact I].
    - apply andb_true_iff in Hs as [H1 H2]. qc_bool.
      sb; [apply (ao_sub _ HA)|]. sb; [apply (ao_split _ HA); assumption | exact I].
  Qed.

  Lemma acb_per_share_safe d : safeP (acb_per_share A full d).
  Proof.
    unfold acb_per_share. destruct (Qcltb 0 (s_sh (d_post d))) eqn:E; [|exact I].
    destruct (s_acb (d_post d)); [|exact I]. sb; [apply (ao_div _ HA), pos_nonzero, E | exact I].
  Qed.
  Lemma acb_delta_cell_safe d : safeP (acb_delta_cell A full d).
  Proof.
    unfold acb_delta_cell. destruct (s_acb (d_pre d)), (s_acb (d_post d)); try exact I.
    sb; [apply (ao_sub _ HA) | apply plus_minus_opt_safe].
  Qed.

  Lemma render_step_safe st d : split_ok d = true -> safeP (render_step A full cur st d).
  Proof.
    intros Hs. unfold render_step. sb; [apply sfl_note_safe|].
    unfold render_row. sb; [|exact I].
    sb; [apply row_parts_safe, Hs|]. sb; [apply acb_per_share_safe|]. sb; [apply acb_delta_cell_safe | exact I].
  Qed.

  Lemma render_loop_safe ds : forall st, forallb split_ok ds = true -> safeP (render_loop A full cur st ds).
  Proof.
    induction ds as [|d ds IH]; intros st Hs; cbn [render_loop]; [exact I|].
    cbn [forallb] in Hs. apply andb_true_iff in Hs as [H1 H2].
    sb; [apply render_step_safe, H1 | apply IH, H2].
  Qed.

  Lemma year_values_safe g ys :
    (forall y, In y ys -> In y (map fst (g_years g))) -> safeP (year_values A full g ys).
  Proof.
    induction ys as [|y ys IH]; intros Hin; cbn [year_values]; [exact I|].
    destruct (zlookup_in y (g_years g) (Hin y (or_introl eq_refl))) as [v ->]. cbn [bind].
    sb; [apply plus_minus_safe|]. sb; [apply IH; intros z Hz; apply Hin; right; exact Hz | exact I].
  Qed.

  (* rendering a table never returns an error and panics only as the
     arithmetic allows: every division is guarded by a positive divisor, the
     year lookup cannot miss *)
  Theorem render_table_safe ds g :
    forallb split_ok ds = true -> safeP (render_table A full cur ds g).
  Proof.
    intros Hs. unfold render_table. sb; [apply render_loop_safe, Hs|].
    sb; [apply year_values_safe; intros y Hy; apply years_sorted_in, Hy|].
    sb; [apply plus_minus_safe | exact I].
  Qed.

  Theorem render_aggregate_safe g : safeP (render_aggregate A full g).
  Proof.
    unfold render_aggregate.
    sb; [apply year_values_safe; intros y Hy; apply years_sorted_in, Hy|].
    sb; [apply plus_minus_safe | exact I].
  Qed.
End Total.

Definition no_panic (p : panic) : Prop := False.
(* rust_decimal: overflow; or the split factor of two positive decimals rounding to zero *)
Definition benign (p : panic) : Prop := p = PanicOverflow \/ p = PanicConstraint Site.pos_div.

Lemma exact_ok : arith_ok no_panic exact.
Proof.
  constructor; intros; cbn; auto.
  - destruct (Qceqb_spec b 0); [contradiction | exact I].
  - unfold split_factor, pos_div. cbn [a_div exact].
    destruct (Qceqb_spec pre 0) as [->|Hne]; [exfalso; eapply Qclt_not_eq'; eauto|]. cbn [bind].
    unfold pos_unwrap. destruct (Qcltb_spec 0 (post / pre)) as [|Hn]; [exact I|].
    exfalso. apply Hn. apply Qcdiv_pos; assumption.
Qed.

Lemma fit_res_benign q : safeP benign (fit_res q).
Proof. unfold fit_res. destruct (fit q); cbn; [exact I | left; reflexivity]. Qed.

Lemma dec_ok : arith_ok benign dec.
Proof.
  constructor; intros; cbn [a_add a_sub a_mul a_div dec]; try apply fit_res_benign.
  - destruct (Qceqb_spec b 0); [contradiction | apply fit_res_benign].
  - unfold split_factor, pos_div. cbn [a_div dec].
    destruct (Qceqb_spec pre 0) as [->|Hne]; [exfalso; eapply Qclt_not_eq'; eauto|].
    apply safe_bind; [apply fit_res_benign|]. intros x _. unfold pos_unwrap.
    destruct (Qcltb 0 x); cbn; [exact I | right; reflexivity].
Qed.

Theorem render_exact_total full cur ds g :
  forallb split_ok ds = true -> exists tb, render_table exact full cur ds g = Ok tb.
Proof.
  intros Hs. pose proof (render_table_safe no_panic exact exact_ok full cur ds g Hs) as H.
  destruct (render_table exact full cur ds g) as [tb| |]; cbn in H; [eauto | contradiction | contradiction].
Qed.

Theorem render_dec_panics full cur ds g :
  forallb split_ok ds = true ->
  match render_table dec full cur ds g with
  | Ok _ => True
  | Rej _ => False
  | Panic p => p = PanicOverflow \/ p = PanicConstraint Site.pos_div
  end.
Proof. intros Hs. exact (render_table_safe benign dec dec_ok full cur ds g Hs). Qed.

(* for ANY arithmetic that reports a division by zero only for a zero
   divisor: rendering never divides by zero *)
Theorem render_no_div_by_zero A full cur ds g :
  arith_ok (fun p => p <> PanicDivZero) A -> forallb split_ok ds = true ->
  render_table A full cur ds g <> Panic PanicDivZero /\
  (forall e, render_table A full cur ds g <> Rej e) /\
  render_aggregate A full g <> Panic PanicDivZero.
Proof.
  intros HA Hs.
  pose proof (render_table_safe _ A HA full cur ds g Hs) as H1.
  pose proof (render_aggregate_safe _ A HA full g) as H2.
  repeat split.
  - intros E. rewrite E in H1. cbn in H1. apply H1; reflexivity.
  - intros e E. rewrite E in H1. exact H1.
  - intros E. rewrite E in H2. cbn in H2. apply H2; reflexivity.
Qed.

(* ================================================================ F. the footer and the aggregate table *)
Lemma insert_year_sorted y l : StronglySorted Z.lt l -> StronglySorted Z.lt (insert_year y l).
Proof.
  induction l as [|h r IH]; intros Hs; cbn [insert_year].
  - constructor; constructor.
  - inversion Hs as [|h' r' Hr Hh]; subst.
    destruct (Z.eqb_spec y h) as [->|Hne]; [exact Hs|].
    destruct (Z.ltb_spec y h) as [Hlt|Hge].
    + constructor; [exact Hs|]. constructor; [exact Hlt|].
      apply Forall_forall. intros x Hx. rewrite Forall_forall in Hh. specialize (Hh x Hx). lia.
    + constructor; [apply IH, Hr|]. apply Forall_forall. intros x Hx.
      apply insert_year_in in Hx as [->|Hx]; [lia|]. rewrite Forall_forall in Hh. apply Hh, Hx.
Qed.

Lemma years_sorted_sorted g : StronglySorted Z.lt (years_sorted g).
Proof.
  unfold years_sorted. induction (map fst (g_years g)) as [|h r IH]; cbn [fold_right]; [constructor|].
  apply insert_year_sorted, IH.
Qed.

Lemma year_values_spec A full g ys yv :
  year_values A full g ys = Ok yv ->
  Forall2 (fun y p => plus_minus A full (year_val y (g_years g)) false = Ok p) ys yv.
Proof.
  revert yv. induction ys as [|y ys IH]; intros yv H; cbn [year_values] in H.
  - inversion H; constructor.
  - bind_as H as v Ev. bind_as H as p Ep. bind_as H as rest Er. inversion H; subst.
    constructor; [|apply IH; reflexivity].
    unfold year_val. destruct (zlookup y (g_years g)); [|discriminate]. inversion Ev; subst. exact Ep.
Qed.

(* the footer: "Total" first, then the years of the gains record in ascending
   order, each exactly once; the figures are the record's total and yearly
   totals (which C06_security_totals proves to be the sums of the rows) *)
Theorem footer_is_gains A full cur ds g tb :
  render_table A full cur ds g = Ok tb ->
  tb_labels tb = LTotal :: map LYear (years_sorted g) /\
  StronglySorted Z.lt (years_sorted g) /\
  (forall y, In y (years_sorted g) <-> In y (map fst (g_years g))) /\
  exists total yv,
    tb_values tb = total :: yv /\
    plus_minus A full (g_total g) false = Ok total /\
    Forall2 (fun y p => plus_minus A full (year_val y (g_years g)) false = Ok p) (years_sorted g) yv.
Proof.
  unfold render_table. intros H. bind_as H as st Es. bind_as H as yv Ey. bind_as H as t Et.
  inversion H; subst; clear H. cbn [tb_labels tb_values].
  split; [reflexivity|]. split; [apply years_sorted_sorted|]. split; [apply years_sorted_in|].
  exists t, yv. split; [reflexivity|]. split; [first [exact Et | reflexivity]|]. apply year_values_spec, Ey.
Qed.

Theorem aggregate_is_gains A full g rows :
  render_aggregate A full g = Ok rows ->
  exists total yv,
    rows = combine (map LYear (years_sorted g)) yv ++ [(LSince, total)] /\
    length yv = length (years_sorted g) /\
    plus_minus A full (g_total g) false = Ok total /\
    Forall2 (fun y p => plus_minus A full (year_val y (g_years g)) false = Ok p) (years_sorted g) yv.
Proof.
  unfold render_aggregate. intros H. bind_as H as yv Ey. bind_as H as t Et. inversion H; subst; clear H.
  exists t, yv. split; [reflexivity|]. apply year_values_spec in Ey.
  split; [|split; [first [exact Et | reflexivity] | exact Ey]].
  clear Et. induction Ey; cbn [length]; [reflexivity | rewrite IHEy; reflexivity].
Qed.

(* the figure shown by plus_minus_dollar in exact arithmetic: "-$" and the
   magnitude for a negative value, else the value *)
Definition pm_value (full : bool) (v : Qc) (show_plus : bool) : pm :=
  if Qcltb v 0 then {| pm_sign := SNeg; pm_amt := curr_str full (- v) |}
  else {| pm_sign := if show_plus then SPlus else SNone; pm_amt := curr_str full v |}.

Lemma plus_minus_exact full v sp : plus_minus exact full v sp = Ok (pm_value full v sp).
Proof.
  unfold plus_minus, pm_value. destruct (Qcltb v 0); [|reflexivity].
  cbn [a_mul exact bind]. do 3 f_equal. ring.
Qed.

Lemma Forall2_pm_exact full (f : Z -> Qc) ys yv :
  Forall2 (fun y p => plus_minus exact full (f y) false = Ok p) ys yv ->
  yv = map (fun y => pm_value full (f y) false) ys.
Proof.
  induction 1 as [|y p ys yv Hp _ IH]; [reflexivity|]. cbn [map].
  rewrite plus_minus_exact in Hp. inversion Hp; subst. reflexivity.
Qed.

(* exact arithmetic, gains computed from the same deltas: the footer shows
   the sum of the capital gains of the rows and, per settlement year, the sum
   of the gains of the rows settled in that year *)
Theorem footer_shows_row_sums full cur ds g tb :
  security_gains exact gains0 (gain_rows ds) = Ok g ->
  render_table exact full cur ds g = Ok tb ->
  tb_labels tb = LTotal :: map LYear (years_sorted g) /\
  tb_values tb = pm_value full (sum_all (gain_rows ds)) false
                   :: map (fun y => pm_value full (sum_year y (gain_rows ds)) false) (years_sorted g).
Proof.
  intros Hg Ht. destruct (security_totals _ _ Hg) as (Htot & Hyear & _).
  destruct (footer_is_gains _ _ _ _ _ _ Ht) as (Hl & _ & _ & total & yv & Hv & Hp & Hy).
  split; [exact Hl|]. rewrite Hv. rewrite plus_minus_exact in Hp. inversion Hp; subst. rewrite Htot.
  f_equal. apply Forall2_pm_exact in Hy. rewrite Hy. apply map_ext. intros y. rewrite Hyear. reflexivity.
Qed.

(* what the code does with a negative figure that rounds to zero: "-$0.00" *)
Lemma negative_zero_is_shown :
  plus_minus exact false (Qcfrac (-1) 1000) false
  = Ok {| pm_sign := SNeg; pm_amt := AText [48%N; 46%N; 48%N; 48%N] |}.
Proof. vm_compute. reflexivity. Qed.

(* ================================================================ G. the whole report *)
Definition sec_gains_rel (A : arith) (x : sec_result) (og : option gains) : Prop :=
  match snd (snd x) with
  | None => exists g, security_gains A gains0 (gain_rows (fst (snd x))) = Ok g /\ og = Some g
  | Some _ => og = None
  end.

Lemma all_sec_gains_spec A l : forall gs,
  all_sec_gains A l = Ok gs -> Forall2 (sec_gains_rel A) l gs.
Proof.
  induction l as [|[s [ds o]] l IH]; intros gs H; cbn [all_sec_gains] in H.
  - inversion H; constructor.
  - destruct o as [st|].
    + bind_as H as rest Er. inversion H; subst. constructor; [reflexivity | apply IH; reflexivity].
    + bind_as H as g Eg. bind_as H as rest Er. inversion H; subst.
      constructor; [exists g; split; [exact Eg | reflexivity] | apply IH; reflexivity].
Qed.

(* the table of one security of the report *)
Definition sec_table_rel (A : arith) (full : bool) (cur : tx -> bytes * bytes)
           (x : sec_result) (y : N * option stop * table) : Prop :=
  fst (fst y) = fst x /\ snd (fst y) = snd (snd x) /\
  match snd (snd x) with
  | None => exists g, security_gains A gains0 (gain_rows (fst (snd x))) = Ok g /\
                      render_table A full cur (fst (snd x)) g = Ok (snd y)
  | Some _ => render_table A full cur (fst (snd x)) gains0 = Ok (snd y)
  end.

Lemma render_tables_spec A full cur l : forall gs tabs,
  Forall2 (sec_gains_rel A) l gs ->
  render_tables A full cur l gs = Ok tabs -> Forall2 (sec_table_rel A full cur) l tabs.
Proof.
  induction l as [|[s [ds o]] l IH]; intros gs tabs HF H.
  - inversion HF; subst. cbn in H. inversion H; constructor.
  - inversion HF as [|x og l' gs' Hx Hrest]; subst. cbn [render_tables] in H.
    bind_as H as t Et. bind_as H as rest Er. inversion H; subst.
    constructor; [|eapply IH; eauto].
    unfold sec_table_rel, sec_gains_rel in *. cbn [fst snd] in *. split; [reflexivity|]. split; [reflexivity|].
    destruct o as [st|].
    + subst og. exact Et.
    + destruct Hx as [g [Hg ->]]. exists g. auto.
Qed.

(* the report: one table per security, in the order of the securities; an
   error-free security is rendered with the gains record of its own rows, a
   rejected one with empty totals; the aggregate table renders the aggregate
   of the error-free securities *)
Theorem render_results_spec A full cur secs rep :
  render_results A full cur secs = Ok rep ->
  Forall2 (sec_table_rel A full cur) secs (rp_tables rep) /\
  exists gs agg, Forall2 (sec_gains_rel A) secs gs /\
                 aggregate A gains0 (some_gains gs) = Ok agg /\
                 render_aggregate A full agg = Ok (rp_aggregate rep).
Proof.
  unfold render_results. destruct (first_panic secs); [discriminate|]. intros H.
  bind_as H as gs Eg. bind_as H as agg Ea. bind_as H as tabs Et. bind_as H as at_ Eat.
  inversion H; subst; clear H. cbn [rp_tables rp_aggregate].
  pose proof (all_sec_gains_spec _ _ _ Eg) as HF.
  split; [eapply render_tables_spec; eauto|]. exists gs, agg. auto.
Qed.

(* exact arithmetic: in every table of the report the total is the sum of the
   capital gains of ITS rows and each year's figure the sum of the gains of
   its rows settled in that year; a rejected security shows "Total $0" only *)
Theorem report_totals_are_row_sums full cur secs rep :
  render_results exact full cur secs = Ok rep ->
  Forall2 (fun (x : sec_result) (y : N * option stop * table) =>
             fst (fst y) = fst x /\
             let rows := gain_rows (fst (snd x)) in
             match snd (snd x) with
             | None =>
                 exists g, security_gains exact gains0 rows = Ok g /\
                   tb_labels (snd y) = LTotal :: map LYear (years_sorted g) /\
                   tb_values (snd y) = pm_value full (sum_all rows) false
                                         :: map (fun yr => pm_value full (sum_year yr rows) false) (years_sorted g)
             | Some _ =>
                 tb_labels (snd y) = [LTotal] /\ tb_values (snd y) = [pm_value full 0 false]
             end)
          secs (rp_tables rep).
Proof.
  intros H. apply render_results_spec in H as [HF _].
  induction HF as [|x y l tabs Hxy HF IH]; constructor; [|exact IH].
  destruct Hxy as (H1 & H2 & H3). split; [exact H1|]. cbv zeta.
  destruct (snd (snd x)) as [st|].
  - destruct (footer_is_gains _ _ _ _ _ _ H3) as (Hl & _ & _ & total & yv & Hv & Hp & Hy).
    change (years_sorted gains0) with (@nil Z) in *. cbn [map] in Hl.
    inversion Hy; subst. rewrite plus_minus_exact in Hp. inversion Hp; subst. split; assumption.
  - destruct H3 as [g [Hg Ht]]. exists g. split; [exact Hg|]. eapply footer_shows_row_sums; eauto.
Qed.

(* ================================================================ H. the default view consists of cent texts *)
Definition is_text (a : amount) : bool := match a with AText _ => true | AFull _ => false end.
Definition cell_amounts (c : cell) : list amount :=
  match c with
  | CDollar a => [a]
  | CPm p => [pm_amt p]
  | CWithFx l f _ => [l; f]
  | CGain p n => pm_amt p :: match n with Some n' => [pm_amt (sn_amt n')] | None => [] end
  | _ => []
  end.

Lemma round_amount_text a : is_text (round_amount a) = true.
Proof. destruct a; reflexivity. Qed.

Lemma round_cell_text c : forallb is_text (cell_amounts (round_cell c)) = true.
Proof.
  destruct c; cbn [round_cell cell_amounts forallb round_pm pm_amt]; rewrite ?round_amount_text; try reflexivity.
  destruct note as [n|]; cbn [option_map round_note sn_amt round_pm pm_amt forallb];
    rewrite ?round_amount_text; reflexivity.
Qed.

(* every dollar figure of the default view (rows and footer) is a cent text
   (dollar2_text of some figure): nothing of the default view depends on the
   display scale of a dollar amount *)
Theorem default_view_is_cent_text A cur ds g tb :
  render_table A false cur ds g = Ok tb ->
  Forall (Forall (fun c => forallb is_text (cell_amounts c) = true)) (tb_rows tb) /\
  Forall (fun p => is_text (pm_amt p) = true) (tb_values tb).
Proof.
  rewrite render_table_display_only.
  destruct (render_table A true cur ds g) as [t| |]; cbn [map_res]; try discriminate.
  intros H. inversion H; subst; clear H. unfold round_table. cbn [tb_rows tb_values]. split.
  - apply Forall_forall. intros row Hr. apply in_map_iff in Hr as [row' [<- _]].
    apply Forall_forall. intros c Hc. apply in_map_iff in Hc as [c' [<- _]]. apply round_cell_text.
  - apply Forall_forall. intros p Hp. apply in_map_iff in Hp as [p' [<- _]]. apply round_amount_text.
Qed.
