(* C15, whole runs: restating EVERY share quantity (x f) and per-share amount
   (/ f) of a history - rows and opening position - changes no capital gain,
   denied amount or cost base of the run; share balances scale; every
   rejection / outcome is the same.  Exact arithmetic, f > 0, no whole-number
   ("integer only") reverse splits (their fraction test is not scale-free). *)
From Coq Require Import List NArith ZArith QArith Qcanon Bool Lia.
From ACB Require Import Base.Outcome Base.QcExtra Base.Fit Base.Arith Model.Tx Model.Ledger Model.Sfl
     Model.DeltaList Proofs.Tactics Proofs.EraseRi Proofs.C15Scale Proofs.C02Scan Proofs.C01Refine Proofs.AllAfter.
Import ListNotations.
Local Open Scope Qc_scope.

Section Scale.
  Variable f : Qc.
  Hypothesis Hf : 0 < f.
  Let Hf0 : f <> 0 := Qclt_not_eq' f Hf.

  Definition sc_status (s : status) : status :=
    {| s_sh := s_sh s * f; s_all := s_all s * f; s_acb := s_acb s |}.
  Definition sc_state (st : pstate) : pstate :=
    {| ps_map := map (fun kv => (fst kv, sc_status (snd kv))) (ps_map st);
       ps_all := ps_all st * f; ps_latest := ps_latest st |}.
  Definition sc_info (i : sflinfo) : sflinfo :=
    {| sf_amount := sf_amount i; sf_num := sf_num i * f; sf_den := sf_den i * f; sf_over := sf_over i |}.
  Definition sc_delta (d : delta) : delta :=
    {| d_tx := scale_tx f (d_tx d); d_pre := sc_status (d_pre d); d_post := sc_status (d_post d);
       d_gain := d_gain d; d_sfl := option_map sc_info (d_sfl d) |}.

  (* ---- comparisons ---- *)
  Lemma leb0_sc x : Qcleb 0 (x * f) = Qcleb 0 x.
  Proof.
    destruct (Qcleb_spec 0 (x * f)) as [H|H]; destruct (Qcleb_spec 0 x) as [H'|H']; try reflexivity.
    - exfalso. apply H'. apply Qcnot_lt_le. intros Hx. apply (Qcle_not_lt _ _ H).
      assert (E : 0 = 0 * f) by ring. rewrite E. apply Qcmult_lt_compat_r; assumption.
    - exfalso. apply H. apply Qcmul_nonneg; [assumption | apply Qclt_le_weak; assumption].
  Qed.
  Lemma ltb0_sc x : Qcltb 0 (x * f) = Qcltb 0 x.
  Proof.
    destruct (Qcltb_spec 0 (x * f)) as [H|H]; destruct (Qcltb_spec 0 x) as [H'|H']; try reflexivity.
    - exfalso. apply H'. apply Qcnot_le_lt. intros Hx. apply (Qclt_not_le _ _ H).
      assert (E : 0 = 0 * f) by ring. rewrite E. apply Qcmult_le_compat_r; [assumption | apply Qclt_le_weak; assumption].
    - exfalso. apply H. apply Qcmul_pos; assumption.
  Qed.
  Lemma ltb_sc x y : Qcltb (x * f) (y * f) = Qcltb x y.
  Proof.
    destruct (Qcltb_spec (x * f) (y * f)) as [H|H]; destruct (Qcltb_spec x y) as [H'|H']; try reflexivity.
    - exfalso. apply H'. apply Qcnot_le_lt. intros Hx. apply (Qclt_not_le _ _ H).
      apply Qcmult_le_compat_r; [assumption | apply Qclt_le_weak; assumption].
    - exfalso. apply H. apply Qcmult_lt_compat_r; assumption.
  Qed.
  Lemma ltb_sc0 x : Qcltb (x * f) 0 = Qcltb x 0.
  Proof. assert (E : 0 = 0 * f) by ring. rewrite E at 1. apply ltb_sc. Qed.
  Lemma eqb_sc x y : Qceqb (x * f) (y * f) = Qceqb x y.
  Proof.
    destruct (Qceqb_spec (x * f) (y * f)) as [H|H]; destruct (Qceqb_spec x y) as [H'|H']; try reflexivity.
    - exfalso. apply H'. apply (f_equal (fun z => z / f)) in H. rewrite !Qcdiv_mult_l in H by exact Hf0. exact H.
    - exfalso. apply H. rewrite H'. reflexivity.
  Qed.
  Lemma eqb_sc0 x : Qceqb (x * f) 0 = Qceqb x 0.
  Proof. assert (E : 0 = 0 * f) by ring. rewrite E at 1. apply eqb_sc. Qed.

  (* ---- primitives ---- *)
  Notation mulf := (fun x : Qc => x * f).

  Lemma gez_add_sc a b : gez_add exact (a * f) (b * f) = map_res mulf (gez_add exact a b).
  Proof.
    unfold gez_add, gez_unwrap. cbn [a_add exact bind].
    assert (E : a * f + b * f = (a + b) * f) by ring. rewrite E, leb0_sc.
    destruct (Qcleb 0 (a + b)); reflexivity.
  Qed.
  Lemma all_after_sc a o n :
    all_after exact (a * f) (o * f) (n * f) = map_res mulf (all_after exact a o n).
  Proof. rewrite !all_after_exact. cbn [map_res]. f_equal. ring. Qed.
  Lemma gez_unwrap_sc s x : gez_unwrap s (x * f) = map_res mulf (gez_unwrap s x).
  Proof. unfold gez_unwrap. rewrite leb0_sc. destruct (Qcleb 0 x); reflexivity. Qed.
  Lemma gez_mul_sc_l a b : gez_mul exact (a * f) b = map_res mulf (gez_mul exact a b).
  Proof.
    unfold gez_mul, gez_unwrap. cbn [a_mul exact bind].
    assert (E : a * f * b = (a * b) * f) by ring. rewrite E, leb0_sc.
    destruct (Qcleb 0 (a * b)); reflexivity.
  Qed.
  Lemma gez_mul_sc_r a b : gez_mul exact a (b * f) = map_res mulf (gez_mul exact a b).
  Proof.
    unfold gez_mul, gez_unwrap. cbn [a_mul exact bind].
    assert (E : a * (b * f) = (a * b) * f) by ring. rewrite E, leb0_sc.
    destruct (Qcleb 0 (a * b)); reflexivity.
  Qed.
  Lemma gez_mul_cancel a b : gez_mul exact (a / f) (b * f) = gez_mul exact a b.
  Proof.
    unfold gez_mul. cbn [a_mul exact bind].
    assert (E : a / f * (b * f) = a * b) by (field; exact Hf0). rewrite E. reflexivity.
  Qed.
  Lemma gez_mul_cancel' a b : gez_mul exact (a * f) (b / f) = gez_mul exact a b.
  Proof.
    unfold gez_mul. cbn [a_mul exact bind].
    assert (E : a * f * (b / f) = a * b) by (field; exact Hf0). rewrite E. reflexivity.
  Qed.
  Lemma pos_mul_sc_l a b : pos_mul exact (a * f) b = map_res mulf (pos_mul exact a b).
  Proof.
    unfold pos_mul, pos_unwrap. cbn [a_mul exact bind].
    assert (E : a * f * b = (a * b) * f) by ring. rewrite E, ltb0_sc.
    destruct (Qcltb 0 (a * b)); reflexivity.
  Qed.
  Lemma pos_mul_sc_r a b : pos_mul exact a (b * f) = map_res mulf (pos_mul exact a b).
  Proof.
    unfold pos_mul, pos_unwrap. cbn [a_mul exact bind].
    assert (E : a * (b * f) = (a * b) * f) by ring. rewrite E, ltb0_sc.
    destruct (Qcltb 0 (a * b)); reflexivity.
  Qed.
  Lemma gez_div_sc a b : gez_div exact a (b * f) = map_res (fun x => x / f) (gez_div exact a b).
  Proof.
    unfold gez_div, gez_unwrap. cbn [a_div exact]. rewrite eqb_sc0.
    destruct (Qceqb_spec b 0) as [|Hb]; cbn [bind map_res]; [reflexivity|].
    assert (E : a / (b * f) = a / b / f) by (field; split; assumption). rewrite E.
    assert (E2 : Qcleb 0 (a / b / f) = Qcleb 0 (a / b)).
    { assert (E3 : a / b = a / b / f * f) by (field; split; assumption). rewrite E3 at 2. symmetry. apply leb0_sc. }
    rewrite E2. destruct (Qcleb 0 (a / b)); reflexivity.
  Qed.
  Lemma gez_div_sc_l a b : gez_div exact (a * f) b = map_res mulf (gez_div exact a b).
  Proof.
    unfold gez_div, gez_unwrap. cbn [a_div exact].
    destruct (Qceqb_spec b 0) as [|Hb]; cbn [bind map_res]; [reflexivity|].
    assert (E : a * f / b = a / b * f) by (field; assumption). rewrite E, leb0_sc.
    destruct (Qcleb 0 (a / b)); reflexivity.
  Qed.
  Lemma a_div_cancel a b : a_div exact (a * f) (b * f) = a_div exact a b.
  Proof.
    cbn [a_div exact]. rewrite eqb_sc0. destruct (Qceqb_spec b 0) as [|Hb]; [reflexivity|].
    f_equal. field. split; assumption.
  Qed.

  (* ---- state ---- *)
  Lemma alookup_sc k m :
    alookup k (map (fun kv : N * status => (fst kv, sc_status (snd kv))) m) = option_map sc_status (alookup k m).
  Proof.
    induction m as [|[k' v] m IH]; cbn [map alookup fst snd option_map]; [reflexivity|].
    destruct (N.eqb k k'); [reflexivity | exact IH].
  Qed.
  Lemma aupdate_sc k v m :
    aupdate k (sc_status v) (map (fun kv : N * status => (fst kv, sc_status (snd kv))) m)
    = map (fun kv => (fst kv, sc_status (snd kv))) (aupdate k v m).
  Proof.
    induction m as [|[k' v'] m IH]; cbn [map aupdate fst snd]; [reflexivity|].
    destruct (N.eqb k k'); cbn [map fst snd]; [reflexivity | f_equal; exact IH].
  Qed.
  Lemma default_status_sc af : sc_status (default_status af) = default_status af.
  Proof.
    unfold sc_status, default_status. cbn [s_sh s_all s_acb].
    assert (E : 0 * f = 0) by ring. rewrite E. reflexivity.
  Qed.

  Lemma next_pre_sc st af : next_pre_status (sc_state st) af = sc_status (next_pre_status st af).
  Proof.
    unfold next_pre_status, latest_for, sc_state. cbn [ps_map ps_all]. rewrite alookup_sc.
    destruct (alookup (af_id af) (ps_map st)) as [s|]; cbn [option_map].
    - cbn [sc_status s_all]. rewrite eqb_sc. destruct (Qceqb (s_all s) (ps_all st)); reflexivity.
    - assert (Ez : (0 : Qc) = 0 * f) by ring.
      assert (Eq : Qceqb (s_all (default_status af)) (ps_all st * f) = Qceqb (s_all (default_status af)) (ps_all st)).
      { cbn [default_status s_all]. rewrite Ez at 1. apply eqb_sc. }
      rewrite Eq. destruct (Qceqb (s_all (default_status af)) (ps_all st)).
      + symmetry. apply default_status_sc.
      + unfold sc_status. cbn [s_sh s_all s_acb default_status]. rewrite <- Ez. reflexivity.
  Qed.

  Lemma latest_post_sc st : latest_post_status (sc_state st) = sc_status (latest_post_status st).
  Proof.
    unfold latest_post_status, latest_for, sc_state. cbn [ps_map ps_latest]. rewrite alookup_sc.
    destruct (alookup _ (ps_map st)); cbn [option_map]; [reflexivity | symmetry; apply default_status_sc].
  Qed.

  Lemma sanity_sc pre af : sanity_check (sc_status pre) af = sanity_check pre af.
  Proof. unfold sanity_check, sc_status. cbn [s_all s_sh s_acb]. rewrite ltb_sc. reflexivity. Qed.

  Lemma set_latest_sc st af v :
    set_latest exact (sc_state st) af (sc_status v) = map_res sc_state (set_latest exact st af v).
  Proof.
    unfold set_latest, latest_for. rewrite !all_after_exact. cbn [bind].
    unfold sc_state at 1 2 3. cbn [ps_map ps_all]. rewrite alookup_sc.
    cbn [sc_status s_sh s_all s_acb].
    assert (E : ps_all st * f + (s_sh v * f
                - match option_map sc_status (alookup (af_id af) (ps_map st)) with Some s => s_sh s | None => 0 end)
                = (ps_all st + (s_sh v - match alookup (af_id af) (ps_map st) with Some s => s_sh s | None => 0 end)) * f).
    { destruct (alookup (af_id af) (ps_map st)); cbn [option_map sc_status s_sh]; ring. }
    rewrite E, eqb_sc.
    destruct (negb (Bool.eqb _ _)); [reflexivity|].
    destruct (negb (Qceqb _ _)); [reflexivity|].
    cbn [map_res]. unfold sc_state. cbn [ps_map ps_all ps_latest]. rewrite aupdate_sc. reflexivity.
  Qed.

  (* ---- rows ---- *)
  Definition no_int_only (t : tx) : Prop :=
    match t_act t with Split _ _ io => io = false | _ => True end.

  Lemma local_value_sc n p rate : local_value exact (n * f) (p / f) rate = local_value exact n p rate.
  Proof. unfold local_value. rewrite gez_mul_cancel. reflexivity. Qed.

  Ltac sstep :=
    match goal with
    | |- bind (map_res ?g ?m) _ = map_res _ (bind ?m _) => destruct m; cbn [bind map_res]; try reflexivity
    | |- bind ?m _ = map_res _ (bind ?m _) => destruct m; cbn [bind map_res]; try reflexivity
    | |- (if ?c then _ else _) = map_res _ (if ?c then _ else _) => destruct c; cbn [bind map_res]; try reflexivity
    end.

  Lemma delta_nonsell_sc t pre :
    no_int_only t ->
    delta_nonsell exact (scale_tx f t) (sc_status pre) = map_res sc_delta (delta_nonsell exact t pre).
  Proof.
    unfold delta_nonsell, no_int_only. cbn [scale_tx t_act t_af]. intros Hio.
    destruct (t_act t) as [n price com rate crate | n price com rate crate sp | amount rate
                          | n amount | post pre_ io]; cbn [scale_action sc_status s_sh s_all s_acb map_res].
    - rewrite !gez_add_sc, local_value_sc.
      sstep. rewrite all_after_sc. sstep. rewrite gez_unwrap_sc.
      sstep. destruct (s_acb pre); cbn [bind map_res]; [|reflexivity].
      repeat sstep.
    - reflexivity.
    - destruct (s_acb pre); [|destruct (negb _); reflexivity].
      destruct (af_reg (t_af t)); [reflexivity|].
      rewrite gez_mul_cancel. repeat sstep.
    - destruct (s_acb pre); [|destruct (negb _); reflexivity].
      destruct (af_reg (t_af t)); [reflexivity|]. repeat sstep.
    - subst io. cbn [a_mul a_div exact]. destruct (Qceqb pre_ 0); cbn [bind map_res]; [reflexivity|].
      assert (E : s_sh pre * f * post / pre_ = s_sh pre * post / pre_ * f) by (unfold Qcdiv; ring).
      rewrite E. unfold gez_unwrap. rewrite leb0_sc.
      destruct (Qcleb 0 (s_sh pre * post / pre_)); cbn [bind map_res]; [|reflexivity].
      rewrite all_after_sc, all_after_exact. cbn [bind map_res].
      rewrite ltb_sc0. destruct (Qcltb _ 0); [reflexivity|].
      rewrite !andb_false_r. cbn [map_res]. unfold sc_delta, mk_delta, sc_status. cbn. reflexivity.
  Qed.

  Definition sc_core (c : sellcore) : sellcore :=
    {| sc_sh := sc_sh c * f; sc_all := sc_all c * f; sc_acb := sc_acb c; sc_gain := sc_gain c |}.

  Lemma per_share_sc pre :
    per_share_acb exact (sc_status pre) = map_res (option_map (fun x => x / f)) (per_share_acb exact pre).
  Proof.
    unfold per_share_acb, sc_status. cbn [s_acb s_sh]. destruct (s_acb pre) as [acb|]; [|reflexivity].
    rewrite ltb0_sc. destruct (Qcltb 0 (s_sh pre)).
    - rewrite gez_div_sc. destruct (gez_div exact acb (s_sh pre)); reflexivity.
    - cbn [map_res option_map]. assert (E : (0 : Qc) / f = 0) by (field; exact Hf0). rewrite E. reflexivity.
  Qed.

  Lemma sell_core_sc pre n price com rate crate :
    sell_core exact (sc_status pre) (n * f) (price / f) com rate crate
    = map_res sc_core (sell_core exact pre n price com rate crate).
  Proof.
    unfold sell_core. cbn [a_sub exact bind sc_status s_sh s_all s_acb].
    assert (E1 : s_sh pre * f - n * f = (s_sh pre - n) * f) by ring.
    rewrite E1, !ltb_sc0.
    destruct (Qcltb (s_sh pre - n) 0); [reflexivity|].
    rewrite all_after_sc, all_after_exact. cbn [bind map_res]. rewrite ltb_sc0.
    destruct (Qcltb _ 0); [reflexivity|].
    fold (sc_status pre). rewrite per_share_sc.
    destruct (per_share_acb exact pre) as [maps| |]; cbn [bind map_res]; try reflexivity.
    destruct maps as [acbps|]; cbn [option_map]; [|reflexivity].
    rewrite gez_mul_cancel', local_value_sc. cbn [a_mul a_sub exact].
    assert (E3 : acbps / f * (n * f) = acbps * n) by (field; exact Hf0). rewrite E3.
    repeat sstep.
  Qed.

  (* ---- the window scans ---- *)
  Definition mapv {V W} (g : V -> W) (m : list (N * V)) : list (N * W) := map (fun kv => (fst kv, g (snd kv))) m.
  Lemma alookup_mapv {V W} (g : V -> W) k m : alookup k (mapv g m) = option_map g (alookup k m).
  Proof.
    induction m as [|[k' v] m IH]; cbn [mapv map alookup fst snd option_map]; [reflexivity|].
    destruct (N.eqb k k'); [reflexivity | exact IH].
  Qed.
  Lemma aupdate_mapv {V W} (g : V -> W) k v m : aupdate k (g v) (mapv g m) = mapv g (aupdate k v m).
  Proof.
    induction m as [|[k' v'] m IH]; cbn [mapv map aupdate fst snd]; [reflexivity|].
    destruct (N.eqb k k'); cbn [map fst snd]; [reflexivity | f_equal; exact IH].
  Qed.
  Lemma amem_mapv {V W} (g : V -> W) k m : amem k (mapv g m) = amem k m.
  Proof. unfold amem. rewrite alookup_mapv. destruct (alookup k m); reflexivity. Qed.

  Definition sc_scan (s : scan) : scan :=
    {| sc_eop := sc_eop s * f; sc_acq := sc_acq s * f; sc_buyers := sc_buyers s; sc_active := mapv mulf (sc_active s) |}.

  Lemma fwd_scan_sc last dflt dflt' aft adj s :
    (forall af, dflt' af = dflt af * f) ->
    fwd_scan exact last dflt' (map (scale_tx f) aft) adj (sc_scan s)
    = map_res sc_scan (fwd_scan exact last dflt aft adj s).
  Proof.
    intros Hd. revert adj s. induction aft as [|x aft IH]; intros adj s; cbn [map fwd_scan]; [reflexivity|].
    cbn [scale_tx t_sd t_af t_act]. destruct (Z.ltb last (t_sd x)); [reflexivity|].
    destruct (t_act x) as [sh aps com rate crate | sh aps com rate crate sp | aps rate | sh aps | post pre io];
      cbn [scale_action].
    - rewrite gez_div_sc_l. destruct (gez_div exact sh _) as [b| |]; cbn [bind map_res]; try reflexivity; cbv beta.
      cbn [sc_scan sc_eop sc_acq sc_active sc_buyers]. cbv beta. rewrite gez_add_sc.
      destruct (gez_add exact (sc_eop s) b) as [eop| |]; cbn [bind map_res]; try reflexivity; cbv beta.
      rewrite !alookup_mapv.
      assert (Eold : match option_map mulf (alookup (af_id (t_af x)) (sc_active s)) with
                     | Some d => d | None => dflt' (t_af x) end
                     = match alookup (af_id (t_af x)) (sc_active s) with Some d => d | None => dflt (t_af x) end * f).
      { destruct (alookup _ (sc_active s)); cbn [option_map]; [reflexivity | apply Hd]. }
      rewrite Eold. cbv beta. rewrite gez_add_sc.
      destruct (gez_add exact _ b) as [na| |]; cbn [bind map_res]; try reflexivity; cbv beta.
      cbv beta. rewrite gez_add_sc.
      destruct (gez_add exact (sc_acq s) b) as [acq| |]; cbn [bind map_res]; try reflexivity; cbv beta.
      specialize (IH adj {| sc_eop := eop; sc_acq := acq; sc_buyers := add_aff (t_af x) (sc_buyers s);
                            sc_active := aupdate (af_id (t_af x)) na (sc_active s) |}).
      unfold sc_scan in IH at 1. cbn [sc_eop sc_acq sc_buyers sc_active] in IH.
      rewrite <- aupdate_mapv in IH. exact IH.
    - rewrite gez_div_sc_l. destruct (gez_div exact sh _) as [b| |]; cbn [bind map_res]; try reflexivity; cbv beta.
      cbn [sc_scan sc_eop sc_acq sc_active sc_buyers a_sub exact bind]. cbv beta.
      assert (E1 : sc_eop s * f - b * f = (sc_eop s - b) * f) by ring. rewrite E1, ltb_sc0.
      destruct (Qcltb (sc_eop s - b) 0); [reflexivity|].
      rewrite !alookup_mapv.
      assert (Eold : match option_map mulf (alookup (af_id (t_af x)) (sc_active s)) with
                     | Some d => d | None => dflt' (t_af x) end
                     = match alookup (af_id (t_af x)) (sc_active s) with Some d => d | None => dflt (t_af x) end * f).
      { destruct (alookup _ (sc_active s)); cbn [option_map]; [reflexivity | apply Hd]. }
      rewrite Eold.
      assert (E2 : forall o, o * f - b * f = (o - b) * f) by (intros; ring). rewrite E2, ltb_sc0.
      destruct (Qcltb _ 0); [reflexivity|].
      specialize (IH adj {| sc_eop := sc_eop s - b; sc_acq := sc_acq s; sc_buyers := sc_buyers s;
                            sc_active := aupdate (af_id (t_af x))
                                           (match alookup (af_id (t_af x)) (sc_active s) with Some d => d | None => dflt (t_af x) end - b)
                                           (sc_active s) |}).
      unfold sc_scan in IH at 1. cbn [sc_eop sc_acq sc_buyers sc_active] in IH.
      rewrite <- aupdate_mapv in IH. exact IH.
    - apply IH.
    - apply IH.
    - destruct (split_factor exact post pre) as [fa| |]; cbn [bind]; try reflexivity.
      destruct (pos_mul exact _ fa) as [nsa| |]; cbn [bind]; try reflexivity. apply IH.
  Qed.

  Lemma bwd_scan_sc first dflt dflt' bef adj s :
    (forall af, dflt' af = dflt af * f) ->
    bwd_scan exact first dflt' (map (scale_tx f) bef) adj (sc_scan s)
    = map_res sc_scan (bwd_scan exact first dflt bef adj s).
  Proof.
    intros Hd. revert adj s. induction bef as [|x bef IH]; intros adj s; cbn [map bwd_scan]; [reflexivity|].
    cbn [scale_tx t_sd t_af t_act]. destruct (Z.ltb (t_sd x) first); [reflexivity|].
    destruct (t_act x) as [sh aps com rate crate | sh aps com rate crate sp | aps rate | sh aps | post pre io];
      cbn [scale_action].
    - rewrite pos_mul_sc_l. destruct (pos_mul exact sh _) as [b| |]; cbn [bind map_res]; try reflexivity; cbv beta.
      cbn [sc_scan sc_eop sc_acq sc_active sc_buyers]. cbv beta. rewrite gez_add_sc.
      destruct (gez_add exact (sc_acq s) b) as [acq| |]; cbn [bind map_res]; try reflexivity; cbv beta.
      rewrite amem_mapv.
      specialize (IH adj {| sc_eop := sc_eop s; sc_acq := acq; sc_buyers := add_aff (t_af x) (sc_buyers s);
                            sc_active := if amem (af_id (t_af x)) (sc_active s) then sc_active s
                                         else aupdate (af_id (t_af x)) (dflt (t_af x)) (sc_active s) |}).
      unfold sc_scan in IH at 1. cbn [sc_eop sc_acq sc_buyers sc_active] in IH.
      destruct (amem (af_id (t_af x)) (sc_active s)); [exact IH|].
      rewrite <- aupdate_mapv in IH. cbv beta in IH. rewrite <- Hd in IH. exact IH.
    - apply IH.
    - apply IH.
    - apply IH.
    - destruct (split_factor exact post pre) as [fa| |]; cbn [bind]; try reflexivity.
      destruct (pos_mul exact _ fa) as [nsa| |]; cbn [bind]; try reflexivity. apply IH.
  Qed.

  (* ---- get_superficial_loss_info ---- *)
  Lemma zero_sc : (0 : Qc) = 0 * f.
  Proof. ring. Qed.

  Lemma sfl_info_sc bef t sold aft st :
    sfl_info exact (map (scale_tx f) bef) (scale_tx f t) (sold * f) (map (scale_tx f) aft) (sc_state st)
    = map_res (option_map sc_scan) (sfl_info exact bef t sold aft st).
  Proof.
    unfold sfl_info. cbn [a_sub exact bind scale_tx t_af t_sd]. rewrite latest_post_sc.
    cbn [sc_status s_all].
    assert (E1 : s_all (latest_post_status st) * f - sold * f = (s_all (latest_post_status st) - sold) * f) by ring.
    rewrite E1, ltb_sc0. destruct (Qcltb (s_all (latest_post_status st) - sold) 0); [reflexivity|].
    assert (Hd : forall af, match latest_for (sc_state st) af with Some s => s_sh s | None => 0 end
                            = match latest_for st af with Some s => s_sh s | None => 0 end * f).
    { intros af. unfold latest_for, sc_state. cbn [ps_map]. rewrite alookup_sc.
      destruct (alookup (af_id af) (ps_map st)); cbn [option_map sc_status s_sh]; [reflexivity | apply zero_sc]. }
    rewrite Hd.
    assert (E2 : forall a, a * f - sold * f = (a - sold) * f) by (intros; ring).
    rewrite E2, ltb_sc0. destruct (Qcltb _ 0); [reflexivity|].
    set (s0 := {| sc_eop := s_all (latest_post_status st) - sold; sc_acq := 0; sc_buyers := [];
                  sc_active := [(af_id (t_af t), match latest_for st (t_af t) with Some s => s_sh s | None => 0 end - sold)] |}).
    assert (Es0 : {| sc_eop := (s_all (latest_post_status st) - sold) * f; sc_acq := 0; sc_buyers := [];
                     sc_active := [(af_id (t_af t), (match latest_for st (t_af t) with Some s => s_sh s | None => 0 end - sold) * f)] |}
                  = sc_scan s0).
    { unfold sc_scan, s0. cbn [sc_eop sc_acq sc_buyers sc_active mapv map fst snd]. rewrite <- zero_sc. reflexivity. }
    rewrite Es0, (fwd_scan_sc _ _ _ _ _ _ Hd).
    destruct (fwd_scan exact _ _ aft [] s0) as [s1| |]; cbn [bind map_res]; try reflexivity.
    cbn [sc_scan sc_eop]. rewrite ltb0_sc. destruct (negb (Qcltb 0 (sc_eop s1))); [reflexivity|].
    fold (sc_scan s1). rewrite (bwd_scan_sc _ _ _ _ _ _ Hd).
    destruct (bwd_scan exact _ _ bef [] s1) as [s2| |]; cbn [bind map_res]; try reflexivity.
    cbn [sc_scan sc_acq]. rewrite ltb0_sc. destruct (Qcltb 0 (sc_acq s2)); reflexivity.
  Qed.

  (* ---- calc_superficial_loss_ratio ---- *)
  Definition sc_portion (p : aff * (Qc * Qc)) : aff * (Qc * Qc) := (fst p, (fst (snd p) * f, snd (snd p) * f)).
  Definition sc_ratio (r : sflratio) : sflratio :=
    {| sr_num := sr_num r * f; sr_den := sr_den r * f; sr_portions := map sc_portion (sr_portions r); sr_over := sr_over r |}.

  Lemma min3_sc a b c : min3 (a * f) (b * f) (c * f) = min3 a b c * f.
  Proof.
    unfold min3. rewrite ltb_sc. destruct (Qcltb b a); rewrite ltb_sc; destruct (Qcltb c _); reflexivity.
  Qed.

  Lemma sum_buyers_sc active l acc :
    sum_buyers exact (mapv mulf active) l (acc * f) = map_res mulf (sum_buyers exact active l acc).
  Proof.
    revert acc. induction l as [|a l IH]; intros acc; cbn [sum_buyers]; [reflexivity|].
    rewrite alookup_mapv.
    assert (E : match option_map mulf (alookup (af_id a) active) with Some d => d | None => 0 end
                = match alookup (af_id a) active with Some d => d | None => 0 end * f).
    { destruct (alookup (af_id a) active); cbn [option_map]; [reflexivity | apply zero_sc]. }
    rewrite E, gez_add_sc. destruct (gez_add exact acc _) as [acc'| |]; cbn [bind map_res]; try reflexivity.
    apply IH.
  Qed.

  Lemma portions_sc active total l :
    portions (mapv mulf active) (total * f) l = map_res (map sc_portion) (portions active total l).
  Proof.
    induction l as [|a l IH]; cbn [portions]; [reflexivity|].
    rewrite alookup_mapv. destruct (alookup (af_id a) active) as [d|]; cbn [option_map]; [|reflexivity].
    rewrite IH. destruct (portions active total l); reflexivity.
  Qed.

  Lemma sfl_ratio_sc sold ms :
    sfl_ratio exact (sold * f) (option_map sc_scan ms) = map_res (option_map sc_ratio) (sfl_ratio exact sold ms).
  Proof.
    unfold sfl_ratio. destruct ms as [s|]; cbn [option_map]; [|reflexivity].
    cbn [sc_scan sc_buyers sc_acq sc_eop sc_active]. destruct (sc_buyers s) as [|b bs] eqn:Eb; [reflexivity|].
    rewrite <- Eb. rewrite zero_sc at 1. rewrite sum_buyers_sc.
    destruct (sum_buyers exact (sc_active s) (sort_affs (sc_buyers s)) 0) as [total| |]; cbn [bind map_res]; try reflexivity.
    rewrite ltb0_sc. destruct (Qcltb 0 total).
    - rewrite portions_sc. destruct (portions (sc_active s) total _) as [ps| |]; cbn [bind map_res]; try reflexivity.
      rewrite min3_sc, ltb_sc. reflexivity.
    - cbn [bind map_res]. rewrite min3_sc, ltb_sc. reflexivity.
  Qed.

  Lemma gen_sfla_sc t loss ps :
    gen_sfla exact (scale_tx f t) loss (map sc_portion ps) = map_res (map (scale_tx f)) (gen_sfla exact t loss ps).
  Proof.
    induction ps as [|[af [n d]] ps IH]; cbn [map gen_sfla sc_portion fst snd]; [reflexivity|].
    rewrite eqb_sc0. destruct (negb (Qceqb n 0) && negb (af_reg af)); [|exact IH].
    rewrite a_div_cancel. destruct (a_div exact n d) as [q| |]; cbn [bind map_res]; try reflexivity.
    destruct (gez_unwrap _ q) as [q1| |]; cbn [bind map_res]; try reflexivity.
    destruct (pos_unwrap _ q1) as [q2| |]; cbn [bind map_res]; try reflexivity.
    destruct (neg_mul exact _ loss) as [m| |]; cbn [bind map_res]; try reflexivity.
    destruct (pos_mul exact m q2) as [amt| |]; cbn [bind map_res]; try reflexivity.
    rewrite IH. destruct (gen_sfla exact t loss ps); reflexivity.
  Qed.

  Lemma delta_sfl_sc bef t sold spec aft st loss :
    delta_sfl exact (map (scale_tx f) bef) (scale_tx f t) (sold * f) spec (map (scale_tx f) aft) (sc_state st) loss
    = map_res (option_map (fun p => (sc_info (fst p), map (scale_tx f) (snd p))))
              (delta_sfl exact bef t sold spec aft st loss).
  Proof.
    unfold delta_sfl. rewrite sfl_info_sc.
    destruct (sfl_info exact bef t sold aft st) as [i| |]; cbn [bind map_res]; try reflexivity.
    rewrite sfl_ratio_sc. destruct (sfl_ratio exact sold i) as [m| |]; cbn [bind map_res]; try reflexivity.
    assert (Ecalc : match option_map sc_ratio m with
                    | Some r => q <- a_div exact (sr_num r) (sr_den r);; q1 <- pos_unwrap Site.ratio_to_pos q;;
                                l <- neg_mul_pos exact loss q1;; c <- eff_cent exact l;; lez_unwrap Site.eff_cent c
                    | None => Ok 0 end
                    = match m with
                      | Some r => q <- a_div exact (sr_num r) (sr_den r);; q1 <- pos_unwrap Site.ratio_to_pos q;;
                                  l <- neg_mul_pos exact loss q1;; c <- eff_cent exact l;; lez_unwrap Site.eff_cent c
                      | None => Ok 0 end).
    { destruct m as [r|]; cbn [option_map sc_ratio sr_num sr_den]; [|reflexivity]. rewrite a_div_cancel. reflexivity. }
    rewrite Ecalc. clear Ecalc.
    match goal with |- bind ?c _ = _ => destruct c as [calc| |]; cbn [bind map_res]; try reflexivity end.
    destruct spec as [[sv force]|].
    - match goal with |- bind ?c _ = _ => destruct c as [u| |]; cbn [bind map_res]; try reflexivity end.
      destruct (negb (Qcltb sv 0)); [reflexivity|].
      destruct (neg_div exact sv loss) as [q| |]; cbn [bind map_res]; try reflexivity.
      rewrite pos_mul_sc_r. destruct (pos_mul exact q sold) as [n| |]; cbn [bind map_res]; reflexivity.
    - destruct m as [r|]; cbn [option_map]; [|reflexivity].
      destruct (negb (Qcltb calc 0)); [reflexivity|]. rename calc into c.
      cbn [sc_ratio sr_portions]. rewrite gen_sfla_sc.
      destruct (gen_sfla exact t c (sr_portions r)); cbn [bind map_res]; reflexivity.
  Qed.

  (* ---- delta_for_tx and the loops ---- *)
  Lemma delta_for_tx_sc bef t aft st :
    no_int_only t ->
    delta_for_tx exact (map (scale_tx f) bef) (scale_tx f t) (map (scale_tx f) aft) (sc_state st)
    = map_res (fun p => (sc_delta (fst p), map (scale_tx f) (snd p))) (delta_for_tx exact bef t aft st).
  Proof.
    intros Hio. unfold delta_for_tx. cbn [scale_tx t_af t_act]. rewrite next_pre_sc, sanity_sc.
    destruct (sanity_check _ _); cbn [bind map_res]; try reflexivity.
    destruct (t_act t) as [n price com rate crate | n price com rate crate sp | amount rate
                          | n amount | post pre_ io] eqn:Ea; cbn [scale_action].
    2: { rewrite sell_core_sc.
         destruct (sell_core exact _ n price com rate crate) as [c| |]; cbn [bind map_res]; try reflexivity.
         cbn [sc_core sc_gain sc_sh sc_all sc_acb]. destruct (sc_gain c) as [g|]; [|reflexivity].
         destruct (Qcltb g 0).
         - fold (scale_tx f t). rewrite delta_sfl_sc.
           destruct (delta_sfl exact bef t n sp aft st g) as [m| |]; cbn [bind map_res]; try reflexivity.
           destruct m as [[info inj]|]; cbn [option_map fst snd sc_info sf_amount].
           + destruct (a_sub exact g (sf_amount info)); cbn [bind map_res]; reflexivity.
           + reflexivity.
         - destruct sp; reflexivity. }
    all: change (scale_action f (t_act t)) with (t_act (scale_tx f t)) || idtac;
      match goal with
      | |- bind (delta_nonsell exact ?t' _) _ = _ =>
          replace t' with (scale_tx f t) by (unfold scale_tx; rewrite Ea; reflexivity)
      end;
      rewrite delta_nonsell_sc by (unfold no_int_only in *; rewrite Ea in *; exact Hio);
      destruct (delta_nonsell exact t _); cbn [bind map_res]; reflexivity.
  Qed.

  Lemma sfla_no_int_only t : is_sfla (t_act t) = true -> no_int_only t.
  Proof. unfold no_int_only. destruct (t_act t); try discriminate; intros; exact I. Qed.

  Lemma run_injected_sc bef st inj aft :
    Forall no_int_only inj ->
    run_injected exact (map (scale_tx f) bef) (sc_state st) (map (scale_tx f) inj) (map (scale_tx f) aft)
    = let '(ds, bef', st', o) := run_injected exact bef st inj aft in
      (map sc_delta ds, map (scale_tx f) bef', sc_state st', o).
  Proof.
    revert bef st. induction inj as [|t inj IH]; intros bef st HF; cbn [map run_injected]; [reflexivity|].
    apply Forall_cons_iff in HF as [Ht HF].
    rewrite <- map_app, (delta_for_tx_sc _ _ _ _ Ht).
    destruct (delta_for_tx exact bef t (inj ++ aft) st) as [[d i]| |]; cbn [map_res fst snd]; try reflexivity.
    cbn [scale_tx t_af sc_delta d_post]. rewrite set_latest_sc.
    destruct (set_latest exact st (t_af t) (d_post d)) as [st1| |]; cbn [map_res]; try reflexivity.
    change (scale_tx f t :: map (scale_tx f) bef) with (map (scale_tx f) (t :: bef)). rewrite (IH _ _ HF).
    destruct (run_injected exact (t :: bef) st1 inj aft) as [[[ds b] s'] o]. reflexivity.
  Qed.

  Lemma run_loop_sc bef st aft :
    Forall no_int_only aft ->
    run_loop exact (map (scale_tx f) bef) (sc_state st) (map (scale_tx f) aft)
    = let '(ds, o) := run_loop exact bef st aft in (map sc_delta ds, o).
  Proof.
    revert bef st. induction aft as [|t aft IH]; intros bef st HF; cbn [map run_loop]; [reflexivity|].
    apply Forall_cons_iff in HF as [Ht HF].
    rewrite (delta_for_tx_sc _ _ _ _ Ht).
    destruct (delta_for_tx exact bef t aft st) as [[d inj]| |] eqn:Ed; cbn [map_res fst snd]; try reflexivity.
    cbn [scale_tx t_af sc_delta d_post]. rewrite set_latest_sc.
    destruct (set_latest exact st (t_af t) (d_post d)) as [st1| |]; cbn [map_res]; try reflexivity.
    change (scale_tx f t :: map (scale_tx f) bef) with (map (scale_tx f) (t :: bef)).
    rewrite run_injected_sc.
    2: { eapply Forall_impl; [|eapply C01Refine.delta_for_tx_inj; exact Ed]. intros a Ha. apply sfla_no_int_only. exact Ha. }
    destruct (run_injected exact (t :: bef) st1 inj aft) as [[[dsi b1] st2] o1].
    destruct o1; [reflexivity|]. rewrite (IH _ _ HF).
    destruct (run_loop exact b1 st2 aft) as [ds o]. cbn [map]. rewrite map_app. reflexivity.
  Qed.

  Lemma init_state_sc init :
    init_state exact (option_map sc_status init) = map_res sc_state (init_state exact init).
  Proof.
    unfold init_state. destruct init as [i|]; cbn [option_map].
    - cbn [sc_status s_sh s_all]. rewrite eqb_sc. destruct (negb (Qceqb (s_sh i) (s_all i))); [reflexivity|].
      assert (E : {| ps_map := []; ps_all := 0; ps_latest := default_aff |}
                  = sc_state {| ps_map := []; ps_all := 0; ps_latest := default_aff |}).
      { unfold sc_state. cbn [ps_map ps_all ps_latest map]. rewrite <- zero_sc. reflexivity. }
      rewrite E at 1. apply set_latest_sc.
    - cbn [map_res]. unfold sc_state. cbn [ps_map ps_all ps_latest map]. rewrite <- zero_sc. reflexivity.
  Qed.

  Theorem run_sc init txs :
    Forall no_int_only txs ->
    run exact (option_map sc_status init) (map (scale_tx f) txs)
    = let '(ds, o) := run exact init txs in (map sc_delta ds, o).
  Proof.
    intros HF. unfold run. destruct txs as [|t txs]; [reflexivity|]. cbn [map].
    rewrite init_state_sc. destruct (init_state exact init) as [st| |]; cbn [map_res]; try reflexivity.
    change (scale_tx f t :: map (scale_tx f) txs) with (map (scale_tx f) (t :: txs)).
    change (@nil tx) with (map (scale_tx f) []). apply run_loop_sc. exact HF.
  Qed.
End Scale.
