(* C16 at the level of the application (Model/App.v run_app): an opening
   position SYM:n:c is the same as an opening purchase by the default
   affiliate, also when the security has rows of other affiliates only and
   global splits (the default affiliate is among the holders a global split is
   expanded over: through [has_init] on one side, through the purchase row on
   the other), and when the rows are numbered by their position in the input. *)
From Coq Require Import List NArith ZArith QArith Qcanon Bool Lia Sorted.
From ACB Require Import Base.Outcome Base.QcExtra Base.Arith Model.Tx Model.Ledger Model.Sfl
     Model.DeltaList Model.App Proofs.Tactics Proofs.C01Refine Proofs.C16Opening
     Proofs.EraseRi Proofs.SortLayout Proofs.Layout.
Import ListNotations.

(* ---- the global-split machinery does not see a leading non-split row ---- *)
Lemma near_split_scan_snoc target back bef p :
  is_split (t_act p) = false ->
  near_split_scan target back (bef ++ [p]) = near_split_scan target back bef.
Proof.
  intros Hp. induction bef as [|x bef IH]; cbn [app near_split_scan].
  - rewrite Hp. cbn [andb]. destruct (1 <? _)%Z; reflexivity.
  - rewrite IH. reflexivity.
Qed.

Lemma global_split_check_snoc p l : forall bef,
  is_split (t_act p) = false ->
  global_split_check (bef ++ [p]) l = global_split_check bef l.
Proof.
  induction l as [|x l IH]; intros bef Hp; cbn [global_split_check]; [reflexivity|].
  rewrite near_split_scan_snoc by exact Hp.
  change (x :: bef ++ [p]) with ((x :: bef) ++ [p]). rewrite (IH _ Hp). reflexivity.
Qed.

Lemma expand_with_Forall (P : tx -> Prop) affs l :
  (forall t a, P t -> P (with_aff t a)) -> Forall P l -> Forall P (expand_with affs l).
Proof.
  intros Hw. unfold expand_with. induction l as [|x l IH]; intros HF; cbn [flat_map]; [constructor|].
  apply Forall_cons_iff in HF as [Hx HF]. apply Forall_app. split; [|apply IH; exact HF].
  destruct (is_split (t_act x) && t_glob x).
  - apply Forall_forall. intros y Hy. apply in_map_iff in Hy as (a & <- & _). apply Hw. exact Hx.
  - constructor; [exact Hx | constructor].
Qed.

Lemma expand_with_nonempty affs x l : affs <> [] -> expand_with affs (x :: l) <> [].
Proof.
  intros Ha. unfold expand_with. cbn [flat_map].
  destruct (is_split (t_act x) && t_glob x); [|discriminate].
  destruct affs as [|a affs]; [contradiction|]. discriminate.
Qed.

(* ---- one security: opening position against opening purchase ---- *)
Section OneSecurity.
  Variables (sec : N) (day : Z) (n c : Qc).
  Let p := opening_buy sec day n c.
  Let opening := opening_status n c.

  Theorem sec_result_opening l :
    (0 <= n)%Qc -> (0 <= c)%Qc -> l <> [] ->
    Forall (fun x => is_sell (t_act x) = true -> far p x) l ->
    exists d, d_tx d = p /\ d_post d = opening /\
      sec_result_of exact None (p :: l)
      = if global_split_check [] l
        then (d :: fst (sec_result_of exact (Some opening) l), snd (sec_result_of exact (Some opening) l))
        else sec_result_of exact (Some opening) l.
  Proof.
    intros Hn Hc Hne HF.
    assert (Hps : is_split (t_act p) = false) by reflexivity.
    unfold sec_result_of, replace_global_splits.
    assert (Hchk : global_split_check [] (p :: l) = global_split_check [] l).
    { cbn [global_split_check]. rewrite Hps. cbn [andb].
      change [p] with ([] ++ [p]). apply global_split_check_snoc. exact Hps. }
    rewrite Hchk.
    destruct (global_split_check [] l) eqn:Eg; cbn [negb].
    2: { destruct (opening_row sec day n c [] Hn Hc) as (d & st1 & _ & Htx & Hpost & _).
         exists d. auto. }
    assert (Hex : existsb (fun t => is_split (t_act t) && t_glob t) (p :: l)
                  = existsb (fun t => is_split (t_act t) && t_glob t) l).
    { cbn [existsb]. rewrite Hps. reflexivity. }
    rewrite Hex.
    assert (Hrun : forall l', l' <> [] -> Forall (fun x => is_sell (t_act x) = true -> far p x) l' ->
                   exists d, d_tx d = p /\ d_post d = opening /\
                     run exact None (p :: l') = (d :: fst (run exact (Some opening) l'), snd (run exact (Some opening) l'))).
    { intros l' Hne' HF'. destruct l' as [|t txs]; [contradiction Hne'; reflexivity|].
      apply (opening_equals_purchase sec day n c t txs Hn Hc HF'). }
    destruct (existsb (fun t => is_split (t_act t) && t_glob t) l); cbn [negb].
    - (* global splits: same holders, the purchase is not expanded *)
      assert (Hh : holders false (p :: l) = holders true l) by reflexivity.
      rewrite Hh.
      set (affs := match holders true l with [] => [default_aff] | a => a end).
      assert (Haffs : affs <> []) by (unfold affs; destruct (holders true l); discriminate).
      assert (Hexp : expand_with affs (p :: l) = p :: expand_with affs l).
      { unfold expand_with. cbn [flat_map]. rewrite Hps. reflexivity. }
      rewrite Hexp. apply Hrun.
      + destruct l as [|x l0]; [contradiction Hne; reflexivity|]. apply expand_with_nonempty. exact Haffs.
      + apply expand_with_Forall; [|exact HF]. intros t a Ht. exact Ht.
    - apply Hrun; assumption.
  Qed.
End OneSecurity.

(* ---- the sorted rows of the security, with the purchase in front ---- *)
Lemma txs_of_sec_insert_other s p L :
  N.eqb (t_sec p) s = false -> txs_of_sec s (insert_tx p L) = txs_of_sec s L.
Proof.
  intros Hp. unfold txs_of_sec. induction L as [|h r IH]; cbn [insert_tx filter].
  - rewrite Hp. reflexivity.
  - destruct (tx_leb p h); cbn [filter]; [rewrite Hp; reflexivity|].
    destruct (N.eqb (t_sec h) s); rewrite IH; reflexivity.
Qed.

Lemma txs_of_sec_insert_first s p L :
  N.eqb (t_sec p) s = true ->
  Forall (fun x => N.eqb (t_sec x) s = true -> tx_leb p x = true) L ->
  txs_of_sec s (insert_tx p L) = p :: txs_of_sec s L.
Proof.
  intros Hp. unfold txs_of_sec. induction L as [|h r IH]; intros HF; cbn [insert_tx filter].
  - rewrite Hp. reflexivity.
  - apply Forall_cons_iff in HF as [Hh HF].
    destruct (tx_leb p h) eqn:El; cbn [filter]; [rewrite Hp; reflexivity|].
    destruct (N.eqb (t_sec h) s) eqn:Es; [discriminate (Hh eq_refl)|]. apply IH. exact HF.
Qed.

(* securities: strictly increasing, insertion commutes *)
Ltac nsolve :=
  repeat (cbn [insert_sec];
          match goal with
          | |- context [N.eqb ?x ?y] => destruct (N.eqb_spec x y); subst
          | |- context [N.ltb ?x ?y] => destruct (N.ltb_spec x y)
          end);
  cbn [insert_sec]; try reflexivity; try lia; try congruence.

Lemma insert_sec_comm a b l : insert_sec a (insert_sec b l) = insert_sec b (insert_sec a l).
Proof.
  induction l as [|h r IH]; nsolve.
Qed.

Lemma securities_insert_tx p L : securities (insert_tx p L) = insert_sec (t_sec p) (securities L).
Proof.
  unfold securities. induction L as [|h r IH]; cbn [insert_tx fold_right]; [reflexivity|].
  destruct (tx_leb p h); cbn [fold_right]; [reflexivity|]. rewrite IH. apply insert_sec_comm.
Qed.

Lemma insert_sec_sorted s l : StronglySorted N.lt l -> StronglySorted N.lt (insert_sec s l).
Proof.
  induction l as [|h r IH]; intros Hs; cbn [insert_sec].
  - constructor; [constructor | constructor].
  - destruct (N.eqb_spec s h) as [->|ne]; [exact Hs|].
    pose proof Hs as Hs0. apply StronglySorted_inv in Hs as [Hr Hall].
    destruct (N.ltb_spec s h).
    + constructor; [exact Hs0|]. constructor; [assumption|].
      eapply Forall_impl; [|exact Hall]. intros x Hx. cbv beta in Hx. lia.
    + constructor; [apply IH; exact Hr|].
      assert (Hin : forall x, In x (insert_sec s r) -> x = s \/ In x r).
      { clear. induction r as [|k r IHr]; cbn [insert_sec]; intros x Hx.
        - destruct Hx as [<-|[]]. left; reflexivity.
        - destruct (N.eqb s k); [right; exact Hx|]. destruct (N.ltb s k).
          + destruct Hx as [<-|Hx]; [left; reflexivity | right; exact Hx].
          + destruct Hx as [<-|Hx]; [right; left; reflexivity|].
            destruct (IHr _ Hx) as [->|Hr]; [left; reflexivity | right; right; exact Hr]. }
      apply Forall_forall. intros x Hx. destruct (Hin x Hx) as [->|Hxr]; [lia|].
      rewrite Forall_forall in Hall. apply Hall. exact Hxr.
Qed.

Lemma securities_sorted l : StronglySorted N.lt (securities l).
Proof.
  unfold securities. induction l as [|x l IH]; cbn [fold_right]; [constructor|].
  apply insert_sec_sorted. exact IH.
Qed.

Lemma insert_sec_present s l : StronglySorted N.lt l -> In s l -> insert_sec s l = l.
Proof.
  induction l as [|h r IH]; intros Hs Hin; [contradiction|]. cbn [insert_sec].
  destruct (N.eqb_spec s h) as [->|ne]; [reflexivity|].
  apply StronglySorted_inv in Hs as [Hr Hall].
  destruct Hin as [->|Hin]; [contradiction ne; reflexivity|].
  rewrite Forall_forall in Hall. pose proof (Hall s Hin) as Hlt.
  destruct (N.ltb_spec s h); [lia|]. rewrite (IH Hr Hin). reflexivity.
Qed.

Lemma sort_txs_cons p rows : sort_txs (p :: rows) = insert_tx p (sort_txs rows).
Proof. reflexivity. Qed.

Lemma In_insert_tx x p L : In x (insert_tx p L) <-> x = p \/ In x L.
Proof.
  induction L as [|h r IH]; cbn [insert_tx In].
  - split; [intros [<-|[]]; left; reflexivity | intros [->|[]]; left; reflexivity].
  - destruct (tx_leb p h); cbn [In]; [intuition (subst; auto)|]. rewrite IH. intuition (subst; auto).
Qed.
Lemma In_sort_txs x l : In x (sort_txs l) <-> In x l.
Proof.
  unfold sort_txs. induction l as [|y l IH]; cbn [fold_right In]; [tauto|].
  rewrite In_insert_tx, IH. intuition (subst; auto).
Qed.

(* ---- the application ---- *)
Section App.
  Variables (sec : N) (day : Z) (n c : Qc).
  Let p := opening_buy sec day n c.
  Let opening := opening_status n c.

  (* what the purchase changes in the result of the run with the opening position *)
  Definition with_purchase (d : delta) (near_ok : bool) (e : N * (list delta * option stop))
    : N * (list delta * option stop) :=
    if N.eqb (fst e) sec && near_ok then (fst e, (d :: fst (snd e), snd (snd e))) else e.

  Theorem app_opening_equals_purchase inits inits' rows :
    (0 <= n)%Qc -> (0 <= c)%Qc ->
    init_for inits sec = Some opening -> init_for inits' sec = None ->
    (forall s, s <> sec -> init_for inits' s = init_for inits s) ->
    In sec (securities (sort_txs rows)) ->
    Forall (fun x => t_sec x = sec -> far p x) rows ->
    exists d res,
      d_tx d = p /\ d_post d = opening /\
      run_app exact inits rows = Ok res /\
      run_app exact inits' (p :: rows)
      = Ok (map (with_purchase d (global_split_check [] (txs_of_sec sec (sort_txs rows)))) res).
  Proof.
    intros Hn Hc Hi Hi' Hother Hin Hfar.
    rewrite !run_app_per_security. rewrite sort_txs_cons.
    set (L := sort_txs rows) in *.
    assert (Hsecs : securities (insert_tx p L) = securities L).
    { rewrite securities_insert_tx. apply insert_sec_present; [apply securities_sorted | exact Hin]. }
    rewrite Hsecs.
    assert (Hfirst : txs_of_sec sec (insert_tx p L) = p :: txs_of_sec sec L).
    { apply txs_of_sec_insert_first; [apply N.eqb_refl|].
      apply Forall_forall. intros x Hx Hs. apply N.eqb_eq in Hs.
      unfold L in Hx. apply (proj1 (In_sort_txs x rows)) in Hx. rewrite Forall_forall in Hfar. specialize (Hfar x Hx Hs).
      unfold far, window_days in Hfar. unfold tx_leb.
      assert (E : (t_sd p <? t_sd x)%Z = true) by (apply Z.ltb_lt; lia). rewrite E. reflexivity. }
    assert (Hne : txs_of_sec sec L <> []).
    { clear -Hin. unfold securities, txs_of_sec in *. induction L as [|x l IH]; [contradiction|].
      cbn [fold_right filter] in *. destruct (N.eqb_spec (t_sec x) sec) as [e|ne]; [discriminate|].
      apply IH. clear IH. revert Hin. generalize (fold_right (fun t acc => insert_sec (t_sec t) acc) [] l).
      intros m. induction m as [|k m IHm]; cbn [insert_sec In].
      - intros [e|[]]. contradiction.
      - destruct (N.eqb (t_sec x) k); [auto|]. destruct (N.ltb (t_sec x) k); cbn [In].
        + intros [e|H]; [contradiction | exact H].
        + intros [e|H]; [left; exact e | right; apply IHm; exact H]. }
    assert (Hsell : Forall (fun x => is_sell (t_act x) = true -> far p x) (txs_of_sec sec L)).
    { apply Forall_forall. intros x Hx _. unfold txs_of_sec in Hx. apply filter_In in Hx as [Hx Hs].
      apply N.eqb_eq in Hs. unfold L in Hx. apply (proj1 (In_sort_txs x rows)) in Hx. rewrite Forall_forall in Hfar. apply Hfar; assumption. }
    destruct (sec_result_opening sec day n c (txs_of_sec sec L) Hn Hc Hne Hsell) as (d & Htx & Hpost & Hres).
    exists d. eexists. split; [exact Htx|]. split; [exact Hpost|]. split; [reflexivity|].
    f_equal. rewrite map_map. apply map_ext_in. intros s _.
    unfold with_purchase. cbn [fst snd].
    destruct (N.eqb_spec s sec) as [->|ne]; cbn [andb].
    - rewrite Hi, Hi', Hfirst. unfold p, opening. rewrite Hres.
      destruct (global_split_check [] (txs_of_sec sec L)); [reflexivity|].
      destruct (sec_result_of exact (Some opening) (txs_of_sec sec L)); reflexivity.
    - rewrite (Hother s ne). rewrite txs_of_sec_insert_other; [reflexivity|].
      apply N.eqb_neq. intros e. apply ne. symmetry. exact e.
  Qed.
End App.

(* ---- read indices assigned by position: the purchase is row 0 of the second
   input and shifts every other row's index by one; the reports agree up to
   the read indices ---- *)
Lemma In_insert_sd x p L : In x (insert_sd p L) <-> x = p \/ In x L.
Proof.
  induction L as [|h r IH]; cbn [insert_sd In].
  - split; [intros [<-|[]]; left; reflexivity | intros [->|[]]; left; reflexivity].
  - destruct (t_sd p <=? t_sd h)%Z; cbn [In]; [intuition (subst; auto)|]. rewrite IH. intuition (subst; auto).
Qed.
Lemma In_sort_sd x l : In x (sort_sd l) <-> In x l.
Proof.
  unfold sort_sd. induction l as [|y l IH]; cbn [fold_right In]; [tauto|].
  rewrite In_insert_sd, IH. intuition (subst; auto).
Qed.
Lemma insert_sd_first p L : Forall (fun y => (t_sd p <= t_sd y)%Z) L -> insert_sd p L = p :: L.
Proof.
  destruct L as [|h r]; intros HF; cbn [insert_sd]; [reflexivity|].
  apply Forall_cons_iff in HF as [Hh _]. apply Z.leb_le in Hh. rewrite Hh. reflexivity.
Qed.

Section Numbered.
  Variables (sec : N) (day : Z) (n c : Qc).
  Let p := opening_buy sec day n c.
  Let opening := opening_status n c.

  Theorem sec_opening_numbered rows :
    (0 <= n)%Qc -> (0 <= c)%Qc ->
    Exists (fun x => t_sec x = sec) rows ->
    Forall (fun x => t_sec x = sec -> far p x) rows ->
    let X := txs_of_sec sec (sort_txs (number rows)) in
    let R := erase_result (sec_result_of exact (Some opening) X) in
    exists d, d_tx d = p /\ d_post d = opening /\
      erase_result (sec_result_of exact None (txs_of_sec sec (sort_txs (number (p :: rows)))))
      = if global_split_check [] X then (d :: fst R, snd R) else R.
  Proof.
    intros Hn Hc Hex Hfar X R. unfold R, X.
    rewrite <- (global_split_check_erase [] (txs_of_sec sec (sort_txs (number rows)))).
    rewrite <- !sec_result_of_erase. rewrite !sec_rows_spec.
    cbn [map]. change (erase p) with p.
    assert (Hsec : txs_of_sec sec (p :: map erase rows) = p :: txs_of_sec sec (map erase rows)).
    { unfold txs_of_sec. cbn [filter]. change (t_sec p) with sec. rewrite N.eqb_refl. reflexivity. }
    rewrite Hsec. change (sort_sd (p :: txs_of_sec sec (map erase rows)))
      with (insert_sd p (sort_sd (txs_of_sec sec (map erase rows)))).
    set (l := sort_sd (txs_of_sec sec (map erase rows))).
    assert (Hl : forall x, In x l -> far p x).
    { intros x Hx. unfold l in Hx. apply (proj1 (In_sort_sd _ _)) in Hx.
      unfold txs_of_sec in Hx. apply filter_In in Hx as [Hx Hs]. apply N.eqb_eq in Hs.
      apply in_map_iff in Hx as (y & <- & Hy). rewrite Forall_forall in Hfar.
      apply (Hfar y Hy). exact Hs. }
    rewrite insert_sd_first.
    2: { apply Forall_forall. intros y Hy. specialize (Hl y Hy). unfold far, window_days in Hl. lia. }
    cbn [map].
    apply (sec_result_opening sec day n c l Hn Hc).
    - apply Exists_exists in Hex as (y & Hy & Hs).
      assert (Hin : In (erase y) l).
      { unfold l. apply (proj2 (In_sort_sd _ _)). unfold txs_of_sec. apply filter_In. split.
        - apply in_map. exact Hy.
        - apply N.eqb_eq. exact Hs. }
      intros E. rewrite E in Hin. contradiction.
    - apply Forall_forall. intros x Hx _. apply Hl. exact Hx.
  Qed.
End Numbered.
