(* Theorems about the output layer (Model/Output.v): what the writers put
   into the report files / onto standard output is the render model, all of
   it and nothing else, in an order that depends on the sorted security names
   only. *)
From Coq Require Import List NArith ZArith QArith Qcanon Bool Lia Permutation Sorting.Sorted.
From ACB Require Import Base.Outcome Base.Arith Model.CsvFields Model.Tx Model.DeltaList Model.App Model.Gains
     Model.Render Model.Output Proofs.Tactics Proofs.CsvDigits Proofs.SortPerm Proofs.Layout Proofs.C16App
     Proofs.RenderProps.
Import ListNotations.
Local Open Scope N_scope.

(* ================================================================ A. String's order, the sort *)
Lemma bytes_leb_refl a : bytes_leb a a = true.
Proof. induction a as [|x a IH]; cbn [bytes_leb]; [reflexivity|]. rewrite N.ltb_irrefl, N.eqb_refl. exact IH. Qed.

Lemma bytes_leb_total a : forall b, bytes_leb a b = false -> bytes_leb b a = true.
Proof.
  induction a as [|x a IH]; intros [|y b] H; cbn [bytes_leb] in *; try discriminate; try reflexivity.
  destruct (N.ltb_spec x y) as [L|L]; [discriminate|].
  destruct (N.eqb_spec x y) as [->|ne].
  - rewrite N.ltb_irrefl, N.eqb_refl. apply IH. exact H.
  - destruct (N.ltb_spec y x) as [L'|L']; [reflexivity|]. lia.
Qed.

Lemma bytes_leb_trans a : forall b c, bytes_leb a b = true -> bytes_leb b c = true -> bytes_leb a c = true.
Proof.
  induction a as [|x a IH]; intros [|y b] [|z c] H1 H2; cbn [bytes_leb] in *; try discriminate; try reflexivity.
  destruct (N.ltb_spec x y) as [L1|L1].
  - destruct (N.ltb_spec y z) as [L2|L2].
    + destruct (N.ltb_spec x z); [reflexivity|lia].
    + destruct (N.eqb_spec y z) as [->|ne]; [|discriminate].
      destruct (N.ltb_spec x z); [reflexivity|lia].
  - destruct (N.eqb_spec x y) as [->|ne]; [|discriminate].
    destruct (N.ltb_spec y z) as [L2|L2]; [reflexivity|].
    destruct (N.eqb_spec y z) as [->|ne]; [|discriminate].
    eapply IH; eauto.
Qed.

Lemma bytes_leb_antisym a : forall b, bytes_leb a b = true -> bytes_leb b a = true -> a = b.
Proof.
  induction a as [|x a IH]; intros [|y b] H1 H2; cbn [bytes_leb] in *; try discriminate; try reflexivity.
  destruct (N.ltb_spec x y) as [L1|L1].
  - destruct (N.ltb_spec y x) as [L2|L2]; [lia|].
    destruct (N.eqb_spec y x) as [->|ne]; [lia|discriminate].
  - destruct (N.eqb_spec x y) as [->|ne]; [|discriminate].
    rewrite N.ltb_irrefl, N.eqb_refl in H2. f_equal. apply IH; assumption.
Qed.

Lemma bsort_gsort l : bsort l = gsort bytes_leb l.
Proof.
  unfold bsort, gsort. induction l as [|h r IH]; cbn [fold_right]; [reflexivity|].
  rewrite IH. generalize (fold_right (ginsert bytes_leb) [] r). intros m.
  induction m as [|x m IHm]; cbn [binsert ginsert]; [reflexivity|]. rewrite IHm. reflexivity.
Qed.

Definition bytes_le (a b : bytes) : Prop := bytes_leb a b = true.

Lemma bsort_perm l : Permutation (bsort l) l.
Proof. rewrite bsort_gsort. apply gsort_perm. Qed.
Lemma bsort_sorted l : StronglySorted bytes_le (bsort l).
Proof. rewrite bsort_gsort. exact (gsort_sorted bytes_leb bytes_leb_total bytes_leb_trans l). Qed.
Lemma bsort_perm_eq l l' : Permutation l l' -> bsort l = bsort l'.
Proof.
  intros Hp. rewrite !bsort_gsort. apply (gsort_perm_eq bytes_leb bytes_leb_total bytes_leb_trans); [exact Hp|].
  intros a b _ _ H1 H2. apply bytes_leb_antisym; assumption.
Qed.
Lemma bsort_in x l : In x (bsort l) <-> In x l.
Proof.
  split; intros H; eapply Permutation_in; try eassumption;
    [apply bsort_perm | apply Permutation_sym, bsort_perm].
Qed.
Lemma bsort_nodup l : NoDup l -> NoDup (bsort l).
Proof. intros H. eapply Permutation_NoDup; [apply Permutation_sym, bsort_perm|exact H]. Qed.

(* ================================================================ B. the map of tables *)
Lemma blookup_in {V} k (v : V) l : NoDup (map fst l) -> In (k, v) l -> blookup k l = Some v.
Proof.
  induction l as [|[k' v'] l IH]; intros Hn Hin; [contradiction|].
  cbn [map fst] in Hn. inversion Hn as [|? ? Hnot Hn']; subst. cbn [blookup].
  destruct Hin as [E|Hin].
  - inversion E; subst. rewrite beqb_refl. reflexivity.
  - destruct (beqb k' k) eqn:E.
    + apply beqb_eq in E. subst. exfalso. apply Hnot. apply in_map_iff. exists (k, v). auto.
    + apply IH; assumption.
Qed.

Lemma blookup_some {V} k (v : V) l : blookup k l = Some v -> In (k, v) l.
Proof.
  induction l as [|[k' v'] l IH]; cbn [blookup]; [discriminate|].
  destruct (beqb k' k) eqn:E.
  - apply beqb_eq in E. subst. intros H. inversion H; subst. left; reflexivity.
  - intros H. right. auto.
Qed.

Lemma blookup_none {V} k (l : list (bytes * V)) : blookup k l = None <-> ~ In k (map fst l).
Proof.
  induction l as [|[k' v'] l IH]; cbn [blookup map fst]; [tauto|].
  destruct (beqb k' k) eqn:E.
  - apply beqb_eq in E. subst. split; [discriminate|]. intros H. exfalso. apply H. left; reflexivity.
  - apply beqb_neq in E. rewrite IH. split; [intros H [H'|H']; auto | intros H H'; apply H; right; exact H'].
Qed.

Lemma blookup_perm {V} k (l l' : list (bytes * V)) :
  NoDup (map fst l) -> Permutation l l' -> blookup k l = blookup k l'.
Proof.
  intros Hn Hp.
  assert (Hn' : NoDup (map fst l')) by (eapply Permutation_NoDup; [apply Permutation_map; exact Hp|exact Hn]).
  destruct (blookup k l) as [v|] eqn:E.
  - symmetry. apply blookup_in; [exact Hn'|]. eapply Permutation_in; [exact Hp|]. apply blookup_some. exact E.
  - symmetry. apply blookup_none. apply blookup_none in E. intros H. apply E.
    eapply Permutation_in; [apply Permutation_sym, Permutation_map; exact Hp|exact H].
Qed.

(* ================================================================ C. write_render_result as a sequence of prints *)
Definition call : Type := (out_type * bytes * rtable)%type.

(* the prints of write_render_result, in order *)
Definition sec_calls (tabs : list (bytes * rtable)) (names : list bytes) : list call :=
  flat_map (fun s => match blookup s tabs with Some t => [(OTransactions, s, t)] | None => [] end) names.
Definition tail_calls (r : app_result) : list call :=
  (OAggregateGains, [], ar_agg r)
    :: match ar_costs r with
       | Some (total, yearly) => [(OCosts, s_total_name, total); (OCosts, s_yearly_max, yearly)]
       | None => []
       end.
Definition calls (r : app_result) : list call :=
  sec_calls (ar_secs r) (bsort (map fst (ar_secs r))) ++ tail_calls r.

Section Runs.
  Variable W : Type.
  Variable print : W -> out_type -> bytes -> rtable -> W * option fail.

  (* prints until the first failure *)
  Fixpoint run_calls (w : W) (cs : list call) : W * option fail :=
    match cs with
    | [] => (w, None)
    | (ot, name, t) :: rest =>
        let (w', f) := print w ot name t in
        match f with Some e => (w', Some e) | None => run_calls w' rest end
    end.

  Lemma run_calls_app w cs cs' :
    run_calls w (cs ++ cs')
    = match run_calls w cs with
      | (w', None) => run_calls w' cs'
      | (w', Some e) => (w', Some e)
      end.
  Proof.
    revert w. induction cs as [|[[ot name] t] cs IH]; intros w; cbn [app run_calls]; [reflexivity|].
    destruct (print w ot name t) as [w' [e|]]; [reflexivity|]. apply IH.
  Qed.

  Definition has_errors (tabs : list (bytes * rtable)) (s : bytes) : bool :=
    match blookup s tabs with Some t => negb (is_nil (rt_errors t)) | None => false end.

  Lemma write_secs_spec tabs names : forall w errs,
    (forall s, In s names -> blookup s tabs <> None) ->
    let o := write_secs W print tabs names w errs in
    (ro_state o, ro_fail o) = run_calls w (sec_calls tabs names) /\
    (ro_fail o = None -> ro_errsecs o = errs ++ filter (has_errors tabs) names).
  Proof.
    induction names as [|s names IH]; intros w errs Hall; cbn [write_secs sec_calls flat_map].
    - cbn. split; [reflexivity|]. intros _. rewrite app_nil_r. reflexivity.
    - destruct (blookup s tabs) as [t|] eqn:E; [|exfalso; apply (Hall s); [left; reflexivity|exact E]].
      cbn [app run_calls]. destruct (print w OTransactions s t) as [w' [e|]] eqn:Ep.
      + cbn. split; [reflexivity|discriminate].
      + fold (sec_calls tabs names).
        destruct (IH w' (if is_nil (rt_errors t) then errs else errs ++ [s])) as [H1 H2].
        { intros s' Hs'. apply Hall. right; exact Hs'. }
        split; [exact H1|]. intros Hf. rewrite (H2 Hf). cbn [filter]. unfold has_errors at 2. rewrite E.
        destruct (is_nil (rt_errors t)); cbn [negb]; [reflexivity|]. rewrite <- app_assoc. reflexivity.
  Qed.

  Lemma and_then_spec o ot name t :
    let o' := and_then W print o ot name t in
    (ro_state o', ro_fail o')
    = match ro_fail o with
      | None => run_calls (ro_state o) [(ot, name, t)]
      | Some e => (ro_state o, Some e)
      end /\
    ro_errsecs o' = ro_errsecs o.
  Proof.
    unfold and_then. destruct (ro_fail o) as [e|] eqn:E.
    - rewrite E. split; reflexivity.
    - cbn [run_calls]. destruct (print (ro_state o) ot name t) as [w' [e|]]; cbn; split; reflexivity.
  Qed.

  Lemma and_then_run o ot name t w cs :
    (ro_state o, ro_fail o) = run_calls w cs ->
    let o' := and_then W print o ot name t in
    (ro_state o', ro_fail o') = run_calls w (cs ++ [(ot, name, t)]) /\ ro_errsecs o' = ro_errsecs o.
  Proof.
    intros H. cbv zeta. destruct (and_then_spec o ot name t) as [A1 A2]. split; [|exact A2].
    rewrite A1, run_calls_app, <- H. destruct (ro_fail o); reflexivity.
  Qed.

  (* the securities whose table carries an error, in sorted order *)
  Definition errsecs_of (r : app_result) : list bytes :=
    filter (has_errors (ar_secs r)) (bsort (map fst (ar_secs r))).

  Theorem write_render_result_spec w0 r :
    let o := write_render_result print w0 r in
    (ro_state o, ro_fail o) = run_calls w0 (calls r) /\
    (ro_fail o = None -> ro_errsecs o = errsecs_of r).
  Proof.
    cbv zeta. unfold write_render_result, calls.
    set (o1 := write_secs W print (ar_secs r) (bsort (map fst (ar_secs r))) w0 []).
    destruct (write_secs_spec (ar_secs r) (bsort (map fst (ar_secs r))) w0 []) as [H1 H2].
    { intros s Hs. apply (proj1 (bsort_in _ _)) in Hs. intros E. apply blookup_none in E. exact (E Hs). }
    fold o1 in H1, H2. cbn [app] in H2.
    assert (Hmono : forall o ot name t, ro_fail (and_then W print o ot name t) = None -> ro_fail o = None).
    { intros o ot name t. unfold and_then. destruct (ro_fail o) eqn:E; [rewrite E; discriminate|reflexivity]. }
    destruct (and_then_run o1 OAggregateGains [] (ar_agg r) _ _ H1) as [A1 A2].
    set (o2 := and_then W print o1 OAggregateGains [] (ar_agg r)) in *.
    unfold tail_calls. destruct (ar_costs r) as [[total yearly]|].
    - destruct (and_then_run o2 OCosts s_total_name total _ _ A1) as [B1 B2].
      set (o3 := and_then W print o2 OCosts s_total_name total) in *.
      destruct (and_then_run o3 OCosts s_yearly_max yearly _ _ B1) as [C1 C2].
      set (o4 := and_then W print o3 OCosts s_yearly_max yearly) in *.
      split.
      + rewrite C1. rewrite <- !app_assoc. reflexivity.
      + intros Hf. rewrite C2, B2, A2. apply H2. subst o4 o3 o2. eauto.
    - split.
      + rewrite A1. reflexivity.
      + intros Hf. rewrite A2. apply H2. subst o2. eauto.
  Qed.
End Runs.
Arguments run_calls {W} print w cs.

(* ================================================================ D. the output directory *)
Lemma blookup_dir_put_eq n e d : blookup n (dir_put n e d) = Some e.
Proof.
  induction d as [|[k x] d IH]; cbn [dir_put blookup].
  - rewrite beqb_refl. reflexivity.
  - destruct (beqb k n) eqn:E; cbn [blookup]; rewrite E; [reflexivity|exact IH].
Qed.
Lemma blookup_dir_put_neq n n' e d : n' <> n -> blookup n' (dir_put n e d) = blookup n' d.
Proof.
  intros Hne. induction d as [|[k x] d IH]; cbn [dir_put blookup].
  - destruct (beqb n n') eqn:E; [apply beqb_eq in E; congruence|reflexivity].
  - destruct (beqb k n) eqn:E; cbn [blookup].
    + apply beqb_eq in E. subst k. destruct (beqb n n') eqn:E'; [apply beqb_eq in E'; congruence|reflexivity].
    + destruct (beqb k n'); [reflexivity|exact IH].
Qed.

Definition call_file (c : call) : bytes := file_name (fst (fst c)) (snd (fst c)).
Definition call_table (c : call) : rtable := snd c.

(* the table of the LAST print into file fn *)
Fixpoint last_write (fn : bytes) (cs : list call) : option rtable :=
  match cs with
  | [] => None
  | c :: rest =>
      match last_write fn rest with
      | Some t => Some t
      | None => if beqb (call_file c) fn then Some (call_table c) else None
      end
  end.

Definition file_content (d0 : dir) (cs : list call) (fn : bytes) : option entry :=
  match last_write fn cs with
  | Some t => match csv_table_records t with Ok recs => Some (EFile recs) | _ => Some EPartial end
  | None => blookup fn d0
  end.

Lemma last_write_none fn cs : last_write fn cs = None <-> ~ In fn (map call_file cs).
Proof.
  induction cs as [|c cs IH]; cbn [last_write map]; [tauto|].
  destruct (last_write fn cs) as [t|].
  - split; [discriminate|]. intros H. exfalso. apply H. right.
    destruct (in_dec (list_eq_dec N.eq_dec) fn (map call_file cs)) as [i|n]; [exact i|].
    apply IH in n. discriminate.
  - destruct (beqb (call_file c) fn) eqn:E.
    + apply beqb_eq in E. split; [discriminate|]. intros H. exfalso. apply H. left. exact E.
    + apply beqb_neq in E. split; [|reflexivity]. intros _ [H|H]; [exact (E H)|]. apply (proj1 IH); [reflexivity|exact H].
Qed.

Definition records_ok (c : call) : Prop := exists recs, csv_table_records (call_table c) = Ok recs.

Lemma print_csv_dir_ok d ot name t d' :
  print_csv_dir d ot name t = (d', None) ->
  exists recs, csv_table_records t = Ok recs /\ d' = dir_put (file_name ot name) (EFile recs) d /\
               blookup (file_name ot name) d <> Some EBlocked.
Proof.
  unfold print_csv_dir. intros H.
  assert (Hcase : forall X : dir * option fail,
            match csv_table_records t with
            | Ok recs => (dir_put (file_name ot name) (EFile recs) d, None)
            | Rej _ => (dir_put (file_name ot name) EPartial d, Some (FWrite ot name CRecord))
            | Panic p => (dir_put (file_name ot name) EPartial d, Some (FPanic p))
            end = (d', None) ->
            exists recs, csv_table_records t = Ok recs /\ d' = dir_put (file_name ot name) (EFile recs) d).
  { intros _ H'. destruct (csv_table_records t) as [recs| |]; inversion H'; subst. exists recs. auto. }
  destruct (blookup (file_name ot name) d) as [[recs0| |]|] eqn:E; try discriminate H;
    destruct (Hcase (d, None) H) as [recs [H1 H2]]; exists recs; repeat split; auto; discriminate.
Qed.

Theorem csv_run_content cs : forall d0 d,
  run_calls print_csv_dir d0 cs = (d, None) ->
  Forall records_ok cs /\ forall fn, blookup fn d = file_content d0 cs fn.
Proof.
  induction cs as [|[[ot name] t] cs IH]; intros d0 d H; cbn [run_calls] in H.
  - inversion H; subst. split; [constructor|]. intros fn. reflexivity.
  - destruct (print_csv_dir d0 ot name t) as [d1 [e|]] eqn:Ep; [discriminate|].
    apply print_csv_dir_ok in Ep as [recs [Hr [-> Hnb]]].
    destruct (IH _ _ H) as [Hall Hc]. split.
    + constructor; [exists recs; exact Hr|exact Hall].
    + intros fn. rewrite Hc. unfold file_content. cbn [last_write].
      destruct (last_write fn cs) as [t'|]; [reflexivity|].
      unfold call_file, call_table. cbn [fst snd].
      destruct (beqb (file_name ot name) fn) eqn:E.
      * apply beqb_eq in E. subst fn. rewrite Hr. apply blookup_dir_put_eq.
      * apply beqb_neq in E. apply blookup_dir_put_neq. congruence.
Qed.

(* a directory without blocked names: the run succeeds iff every table's records are accepted *)
Definition no_blocked (d : dir) : Prop := forall fn, blookup fn d <> Some EBlocked.

Lemma no_blocked_put n recs d : no_blocked d -> no_blocked (dir_put n (EFile recs) d).
Proof.
  intros H fn. destruct (list_eq_dec N.eq_dec fn n) as [->|ne].
  - rewrite blookup_dir_put_eq. discriminate.
  - rewrite blookup_dir_put_neq by exact ne. apply H.
Qed.

Lemma csv_run_succeeds cs : forall d0,
  no_blocked d0 -> Forall records_ok cs -> exists d, run_calls print_csv_dir d0 cs = (d, None).
Proof.
  induction cs as [|[[ot name] t] cs IH]; intros d0 Hnb Hall; cbn [run_calls].
  - eexists; reflexivity.
  - inversion Hall as [|? ? [recs Hr] Hrest]; subst. unfold call_table in Hr. cbn [snd] in Hr.
    unfold print_csv_dir. rewrite Hr.
    destruct (blookup (file_name ot name) d0) as [[r0| |]|] eqn:E;
      try (apply IH; [apply no_blocked_put; exact Hnb|exact Hrest]).
    exfalso. exact (Hnb _ E).
Qed.

Lemma sec_calls_files tabs names :
  (forall s, In s names -> blookup s tabs <> None) ->
  map call_file (sec_calls tabs names) = map (file_name OTransactions) names.
Proof.
  induction names as [|s l IH]; intros Hall; [reflexivity|].
  cbn [sec_calls flat_map map]. fold (sec_calls tabs l). rewrite map_app.
  destruct (blookup s tabs) as [t|] eqn:E; [|exfalso; apply (Hall s); [left; reflexivity|exact E]].
  cbn [map app]. unfold call_file at 1. cbn [fst snd]. f_equal. apply IH. intros s' Hs'. apply Hall. right; exact Hs'.
Qed.

Lemma keys_have_tables (r : app_result) s :
  In s (bsort (map fst (ar_secs r))) -> blookup s (ar_secs r) <> None.
Proof. intros Hs E. apply (proj1 (bsort_in _ _)) in Hs. apply blookup_none in E. exact (E Hs). Qed.

Lemma calls_files r : map call_file (calls r) = write_log r.
Proof.
  unfold calls, write_log. rewrite map_app. f_equal.
  - apply sec_calls_files. intros s. apply keys_have_tables.
  - unfold tail_calls. destruct (ar_costs r) as [[total yearly]|]; reflexivity.
Qed.

Lemma last_write_app fn cs cs' :
  last_write fn (cs ++ cs') = match last_write fn cs' with Some t => Some t | None => last_write fn cs end.
Proof.
  induction cs as [|c cs IH]; cbn [app last_write]; [destruct (last_write fn cs'); reflexivity|].
  rewrite IH. destruct (last_write fn cs') as [t|]; reflexivity.
Qed.

Lemma file_name_tx_inj s s' : file_name OTransactions s = file_name OTransactions s' -> s = s'.
Proof. cbn [file_name]. apply app_inv_tail. Qed.

Lemma last_write_sec tabs names s t :
  NoDup names -> In s names -> blookup s tabs = Some t ->
  last_write (file_name OTransactions s) (sec_calls tabs names) = Some t.
Proof.
  induction names as [|s' l IH]; intros Hn Hin Hb; [contradiction|].
  inversion Hn as [|? ? Hnot Hn']; subst.
  cbn [sec_calls flat_map]. fold (sec_calls tabs l). rewrite last_write_app.
  destruct Hin as [->|Hin].
  - assert (Hnone : last_write (file_name OTransactions s) (sec_calls tabs l) = None).
    { apply last_write_none. intros H. apply in_map_iff in H as [c [Hc Hin]].
      unfold sec_calls in Hin. apply in_flat_map in Hin as [s2 [Hs2 Hc2]].
      destruct (blookup s2 tabs); [|contradiction]. destruct Hc2 as [<-|[]].
      unfold call_file in Hc. cbn [fst snd] in Hc. apply file_name_tx_inj in Hc. subst. contradiction. }
    rewrite Hnone, Hb. cbn [last_write]. unfold call_file, call_table. cbn [fst snd]. rewrite beqb_refl. reflexivity.
  - rewrite (IH Hn' Hin Hb). reflexivity.
Qed.

(* the files of the aggregate and costs tables *)
Definition tail_files (r : app_result) : list bytes := map call_file (tail_calls r).

Lemma last_write_calls_sec r s t :
  NoDup (map fst (ar_secs r)) -> In (s, t) (ar_secs r) ->
  ~ In (file_name OTransactions s) (tail_files r) ->
  last_write (file_name OTransactions s) (calls r) = Some t.
Proof.
  intros Hn Hin Hnr. unfold calls. rewrite last_write_app.
  apply last_write_none in Hnr. rewrite Hnr.
  apply last_write_sec.
  - apply bsort_nodup. exact Hn.
  - apply bsort_in. apply in_map_iff. exists (s, t). auto.
  - apply blookup_in; assumption.
Qed.

(* the records of a table's file: the cells of the render model, all of them, nothing else *)
Definition table_records (t : rtable) : list record :=
  rt_header t :: (rt_rows t ++ (if is_nil (rt_footer t) then [] else [rt_footer t]))
    ++ map (pad_record (length (rt_header t))) (rt_notes t)
    ++ map (fun e => pad_record (length (rt_header t)) (lit s_bang ++ e)) (rt_errors t).

Lemma csv_table_records_ok t recs : csv_table_records t = Ok recs -> recs = table_records t.
Proof.
  unfold csv_table_records, table_records.
  destruct (negb (forallb _ _)); [discriminate|].
  destruct (_ && _); [discriminate|]. intros H. inversion H. reflexivity.
Qed.

(* when the records are accepted: every row and the footer have as many fields as the header *)
Definition rectangular (t : rtable) : Prop :=
  Forall (fun rec => length rec = length (rt_header t)) (rt_rows t) /\
  (rt_footer t = [] \/ length (rt_footer t) = length (rt_header t)) /\
  (rt_header t <> [] \/ (rt_notes t = [] /\ rt_errors t = [])).

Lemma csv_table_records_rect t : rectangular t -> csv_table_records t = Ok (table_records t).
Proof.
  intros (Hr & Hf & Hh). unfold csv_table_records, table_records.
  assert (E1 : forallb (fun r => Nat.eqb (length r) (length (rt_header t)))
                       (rt_rows t ++ (if is_nil (rt_footer t) then [] else [rt_footer t])) = true).
  { apply forallb_forall. intros x Hx. apply Nat.eqb_eq. apply in_app_or in Hx as [Hx|Hx].
    - rewrite Forall_forall in Hr. apply Hr. exact Hx.
    - destruct (rt_footer t) as [|f0 fr] eqn:Ef; [contradiction|]. cbn [is_nil] in Hx.
      destruct Hx as [<-|[]]. destruct Hf as [Hf|Hf]; [discriminate|exact Hf]. }
  rewrite E1. cbn [negb].
  destruct (Nat.eqb (length (rt_header t)) 0) eqn:E0; cbn [andb]; [|reflexivity].
  apply Nat.eqb_eq in E0. destruct Hh as [Hh|[Hn He]].
  - destruct (rt_header t); [contradiction|discriminate].
  - rewrite Hn, He. reflexivity.
Qed.

Lemma csv_table_records_rect_inv t recs : csv_table_records t = Ok recs -> rectangular t.
Proof.
  unfold csv_table_records. destruct (forallb _ _) eqn:E1; cbn [negb]; [|discriminate].
  destruct (_ && _) eqn:E2; [discriminate|]. intros _.
  rewrite forallb_forall in E1. repeat split.
  - apply Forall_forall. intros x Hx. apply Nat.eqb_eq. apply E1. apply in_or_app. left; exact Hx.
  - destruct (rt_footer t) as [|f0 fr] eqn:Ef; [left; reflexivity|right].
    apply Nat.eqb_eq. apply E1. apply in_or_app. right. left. reflexivity.
  - destruct (rt_header t) as [|h0 hr]; [right|left; discriminate].
    cbn [length Nat.eqb andb] in E2. destruct (rt_notes t); [|discriminate]. destruct (rt_errors t); [|discriminate].
    split; reflexivity.
Qed.

Theorem csv_dir_output_content d0 r :
  ro_fail (csv_dir_output d0 r) = None ->
  Forall records_ok (calls r) /\
  forall fn, blookup fn (ro_state (csv_dir_output d0 r)) = file_content d0 (calls r) fn.
Proof.
  intros Hf. destruct (write_render_result_spec dir print_csv_dir d0 r) as [H1 _].
  fold (csv_dir_output d0 r) in H1. rewrite Hf in H1. symmetry in H1. exact (csv_run_content _ _ _ H1).
Qed.

Lemma file_content_written d0 cs fn t :
  Forall records_ok cs -> last_write fn cs = Some t -> file_content d0 cs fn = Some (EFile (table_records t)).
Proof.
  intros Hall Hl. unfold file_content. rewrite Hl.
  assert (Hin : exists c, In c cs /\ call_table c = t).
  { clear Hall. induction cs as [|c cs IH]; [discriminate|]. cbn [last_write] in Hl.
    destruct (last_write fn cs) as [t'|].
    - destruct (IH Hl) as [c' [H1 H2]]. exists c'. split; [right; exact H1|exact H2].
    - destruct (beqb (call_file c) fn); [|discriminate]. inversion Hl. exists c. split; [left; reflexivity|reflexivity]. }
  destruct Hin as [c [Hc <-]]. rewrite Forall_forall in Hall. destruct (Hall c Hc) as [recs Hr].
  rewrite Hr. apply csv_table_records_ok in Hr. subst. reflexivity.
Qed.

(* C06: the directory after a successful run *)
Theorem csv_dir_is_render_model d0 r :
  NoDup (map fst (ar_secs r)) -> ro_fail (csv_dir_output d0 r) = None ->
  let d := ro_state (csv_dir_output d0 r) in
  (forall s t, In (s, t) (ar_secs r) -> ~ In (file_name OTransactions s) (tail_files r) ->
     blookup (file_name OTransactions s) d = Some (EFile (table_records t))) /\
  (forall c, In c (tail_calls r) -> NoDup (tail_files r) ->
     blookup (call_file c) d = Some (EFile (table_records (call_table c)))) /\
  (forall fn, ~ In fn (write_log r) -> blookup fn d = blookup fn d0) /\
  (forall fn, In fn (write_log r) -> exists c, In c (calls r) /\ call_file c = fn /\
     blookup fn d = Some (EFile (table_records (call_table c)))).
Proof.
  intros Hn Hf. cbv zeta. destruct (csv_dir_output_content d0 r Hf) as [Hall Hc].
  repeat split.
  - intros s t Hin Hnr. rewrite Hc. apply file_content_written; [exact Hall|].
    apply last_write_calls_sec; assumption.
  - intros c Hin Hnd. rewrite Hc. apply file_content_written; [exact Hall|].
    unfold calls. rewrite last_write_app. unfold tail_files in Hnd.
    revert Hin Hnd. generalize (tail_calls r). intros l Hin Hnd.
    assert (Hl : last_write (call_file c) l = Some (call_table c)).
    { induction l as [|c' l IH]; [contradiction|]. cbn [map] in Hnd. inversion Hnd as [|? ? Hnot Hnd']; subst.
      cbn [last_write]. destruct Hin as [->|Hin].
      - assert (Hnone : last_write (call_file c) l = None) by (apply last_write_none; exact Hnot).
        rewrite Hnone, beqb_refl. reflexivity.
      - rewrite (IH Hin Hnd'). reflexivity. }
    rewrite Hl. reflexivity.
  - intros fn Hnot. rewrite Hc. unfold file_content. rewrite <- calls_files in Hnot.
    apply last_write_none in Hnot. rewrite Hnot. reflexivity.
  - intros fn Hin. rewrite <- calls_files in Hin.
    destruct (last_write fn (calls r)) as [t|] eqn:El; [|apply last_write_none in El; contradiction].
    assert (Hex : exists c, In c (calls r) /\ call_file c = fn /\ call_table c = t).
    { clear Hall Hc Hin. revert El. generalize (calls r). intros cs. induction cs as [|c cs IH]; [discriminate|].
      cbn [last_write]. destruct (last_write fn cs) as [t'|].
      - intros E. destruct (IH E) as [c' (H1 & H2 & H3)]. exists c'. repeat split; auto. right; exact H1.
      - destruct (beqb (call_file c) fn) eqn:E; [|discriminate]. apply beqb_eq in E. intros H. inversion H.
        exists c. repeat split; auto. left; reflexivity. }
    destruct Hex as [c (H1 & H2 & H3)]. exists c. repeat split; auto.
    rewrite Hc. rewrite H3. apply file_content_written; assumption.
Qed.

(* C06: overwrite semantics.  Writing the result into a directory that already
   holds files (of an earlier run) leaves, for every file name this run
   writes, exactly what the run writes into an empty directory; the other
   files are left as they were. *)
Theorem csv_dir_overwrite dA r :
  ro_fail (csv_dir_output dA r) = None ->
  ro_fail (csv_dir_output [] r) = None /\
  (forall fn, In fn (write_log r) ->
     blookup fn (ro_state (csv_dir_output dA r)) = blookup fn (ro_state (csv_dir_output [] r))) /\
  (forall fn, ~ In fn (write_log r) ->
     blookup fn (ro_state (csv_dir_output dA r)) = blookup fn dA /\
     blookup fn (ro_state (csv_dir_output [] r)) = None).
Proof.
  intros Hf. destruct (csv_dir_output_content dA r Hf) as [Hall Hc].
  assert (Hf0 : ro_fail (csv_dir_output [] r) = None).
  { destruct (write_render_result_spec dir print_csv_dir [] r) as [H1 _]. fold (csv_dir_output [] r) in H1.
    destruct (csv_run_succeeds (calls r) []) as [d Hd]; [intros fn; discriminate|exact Hall|].
    rewrite Hd in H1. inversion H1. reflexivity. }
  destruct (csv_dir_output_content [] r Hf0) as [_ Hc0].
  split; [exact Hf0|]. split.
  - intros fn Hin. rewrite Hc, Hc0. unfold file_content. rewrite <- calls_files in Hin.
    destruct (last_write fn (calls r)) eqn:El; [reflexivity|]. apply last_write_none in El. contradiction.
  - intros fn Hnot. rewrite Hc, Hc0. unfold file_content. rewrite <- calls_files in Hnot.
    apply last_write_none in Hnot. rewrite Hnot. split; reflexivity.
Qed.

(* ================================================================ E. text mode *)
Definition section_of (c : call) : section := text_section (fst (fst c)) (snd (fst c)) (snd c).
Definition has_columns (c : call) : Prop := rt_header (call_table c) <> [].

Lemma text_run_sections cs : forall w w',
  run_calls print_text w cs = (w', None) -> w' = w ++ map section_of cs /\ Forall has_columns cs.
Proof.
  induction cs as [|[[ot name] t] cs IH]; intros w w' H; cbn [run_calls] in H.
  - inversion H. rewrite app_nil_r. split; [reflexivity|constructor].
  - unfold print_text in H. destruct (rt_header t) as [|h0 hr] eqn:Eh; cbn [length Nat.eqb] in H; [discriminate|].
    destruct (IH _ _ H) as [-> Hall]. split.
    + rewrite <- app_assoc. reflexivity.
    + constructor; [unfold has_columns, call_table; cbn [snd]; rewrite Eh; discriminate|exact Hall].
Qed.

Lemma text_run_succeeds cs : forall w, Forall has_columns cs -> run_calls print_text w cs = (w ++ map section_of cs, None).
Proof.
  induction cs as [|[[ot name] t] cs IH]; intros w Hall; cbn [run_calls map].
  - rewrite app_nil_r. reflexivity.
  - inversion Hall as [|? ? Hc Hrest]; subst. unfold has_columns, call_table in Hc. cbn [snd] in Hc.
    unfold print_text. destruct (rt_header t) as [|h0 hr] eqn:Eh; [contradiction|]. cbn [length Nat.eqb].
    rewrite (IH _ Hrest). rewrite <- app_assoc. reflexivity.
Qed.

(* C06: the sections of the text report are the tables of the render model, in the order of the prints *)
Theorem text_sections_are_render_model r :
  ro_fail (text_output r) = None ->
  ro_state (text_output r) = map section_of (calls r) /\
  ro_errsecs (text_output r) = errsecs_of r /\
  text_stdout r = flat_map section_items (map section_of (calls r)) ++ closing_items (errsecs_of r).
Proof.
  intros Hf. destruct (write_render_result_spec (list section) print_text [] r) as [H1 H2].
  fold (text_output r) in H1, H2. rewrite Hf in H1. symmetry in H1.
  destruct (text_run_sections _ _ _ H1) as [Hs _]. cbn [app] in Hs.
  split; [exact Hs|]. split; [exact (H2 Hf)|].
  unfold text_stdout, closing_of. rewrite Hf, Hs, (H2 Hf). reflexivity.
Qed.

Theorem text_output_succeeds r :
  Forall has_columns (calls r) <-> ro_fail (text_output r) = None.
Proof.
  destruct (write_render_result_spec (list section) print_text [] r) as [H1 _]. fold (text_output r) in H1.
  split.
  - intros Hall. rewrite (text_run_succeeds _ [] Hall) in H1. inversion H1. reflexivity.
  - intros Hf. rewrite Hf in H1. symmetry in H1. apply text_run_sections in H1. tauto.
Qed.

Lemma sec_call_in r s t :
  NoDup (map fst (ar_secs r)) -> In (s, t) (ar_secs r) -> In (OTransactions, s, t) (calls r).
Proof.
  intros Hn Hin. unfold calls. apply in_or_app. left. unfold sec_calls. apply in_flat_map.
  exists s. split; [apply bsort_in; apply in_map_iff; exists (s, t); auto|].
  rewrite (blookup_in s t _ Hn Hin). left. reflexivity.
Qed.

(* ================================================================ F. the closing list *)
Lemma StronglySorted_filter {X} (R : X -> X -> Prop) (f : X -> bool) l :
  StronglySorted R l -> StronglySorted R (filter f l).
Proof.
  induction 1 as [|a l Hs IH Hall]; cbn [filter]; [constructor|].
  destruct (f a); [|exact IH]. constructor; [exact IH|].
  apply Forall_forall. intros x Hx. apply filter_In in Hx as [Hx _]. rewrite Forall_forall in Hall. auto.
Qed.

Theorem closing_list_spec r :
  NoDup (map fst (ar_secs r)) ->
  StronglySorted bytes_le (errsecs_of r) /\ NoDup (errsecs_of r) /\
  forall s, In s (errsecs_of r) <-> exists t, In (s, t) (ar_secs r) /\ rt_errors t <> [].
Proof.
  intros Hn. unfold errsecs_of. split; [apply StronglySorted_filter, bsort_sorted|].
  split; [apply NoDup_filter, bsort_nodup; exact Hn|].
  intros s. rewrite filter_In, bsort_in. unfold has_errors. split.
  - intros [Hin Hb]. destruct (blookup s (ar_secs r)) as [t|] eqn:E; [|discriminate].
    exists t. split; [apply blookup_some; exact E|]. destruct (rt_errors t); [discriminate|discriminate].
  - intros [t [Hin Hne]]. split; [apply in_map_iff; exists (s, t); auto|].
    rewrite (blookup_in s t _ Hn Hin). destruct (rt_errors t); [contradiction|reflexivity].
Qed.

Theorem closing_line_every_mode r :
  (forall d0, ro_fail (csv_dir_output d0 r) = None -> csv_dir_stdout d0 r = closing_items (errsecs_of r)) /\
  (ro_fail (text_output r) = None ->
     exists body, text_stdout r = body ++ closing_items (errsecs_of r)).
Proof.
  split.
  - intros d0 Hf. unfold csv_dir_stdout, closing_of. rewrite Hf.
    destruct (write_render_result_spec dir print_csv_dir d0 r) as [_ H2]. fold (csv_dir_output d0 r) in H2.
    rewrite (H2 Hf). reflexivity.
  - intros Hf. destruct (text_sections_are_render_model r Hf) as (_ & _ & H). eexists. exact H.
Qed.

(* ================================================================ G. the order of the map does not matter (C09) *)
Lemma write_secs_ext W print tabs tabs' names : forall w errs,
  (forall s, blookup s tabs = blookup s tabs') ->
  write_secs W print tabs names w errs = write_secs W print tabs' names w errs.
Proof.
  induction names as [|s l IH]; intros w errs Hext; cbn [write_secs]; [reflexivity|].
  rewrite <- (Hext s). destruct (blookup s tabs) as [t|]; [|reflexivity].
  destruct (print w OTransactions s t) as [w' [e|]]; [reflexivity|]. apply IH. exact Hext.
Qed.

Theorem output_order_independent W (print : W -> out_type -> bytes -> rtable -> W * option fail) w0 r r' :
  NoDup (map fst (ar_secs r)) -> Permutation (ar_secs r) (ar_secs r') ->
  ar_agg r = ar_agg r' -> ar_costs r = ar_costs r' ->
  write_render_result print w0 r = write_render_result print w0 r'.
Proof.
  intros Hn Hp Ha Hc. unfold write_render_result. rewrite <- Ha, <- Hc.
  rewrite (bsort_perm_eq (map fst (ar_secs r)) (map fst (ar_secs r'))) by (apply Permutation_map; exact Hp).
  rewrite (write_secs_ext W print (ar_secs r) (ar_secs r')); [reflexivity|].
  intros s. apply blookup_perm; assumption.
Qed.

Lemma write_log_perm r r' :
  Permutation (ar_secs r) (ar_secs r') -> ar_costs r = ar_costs r' -> write_log r = write_log r'.
Proof.
  intros Hp Hc. unfold write_log. rewrite <- Hc.
  rewrite (bsort_perm_eq (map fst (ar_secs r)) (map fst (ar_secs r'))) by (apply Permutation_map; exact Hp).
  reflexivity.
Qed.

(* ================================================================ H. errors in every mode (C04) *)
Theorem error_visible_every_mode r s t e :
  NoDup (map fst (ar_secs r)) -> In (s, t) (ar_secs r) -> In e (rt_errors t) ->
  (* the render model *)
  (blookup s (ar_secs r) = Some t /\ In e (rt_errors t)) /\
  (* --csv-output-dir *)
  (forall d0, ro_fail (csv_dir_output d0 r) = None -> ~ In (file_name OTransactions s) (tail_files r) ->
     exists recs, blookup (file_name OTransactions s) (ro_state (csv_dir_output d0 r)) = Some (EFile recs) /\
                  In (pad_record (length (rt_header t)) (lit s_bang ++ e)) recs) /\
  (* text *)
  (ro_fail (text_output r) = None ->
     In (text_section OTransactions s t) (ro_state (text_output r)) /\
     In e (sc_errors (text_section OTransactions s t)) /\
     sc_title (text_section OTransactions s t) = [PLit s_transactions_for; PLit s] /\
     In (TLine (lit s_bang ++ e)) (text_stdout r)) /\
  (* the closing list *)
  In s (errsecs_of r).
Proof.
  intros Hn Hin He. split; [split; [apply blookup_in; assumption|exact He]|]. split; [|split].
  - intros d0 Hf Hnr. destruct (csv_dir_is_render_model d0 r Hn Hf) as [H1 _].
    exists (table_records t). split; [apply H1; assumption|].
    unfold table_records. right. apply in_or_app. right. apply in_or_app. right.
    apply in_map_iff. exists e. split; [reflexivity|exact He].
  - intros Hf. destruct (text_sections_are_render_model r Hf) as (Hs & _ & Hout).
    assert (Hsec : In (text_section OTransactions s t) (map section_of (calls r))).
    { apply in_map_iff. exists (OTransactions, s, t). split; [reflexivity|apply sec_call_in; assumption]. }
    split; [rewrite Hs; exact Hsec|]. split; [exact He|]. split; [reflexivity|].
    rewrite Hout. apply in_or_app. left. apply in_flat_map. exists (text_section OTransactions s t).
    split; [exact Hsec|]. unfold section_items. apply in_or_app. left.
    apply in_map_iff. exists e. split; [reflexivity|exact He].
  - apply (closing_list_spec r Hn). exists t. split; [exact Hin|]. intros E. rewrite E in He. contradiction.
Qed.

(* ================================================================ I. the whole pipeline: render_app, then the writers *)
Lemma render_app_secs A full cur inits rows rep :
  render_app A full cur inits rows = Ok rep ->
  map (fun x => fst (fst x)) (rp_tables rep) = securities (sort_txs rows).
Proof.
  unfold render_app, run_app. rewrite run_secs_spec. cbn [bind]. intros H.
  apply render_results_spec in H as [HF _].
  remember (map (fun s => (s, sec_result_of A (init_for inits s) (txs_of_sec s (sort_txs rows))))
                (securities (sort_txs rows))) as secs eqn:Es.
  assert (Hm : map fst secs = securities (sort_txs rows)).
  { subst secs. rewrite map_map. cbn [fst]. apply map_id. }
  rewrite <- Hm. clear Es Hm.
  induction HF as [|x y l tabs Hxy HF IH]; [reflexivity|]. cbn [map]. f_equal; [|exact IH].
  destruct Hxy as [H1 _]. exact H1.
Qed.

Lemma sorted_lt_nodup l : StronglySorted N.lt l -> NoDup l.
Proof.
  induction 1 as [|a l Hs IH Hall]; constructor; [|exact IH].
  intros Hin. rewrite Forall_forall in Hall. apply Hall in Hin. lia.
Qed.

Lemma app_of_report_keys secname errmsg costs rep :
  map fst (ar_secs (app_of_report secname errmsg costs rep))
  = map secname (map (fun x => fst (fst x)) (rp_tables rep)).
Proof. unfold app_of_report. cbn [ar_secs]. rewrite !map_map. reflexivity. Qed.

Lemma app_of_report_nodup A full cur inits rows rep secname errmsg costs :
  (forall a b, secname a = secname b -> a = b) ->
  render_app A full cur inits rows = Ok rep ->
  NoDup (map fst (ar_secs (app_of_report secname errmsg costs rep))).
Proof.
  intros Hinj H. rewrite app_of_report_keys, (render_app_secs _ _ _ _ _ _ H).
  apply FinFun.Injective_map_NoDup; [exact Hinj|]. apply sorted_lt_nodup, securities_sorted.
Qed.

(* every table the pipeline hands to the writers has as many fields in every
   row and in the footer as in its header: the csv writer accepts it *)
Lemma rtable_of_table_rect A full cur ds g tb errs :
  render_table A full cur ds g = Ok tb -> rectangular (rtable_of_table tb errs).
Proof.
  intros H. apply render_table_rows in H as [HF _]. unfold rectangular, rtable_of_table.
  cbn [rt_header rt_rows rt_footer rt_notes rt_errors]. repeat split.
  - apply Forall_forall. intros rec Hin. apply in_map_iff in Hin as [row [<- Hrow]].
    rewrite map_length. change (length tx_header) with 16%nat.
    clear -HF Hrow. induction HF as [|d r ds0 rows0 H0 HF IH]; [contradiction|].
    destruct Hrow as [<-|Hrow]; [eapply row_has_16_cells; exact H0|auto].
  - right. reflexivity.
  - left. discriminate.
Qed.

Lemma rtable_of_aggregate_rect l : rectangular (rtable_of_aggregate l).
Proof.
  unfold rectangular, rtable_of_aggregate. cbn [rt_header rt_rows rt_footer rt_notes rt_errors]. repeat split.
  - apply Forall_forall. intros rec Hin. apply in_map_iff in Hin as [x [<- _]]. reflexivity.
  - left; reflexivity.
  - left; discriminate.
Qed.

Definition costs_rect (costs : option (rtable * rtable)) : Prop :=
  match costs with Some (a, b) => rectangular a /\ rectangular b | None => True end.

Theorem pipeline_tables_rectangular A full cur inits rows rep secname errmsg costs :
  render_app A full cur inits rows = Ok rep -> costs_rect costs ->
  Forall (fun c => rectangular (call_table c)) (calls (app_of_report secname errmsg costs rep)).
Proof.
  unfold render_app. intros H Hc. bind_as H as secs Es.
  apply render_results_spec in H as [HF _].
  unfold calls. apply Forall_app. split.
  - apply Forall_forall. intros c Hin. unfold sec_calls in Hin. apply in_flat_map in Hin as [s [_ Hc']].
    destruct (blookup s (ar_secs (app_of_report secname errmsg costs rep))) as [t|] eqn:E; [|contradiction].
    destruct Hc' as [<-|[]]. unfold call_table. cbn [snd]. apply blookup_some in E.
    unfold app_of_report in E. cbn [ar_secs] in E. apply in_map_iff in E as [y [Ey Hy]].
    inversion Ey; subst. clear Ey.
    assert (Hex : exists x, sec_table_rel A full cur x y).
    { clear -HF Hy. induction HF as [|x0 y0 l tabs Hxy HF IH]; [contradiction|].
      destruct Hy as [<-|Hy]; [exists x0; exact Hxy|auto]. }
    destruct Hex as [x (_ & _ & Hr)]. destruct (snd (snd x)).
    + eapply rtable_of_table_rect. exact Hr.
    + destruct Hr as [g [_ Hr]]. eapply rtable_of_table_rect. exact Hr.
  - unfold tail_calls, app_of_report. cbn [ar_agg ar_costs]. constructor; [apply rtable_of_aggregate_rect|].
    destruct costs as [[a b]|]; [|constructor]. destruct Hc as [Ha Hb].
    constructor; [exact Ha|]. constructor; [exact Hb|constructor].
Qed.

(* hence both writers succeed on every report of the pipeline (text: every
   header has columns; --csv-output-dir: into a directory without blocked
   names) *)
Theorem pipeline_writers_succeed A full cur inits rows rep secname errmsg costs d0 :
  render_app A full cur inits rows = Ok rep -> costs_rect costs ->
  match costs with Some (a, b) => rt_header a <> [] /\ rt_header b <> [] | None => True end ->
  no_blocked d0 ->
  ro_fail (csv_dir_output d0 (app_of_report secname errmsg costs rep)) = None /\
  ro_fail (text_output (app_of_report secname errmsg costs rep)) = None.
Proof.
  intros H Hc Hh Hnb. set (r := app_of_report secname errmsg costs rep).
  pose proof (pipeline_tables_rectangular _ _ _ _ _ _ secname errmsg costs H Hc) as Hrect. fold r in Hrect.
  split.
  - destruct (write_render_result_spec dir print_csv_dir d0 r) as [H1 _]. fold (csv_dir_output d0 r) in H1.
    destruct (csv_run_succeeds (calls r) d0 Hnb) as [d Hd].
    { eapply Forall_impl; [|exact Hrect]. intros c Hr. exists (table_records (call_table c)).
      apply csv_table_records_rect. exact Hr. }
    rewrite Hd in H1. inversion H1. reflexivity.
  - apply text_output_succeeds. unfold calls. apply Forall_app. split.
    + apply Forall_forall. intros c Hin. unfold sec_calls in Hin. apply in_flat_map in Hin as [s [_ Hc']].
      destruct (blookup s (ar_secs r)) as [t|] eqn:E; [|contradiction]. destruct Hc' as [<-|[]].
      apply blookup_some in E. unfold r, app_of_report in E. cbn [ar_secs] in E.
      apply in_map_iff in E as [y [Ey _]]. inversion Ey. unfold has_columns, call_table. cbn [snd rt_header rtable_of_table].
      discriminate.
    + unfold tail_calls, r, app_of_report. cbn [ar_agg ar_costs].
      constructor; [unfold has_columns, call_table; cbn; discriminate|].
      destruct costs as [[a b]|]; [|constructor]. destruct Hh as [Ha Hb].
      constructor; [exact Ha|]. constructor; [exact Hb|constructor].
Qed.

(* C04 for the pipeline: the message of a rejected security is in the render
   model, in its file, in its text section, and its name in the closing list *)
Theorem pipeline_error_visible A full cur inits rows rep secname errmsg costs s e tb :
  (forall a b, secname a = secname b -> a = b) ->
  render_app A full cur inits rows = Ok rep ->
  In (s, Some (SRej e), tb) (rp_tables rep) ->
  let r := app_of_report secname errmsg costs rep in
  let t := rtable_of_table tb [errmsg s] in
  In (secname s, t) (ar_secs r) /\ rt_errors t = [errmsg s] /\
  (forall d0, ro_fail (csv_dir_output d0 r) = None -> ~ In (file_name OTransactions (secname s)) (tail_files r) ->
     exists recs, blookup (file_name OTransactions (secname s)) (ro_state (csv_dir_output d0 r)) = Some (EFile recs) /\
                  In (pad_record 16 (lit s_bang ++ errmsg s)) recs) /\
  (ro_fail (text_output r) = None ->
     In (text_section OTransactions (secname s) t) (ro_state (text_output r)) /\
     In (TLine (lit s_bang ++ errmsg s)) (text_stdout r)) /\
  In (secname s) (errsecs_of r).
Proof.
  intros Hinj H Hin. cbv zeta.
  set (r := app_of_report secname errmsg costs rep). set (t := rtable_of_table tb [errmsg s]).
  assert (Hn : NoDup (map fst (ar_secs r))) by (eapply app_of_report_nodup; eauto).
  assert (Ht : In (secname s, t) (ar_secs r)).
  { unfold r, app_of_report. cbn [ar_secs]. apply in_map_iff. exists (s, Some (SRej e), tb). split; [reflexivity|exact Hin]. }
  assert (He : In (errmsg s) (rt_errors t)) by (left; reflexivity).
  destruct (error_visible_every_mode r (secname s) t (errmsg s) Hn Ht He) as (_ & H2 & H3 & H4).
  split; [exact Ht|]. split; [reflexivity|]. split; [exact H2|]. split; [|exact H4].
  intros Hf. destruct (H3 Hf) as (A1 & _ & _ & A4). split; assumption.
Qed.

(* C04: a rejected security is left out of every total.  Exact arithmetic: its
   own table shows "Total" / "$0" and no year; the aggregate table renders
   the aggregate of the gains of the error-free securities only. *)
Theorem pipeline_rejected_no_totals full cur inits rows rep :
  render_app exact full cur inits rows = Ok rep ->
  (forall s st tb, In (s, Some st, tb) (rp_tables rep) ->
     tb_labels tb = [LTotal] /\ tb_values tb = [pm_value full 0%Qc false] /\
     footer_cells tb = repeat [] 8 ++ [[PLit s_total]; pm_pieces (pm_value full 0%Qc false)] ++ repeat [] 6) /\
  exists secs gs agg,
    run_app exact inits rows = Ok secs /\
    Forall2 (fun (x : sec_result) og =>
               match snd (snd x) with
               | None => exists g, security_gains exact gains0 (gain_rows (fst (snd x))) = Ok g /\ og = Some g
               | Some _ => og = None
               end) secs gs /\
    aggregate exact gains0 (some_gains gs) = Ok agg /\
    render_aggregate exact full agg = Ok (rp_aggregate rep).
Proof.
  unfold render_app. intros H. bind_as H as secs Es.
  destruct (render_results_spec _ _ _ _ _ H) as [HF (gs & agg & Hg & Ha & Hr)]. split.
  - intros s st tb Hin.
    assert (Hex : exists x, sec_table_rel exact full cur x (s, Some st, tb)).
    { clear -HF Hin. induction HF as [|x0 y0 l tabs Hxy HF IH]; [contradiction|].
      destruct Hin as [->|Hin]; [exists x0; exact Hxy|auto]. }
    destruct Hex as [x (_ & Hst & Hrt)]. cbn [fst snd] in Hst. rewrite <- Hst in Hrt.
    destruct (footer_is_gains _ _ _ _ _ _ Hrt) as (Hl & _ & _ & total & yv & Hv & Hp & Hy).
    change (years_sorted gains0) with (@nil Z) in *. cbn [map] in Hl.
    inversion Hy; subst. rewrite plus_minus_exact in Hp. inversion Hp; subst.
    cbn [snd] in Hl, Hv. split; [exact Hl|]. split; [exact Hv|]. unfold footer_cells. rewrite Hl, Hv. reflexivity.
  - exists secs, gs, agg. split; [reflexivity|]. split; [exact Hg|]. split; assumption.
Qed.
