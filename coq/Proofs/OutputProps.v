(* Theorems about the output layer (Model/Output.v): what the writers put
   into the report files / onto standard output is the render model, all of
   it and nothing else, in an order that depends on the sorted security names
   only. *)
From Coq Require Import List NArith ZArith Bool Lia Permutation Sorting.Sorted.
From ACB Require Import Base.Outcome Model.CsvFields Model.Tx Model.DeltaList Model.Render Model.Output
     Proofs.CsvDigits Proofs.SortPerm.
Import ListNotations.
Local Open Scope N_scope.

(* ================================================================ A. String's order, the sort *)
Lemma bytes_leb_refl a : bytes_leb a a = true.
Proof. induction a as [|x a IH]; cbn [bytes_leb]; [reflexivity|]. rewrite N.ltb_irrefl, N.eqb_refl. exact IH. Qed.

Lemma bytes_leb_total a : forall b, bytes_leb a b = false -> bytes_leb b a = true.
Proof.
  induction a as [|x a IH]; intros [|y b] H; cbn [bytes_leb] in *; try discriminate; try reflexivity.
  destruct (N.ltb_spec x y) as [L|L]; [discriminate|].
  destruct (N.eqb_spec x y) as [->|ne].
  - rewrite N.ltb_irrefl, N.eqb_refl. apply IH. exact H.
  - destruct (N.ltb_spec y x) as [L'|L']; [reflexivity|]. lia.
Qed.

Lemma bytes_leb_trans a : forall b c, bytes_leb a b = true -> bytes_leb b c = true -> bytes_leb a c = true.
Proof.
  induction a as [|x a IH]; intros [|y b] [|z c] H1 H2; cbn [bytes_leb] in *; try discriminate; try reflexivity.
  destruct (N.ltb_spec x y) as [L1|L1].
  - destruct (N.ltb_spec y z) as [L2|L2].
    + destruct (N.ltb_spec x z); [reflexivity|lia].
    + destruct (N.eqb_spec y z) as [->|ne]; [|discriminate].
      destruct (N.ltb_spec x z); [reflexivity|lia].
  - destruct (N.eqb_spec x y) as [->|ne]; [|discriminate].
    destruct (N.ltb_spec y z) as [L2|L2]; [reflexivity|].
    destruct (N.eqb_spec y z) as [->|ne]; [|discriminate].
    eapply IH; eauto.
Qed.

Lemma bytes_leb_antisym a : forall b, bytes_leb a b = true -> bytes_leb b a = true -> a = b.
Proof.
  induction a as [|x a IH]; intros [|y b] H1 H2; cbn [bytes_leb] in *; try discriminate; try reflexivity.
  destruct (N.ltb_spec x y) as [L1|L1].
  - destruct (N.ltb_spec y x) as [L2|L2]; [lia|].
    destruct (N.eqb_spec y x) as [->|ne]; [lia|discriminate].
  - destruct (N.eqb_spec x y) as [->|ne]; [|discriminate].
    rewrite N.ltb_irrefl, N.eqb_refl in H2. f_equal. apply IH; assumption.
Qed.

Lemma bsort_gsort l : bsort l = gsort bytes_leb l.
Proof.
  unfold bsort, gsort. induction l as [|h r IH]; cbn [fold_right]; [reflexivity|].
  rewrite IH. generalize (fold_right (ginsert bytes_leb) [] r). intros m.
  induction m as [|x m IHm]; cbn [binsert ginsert]; [reflexivity|]. rewrite IHm. reflexivity.
Qed.

Definition bytes_le (a b : bytes) : Prop := bytes_leb a b = true.

Lemma bsort_perm l : Permutation (bsort l) l.
Proof. rewrite bsort_gsort. apply gsort_perm. Qed.
Lemma bsort_sorted l : StronglySorted bytes_le (bsort l).
Proof. rewrite bsort_gsort. exact (gsort_sorted bytes_leb bytes_leb_total bytes_leb_trans l). Qed.
Lemma bsort_perm_eq l l' : Permutation l l' -> bsort l = bsort l'.
Proof.
  intros Hp. rewrite !bsort_gsort. apply (gsort_perm_eq bytes_leb bytes_leb_total bytes_leb_trans); [exact Hp|].
  intros a b _ _ H1 H2. apply bytes_leb_antisym; assumption.
Qed.
Lemma bsort_in x l : In x (bsort l) <-> In x l.
Proof.
  split; intros H; eapply Permutation_in; try eassumption;
    [apply bsort_perm | apply Permutation_sym, bsort_perm].
Qed.
Lemma bsort_nodup l : NoDup l -> NoDup (bsort l).
Proof. intros H. eapply Permutation_NoDup; [apply Permutation_sym, bsort_perm|exact H]. Qed.

(* ================================================================ B. the map of tables *)
Lemma blookup_in {V} k (v : V) l : NoDup (map fst l) -> In (k, v) l -> blookup k l = Some v.
Proof.
  induction l as [|[k' v'] l IH]; intros Hn Hin; [contradiction|].
  cbn [map fst] in Hn. inversion Hn as [|? ? Hnot Hn']; subst. cbn [blookup].
  destruct Hin as [E|Hin].
  - inversion E; subst. rewrite beqb_refl. reflexivity.
  - destruct (beqb k' k) eqn:E.
    + apply beqb_eq in E. subst. exfalso. apply Hnot. apply in_map_iff. exists (k, v). auto.
    + apply IH; assumption.
Qed.

Lemma blookup_some {V} k (v : V) l : blookup k l = Some v -> In (k, v) l.
Proof.
  induction l as [|[k' v'] l IH]; cbn [blookup]; [discriminate|].
  destruct (beqb k' k) eqn:E.
  - apply beqb_eq in E. subst. intros H. inversion H; subst. left; reflexivity.
  - intros H. right. auto.
Qed.

Lemma blookup_none {V} k (l : list (bytes * V)) : blookup k l = None <-> ~ In k (map fst l).
Proof.
  induction l as [|[k' v'] l IH]; cbn [blookup map fst]; [tauto|].
  destruct (beqb k' k) eqn:E.
  - apply beqb_eq in E. subst. split; [discriminate|]. intros H. exfalso. apply H. left; reflexivity.
  - apply beqb_neq in E. rewrite IH. split; [intros H [H'|H']; auto | intros H H'; apply H; right; exact H'].
Qed.

Lemma blookup_perm {V} k (l l' : list (bytes * V)) :
  NoDup (map fst l) -> Permutation l l' -> blookup k l = blookup k l'.
Proof.
  intros Hn Hp.
  assert (Hn' : NoDup (map fst l')) by (eapply Permutation_NoDup; [apply Permutation_map; exact Hp|exact Hn]).
  destruct (blookup k l) as [v|] eqn:E.
  - symmetry. apply blookup_in; [exact Hn'|]. eapply Permutation_in; [exact Hp|]. apply blookup_some. exact E.
  - symmetry. apply blookup_none. apply blookup_none in E. intros H. apply E.
    eapply Permutation_in; [apply Permutation_sym, Permutation_map; exact Hp|exact H].
Qed.

(* ================================================================ C. write_render_result as a sequence of prints *)
Definition call : Type := (out_type * bytes * rtable)%type.

(* the prints of write_render_result, in order *)
Definition sec_calls (tabs : list (bytes * rtable)) (names : list bytes) : list call :=
  flat_map (fun s => match blookup s tabs with Some t => [(OTransactions, s, t)] | None => [] end) names.
Definition tail_calls (r : app_result) : list call :=
  (OAggregateGains, [], ar_agg r)
    :: match ar_costs r with
       | Some (total, yearly) => [(OCosts, s_total_name, total); (OCosts, s_yearly_max, yearly)]
       | None => []
       end.
Definition calls (r : app_result) : list call :=
  sec_calls (ar_secs r) (bsort (map fst (ar_secs r))) ++ tail_calls r.

Section Runs.
  Variable W : Type.
  Variable print : W -> out_type -> bytes -> rtable -> W * option fail.

  (* prints until the first failure *)
  Fixpoint run_calls (w : W) (cs : list call) : W * option fail :=
    match cs with
    | [] => (w, None)
    | (ot, name, t) :: rest =>
        let (w', f) := print w ot name t in
        match f with Some e => (w', Some e) | None => run_calls w' rest end
    end.

  Lemma run_calls_app w cs cs' :
    run_calls w (cs ++ cs')
    = match run_calls w cs with
      | (w', None) => run_calls w' cs'
      | (w', Some e) => (w', Some e)
      end.
  Proof.
    revert w. induction cs as [|[[ot name] t] cs IH]; intros w; cbn [app run_calls]; [reflexivity|].
    destruct (print w ot name t) as [w' [e|]]; [reflexivity|]. apply IH.
  Qed.

  Definition has_errors (tabs : list (bytes * rtable)) (s : bytes) : bool :=
    match blookup s tabs with Some t => negb (is_nil (rt_errors t)) | None => false end.

  Lemma write_secs_spec tabs names : forall w errs,
    (forall s, In s names -> blookup s tabs <> None) ->
    let o := write_secs W print tabs names w errs in
    (ro_state o, ro_fail o) = run_calls w (sec_calls tabs names) /\
    (ro_fail o = None -> ro_errsecs o = errs ++ filter (has_errors tabs) names).
  Proof.
    induction names as [|s names IH]; intros w errs Hall; cbn [write_secs sec_calls flat_map].
    - cbn. split; [reflexivity|]. intros _. rewrite app_nil_r. reflexivity.
    - destruct (blookup s tabs) as [t|] eqn:E; [|exfalso; apply (Hall s); [left; reflexivity|exact E]].
      cbn [app run_calls]. destruct (print w OTransactions s t) as [w' [e|]] eqn:Ep.
      + cbn. split; [reflexivity|discriminate].
      + fold (sec_calls tabs names).
        destruct (IH w' (if is_nil (rt_errors t) then errs else errs ++ [s])) as [H1 H2].
        { intros s' Hs'. apply Hall. right; exact Hs'. }
        split; [exact H1|]. intros Hf. rewrite (H2 Hf). cbn [filter]. unfold has_errors at 2. rewrite E.
        destruct (is_nil (rt_errors t)); cbn [negb]; [reflexivity|]. rewrite <- app_assoc. reflexivity.
  Qed.

  Lemma and_then_spec o ot name t :
    let o' := and_then W print o ot name t in
    (ro_state o', ro_fail o')
    = match ro_fail o with
      | None => run_calls (ro_state o) [(ot, name, t)]
      | Some e => (ro_state o, Some e)
      end /\
    ro_errsecs o' = ro_errsecs o.
  Proof.
    unfold and_then. destruct (ro_fail o) as [e|] eqn:E.
    - rewrite E. split; reflexivity.
    - cbn [run_calls]. destruct (print (ro_state o) ot name t) as [w' [e|]]; cbn; split; reflexivity.
  Qed.

  Lemma and_then_run o ot name t w cs :
    (ro_state o, ro_fail o) = run_calls w cs ->
    let o' := and_then W print o ot name t in
    (ro_state o', ro_fail o') = run_calls w (cs ++ [(ot, name, t)]) /\ ro_errsecs o' = ro_errsecs o.
  Proof.
    intros H. cbv zeta. destruct (and_then_spec o ot name t) as [A1 A2]. split; [|exact A2].
    rewrite A1, run_calls_app, <- H. destruct (ro_fail o); reflexivity.
  Qed.

  (* the securities whose table carries an error, in sorted order *)
  Definition errsecs_of (r : app_result) : list bytes :=
    filter (has_errors (ar_secs r)) (bsort (map fst (ar_secs r))).

  Theorem write_render_result_spec w0 r :
    let o := write_render_result print w0 r in
    (ro_state o, ro_fail o) = run_calls w0 (calls r) /\
    (ro_fail o = None -> ro_errsecs o = errsecs_of r).
  Proof.
    cbv zeta. unfold write_render_result, calls.
    set (o1 := write_secs W print (ar_secs r) (bsort (map fst (ar_secs r))) w0 []).
    destruct (write_secs_spec (ar_secs r) (bsort (map fst (ar_secs r))) w0 []) as [H1 H2].
    { intros s Hs. apply (proj1 (bsort_in _ _)) in Hs. intros E. apply blookup_none in E. exact (E Hs). }
    fold o1 in H1, H2. cbn [app] in H2.
    assert (Hmono : forall o ot name t, ro_fail (and_then W print o ot name t) = None -> ro_fail o = None).
    { intros o ot name t. unfold and_then. destruct (ro_fail o) eqn:E; [rewrite E; discriminate|reflexivity]. }
    destruct (and_then_run o1 OAggregateGains [] (ar_agg r) _ _ H1) as [A1 A2].
    set (o2 := and_then W print o1 OAggregateGains [] (ar_agg r)) in *.
    unfold tail_calls. destruct (ar_costs r) as [[total yearly]|].
    - destruct (and_then_run o2 OCosts s_total_name total _ _ A1) as [B1 B2].
      set (o3 := and_then W print o2 OCosts s_total_name total) in *.
      destruct (and_then_run o3 OCosts s_yearly_max yearly _ _ B1) as [C1 C2].
      set (o4 := and_then W print o3 OCosts s_yearly_max yearly) in *.
      split.
      + rewrite C1. rewrite <- !app_assoc. reflexivity.
      + intros Hf. rewrite C2, B2, A2. apply H2. subst o4 o3 o2. eauto.
    - split.
      + rewrite A1. reflexivity.
      + intros Hf. rewrite A2. apply H2. subst o2. eauto.
  Qed.
End Runs.
Arguments run_calls {W} print w cs.

(* ================================================================ D. the output directory *)
Lemma blookup_dir_put_eq n e d : blookup n (dir_put n e d) = Some e.
Proof.
  induction d as [|[k x] d IH]; cbn [dir_put blookup].
  - rewrite beqb_refl. reflexivity.
  - destruct (beqb k n) eqn:E; cbn [blookup]; rewrite E; [reflexivity|exact IH].
Qed.
Lemma blookup_dir_put_neq n n' e d : n' <> n -> blookup n' (dir_put n e d) = blookup n' d.
Proof.
  intros Hne. induction d as [|[k x] d IH]; cbn [dir_put blookup].
  - destruct (beqb n n') eqn:E; [apply beqb_eq in E; congruence|reflexivity].
  - destruct (beqb k n) eqn:E; cbn [blookup].
    + apply beqb_eq in E. subst k. destruct (beqb n n') eqn:E'; [apply beqb_eq in E'; congruence|reflexivity].
    + destruct (beqb k n'); [reflexivity|exact IH].
Qed.

Definition call_file (c : call) : bytes := file_name (fst (fst c)) (snd (fst c)).
Definition call_table (c : call) : rtable := snd c.

(* the table of the LAST print into file fn *)
Fixpoint last_write (fn : bytes) (cs : list call) : option rtable :=
  match cs with
  | [] => None
  | c :: rest =>
      match last_write fn rest with
      | Some t => Some t
      | None => if beqb (call_file c) fn then Some (call_table c) else None
      end
  end.

Definition file_content (d0 : dir) (cs : list call) (fn : bytes) : option entry :=
  match last_write fn cs with
  | Some t => match csv_table_records t with Ok recs => Some (EFile recs) | _ => Some EPartial end
  | None => blookup fn d0
  end.

Lemma last_write_none fn cs : last_write fn cs = None <-> ~ In fn (map call_file cs).
Proof.
  induction cs as [|c cs IH]; cbn [last_write map]; [tauto|].
  destruct (last_write fn cs) as [t|].
  - split; [discriminate|]. intros H. exfalso. apply H. right.
    destruct (in_dec (list_eq_dec N.eq_dec) fn (map call_file cs)) as [i|n]; [exact i|].
    apply IH in n. discriminate.
  - destruct (beqb (call_file c) fn) eqn:E.
    + apply beqb_eq in E. split; [discriminate|]. intros H. exfalso. apply H. left. exact E.
    + apply beqb_neq in E. split; [|reflexivity]. intros _ [H|H]; [exact (E H)|]. apply (proj1 IH); [reflexivity|exact H].
Qed.

Definition records_ok (c : call) : Prop := exists recs, csv_table_records (call_table c) = Ok recs.

Lemma print_csv_dir_ok d ot name t d' :
  print_csv_dir d ot name t = (d', None) ->
  exists recs, csv_table_records t = Ok recs /\ d' = dir_put (file_name ot name) (EFile recs) d /\
               blookup (file_name ot name) d <> Some EBlocked.
Proof.
  unfold print_csv_dir. intros H.
  assert (Hcase : forall X : dir * option fail,
            match csv_table_records t with
            | Ok recs => (dir_put (file_name ot name) (EFile recs) d, None)
            | Rej _ => (dir_put (file_name ot name) EPartial d, Some (FWrite ot name CRecord))
            | Panic p => (dir_put (file_name ot name) EPartial d, Some (FPanic p))
            end = (d', None) ->
            exists recs, csv_table_records t = Ok recs /\ d' = dir_put (file_name ot name) (EFile recs) d).
  { intros _ H'. destruct (csv_table_records t) as [recs| |]; inversion H'; subst. exists recs. auto. }
  destruct (blookup (file_name ot name) d) as [[recs0| |]|] eqn:E; try discriminate H;
    destruct (Hcase (d, None) H) as [recs [H1 H2]]; exists recs; repeat split; auto; discriminate.
Qed.

Theorem csv_run_content cs : forall d0 d,
  run_calls print_csv_dir d0 cs = (d, None) ->
  Forall records_ok cs /\ forall fn, blookup fn d = file_content d0 cs fn.
Proof.
  induction cs as [|[[ot name] t] cs IH]; intros d0 d H; cbn [run_calls] in H.
  - inversion H; subst. split; [constructor|]. intros fn. reflexivity.
  - destruct (print_csv_dir d0 ot name t) as [d1 [e|]] eqn:Ep; [discriminate|].
    apply print_csv_dir_ok in Ep as [recs [Hr [-> Hnb]]].
    destruct (IH _ _ H) as [Hall Hc]. split.
    + constructor; [exists recs; exact Hr|exact Hall].
    + intros fn. rewrite Hc. unfold file_content. cbn [last_write].
      destruct (last_write fn cs) as [t'|]; [reflexivity|].
      unfold call_file, call_table. cbn [fst snd].
      destruct (beqb (file_name ot name) fn) eqn:E.
      * apply beqb_eq in E. subst fn. rewrite Hr. apply blookup_dir_put_eq.
      * apply beqb_neq in E. apply blookup_dir_put_neq. congruence.
Qed.

(* a directory without blocked names: the run succeeds iff every table's records are accepted *)
Definition no_blocked (d : dir) : Prop := forall fn, blookup fn d <> Some EBlocked.

Lemma no_blocked_put n recs d : no_blocked d -> no_blocked (dir_put n (EFile recs) d).
Proof.
  intros H fn. destruct (list_eq_dec N.eq_dec fn n) as [->|ne].
  - rewrite blookup_dir_put_eq. discriminate.
  - rewrite blookup_dir_put_neq by exact ne. apply H.
Qed.

Lemma csv_run_succeeds cs : forall d0,
  no_blocked d0 -> Forall records_ok cs -> exists d, run_calls print_csv_dir d0 cs = (d, None).
Proof.
  induction cs as [|[[ot name] t] cs IH]; intros d0 Hnb Hall; cbn [run_calls].
  - eexists; reflexivity.
  - inversion Hall as [|? ? [recs Hr] Hrest]; subst. unfold call_table in Hr. cbn [snd] in Hr.
    unfold print_csv_dir. rewrite Hr.
    destruct (blookup (file_name ot name) d0) as [[r0| |]|] eqn:E;
      try (apply IH; [apply no_blocked_put; exact Hnb|exact Hrest]).
    exfalso. exact (Hnb _ E).
Qed.

Lemma sec_calls_files tabs names :
  (forall s, In s names -> blookup s tabs <> None) ->
  map call_file (sec_calls tabs names) = map (file_name OTransactions) names.
Proof.
  induction names as [|s l IH]; intros Hall; [reflexivity|].
  cbn [sec_calls flat_map map]. fold (sec_calls tabs l). rewrite map_app.
  destruct (blookup s tabs) as [t|] eqn:E; [|exfalso; apply (Hall s); [left; reflexivity|exact E]].
  cbn [map app]. unfold call_file at 1. cbn [fst snd]. f_equal. apply IH. intros s' Hs'. apply Hall. right; exact Hs'.
Qed.

Lemma keys_have_tables (r : app_result) s :
  In s (bsort (map fst (ar_secs r))) -> blookup s (ar_secs r) <> None.
Proof. intros Hs E. apply (proj1 (bsort_in _ _)) in Hs. apply blookup_none in E. exact (E Hs). Qed.

Lemma calls_files r : map call_file (calls r) = write_log r.
Proof.
  unfold calls, write_log. rewrite map_app. f_equal.
  - apply sec_calls_files. intros s. apply keys_have_tables.
  - unfold tail_calls. destruct (ar_costs r) as [[total yearly]|]; reflexivity.
Qed.

Lemma last_write_app fn cs cs' :
  last_write fn (cs ++ cs') = match last_write fn cs' with Some t => Some t | None => last_write fn cs end.
Proof.
  induction cs as [|c cs IH]; cbn [app last_write]; [destruct (last_write fn cs'); reflexivity|].
  rewrite IH. destruct (last_write fn cs') as [t|]; reflexivity.
Qed.

Lemma file_name_tx_inj s s' : file_name OTransactions s = file_name OTransactions s' -> s = s'.
Proof. cbn [file_name]. apply app_inv_tail. Qed.

Lemma last_write_sec tabs names s t :
  NoDup names -> In s names -> blookup s tabs = Some t ->
  last_write (file_name OTransactions s) (sec_calls tabs names) = Some t.
Proof.
  induction names as [|s' l IH]; intros Hn Hin Hb; [contradiction|].
  inversion Hn as [|? ? Hnot Hn']; subst.
  cbn [sec_calls flat_map]. fold (sec_calls tabs l). rewrite last_write_app.
  destruct Hin as [->|Hin].
  - assert (Hnone : last_write (file_name OTransactions s) (sec_calls tabs l) = None).
    { apply last_write_none. intros H. apply in_map_iff in H as [c [Hc Hin]].
      unfold sec_calls in Hin. apply in_flat_map in Hin as [s2 [Hs2 Hc2]].
      destruct (blookup s2 tabs); [|contradiction]. destruct Hc2 as [<-|[]].
      unfold call_file in Hc. cbn [fst snd] in Hc. apply file_name_tx_inj in Hc. subst. contradiction. }
    rewrite Hnone, Hb. cbn [last_write]. unfold call_file, call_table. cbn [fst snd]. rewrite beqb_refl. reflexivity.
  - rewrite (IH Hn' Hin Hb). reflexivity.
Qed.

(* the files of the aggregate and costs tables *)
Definition tail_files (r : app_result) : list bytes := map call_file (tail_calls r).

Lemma last_write_calls_sec r s t :
  NoDup (map fst (ar_secs r)) -> In (s, t) (ar_secs r) ->
  ~ In (file_name OTransactions s) (tail_files r) ->
  last_write (file_name OTransactions s) (calls r) = Some t.
Proof.
  intros Hn Hin Hnr. unfold calls. rewrite last_write_app.
  apply last_write_none in Hnr. rewrite Hnr.
  apply last_write_sec.
  - apply bsort_nodup. exact Hn.
  - apply bsort_in. apply in_map_iff. exists (s, t). auto.
  - apply blookup_in; assumption.
Qed.

(* the records of a table's file: the cells of the render model, all of them, nothing else *)
Definition table_records (t : rtable) : list record :=
  rt_header t :: (rt_rows t ++ (if is_nil (rt_footer t) then [] else [rt_footer t]))
    ++ map (pad_record (length (rt_header t))) (rt_notes t)
    ++ map (fun e => pad_record (length (rt_header t)) (lit s_bang ++ e)) (rt_errors t).

Lemma csv_table_records_ok t recs : csv_table_records t = Ok recs -> recs = table_records t.
Proof.
  unfold csv_table_records, table_records.
  destruct (negb (forallb _ _)); [discriminate|].
  destruct (_ && _); [discriminate|]. intros H. inversion H. reflexivity.
Qed.

(* when the records are accepted: every row and the footer have as many fields as the header *)
Definition rectangular (t : rtable) : Prop :=
  Forall (fun rec => length rec = length (rt_header t)) (rt_rows t) /\
  (rt_footer t = [] \/ length (rt_footer t) = length (rt_header t)) /\
  (rt_header t <> [] \/ (rt_notes t = [] /\ rt_errors t = [])).

Lemma csv_table_records_rect t : rectangular t -> csv_table_records t = Ok (table_records t).
Proof.
  intros (Hr & Hf & Hh). unfold csv_table_records, table_records.
  assert (E1 : forallb (fun r => Nat.eqb (length r) (length (rt_header t)))
                       (rt_rows t ++ (if is_nil (rt_footer t) then [] else [rt_footer t])) = true).
  { apply forallb_forall. intros x Hx. apply Nat.eqb_eq. apply in_app_or in Hx as [Hx|Hx].
    - rewrite Forall_forall in Hr. apply Hr. exact Hx.
    - destruct (rt_footer t) as [|f0 fr] eqn:Ef; [contradiction|]. cbn [is_nil] in Hx.
      destruct Hx as [<-|[]]. destruct Hf as [Hf|Hf]; [discriminate|exact Hf]. }
  rewrite E1. cbn [negb].
  destruct (Nat.eqb (length (rt_header t)) 0) eqn:E0; cbn [andb]; [|reflexivity].
  apply Nat.eqb_eq in E0. destruct Hh as [Hh|[Hn He]].
  - destruct (rt_header t); [contradiction|discriminate].
  - rewrite Hn, He. reflexivity.
Qed.

Lemma csv_table_records_rect_inv t recs : csv_table_records t = Ok recs -> rectangular t.
Proof.
  unfold csv_table_records. destruct (forallb _ _) eqn:E1; cbn [negb]; [|discriminate].
  destruct (_ && _) eqn:E2; [discriminate|]. intros _.
  rewrite forallb_forall in E1. repeat split.
  - apply Forall_forall. intros x Hx. apply Nat.eqb_eq. apply E1. apply in_or_app. left; exact Hx.
  - destruct (rt_footer t) as [|f0 fr] eqn:Ef; [left; reflexivity|right].
    apply Nat.eqb_eq. apply E1. apply in_or_app. right. left. reflexivity.
  - destruct (rt_header t) as [|h0 hr]; [right|left; discriminate].
    cbn [length Nat.eqb andb] in E2. destruct (rt_notes t); [|discriminate]. destruct (rt_errors t); [|discriminate].
    split; reflexivity.
Qed.

Theorem csv_dir_output_content d0 r :
  ro_fail (csv_dir_output d0 r) = None ->
  Forall records_ok (calls r) /\
  forall fn, blookup fn (ro_state (csv_dir_output d0 r)) = file_content d0 (calls r) fn.
Proof.
  intros Hf. destruct (write_render_result_spec dir print_csv_dir d0 r) as [H1 _].
  fold (csv_dir_output d0 r) in H1. rewrite Hf in H1. symmetry in H1. exact (csv_run_content _ _ _ H1).
Qed.

Lemma file_content_written d0 cs fn t :
  Forall records_ok cs -> last_write fn cs = Some t -> file_content d0 cs fn = Some (EFile (table_records t)).
Proof.
  intros Hall Hl. unfold file_content. rewrite Hl.
  assert (Hin : exists c, In c cs /\ call_table c = t).
  { clear Hall. induction cs as [|c cs IH]; [discriminate|]. cbn [last_write] in Hl.
    destruct (last_write fn cs) as [t'|].
    - destruct (IH Hl) as [c' [H1 H2]]. exists c'. split; [right; exact H1|exact H2].
    - destruct (beqb (call_file c) fn); [|discriminate]. inversion Hl. exists c. split; [left; reflexivity|reflexivity]. }
  destruct Hin as [c [Hc <-]]. rewrite Forall_forall in Hall. destruct (Hall c Hc) as [recs Hr].
  rewrite Hr. apply csv_table_records_ok in Hr. subst. reflexivity.
Qed.

(* C06: the directory after a successful run *)
Theorem csv_dir_is_render_model d0 r :
  NoDup (map fst (ar_secs r)) -> ro_fail (csv_dir_output d0 r) = None ->
  let d := ro_state (csv_dir_output d0 r) in
  (forall s t, In (s, t) (ar_secs r) -> ~ In (file_name OTransactions s) (tail_files r) ->
     blookup (file_name OTransactions s) d = Some (EFile (table_records t))) /\
  (forall c, In c (tail_calls r) -> NoDup (tail_files r) ->
     blookup (call_file c) d = Some (EFile (table_records (call_table c)))) /\
  (forall fn, ~ In fn (write_log r) -> blookup fn d = blookup fn d0) /\
  (forall fn, In fn (write_log r) -> exists c, In c (calls r) /\ call_file c = fn /\
     blookup fn d = Some (EFile (table_records (call_table c)))).
Proof.
  intros Hn Hf. cbv zeta. destruct (csv_dir_output_content d0 r Hf) as [Hall Hc].
  repeat split.
  - intros s t Hin Hnr. rewrite Hc. apply file_content_written; [exact Hall|].
    apply last_write_calls_sec; assumption.
  - intros c Hin Hnd. rewrite Hc. apply file_content_written; [exact Hall|].
    unfold calls. rewrite last_write_app. unfold tail_files in Hnd.
    revert Hin Hnd. generalize (tail_calls r). intros l Hin Hnd.
    assert (Hl : last_write (call_file c) l = Some (call_table c)).
    { induction l as [|c' l IH]; [contradiction|]. cbn [map] in Hnd. inversion Hnd as [|? ? Hnot Hnd']; subst.
      cbn [last_write]. destruct Hin as [->|Hin].
      - assert (Hnone : last_write (call_file c) l = None) by (apply last_write_none; exact Hnot).
        rewrite Hnone, beqb_refl. reflexivity.
      - rewrite (IH Hin Hnd'). reflexivity. }
    rewrite Hl. reflexivity.
  - intros fn Hnot. rewrite Hc. unfold file_content. rewrite <- calls_files in Hnot.
    apply last_write_none in Hnot. rewrite Hnot. reflexivity.
  - intros fn Hin. rewrite <- calls_files in Hin.
    destruct (last_write fn (calls r)) as [t|] eqn:El; [|apply last_write_none in El; contradiction].
    assert (Hex : exists c, In c (calls r) /\ call_file c = fn /\ call_table c = t).
    { clear Hall Hc Hin. revert El. generalize (calls r). intros cs. induction cs as [|c cs IH]; [discriminate|].
      cbn [last_write]. destruct (last_write fn cs) as [t'|].
      - intros E. destruct (IH E) as [c' (H1 & H2 & H3)]. exists c'. repeat split; auto. right; exact H1.
      - destruct (beqb (call_file c) fn) eqn:E; [|discriminate]. apply beqb_eq in E. intros H. inversion H.
        exists c. repeat split; auto. left; reflexivity. }
    destruct Hex as [c (H1 & H2 & H3)]. exists c. repeat split; auto.
    rewrite Hc. rewrite H3. apply file_content_written; assumption.
Qed.

(* C06: overwrite semantics.  Writing the result into a directory that already
   holds files (of an earlier run) leaves, for every file name this run
   writes, exactly what the run writes into an empty directory; the other
   files are left as they were. *)
Theorem csv_dir_overwrite dA r :
  ro_fail (csv_dir_output dA r) = None ->
  ro_fail (csv_dir_output [] r) = None /\
  (forall fn, In fn (write_log r) ->
     blookup fn (ro_state (csv_dir_output dA r)) = blookup fn (ro_state (csv_dir_output [] r))) /\
  (forall fn, ~ In fn (write_log r) ->
     blookup fn (ro_state (csv_dir_output dA r)) = blookup fn dA /\
     blookup fn (ro_state (csv_dir_output [] r)) = None).
Proof.
  intros Hf. destruct (csv_dir_output_content dA r Hf) as [Hall Hc].
  assert (Hf0 : ro_fail (csv_dir_output [] r) = None).
  { destruct (write_render_result_spec dir print_csv_dir [] r) as [H1 _]. fold (csv_dir_output [] r) in H1.
    destruct (csv_run_succeeds (calls r) []) as [d Hd]; [intros fn; discriminate|exact Hall|].
    rewrite Hd in H1. inversion H1. reflexivity. }
  destruct (csv_dir_output_content [] r Hf0) as [_ Hc0].
  split; [exact Hf0|]. split.
  - intros fn Hin. rewrite Hc, Hc0. unfold file_content. rewrite <- calls_files in Hin.
    destruct (last_write fn (calls r)) eqn:El; [reflexivity|]. apply last_write_none in El. contradiction.
  - intros fn Hnot. rewrite Hc, Hc0. unfold file_content. rewrite <- calls_files in Hnot.
    apply last_write_none in Hnot. rewrite Hnot. split; reflexivity.
Qed.
