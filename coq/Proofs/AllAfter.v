(* The ONE expression of the all-affiliate share balance
   (AffiliatePortfolioSecurityStatuses::all_affiliates_share_balance_after,
   Model.Ledger.all_after): basic facts used by every development that
   follows the Buy / Sell / Split arms or the status-tracker assertion. *)
From Coq Require Import List NArith ZArith QArith Qcanon Bool.
From ACB Require Import Base.Outcome Base.QcExtra Base.Arith Model.Tx Model.Ledger Proofs.Tactics.
Import ListNotations.
Local Open Scope Qc_scope.

(* exact arithmetic: (all - old) + new = all + (new - old), in both branches *)
Lemma all_after_exact a o n : all_after exact a o n = Ok (a + (n - o)).
Proof.
  unfold all_after. destruct (Qceqb_spec n o) as [->|_].
  - f_equal. ring.
  - cbn [a_sub a_add exact bind]. f_equal. ring.
Qed.

(* unchanged balance of the affiliate: unchanged total, in every arithmetic *)
Lemma all_after_same (A : arith) a o : all_after A a o o = Ok a.
Proof. unfold all_after. destruct (Qceqb_spec o o) as [_|N]; [reflexivity | contradiction N; reflexivity]. Qed.

(* the two shapes of a successful evaluation *)
Lemma all_after_ok (A : arith) a o n r :
  all_after A a o n = Ok r ->
  (n = o /\ r = a) \/ (n <> o /\ exists oth, a_sub A a o = Ok oth /\ a_add A oth n = Ok r).
Proof.
  unfold all_after. destruct (Qceqb_spec n o) as [->|N].
  - intros H; inversion H; left; split; reflexivity.
  - intros H. bind_as H as oth E. right. split; [exact N|]. exists oth. split; [reflexivity | exact H].
Qed.

(* a panic of the expression is a panic of one of its two operators *)
Lemma all_after_panic (A : arith) a o n p :
  all_after A a o n = Panic p ->
  a_sub A a o = Panic p \/ exists oth, a_sub A a o = Ok oth /\ a_add A oth n = Panic p.
Proof.
  unfold all_after. destruct (Qceqb n o); [discriminate|].
  destruct (a_sub A a o) as [oth| |] eqn:E; cbn [bind]; intros H; try discriminate H.
  - right. exists oth. split; [reflexivity | exact H].
  - left. exact H.
Qed.

(* it never rejects when the operators do not *)
Lemma all_after_rej (A : arith) a o n e :
  all_after A a o n = Rej e ->
  a_sub A a o = Rej e \/ exists oth, a_sub A a o = Ok oth /\ a_add A oth n = Rej e.
Proof.
  unfold all_after. destruct (Qceqb n o); [discriminate|].
  destruct (a_sub A a o) as [oth| |] eqn:E; cbn [bind]; intros H; try discriminate H.
  - right. exists oth. split; [reflexivity | exact H].
  - left. exact H.
Qed.

(* forward form for computations under exact arithmetic: the Buy arm's
   all-affiliate balance, written as any [v] equal to it *)
Lemma buy_all_exact_as a o n v :
  v = a + (n - o) -> 0 <= v ->
  bind (all_after exact a o n) (fun r => gez_unwrap Site.buy_all r) = Ok v.
Proof.
  intros -> Hv. rewrite all_after_exact. cbn [bind]. unfold gez_unwrap.
  destruct (Qcleb_spec 0 (a + (n - o))) as [_|N]; [reflexivity | contradiction].
Qed.
Lemma all_after_exact_as a o n v : v = a + (n - o) -> all_after exact a o n = Ok v.
Proof. intros ->. apply all_after_exact. Qed.
Lemma gez_unwrap_nn s q : 0 <= q -> gez_unwrap s q = Ok q.
Proof. intros H. unfold gez_unwrap. destruct (Qcleb_spec 0 q) as [_|N]; [reflexivity | contradiction]. Qed.
