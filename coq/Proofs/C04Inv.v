(* C04 part A: invariants of every emitted row, for ANY arithmetic (exact or
   rust_decimal rounding): the constrained-decimal checks of the code make
   them hold by construction; the proof shows no arm forgets one. *)
From Coq Require Import List NArith ZArith QArith Qcanon Bool Lia.
From ACB Require Import Base.Outcome Base.QcExtra Base.Arith Model.Tx Model.Ledger Model.Sfl
     Model.DeltaList Proofs.Tactics.
Import ListNotations.
Local Open Scope Qc_scope.

Definition acb_ok (o : option Qc) : Prop := forall c, o = Some c -> 0 <= c.
Definition status_ok (s : status) : Prop := 0 <= s_sh s /\ 0 <= s_all s /\ acb_ok (s_acb s).
Definition st_ok (st : pstate) : Prop :=
  Forall (fun kv => status_ok (snd kv)) (ps_map st) /\ 0 <= ps_all st.

Definition row_ok (d : delta) : Prop :=
  status_ok (d_post d) /\
  (af_reg (t_af (d_tx d)) = true -> s_acb (d_post d) = None /\ d_gain d = None) /\
  (af_reg (t_af (d_tx d)) = false -> s_acb (d_post d) <> None).

Section Any.
  Variable A : arith.

  Lemma gez_add_nonneg a b r : gez_add A a b = Ok r -> 0 <= r.
  Proof. unfold gez_add. intros H. bind_as H as x E. apply gez_unwrap_ok in H as [-> H]. exact H. Qed.
  Lemma gez_mul_nonneg a b r : gez_mul A a b = Ok r -> 0 <= r.
  Proof. unfold gez_mul. intros H. bind_as H as x E. apply gez_unwrap_ok in H as [-> H]. exact H. Qed.
  Lemma gez_div_nonneg a b r : gez_div A a b = Ok r -> 0 <= r.
  Proof. unfold gez_div. intros H. bind_as H as x E. apply gez_unwrap_ok in H as [-> H]. exact H. Qed.

  Lemma alookup_Forall {V} (P : V -> Prop) k (l : list (N * V)) v :
    Forall (fun kv => P (snd kv)) l -> alookup k l = Some v -> P v.
  Proof.
    induction l as [|[k' v'] l IH]; cbn [alookup]; intros HF H; [discriminate|].
    inversion HF; subst. destruct (N.eqb k k'); [inversion H; subst; assumption | auto].
  Qed.

  Lemma aupdate_Forall {V} (P : V -> Prop) k v (l : list (N * V)) :
    Forall (fun kv => P (snd kv)) l -> P v -> Forall (fun kv => P (snd kv)) (aupdate k v l).
  Proof.
    induction l as [|[k' v'] l IH]; cbn [aupdate]; intros HF Hv.
    - constructor; [exact Hv | constructor].
    - inversion HF; subst. destruct (N.eqb k k'); constructor; auto.
  Qed.

  Lemma default_status_ok af : status_ok (default_status af).
  Proof.
    unfold status_ok, default_status, acb_ok; cbn. repeat split; try apply Qcle_refl.
    intros c. destruct (af_reg af); intros H; inversion H. apply Qcle_refl.
  Qed.

  Lemma next_pre_ok st af : st_ok st -> status_ok (next_pre_status st af).
  Proof.
    intros [HF Hall]. unfold next_pre_status, latest_for.
    assert (Hl : status_ok match alookup (af_id af) (ps_map st) with
                           | Some s => s | None => default_status af end).
    { destruct (alookup (af_id af) (ps_map st)) eqn:E.
      - eapply (alookup_Forall status_ok); eauto.
      - apply default_status_ok. }
    destruct (Qceqb _ _); [exact Hl|].
    destruct Hl as (H1 & H2 & H3). unfold status_ok; cbn. auto.
  Qed.

  Lemma set_latest_ok st af v st' :
    set_latest A st af v = Ok st' -> st_ok st -> status_ok v -> st_ok st'.
  Proof.
    unfold set_latest. intros H [HF Hall] Hv.
    bind_as H as e Ee.
    destruct (negb (Bool.eqb _ _)); [discriminate|].
    destruct (negb (Qceqb _ _)); [discriminate|].
    inversion H; subst st'; clear H. split; cbn.
    - apply aupdate_Forall; assumption.
    - destruct Hv as (_ & H2 & _); exact H2.
  Qed.

  Lemma sanity_ok pre af :
    sanity_check pre af = Ok tt ->
    (af_reg af = true -> s_acb pre = None) /\ (af_reg af = false -> s_acb pre <> None).
  Proof.
    unfold sanity_check. destruct (Qcltb _ _); [discriminate|].
    destruct (af_reg af); cbn [andb negb]; destruct (s_acb pre); cbn [is_none negb];
      intros H; try discriminate; split; intros; try discriminate; try reflexivity.
  Qed.

  Ltac fin Hr Hn :=
    split; [reflexivity|]; unfold row_ok, status_ok, acb_ok; cbn;
    repeat split; auto;
    try (let c0 := fresh "c0" in let Hc := fresh "Hc" in
         intros c0 Hc; inversion Hc; subst; assumption);
    try (intros _; split; reflexivity);
    try (let Hreg := fresh "Hreg" in intros Hreg; specialize (Hr Hreg); discriminate);
    try (let Hreg := fresh "Hreg" in intros Hreg; specialize (Hn Hreg); congruence);
    try (intros _; discriminate);
    try discriminate;
    try reflexivity;
    try match goal with Hreg : af_reg _ = true |- _ => specialize (Hr Hreg); discriminate end;
    try match goal with Hreg : af_reg _ = false |- _ => specialize (Hn Hreg); congruence end.

  Lemma nonsell_row_ok t pre d :
    delta_nonsell A t pre = Ok d -> status_ok pre ->
    (af_reg (t_af t) = true -> s_acb pre = None) ->
    (af_reg (t_af t) = false -> s_acb pre <> None) ->
    d_tx d = t /\ row_ok d.
  Proof.
    unfold delta_nonsell. intros H (Hsh & Hall & Hacb) Hr Hn.
    destruct (t_act t) as [n price com rate crate | n price com rate crate sp | amount rate
                          | n amount | post pre_ io] eqn:Ea.
    - bind_as H as nsh E1. bind_as H as r0 E0. bind_as H as nall E2.
      apply gez_add_nonneg in E1. apply gez_unwrap_ok in E2 as [-> E2].
      destruct (s_acb pre) as [old|] eqn:Eacb.
      + bind_as H as v E3. bind_as H as c E4. bind_as H as pr E5. bind_as H as nacb E6.
        apply gez_add_nonneg in E6.
        inversion H; subst d. fin Hr Hn.
      + inversion H; subst d. fin Hr Hn.
    - discriminate.
    - destruct (s_acb pre) as [old|] eqn:Eacb.
      + destruct (af_reg (t_af t)) eqn:Ereg; [discriminate|].
        bind_as H as v E1. bind_as H as red E2. bind_as H as nacb E3.
        destruct (Qcltb_spec nacb 0) as [|Hge]; [discriminate|]. apply Qcnot_lt_le in Hge.
        inversion H; subst d. rewrite <- Ereg in Hr, Hn. fin Hr Hn.
      + destruct (negb (af_reg (t_af t))); discriminate.
    - destruct (s_acb pre) as [old|] eqn:Eacb.
      + destruct (af_reg (t_af t)) eqn:Ereg; [discriminate|].
        bind_as H as m E1. bind_as H as amt E2. bind_as H as nacb E3.
        apply gez_add_nonneg in E3.
        inversion H; subst d. rewrite <- Ereg in Hr, Hn. fin Hr Hn.
      + destruct (negb (af_reg (t_af t))); discriminate.
    - bind_as H as m E0. bind_as H as qd E1. bind_as H as nsh E2.
      apply gez_unwrap_ok in E2 as [-> E2].
      bind_as H as nall E4.
      destruct (Qcltb_spec nall 0) as [|Hge]; [discriminate|]. apply Qcnot_lt_le in Hge.
      destruct (_ && _); [discriminate|].
      inversion H; subst d. split; [reflexivity|]. unfold row_ok, status_ok; cbn.
      repeat split; auto.
  Qed.

  Lemma sell_core_ok pre n price com rate crate c :
    sell_core A pre n price com rate crate = Ok c -> status_ok pre ->
    0 <= sc_sh c /\ 0 <= sc_all c /\ acb_ok (sc_acb c) /\
    (s_acb pre = None -> sc_acb c = None /\ sc_gain c = None) /\
    (s_acb pre <> None -> sc_acb c <> None).
  Proof.
    unfold sell_core. intros H (Hsh & Hall & Hacb).
    bind_as H as nsh E1. destruct (Qcltb_spec nsh 0) as [|Hge1]; [discriminate|].
    bind_as H as nall E2. destruct (Qcltb_spec nall 0) as [|Hge2]; [discriminate|].
    bind_as H as maps E3. unfold per_share_acb in E3.
    destruct (s_acb pre) as [acb|] eqn:Eacb.
    - destruct maps as [acbps|].
      2: { destruct (Qcltb 0 (s_sh pre)); [bind_as E3 as r Er; discriminate | discriminate]. }
      bind_as H as nacb E4. apply gez_mul_nonneg in E4.
      bind_as H as v E5. bind_as H as cm E6. bind_as H as payout E7. bind_as H as cost E8.
      bind_as H as g E9. inversion H; subst c; cbn.
      repeat split; try (apply Qcnot_lt_le; assumption); try discriminate.
      intros c0 Hc; inversion Hc; subst; assumption.
    - inversion E3; subst maps. inversion H; subst c; cbn.
      repeat split; try (apply Qcnot_lt_le; assumption); try discriminate; try congruence.
  Qed.

  Lemma delta_for_tx_ok bef t aft st d inj :
    delta_for_tx A bef t aft st = Ok (d, inj) -> st_ok st -> d_tx d = t /\ row_ok d.
  Proof.
    unfold delta_for_tx. intros H Hst.
    pose proof (next_pre_ok st (t_af t) Hst) as Hpre.
    bind_as H as u Eu. destruct u. apply sanity_ok in Eu as [Hr Hn].
    destruct (t_act t) as [n price com rate crate | n price com rate crate sp | amount rate
                          | n amount | post pre_ io] eqn:Ea.
    2: { bind_as H as c Ec. apply sell_core_ok in Ec as (H1 & H2 & H3 & H4 & H5); [|exact Hpre].
         assert (Hrow : forall g s, d = mk_delta t (next_pre_status st (t_af t)) (sc_sh c) (sc_all c)
                                                  (sc_acb c) g s ->
                                   (sc_gain c = None -> g = None) -> d_tx d = t /\ row_ok d).
         { intros g s -> Hg. split; [reflexivity|]. unfold row_ok, status_ok; cbn.
           repeat split; auto;
             try (apply H4, Hr; assumption);
             try (apply Hg, H4, Hr; assumption);
             try (intros; apply H5, Hn; assumption). }
         destruct (sc_gain c) as [g|] eqn:Eg.
         - destruct (Qcltb g 0).
           + bind_as H as m Em. destruct m as [[info inj']|].
             * bind_as H as g' Eg'. inversion H; subst. eapply Hrow; [reflexivity|discriminate].
             * inversion H; subst. eapply Hrow; [reflexivity|discriminate].
           + destruct sp; [discriminate|]. inversion H; subst. eapply Hrow; [reflexivity|discriminate].
         - inversion H; subst. eapply Hrow; [reflexivity|auto]. }
    all: bind_as H as d0 Ed; inversion H; subst; clear H;
      eapply nonsell_row_ok; eauto.
  Qed.

  Lemma run_injected_ok bef st inj aft ds bef' st' o :
    run_injected A bef st inj aft = (ds, bef', st', o) -> st_ok st ->
    Forall row_ok ds /\ st_ok st'.
  Proof.
    revert bef st ds bef' st' o. induction inj as [|t inj IH]; intros bef st ds bef' st' o H Hst;
      cbn [run_injected] in H.
    - inversion H; subst. split; [constructor | assumption].
    - destruct (delta_for_tx A bef t (inj ++ aft) st) as [[d i]| |] eqn:Ed;
        try (inversion H; subst; split; [constructor | assumption]).
      destruct (set_latest A st (t_af t) (d_post d)) as [st1| |] eqn:Es;
        try (inversion H; subst; split; [constructor | assumption]).
      destruct (run_injected A (t :: bef) st1 inj aft) as [[[ds1 b1] s1] o1] eqn:Er.
      inversion H; subst; clear H.
      apply delta_for_tx_ok in Ed as [Htx Hrow]; [|assumption].
      assert (Hst1 : st_ok st1) by (eapply set_latest_ok; eauto; apply Hrow).
      specialize (IH _ _ _ _ _ _ Er Hst1) as [IH1 IH2].
      split; [constructor; assumption | assumption].
  Qed.

  Lemma run_loop_ok bef st aft ds o :
    run_loop A bef st aft = (ds, o) -> st_ok st -> Forall row_ok ds.
  Proof.
    revert bef st ds o. induction aft as [|t aft IH]; intros bef st ds o H Hst; cbn [run_loop] in H.
    - inversion H; constructor.
    - destruct (delta_for_tx A bef t aft st) as [[d inj]| |] eqn:Ed;
        try (inversion H; subst; constructor).
      destruct (set_latest A st (t_af t) (d_post d)) as [st1| |] eqn:Es;
        try (inversion H; subst; constructor).
      destruct (run_injected A (t :: bef) st1 inj aft) as [[[dsi b1] st2] o1] eqn:Er.
      apply delta_for_tx_ok in Ed as [Htx Hrow]; [|assumption].
      assert (Hst1 : st_ok st1) by (eapply set_latest_ok; eauto; apply Hrow).
      apply run_injected_ok in Er as [Hi Hst2]; [|assumption].
      destruct o1 as [s1|].
      + inversion H; subst. constructor; assumption.
      + destruct (run_loop A b1 st2 aft) as [ds2 o2] eqn:El.
        inversion H; subst. constructor; [assumption|].
        apply Forall_app. split; [assumption | eapply IH; eauto].
  Qed.

  Definition init_ok (init : option status) : Prop :=
    forall i, init = Some i -> status_ok i.

  Lemma init_state_ok init st : init_state A init = Ok st -> init_ok init -> st_ok st.
  Proof.
    unfold init_state. destruct init as [i|]; intros H Hi.
    - destruct (negb _); [discriminate|].
      eapply set_latest_ok; eauto.
      + split; cbn; [constructor | apply Qcle_refl].
    - inversion H; subst. split; cbn; [constructor | apply Qcle_refl].
  Qed.

  Theorem run_rows_ok init txs ds o :
    run A init txs = (ds, o) -> init_ok init -> Forall row_ok ds.
  Proof.
    unfold run. destruct txs as [|t txs]; intros H Hi.
    - inversion H; constructor.
    - destruct (init_state A init) as [st| |] eqn:Ei; try (inversion H; constructor).
      eapply run_loop_ok; eauto. eapply init_state_ok; eauto.
  Qed.
End Any.
