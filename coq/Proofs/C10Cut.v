(* C10: the full run on rows sorted by settlement date, cut at two dates: the
   deltas are sorted, every superficial loss is a non-zero amount, and the run
   splits into the run of the rows up to a date and the run of the others. *)
From Coq Require Import List NArith ZArith QArith Qcanon Bool Lia Sorted.
From ACB Require Import Base.Outcome Base.QcExtra Base.Arith Model.Tx Model.Ledger Model.Sfl
     Model.DeltaList Model.App Model.Summary Proofs.Tactics Proofs.C15Full Proofs.C04Sum
     Proofs.RenderProps Proofs.C01Refine Proofs.SortLayout Proofs.C10Ranges.
Import ListNotations.
Local Open Scope Z_scope.

(* ---------------------------------------------------------------- settlement dates of the reported rows *)
Section SdP.
  Variable A : arith.
  Variable P : Z -> Prop.

  Lemma run_injected_sdP inj : forall bef st aft ds b st' o,
    Forall (fun t => P (t_sd t)) inj ->
    run_injected A bef st inj aft = (ds, b, st', o) -> Forall (fun d => P (d_sd d)) ds.
  Proof.
    induction inj as [|t inj IH]; intros bef st aft ds b st' o HF H; cbn [run_injected] in H.
    - inversion H; constructor.
    - apply Forall_cons_iff in HF as [Ht HF].
      destruct (delta_for_tx A bef t (inj ++ aft) st) as [[d i]| |] eqn:Ed; try (inversion H; constructor).
      destruct (set_latest A st (t_af t) (d_post d)) as [st1| |]; try (inversion H; constructor).
      destruct (run_injected A (t :: bef) st1 inj aft) as [[[ds0 b0] s0] o0] eqn:Er.
      inversion H; subst. constructor; [|eapply IH; eassumption].
      unfold d_sd. rewrite (delta_tx_eq _ _ _ _ _ _ _ Ed). exact Ht.
  Qed.

  Lemma inj_sdP bef t aft st d inj :
    delta_for_tx A bef t aft st = Ok (d, inj) -> P (t_sd t) -> Forall (fun x => P (t_sd x)) inj.
  Proof.
    intros Ed Ht. eapply Forall_impl; [|exact (delta_for_tx_inj_sd _ _ _ _ _ _ _ Ed)].
    intros x Hx. cbv beta in Hx. rewrite Hx. exact Ht.
  Qed.

  Lemma run_loop_sdP l : forall bef st ds o,
    Forall (fun t => P (t_sd t)) l ->
    run_loop A bef st l = (ds, o) -> Forall (fun d => P (d_sd d)) ds.
  Proof.
    induction l as [|t l IH]; intros bef st ds o HF H; cbn [run_loop] in H.
    - inversion H; constructor.
    - apply Forall_cons_iff in HF as [Ht HF].
      destruct (delta_for_tx A bef t l st) as [[d inj]| |] eqn:Ed; try (inversion H; constructor).
      destruct (set_latest A st (t_af t) (d_post d)) as [st1| |]; try (inversion H; constructor).
      destruct (run_injected A (t :: bef) st1 inj l) as [[[dsi b1] st2] o1] eqn:Ei.
      pose proof (run_injected_sdP _ _ _ _ _ _ _ _ (inj_sdP _ _ _ _ _ _ Ed Ht) Ei) as Hi.
      assert (Hd : P (d_sd d)) by (unfold d_sd; rewrite (delta_tx_eq _ _ _ _ _ _ _ Ed); exact Ht).
      destruct o1.
      + inversion H; subst. constructor; assumption.
      + destruct (run_loop A b1 st2 l) as [ds' o'] eqn:Er. inversion H; subst.
        constructor; [exact Hd|]. apply Forall_app. split; [exact Hi | eapply IH; eassumption].
  Qed.

  Lemma run_part_sdP l1 : forall bef st l2 ds b st' o,
    Forall (fun t => P (t_sd t)) l1 ->
    run_part A bef st l1 l2 = (ds, b, st', o) -> Forall (fun d => P (d_sd d)) ds.
  Proof.
    induction l1 as [|t l IH]; intros bef st l2 ds b st' o HF H; cbn [run_part] in H.
    - inversion H; constructor.
    - apply Forall_cons_iff in HF as [Ht HF].
      destruct (delta_for_tx A bef t (l ++ l2) st) as [[d inj]| |] eqn:Ed; try (inversion H; constructor).
      destruct (set_latest A st (t_af t) (d_post d)) as [st1| |]; try (inversion H; constructor).
      destruct (run_injected A (t :: bef) st1 inj (l ++ l2)) as [[[dsi b1] st2] o1] eqn:Ei.
      pose proof (run_injected_sdP _ _ _ _ _ _ _ _ (inj_sdP _ _ _ _ _ _ Ed Ht) Ei) as Hi.
      assert (Hd : P (d_sd d)) by (unfold d_sd; rewrite (delta_tx_eq _ _ _ _ _ _ _ Ed); exact Ht).
      destruct o1.
      + inversion H; subst. constructor; assumption.
      + destruct (run_part A b1 st2 l l2) as [[[ds' b2] st3] o'] eqn:Er. inversion H; subst.
        constructor; [exact Hd|]. apply Forall_app. split; [exact Hi | eapply IH; eassumption].
  Qed.
End SdP.

(* the deltas of rows sorted by date are sorted by date *)
Lemma run_loop_sorted A l : forall bef st ds o,
  sd_sorted l -> run_loop A bef st l = (ds, o) -> d_sorted ds.
Proof.
  induction l as [|t l IH]; intros bef st ds o Hs H; cbn [run_loop] in H.
  - inversion H; constructor.
  - apply StronglySorted_inv in Hs as [Hs Ht].
    destruct (delta_for_tx A bef t l st) as [[d inj]| |] eqn:Ed; try (inversion H; constructor).
    destruct (set_latest A st (t_af t) (d_post d)) as [st1| |]; try (inversion H; constructor).
    destruct (run_injected A (t :: bef) st1 inj l) as [[[dsi b1] st2] o1] eqn:Ei.
    assert (Hsd : d_sd d = t_sd t) by (unfold d_sd; rewrite (delta_tx_eq _ _ _ _ _ _ _ Ed); reflexivity).
    pose proof (run_injected_sdP A (fun z => z = t_sd t) _ _ _ _ _ _ _ _ (delta_for_tx_inj_sd _ _ _ _ _ _ _ Ed) Ei) as Hi.
    assert (Hsi : d_sorted dsi /\ Forall (fun x => d_sd d <= d_sd x) dsi).
    { rewrite Hsd. clear -Hi. induction Hi as [|x r Hx Hr IHr]; [split; constructor|].
      destruct IHr as [I1 I2]. split; [|constructor; [lia | exact I2]].
      constructor; [exact I1|]. eapply Forall_impl; [|exact Hr]. intros y Hy. cbv beta in Hy. lia. }
    destruct Hsi as [Hsi Hdi].
    destruct o1.
    + inversion H; subst. constructor; assumption.
    + destruct (run_loop A b1 st2 l) as [ds' o'] eqn:Er. inversion H; subst.
      pose proof (run_loop_sdP A (fun z => t_sd t <= z) _ _ _ _ _ Ht Er) as Hr.
      constructor.
      * apply ss_app; [exact Hsi | eapply IH; eassumption |].
        eapply Forall_impl; [|exact Hi]. intros x Hx. cbv beta in Hx.
        eapply Forall_impl; [|exact Hr]. intros y Hy. cbv beta in Hy. lia.
      * apply Forall_app. split; [exact Hdi|]. rewrite Hsd. exact Hr.
Qed.

(* ---------------------------------------------------------------- a superficial loss is a non-zero amount *)
Local Open Scope Qc_scope.
Lemma delta_sfl_neg bef t sold spec aft st loss info inj :
  delta_sfl exact bef t sold spec aft st loss = Ok (Some (info, inj)) -> sf_amount info < 0.
Proof.
  unfold delta_sfl. intros H.
  bind_as H as i Ei. bind_as H as m Em. bind_as H as calc Ec.
  destruct spec as [[sv force]|].
  - bind_as H as u Eu. destruct (Qcltb_spec sv 0) as [Hsv|]; cbn [negb] in H; [|discriminate].
    bind_as H as q Eq. bind_as H as n En. inversion H; subst. exact Hsv.
  - destruct m as [r|]; [|discriminate]. destruct (Qcltb_spec calc 0) as [Hc|]; cbn [negb] in H; [|discriminate].
    bind_as H as txs Et. inversion H; subst. exact Hc.
Qed.
Definition sfl_neg (d : delta) : Prop := forall i, d_sfl d = Some i -> sf_amount i < 0.
Lemma delta_for_tx_sfl_neg bef t aft st d inj : delta_for_tx exact bef t aft st = Ok (d, inj) -> sfl_neg d.
Proof.
  unfold delta_for_tx. intros H i Hi. bind_as H as u Eu.
  destruct (t_act t) as [n price com rate crate | n price com rate crate sp | amount rate
                        | n amount | post pre_ io] eqn:Ea;
    try (bind_as H as d0 Ed; inversion H; subst; apply delta_nonsell_no_sfl in Ed as [E1 _]; congruence).
  bind_as H as c Ec. destruct (sc_gain c) as [g|]; [|inversion H; subst; discriminate].
  destruct (Qcltb g 0).
  - bind_as H as m Em. destruct m as [[info inj']|]; [|inversion H; subst; discriminate].
    bind_as H as g' Eg. inversion H; subst. cbn [mk_delta d_sfl] in Hi. inversion Hi; subst.
    eapply delta_sfl_neg; eassumption.
  - destruct sp; [discriminate|]. inversion H; subst. discriminate.
Qed.
Lemma sfl_neg_is_sfl d : sfl_neg d -> d_sfl d <> None -> is_sfl_delta d = true.
Proof.
  unfold sfl_neg, is_sfl_delta. destruct (d_sfl d) as [i|]; [|contradiction]. intros H _.
  specialize (H i eq_refl). destruct (Qceqb_spec (sf_amount i) 0) as [E|]; [|reflexivity].
  rewrite E in H. exfalso. qc_lra.
Qed.
Lemma run_injected_sfl_neg inj : forall bef st aft ds b st' o,
  run_injected exact bef st inj aft = (ds, b, st', o) -> Forall sfl_neg ds.
Proof.
  induction inj as [|t inj IH]; intros bef st aft ds b st' o H; cbn [run_injected] in H.
  - inversion H; constructor.
  - destruct (delta_for_tx exact bef t (inj ++ aft) st) as [[d i]| |] eqn:Ed; try (inversion H; constructor).
    destruct (set_latest exact st (t_af t) (d_post d)) as [st1| |]; try (inversion H; constructor).
    destruct (run_injected exact (t :: bef) st1 inj aft) as [[[ds0 b0] s0] o0] eqn:Er.
    inversion H; subst. constructor; [eapply delta_for_tx_sfl_neg; eassumption | eapply IH; eassumption].
Qed.
Lemma run_loop_sfl_neg l : forall bef st ds o,
  run_loop exact bef st l = (ds, o) -> Forall sfl_neg ds.
Proof.
  induction l as [|t l IH]; intros bef st ds o H; cbn [run_loop] in H.
  - inversion H; constructor.
  - destruct (delta_for_tx exact bef t l st) as [[d inj]| |] eqn:Ed; try (inversion H; constructor).
    destruct (set_latest exact st (t_af t) (d_post d)) as [st1| |]; try (inversion H; constructor).
    destruct (run_injected exact (t :: bef) st1 inj l) as [[[dsi b1] st2] o1] eqn:Ei.
    pose proof (run_injected_sfl_neg _ _ _ _ _ _ _ _ Ei) as Hi.
    pose proof (delta_for_tx_sfl_neg _ _ _ _ _ _ Ed) as Hd.
    destruct o1.
    + inversion H; subst. constructor; assumption.
    + destruct (run_loop exact b1 st2 l) as [ds' o'] eqn:Er. inversion H; subst.
      constructor; [exact Hd|]. apply Forall_app. split; [exact Hi | eapply IH; eassumption].
Qed.
Local Open Scope Z_scope.

(* ---------------------------------------------------------------- cutting a sorted list at a date *)
Lemma sorted_split c l : sd_sorted l ->
  l = filter (fun t => t_sd t <=? c) l ++ filter (fun t => c <? t_sd t) l.
Proof.
  induction 1 as [|t l Hs IH Ht]; cbn [filter]; [reflexivity|].
  destruct (t_sd t <=? c) eqn:E.
  - assert (E' : c <? t_sd t = false) by (apply Z.ltb_ge; apply Z.leb_le in E; lia).
    rewrite E'. cbn [app]. f_equal. exact IH.
  - assert (E' : c <? t_sd t = true) by (apply Z.ltb_lt; apply Z.leb_gt in E; lia).
    rewrite E'. apply Z.leb_gt in E.
    assert (Hn : filter (fun t0 => t_sd t0 <=? c) l = []).
    { clear -Ht E. induction Ht as [|y r Hy Hr IHr]; cbn [filter]; [reflexivity|].
      assert (Ey : t_sd y <=? c = false) by (apply Z.leb_gt; lia). rewrite Ey. exact IHr. }
    rewrite Hn. cbn [app]. f_equal.
    clear -Ht E. induction Ht as [|y r Hy Hr IHr]; cbn [filter]; [reflexivity|].
    assert (Ey : c <? t_sd y = true) by (apply Z.ltb_lt; lia). rewrite Ey. f_equal. exact IHr.
Qed.

Lemma split_unique {T} (p : T -> Prop) (a a' b b' : list T) :
  a ++ b = a' ++ b' -> Forall p a -> Forall p a' -> Forall (fun x => ~ p x) b -> Forall (fun x => ~ p x) b' ->
  a = a' /\ b = b'.
Proof.
  revert a'. induction a as [|x a IH]; intros a' E Ha Ha' Hb Hb'.
  - destruct a' as [|y a']; [split; [reflexivity | exact E]|].
    cbn [app] in E. subst b. exfalso. apply (Forall_inv Hb). exact (Forall_inv Ha').
  - destruct a' as [|y a'].
    + cbn [app] in E. subst b'. exfalso. apply (Forall_inv Hb'). exact (Forall_inv Ha).
    + cbn [app] in E. inversion E; subst y.
      destruct (IH a' H1 (Forall_inv_tail Ha) (Forall_inv_tail Ha') Hb Hb') as [-> ->]. split; reflexivity.
Qed.

(* the run of rows sorted by date, cut at a date *)
Lemma run_cut A c l bef st ds :
  sd_sorted l -> run_loop A bef st l = (ds, None) ->
  let l1 := filter (fun t => t_sd t <=? c) l in
  let l2 := filter (fun t => c <? t_sd t) l in
  exists ds1 b1 st1 ds2,
    run_part A bef st l1 l2 = (ds1, b1, st1, None) /\ run_loop A b1 st1 l2 = (ds2, None)
    /\ ds = ds1 ++ ds2 /\ Forall (fun d => d_sd d <= c) ds1 /\ Forall (fun d => c < d_sd d) ds2.
Proof.
  intros Hs H l1 l2. rewrite (sorted_split c l Hs) in H. fold l1 l2 in H. rewrite run_loop_app in H.
  destruct (run_part A bef st l1 l2) as [[[ds1 b1] st1] o1] eqn:E1.
  destruct o1; [discriminate|]. destruct (run_loop A b1 st1 l2) as [ds2 o2] eqn:E2.
  inversion H; subst. exists ds1, b1, st1, ds2.
  split; [reflexivity|]. split; [exact E2|]. split; [reflexivity|]. split.
  - eapply (run_part_sdP A (fun z => z <= c)); [|exact E1].
    unfold l1. apply Forall_forall. intros x Hx. apply filter_In in Hx as [_ Hx]. apply Z.leb_le. exact Hx.
  - eapply (run_loop_sdP A (fun z => c < z)); [|exact E2].
    unfold l2. apply Forall_forall. intros x Hx. apply filter_In in Hx as [_ Hx]. apply Z.ltb_lt. exact Hx.
Qed.
