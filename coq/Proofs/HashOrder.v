(* C09: results do not depend on the iteration order of hash containers.
   - running decimal sums: invariant under exact arithmetic; invariant under
     rust_decimal rounding as long as every partial sum fits 96 bits at the
     operands' common scale; not invariant in general (witness);
   - loops over sorted keys (the code after the fixes): invariant for every
     arithmetic, by uniqueness of sorting;
   - keyed rebuilds (one entry per key): invariant for every arithmetic. *)
From Coq Require Import List NArith ZArith QArith Qcanon Bool Lia Permutation Sorting.Sorted.
From ACB Require Import Base.Outcome Base.QcExtra Base.Fit Base.Arith Model.Tx Model.Costs
     Model.HashSites Proofs.Tactics Proofs.SortPerm.
Import ListNotations.
Local Open Scope Z_scope.

(* ------------------------------------------------------------------ *)
(* fit is the identity on representable decimals                        *)

Lemma p10_Z s : Zpos (p10 s) = 10 ^ Z.of_nat s.
Proof.
  destruct s as [|n]; [reflexivity|].
  unfold p10, pow10. rewrite Pos2Z.inj_pow. f_equal.
  rewrite <- Pos.of_nat_succ, Zpos_P_of_succ_nat, <- Nat2Z.inj_succ. reflexivity.
Qed.

Lemma p10_add a b : Zpos (p10 (a + b)) = Zpos (p10 a) * Zpos (p10 b).
Proof. rewrite !p10_Z, Nat2Z.inj_add, Z.pow_add_r by lia. reflexivity. Qed.

Lemma rhe_exact q d : rhe (q * Zpos d) d = q.
Proof.
  unfold rhe. rewrite Z.div_mul by discriminate. rewrite Z.mod_mul by discriminate.
  cbn [Z.mul]. reflexivity.
Qed.

(* m / 10^s as a canonical rational *)
Definition at_scale (s : nat) (m : Z) : Qc := Qcfrac m (p10 s).

Lemma Qcfrac_eq n d n' d' : n * Zpos d' = n' * Zpos d -> Qcfrac n d = Qcfrac n' d'.
Proof. intros H. unfold Qcfrac. apply Q2Qc_eq_iff. unfold Qeq. cbn [Qnum Qden]. exact H. Qed.

Lemma at_scale_shift s k m : at_scale (s + k) (m * Zpos (p10 k)) = at_scale s m.
Proof. unfold at_scale. apply Qcfrac_eq. rewrite p10_add. ring. Qed.

Lemma at_scale_plus s a b : (at_scale s a + at_scale s b)%Qc = at_scale s (a + b).
Proof.
  unfold at_scale, Qcfrac, Qcplus. apply Q2Qc_eq_iff. unfold Q2Qc. cbn [this].
  rewrite !Qred_correct. unfold Qeq, Qplus. cbn [Qnum Qden]. rewrite Pos2Z.inj_mul. ring.
Qed.

(* numerator / denominator of the canonical form: n * 10^s = m * d *)
Lemma at_scale_cross s m :
  Qnum (this (at_scale s m)) * Zpos (p10 s) = m * Zpos (Qden (this (at_scale s m))).
Proof.
  unfold at_scale, Qcfrac, Q2Qc. cbn [this].
  assert (H := Qred_correct (m # p10 s)). unfold Qeq in H. cbn [Qnum Qden] in H. exact H.
Qed.

Lemma fit_from_exact s m : Z.abs m <= max_mant -> forall k,
  fit_from (s + k) (Qnum (this (at_scale s m))) (Qden (this (at_scale s m))) = Some (at_scale s m).
Proof.
  intros Hm. set (n := Qnum (this (at_scale s m))). set (d := Qden (this (at_scale s m))).
  assert (Hrhe : forall k, rhe (n * Zpos (p10 (s + k))) d = m * Zpos (p10 k)).
  { intros k. rewrite p10_add.
    replace (n * (Zpos (p10 s) * Zpos (p10 k))) with ((m * Zpos (p10 k)) * Zpos d).
    - apply rhe_exact.
    - unfold n, d. rewrite <- Z.mul_assoc, (Z.mul_comm (Zpos (p10 k))), Z.mul_assoc.
      rewrite <- at_scale_cross. ring. }
  induction k as [|k IH].
  - rewrite Nat.add_0_r. destruct s as [|s']; cbn [fit_from].
    + specialize (Hrhe O). rewrite Nat.add_0_r in Hrhe. rewrite Hrhe.
      change (Zpos (p10 0)) with 1. rewrite Z.mul_1_r.
      apply Z.leb_le in Hm. rewrite Hm. reflexivity.
    + specialize (Hrhe O). rewrite Nat.add_0_r in Hrhe. rewrite Hrhe.
      change (Zpos (p10 0)) with 1. rewrite Z.mul_1_r.
      apply Z.leb_le in Hm. rewrite Hm. reflexivity.
  - replace (s + S k)%nat with (S (s + k)) by lia. cbn [fit_from].
    replace (S (s + k)) with (s + S k)%nat by lia. rewrite Hrhe.
    destruct (Z.leb (Z.abs (m * Zpos (p10 (S k)))) max_mant).
    + f_equal. apply at_scale_shift.
    + exact IH.
Qed.

Lemma fit_exact s m : (s <= 28)%nat -> Z.abs m <= max_mant -> fit (at_scale s m) = Some (at_scale s m).
Proof.
  intros Hs Hm. unfold fit. replace 28%nat with (s + (28 - s))%nat by lia.
  apply fit_from_exact. exact Hm.
Qed.

(* ------------------------------------------------------------------ *)
(* running sums                                                         *)

Definition qtotal (l : list Qc) : Qc := fold_right Qcplus 0%Qc l.

Lemma qtotal_perm l l' : Permutation l l' -> qtotal l = qtotal l'.
Proof.
  induction 1 as [|x l l' _ IH|x y l|l l' l'' _ IH1 _ IH2]; cbn [qtotal fold_right].
  - reflexivity.
  - fold (qtotal l) (qtotal l'). rewrite IH. reflexivity.
  - fold (qtotal l). ring.
  - congruence.
Qed.

Lemma sum_exact_from l : forall t, mfold (fun t x => a_add exact t x) l t = Ok (t + qtotal l)%Qc.
Proof.
  induction l as [|x r IH]; intros t; cbn [mfold qtotal fold_right].
  - f_equal. ring.
  - cbn [a_add exact bind]. rewrite IH. fold (qtotal r). f_equal. ring.
Qed.

Lemma sum_exact_value l : sum_in_order exact l = Ok (qtotal l).
Proof. unfold sum_in_order. rewrite sum_exact_from. f_equal. ring. Qed.

(* commutative-monoid fold: the exact sum does not depend on the order *)
Lemma sum_exact_perm l l' : Permutation l l' -> sum_in_order exact l = sum_in_order exact l'.
Proof. intros H. rewrite !sum_exact_value, (qtotal_perm _ _ H). reflexivity. Qed.

(* rust_decimal: exact as long as every partial sum, as an integer at the
   operands' common scale, fits the 96-bit mantissa *)
Fixpoint prefixes_fit (acc : Z) (ms : list Z) : Prop :=
  match ms with
  | [] => True
  | m :: r => Z.abs (acc + m) <= max_mant /\ prefixes_fit (acc + m) r
  end.
Definition zsum (l : list Z) : Z := fold_right Z.add 0 l.
Lemma zsum_perm l l' : Permutation l l' -> zsum l = zsum l'.
Proof.
  induction 1 as [|x l l' _ IH|x y l|l l' l'' _ IH1 _ IH2]; cbn [zsum fold_right];
    try fold (zsum l); try fold (zsum l'); lia.
Qed.

Lemma at_scale_0 s : at_scale s 0 = 0%Qc.
Proof. unfold at_scale, Qcfrac. apply Q2Qc_eq_iff. unfold Qeq. cbn [Qnum Qden]. ring. Qed.

Lemma dec_add a b : a_add dec a b = fit_res (a + b)%Qc.
Proof. reflexivity. Qed.

Lemma sum_dec_from s : (s <= 28)%nat -> forall ms acc, prefixes_fit acc ms ->
  mfold (fun t x => a_add dec t x) (map (at_scale s) ms) (at_scale s acc) = Ok (at_scale s (acc + zsum ms)).
Proof.
  intros Hs. induction ms as [|m r IH]; intros acc Hf.
  - cbn [map mfold]. f_equal. f_equal. cbn [zsum fold_right]. lia.
  - destruct Hf as [Hm Hr]. change (zsum (m :: r)) with (m + zsum r).
    cbn [map mfold]. rewrite dec_add, at_scale_plus. unfold fit_res.
    rewrite (fit_exact s (acc + m) Hs Hm). cbn [bind]. rewrite (IH _ Hr).
    f_equal. f_equal. lia.
Qed.

Lemma sum_dec_value s ms : (s <= 28)%nat -> prefixes_fit 0 ms ->
  sum_in_order dec (map (at_scale s) ms) = Ok (at_scale s (zsum ms)).
Proof.
  intros Hs Hf. unfold sum_in_order. rewrite <- (at_scale_0 s). rewrite (sum_dec_from s Hs ms 0 Hf).
  reflexivity.
Qed.

Lemma sum_dec_perm_when_fits s ms ms' :
  (s <= 28)%nat -> prefixes_fit 0 ms -> prefixes_fit 0 ms' -> Permutation ms ms' ->
  sum_in_order dec (map (at_scale s) ms) = sum_in_order dec (map (at_scale s) ms').
Proof.
  intros Hs Hf Hf' Hp. rewrite !sum_dec_value by assumption. rewrite (zsum_perm _ _ Hp). reflexivity.
Qed.

(* a sufficient, order-independent condition *)
Definition zsum_abs (l : list Z) : Z := fold_right (fun m a => Z.abs m + a) 0 l.
Lemma zsum_abs_nonneg l : 0 <= zsum_abs l.
Proof. induction l as [|m r IH]; cbn [zsum_abs fold_right]; [lia|]. fold (zsum_abs r). lia. Qed.
Lemma prefixes_fit_of_abs ms : forall acc, Z.abs acc + zsum_abs ms <= max_mant -> prefixes_fit acc ms.
Proof.
  induction ms as [|m r IH]; intros acc H; cbn [prefixes_fit]; [exact I|].
  cbn [zsum_abs fold_right] in H. fold (zsum_abs r) in H.
  assert (H0 := zsum_abs_nonneg r). split; [lia|]. apply IH. lia.
Qed.
Lemma zsum_abs_perm l l' : Permutation l l' -> zsum_abs l = zsum_abs l'.
Proof.
  induction 1 as [|x l l' _ IH|x y l|l l' l'' _ IH1 _ IH2]; cbn [zsum_abs fold_right];
    try fold (zsum_abs l); try fold (zsum_abs l'); lia.
Qed.
Lemma sum_dec_perm_when_abs_fits s ms ms' :
  (s <= 28)%nat -> zsum_abs ms <= max_mant -> Permutation ms ms' ->
  sum_in_order dec (map (at_scale s) ms) = sum_in_order dec (map (at_scale s) ms').
Proof.
  intros Hs Hf Hp. apply sum_dec_perm_when_fits; try assumption; apply prefixes_fit_of_abs.
  - cbn [Z.abs]. lia.
  - rewrite <- (zsum_abs_perm _ _ Hp). cbn [Z.abs]. lia.
Qed.

(* outside that condition the order matters: three addends *)
Definition sum_witness : list Qc :=
  [at_scale 26 1280739771125299620157533836;
   at_scale 20 8549256236394592410343690886;
   at_scale 23 3637610070778545277291862616].
Definition sum_witness' : list Qc :=
  [at_scale 26 1280739771125299620157533836;
   at_scale 23 3637610070778545277291862616;
   at_scale 20 8549256236394592410343690886].
Lemma sum_dec_unsorted_refuted :
  exists l l', Permutation l l' /\ sum_in_order dec l <> sum_in_order dec l'.
Proof.
  exists sum_witness, sum_witness'. split.
  - unfold sum_witness, sum_witness'. apply perm_skip. apply perm_swap.
  - intros H.
    apply (f_equal (fun r : res Qc => match r with Ok q => Qnum (this q) | _ => 0 end)) in H.
    vm_compute in H. discriminate H.
Qed.

(* ------------------------------------------------------------------ *)
(* loops over sorted keys (the code after the fixes)                    *)

Lemma gains_sorted_perm A m m' :
  NoDup (map fst m) -> Permutation m m' -> gains_now A m = gains_now A m'.
Proof. intros Hn Hp. unfold gains_now. rewrite (ksort_perm_eq m m' Hn Hp). reflexivity. Qed.

Lemma buyers_total_sorted_perm A m m' :
  NoDup (map fst m) -> Permutation m m' -> buyers_total_now A m = buyers_total_now A m'.
Proof. intros Hn Hp. unfold buyers_total_now. rewrite (ksort_perm_eq m m' Hn Hp). reflexivity. Qed.

Lemma split_expansion_sorted_perm {T} (mk : N -> T) afs afs' :
  Permutation afs afs' -> expand_split_now mk afs = expand_split_now mk afs'.
Proof. intros Hp. unfold expand_split_now. rewrite (nsort_perm_eq _ _ Hp). reflexivity. Qed.

Lemma flat_map_ext_in {X Y} (f g : X -> list Y) l :
  (forall x, In x l -> f x = g x) -> flat_map f l = flat_map g l.
Proof.
  induction l as [|h r IH]; intros H; cbn [flat_map]; [reflexivity|].
  rewrite (H h) by (left; reflexivity). rewrite IH; [reflexivity|].
  intros x Hx. apply H. right. exact Hx.
Qed.

Lemma notes_sorted_perm m m' :
  NoDup (map fst m) -> Permutation m m' -> notes_now m = notes_now m'.
Proof.
  intros Hn Hp. unfold notes_now, notes_in_order.
  rewrite (nsort_perm_eq (map fst m) (map fst m')) by (apply Permutation_map; exact Hp).
  apply flat_map_ext_in. intros s _. rewrite (alookup_perm s m m' Hn Hp). reflexivity.
Qed.

Lemma all_deltas_sorted_perm m m' :
  NoDup (map fst m) -> Permutation m m' -> all_deltas m = all_deltas m'.
Proof.
  intros Hn Hp. unfold all_deltas, concat_deltas.
  rewrite (nsort_perm_eq (map fst m) (map fst m')) by (apply Permutation_map; exact Hp).
  apply flat_map_ext_in. intros s _. rewrite (alookup_perm s m m' Hn Hp). reflexivity.
Qed.

(* the cost tables: whatever order the security set and the day map are
   walked in, the code sorts first *)
Lemma costs_hash_order_independent A cm (so : list N -> list N) (dor : list Z -> list Z) ds :
  (forall l, Permutation (so l) l) -> (forall l, Permutation (dor l) l) ->
  costs_with A cm (fun l => nsort (so l)) (fun l => zsort (dor l)) ds = costs_with A cm nsort zsort ds.
Proof.
  intros Hso Hdor. unfold costs_with.
  destruct (loop1 A ds) as [st| |]; cbn [bind]; try reflexivity.
  rewrite (nsort_perm_eq _ _ (Hso (s_secs st))).
  destruct (loop2 A cm (nsort (s_secs st)) st) as [days| |]; cbn [bind]; try reflexivity.
  rewrite (zsort_perm_eq _ _ (Hdor (map fst days))). reflexivity.
Qed.

(* yearly choice: pick_step reads the day map only through lookups *)
Lemma pick_step_ext days days' picks d :
  (forall k, zlookup k days = zlookup k days') -> pick_step days picks d = pick_step days' picks d.
Proof.
  intros H. unfold pick_step. rewrite (H d).
  destruct (zlookup d days') as [r|]; [|reflexivity].
  destruct (zlookup (year_of d) picks) as [old|]; [|reflexivity].
  rewrite (H old). reflexivity.
Qed.
Lemma yearly_picks_ext days days' order :
  (forall k, zlookup k days = zlookup k days') -> yearly_picks order days = yearly_picks order days'.
Proof.
  intros H. unfold yearly_picks. generalize (@nil (Z * Z)).
  induction order as [|d r IH]; intros acc; cbn [mfold]; [reflexivity|].
  rewrite (pick_step_ext days days' acc d H).
  destruct (pick_step days' acc d); cbn [bind]; try reflexivity. apply IH.
Qed.

Lemma days_of_totals_keys l : map fst (days_of_totals l) = map fst l.
Proof. unfold days_of_totals. rewrite map_map. reflexivity. Qed.

Lemma yearly_choice_sorted_perm t t' :
  NoDup (map fst t) -> Permutation t t' -> yearly_choice_now t = yearly_choice_now t'.
Proof.
  intros Hn Hp. unfold yearly_choice_now, yearly_choice.
  rewrite (zsort_perm_eq (map fst t) (map fst t')) by (apply Permutation_map; exact Hp).
  rewrite (yearly_picks_ext (days_of_totals t) (days_of_totals t')); [reflexivity|].
  intros k. apply zlookup_perm.
  - rewrite days_of_totals_keys. exact Hn.
  - unfold days_of_totals. apply Permutation_map. exact Hp.
Qed.

(* ---- the same loops over the raw hash order are order-dependent ---- *)
Definition q1 (z : Z) : Qc := Qcfrac z 1.

Lemma yearly_tie_unsorted_refuted :
  exists order order' totals,
    Permutation order order' /\ yearly_choice order totals <> yearly_choice order' totals.
Proof.
  (* 2022-03-03 and 2022-05-03, both with total 100 *)
  exists [738217; 738278], [738278; 738217], [(738217, q1 100); (738278, q1 100)].
  split; [apply perm_swap|].
  intros H. vm_compute in H. discriminate H.
Qed.

Lemma notes_unsorted_refuted :
  exists order order' m, Permutation order order' /\ notes_in_order order m <> notes_in_order order' m.
Proof.
  exists [0%N; 1%N], [1%N; 0%N], [(0%N, [NoteReg 738217 0]); (1%N, [NoteReg 738218 1])].
  split; [apply perm_swap|]. intros H. vm_compute in H. discriminate H.
Qed.

Lemma split_expansion_unsorted_refuted :
  exists order order' : list N, Permutation order order' /\
    expand_split (fun a => a) order <> expand_split (fun a => a) order'.
Proof.
  exists [1000%N; 1003%N], [1003%N; 1000%N]. split; [apply perm_swap|].
  intros H. vm_compute in H. discriminate H.
Qed.

(* ------------------------------------------------------------------ *)
(* keyed rebuilds: one step per key, touching only that key's entry     *)

Lemma zlookup_zupdate_eq {V} k (v : V) l : zlookup k (zupdate k v l) = Some v.
Proof.
  induction l as [|[k' v'] r IH]; cbn [zupdate zlookup].
  - rewrite Z.eqb_refl. reflexivity.
  - destruct (Z.eqb_spec k k') as [->|Hne]; cbn [zlookup].
    + rewrite Z.eqb_refl. reflexivity.
    + destruct (Z.eqb_spec k k'); [contradiction|]. exact IH.
Qed.
Lemma zlookup_zupdate_neq {V} k k' (v : V) l : k <> k' -> zlookup k (zupdate k' v l) = zlookup k l.
Proof.
  intros Hne. induction l as [|[k2 v2] r IH]; cbn [zupdate zlookup].
  - destruct (Z.eqb_spec k k'); [contradiction|]. reflexivity.
  - destruct (Z.eqb_spec k' k2) as [->|Hne2]; cbn [zlookup].
    + destruct (Z.eqb_spec k k2); [contradiction|]. reflexivity.
    + destruct (Z.eqb_spec k k2); [reflexivity|]. exact IH.
Qed.
Lemma zupdate_keys {V} k (v : V) l :
  map fst (zupdate k v l) = if existsb (Z.eqb k) (map fst l) then map fst l else map fst l ++ [k].
Proof.
  induction l as [|[k' v'] r IH]; cbn [zupdate map fst existsb app]; [reflexivity|].
  destruct (Z.eqb_spec k k') as [->|Hne]; cbn [map fst orb]; [reflexivity|].
  rewrite IH. destruct (existsb (Z.eqb k) (map fst r)); reflexivity.
Qed.
Lemma existsb_zeqb_in k l : existsb (Z.eqb k) l = true <-> In k l.
Proof.
  rewrite existsb_exists. split.
  - intros [x [Hx E]]. apply Z.eqb_eq in E. subst. exact Hx.
  - intros H. exists k. split; [exact H|apply Z.eqb_refl].
Qed.
Lemma zupdate_nodup {V} k (v : V) l : NoDup (map fst l) -> NoDup (map fst (zupdate k v l)).
Proof.
  intros Hn. rewrite zupdate_keys. destruct (existsb (Z.eqb k) (map fst l)) eqn:E; [exact Hn|].
  apply (Permutation_NoDup (l := k :: map fst l)); [apply Permutation_cons_append|].
  constructor; [|exact Hn]. intros Hin. apply existsb_zeqb_in in Hin. congruence.
Qed.

Section Keyed.
  Context {V X : Type} (g : option V -> X -> res V).

  (* the step of a keyed rebuild: the new entry of key k depends on the old
     entry of k and the element only *)
  Definition kstep (acc : list (Z * V)) (kx : Z * X) : res (list (Z * V)) :=
    v <- g (zlookup (fst kx) acc) (snd kx) ;; Ok (zupdate (fst kx) v acc).

  Definition zequiv (a b : list (Z * V)) : Prop := forall k, zlookup k a = zlookup k b.

  (* same map, or both runs stop *)
  Definition res_rel (r r' : res (list (Z * V))) : Prop :=
    match r, r' with
    | Ok a, Ok b => zequiv a b
    | Ok _, _ | _, Ok _ => False
    | _, _ => True
    end.

  Lemma zequiv_update a b k v : zequiv a b -> zequiv (zupdate k v a) (zupdate k v b).
  Proof.
    intros H k'. destruct (Z.eq_dec k' k) as [->|Hne].
    - rewrite !zlookup_zupdate_eq. reflexivity.
    - rewrite !zlookup_zupdate_neq by exact Hne. apply H.
  Qed.

  Lemma res_rel_trans r1 r2 r3 : res_rel r1 r2 -> res_rel r2 r3 -> res_rel r1 r3.
  Proof.
    unfold res_rel. destruct r1, r2, r3; try tauto.
    intros H1 H2 k. rewrite (H1 k). apply H2.
  Qed.

  Lemma kstep_unfold acc kx :
    kstep acc kx = (v <- g (zlookup (fst kx) acc) (snd kx) ;; Ok (zupdate (fst kx) v acc)).
  Proof. reflexivity. Qed.

  Lemma mfold_kstep_equiv l : forall a b, zequiv a b -> res_rel (mfold kstep l a) (mfold kstep l b).
  Proof.
    induction l as [|x r IH]; intros a b H; cbn [mfold]; [exact H|].
    rewrite (kstep_unfold a x), (kstep_unfold b x), (H (fst x)).
    destruct (g (zlookup (fst x) b) (snd x)) as [v| |]; cbn [bind res_rel]; try exact I.
    apply IH. apply zequiv_update. exact H.
  Qed.

  Lemma keyed_rebuild_perm l l' :
    Permutation l l' -> NoDup (map fst l) ->
    forall a b, zequiv a b -> res_rel (mfold kstep l a) (mfold kstep l' b).
  Proof.
    induction 1 as [|x l l' Hp IH|x y l|l l' l'' Hp1 IH1 Hp2 IH2]; intros Hn a b Hab.
    - exact Hab.
    - cbn [mfold]. rewrite (kstep_unfold a x), (kstep_unfold b x), (Hab (fst x)).
      destruct (g (zlookup (fst x) b) (snd x)) as [v| |]; cbn [bind res_rel]; try exact I.
      apply IH; [cbn [map] in Hn; inversion Hn; assumption|]. apply zequiv_update. exact Hab.
    - (* swap: distinct keys *)
      cbn [map] in Hn. inversion Hn as [|? ? Hnin Hn']; subst.
      assert (Hne : fst y <> fst x) by (intros E; apply Hnin; left; symmetry; exact E).
      assert (Hne' : fst x <> fst y) by (intros E; apply Hne; symmetry; exact E).
      cbn [mfold].
      rewrite (kstep_unfold a y), (kstep_unfold b x), (Hab (fst y)).
      destruct (g (zlookup (fst y) b) (snd y)) as [vy| |] eqn:Ey;
        destruct (g (zlookup (fst x) b) (snd x)) as [vx| |] eqn:Ex; cbn [bind];
        try rewrite (kstep_unfold (zupdate (fst y) vy a) x);
        try rewrite (kstep_unfold (zupdate (fst x) vx b) y);
        rewrite ?(zlookup_zupdate_neq (fst x) (fst y)) by exact Hne';
        rewrite ?(zlookup_zupdate_neq (fst y) (fst x)) by exact Hne;
        rewrite ?(Hab (fst x)), ?Ex, ?Ey; cbn [bind res_rel]; try exact I.
      apply mfold_kstep_equiv. intros k.
      destruct (Z.eq_dec k (fst x)) as [->|Hkx].
      + rewrite zlookup_zupdate_eq, (zlookup_zupdate_neq (fst x) (fst y)) by exact Hne'.
        rewrite zlookup_zupdate_eq. reflexivity.
      + rewrite (zlookup_zupdate_neq k (fst x)) by exact Hkx.
        destruct (Z.eq_dec k (fst y)) as [->|Hky].
        * rewrite !zlookup_zupdate_eq. reflexivity.
        * rewrite !zlookup_zupdate_neq by assumption. apply Hab.
    - apply res_rel_trans with (r2 := mfold kstep l' a).
      + apply IH1; [exact Hn|]. intros k. reflexivity.
      + apply IH2; [|exact Hab].
        eapply Permutation_NoDup; [apply Permutation_map; exact Hp1|exact Hn].
  Qed.
End Keyed.

(* what is printed of a keyed accumulator: entries looked up by sorted key *)
Definition zview (r : list (Z * Qc)) : list (Z * Qc) :=
  map (fun y => (y, match zlookup y r with Some v => v | None => 0%Qc end)) (zsort (map fst r)).

Lemma zlookup_in_keys {V} k (l : list (Z * V)) : In k (map fst l) <-> exists v, zlookup k l = Some v.
Proof.
  split.
  - induction l as [|[k' v'] r IH]; cbn [map fst zlookup]; [intros []|].
    intros [E|Hin]; destruct (Z.eqb_spec k k') as [->|Hne]; eauto; congruence.
  - intros [v Hv]. apply zlookup_some_in in Hv. change k with (fst (k, v)). apply in_map. exact Hv.
Qed.

Lemma zview_equiv r r' :
  (forall k, zlookup k r = zlookup k r') -> NoDup (map fst r) -> NoDup (map fst r') -> zview r = zview r'.
Proof.
  intros H Hn Hn'. unfold zview.
  assert (Hp : Permutation (map fst r) (map fst r')).
  { apply NoDup_Permutation; try assumption. intros k. rewrite !zlookup_in_keys, (H k). reflexivity. }
  rewrite (zsort_perm_eq _ _ Hp). apply map_ext. intros y. rewrite (H y). reflexivity.
Qed.

Lemma kstep_nodup {V X} (g : option V -> X -> res V) acc kx acc' :
  NoDup (map fst acc) -> kstep g acc kx = Ok acc' -> NoDup (map fst acc').
Proof.
  intros Hn H. unfold kstep in H. destruct (g (zlookup (fst kx) acc) (snd kx)); cbn [bind] in H; try discriminate.
  inversion H; subst. apply zupdate_nodup. exact Hn.
Qed.
Lemma mfold_kstep_nodup {V X} (g : option V -> X -> res V) l : forall acc acc',
  NoDup (map fst acc) -> mfold (kstep g) l acc = Ok acc' -> NoDup (map fst acc').
Proof.
  induction l as [|x r IH]; intros acc acc' Hn H; cbn [mfold] in H.
  - inversion H; subst. exact Hn.
  - destruct (kstep g acc x) as [a1| |] eqn:E; cbn [bind] in H; try discriminate.
    eapply IH; [|exact H]. eapply kstep_nodup; eassumption.
Qed.

(* cumulative_gains.rs: the per-year accumulation of one security's map *)
Definition year_g (A : arith) (o : option Qc) (g : Qc) : res Qc :=
  a_add A (match o with Some v => v | None => 0%Qc end) g.
Lemma year_acc_kstep A acc yg : year_acc A acc yg = kstep (year_g A) acc yg.
Proof. destruct yg. reflexivity. Qed.
Lemma mfold_ext {S X} (f f' : S -> X -> res S) :
  (forall s x, f s x = f' s x) -> forall l s, mfold f l s = mfold f' l s.
Proof.
  intros H. induction l as [|x r IH]; intros s; cbn [mfold]; [reflexivity|].
  rewrite H. destruct (f' s x); cbn [bind]; try reflexivity. apply IH.
Qed.

Lemma year_acc_perm A ys ys' acc :
  NoDup (map fst ys) -> Permutation ys ys' -> NoDup (map fst acc) ->
  match mfold (year_acc A) ys acc, mfold (year_acc A) ys' acc with
  | Ok r, Ok r' => zview r = zview r'
  | Ok _, _ | _, Ok _ => False
  | _, _ => True
  end.
Proof.
  intros Hn Hp Ha. rewrite !(mfold_ext _ _ (year_acc_kstep A)).
  assert (H := keyed_rebuild_perm (year_g A) ys ys' Hp Hn acc acc (fun k => eq_refl)).
  unfold res_rel in H.
  destruct (mfold (kstep (year_g A)) ys acc) as [r| |] eqn:E1;
    destruct (mfold (kstep (year_g A)) ys' acc) as [r'| |] eqn:E2; try exact H; try exact I.
  apply zview_equiv; [exact H| |]; eapply mfold_kstep_nodup; eassumption.
Qed.

(* ------------------------------------------------------------------ *)
(* aggregate gains under exact arithmetic: grouped sums, any order       *)

Definition zval (y : Z) (l : list (Z * Qc)) : Qc := match zlookup y l with Some v => v | None => 0%Qc end.
Definition has_year (y : Z) (L : list (Z * Qc)) : bool := existsb (fun yg => Z.eqb (fst yg) y) L.
Definition ysum (y : Z) (L : list (Z * Qc)) : Qc :=
  qtotal (map snd (filter (fun yg => Z.eqb (fst yg) y) L)).

Lemma year_fold_exact L : forall acc,
  exists r, mfold (year_acc exact) L acc = Ok r /\
            (forall y, zlookup y r = if has_year y L then Some (zval y acc + ysum y L)%Qc else zlookup y acc) /\
            (NoDup (map fst acc) -> NoDup (map fst r)).
Proof.
  induction L as [|[y0 g0] L IH]; intros acc.
  - exists acc. split; [reflexivity|]. split; [intros y; reflexivity|tauto].
  - cbn [mfold]. unfold year_acc at 1. cbn [a_add exact bind]. fold (zval y0 acc).
    destruct (IH (zupdate y0 (zval y0 acc + g0)%Qc acc)) as [r [E [Hl Hn]]].
    exists r. split; [exact E|]. split.
    + intros y. rewrite Hl. unfold has_year, ysum. cbn [existsb filter fst].
      fold (has_year y L). fold (ysum y L).
      destruct (Z.eqb_spec y0 y) as [->|Hne]; cbn [orb].
      * unfold zval at 1. rewrite zlookup_zupdate_eq.
        cbn [map snd qtotal fold_right]. fold (qtotal (map snd (filter (fun yg => Z.eqb (fst yg) y) L))).
        fold (ysum y L). destruct (has_year y L) eqn:Eh.
        -- f_equal. ring.
        -- f_equal. unfold ysum. assert (Hnil : filter (fun yg : Z * Qc => fst yg =? y) L = []).
           { destruct (filter (fun yg : Z * Qc => fst yg =? y) L) as [|a t] eqn:Ef; [reflexivity|].
             exfalso. assert (Hin : In a (a :: t)) by (left; reflexivity). rewrite <- Ef in Hin.
             apply filter_In in Hin. destruct Hin as [Hin Ha].
             assert (has_year y L = true) by (unfold has_year; apply existsb_exists; eauto).
             congruence. }
           fold (ysum y L). unfold ysum. rewrite Hnil. cbn. ring.
      * unfold zval at 1. rewrite zlookup_zupdate_neq by (intros E'; apply Hne; symmetry; exact E').
        fold (zval y acc). destruct (has_year y L); reflexivity.
    + intros Ha. apply Hn. apply zupdate_nodup. exact Ha.
Qed.

Lemma mfold_app_ho {S X} (f : S -> X -> res S) l l' s :
  mfold f (l ++ l') s = (s' <- mfold f l s ;; mfold f l' s').
Proof.
  revert s. induction l as [|x r IH]; intros s; cbn [app mfold bind]; [reflexivity|].
  destruct (f s x); cbn [bind]; try reflexivity. apply IH.
Qed.

Definition all_years (m : list (N * (Qc * list (Z * Qc)))) : list (Z * Qc) :=
  flat_map (fun e => snd (snd e)) m.

Lemma gains_exact_unfold m : forall tot years,
  exists r, mfold (gains_step exact) m (tot, years) = Ok ((tot + qtotal (map (fun e => fst (snd e)) m))%Qc, r) /\
            mfold (year_acc exact) (all_years m) years = Ok r.
Proof.
  induction m as [|[k [g ys]] m IH]; intros tot years.
  - exists years. cbn [mfold map qtotal fold_right all_years flat_map]. split; [f_equal; f_equal; ring|reflexivity].
  - cbn [mfold]. unfold gains_step at 1. cbn [a_add exact bind].
    destruct (year_fold_exact ys years) as [y1 [E1 _]]. rewrite E1. cbn [bind].
    destruct (IH (tot + g)%Qc y1) as [r [E2 E3]]. exists r. split.
    + rewrite E2. f_equal. f_equal. cbn [map fst snd qtotal fold_right].
      fold (qtotal (map (fun e : N * (Qc * list (Z * Qc)) => fst (snd e)) m)). ring.
    + unfold all_years. cbn [flat_map snd]. rewrite mfold_app_ho. fold (all_years m). rewrite E1. cbn [bind]. exact E3.
Qed.

Lemma filter_perm {X} (f : X -> bool) l l' : Permutation l l' -> Permutation (filter f l) (filter f l').
Proof.
  induction 1 as [|x l l' _ IH|x y l|l l' l'' _ IH1 _ IH2]; cbn [filter].
  - constructor.
  - destruct (f x); [constructor|]; exact IH.
  - destruct (f x), (f y); try reflexivity. apply perm_swap.
  - eapply Permutation_trans; eassumption.
Qed.
Lemma existsb_perm {X} (f : X -> bool) l l' : Permutation l l' -> existsb f l = existsb f l'.
Proof.
  induction 1 as [|x l l' _ IH|x y l|l l' l'' _ IH1 _ IH2]; cbn [existsb].
  - reflexivity.
  - rewrite IH. reflexivity.
  - destruct (f x), (f y); reflexivity.
  - congruence.
Qed.
Lemma flat_map_perm {X Y} (f : X -> list Y) l l' : Permutation l l' -> Permutation (flat_map f l) (flat_map f l').
Proof.
  induction 1 as [|x l l' _ IH|x y l|l l' l'' _ IH1 _ IH2]; cbn [flat_map].
  - constructor.
  - apply Permutation_app_head. exact IH.
  - rewrite !app_assoc. apply Permutation_app_tail. apply Permutation_app_comm.
  - eapply Permutation_trans; eassumption.
Qed.

(* cumulative_gains.rs calc_cumulative_capital_gains under exact arithmetic:
   the printed total and per-year totals do not depend on the order in which
   the securities' entries are visited (grouped commutative sums) *)
Lemma gains_exact_perm m m' : Permutation m m' -> gains_out exact m = gains_out exact m'.
Proof.
  intros Hp. unfold gains_out, gains_in_order.
  destruct (gains_exact_unfold m 0%Qc []) as [r [E Er]].
  destruct (gains_exact_unfold m' 0%Qc []) as [r' [E' Er']].
  rewrite E, E'. cbn [bind]. f_equal. unfold gains_view. cbn [fst snd]. f_equal.
  - f_equal. apply qtotal_perm. apply Permutation_map. exact Hp.
  - destruct (year_fold_exact (all_years m) []) as [r1 [E1 [Hl1 Hn1]]].
    destruct (year_fold_exact (all_years m') []) as [r2 [E2 [Hl2 Hn2]]].
    rewrite Er in E1. rewrite Er' in E2. inversion E1; inversion E2; subst r1 r2.
    change (zview r = zview r'). apply zview_equiv; [|apply Hn1; constructor|apply Hn2; constructor].
    assert (Hpy : Permutation (all_years m) (all_years m')) by (apply flat_map_perm; exact Hp).
    intros y. rewrite Hl1, Hl2. unfold has_year, ysum.
    rewrite (existsb_perm _ _ _ Hpy).
    rewrite (qtotal_perm _ _ (Permutation_map snd (filter_perm (fun yg => Z.eqb (fst yg) y) _ _ Hpy))).
    reflexivity.
Qed.
