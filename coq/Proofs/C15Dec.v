(* C15 under rust_decimal rounding: a split inserted into a history, with the
   later rows restated, changes the ROUNDED ledger's cost bases and gains by at
   most the sum of the two accumulated rounding bounds.

   Composition of two proved facts:
   * exact arithmetic: the later rows keep their gain and cost base
     (Proofs/C15Full.v [inserted_split]: exact rows ds1 ++ ds2 against
     ds1 ++ dss ++ map (sc_delta f) ds2);
   * both histories in the accumulation class: row i of the rounded ledger is
     within (i+1) * cR k of row i of the exact ledger
     (Proofs/DecAccumulate.v [run_error_accumulates]). *)
From Coq Require Import List NArith ZArith QArith Qcanon Bool Lia.
From ACB Require Import Base.Outcome Base.QcExtra Base.Fit Base.Arith Model.Tx Model.Ledger Model.Sfl
     Model.DeltaList Proofs.Tactics Proofs.C15Scale Proofs.C15Run Proofs.C15Full
     Proofs.DecRowError Proofs.DecAccumulate.
Import ListNotations.
Local Open Scope Qc_scope.

(* the money figures of two report rows: gain and total cost base *)
Definition money_close (e : Qc) (d d' : delta) : Prop :=
  qclose e (d_gain d) (d_gain d') /\ qclose e (s_acb (d_post d)) (s_acb (d_post d')).

Lemma qclose_tri e1 e2 a b c : qclose e1 a b -> qclose e2 c b -> qclose (e1 + e2) a c.
Proof.
  destruct a as [x|], b as [y|], c as [z|]; cbn [qclose]; try tauto.
  intros [H1 H2] [H3 H4]. split; qc_lra.
Qed.

Lemma money_via_exact e1 e2 f dd de dd' :
  fig_close e1 dd de -> fig_close e2 dd' (sc_delta f de) -> money_close (e1 + e2) dd dd'.
Proof.
  intros [(_ & _ & A1) G1] [(_ & _ & A2) G2]. split.
  - exact (qclose_tri e1 e2 _ _ _ G1 G2).
  - exact (qclose_tri e1 e2 _ _ _ A1 A2).
Qed.

Theorem dec_split_neutral_bound (k : nat) f dS regof Sp pre post dA oA eA oeA dB oB eB oeB :
  (2 * k + 2 <= 28)%nat ->
  0 < f ->
  Forall (fsplit f dS) Sp -> NoDup (ids_of Sp) ->
  Forall (fun x => In (af_id (t_af x)) (ids_of Sp) /\ goodaf regof (t_af x)) (pre ++ Sp ++ post) ->
  Forall (fun x => (t_sd x <= dS)%Z) pre -> Forall (fun x => (dS <= t_sd x)%Z) post ->
  Forall no_int_only post ->
  Forall (fun t => valid_tx t = true) (pre ++ post) ->
  Forall (fun t => valid_tx t = true) (pre ++ Sp ++ map (scale_tx f) post) ->
  run dec None (pre ++ post) = (dA, oA) -> run exact None (pre ++ post) = (eA, oeA) ->
  in_class k dA eA = true ->
  run dec None (pre ++ Sp ++ map (scale_tx f) post) = (dB, oB) ->
  run exact None (pre ++ Sp ++ map (scale_tx f) post) = (eB, oeB) ->
  in_class k dB eB = true ->
  exists ds1 ds2 dss,
    eA = ds1 ++ ds2 /\ eB = ds1 ++ dss ++ map (sc_delta f) ds2 /\ oeA = oeB /\ Forall neutral dss /\
    (forall i dd dd', (i < length ds1)%nat -> nth_error dA i = Some dd -> nth_error dB i = Some dd' ->
       money_close (QcZ (Z.of_nat (S i)) * cR k + QcZ (Z.of_nat (S i)) * cR k) dd dd') /\
    (forall j dd dd', (j < length ds2)%nat ->
       nth_error dA (length ds1 + j) = Some dd -> nth_error dB (length ds1 + length dss + j) = Some dd' ->
       money_close (QcZ (Z.of_nat (S (length ds1 + j))) * cR k
                    + QcZ (Z.of_nat (S (length ds1 + length dss + j))) * cR k) dd dd').
Proof.
  intros Hk Hf HS Hnd HP Hpre Hpost Hio VA VB RdA ReA CA RdB ReB CB.
  destruct (inserted_split f dS regof Sp pre post Hf HS Hnd HP Hpre Hpost Hio) as (ds1 & ds2 & dss & o & E1 & E2 & Hn & _).
  rewrite E1 in ReA. inversion ReA; subst eA oeA. rewrite E2 in ReB. inversion ReB; subst eB oeB.
  exists ds1, ds2, dss. split; [reflexivity|]. split; [reflexivity|]. split; [reflexivity|]. split; [exact Hn|].
  split.
  - intros i dd dd' Hi NA NB.
    destruct (nth_error ds1 i) as [de|] eqn:Ne; [|apply nth_error_None in Ne; lia].
    assert (NeA : nth_error (ds1 ++ ds2) i = Some de) by (rewrite nth_error_app1; assumption).
    assert (NeB : nth_error (ds1 ++ dss ++ map (sc_delta f) ds2) i = Some de) by (rewrite nth_error_app1; assumption).
    pose proof (run_error_accumulates k None (pre ++ post) dA oA _ _ Hk VA RdA E1 CA i dd de NA NeA) as F1.
    pose proof (run_error_accumulates k None _ dB oB _ _ Hk VB RdB E2 CB i dd' de NB NeB) as F2.
    destruct F1 as [(_ & _ & A1) G1]. destruct F2 as [(_ & _ & A2) G2]. split.
    + exact (qclose_tri _ _ _ _ _ G1 G2).
    + exact (qclose_tri _ _ _ _ _ A1 A2).
  - intros j dd dd' Hj NA NB.
    destruct (nth_error ds2 j) as [de|] eqn:Ne; [|apply nth_error_None in Ne; lia].
    assert (NeA : nth_error (ds1 ++ ds2) (length ds1 + j) = Some de).
    { rewrite nth_error_app2 by lia. replace (length ds1 + j - length ds1)%nat with j by lia. exact Ne. }
    assert (NeB : nth_error (ds1 ++ dss ++ map (sc_delta f) ds2) (length ds1 + length dss + j) = Some (sc_delta f de)).
    { rewrite nth_error_app2 by lia. replace (length ds1 + length dss + j - length ds1)%nat with (length dss + j)%nat by lia.
      rewrite nth_error_app2 by lia. replace (length dss + j - length dss)%nat with j by lia.
      apply map_nth_error. exact Ne. }
    pose proof (run_error_accumulates k None (pre ++ post) dA oA _ _ Hk VA RdA E1 CA _ dd de NA NeA) as F1.
    pose proof (run_error_accumulates k None _ dB oB _ _ Hk VB RdB E2 CB _ dd' _ NB NeB) as F2.
    exact (money_via_exact _ _ f dd de dd' F1 F2).
Qed.
