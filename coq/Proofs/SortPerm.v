(* Insertion sorts of the model (zsort, nsort, ksort): the result is sorted,
   a permutation of the input, and the same for every permutation of the
   input (uniqueness of sorted lists for a total order). *)
From Coq Require Import List NArith ZArith Bool Lia Permutation Sorting.Sorted.
From ACB Require Import Model.Tx Model.Costs Model.HashSites.
Import ListNotations.

Section GSort.
  Context {X : Type} (leb : X -> X -> bool).
  Hypothesis leb_total : forall a b, leb a b = false -> leb b a = true.
  Hypothesis leb_trans : forall a b c, leb a b = true -> leb b c = true -> leb a c = true.

  Fixpoint ginsert (x : X) (l : list X) : list X :=
    match l with
    | [] => [x]
    | h :: r => if leb x h then x :: l else h :: ginsert x r
    end.
  Definition gsort (l : list X) : list X := fold_right ginsert [] l.

  Definition le (a b : X) : Prop := leb a b = true.

  Lemma ginsert_perm x l : Permutation (ginsert x l) (x :: l).
  Proof.
    induction l as [|h r IH]; cbn [ginsert]; [reflexivity|].
    destruct (leb x h); [reflexivity|].
    rewrite IH. apply perm_swap.
  Qed.

  Lemma gsort_perm l : Permutation (gsort l) l.
  Proof.
    induction l as [|h r IH]; cbn [gsort fold_right]; [reflexivity|].
    fold (gsort r). rewrite ginsert_perm. constructor. exact IH.
  Qed.

  Lemma ginsert_sorted x l : StronglySorted le l -> StronglySorted le (ginsert x l).
  Proof.
    induction l as [|h r IH]; intros Hs; cbn [ginsert].
    - repeat constructor.
    - inversion Hs as [|h' r' Hr Hall]; subst.
      destruct (leb x h) eqn:E.
      + constructor; [exact Hs|]. constructor; [exact E|].
        eapply Forall_impl; [|exact Hall]. intros c Hc. unfold le in *. eauto.
      + constructor; [apply IH; exact Hr|].
        assert (Hp : Permutation (ginsert x r) (x :: r)) by apply ginsert_perm.
        apply Permutation_sym in Hp.
        eapply Permutation_Forall; [exact Hp|]. constructor; [apply leb_total; exact E|exact Hall].
  Qed.

  Lemma gsort_sorted l : StronglySorted le (gsort l).
  Proof.
    induction l as [|h r IH]; cbn [gsort fold_right]; [constructor|].
    apply ginsert_sorted. exact IH.
  Qed.

  (* two sorted permutations of each other are equal when the order is
     antisymmetric on their elements *)
  Lemma sorted_unique l : forall l',
    StronglySorted le l -> StronglySorted le l' -> Permutation l l' ->
    (forall a b, In a l -> In b l -> le a b -> le b a -> a = b) -> l = l'.
  Proof.
    induction l as [|a t IH]; intros l' Hs Hs' Hp Hanti.
    - apply Permutation_nil in Hp. subst. reflexivity.
    - destruct l' as [|b t'].
      + apply Permutation_sym, Permutation_nil in Hp. discriminate.
      + inversion Hs as [|? ? Hst Hat]; subst. inversion Hs' as [|? ? Hst' Hbt']; subst.
        assert (Hab : a = b).
        { assert (Ha : In a (b :: t')) by (eapply Permutation_in; [exact Hp|left; reflexivity]).
          assert (Hb : In b (a :: t)) by (eapply Permutation_in; [apply Permutation_sym; exact Hp|left; reflexivity]).
          destruct Ha as [Ha|Ha]; [symmetry; exact Ha|].
          destruct Hb as [Hb|Hb]; [exact Hb|].
          apply Hanti; [left; reflexivity|right; exact Hb| |].
          - rewrite Forall_forall in Hat. apply Hat. exact Hb.
          - rewrite Forall_forall in Hbt'. apply Hbt'. exact Ha. }
        subst b. f_equal.
        apply IH; [exact Hst|exact Hst'|eapply Permutation_cons_inv; exact Hp|].
        intros x y Hx Hy. apply Hanti; right; assumption.
  Qed.

  Lemma gsort_perm_eq l l' :
    Permutation l l' ->
    (forall a b, In a l -> In b l -> le a b -> le b a -> a = b) ->
    gsort l = gsort l'.
  Proof.
    intros Hp Hanti. apply sorted_unique; try apply gsort_sorted.
    - rewrite !gsort_perm. exact Hp.
    - intros a b Ha Hb. apply Hanti; eapply Permutation_in; try apply gsort_perm; assumption.
  Qed.
End GSort.

(* ---- days / years ---- *)
Lemma zsort_gsort l : zsort l = gsort Z.leb l.
Proof.
  unfold zsort, gsort. induction l as [|h r IH]; cbn [fold_right]; [reflexivity|].
  rewrite IH. generalize (fold_right (ginsert Z.leb) [] r). intros m.
  induction m as [|x m IHm]; cbn [zinsert ginsert]; [reflexivity|]. rewrite IHm. reflexivity.
Qed.
Lemma zleb_total a b : Z.leb a b = false -> Z.leb b a = true.
Proof. intros H. apply Z.leb_gt in H. apply Z.leb_le. lia. Qed.
Lemma zleb_trans a b c : Z.leb a b = true -> Z.leb b c = true -> Z.leb a c = true.
Proof. rewrite !Z.leb_le. lia. Qed.

Lemma zsort_perm l : Permutation (zsort l) l.
Proof. rewrite zsort_gsort. apply gsort_perm. Qed.
Lemma zsort_sorted l : StronglySorted Z.le (zsort l).
Proof.
  rewrite zsort_gsort.
  assert (H := gsort_sorted Z.leb zleb_total zleb_trans l).
  induction H as [|a t Hs IH Hall]; constructor; [exact IH|].
  eapply Forall_impl; [|exact Hall]. intros c Hc. apply Z.leb_le. exact Hc.
Qed.
Lemma zsort_perm_eq l l' : Permutation l l' -> zsort l = zsort l'.
Proof.
  intros Hp. rewrite !zsort_gsort. apply (gsort_perm_eq Z.leb zleb_total zleb_trans); [exact Hp|].
  intros a b _ _ H1 H2. unfold le in *. apply Z.leb_le in H1, H2. lia.
Qed.
Lemma zsort_in x l : In x (zsort l) <-> In x l.
Proof.
  split; intros H; eapply Permutation_in; try eassumption;
    [apply zsort_perm | apply Permutation_sym, zsort_perm].
Qed.

(* ---- securities / affiliates ---- *)
Lemma nsort_gsort l : nsort l = gsort N.leb l.
Proof.
  unfold nsort, gsort. induction l as [|h r IH]; cbn [fold_right]; [reflexivity|].
  rewrite IH. generalize (fold_right (ginsert N.leb) [] r). intros m.
  induction m as [|x m IHm]; cbn [ninsert ginsert]; [reflexivity|]. rewrite IHm. reflexivity.
Qed.
Lemma nleb_total a b : N.leb a b = false -> N.leb b a = true.
Proof. intros H. apply N.leb_gt in H. apply N.leb_le. lia. Qed.
Lemma nleb_trans a b c : N.leb a b = true -> N.leb b c = true -> N.leb a c = true.
Proof. rewrite !N.leb_le. lia. Qed.

Lemma nsort_perm l : Permutation (nsort l) l.
Proof. rewrite nsort_gsort. apply gsort_perm. Qed.
Lemma nsort_sorted l : StronglySorted N.le (nsort l).
Proof.
  rewrite nsort_gsort.
  assert (H := gsort_sorted N.leb nleb_total nleb_trans l).
  induction H as [|a t Hs IH Hall]; constructor; [exact IH|].
  eapply Forall_impl; [|exact Hall]. intros c Hc. apply N.leb_le. exact Hc.
Qed.
Lemma nsort_perm_eq l l' : Permutation l l' -> nsort l = nsort l'.
Proof.
  intros Hp. rewrite !nsort_gsort. apply (gsort_perm_eq N.leb nleb_total nleb_trans); [exact Hp|].
  intros a b _ _ H1 H2. unfold le in *. apply N.leb_le in H1, H2. lia.
Qed.
Lemma nsort_in x l : In x (nsort l) <-> In x l.
Proof.
  split; intros H; eapply Permutation_in; try eassumption;
    [apply nsort_perm | apply Permutation_sym, nsort_perm].
Qed.

(* ---- association lists sorted by distinct keys ---- *)
Definition kleb {V : Type} (a b : N * V) : bool := N.leb (fst a) (fst b).
Lemma ksort_gsort {V} (l : list (N * V)) : ksort l = gsort kleb l.
Proof.
  unfold ksort, gsort. induction l as [|h r IH]; cbn [fold_right]; [reflexivity|].
  rewrite IH. generalize (fold_right (ginsert kleb) [] r). intros m.
  induction m as [|x m IHm]; cbn [kinsert ginsert]; [reflexivity|].
  unfold kleb at 1. rewrite IHm. reflexivity.
Qed.

Lemma NoDup_map_inj {X Y} (f : X -> Y) l a b :
  NoDup (map f l) -> In a l -> In b l -> f a = f b -> a = b.
Proof.
  induction l as [|h r IH]; intros Hn Ha Hb E; [destruct Ha|].
  cbn [map] in Hn. inversion Hn as [|? ? Hnin Hn']; subst.
  destruct Ha as [Ha|Ha], Hb as [Hb|Hb]; subst.
  - reflexivity.
  - exfalso. apply Hnin. rewrite E. apply in_map. exact Hb.
  - exfalso. apply Hnin. rewrite <- E. apply in_map. exact Ha.
  - apply IH; assumption.
Qed.

Lemma ksort_perm {V} (l : list (N * V)) : Permutation (ksort l) l.
Proof. rewrite ksort_gsort. apply gsort_perm. Qed.

Lemma ksort_perm_eq {V} (l l' : list (N * V)) :
  NoDup (map fst l) -> Permutation l l' -> ksort l = ksort l'.
Proof.
  intros Hn Hp. rewrite !ksort_gsort. apply gsort_perm_eq.
  - intros a b H. unfold kleb in *. apply nleb_total. exact H.
  - intros a b c. unfold kleb. apply nleb_trans.
  - exact Hp.
  - intros a b Ha Hb H1 H2. unfold le, kleb in *. apply N.leb_le in H1, H2.
    apply (NoDup_map_inj fst l); try assumption. lia.
Qed.

(* lookups do not depend on the order of an association list with distinct keys *)
Lemma alookup_in {V} k (v : V) l : NoDup (map fst l) -> In (k, v) l -> alookup k l = Some v.
Proof.
  induction l as [|[k' v'] r IH]; intros Hn Hin; [destruct Hin|].
  cbn [map fst] in Hn. inversion Hn as [|? ? Hnin Hn']; subst.
  cbn [alookup]. destruct Hin as [Hin|Hin].
  - inversion Hin; subst. rewrite N.eqb_refl. reflexivity.
  - destruct (N.eqb_spec k k') as [->|Hne].
    + exfalso. apply Hnin. change k' with (fst (k', v)). apply in_map. exact Hin.
    + apply IH; assumption.
Qed.
Lemma alookup_none {V} k (l : list (N * V)) : ~ In k (map fst l) -> alookup k l = None.
Proof.
  induction l as [|[k' v'] r IH]; intros Hn; [reflexivity|].
  cbn [alookup]. destruct (N.eqb_spec k k') as [->|Hne].
  - exfalso. apply Hn. left. reflexivity.
  - apply IH. intros H. apply Hn. right. exact H.
Qed.
Lemma alookup_some_in {V} k (v : V) l : alookup k l = Some v -> In (k, v) l.
Proof.
  induction l as [|[k' v'] r IH]; cbn [alookup]; [discriminate|].
  destruct (N.eqb_spec k k') as [->|Hne]; intros H.
  - inversion H; subst. left. reflexivity.
  - right. apply IH. exact H.
Qed.
Lemma alookup_perm {V} k (l l' : list (N * V)) :
  NoDup (map fst l) -> Permutation l l' -> alookup k l = alookup k l'.
Proof.
  intros Hn Hp.
  assert (Hn' : NoDup (map fst l')) by (eapply Permutation_NoDup; [apply Permutation_map; exact Hp|exact Hn]).
  destruct (alookup k l) as [v|] eqn:E.
  - symmetry. apply alookup_in; [exact Hn'|]. eapply Permutation_in; [exact Hp|]. apply alookup_some_in. exact E.
  - destruct (alookup k l') as [v'|] eqn:E'; [|reflexivity].
    apply alookup_some_in in E'. apply Permutation_sym in Hp.
    assert (Hin : In (k, v') l) by (eapply Permutation_in; eassumption).
    rewrite (alookup_in k v' l Hn Hin) in E. discriminate.
Qed.

Lemma zlookup_in {V} k (v : V) l : NoDup (map fst l) -> In (k, v) l -> zlookup k l = Some v.
Proof.
  induction l as [|[k' v'] r IH]; intros Hn Hin; [destruct Hin|].
  cbn [map fst] in Hn. inversion Hn as [|? ? Hnin Hn']; subst.
  cbn [zlookup]. destruct Hin as [Hin|Hin].
  - inversion Hin; subst. rewrite Z.eqb_refl. reflexivity.
  - destruct (Z.eqb_spec k k') as [->|Hne].
    + exfalso. apply Hnin. change k' with (fst (k', v)). apply in_map. exact Hin.
    + apply IH; assumption.
Qed.
Lemma zlookup_some_in {V} k (v : V) l : zlookup k l = Some v -> In (k, v) l.
Proof.
  induction l as [|[k' v'] r IH]; cbn [zlookup]; [discriminate|].
  destruct (Z.eqb_spec k k') as [->|Hne]; intros H.
  - inversion H; subst. left. reflexivity.
  - right. apply IH. exact H.
Qed.
Lemma zlookup_none {V} k (l : list (Z * V)) : ~ In k (map fst l) -> zlookup k l = None.
Proof.
  induction l as [|[k' v'] r IH]; intros Hn; [reflexivity|].
  cbn [zlookup]. destruct (Z.eqb_spec k k') as [->|Hne].
  - exfalso. apply Hn. left. reflexivity.
  - apply IH. intros H. apply Hn. right. exact H.
Qed.
Lemma zlookup_perm {V} k (l l' : list (Z * V)) :
  NoDup (map fst l) -> Permutation l l' -> zlookup k l = zlookup k l'.
Proof.
  intros Hn Hp.
  assert (Hn' : NoDup (map fst l')) by (eapply Permutation_NoDup; [apply Permutation_map; exact Hp|exact Hn]).
  destruct (zlookup k l) as [v|] eqn:E.
  - symmetry. apply zlookup_in; [exact Hn'|]. eapply Permutation_in; [exact Hp|]. apply zlookup_some_in. exact E.
  - destruct (zlookup k l') as [v'|] eqn:E'; [|reflexivity].
    apply zlookup_some_in in E'. apply Permutation_sym in Hp.
    assert (Hin : In (k, v') l) by (eapply Permutation_in; eassumption).
    rewrite (zlookup_in k v' l Hn Hin) in E. discriminate.
Qed.
