(* C04: what the repair "compute the all-affiliate share balance with one
   expression everywhere" guarantees about the sanity check of delta_for_tx
   ("the share balance across all affiliates is lower than the share balance
   for the affiliate") UNDER rust_decimal ROUNDING.

   [all_after dec all old new] = fit (fit (all - old) + new):
   - fit (all - old) >= 0 when old <= all (sign preservation);
   - rounding never crosses a value from above (FitMono.fit_ge_rep), and the
     new share balance of a row is a value (it is itself the result of a
     rounded operation), so the result is >= new:   all' >= share';
   - when old = all (a single affiliate: the others hold nothing) all - old is
     exactly 0 and 0 + new rounds to new itself:     all' = share'. *)
From Coq Require Import List NArith ZArith QArith Qcanon Bool.
From ACB Require Import Base.Outcome Base.QcExtra Base.Fit Base.Arith Model.Tx Model.Ledger Model.Sfl
     Model.DeltaList Proofs.Tactics Proofs.FitProps Proofs.FitMono Proofs.AllAfter Proofs.C04Inv
     Proofs.C02Scan Proofs.C05Sites Proofs.C05Assert Proofs.C04Reject.
Import ListNotations.
Local Open Scope Qc_scope.

Definition is_value (q : Qc) : Prop := fit q = Some q.

Lemma fit_res_ok q r : fit_res q = Ok r -> fit q = Some r.
Proof. unfold fit_res. destruct (fit q); intros H; inversion H; reflexivity. Qed.
Lemma fit_res_value q r : fit_res q = Ok r -> is_value r.
Proof. intros H. apply fit_res_ok in H. exact (fit_idem _ _ H). Qed.

Lemma fit_zero : fit 0 = Some 0.
Proof. apply (fit_exact_int 0). vm_compute. discriminate. Qed.

(* ---- the expression under rounding ---- *)
Theorem all_after_dec_ge a o n r :
  all_after dec a o n = Ok r -> o <= a -> is_value n -> n <= r.
Proof.
  intros H Hoa Hn. apply all_after_ok in H as [[-> ->]|(Hne & oth & Es & Ea)]; [exact Hoa|].
  cbn [a_sub a_add dec] in Es, Ea. apply fit_res_ok in Es. apply fit_res_ok in Ea.
  assert (Hoth : 0 <= oth).
  { apply (proj1 (fit_sign _ _ Es)). clear - Hoa. qc_lra. }
  apply (fit_ge_rep (oth + n) r n Ea Hn). clear - Hoth. qc_lra.
Qed.

Theorem all_after_dec_single a n : is_value n -> all_after dec a a n = Ok n.
Proof.
  intros Hn. unfold all_after. destruct (Qceqb_spec n a) as [->|_]; [reflexivity|].
  cbn [a_sub a_add dec].
  assert (E1 : a - a = 0) by ring. rewrite E1. unfold fit_res at 1. rewrite fit_zero. cbn [bind].
  assert (E2 : 0 + n = n) by ring. rewrite E2. unfold fit_res. unfold is_value in Hn. rewrite Hn. reflexivity.
Qed.

(* ---- the new share balance of a row is the old one or a value ---- *)
Lemma gez_add_dec_value a b r : gez_add dec a b = Ok r -> is_value r.
Proof.
  unfold gez_add. intros H. bind_as H as x E. apply gez_unwrap_ok in H as [-> _].
  exact (fit_res_value _ _ E).
Qed.

Lemma nonsell_share_value t pre d :
  delta_nonsell dec t pre = Ok d -> s_sh (d_post d) = s_sh pre \/ is_value (s_sh (d_post d)).
Proof.
  unfold delta_nonsell. intros H.
  destruct (t_act t) as [n price com rate crate | n price com rate crate sp | amount rate
                        | n amount | post pre_ io].
  - bind_as H as nsh E1. apply gez_add_dec_value in E1.
    bind_as H as r E0. bind_as H as nall E2.
    destruct (s_acb pre).
    + bind_as H as v E3. bind_as H as c E4. bind_as H as pr E5. bind_as H as nacb E6.
      inversion H; subst d; cbn [d_post mk_delta s_sh]. right; exact E1.
    + inversion H; subst d; cbn [d_post mk_delta s_sh]. right; exact E1.
  - discriminate.
  - destruct (s_acb pre); [|destruct (negb _); discriminate].
    destruct (af_reg _); [discriminate|].
    bind_as H as v E1. bind_as H as red E2. bind_as H as nacb E3. destruct (Qcltb _ _); [discriminate|].
    inversion H; subst d; cbn [d_post mk_delta s_sh]. left; reflexivity.
  - destruct (s_acb pre); [|destruct (negb _); discriminate].
    destruct (af_reg _); [discriminate|].
    bind_as H as m E1. bind_as H as amt E2. bind_as H as nacb E3.
    inversion H; subst d; cbn [d_post mk_delta s_sh]. left; reflexivity.
  - bind_as H as m E0. bind_as H as qd E1. bind_as H as nsh E2. apply gez_unwrap_ok in E2 as [-> _].
    bind_as H as nall E3.
    destruct (Qcltb _ _); [discriminate|]. destruct (_ && _); [discriminate|].
    inversion H; subst d; cbn [d_post mk_delta s_sh]. right.
    cbn [a_div dec] in E1. destruct (Qceqb pre_ 0); [discriminate|]. exact (fit_res_value _ _ E1).
Qed.

Lemma sell_core_share_value pre n price com rate crate c :
  sell_core dec pre n price com rate crate = Ok c -> is_value (sc_sh c).
Proof.
  unfold sell_core. intros H.
  bind_as H as nsh E1. cbn [a_sub dec] in E1. apply fit_res_value in E1.
  destruct (Qcltb nsh 0); [discriminate|].
  bind_as H as nall E2. destruct (Qcltb nall 0); [discriminate|].
  bind_as H as maps E3. destruct maps as [acbps|].
  - bind_as H as nacb E4. bind_as H as v E5. bind_as H as cm E6. bind_as H as payout E7.
    bind_as H as cost E8. bind_as H as g E9. inversion H; subst c; cbn [sc_sh]. exact E1.
  - inversion H; subst c; cbn [sc_sh]. exact E1.
Qed.

Lemma delta_share_value bef t aft st d inj :
  delta_for_tx dec bef t aft st = Ok (d, inj) ->
  s_sh (next_pre_status st (t_af t)) <= s_all (next_pre_status st (t_af t)) /\
  (s_sh (d_post d) = s_sh (next_pre_status st (t_af t)) \/ is_value (s_sh (d_post d))).
Proof.
  unfold delta_for_tx. intros H. bind_as H as u Eu.
  split.
  { unfold sanity_check in Eu.
    destruct (Qcltb_spec (s_all (next_pre_status st (t_af t))) (s_sh (next_pre_status st (t_af t)))) as [|Hge];
      [discriminate|]. apply Qcnot_lt_le. exact Hge. }
  destruct (t_act t) as [n price com rate crate | n price com rate crate sp | amount rate
                        | n amount | post pre_ io] eqn:Ea.
  2: { bind_as H as c Ec. apply sell_core_share_value in Ec.
       assert (Hd : s_sh (d_post d) = sc_sh c).
       { destruct (sc_gain c) as [g|].
         - destruct (Qcltb g 0).
           + bind_as H as m Em. destruct m as [[info inj']|]; [bind_as H as g' Eg|]; inversion H; subst; cbn; auto.
           + destruct sp; [discriminate|]. inversion H; subst; cbn; auto.
         - inversion H; subst; cbn; auto. }
       rewrite Hd. right; exact Ec. }
  all: bind_as H as d0 Ed; inversion H; subst d0 inj; clear H;
    apply nonsell_share_value in Ed; exact Ed.
Qed.

(* ---- every row under rounding: the all-affiliate balance of the post status
   is never below the share balance of the row's affiliate.  No hypothesis on
   the state or the row: the sanity check of the row itself (old <= all) is all
   the invariant needed. *)
Theorem row_all_ge_share bef t aft st d inj :
  delta_for_tx dec bef t aft st = Ok (d, inj) -> s_sh (d_post d) <= s_all (d_post d).
Proof.
  intros H. pose proof (delta_all_after_pre dec _ _ _ _ _ _ H) as Ha.
  destruct (delta_share_value _ _ _ _ _ _ H) as [Hle [Hs|Hv]].
  - rewrite Hs in Ha |- *. rewrite all_after_same in Ha. inversion Ha. exact Hle.
  - exact (all_after_dec_ge _ _ _ _ Ha Hle Hv).
Qed.

(* ... and so the NEXT row of the same affiliate, if no other affiliate's row
   came in between, passes the "all-affiliate balance lower than the
   affiliate's" test: the tracker hands back exactly these two numbers *)
Theorem next_row_passes_all_lower bef t aft st d inj st1 :
  delta_for_tx dec bef t aft st = Ok (d, inj) ->
  set_latest dec st (t_af t) (d_post d) = Ok st1 ->
  Qcltb (s_all (next_pre_status st1 (t_af t))) (s_sh (next_pre_status st1 (t_af t))) = false.
Proof.
  intros H Hs. pose proof (row_all_ge_share _ _ _ _ _ _ H) as Hge.
  rewrite (set_latest_after_delta dec _ _ _ _ _ _ H) in Hs.
  destruct (negb (Bool.eqb _ _)); [discriminate|]. inversion Hs; subst st1; clear Hs.
  rewrite next_pre_all, next_pre_sh. unfold last_sh, latest_for. cbn [ps_map ps_all].
  rewrite alookup_aupdate, N.eqb_refl. apply Qcltb_false. exact Hge.
Qed.

(* ---- a single affiliate: no residue at all.  When the pre status has
   all = share (nobody else holds the security) the post status has all' =
   share' EXACTLY, whatever the split factor. *)
Theorem single_affiliate_no_residue bef t aft st d inj :
  delta_for_tx dec bef t aft st = Ok (d, inj) ->
  s_all (next_pre_status st (t_af t)) = s_sh (next_pre_status st (t_af t)) ->
  s_all (d_post d) = s_sh (d_post d).
Proof.
  intros H Heq. pose proof (delta_all_after_pre dec _ _ _ _ _ _ H) as Ha.
  destruct (delta_share_value _ _ _ _ _ _ H) as [_ [Hs|Hv]].
  - rewrite Hs in Ha |- *. rewrite all_after_same in Ha. inversion Ha. exact Heq.
  - rewrite Heq in Ha. rewrite (all_after_dec_single _ _ Hv) in Ha. inversion Ha. reflexivity.
Qed.

(* ---- whole runs of a single affiliate under rounding: on EVERY emitted row
   the all-affiliate balance equals the affiliate's balance, and in every state
   the run reaches the first test of sanity_check_ptfs ("all-affiliate balance
   lower than the affiliate's") is false - whatever splits the history
   contains.  Rows generated for a superficial loss belong to affiliates of
   the input rows (C04Reject.delta_for_tx_inj_P), hence to the same one. *)
Section Single.
  Variable af : aff.
  Definition only (t : tx) : Prop := t_af t = af.
  Definition single_st (st : pstate) : Prop := ps_all st = last_sh st af.

  Lemma single_sanity_passes st :
    single_st st ->
    Qcltb (s_all (next_pre_status st af)) (s_sh (next_pre_status st af)) = false.
  Proof.
    intros Hs. rewrite next_pre_all, next_pre_sh, Hs. apply Qcltb_false. apply Qcle_refl.
  Qed.

  Lemma step_single bef t aft st d inj st1 :
    only t -> single_st st -> delta_for_tx dec bef t aft st = Ok (d, inj) ->
    set_latest dec st (t_af t) (d_post d) = Ok st1 ->
    s_all (d_post d) = s_sh (d_post d) /\ single_st st1.
  Proof.
    intros Ht Hs H Hset.
    assert (Heq : s_all (d_post d) = s_sh (d_post d)).
    { apply (single_affiliate_no_residue _ _ _ _ _ _ H). rewrite next_pre_all, next_pre_sh, Ht. exact Hs. }
    split; [exact Heq|].
    rewrite (set_latest_after_delta dec _ _ _ _ _ _ H) in Hset.
    destruct (negb (Bool.eqb _ _)); [discriminate|]. inversion Hset; subst st1; clear Hset.
    unfold single_st, last_sh, latest_for. cbn [ps_map ps_all]. rewrite Ht.
    rewrite alookup_aupdate, N.eqb_refl. exact Heq.
  Qed.

  Definition row_single (d : delta) : Prop := s_all (d_post d) = s_sh (d_post d).

  Lemma run_injected_single inj : forall bef st aft ds bef' st' o,
    run_injected dec bef st inj aft = (ds, bef', st', o) ->
    single_st st -> Forall only inj -> Forall only bef -> Forall only aft ->
    Forall row_single ds /\ single_st st' /\ Forall only bef'.
  Proof.
    induction inj as [|t inj IH]; intros bef st aft ds bef' st' o H Hs Hi Hb Ha; cbn [run_injected] in H.
    - inversion H; subst. split; [constructor | split; assumption].
    - apply Forall_cons_iff in Hi as [Ht Hi].
      destruct (delta_for_tx dec bef t (inj ++ aft) st) as [[d i]| |] eqn:Ed;
        try (inversion H; subst; split; [constructor | split; assumption]).
      destruct (set_latest dec st (t_af t) (d_post d)) as [st1| |] eqn:Es;
        try (inversion H; subst; split; [constructor | split; assumption]).
      destruct (run_injected dec (t :: bef) st1 inj aft) as [[[ds1 b1] s1] o1] eqn:Er.
      inversion H; subst; clear H.
      destruct (step_single _ _ _ _ _ _ _ Ht Hs Ed Es) as [Hrow Hs1].
      destruct (IH _ _ _ _ _ _ _ Er Hs1 Hi (Forall_cons _ Ht Hb) Ha) as (I1 & I2 & I3).
      split; [constructor; assumption | split; assumption].
  Qed.

  Lemma run_loop_single aft : forall bef st ds o,
    run_loop dec bef st aft = (ds, o) ->
    single_st st -> Forall only aft -> Forall only bef -> Forall row_single ds.
  Proof.
    induction aft as [|t aft IH]; intros bef st ds o H Hs Ha Hb; cbn [run_loop] in H.
    - inversion H; constructor.
    - apply Forall_cons_iff in Ha as [Ht Ha].
      destruct (delta_for_tx dec bef t aft st) as [[d inj]| |] eqn:Ed; try (inversion H; subst; constructor).
      destruct (set_latest dec st (t_af t) (d_post d)) as [st1| |] eqn:Es; try (inversion H; subst; constructor).
      destruct (run_injected dec (t :: bef) st1 inj aft) as [[[dsi b1] st2] o1] eqn:Er.
      destruct (step_single _ _ _ _ _ _ _ Ht Hs Ed Es) as [Hrow Hs1].
      pose proof (delta_for_tx_inj_P (fun a => a = af) dec _ _ _ _ _ _ Ed Hb Ha) as Hinj.
      destruct (run_injected_single inj _ _ _ _ _ _ _ Er Hs1 Hinj (Forall_cons _ Ht Hb) Ha) as (I1 & I2 & I3).
      destruct o1 as [s1|].
      + inversion H; subst. constructor; assumption.
      + destruct (run_loop dec b1 st2 aft) as [ds2 o2] eqn:El. inversion H; subst.
        constructor; [assumption|]. apply Forall_app. split; [assumption|].
        eapply IH; eauto.
  Qed.

  (* from the empty tracker (no opening position), or from an opening position
     of the default affiliate when af is the default affiliate *)
  Theorem run_single_affiliate txs ds o :
    run dec None txs = (ds, o) -> Forall only txs -> Forall row_single ds.
  Proof.
    unfold run. destruct txs as [|t txs]; intros H Ha; [inversion H; constructor|].
    cbn [init_state] in H. eapply run_loop_single; [exact H | | exact Ha | constructor].
    unfold single_st, last_sh, latest_for. reflexivity.
  Qed.
End Single.
