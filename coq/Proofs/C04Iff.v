(* C04: "rejected exactly when impossible", for whole histories, exact
   arithmetic.  The ledger model [run exact] is compared with the declarative
   walk of Spec/Possible.v ([walk], [first_offence]) row by row: one
   simulation lemma gives both directions, because the walk is a function. *)
From Coq Require Import List NArith ZArith QArith Qcanon Bool Lia Sorted.
From ACB Require Import Base.Outcome Base.QcExtra Base.Fit Base.Arith Model.Tx Model.Ledger Model.Sfl
     Model.DeltaList Spec.AvgCost Spec.SflRule Spec.Possible Proofs.Tactics Proofs.C01Refine
     Proofs.C04Inv Proofs.C04Sum Proofs.C02Scan Proofs.C05Sites Proofs.C04Reject Proofs.C04Ahead
     Proofs.C05NoPanic Proofs.EffCent Proofs.AllAfter.
Import ListNotations.
Local Open Scope Qc_scope.

(* ---- the helpers of the specification are those of the model ---- *)
Lemma add_once_eq a l : add_once a l = add_aff a l.
Proof. induction l as [|b l IH]; cbn [add_once add_aff]; [reflexivity|]. rewrite IH. reflexivity. Qed.
Lemma ins_by_id_eq a l : ins_by_id a l = ins_aff a l.
Proof. induction l as [|b l IH]; cbn [ins_by_id ins_aff]; [reflexivity|]. rewrite IH. reflexivity. Qed.
Lemma sort_by_id_eq l : fold_right ins_by_id [] l = sort_affs l.
Proof.
  unfold sort_affs. induction l as [|a l IH]; cbn [fold_right]; [reflexivity|].
  rewrite IH. apply ins_by_id_eq.
Qed.
Lemma all_shares_eq hs : all_shares hs = total_shares hs.
Proof. induction hs as [|[k h] hs IH]; cbn [all_shares total_shares]; [reflexivity|]. rewrite IH. reflexivity. Qed.
Lemma effective_cent_eq x : effective_cent x = eff_cent_val x.
Proof. reflexivity. Qed.

Lemma buyers_in_app w1 w2 acc : buyers_in (w1 ++ w2) acc = buyers_in w2 (buyers_in w1 acc).
Proof. unfold buyers_in. apply fold_left_app. Qed.
Lemma buyers_in_cons x w acc :
  buyers_in (x :: w) acc = buyers_in w (if is_buy (t_act x) then add_aff (t_af x) acc else acc).
Proof. unfold buyers_in. cbn [fold_left]. rewrite add_once_eq. reflexivity. Qed.

Lemma amem_aupdate {V} k k' (v : V) l : amem k (aupdate k' v l) = N.eqb k k' || amem k l.
Proof. unfold amem. rewrite alookup_aupdate. destruct (N.eqb k k'); reflexivity. Qed.

Lemma held_shares st af : fst (held (abs_map (ps_map st)) af) = last_sh st af.
Proof. rewrite held_next_pre. unfold hold_of. cbn [fst]. apply next_pre_sh. Qed.

Lemma valid_split_pos t : valid_tx t = true -> split_pos t.
Proof.
  unfold valid_tx, split_pos. destruct (t_act t); try (intros; exact I).
  cbn [valid_action]. intros H. apply andb_prop in H as [H1 H2]. split; now apply Qcltb_true.
Qed.

(* ---- the two scans, successful case: buyers and per-affiliate balances ---- *)
Section Scans.
  Variable dflt start : aff -> Qc.
  Hypothesis dflt_id : forall af af', af_id af = af_id af' -> dflt af = dflt af'.
  Hypothesis start_id : forall af af', af_id af = af_id af' -> start af = start af'.

  Definition members (s : scan) : Prop :=
    Forall (fun a => amem (af_id a) (sc_active s) = true) (sc_buyers s).

  Lemma members_more s k v eop acq :
    members s ->
    members {| sc_eop := eop; sc_acq := acq; sc_buyers := sc_buyers s;
               sc_active := aupdate k v (sc_active s) |}.
  Proof.
    unfold members. cbn [sc_buyers sc_active]. intros H. eapply Forall_impl; [|exact H].
    intros a Ha. cbv beta in *. rewrite amem_aupdate, Ha. apply orb_true_r.
  Qed.
  Lemma members_add s a v eop acq :
    members s ->
    members {| sc_eop := eop; sc_acq := acq; sc_buyers := add_aff a (sc_buyers s);
               sc_active := aupdate (af_id a) v (sc_active s) |}.
  Proof.
    unfold members. cbn [sc_buyers sc_active]. intros H.
    apply (add_aff_P (fun b => amem (af_id b) (aupdate (af_id a) v (sc_active s)) = true)).
    - rewrite amem_aupdate, N.eqb_refl. reflexivity.
    - eapply Forall_impl; [|exact H]. intros b Hb. cbv beta in *. rewrite amem_aupdate, Hb. apply orb_true_r.
  Qed.

  Lemma fwd_scan_ok last w : forall adj s seen s',
    adj_inv adj seen ->
    (forall af, act s dflt af = start af + net_after (af_id af) [] seen) ->
    members s ->
    fwd_scan exact last dflt w adj s = Ok s' ->
    Forall (fun x => Z.leb (t_sd x) last = true) w ->
    (forall af, act s' dflt af = start af + net_after (af_id af) [] (seen ++ w)) /\
    sc_buyers s' = buyers_in w (sc_buyers s) /\ members s'.
  Proof.
    induction w as [|x w IH]; intros adj s seen s' Hadj Hact Hm H HF; cbn [fwd_scan] in H.
    - inversion H; subst s'. rewrite app_nil_r. auto.
    - apply Forall_cons_iff in HF as [Hx HF].
      assert (Hlt : Z.ltb last (t_sd x) = false) by (apply Z.ltb_ge; apply Z.leb_le; exact Hx).
      rewrite Hlt in H.
      assert (Hnet : forall af, net_after (af_id af) [] (seen ++ [x])
                                = net_after (af_id af) [] seen
                                  + (if N.eqb (af_id (t_af x)) (af_id af) then net_shares x * fadj (af_id af) seen else 0)).
      { intros af. rewrite net_after_snoc. reflexivity. }
      replace (seen ++ x :: w) with ((seen ++ [x]) ++ w) by (rewrite <- app_assoc; reflexivity).
      rewrite buyers_in_cons.
      destruct (t_act x) as [sh aps com rate crate | sh aps com rate crate sp | aps rate | sh aps | post pre io] eqn:Ea;
        cbn [is_buy].
      + bind_as H as b E1. apply gez_div_exact in E1 as [-> _]. unfold Qcdiv in H.
        bind_as H as eop E2. bind_as H as na E3. apply gez_add_exact in E3 as [-> _]. bind_as H as acq E4.
        eapply IH in H; [exact H | apply adj_inv_keep; [exact Hadj | rewrite Ea; reflexivity] | | apply members_add; exact Hm | exact HF].
        intros af. rewrite act_update, Hnet. unfold net_shares, buy_shares, sell_shares. rewrite Ea.
        rewrite (N.eqb_sym (af_id (t_af x)) (af_id af)).
        destruct (N.eqb_spec (af_id af) (af_id (t_af x))) as [e|n0].
        * fold (act s dflt (t_af x)). rewrite (Hact (t_af x)), (Hadj (t_af x)), e, (start_id _ _ e). ring.
        * rewrite (Hact af). ring.
      + bind_as H as b E1. apply gez_div_exact in E1 as [-> _]. unfold Qcdiv in H.
        cbn [a_sub exact bind] in H. if_inv H. if_inv H.
        fold (act s dflt (t_af x)) in H.
        eapply IH in H; [exact H | apply adj_inv_keep; [exact Hadj | rewrite Ea; reflexivity] | | apply members_more; exact Hm | exact HF].
        intros af. rewrite act_update, Hnet. unfold net_shares, buy_shares, sell_shares. rewrite Ea.
        rewrite (N.eqb_sym (af_id (t_af x)) (af_id af)).
        destruct (N.eqb_spec (af_id af) (af_id (t_af x))) as [e|n0].
        * rewrite (Hact (t_af x)), (Hadj (t_af x)), e, (start_id _ _ e). ring.
        * rewrite (Hact af). ring.
      + eapply IH in H; [exact H | apply adj_inv_keep; [exact Hadj | rewrite Ea; reflexivity] | | exact Hm | exact HF].
        intros af. rewrite Hnet, (Hact af). unfold net_shares, buy_shares, sell_shares. rewrite Ea.
        destruct (N.eqb _ _); ring.
      + eapply IH in H; [exact H | apply adj_inv_keep; [exact Hadj | rewrite Ea; reflexivity] | | exact Hm | exact HF].
        intros af. rewrite Hnet, (Hact af). unfold net_shares, buy_shares, sell_shares. rewrite Ea.
        destruct (N.eqb _ _); ring.
      + unfold split_factor in H.
        bind_as H as f E1. apply pos_div_exact in E1 as (-> & _ & _).
        bind_as H as nsa E2. apply pos_mul_exact in E2 as [-> _].
        eapply IH in H; [exact H | | | exact Hm | exact HF].
        * apply adj_inv_step; [exact Hadj | rewrite Ea; reflexivity|]. unfold split_factor_of. rewrite Ea. reflexivity.
        * intros af. rewrite Hnet, (Hact af). unfold net_shares, buy_shares, sell_shares. rewrite Ea.
          destruct (N.eqb _ _); ring.
  Qed.

  Lemma bwd_scan_ok first w : forall adj s s',
    members s ->
    bwd_scan exact first dflt w adj s = Ok s' ->
    Forall (fun x => Z.leb first (t_sd x) = true) w ->
    (forall af, act s' dflt af = act s dflt af) /\
    sc_buyers s' = buyers_in w (sc_buyers s) /\ members s'.
  Proof.
    induction w as [|x w IH]; intros adj s s' Hm H HF; cbn [bwd_scan] in H.
    - inversion H; subst s'. auto.
    - apply Forall_cons_iff in HF as [Hx HF].
      assert (Hlt : Z.ltb (t_sd x) first = false) by (apply Z.ltb_ge; apply Z.leb_le; exact Hx).
      rewrite Hlt in H. rewrite buyers_in_cons.
      destruct (t_act x) as [sh aps com rate crate | sh aps com rate crate sp | aps rate | sh aps | post pre io] eqn:Ea;
        cbn [is_buy]; try (eapply IH; eassumption).
      + bind_as H as b E1. bind_as H as acq E2.
        eapply IH in H; [| | exact HF].
        * destruct H as (H1 & H2 & H3). split; [|split; [exact H2 | exact H3]].
          intros af. rewrite H1. unfold act. cbn [sc_active].
          destruct (amem (af_id (t_af x)) (sc_active s)) eqn:Em; [reflexivity|].
          rewrite alookup_aupdate. destruct (N.eqb_spec (af_id af) (af_id (t_af x))) as [e|n0]; [|reflexivity].
          unfold amem in Em. rewrite e. destruct (alookup (af_id (t_af x)) (sc_active s)); [discriminate|].
          symmetry. apply dflt_id. exact e.
        * unfold members in *. cbn [sc_buyers sc_active].
          destruct (amem (af_id (t_af x)) (sc_active s)) eqn:Em.
          -- apply (add_aff_P (fun b => amem (af_id b) (sc_active s) = true)); assumption.
          -- apply (add_aff_P (fun b => amem (af_id b) (aupdate (af_id (t_af x)) (dflt (t_af x)) (sc_active s)) = true)).
             ++ rewrite amem_aupdate, N.eqb_refl. reflexivity.
             ++ eapply Forall_impl; [|exact Hm]. intros b0 Hb. cbv beta in *. rewrite amem_aupdate, Hb. apply orb_true_r.
      + unfold split_factor in H. bind_as H as f E1. bind_as H as nsa E2. eapply IH; eassumption.
  Qed.
End Scans.

(* ---- the ratio denominators and the generated adjustments ---- *)
Lemma sum_buyers_exact active l : forall acc total,
  sum_buyers exact active l acc = Ok total ->
  total = acc + sum_affs (fun af => match alookup (af_id af) active with Some d => d | None => 0 end) l.
Proof.
  induction l as [|a l IH]; intros acc total H; cbn [sum_buyers sum_affs] in *.
  - inversion H; subst. ring.
  - bind_as H as acc' E. apply gez_add_exact in E as [-> _]. apply IH in H. rewrite H. ring.
Qed.

Lemma sum_affs_ext f g l : Forall (fun a => f a = g a) l -> sum_affs f l = sum_affs g l.
Proof.
  induction l as [|a l IH]; intros H; cbn [sum_affs]; [reflexivity|].
  apply Forall_cons_iff in H as [Ha H]. rewrite Ha, (IH H). reflexivity.
Qed.

Lemma portions_gen active total eop t loss l : forall ps txs,
  Forall (fun af => alookup (af_id af) active = Some (eop af)) l ->
  portions active total l = Ok ps ->
  gen_sfla exact t loss ps = Ok txs ->
  txs = adjustments t loss total eop l.
Proof.
  induction l as [|af l IH]; intros ps txs HF Hp Hg; cbn [portions adjustments] in *.
  - inversion Hp; subst ps. cbn [gen_sfla] in Hg. inversion Hg; reflexivity.
  - apply Forall_cons_iff in HF as [Ha HF]. rewrite Ha in Hp.
    bind_as Hp as rest Er. inversion Hp; subst ps; clear Hp. cbn [gen_sfla] in Hg.
    destruct (negb (Qceqb (eop af) 0) && negb (af_reg af)).
    + cbn [a_div exact] in Hg. destruct (Qceqb total 0); cbn [bind] in Hg; [discriminate|].
      bind_as Hg as q1 E1. apply gez_unwrap_ok in E1 as [-> _].
      bind_as Hg as q2 E2. apply pos_unwrap_ok in E2 as [-> _].
      unfold neg_mul, pos_mul in Hg. cbn [a_mul exact bind] in Hg.
      bind_as Hg as m E3. apply pos_unwrap_ok in E3 as [-> _].
      bind_as Hg as amt E4. apply pos_unwrap_ok in E4 as [-> _].
      bind_as Hg as rest' E5. inversion Hg; subst txs. f_equal. eapply IH; eauto.
    + eapply IH; eauto.
Qed.

Lemma adjustments_shape t loss total eop l :
  Forall (fun a => is_sfla (t_act a) = true /\ af_reg (t_af a) = false /\ t_sd a = t_sd t /\ In (t_af a) l)
         (adjustments t loss total eop l).
Proof.
  induction l as [|af l IH]; cbn [adjustments]; [constructor|].
  assert (IH' : Forall (fun a => is_sfla (t_act a) = true /\ af_reg (t_af a) = false /\ t_sd a = t_sd t /\ In (t_af a) (af :: l))
                       (adjustments t loss total eop l)).
  { eapply Forall_impl; [|exact IH]. intros a (H1 & H2 & H3 & H4). repeat split; auto. right; exact H4. }
  destruct (negb (Qceqb (eop af) 0)); cbn [andb]; [|exact IH'].
  destruct (af_reg af) eqn:Er; cbn [negb]; [exact IH'|].
  constructor; [|exact IH']. cbn. repeat split; auto.
Qed.

(* ---- get_superficial_loss_info, successful and superficial: the buyers and
   what each holds at the end of the window ---- *)
Lemma sfl_info_full bef t sold aft st s :
  sd_sorted aft -> sd_sorted_desc bef -> Forall split_pos aft ->
  sfl_info exact bef t sold aft st = Ok (Some s) ->
  let wf := filter (in_window_after t) aft in
  let wb := filter (in_window_before t) bef in
  sc_buyers s = buyers_in (wf ++ wb) [] /\
  Forall (fun af => alookup (af_id af) (sc_active s)
                    = Some (shares_after (af_id af) (shares_after_sale st t sold af) wf * fadj (af_id af) wf))
         (sc_buyers s).
Proof.
  intros Hsa Hsb Hpos H wf wb. unfold sfl_info in H. cbn [a_sub exact bind] in H.
  if_inv H. if_inv H.
  match type of H with bind (fwd_scan exact ?l ?d aft [] ?s0) _ = _ => set (dfl := d) in *; set (s0' := s0) in * end.
  bind_as H as s1 E1. rewrite fwd_scan_filter in E1 by assumption.
  assert (Hd : forall af af', af_id af = af_id af' -> dfl af = dfl af').
  { intros af af' e. unfold dfl, latest_for. rewrite e. reflexivity. }
  assert (Hs : forall af af', af_id af = af_id af' -> shares_after_sale st t sold af = shares_after_sale st t sold af').
  { intros af af' e. unfold shares_after_sale, latest_for. rewrite e. reflexivity. }
  assert (Hact : forall af, act s0' dfl af = shares_after_sale st t sold af + net_after (af_id af) [] []).
  { intros af. unfold act, shares_after_sale, s0', dfl. cbn [sc_active alookup net_after].
    destruct (N.eqb (af_id af) (af_id (t_af t))) eqn:Eqs.
    - apply N.eqb_eq in Eqs. unfold latest_for. rewrite Eqs. ring.
    - ring. }
  apply (fwd_scan_ok dfl (shares_after_sale st t sold) Hs _ _ _ _ [] _ adj_inv_nil Hact) in E1 as (A1 & B1 & M1);
    [| constructor | apply (filter_Forall (fun x => Z.leb (t_sd x) (t_sd t + Model.Sfl.window_days)))].
  if_inv H.
  bind_as H as s2 E2. rewrite bwd_scan_filter in E2 by assumption.
  apply (bwd_scan_ok dfl Hd) in E2 as (A2 & B2 & M2);
    [| exact M1 | apply (filter_Forall (fun x => Z.leb (t_sd t - Model.Sfl.window_days) (t_sd x)))].
  if_inv H. inversion H; subst s; clear H.
  split.
  - rewrite B2, B1. cbn [sc_buyers s0']. rewrite buyers_in_app. reflexivity.
  - unfold members in M2. eapply Forall_impl; [|exact M2]. intros af Hm. cbv beta in Hm.
    specialize (A2 af). specialize (A1 af). unfold act in A2 at 1. unfold amem in Hm.
    destruct (alookup (af_id af) (sc_active s2)) as [d|]; [|discriminate].
    rewrite A2, A1. cbn [app]. f_equal.
    assert (Hp : Forall split_pos wf).
    { unfold wf. clear -Hpos. induction aft as [|x l IHl]; cbn [filter]; [constructor|].
      apply Forall_cons_iff in Hpos as [Hx Hl]. destruct (in_window_after t x); [constructor|]; auto. }
    pose proof (shares_after_adj (af_id af) (shares_after_sale st t sold af) [] wf Hp) as Hsa'.
    cbn [app fadj] in Hsa'. unfold wf in *. unfold in_window_after, sfl_window, Model.Sfl.window_days in *.
    rewrite Hsa'. ring.
Qed.

(* ---- classes ---- *)
Definition class_of (r : rej) : option offence :=
  match r with
  | RejOversale => Some OverSale
  | RejRocExceeds => Some RocExceeds
  | RejRocRegistered => Some RocRegistered
  | RejSflaRegistered => Some SflaRegistered
  | RejRevSplitFraction => Some RevSplitFraction
  | RejSflNoLoss => Some SflNoLoss
  | RejSflMismatch => Some SflMismatch
  | _ => None
  end.
(* the over-sale found ahead, inside the 30-day window of a loss sale *)
Definition is_ahead (r : rej) : Prop := r = RejAheadAllNegative \/ r = RejAheadAfNegative.

Lemma filter_split_pos (f : tx -> bool) l : Forall split_pos l -> Forall split_pos (filter f l).
Proof.
  induction l as [|x l IH]; intros H; cbn [filter]; [constructor|].
  apply Forall_cons_iff in H as [Hx H]. destruct (f x); [constructor|]; auto.
Qed.

Section Sim.
  Variable regof : N -> bool.
  Hypothesis regof_default : regof default_id = false.

  Lemma all_after_sale_hs st n :
    st_inv regof st -> all_after_sale st n = all_shares (abs_map (ps_map st)) - n.
  Proof.
    intros (_ & Hsum & _ & Hl). unfold all_after_sale. unfold st_sum in Hsum.
    rewrite all_shares_eq, <- Hsum, Hl. reflexivity.
  Qed.

  (* get_delta_superficial_loss_info against the declarative rule *)
  Lemma delta_sfl_sim bef t n declared aft st g :
    st_inv regof st -> sd_sorted aft -> sd_sorted_desc bef -> Forall split_pos aft ->
    match delta_sfl exact bef t n declared aft st g with
    | Ok m =>
        judge_loss (abs_map (ps_map st)) bef t n g declared aft
        = Goes (match m with Some (i, _) => sf_amount i | None => 0 end)
               (match m with Some (_, inj) => inj | None => [] end)
    | Rej r =>
        (r = RejSflMismatch /\ judge_loss (abs_map (ps_map st)) bef t n g declared aft = Offends SflMismatch)
        \/ sfl_info exact bef t n aft st = Rej r
    | Panic _ => True
    end.
  Proof.
    intros Hinv Hsa Hsb Hpos. unfold delta_sfl.
    destruct (sfl_info exact bef t n aft st) as [i| r0 |p0] eqn:Ei; cbn [bind]; [| right; reflexivity | exact I].
    pose proof (sfl_info_rule _ _ _ _ _ _ Hsa Hsb Ei) as Hrule.
    rewrite (all_after_sale_hs st n Hinv) in Hrule.
    unfold judge_loss. cbv zeta.
    destruct i as [s|].
    - (* superficial *)
      destruct Hrule as (Hacq & Heop & Hq1 & Hq2).
      pose proof (sfl_info_full _ _ _ _ _ _ Hsa Hsb Hpos Ei) as (Hb & Hact). cbv zeta in Hb, Hact.
      apply Qcltb_true in Hq1, Hq2. rewrite Hq1, Hq2. cbn [andb].
      unfold sfl_ratio. destruct (sc_buyers s) as [|b0 bs] eqn:Ebs; cbn [bind]; [exact I|]. rewrite <- Ebs in *.
      destruct (sum_buyers exact (sc_active s) (sort_affs (sc_buyers s)) 0) as [total| r1 |p1] eqn:Et; cbn [bind];
        [| exfalso; eapply sum_buyers_norej; exact Et | exact I].
      match goal with |- context [bind ?c _] =>
        match c with (if _ then _ else _) => destruct c as [ps| r1 |p1] eqn:Eps end end; cbn [bind];
        [| exfalso; destruct (Qcltb 0 total); [eapply portions_norej; exact Eps | discriminate Eps] | exact I].
      cbn [sr_num sr_den sr_portions].
      cbn [a_div exact]. destruct (Qceqb n 0); cbn [bind]; [exact I|].
      destruct (pos_unwrap Site.ratio_to_pos (min3 n (sc_acq s) (sc_eop s) / n)) as [q1| r1 |p1] eqn:E1; cbn [bind];
        [apply pos_unwrap_ok in E1 as [-> _] | nrx E1 | exact I].
      unfold neg_mul_pos at 1. cbn [a_mul exact bind].
      destruct (neg_unwrap Site.neg_mul_pos (g * (min3 n (sc_acq s) (sc_eop s) / n))) as [l| r1 |p1] eqn:E2; cbn [bind];
        [apply neg_unwrap_ok in E2 as [-> _] | nrx E2 | exact I].
      destruct (eff_cent exact (g * (min3 n (sc_acq s) (sc_eop s) / n))) as [c| r1 |p1] eqn:E3; cbn [bind];
        [apply eff_cent_exact in E3 | exfalso; eapply eff_cent_norej; exact E3 | exact I].
      destruct (lez_unwrap Site.eff_cent c) as [calc| r1 |p1] eqn:E4; cbn [bind];
        [apply lez_unwrap_ok in E4 as [-> _] | unfold lez_unwrap in E4; destruct (Qcltb 0 c); discriminate E4 | exact I].
      assert (Hcalc : c = effective_cent (g * (Qcmin n (Qcmin (rule_acquired bef t aft)
                                   (rule_held_end (all_shares (abs_map (ps_map st)) - n) t aft)) / n))).
      { rewrite E3, min3_Qcmin, Hacq, Heop. reflexivity. }
      rewrite <- Hcalc.
      destruct declared as [[sv force]|].
      + destruct force; cbn [bind negb andb a_sub exact].
        * destruct (Qcltb sv 0) eqn:Esv; cbn [negb].
          -- destruct (neg_div exact sv g) as [q| r1 |p1] eqn:E5; cbn [bind]; [| nrx E5 | exact I].
             destruct (pos_mul exact q n) as [nn| r1 |p1] eqn:E6; cbn [bind]; [| nrx E6 | exact I].
             reflexivity.
          -- reflexivity.
        * destruct (Qcltb (Qcfrac 1 1000) (Qcabs (c - sv))); cbn [bind]; [left; split; reflexivity|].
          destruct (Qcltb sv 0) eqn:Esv; cbn [negb].
          -- destruct (neg_div exact sv g) as [q| r1 |p1] eqn:E5; cbn [bind]; [| nrx E5 | exact I].
             destruct (pos_mul exact q n) as [nn| r1 |p1] eqn:E6; cbn [bind]; [| nrx E6 | exact I].
             reflexivity.
          -- reflexivity.
      + destruct (Qcltb c 0); cbn [negb]; [|reflexivity].
        destruct (gen_sfla exact t c ps) as [txs| r1 |p1] eqn:E6; cbn [bind];
          [| exfalso; eapply gen_sfla_norej; exact E6 | exact I].
        cbn [sf_amount]. f_equal.
        (* the generated rows *)
        assert (HF : Forall (fun af => alookup (af_id af) (sc_active s)
                     = Some (shares_after (af_id af)
                               (fst (held (abs_map (ps_map st)) af) - (if N.eqb (af_id af) (af_id (t_af t)) then n else 0))
                               (filter (in_window_after t) aft)
                             * fadj (af_id af) (filter (in_window_after t) aft)))
                    (sort_affs (sc_buyers s))).
        { apply sort_affs_P. eapply Forall_impl; [|exact Hact]. intros af Ha. cbv beta in Ha.
          rewrite Ha. rewrite held_shares. reflexivity. }
        assert (Hbs : buyers (filter (in_window_after t) aft ++ filter (in_window_before t) bef)
                      = sort_affs (sc_buyers s)).
        { unfold buyers. rewrite sort_by_id_eq, Hb. reflexivity. }
        rewrite Hbs.
        apply sum_buyers_exact in Et.
        rewrite (sum_affs_ext _ (fun af => shares_after (af_id af)
                               (fst (held (abs_map (ps_map st)) af) - (if N.eqb (af_id af) (af_id (t_af t)) then n else 0))
                               (filter (in_window_after t) aft)
                             * fadj (af_id af) (filter (in_window_after t) aft))) in Et.
        2: { eapply Forall_impl; [|exact HF]. intros af Ha. cbv beta in Ha. rewrite Ha. reflexivity. }
        assert (Et' : total = sum_affs (fun af => shares_after (af_id af)
                               (fst (held (abs_map (ps_map st)) af) - (if N.eqb (af_id af) (af_id (t_af t)) then n else 0))
                               (filter (in_window_after t) aft)
                             * fadj (af_id af) (filter (in_window_after t) aft)) (sort_affs (sc_buyers s)))
          by (rewrite Et; ring).
        rewrite <- Et'.
        destruct (Qcltb 0 total).
        * symmetry. eapply portions_gen; eauto.
        * inversion Eps; subst ps. cbn [gen_sfla] in E6. inversion E6; reflexivity.
    - (* not superficial *)
      assert (Hsup : Qcltb 0 (rule_acquired bef t aft)
                     && Qcltb 0 (rule_held_end (all_shares (abs_map (ps_map st)) - n) t aft) = false).
      { destruct (Qcltb_spec 0 (rule_acquired bef t aft)) as [H1|]; [|reflexivity].
        destruct (Qcltb_spec 0 (rule_held_end (all_shares (abs_map (ps_map st)) - n) t aft)) as [H2|]; [|reflexivity].
        exfalso. apply Hrule. split; assumption. }
      rewrite Hsup. cbn [sfl_ratio bind].
      destruct declared as [[sv force]|]; [|reflexivity].
      destruct force; cbn [bind negb andb a_sub exact].
      + destruct (Qcltb sv 0) eqn:Esv; cbn [negb].
        * destruct (neg_div exact sv g) as [q| r1 |p1] eqn:E5; cbn [bind]; [| nrx E5 | exact I].
          destruct (pos_mul exact q n) as [nn| r1 |p1] eqn:E6; cbn [bind]; [| nrx E6 | exact I].
          reflexivity.
        * reflexivity.
      + destruct (Qcltb (Qcfrac 1 1000) (Qcabs (0 - sv))); cbn [bind]; [left; split; reflexivity|].
        destruct (Qcltb sv 0) eqn:Esv; cbn [negb].
        * destruct (neg_div exact sv g) as [q| r1 |p1] eqn:E5; cbn [bind]; [| nrx E5 | exact I].
          destruct (pos_mul exact q n) as [nn| r1 |p1] eqn:E6; cbn [bind]; [| nrx E6 | exact I].
          reflexivity.
        * reflexivity.
  Qed.
End Sim.

(* ---- sums over a duplicate-free list of affiliate ids ---- *)
Lemma sum_over_update ids k v f :
  NoDup ids -> In k ids ->
  sum_over ids (fun id => if N.eqb id k then v else f id) = sum_over ids f - f k + v.
Proof.
  intros Hnd Hin.
  rewrite (sum_over_ext _ _ (fun id => f id + (if N.eqb k id then v - f k else 0))).
  2: { intros id. rewrite (N.eqb_sym id k). destruct (N.eqb_spec k id) as [->|]; ring. }
  rewrite sum_over_plus, (sum_over_indicator _ _ _ Hnd Hin). ring.
Qed.

Lemma sum_over_member ids k f :
  (forall id, 0 <= f id) -> In k ids -> f k <= sum_over ids f.
Proof.
  intros Hf. induction ids as [|i ids IH]; intros Hin; [contradiction|]. cbn [sum_over].
  assert (Hrest : 0 <= sum_over ids f).
  { clear IH Hin. induction ids as [|j ids IHj]; cbn [sum_over]; [apply Qcle_refl|]. pose proof (Hf j). qc_lra. }
  destruct Hin as [->|Hin].
  - qc_lra.
  - specialize (IH Hin). pose proof (Hf i). qc_lra.
Qed.

Lemma shares_of_notin k (m : holdings) : ~ In k (map fst m) -> shares_of m k = 0.
Proof.
  unfold shares_of. induction m as [|[k' h] m IH]; intros Hn; cbn [alookup]; [reflexivity|].
  destruct (N.eqb_spec k k') as [->|]; [exfalso; apply Hn; left; reflexivity|].
  apply IH. intros Hc. apply Hn. right; exact Hc.
Qed.

Lemma total_as_sum (m : holdings) ids :
  NoDup (map fst m) -> NoDup ids -> incl (map fst m) ids ->
  total_shares m = sum_over ids (shares_of m).
Proof.
  intros Hm Hnd. induction m as [|[k h] m IH]; intros Hin.
  - cbn [total_shares]. clear. induction ids as [|i ids IHi]; cbn [sum_over]; [reflexivity|].
    rewrite <- IHi. unfold shares_of. cbn [alookup]. ring.
  - cbn [map fst] in Hm, Hin. apply NoDup_cons_iff in Hm as [Hk Hm].
    cbn [total_shares fst]. rewrite (IH Hm) by (intros x Hx; apply Hin; right; exact Hx).
    rewrite (sum_over_ext _ (shares_of ((k, h) :: m)) (fun id => if N.eqb id k then fst h else shares_of m id)).
    2: { intros id. unfold shares_of. cbn [alookup]. destruct (N.eqb id k); reflexivity. }
    rewrite sum_over_update; [|exact Hnd | apply Hin; left; reflexivity].
    rewrite (shares_of_notin _ _ Hk). ring.
Qed.

Definition mkaf (id : N) : aff := {| af_id := id; af_reg := false; af_dflt := false |}.

(* ---- the look-ahead, rejecting case: a later sale inside the window sells
   more than its affiliate's share ledger holds (both look-ahead rejections) ---- *)
Section Ahead2.
  Variable last : Z.
  Variable dflt start : aff -> Qc.
  Hypothesis dflt_id : forall af af', af_id af = af_id af' -> dflt af = dflt af'.
  Hypothesis start_id : forall af af', af_id af = af_id af' -> start af = start af'.
  Variable ids : list N.
  Hypothesis ids_nodup : NoDup ids.

  Lemma act_id s af af' : af_id af = af_id af' -> act s dflt af = act s dflt af'.
  Proof. intros e. unfold act. rewrite e. destruct (alookup _ _); [reflexivity | apply dflt_id; exact e]. Qed.

  Lemma fwd_scan_rej_witness w : forall adj s seen r,
    adj_inv adj seen -> Forall split_pos seen -> Forall split_pos w ->
    Forall (fun x => In (af_id (t_af x)) ids) w ->
    (forall af, act s dflt af = start af + net_after (af_id af) [] seen) ->
    sc_eop s = sum_over ids (fun id => act s dflt (mkaf id)) ->
    (forall af, 0 <= act s dflt af) ->
    fwd_scan exact last dflt w adj s = Rej r ->
    exists w1 x w2 n p c rr cr sp, w = w1 ++ x :: w2 /\ t_act x = Sell n p c rr cr sp /\
      (t_sd x <= last)%Z /\
      shares_after (af_id (t_af x)) (start (t_af x)) (seen ++ w1) < n.
  Proof.
    induction w as [|x w IH]; intros adj s seen r Hadj Hps Hpw Hids Hact Hsum Hnn H; cbn [fwd_scan] in H; [discriminate|].
    apply Forall_cons_iff in Hpw as [Hpx Hpw]. apply Forall_cons_iff in Hids as [Hix Hids].
    assert (Hps' : Forall split_pos (seen ++ [x])) by (apply Forall_app; split; [exact Hps | constructor; [exact Hpx | constructor]]).
    destruct (Z.ltb_spec last (t_sd x)) as [|Hwin]; [discriminate|].
    assert (Hlift : (exists w1 x0 w2 n p c rr cr sp, w = w1 ++ x0 :: w2 /\ t_act x0 = Sell n p c rr cr sp /\
                       (t_sd x0 <= last)%Z /\
                       shares_after (af_id (t_af x0)) (start (t_af x0)) ((seen ++ [x]) ++ w1) < n) ->
                    exists w1 x0 w2 n p c rr cr sp, x :: w = w1 ++ x0 :: w2 /\ t_act x0 = Sell n p c rr cr sp /\
                       (t_sd x0 <= last)%Z /\
                       shares_after (af_id (t_af x0)) (start (t_af x0)) (seen ++ w1) < n).
    { intros (w1 & x0 & w2 & n & p & c & rr & cr & sp & Ew & Ea & Hsd & Hlt).
      exists (x :: w1), x0, w2, n, p, c, rr, cr, sp. split; [rewrite Ew; reflexivity|]. split; [exact Ea|].
      split; [exact Hsd|]. rewrite <- app_assoc in Hlt. exact Hlt. }
    assert (Hnet : forall af, net_after (af_id af) [] (seen ++ [x])
                              = net_after (af_id af) [] seen
                                + (if N.eqb (af_id (t_af x)) (af_id af) then net_shares x * fadj (af_id af) seen else 0)).
    { intros af. rewrite net_after_snoc. reflexivity. }
    destruct (t_act x) as [sh aps com rate crate | sh aps com rate crate sp | aps rate | sh aps | post pre io] eqn:Ea.
    - (* Buy *)
      brej H as b E1. pose proof (gez_div_nonneg exact _ _ _ E1) as Hb.
      apply gez_div_exact in E1 as [-> _]. unfold Qcdiv in H, Hb.
      brej H as eop E2. apply gez_add_exact in E2 as [-> _].
      brej H as na E3. apply gez_add_exact in E3 as [-> _]. brej H as acq E4.
      apply Hlift. eapply IH; [apply adj_inv_keep; [exact Hadj | rewrite Ea; reflexivity] | exact Hps' | exact Hpw | exact Hids | | | | exact H].
      + intros af. rewrite act_update, Hnet. unfold net_shares, buy_shares, sell_shares. rewrite Ea.
        rewrite (N.eqb_sym (af_id (t_af x)) (af_id af)).
        destruct (N.eqb_spec (af_id af) (af_id (t_af x))) as [e|n0].
        * fold (act s dflt (t_af x)). rewrite (Hact (t_af x)), (Hadj (t_af x)), e, (start_id _ _ e). ring.
        * rewrite (Hact af). ring.
      + cbn [sc_eop].
        rewrite (sum_over_ext _ _ (fun id => if N.eqb id (af_id (t_af x))
                   then act s dflt (t_af x) + sh * / adj_of (t_af x) adj else act s dflt (mkaf id))).
        2: { intros id. rewrite act_update. reflexivity. }
        rewrite sum_over_update by assumption. rewrite Hsum.
        rewrite (act_id s (mkaf (af_id (t_af x))) (t_af x)) by reflexivity. ring.
      + intros af. rewrite act_update. destruct (N.eqb _ _); [|apply Hnn].
        fold (act s dflt (t_af x)). pose proof (Hnn (t_af x)). qc_lra.
    - (* Sell *)
      brej H as b E1. pose proof (gez_div_nonneg exact _ _ _ E1) as Hb.
      apply gez_div_exact in E1 as [-> _]. unfold Qcdiv in H, Hb.
      cbn [a_sub exact bind] in H. fold (act s dflt (t_af x)) in H.
      assert (Hmem : act s dflt (t_af x) <= sc_eop s).
      { rewrite Hsum. rewrite (act_id s (t_af x) (mkaf (af_id (t_af x)))) by reflexivity.
        apply (sum_over_member ids (af_id (t_af x)) (fun id => act s dflt (mkaf id))); [|exact Hix].
        intros id. apply Hnn. }
      destruct (Qcltb_spec (act s dflt (t_af x) - sh * / adj_of (t_af x) adj) 0) as [Hneg|Hok].
      + (* this row oversells (whichever of the two messages is raised) *)
        exists [], x, w, sh, aps, com, rate, crate, sp. split; [reflexivity|]. split; [exact Ea|].
        split; [exact Hwin|].
        rewrite app_nil_r.
        pose proof (shares_after_adj (af_id (t_af x)) (start (t_af x)) [] seen Hps) as Hsa.
        cbn [app fadj] in Hsa.
        rewrite (Hact (t_af x)), (Hadj (t_af x)) in Hneg.
        assert (E : start (t_af x) + net_after (af_id (t_af x)) [] seen - sh * fadj (af_id (t_af x)) seen
                    = (shares_after (af_id (t_af x)) (start (t_af x)) seen - sh) * fadj (af_id (t_af x)) seen).
        { assert (Hsa' : shares_after (af_id (t_af x)) (start (t_af x)) seen * fadj (af_id (t_af x)) seen
                         = start (t_af x) + net_after (af_id (t_af x)) [] seen) by (rewrite Hsa; ring).
          rewrite <- Hsa'. ring. }
        rewrite E in Hneg. apply mul_neg_pos in Hneg; [|apply fadj_pos; exact Hps].
        remember (shares_after (af_id (t_af x)) (start (t_af x)) seen) as sa. clear - Hneg. qc_lra.
      + destruct (Qcltb_spec (sc_eop s - sh * / adj_of (t_af x) adj) 0) as [Hall|Hall].
        { exfalso. apply Hok. qc_lra. }
        apply Hlift. eapply IH; [apply adj_inv_keep; [exact Hadj | rewrite Ea; reflexivity] | exact Hps' | exact Hpw | exact Hids | | | | exact H].
        * intros af. rewrite act_update, Hnet. unfold net_shares, buy_shares, sell_shares. rewrite Ea.
          rewrite (N.eqb_sym (af_id (t_af x)) (af_id af)).
          destruct (N.eqb_spec (af_id af) (af_id (t_af x))) as [e|n0].
          -- rewrite (Hact (t_af x)), (Hadj (t_af x)), e, (start_id _ _ e). ring.
          -- rewrite (Hact af). ring.
        * cbn [sc_eop].
          rewrite (sum_over_ext _ _ (fun id => if N.eqb id (af_id (t_af x))
                     then act s dflt (t_af x) - sh * / adj_of (t_af x) adj else act s dflt (mkaf id))).
          2: { intros id. rewrite act_update. reflexivity. }
          rewrite sum_over_update by assumption. rewrite Hsum.
          rewrite (act_id s (mkaf (af_id (t_af x))) (t_af x)) by reflexivity. ring.
        * intros af. rewrite act_update. destruct (N.eqb _ _); [|apply Hnn].
          apply Qcnot_lt_le. exact Hok.
    - (* RoC *)
      apply Hlift. eapply IH; [apply adj_inv_keep; [exact Hadj | rewrite Ea; reflexivity] | exact Hps' | exact Hpw | exact Hids | | exact Hsum | exact Hnn | exact H].
      intros af. rewrite Hnet, (Hact af). unfold net_shares, buy_shares, sell_shares. rewrite Ea.
      destruct (N.eqb _ _); ring.
    - (* SfLA *)
      apply Hlift. eapply IH; [apply adj_inv_keep; [exact Hadj | rewrite Ea; reflexivity] | exact Hps' | exact Hpw | exact Hids | | exact Hsum | exact Hnn | exact H].
      intros af. rewrite Hnet, (Hact af). unfold net_shares, buy_shares, sell_shares. rewrite Ea.
      destruct (N.eqb _ _); ring.
    - (* Split *)
      unfold split_factor in H.
      brej H as f E1. apply pos_div_exact in E1 as (-> & _ & _).
      brej H as nsa E2. apply pos_mul_exact in E2 as [-> _].
      apply Hlift. eapply IH; [ | exact Hps' | exact Hpw | exact Hids | | exact Hsum | exact Hnn | exact H].
      + apply adj_inv_step; [exact Hadj | rewrite Ea; reflexivity|]. unfold split_factor_of. rewrite Ea. reflexivity.
      + intros af. rewrite Hnet. unfold act in *. cbn [sc_active]. rewrite (Hact af).
        unfold net_shares, buy_shares, sell_shares. rewrite Ea. destruct (N.eqb _ _); ring.
  Qed.
End Ahead2.

Definition keys_nodup (st : pstate) : Prop := NoDup (map fst (ps_map st)).

Lemma abs_map_keys m : map fst (abs_map m) = map fst m.
Proof. unfold abs_map. rewrite map_map. reflexivity. Qed.

Lemma shares_of_abs st id : shares_of (abs_map (ps_map st)) id = last_sh st (mkaf id).
Proof.
  unfold shares_of, last_sh, latest_for. rewrite alookup_abs. cbn [af_id mkaf].
  destruct (alookup id (ps_map st)); reflexivity.
Qed.

Lemma sfl_info_rej_witness regof bef t sold aft st r :
  st_inv regof st -> keys_nodup st -> Forall split_pos aft ->
  sfl_info exact bef t sold aft st = Rej r ->
  r = RejScanAllLess \/ r = RejScanAfLess \/
  (is_ahead r /\
   exists w1 x w2 n p c rr cr sp, aft = w1 ++ x :: w2 /\ t_act x = Sell n p c rr cr sp /\
     (t_sd x <= t_sd t + 30)%Z /\
     shares_after (af_id (t_af x)) (shares_after_sale st t sold (t_af x)) w1 < n).
Proof.
  intros Hinv Hk Hp H. unfold sfl_info in H. cbn [a_sub exact bind] in H.
  destruct (Qcltb_spec (s_all (latest_post_status st) - sold) 0) as [|Hall]; [inversion H; left; reflexivity|].
  match type of H with (if Qcltb ?a 0 then _ else _) = _ => destruct (Qcltb_spec a 0) as [|Haf] end;
    [inversion H; right; left; reflexivity|].
  right; right.
  match type of H with bind (fwd_scan exact ?l ?d aft [] ?s0) _ = _ =>
    destruct (fwd_scan exact l d aft [] s0) as [s1| r1 |q] eqn:E1; cbn [bind] in H end.
  - exfalso. destruct (negb _); [discriminate H|].
    match type of H with bind ?m _ = _ => destruct m as [s2| r2 |q] eqn:E2; cbn [bind] in H end.
    + destruct (Qcltb _ _); discriminate H.
    + eapply bwd_scan_norej. exact E2.
    + discriminate H.
  - inversion H; subst r1. clear H. split; [apply fwd_scan_rej in E1; exact E1|].
    match type of E1 with fwd_scan exact ?l ?d aft [] ?s0 = _ => set (dfl := d) in *; set (s0' := s0) in * end.
    assert (Hd : forall af af', af_id af = af_id af' -> dfl af = dfl af').
    { intros af af' e. unfold dfl, latest_for. rewrite e. reflexivity. }
    assert (Hs : forall af af', af_id af = af_id af' -> shares_after_sale st t sold af = shares_after_sale st t sold af').
    { intros af af' e. unfold shares_after_sale, latest_for. rewrite e. reflexivity. }
    assert (Hact : forall af, act s0' dfl af = shares_after_sale st t sold af + net_after (af_id af) [] []).
    { intros af. unfold act, shares_after_sale, s0', dfl. cbn [sc_active alookup net_after].
      destruct (N.eqb (af_id af) (af_id (t_af t))) eqn:Eqs.
      - apply N.eqb_eq in Eqs. unfold latest_for. rewrite Eqs. ring.
      - ring. }
    set (ids := nodup N.eq_dec (map fst (ps_map st) ++ af_id (t_af t) :: map (fun x => af_id (t_af x)) aft)).
    assert (Hnd : NoDup ids) by apply NoDup_nodup.
    assert (Hids : Forall (fun x => In (af_id (t_af x)) ids) aft).
    { apply Forall_forall. intros x Hx. apply nodup_In. apply in_or_app. right. right.
      apply in_map_iff. exists x. split; [reflexivity | exact Hx]. }
    assert (Hdfl : forall af, dfl af = last_sh st af) by reflexivity.
    assert (Hnn : forall af, 0 <= act s0' dfl af).
    { intros af. unfold act, s0'. cbn [sc_active alookup].
      destruct (N.eqb (af_id af) (af_id (t_af t))); [apply Qcnot_lt_le; exact Haf|].
      rewrite Hdfl. apply (last_sh_le_all regof st af Hinv). }
    assert (Hsum : sc_eop s0' = sum_over ids (fun id => act s0' dfl (mkaf id))).
    { unfold s0' at 1. cbn [sc_eop].
      rewrite (sum_over_ext _ _ (fun id => if N.eqb id (af_id (t_af t))
                 then dfl (t_af t) - sold else shares_of (abs_map (ps_map st)) id)).
      2: { intros id. unfold act, s0'. cbn [sc_active alookup af_id mkaf].
           destruct (N.eqb id (af_id (t_af t))); [reflexivity|]. rewrite shares_of_abs. reflexivity. }
      rewrite sum_over_update; [|exact Hnd|].
      2: { apply nodup_In. apply in_or_app. right. left. reflexivity. }
      rewrite <- total_as_sum; [|rewrite abs_map_keys; exact Hk | exact Hnd|].
      2: { rewrite abs_map_keys. intros x Hx. apply nodup_In. apply in_or_app. left. exact Hx. }
      destruct Hinv as (_ & Hsum & _ & Hl). unfold st_sum in Hsum. rewrite Hl, Hsum.
      rewrite shares_of_abs. rewrite (Hdfl (t_af t)). unfold last_sh, latest_for. cbn [af_id mkaf]. ring. }
    destruct (fwd_scan_rej_witness _ dfl (shares_after_sale st t sold) Hd Hs ids Hnd aft [] s0' [] r
                adj_inv_nil (Forall_nil _) Hp Hids Hact Hsum Hnn E1)
      as (w1 & x & w2 & n & p & c & rr & cr & sp & Ew & Ea & Hsd & Hlt).
    exists w1, x, w2, n, p, c, rr, cr, sp. cbn [app] in Hlt. unfold Model.Sfl.window_days in Hsd. auto.
  - discriminate H.
Qed.

(* ---- the walk: shares only depend on purchases, sales and splits ---- *)
Lemma held_fst_id hs af af' : af_id af = af_id af' -> fst (held hs af) = fst (held hs af').
Proof. intros e. unfold held. rewrite e. destruct (alookup _ _); reflexivity. Qed.

Lemma shares_record hs a dn af :
  fst (held (record hs a dn) af) = step_shares (af_id af) (fst (held hs af)) a.
Proof.
  unfold record, step_shares. unfold held at 1. rewrite alookup_aupdate.
  rewrite (N.eqb_sym (af_id (t_af a)) (af_id af)).
  destruct (N.eqb_spec (af_id af) (af_id (t_af a))) as [e|ne].
  - pose proof (held_fst_id hs (t_af a) af (eq_sym e)) as Hf.
    destruct (held hs (t_af a)) as [sh acb]. cbn [fst] in Hf. rewrite <- Hf.
    unfold avg_cost_rule, split_factor_of. destruct (t_act a); cbn [fst]; reflexivity.
  - fold (held hs af). reflexivity.
Qed.

Lemma shares_record_all adj : forall hs af,
  Forall (fun a => is_sfla (t_act a) = true) adj ->
  fst (held (record_all hs adj) af) = fst (held hs af).
Proof.
  induction adj as [|a adj IH]; intros hs af HF; [reflexivity|].
  apply Forall_cons_iff in HF as [Ha HF]. unfold record_all. cbn [fold_left]. fold (record_all (record hs a 0) adj).
  rewrite (IH _ _ HF), shares_record. unfold step_shares. destruct (t_act a); try discriminate Ha.
  destruct (N.eqb _ _); reflexivity.
Qed.

Definition adj_row (t a : tx) : Prop :=
  is_sfla (t_act a) = true /\ af_reg (t_af a) = false /\ t_sd a = t_sd t.

Lemma judge_adj hs bef t aft dn adj : judge hs bef t aft = Goes dn adj -> Forall (adj_row t) adj.
Proof.
  unfold judge. intros H.
  assert (Hloss : forall n g declared, judge_loss hs bef t n g declared aft = Goes dn adj -> Forall (adj_row t) adj).
  { clear H. intros n g declared H. unfold judge_loss in H. cbv zeta in H.
    destruct declared as [[sv force]|].
    - destruct (_ && _); [discriminate|]. inversion H; constructor.
    - match type of H with (if ?c then _ else _) = _ => destruct c end; [|inversion H; constructor].
      inversion H; subst.
      match goal with |- Forall _ (if ?c then _ else _) => destruct c end; [|constructor].
      eapply Forall_impl; [|apply adjustments_shape]. intros a (H1 & H2 & H3 & _). repeat split; assumption. }
  destruct (t_act t).
  - inversion H; constructor.
  - destruct (Qcltb _ _); [discriminate|]. destruct (snd _); [|inversion H; constructor].
    destruct (Qcltb _ 0); [eapply Hloss; exact H|]. destruct sfl; [discriminate|]. inversion H; constructor.
  - destruct (snd _); [|discriminate]. destruct (Qcltb _ _); [discriminate|]. inversion H; constructor.
  - destruct (snd _); [|discriminate]. inversion H; constructor.
  - destruct (_ && _); [discriminate|]. inversion H; constructor.
Qed.

Lemma walk_finds_oversale x n p c rr cr sp w2 :
  t_act x = Sell n p c rr cr sp ->
  forall w1 hs bef,
    shares_after (af_id (t_af x)) (fst (held hs (t_af x))) w1 < n ->
    exists cl, snd (walk hs bef (w1 ++ x :: w2)) = Some cl /\
               (length (fst (walk hs bef (w1 ++ x :: w2))) <= length w1)%nat /\
               (length (fst (walk hs bef (w1 ++ x :: w2))) = length w1 -> cl = OverSale).
Proof.
  intros Ea. induction w1 as [|y w1 IH]; intros hs bef Hlt.
  - cbn [app walk]. unfold judge. rewrite Ea. unfold shares_after in Hlt. cbn [fold_left] in Hlt.
    apply Qcltb_true in Hlt. rewrite Hlt. exists OverSale. cbn. auto.
  - cbn [app walk]. destruct (judge hs bef y (w1 ++ x :: w2)) as [cl|dn adj] eqn:Ej.
    + exists cl. cbn. split; [reflexivity|]. split; [lia | intros Hc; discriminate Hc].
    + specialize (IH (record_all (record hs y dn) adj) (rev adj ++ y :: bef)).
      destruct (walk (record_all (record hs y dn) adj) (rev adj ++ y :: bef) (w1 ++ x :: w2)) as [gs o] eqn:Ew.
      cbn [fst snd length] in *.
      destruct IH as (cl & Ho & Hlen & Hcl).
      * rewrite shares_record_all, shares_record.
        -- unfold shares_after in *. cbn [fold_left] in Hlt. exact Hlt.
        -- eapply Forall_impl; [|eapply judge_adj; exact Ej]. intros a (Ha & _). exact Ha.
      * exists cl. split; [exact Ho|]. split; [lia|]. intros Hc. apply Hcl. lia.
Qed.

(* ---- one input row: the ledger against the verdict of the walk ---- *)
Definition ahead_witness (hs : holdings) (t : tx) (aft : list tx) : Prop :=
  is_sell (t_act t) = true /\
  exists w1 x w2 n p c rr cr sp, aft = w1 ++ x :: w2 /\ t_act x = Sell n p c rr cr sp /\
    (t_sd x <= t_sd t + 30)%Z /\
    shares_after (af_id (t_af x)) (fst (held hs (t_af x))) (t :: w1) < n.

Section Step.
  Variable regof : N -> bool.
  Hypothesis regof_default : regof default_id = false.

  Lemma step_sim bef t aft st :
    st_inv regof st -> keys_nodup st -> af_ok regof (t_af t) -> valid_tx t = true ->
    sd_sorted aft -> sd_sorted_desc bef -> Forall split_pos aft ->
    match delta_for_tx exact bef t aft st with
    | Ok (d, inj) => judge (abs_map (ps_map st)) bef t aft = Goes (denied_of d) inj
    | Rej r =>
        (exists c, class_of r = Some c /\ judge (abs_map (ps_map st)) bef t aft = Offends c)
        \/ (is_ahead r /\ ahead_witness (abs_map (ps_map st)) t aft)
    | Panic _ => True
    end.
  Proof.
    intros Hinv Hk Haf Hv Hsa Hsb Hpos. unfold delta_for_tx.
    rewrite (sanity_never_rejects regof st (t_af t) Hinv Haf). cbn [bind].
    destruct (last_sh_le_all regof st (t_af t) Hinv) as [Hle Hnn].
    unfold judge. rewrite held_next_pre. unfold hold_of. cbn [fst snd].
    set (pre := next_pre_status st (t_af t)).
    assert (Hpsh : s_sh pre = last_sh st (t_af t)) by apply next_pre_sh.
    assert (Hpall : s_all pre = ps_all st) by apply next_pre_all.
    unfold valid_tx in Hv.
    destruct (t_act t) as [n price com rate crate | n price com rate crate sp | amount rate
                          | n amount | post pre_ io] eqn:Ea.
    - (* Buy *)
      destruct (delta_nonsell exact t pre) as [d0|r0|p0] eqn:Ed; cbn [bind]; [| exfalso | exact I].
      + apply nonsell_refines in Ed as (_ & Hsfl & _); [|rewrite Ea; reflexivity].
        unfold denied_of. rewrite Hsfl. reflexivity.
      + unfold delta_nonsell in Ed. rewrite Ea in Ed.
        bnr Ed. rewrite all_after_exact in Ed. cbn [bind] in Ed.
        bnr Ed. destruct (s_acb _); cbn [bind] in Ed; [|discriminate Ed].
        bnr Ed. bnr Ed. bnr Ed. bnr Ed. discriminate Ed.
    - (* Sell *)
      cbn [valid_action] in Hv. vsplit Hv. apply Qcltb_true in Hv.
      destruct (sell_core exact pre n price com rate crate) as [c| r0 |p0] eqn:Ec; cbn [bind]; [| | exact I].
      + pose proof (sell_core_exact _ _ _ _ _ _ _ Ec Hv) as (Hsh & Hacb & Hg).
        assert (Hge : Qcltb (s_sh pre) n = false).
        { unfold sell_core in Ec. cbn [a_sub exact bind] in Ec.
          destruct (Qcltb_spec (s_sh pre - n) 0) as [|Hge]; [discriminate|].
          apply Qcltb_false. apply Qcnot_lt_le in Hge. qc_lra. }
        rewrite Hge, Hg. destruct (s_acb pre) as [acb|] eqn:Eacb; cbn [option_map]; [|reflexivity].
        set (g := n * price * rate - com * crate - acb * n / s_sh pre).
        destruct (Qcltb g 0) eqn:Eg.
        * pose proof (delta_sfl_sim regof bef t n sp aft st g Hinv Hsa Hsb Hpos) as Hsim.
          destruct (delta_sfl exact bef t n sp aft st g) as [m| r0 |p0] eqn:Es; cbn [bind]; [| | exact I].
          -- destruct m as [[info inj]|]; cbn [a_sub exact bind]; unfold denied_of; cbn [d_sfl mk_delta]; exact Hsim.
          -- destruct Hsim as [[-> Hj] | Hinfo].
             ++ left. exists SflMismatch. split; [reflexivity | exact Hj].
             ++ right. pose proof (sfl_info_rej regof _ _ _ _ _ _ _ _ _ _ _ _ Hinv Ec eq_refl Hinfo) as Hl.
                apply (sfl_info_rej_witness regof) in Hinfo; [|assumption|assumption|assumption].
                destruct Hinfo as [-> | [-> | [Hah Hw]]]; [contradiction Hl | contradiction Hl |].
                split; [exact Hah|]. split; [rewrite Ea; reflexivity|].
                destruct Hw as (w1 & x & w2 & n' & p' & c' & rr & cr & sp' & Ew & Eax & Hsd & Hlt).
                exists w1, x, w2, n', p', c', rr, cr, sp'. repeat split; try assumption.
                unfold shares_after in *. cbn [fold_left]. rewrite held_shares.
                unfold shares_after_sale in Hlt. fold (last_sh st (t_af x)) in Hlt.
                unfold step_shares at 2. rewrite Ea. rewrite (N.eqb_sym (af_id (t_af t))).
                destruct (N.eqb (af_id (t_af x)) (af_id (t_af t))); [exact Hlt|].
                replace (last_sh st (t_af x) - 0) with (last_sh st (t_af x)) in Hlt by ring. exact Hlt.
        * destruct sp as [s0|].
          -- left. exists SflNoLoss. split; reflexivity.
          -- reflexivity.
      + (* sell_core rejects: the sale exceeds the affiliate's shares *)
        unfold sell_core in Ec. cbn [a_sub exact bind] in Ec.
        destruct (Qcltb_spec (s_sh pre - n) 0) as [Hlt|Hsh].
        * inversion Ec; subst r0. left. exists OverSale. split; [reflexivity|].
          assert (Hlt' : Qcltb (s_sh pre) n = true) by (apply Qcltb_true; qc_lra).
          rewrite Hlt'. reflexivity.
        * exfalso. rewrite (all_after_exact_as _ _ _ (s_all pre - n)) in Ec by ring. cbn [bind] in Ec.
          destruct (Qcltb_spec (s_all pre - n) 0) as [Hlt|_].
          { apply Qcnot_lt_le in Hsh. rewrite Hpsh in Hsh. rewrite Hpall in Hlt. qc_lra. }
          bnr Ec. destruct a as [aps_|]; [|discriminate Ec].
          bnr Ec. bnr Ec. bnr Ec. cbn [a_sub a_mul exact bind] in Ec. discriminate Ec.
    - (* RoC *)
      unfold delta_nonsell. rewrite Ea.
      pose proof (next_pre_acb regof st (t_af t) Hinv Haf) as Hacb. fold pre in Hacb.
      destruct (s_acb pre) as [old|] eqn:Eo; cbn [is_none] in Hacb.
      + rewrite <- Hacb. cbn [bind].
        destruct (gez_mul exact amount (s_sh pre)) as [v| r0 |p0] eqn:E1; cbn [bind]; [| nrx E1 | exact I].
        apply gez_mul_exact in E1 as [-> _].
        destruct (gez_mul exact (amount * s_sh pre) rate) as [red| r0 |p0] eqn:E2; cbn [bind]; [| nrx E2 | exact I].
        apply gez_mul_exact in E2 as [-> _]. cbn [a_sub exact bind].
        destruct (Qcltb (old - amount * s_sh pre * rate) 0); cbn [bind].
        * left. exists RocExceeds. split; reflexivity.
        * unfold denied_of. cbn. reflexivity.
      + rewrite <- Hacb. cbn [negb bind]. left. exists RocRegistered. split; reflexivity.
    - (* SfLA *)
      unfold delta_nonsell. rewrite Ea.
      pose proof (next_pre_acb regof st (t_af t) Hinv Haf) as Hacb. fold pre in Hacb.
      destruct (s_acb pre) as [old|] eqn:Eo; cbn [is_none] in Hacb.
      + rewrite <- Hacb. cbn [bind a_mul exact].
        destruct (pos_unwrap Site.sfla_total (n * amount)) as [amt| r0 |p0] eqn:E1; cbn [bind]; [| nrx E1 | exact I].
        destruct (gez_add exact old amt) as [nacb| r0 |p0] eqn:E2; cbn [bind]; [| nrx E2 | exact I].
        unfold denied_of. cbn. reflexivity.
      + rewrite <- Hacb. cbn [negb bind]. left. exists SflaRegistered. split; reflexivity.
    - (* Split *)
      unfold delta_nonsell. rewrite Ea. cbn [a_mul a_div exact].
      destruct (Qceqb pre_ 0); cbn [bind]; [exact I|].
      unfold gez_unwrap. destruct (Qcleb 0 (s_sh pre * post / pre_)) eqn:Eq; cbn [bind]; [|exact I].
      rewrite all_after_exact. cbn [bind].
      destruct (Qcltb_spec (s_all pre + (s_sh pre * post / pre_ - s_sh pre)) 0) as [Hlt|_].
      { exfalso. apply Qcleb_true in Eq. rewrite Hpall, Hpsh in Hlt. rewrite Hpsh in Eq. qc_lra. }
      destruct (Qcltb post pre_ && io && negb (Qc_is_integer (s_sh pre * post / pre_))); cbn [bind].
      + left. exists RevSplitFraction. split; reflexivity.
      + unfold denied_of. cbn. reflexivity.
  Qed.
End Step.

(* ---- bookkeeping: keys of the status map, sortedness of the zipper ---- *)
Lemma aupdate_keys_in {V} k (v : V) l x :
  In x (map fst (aupdate k v l)) -> x = k \/ In x (map fst l).
Proof.
  induction l as [|[k' v'] l IH]; cbn [aupdate map fst In].
  - intros [<-|[]]. left; reflexivity.
  - destruct (N.eqb_spec k k') as [->|ne]; cbn [map fst In].
    + intros [<-|H]; [left; reflexivity | right; right; exact H].
    + intros [<-|H]; [right; left; reflexivity|]. destruct (IH H) as [->|H']; [left; reflexivity | right; right; exact H'].
Qed.
Lemma aupdate_keys_nodup {V} k (v : V) l : NoDup (map fst l) -> NoDup (map fst (aupdate k v l)).
Proof.
  induction l as [|[k' v'] l IH]; cbn [aupdate map fst]; intros H.
  - constructor; [intros [] | constructor].
  - apply NoDup_cons_iff in H as [Hk H]. destruct (N.eqb_spec k k') as [->|ne]; cbn [map fst].
    + constructor; assumption.
    + constructor; [|apply IH; exact H]. intros Hin. apply aupdate_keys_in in Hin as [->|Hin]; [apply ne; reflexivity | contradiction].
Qed.

Lemma desc_cons t bef :
  sd_sorted_desc bef -> (forall b, In b bef -> (t_sd b <= t_sd t)%Z) -> sd_sorted_desc (t :: bef).
Proof. intros Hs Hb. constructor; [exact Hs | apply Forall_forall; exact Hb]. Qed.
Lemma desc_same_prefix l t bef :
  Forall (fun a => t_sd a = t_sd t) l -> sd_sorted_desc (t :: bef) -> sd_sorted_desc (l ++ t :: bef).
Proof.
  intros Hl Hs. induction l as [|a l IH]; [exact Hs|].
  apply Forall_cons_iff in Hl as [Ha Hl]. cbn [app]. constructor; [apply IH; exact Hl|].
  apply Forall_app. split.
  - eapply Forall_impl; [|exact Hl]. intros b Hb. cbv beta in Hb. rewrite Hb, Ha. lia.
  - apply StronglySorted_inv in Hs as [_ Hs]. constructor; [rewrite Ha; lia|].
    eapply Forall_impl; [|exact Hs]. intros b Hb. cbv beta in Hb. rewrite Ha. exact Hb.
Qed.

(* ---- a generated adjustment row never stops the ledger (except by a panic) ---- *)
Section Whole.
  Variable regof : N -> bool.
  Hypothesis regof_default : regof default_id = false.

  Lemma sfla_step bef a aft st :
    st_inv regof st -> af_ok regof (t_af a) -> is_sfla (t_act a) = true -> af_reg (t_af a) = false ->
    match delta_for_tx exact bef a aft st with
    | Ok (d, inj) => inj = [] /\ denied_of d = 0
    | Rej _ => False
    | Panic _ => True
    end.
  Proof.
    intros Hinv Haf Hs Hr. unfold delta_for_tx.
    rewrite (sanity_never_rejects regof st (t_af a) Hinv Haf). cbn [bind].
    pose proof (next_pre_acb regof st (t_af a) Hinv Haf) as Hacb.
    destruct (t_act a) as [| | | n amount |] eqn:Ea; try discriminate Hs.
    unfold delta_nonsell. rewrite Ea. rewrite Hr in *.
    destruct (s_acb (next_pre_status st (t_af a))) as [old|]; [|discriminate Hacb].
    cbn [bind a_mul exact].
    destruct (pos_unwrap Site.sfla_total (n * amount)) as [amt| r0 |p0] eqn:E1; cbn [bind]; [| nrx E1 | exact I].
    destruct (gez_add exact old amt) as [nacb| r0 |p0] eqn:E2; cbn [bind]; [| nrx E2 | exact I].
    split; reflexivity.
  Qed.

  Lemma row_recorded bef t aft st d inj st1 :
    delta_for_tx exact bef t aft st = Ok (d, inj) ->
    set_latest exact st (t_af t) (d_post d) = Ok st1 ->
    sell_positive t ->
    abs_map (ps_map st1) = record (abs_map (ps_map st)) t (denied_of d).
  Proof.
    intros Ed Es Hpos. apply delta_for_tx_refines in Ed as [Htx Hrule]; [|assumption].
    apply set_latest_map in Es. rewrite Es, <- aupdate_abs. unfold record.
    rewrite held_next_pre, Hrule. reflexivity.
  Qed.

  Lemma set_latest_keys st af v st' :
    set_latest exact st af v = Ok st' -> keys_nodup st -> keys_nodup st'.
  Proof. intros H Hk. apply set_latest_map in H. unfold keys_nodup. rewrite H. apply aupdate_keys_nodup. exact Hk. Qed.

  Lemma set_latest_no_rej st af v r : set_latest exact st af v <> Rej r.
  Proof.
    unfold set_latest. rewrite all_after_exact. cbn [bind].
    destruct (negb _); [discriminate|]. destruct (negb _); discriminate.
  Qed.

  Lemma inj_sim t0 inj : forall bef st aft ds bef' st' o,
    run_injected exact bef st inj aft = (ds, bef', st', o) ->
    st_inv regof st -> keys_nodup st -> Forall (adj_row t0) inj -> Forall (row_ok' regof) inj ->
    match o with
    | None => bef' = rev inj ++ bef /\
              abs_map (ps_map st') = record_all (abs_map (ps_map st)) inj /\
              effective ds = map (fun a => (a, 0)) inj /\
              st_inv regof st' /\ keys_nodup st'
    | Some (SRej _) => False
    | Some (SPanic _) => True
    end.
  Proof.
    induction inj as [|a inj IH]; intros bef st aft ds bef' st' o H Hinv Hk Hadj Hrow; cbn [run_injected] in H.
    - inversion H; subst. cbn. auto.
    - apply Forall_cons_iff in Hadj as [(Ha1 & Ha2 & Ha3) Hadj]. apply Forall_cons_iff in Hrow as [Hra Hrow].
      pose proof (sfla_step bef a (inj ++ aft) st Hinv Hra Ha1 Ha2) as Hstep.
      destruct (delta_for_tx exact bef a (inj ++ aft) st) as [[d i]| r0 |p0] eqn:Ed.
      + destruct Hstep as [-> Hdn].
        pose proof (delta_for_tx_ok exact _ _ _ _ _ _ Ed (proj1 Hinv)) as [Htx (Hrowok & _)].
        destruct (set_latest exact st (t_af a) (d_post d)) as [st1| r1 |p1] eqn:Es.
        * pose proof (row_recorded _ _ _ _ _ _ _ Ed Es (sfla_sell_positive _ Ha1)) as Hrec.
          assert (Hinv1 : st_inv regof st1) by (eapply set_latest_inv; eauto).
          assert (Hk1 : keys_nodup st1) by (eapply set_latest_keys; eauto).
          destruct (run_injected exact (a :: bef) st1 inj aft) as [[[ds1 b1] s1] o1] eqn:Er.
          revert Htx. inversion H; subst; clear H. intros Htx.
          specialize (IH _ _ _ _ _ _ _ Er Hinv1 Hk1 Hadj Hrow).
          destruct o as [[r2|p2]|]; [exact IH | exact I |].
          destruct IH as (I1 & I2 & I3 & I4 & I5).
          split; [cbn [rev]; rewrite I1, <- app_assoc; reflexivity|].
          split; [rewrite I2, Hrec, Hdn; reflexivity|].
          split; [|split; assumption].
          cbn [effective map]. fold (effective ds1). rewrite I3, Htx, Hdn. reflexivity.
        * exfalso. eapply set_latest_no_rej; exact Es.
        * inversion H; subst. exact I.
      + contradiction.
      + inversion H; subst. exact I.
  Qed.

  (* ---- whole runs ---- *)
  Definition sim_inv (st : pstate) (bef aft : list tx) : Prop :=
    st_inv regof st /\ keys_nodup st /\ sd_sorted aft /\ sd_sorted_desc bef /\
    (forall b a, In b bef -> In a aft -> (t_sd b <= t_sd a)%Z) /\
    Forall (fun t => valid_tx t = true) aft /\ Forall (row_ok' regof) aft /\ Forall (row_ok' regof) bef.

  Definition agrees (aft : list tx) (gs : list (list (tx * Qc))) (off : option offence)
             (ds : list delta) (o : option stop) : Prop :=
    match off with
    | None => o = None /\ effective ds = concat gs /\ length gs = length aft
    | Some c =>
        exists r, o = Some (SRej r) /\
          ((class_of r = Some c /\ effective ds = concat gs) \/
           (is_ahead r /\ exists i k ti tk,
               nth_error aft i = Some ti /\ nth_error aft k = Some tk /\
               (i <= length gs <= k)%nat /\ (i < k)%nat /\
               is_sell (t_act ti) = true /\ is_sell (t_act tk) = true /\
               (t_sd tk <= t_sd ti + 30)%Z /\
               effective ds = concat (firstn i gs) /\
               (length gs = k -> c = OverSale)))
    end.

  Lemma loop_sim aft : forall bef st ds o,
    run_loop exact bef st aft = (ds, o) -> sim_inv st bef aft ->
    (forall p, o <> Some (SPanic p)) ->
    agrees aft (fst (walk (abs_map (ps_map st)) bef aft)) (snd (walk (abs_map (ps_map st)) bef aft)) ds o.
  Proof.
    induction aft as [|t rest IH]; intros bef st ds o H Hsim Hnp; cbn [run_loop] in H.
    - inversion H; subst. cbn. auto.
    - destruct Hsim as (Hinv & Hk & Hsa & Hsb & Hcross & Hval & Hrow & Hrowb).
      apply Forall_cons_iff in Hval as [Hvt Hval]. apply Forall_cons_iff in Hrow as [Hrt Hrow].
      pose proof Hsa as Hsa0. apply StronglySorted_inv in Hsa as [Hsa Hle].
      assert (Hpos : Forall split_pos rest)
        by (eapply Forall_impl; [|exact Hval]; intros x Hx; apply valid_split_pos; exact Hx).
      pose proof (step_sim regof bef t rest st Hinv Hk Hrt Hvt Hsa Hsb Hpos) as Hstep.
      destruct (delta_for_tx exact bef t rest st) as [[d inj]| r0 |p0] eqn:Ed.
      + (* the row is accepted *)
        cbn [walk]. rewrite Hstep.
        pose proof (delta_for_tx_ok exact _ _ _ _ _ _ Ed (proj1 Hinv)) as [Htx (Hrowok & _)].
        pose proof (delta_for_tx_inj_P (af_ok regof) exact _ _ _ _ _ _ Ed Hrowb Hrow) as Hinj.
        pose proof (judge_adj _ _ _ _ _ _ Hstep) as Hadj.
        destruct (set_latest exact st (t_af t) (d_post d)) as [st1| r1 |p1] eqn:Es;
          [| exfalso; eapply set_latest_no_rej; exact Es | exfalso; inversion H; subst; eapply Hnp; reflexivity].
        pose proof (row_recorded _ _ _ _ _ _ _ Ed Es (valid_sell_positive _ Hvt)) as Hrec.
        assert (Hinv1 : st_inv regof st1) by (eapply set_latest_inv; eauto).
        assert (Hk1 : keys_nodup st1) by (eapply set_latest_keys; eauto).
        destruct (run_injected exact (t :: bef) st1 inj rest) as [[[dsi b1] st2] o1] eqn:Er.
        pose proof (inj_sim t _ _ _ _ _ _ _ _ Er Hinv1 Hk1 Hadj Hinj) as Hi.
        destruct o1 as [[r2|p2]|]; [contradiction | exfalso; inversion H; subst; eapply Hnp; reflexivity |].
        destruct Hi as (I1 & I2 & I3 & I4 & I5).
        destruct (run_loop exact b1 st2 rest) as [ds2 o2] eqn:El. inversion H; subst ds o; clear H.
        assert (Hsim2 : sim_inv st2 b1 rest).
        { split; [exact I4|]. split; [exact I5|]. split; [exact Hsa|]. rewrite I1.
          assert (Hsame : Forall (fun a => t_sd a = t_sd t) (rev inj)).
          { apply Forall_rev. eapply Forall_impl; [|exact Hadj]. intros a (_ & _ & Ha). exact Ha. }
          split.
          { apply desc_same_prefix; [exact Hsame|]. apply desc_cons; [exact Hsb|].
            intros b Hb. apply Hcross; [exact Hb | left; reflexivity]. }
          split.
          { intros b a Hb Ha. rewrite Forall_forall in Hle. apply in_app_or in Hb as [Hb|[<-|Hb]].
            - rewrite Forall_forall in Hsame. rewrite (Hsame b Hb). apply Hle. exact Ha.
            - apply Hle. exact Ha.
            - apply Hcross; [exact Hb | right; exact Ha]. }
          split; [exact Hval|]. split; [exact Hrow|].
          apply Forall_app. split; [apply Forall_rev; exact Hinj | constructor; assumption]. }
        specialize (IH _ _ _ _ El Hsim2 Hnp). rewrite I2, Hrec, I1 in IH.
        destruct (walk (record_all (record (abs_map (ps_map st)) t (denied_of d)) inj) (rev inj ++ t :: bef) rest)
          as [gs off] eqn:Ew.
        cbn [fst snd] in *.
        assert (Heff : effective (d :: dsi ++ ds2)
                       = ((t, denied_of d) :: map (fun a => (a, 0)) inj) ++ effective ds2).
        { unfold effective. rewrite map_cons, map_app. fold (effective dsi) (effective ds2).
          rewrite I3, Htx. reflexivity. }
        unfold agrees in *. destruct off as [c|].
        * destruct IH as (r & -> & [[Hc He] | (Hah & i & k & ti & tk & N1 & N2 & Hik & Hlt & S1 & S2 & Hsd & He & Hov)]).
          -- exists r. split; [reflexivity|]. left. split; [exact Hc|].
             rewrite Heff, He. reflexivity.
          -- exists r. split; [reflexivity|]. right. split; [exact Hah|].
             exists (S i), (S k), ti, tk. cbn [nth_error length firstn concat].
             repeat split; try assumption; try lia.
             ++ rewrite Heff, He. reflexivity.
             ++ intros Hl. apply Hov. lia.
        * destruct IH as (-> & He & Hl). split; [reflexivity|]. cbn [concat length]. split; [|lia].
          rewrite Heff, He. reflexivity.
      + (* the row is rejected *)
        inversion H; subst ds o; clear H.
        destruct Hstep as [(c & Hc & Hj) | (Hah & Hs & w1 & x & w2 & n & p & cc & rr & cr & sp & Ew & Ea & Hsd & Hlt)].
        * cbn [walk]. rewrite Hj. cbn [fst snd agrees]. exists r0. split; [reflexivity|]. left. auto.
        * subst rest.
          destruct (walk_finds_oversale x n p cc rr cr sp w2 Ea (t :: w1) (abs_map (ps_map st)) bef Hlt)
            as (cl & Ho & Hlen & Hcl).
          cbn [app] in Ho, Hlen, Hcl.
          destruct (walk (abs_map (ps_map st)) bef (t :: w1 ++ x :: w2)) as [gs off] eqn:Ew.
          cbn [fst snd] in *. subst off. cbn [agrees].
          exists r0. split; [reflexivity|]. right. split; [exact Hah|].
          exists 0%nat, (S (length w1)), t, x. cbn [nth_error firstn concat effective map].
          repeat split; try assumption; try lia.
          -- rewrite nth_error_app2 by lia. rewrite Nat.sub_diag. reflexivity.
          -- rewrite Ea. reflexivity.
      + exfalso. inversion H; subst. eapply Hnp. reflexivity.
  Qed.
End Whole.

(* ---- the groups of the walk are the input rows, each followed by the
   cost-base adjustments generated for it ---- *)
Definition group_ok (t : tx) (g : list (tx * Qc)) : Prop :=
  exists dn adj, g = (t, dn) :: map (fun a => (a, 0)) adj /\ Forall (adj_row t) adj.

Lemma walk_groups aft : forall hs bef,
  Forall2 group_ok (firstn (length (fst (walk hs bef aft))) aft) (fst (walk hs bef aft)).
Proof.
  induction aft as [|t rest IH]; intros hs bef; cbn [walk]; [constructor|].
  destruct (judge hs bef t rest) as [c|dn adj] eqn:Ej; [constructor|].
  specialize (IH (record_all (record hs t dn) adj) (rev adj ++ t :: bef)).
  destruct (walk (record_all (record hs t dn) adj) (rev adj ++ t :: bef) rest) as [gs o].
  cbn [fst length firstn] in *. constructor; [|exact IH].
  exists dn, adj. split; [reflexivity | eapply judge_adj; exact Ej].
Qed.

Lemma sorted_nth txs : sd_sorted txs ->
  forall j k tj tk, nth_error txs j = Some tj -> nth_error txs k = Some tk -> (j <= k)%nat ->
  (t_sd tj <= t_sd tk)%Z.
Proof.
  induction txs as [|t txs IH]; intros Hs j k tj tk Hj Hk Hle.
  - destruct j; discriminate Hj.
  - apply StronglySorted_inv in Hs as [Hs Hall]. destruct j as [|j]; destruct k as [|k]; cbn [nth_error] in *.
    + inversion Hj; inversion Hk; subst. lia.
    + inversion Hj; subst. rewrite Forall_forall in Hall. apply Hall. eapply nth_error_In. exact Hk.
    + lia.
    + eapply IH; eauto. lia.
Qed.

Section Top.
  Variable regof : N -> bool.
  Hypothesis regof_default : regof default_id = false.

  Theorem run_agrees init txs ds o :
    run exact init txs = (ds, o) ->
    init_ok2 init -> Forall (row_ok' regof) txs -> Forall vtx txs -> sd_sorted txs ->
    (forall p, o <> Some (SPanic p)) ->
    agrees txs (fst (walk (spec_init init) [] txs)) (snd (walk (spec_init init) [] txs)) ds o.
  Proof.
    unfold run. destruct txs as [|t txs]; intros H Hi HR HV Hs Hnp.
    - inversion H; subst. cbn. auto.
    - destruct (init_state exact init) as [st| r0 |q] eqn:Ei.
      + assert (Hinv : st_inv regof st /\ keys_nodup st).
        { unfold init_state in Ei. destruct init as [i|].
          - destruct (negb _); [discriminate|]. destruct (Hi i eq_refl) as (Hs' & Ha & _). split.
            + eapply set_latest_inv; [exact Ei| |exact Hs'|].
              * split; [split; cbn; [constructor | apply Qcle_refl]|].
                split; [reflexivity|]. split; [intros k s Hk; discriminate | reflexivity].
              * unfold af_ok. cbn. symmetry. exact regof_default.
            + eapply set_latest_keys; [exact Ei|]. constructor.
          - inversion Ei; subst. split; [|constructor].
            split; [split; cbn; [constructor | apply Qcle_refl]|].
            split; [reflexivity|]. split; [intros k s Hk; discriminate | reflexivity]. }
        destruct Hinv as [Hinv Hk].
        rewrite <- (init_state_abs _ _ Ei).
        apply (loop_sim regof (t :: txs) [] st ds o H); [|exact Hnp].
        split; [exact Hinv|]. split; [exact Hk|]. split; [exact Hs|]. split; [constructor|].
        split; [intros b a []|]. split; [exact HV|]. split; [exact HR | constructor].
      + exfalso. unfold init_state in Ei. destruct init as [i|]; [|discriminate].
        destruct (negb _); [discriminate|]. eapply set_latest_no_rej; exact Ei.
      + exfalso. inversion H; subst. eapply Hnp. reflexivity.
  Qed.

  (* a well-formed history does not panic under exact arithmetic (C05; the
     effective-cent panic is gone since the fix "treat a superficial loss that
     rounds to zero effective cents as no superficial loss") *)
  Lemma exact_no_panic init txs ds o :
    run exact init txs = (ds, o) ->
    init_ok2 init -> Forall (row_ok' regof) txs -> Forall vtx txs ->
    forall p, o <> Some (SPanic p).
  Proof.
    intros H Hi HR HV p Ho. subst o.
    exact (run_exact_never_panics regof regof_default init txs ds p H Hi HR HV).
  Qed.

  (* the over-sale reported early: the ledger stopped at the loss sale [i],
     whose 30-day look-ahead met the over-selling sale [k]; the first
     impossible transaction [j] of the history lies in between *)
  Definition early_report (init : option status) (txs : list tx) (j : nat) (c : offence)
             (ds : list delta) : Prop :=
    exists i k ti tk,
      nth_error txs i = Some ti /\ nth_error txs k = Some tk /\
      (i <= j <= k)%nat /\ (i < k)%nat /\
      is_sell (t_act ti) = true /\ is_sell (t_act tk) = true /\
      (t_sd tk <= t_sd ti + 30)%Z /\
      effective ds = rows_before init txs i /\
      (j = k -> c = OverSale) /\
      (forall tj, nth_error txs j = Some tj -> (t_sd tj <= t_sd ti + 30)%Z).

  Theorem rejection_matches_offence init txs ds o :
    run exact init txs = (ds, o) ->
    init_ok2 init -> Forall (row_ok' regof) txs -> Forall vtx txs -> sd_sorted txs ->
    match first_offence init txs with
    | None => o = None /\ effective ds = possible_rows init txs
    | Some (j, c) =>
        exists r, o = Some (SRej r) /\ listed r /\
          ((class_of r = Some c /\ effective ds = possible_rows init txs) \/
           (is_ahead r /\ early_report init txs j c ds))
    end.
  Proof.
    intros H Hi HR HV Hs.
    pose proof (exact_no_panic _ _ _ _ H Hi HR HV) as Hnp.
    pose proof (run_agrees _ _ _ _ H Hi HR HV Hs Hnp) as Ha.
    unfold first_offence, possible_rows, early_report, rows_before.
    destruct (walk (spec_init init) [] txs) as [gs off]. cbn [fst snd] in *.
    unfold agrees in Ha. destruct off as [c|]; cbn [option_map].
    - destruct Ha as (r & -> & Hcases). exists r. split; [reflexivity|].
      assert (Hl : listed r).
      { eapply (run_rej_listed regof regof_default init txs ds r H); [|exact HR].
        intros i E. destruct (Hi i E) as (A & B & _). split; assumption. }
      split; [exact Hl|]. destruct Hcases as [Hc | (Hah & Hw)]; [left; exact Hc | right].
      split; [exact Hah|].
      destruct Hw as (i & k & ti & tk & N1 & N2 & Hik & Hlt & S1 & S2 & Hsd & He & Hov).
      exists i, k, ti, tk. repeat split; try assumption; try lia.
      intros tj Hj. eapply Z.le_trans; [|exact Hsd]. eapply (sorted_nth txs Hs); eauto. lia.
    - destruct Ha as (-> & He & _). split; [reflexivity | exact He].
  Qed.

  Theorem rejected_iff_offending init txs ds o :
    run exact init txs = (ds, o) ->
    init_ok2 init -> Forall (row_ok' regof) txs -> Forall vtx txs -> sd_sorted txs ->
    ((exists r, o = Some (SRej r) /\ listed r) <-> (exists j c, first_offence init txs = Some (j, c))).
  Proof.
    intros H Hi HR HV Hs.
    pose proof (rejection_matches_offence _ _ _ _ H Hi HR HV Hs) as Hm.
    destruct (first_offence init txs) as [[j c]|].
    - destruct Hm as (r & -> & Hl & _). split; intros _; [exists j, c; reflexivity | exists r; auto].
    - destruct Hm as (-> & _). split; [intros (r & Hr & _); discriminate Hr | intros (j & c & E); discriminate E].
  Qed.

  Theorem accepted_iff_possible init txs ds o :
    run exact init txs = (ds, o) ->
    init_ok2 init -> Forall (row_ok' regof) txs -> Forall vtx txs -> sd_sorted txs ->
    (o = None <-> first_offence init txs = None).
  Proof.
    intros H Hi HR HV Hs.
    pose proof (rejection_matches_offence _ _ _ _ H Hi HR HV Hs) as Hm.
    destruct (first_offence init txs) as [[j c]|].
    - destruct Hm as (r & -> & _). split; intros E; discriminate E.
    - destruct Hm as (-> & _). split; reflexivity.
  Qed.
End Top.
