(* C04: "rejected exactly when impossible", for whole histories, exact
   arithmetic.  The ledger model [run exact] is compared with the declarative
   walk of Spec/Possible.v ([walk], [first_offence]) row by row: one
   simulation lemma gives both directions, because the walk is a function. *)
From Coq Require Import List NArith ZArith QArith Qcanon Bool Lia Sorted.
From ACB Require Import Base.Outcome Base.QcExtra Base.Fit Base.Arith Model.Tx Model.Ledger Model.Sfl
     Model.DeltaList Spec.AvgCost Spec.SflRule Spec.Possible Proofs.Tactics Proofs.C01Refine
     Proofs.C04Inv Proofs.C04Sum Proofs.C02Scan Proofs.C05Sites Proofs.C04Reject Proofs.C04Ahead.
Import ListNotations.
Local Open Scope Qc_scope.

(* ---- the helpers of the specification are those of the model ---- *)
Lemma add_once_eq a l : add_once a l = add_aff a l.
Proof. induction l as [|b l IH]; cbn [add_once add_aff]; [reflexivity|]. rewrite IH. reflexivity. Qed.
Lemma ins_by_id_eq a l : ins_by_id a l = ins_aff a l.
Proof. induction l as [|b l IH]; cbn [ins_by_id ins_aff]; [reflexivity|]. rewrite IH. reflexivity. Qed.
Lemma sort_by_id_eq l : fold_right ins_by_id [] l = sort_affs l.
Proof.
  unfold sort_affs. induction l as [|a l IH]; cbn [fold_right]; [reflexivity|].
  rewrite IH. apply ins_by_id_eq.
Qed.
Lemma all_shares_eq hs : all_shares hs = total_shares hs.
Proof. induction hs as [|[k h] hs IH]; cbn [all_shares total_shares]; [reflexivity|]. rewrite IH. reflexivity. Qed.
Lemma effective_cent_eq x : effective_cent x = eff_cent_val x.
Proof. reflexivity. Qed.

Lemma buyers_in_app w1 w2 acc : buyers_in (w1 ++ w2) acc = buyers_in w2 (buyers_in w1 acc).
Proof. unfold buyers_in. apply fold_left_app. Qed.
Lemma buyers_in_cons x w acc :
  buyers_in (x :: w) acc = buyers_in w (if is_buy (t_act x) then add_aff (t_af x) acc else acc).
Proof. unfold buyers_in. cbn [fold_left]. rewrite add_once_eq. reflexivity. Qed.

Lemma amem_aupdate {V} k k' (v : V) l : amem k (aupdate k' v l) = N.eqb k k' || amem k l.
Proof. unfold amem. rewrite alookup_aupdate. destruct (N.eqb k k'); reflexivity. Qed.

Lemma held_shares st af : fst (held (abs_map (ps_map st)) af) = last_sh st af.
Proof. rewrite held_next_pre. unfold hold_of. cbn [fst]. apply next_pre_sh. Qed.

Lemma valid_split_pos t : valid_tx t = true -> split_pos t.
Proof.
  unfold valid_tx, split_pos. destruct (t_act t); try (intros; exact I).
  cbn [valid_action]. intros H. apply andb_prop in H as [H1 H2]. split; now apply Qcltb_true.
Qed.

(* ---- the two scans, successful case: buyers and per-affiliate balances ---- *)
Section Scans.
  Variable dflt start : aff -> Qc.
  Hypothesis dflt_id : forall af af', af_id af = af_id af' -> dflt af = dflt af'.
  Hypothesis start_id : forall af af', af_id af = af_id af' -> start af = start af'.

  Definition members (s : scan) : Prop :=
    Forall (fun a => amem (af_id a) (sc_active s) = true) (sc_buyers s).

  Lemma members_more s k v eop acq :
    members s ->
    members {| sc_eop := eop; sc_acq := acq; sc_buyers := sc_buyers s;
               sc_active := aupdate k v (sc_active s) |}.
  Proof.
    unfold members. cbn [sc_buyers sc_active]. intros H. eapply Forall_impl; [|exact H].
    intros a Ha. cbv beta in *. rewrite amem_aupdate, Ha. apply orb_true_r.
  Qed.
  Lemma members_add s a v eop acq :
    members s ->
    members {| sc_eop := eop; sc_acq := acq; sc_buyers := add_aff a (sc_buyers s);
               sc_active := aupdate (af_id a) v (sc_active s) |}.
  Proof.
    unfold members. cbn [sc_buyers sc_active]. intros H.
    apply (add_aff_P (fun b => amem (af_id b) (aupdate (af_id a) v (sc_active s)) = true)).
    - rewrite amem_aupdate, N.eqb_refl. reflexivity.
    - eapply Forall_impl; [|exact H]. intros b Hb. cbv beta in *. rewrite amem_aupdate, Hb. apply orb_true_r.
  Qed.

  Lemma fwd_scan_ok last w : forall adj s seen s',
    adj_inv adj seen ->
    (forall af, act s dflt af = start af + net_after (af_id af) [] seen) ->
    members s ->
    fwd_scan exact last dflt w adj s = Ok s' ->
    Forall (fun x => Z.leb (t_sd x) last = true) w ->
    (forall af, act s' dflt af = start af + net_after (af_id af) [] (seen ++ w)) /\
    sc_buyers s' = buyers_in w (sc_buyers s) /\ members s'.
  Proof.
    induction w as [|x w IH]; intros adj s seen s' Hadj Hact Hm H HF; cbn [fwd_scan] in H.
    - inversion H; subst s'. rewrite app_nil_r. auto.
    - apply Forall_cons_iff in HF as [Hx HF].
      assert (Hlt : Z.ltb last (t_sd x) = false) by (apply Z.ltb_ge; apply Z.leb_le; exact Hx).
      rewrite Hlt in H.
      assert (Hnet : forall af, net_after (af_id af) [] (seen ++ [x])
                                = net_after (af_id af) [] seen
                                  + (if N.eqb (af_id (t_af x)) (af_id af) then net_shares x * fadj (af_id af) seen else 0)).
      { intros af. rewrite net_after_snoc. reflexivity. }
      replace (seen ++ x :: w) with ((seen ++ [x]) ++ w) by (rewrite <- app_assoc; reflexivity).
      rewrite buyers_in_cons.
      destruct (t_act x) as [sh aps com rate crate | sh aps com rate crate sp | aps rate | sh aps | post pre io] eqn:Ea;
        cbn [is_buy].
      + bind_as H as b E1. apply gez_mul_exact in E1 as [-> _].
        bind_as H as eop E2. bind_as H as na E3. apply gez_add_exact in E3 as [-> _]. bind_as H as acq E4.
        eapply IH in H; [exact H | apply adj_inv_keep; [exact Hadj | rewrite Ea; reflexivity] | | apply members_add; exact Hm | exact HF].
        intros af. rewrite act_update, Hnet. unfold net_shares, buy_shares, sell_shares. rewrite Ea.
        rewrite (N.eqb_sym (af_id (t_af x)) (af_id af)).
        destruct (N.eqb_spec (af_id af) (af_id (t_af x))) as [e|n0].
        * fold (act s dflt (t_af x)). rewrite (Hact (t_af x)), (Hadj (t_af x)), e, (start_id _ _ e). ring.
        * rewrite (Hact af). ring.
      + bind_as H as b E1. apply gez_mul_exact in E1 as [-> _].
        cbn [a_sub exact bind] in H. if_inv H. if_inv H.
        fold (act s dflt (t_af x)) in H.
        eapply IH in H; [exact H | apply adj_inv_keep; [exact Hadj | rewrite Ea; reflexivity] | | apply members_more; exact Hm | exact HF].
        intros af. rewrite act_update, Hnet. unfold net_shares, buy_shares, sell_shares. rewrite Ea.
        rewrite (N.eqb_sym (af_id (t_af x)) (af_id af)).
        destruct (N.eqb_spec (af_id af) (af_id (t_af x))) as [e|n0].
        * rewrite (Hact (t_af x)), (Hadj (t_af x)), e, (start_id _ _ e). ring.
        * rewrite (Hact af). ring.
      + eapply IH in H; [exact H | apply adj_inv_keep; [exact Hadj | rewrite Ea; reflexivity] | | exact Hm | exact HF].
        intros af. rewrite Hnet, (Hact af). unfold net_shares, buy_shares, sell_shares. rewrite Ea.
        destruct (N.eqb _ _); ring.
      + eapply IH in H; [exact H | apply adj_inv_keep; [exact Hadj | rewrite Ea; reflexivity] | | exact Hm | exact HF].
        intros af. rewrite Hnet, (Hact af). unfold net_shares, buy_shares, sell_shares. rewrite Ea.
        destruct (N.eqb _ _); ring.
      + unfold split_factor in H.
        bind_as H as f E1. apply pos_div_exact in E1 as (-> & _ & _).
        bind_as H as nsa E2. apply pos_div_exact in E2 as (-> & _ & _).
        eapply IH in H; [exact H | | | exact Hm | exact HF].
        * apply adj_inv_step; [exact Hadj | rewrite Ea; reflexivity|]. unfold split_factor_of. rewrite Ea. reflexivity.
        * intros af. rewrite Hnet, (Hact af). unfold net_shares, buy_shares, sell_shares. rewrite Ea.
          destruct (N.eqb _ _); ring.
  Qed.

  Lemma bwd_scan_ok first w : forall adj s s',
    members s ->
    bwd_scan exact first dflt w adj s = Ok s' ->
    Forall (fun x => Z.leb first (t_sd x) = true) w ->
    (forall af, act s' dflt af = act s dflt af) /\
    sc_buyers s' = buyers_in w (sc_buyers s) /\ members s'.
  Proof.
    induction w as [|x w IH]; intros adj s s' Hm H HF; cbn [bwd_scan] in H.
    - inversion H; subst s'. auto.
    - apply Forall_cons_iff in HF as [Hx HF].
      assert (Hlt : Z.ltb (t_sd x) first = false) by (apply Z.ltb_ge; apply Z.leb_le; exact Hx).
      rewrite Hlt in H. rewrite buyers_in_cons.
      destruct (t_act x) as [sh aps com rate crate | sh aps com rate crate sp | aps rate | sh aps | post pre io] eqn:Ea;
        cbn [is_buy]; try (eapply IH; eassumption).
      + bind_as H as b E1. bind_as H as acq E2.
        eapply IH in H; [| | exact HF].
        * destruct H as (H1 & H2 & H3). split; [|split; [exact H2 | exact H3]].
          intros af. rewrite H1. unfold act. cbn [sc_active].
          destruct (amem (af_id (t_af x)) (sc_active s)) eqn:Em; [reflexivity|].
          rewrite alookup_aupdate. destruct (N.eqb_spec (af_id af) (af_id (t_af x))) as [e|n0]; [|reflexivity].
          unfold amem in Em. rewrite e. destruct (alookup (af_id (t_af x)) (sc_active s)); [discriminate|].
          symmetry. apply dflt_id. exact e.
        * unfold members in *. cbn [sc_buyers sc_active].
          destruct (amem (af_id (t_af x)) (sc_active s)) eqn:Em.
          -- apply (add_aff_P (fun b => amem (af_id b) (sc_active s) = true)); assumption.
          -- apply (add_aff_P (fun b => amem (af_id b) (aupdate (af_id (t_af x)) (dflt (t_af x)) (sc_active s)) = true)).
             ++ rewrite amem_aupdate, N.eqb_refl. reflexivity.
             ++ eapply Forall_impl; [|exact Hm]. intros b0 Hb. cbv beta in *. rewrite amem_aupdate, Hb. apply orb_true_r.
      + unfold split_factor in H. bind_as H as f E1. bind_as H as nsa E2. eapply IH; eassumption.
  Qed.
End Scans.

(* ---- the ratio denominators and the generated adjustments ---- *)
Lemma sum_buyers_exact active l : forall acc total,
  sum_buyers exact active l acc = Ok total ->
  total = acc + sum_affs (fun af => match alookup (af_id af) active with Some d => d | None => 0 end) l.
Proof.
  induction l as [|a l IH]; intros acc total H; cbn [sum_buyers sum_affs] in *.
  - inversion H; subst. ring.
  - bind_as H as acc' E. apply gez_add_exact in E as [-> _]. apply IH in H. rewrite H. ring.
Qed.

Lemma sum_affs_ext f g l : Forall (fun a => f a = g a) l -> sum_affs f l = sum_affs g l.
Proof.
  induction l as [|a l IH]; intros H; cbn [sum_affs]; [reflexivity|].
  apply Forall_cons_iff in H as [Ha H]. rewrite Ha, (IH H). reflexivity.
Qed.

Lemma portions_gen active total eop t loss l : forall ps txs,
  Forall (fun af => alookup (af_id af) active = Some (eop af)) l ->
  portions active total l = Ok ps ->
  gen_sfla exact t loss ps = Ok txs ->
  txs = adjustments t loss total eop l.
Proof.
  induction l as [|af l IH]; intros ps txs HF Hp Hg; cbn [portions adjustments] in *.
  - inversion Hp; subst ps. cbn [gen_sfla] in Hg. inversion Hg; reflexivity.
  - apply Forall_cons_iff in HF as [Ha HF]. rewrite Ha in Hp.
    bind_as Hp as rest Er. inversion Hp; subst ps; clear Hp. cbn [gen_sfla] in Hg.
    destruct (negb (Qceqb (eop af) 0) && negb (af_reg af)).
    + cbn [a_div exact] in Hg. destruct (Qceqb total 0); cbn [bind] in Hg; [discriminate|].
      bind_as Hg as q1 E1. apply gez_unwrap_ok in E1 as [-> _].
      bind_as Hg as q2 E2. apply pos_unwrap_ok in E2 as [-> _].
      unfold neg_mul, pos_mul in Hg. cbn [a_mul exact bind] in Hg.
      bind_as Hg as m E3. apply pos_unwrap_ok in E3 as [-> _].
      bind_as Hg as amt E4. apply pos_unwrap_ok in E4 as [-> _].
      bind_as Hg as rest' E5. inversion Hg; subst txs. f_equal. eapply IH; eauto.
    + eapply IH; eauto.
Qed.

Lemma adjustments_shape t loss total eop l :
  Forall (fun a => is_sfla (t_act a) = true /\ af_reg (t_af a) = false /\ t_sd a = t_sd t /\ In (t_af a) l)
         (adjustments t loss total eop l).
Proof.
  induction l as [|af l IH]; cbn [adjustments]; [constructor|].
  assert (IH' : Forall (fun a => is_sfla (t_act a) = true /\ af_reg (t_af a) = false /\ t_sd a = t_sd t /\ In (t_af a) (af :: l))
                       (adjustments t loss total eop l)).
  { eapply Forall_impl; [|exact IH]. intros a (H1 & H2 & H3 & H4). repeat split; auto. right; exact H4. }
  destruct (negb (Qceqb (eop af) 0)); cbn [andb]; [|exact IH'].
  destruct (af_reg af) eqn:Er; cbn [negb]; [exact IH'|].
  constructor; [|exact IH']. cbn. repeat split; auto.
Qed.

(* ---- get_superficial_loss_info, successful and superficial: the buyers and
   what each holds at the end of the window ---- *)
Lemma sfl_info_full bef t sold aft st s :
  sd_sorted aft -> sd_sorted_desc bef -> Forall split_pos aft ->
  sfl_info exact bef t sold aft st = Ok (Some s) ->
  let wf := filter (in_window_after t) aft in
  let wb := filter (in_window_before t) bef in
  sc_buyers s = buyers_in (wf ++ wb) [] /\
  Forall (fun af => alookup (af_id af) (sc_active s)
                    = Some (shares_after (af_id af) (shares_after_sale st t sold af) wf * fadj (af_id af) wf))
         (sc_buyers s).
Proof.
  intros Hsa Hsb Hpos H wf wb. unfold sfl_info in H. cbn [a_sub exact bind] in H.
  if_inv H. if_inv H.
  match type of H with bind (fwd_scan exact ?l ?d aft [] ?s0) _ = _ => set (dfl := d) in *; set (s0' := s0) in * end.
  bind_as H as s1 E1. rewrite fwd_scan_filter in E1 by assumption.
  assert (Hd : forall af af', af_id af = af_id af' -> dfl af = dfl af').
  { intros af af' e. unfold dfl, latest_for. rewrite e. reflexivity. }
  assert (Hs : forall af af', af_id af = af_id af' -> shares_after_sale st t sold af = shares_after_sale st t sold af').
  { intros af af' e. unfold shares_after_sale, latest_for. rewrite e. reflexivity. }
  assert (Hact : forall af, act s0' dfl af = shares_after_sale st t sold af + net_after (af_id af) [] []).
  { intros af. unfold act, shares_after_sale, s0', dfl. cbn [sc_active alookup net_after].
    destruct (N.eqb (af_id af) (af_id (t_af t))) eqn:Eqs.
    - apply N.eqb_eq in Eqs. unfold latest_for. rewrite Eqs. ring.
    - ring. }
  apply (fwd_scan_ok dfl (shares_after_sale st t sold) Hs _ _ _ _ [] _ adj_inv_nil Hact) in E1 as (A1 & B1 & M1);
    [| constructor | apply (filter_Forall (fun x => Z.leb (t_sd x) (t_sd t + Model.Sfl.window_days)))].
  if_inv H.
  bind_as H as s2 E2. rewrite bwd_scan_filter in E2 by assumption.
  apply (bwd_scan_ok dfl Hd) in E2 as (A2 & B2 & M2);
    [| exact M1 | apply (filter_Forall (fun x => Z.leb (t_sd t - Model.Sfl.window_days) (t_sd x)))].
  if_inv H. inversion H; subst s; clear H.
  split.
  - rewrite B2, B1. cbn [sc_buyers s0']. rewrite buyers_in_app. reflexivity.
  - unfold members in M2. eapply Forall_impl; [|exact M2]. intros af Hm. cbv beta in Hm.
    specialize (A2 af). specialize (A1 af). unfold act in A2 at 1. unfold amem in Hm.
    destruct (alookup (af_id af) (sc_active s2)) as [d|]; [|discriminate].
    rewrite A2, A1. cbn [app]. f_equal.
    assert (Hp : Forall split_pos wf).
    { unfold wf. clear -Hpos. induction aft as [|x l IHl]; cbn [filter]; [constructor|].
      apply Forall_cons_iff in Hpos as [Hx Hl]. destruct (in_window_after t x); [constructor|]; auto. }
    pose proof (shares_after_adj (af_id af) (shares_after_sale st t sold af) [] wf Hp) as Hsa'.
    cbn [app fadj] in Hsa'. unfold wf in *. unfold in_window_after, sfl_window, Model.Sfl.window_days in *.
    rewrite Hsa'. ring.
Qed.

(* ---- classes ---- *)
Definition class_of (r : rej) : option offence :=
  match r with
  | RejOversale => Some OverSale
  | RejRocExceeds => Some RocExceeds
  | RejRocRegistered => Some RocRegistered
  | RejSflaRegistered => Some SflaRegistered
  | RejRevSplitFraction => Some RevSplitFraction
  | RejSflNoLoss => Some SflNoLoss
  | RejSflMismatch => Some SflMismatch
  | _ => None
  end.
(* the over-sale found ahead, inside the 30-day window of a loss sale *)
Definition is_ahead (r : rej) : Prop := r = RejAheadAllNegative \/ r = RejAheadAfNegative.

Lemma filter_split_pos (f : tx -> bool) l : Forall split_pos l -> Forall split_pos (filter f l).
Proof.
  induction l as [|x l IH]; intros H; cbn [filter]; [constructor|].
  apply Forall_cons_iff in H as [Hx H]. destruct (f x); [constructor|]; auto.
Qed.

Section Sim.
  Variable regof : N -> bool.
  Hypothesis regof_default : regof default_id = false.

  Lemma all_after_sale_hs st n :
    st_inv regof st -> all_after_sale st n = all_shares (abs_map (ps_map st)) - n.
  Proof.
    intros (_ & Hsum & _ & Hl). unfold all_after_sale. unfold st_sum in Hsum.
    rewrite all_shares_eq, <- Hsum, Hl. reflexivity.
  Qed.

  (* get_delta_superficial_loss_info against the declarative rule *)
  Lemma delta_sfl_sim bef t n declared aft st g :
    st_inv regof st -> sd_sorted aft -> sd_sorted_desc bef -> Forall split_pos aft ->
    match delta_sfl exact bef t n declared aft st g with
    | Ok m =>
        judge_loss (abs_map (ps_map st)) bef t n g declared aft
        = Goes (match m with Some (i, _) => sf_amount i | None => 0 end)
               (match m with Some (_, inj) => inj | None => [] end)
    | Rej r =>
        (r = RejSflMismatch /\ judge_loss (abs_map (ps_map st)) bef t n g declared aft = Offends SflMismatch)
        \/ sfl_info exact bef t n aft st = Rej r
    | Panic _ => True
    end.
  Proof.
    intros Hinv Hsa Hsb Hpos. unfold delta_sfl.
    destruct (sfl_info exact bef t n aft st) as [i| r0 |p0] eqn:Ei; cbn [bind]; [| right; reflexivity | exact I].
    pose proof (sfl_info_rule _ _ _ _ _ _ Hsa Hsb Ei) as Hrule.
    rewrite (all_after_sale_hs st n Hinv) in Hrule.
    unfold judge_loss. cbv zeta.
    destruct i as [s|].
    - (* superficial *)
      destruct Hrule as (Hacq & Heop & Hq1 & Hq2).
      pose proof (sfl_info_full _ _ _ _ _ _ Hsa Hsb Hpos Ei) as (Hb & Hact). cbv zeta in Hb, Hact.
      apply Qcltb_true in Hq1, Hq2. rewrite Hq1, Hq2. cbn [andb].
      unfold sfl_ratio. destruct (sc_buyers s) as [|b0 bs] eqn:Ebs; cbn [bind]; [exact I|]. rewrite <- Ebs in *.
      destruct (sum_buyers exact (sc_active s) (sort_affs (sc_buyers s)) 0) as [total| r1 |p1] eqn:Et; cbn [bind];
        [| exfalso; eapply sum_buyers_norej; exact Et | exact I].
      match goal with |- context [bind ?c _] =>
        match c with (if _ then _ else _) => destruct c as [ps| r1 |p1] eqn:Eps end end; cbn [bind];
        [| exfalso; destruct (Qcltb 0 total); [eapply portions_norej; exact Eps | discriminate Eps] | exact I].
      cbn [sr_num sr_den sr_portions].
      cbn [a_div exact]. destruct (Qceqb n 0); cbn [bind]; [exact I|].
      destruct (pos_unwrap Site.ratio_to_pos (min3 n (sc_acq s) (sc_eop s) / n)) as [q1| r1 |p1] eqn:E1; cbn [bind];
        [apply pos_unwrap_ok in E1 as [-> _] | nrx E1 | exact I].
      unfold neg_mul_pos at 1. cbn [a_mul exact bind].
      destruct (neg_unwrap Site.neg_mul_pos (g * (min3 n (sc_acq s) (sc_eop s) / n))) as [l| r1 |p1] eqn:E2; cbn [bind];
        [apply neg_unwrap_ok in E2 as [-> _] | nrx E2 | exact I].
      destruct (eff_cent exact (g * (min3 n (sc_acq s) (sc_eop s) / n))) as [c| r1 |p1] eqn:E3; cbn [bind];
        [apply eff_cent_exact in E3 | exfalso; eapply eff_cent_norej; exact E3 | exact I].
      destruct (neg_unwrap Site.eff_cent c) as [calc| r1 |p1] eqn:E4; cbn [bind];
        [apply neg_unwrap_ok in E4 as [-> _] | nrx E4 | exact I].
      assert (Hcalc : c = effective_cent (g * (Qcmin n (Qcmin (rule_acquired bef t aft)
                                   (rule_held_end (all_shares (abs_map (ps_map st)) - n) t aft)) / n))).
      { rewrite E3, min3_Qcmin, Hacq, Heop. reflexivity. }
      rewrite <- Hcalc.
      destruct declared as [[sv force]|].
      + destruct force; cbn [bind negb andb a_sub exact].
        * destruct (Qcltb sv 0) eqn:Esv; cbn [negb].
          -- destruct (neg_div exact sv g) as [q| r1 |p1] eqn:E5; cbn [bind]; [| nrx E5 | exact I].
             destruct (pos_mul exact q n) as [nn| r1 |p1] eqn:E6; cbn [bind]; [| nrx E6 | exact I].
             reflexivity.
          -- reflexivity.
        * destruct (Qcltb (Qcfrac 1 1000) (Qcabs (c - sv))); cbn [bind]; [left; split; reflexivity|].
          destruct (Qcltb sv 0) eqn:Esv; cbn [negb].
          -- destruct (neg_div exact sv g) as [q| r1 |p1] eqn:E5; cbn [bind]; [| nrx E5 | exact I].
             destruct (pos_mul exact q n) as [nn| r1 |p1] eqn:E6; cbn [bind]; [| nrx E6 | exact I].
             reflexivity.
          -- reflexivity.
      + destruct (neg_unwrap Site.sfl_neg c) as [c'| r1 |p1] eqn:E5; cbn [bind];
          [apply neg_unwrap_ok in E5 as [-> _] | nrx E5 | exact I].
        destruct (gen_sfla exact t c ps) as [txs| r1 |p1] eqn:E6; cbn [bind];
          [| exfalso; eapply gen_sfla_norej; exact E6 | exact I].
        cbn [sf_amount]. f_equal.
        (* the generated rows *)
        assert (HF : Forall (fun af => alookup (af_id af) (sc_active s)
                     = Some (shares_after (af_id af)
                               (fst (held (abs_map (ps_map st)) af) - (if N.eqb (af_id af) (af_id (t_af t)) then n else 0))
                               (filter (in_window_after t) aft)
                             * fadj (af_id af) (filter (in_window_after t) aft)))
                    (sort_affs (sc_buyers s))).
        { apply sort_affs_P. eapply Forall_impl; [|exact Hact]. intros af Ha. cbv beta in Ha.
          rewrite Ha. rewrite held_shares. reflexivity. }
        assert (Hbs : buyers (filter (in_window_after t) aft ++ filter (in_window_before t) bef)
                      = sort_affs (sc_buyers s)).
        { unfold buyers. rewrite sort_by_id_eq, Hb. reflexivity. }
        rewrite Hbs.
        apply sum_buyers_exact in Et.
        rewrite (sum_affs_ext _ (fun af => shares_after (af_id af)
                               (fst (held (abs_map (ps_map st)) af) - (if N.eqb (af_id af) (af_id (t_af t)) then n else 0))
                               (filter (in_window_after t) aft)
                             * fadj (af_id af) (filter (in_window_after t) aft))) in Et.
        2: { eapply Forall_impl; [|exact HF]. intros af Ha. cbv beta in Ha. rewrite Ha. reflexivity. }
        assert (Et' : total = sum_affs (fun af => shares_after (af_id af)
                               (fst (held (abs_map (ps_map st)) af) - (if N.eqb (af_id af) (af_id (t_af t)) then n else 0))
                               (filter (in_window_after t) aft)
                             * fadj (af_id af) (filter (in_window_after t) aft)) (sort_affs (sc_buyers s)))
          by (rewrite Et; ring).
        rewrite <- Et'.
        destruct (Qcltb 0 total).
        * symmetry. eapply portions_gen; eauto.
        * inversion Eps; subst ps. cbn [gen_sfla] in E6. inversion E6; reflexivity.
    - (* not superficial *)
      assert (Hsup : Qcltb 0 (rule_acquired bef t aft)
                     && Qcltb 0 (rule_held_end (all_shares (abs_map (ps_map st)) - n) t aft) = false).
      { destruct (Qcltb_spec 0 (rule_acquired bef t aft)) as [H1|]; [|reflexivity].
        destruct (Qcltb_spec 0 (rule_held_end (all_shares (abs_map (ps_map st)) - n) t aft)) as [H2|]; [|reflexivity].
        exfalso. apply Hrule. split; assumption. }
      rewrite Hsup. cbn [sfl_ratio bind].
      destruct declared as [[sv force]|]; [|reflexivity].
      destruct force; cbn [bind negb andb a_sub exact].
      + destruct (Qcltb sv 0) eqn:Esv; cbn [negb].
        * destruct (neg_div exact sv g) as [q| r1 |p1] eqn:E5; cbn [bind]; [| nrx E5 | exact I].
          destruct (pos_mul exact q n) as [nn| r1 |p1] eqn:E6; cbn [bind]; [| nrx E6 | exact I].
          reflexivity.
        * reflexivity.
      + destruct (Qcltb (Qcfrac 1 1000) (Qcabs (0 - sv))); cbn [bind]; [left; split; reflexivity|].
        destruct (Qcltb sv 0) eqn:Esv; cbn [negb].
        * destruct (neg_div exact sv g) as [q| r1 |p1] eqn:E5; cbn [bind]; [| nrx E5 | exact I].
          destruct (pos_mul exact q n) as [nn| r1 |p1] eqn:E6; cbn [bind]; [| nrx E6 | exact I].
          reflexivity.
        * reflexivity.
  Qed.
End Sim.

(* ---- sums over a duplicate-free list of affiliate ids ---- *)
Lemma sum_over_update ids k v f :
  NoDup ids -> In k ids ->
  sum_over ids (fun id => if N.eqb id k then v else f id) = sum_over ids f - f k + v.
Proof.
  intros Hnd Hin.
  rewrite (sum_over_ext _ _ (fun id => f id + (if N.eqb k id then v - f k else 0))).
  2: { intros id. rewrite (N.eqb_sym id k). destruct (N.eqb_spec k id) as [->|]; ring. }
  rewrite sum_over_plus, (sum_over_indicator _ _ _ Hnd Hin). ring.
Qed.

Lemma sum_over_member ids k f :
  (forall id, 0 <= f id) -> In k ids -> f k <= sum_over ids f.
Proof.
  intros Hf. induction ids as [|i ids IH]; intros Hin; [contradiction|]. cbn [sum_over].
  assert (Hrest : 0 <= sum_over ids f).
  { clear IH Hin. induction ids as [|j ids IHj]; cbn [sum_over]; [apply Qcle_refl|]. pose proof (Hf j). qc_lra. }
  destruct Hin as [->|Hin].
  - qc_lra.
  - specialize (IH Hin). pose proof (Hf i). qc_lra.
Qed.

Lemma shares_of_notin k (m : holdings) : ~ In k (map fst m) -> shares_of m k = 0.
Proof.
  unfold shares_of. induction m as [|[k' h] m IH]; intros Hn; cbn [alookup]; [reflexivity|].
  destruct (N.eqb_spec k k') as [->|]; [exfalso; apply Hn; left; reflexivity|].
  apply IH. intros Hc. apply Hn. right; exact Hc.
Qed.

Lemma total_as_sum (m : holdings) ids :
  NoDup (map fst m) -> NoDup ids -> incl (map fst m) ids ->
  total_shares m = sum_over ids (shares_of m).
Proof.
  intros Hm Hnd. induction m as [|[k h] m IH]; intros Hin.
  - cbn [total_shares]. clear. induction ids as [|i ids IHi]; cbn [sum_over]; [reflexivity|].
    rewrite <- IHi. unfold shares_of. cbn [alookup]. ring.
  - cbn [map fst] in Hm, Hin. apply NoDup_cons_iff in Hm as [Hk Hm].
    cbn [total_shares fst]. rewrite (IH Hm) by (intros x Hx; apply Hin; right; exact Hx).
    rewrite (sum_over_ext _ (shares_of ((k, h) :: m)) (fun id => if N.eqb id k then fst h else shares_of m id)).
    2: { intros id. unfold shares_of. cbn [alookup]. destruct (N.eqb id k); reflexivity. }
    rewrite sum_over_update; [|exact Hnd | apply Hin; left; reflexivity].
    rewrite (shares_of_notin _ _ Hk). ring.
Qed.

Definition mkaf (id : N) : aff := {| af_id := id; af_reg := false; af_dflt := false |}.

(* ---- the look-ahead, rejecting case: a later sale inside the window sells
   more than its affiliate's share ledger holds (both look-ahead rejections) ---- *)
Section Ahead2.
  Variable last : Z.
  Variable dflt start : aff -> Qc.
  Hypothesis dflt_id : forall af af', af_id af = af_id af' -> dflt af = dflt af'.
  Hypothesis start_id : forall af af', af_id af = af_id af' -> start af = start af'.
  Variable ids : list N.
  Hypothesis ids_nodup : NoDup ids.

  Lemma act_id s af af' : af_id af = af_id af' -> act s dflt af = act s dflt af'.
  Proof. intros e. unfold act. rewrite e. destruct (alookup _ _); [reflexivity | apply dflt_id; exact e]. Qed.

  Lemma fwd_scan_rej_witness w : forall adj s seen r,
    adj_inv adj seen -> Forall split_pos seen -> Forall split_pos w ->
    Forall (fun x => In (af_id (t_af x)) ids) w ->
    (forall af, act s dflt af = start af + net_after (af_id af) [] seen) ->
    sc_eop s = sum_over ids (fun id => act s dflt (mkaf id)) ->
    (forall af, 0 <= act s dflt af) ->
    fwd_scan exact last dflt w adj s = Rej r ->
    exists w1 x w2 n p c rr cr sp, w = w1 ++ x :: w2 /\ t_act x = Sell n p c rr cr sp /\
      (t_sd x <= last)%Z /\
      shares_after (af_id (t_af x)) (start (t_af x)) (seen ++ w1) < n.
  Proof.
    induction w as [|x w IH]; intros adj s seen r Hadj Hps Hpw Hids Hact Hsum Hnn H; cbn [fwd_scan] in H; [discriminate|].
    apply Forall_cons_iff in Hpw as [Hpx Hpw]. apply Forall_cons_iff in Hids as [Hix Hids].
    assert (Hps' : Forall split_pos (seen ++ [x])) by (apply Forall_app; split; [exact Hps | constructor; [exact Hpx | constructor]]).
    destruct (Z.ltb_spec last (t_sd x)) as [|Hwin]; [discriminate|].
    assert (Hlift : (exists w1 x0 w2 n p c rr cr sp, w = w1 ++ x0 :: w2 /\ t_act x0 = Sell n p c rr cr sp /\
                       (t_sd x0 <= last)%Z /\
                       shares_after (af_id (t_af x0)) (start (t_af x0)) ((seen ++ [x]) ++ w1) < n) ->
                    exists w1 x0 w2 n p c rr cr sp, x :: w = w1 ++ x0 :: w2 /\ t_act x0 = Sell n p c rr cr sp /\
                       (t_sd x0 <= last)%Z /\
                       shares_after (af_id (t_af x0)) (start (t_af x0)) (seen ++ w1) < n).
    { intros (w1 & x0 & w2 & n & p & c & rr & cr & sp & Ew & Ea & Hsd & Hlt).
      exists (x :: w1), x0, w2, n, p, c, rr, cr, sp. split; [rewrite Ew; reflexivity|]. split; [exact Ea|].
      split; [exact Hsd|]. rewrite <- app_assoc in Hlt. exact Hlt. }
    assert (Hnet : forall af, net_after (af_id af) [] (seen ++ [x])
                              = net_after (af_id af) [] seen
                                + (if N.eqb (af_id (t_af x)) (af_id af) then net_shares x * fadj (af_id af) seen else 0)).
    { intros af. rewrite net_after_snoc. reflexivity. }
    destruct (t_act x) as [sh aps com rate crate | sh aps com rate crate sp | aps rate | sh aps | post pre io] eqn:Ea.
    - (* Buy *)
      brej H as b E1. apply gez_mul_exact in E1 as [-> Hb].
      brej H as eop E2. apply gez_add_exact in E2 as [-> _].
      brej H as na E3. apply gez_add_exact in E3 as [-> _]. brej H as acq E4.
      apply Hlift. eapply IH; [apply adj_inv_keep; [exact Hadj | rewrite Ea; reflexivity] | exact Hps' | exact Hpw | exact Hids | | | | exact H].
      + intros af. rewrite act_update, Hnet. unfold net_shares, buy_shares, sell_shares. rewrite Ea.
        rewrite (N.eqb_sym (af_id (t_af x)) (af_id af)).
        destruct (N.eqb_spec (af_id af) (af_id (t_af x))) as [e|n0].
        * fold (act s dflt (t_af x)). rewrite (Hact (t_af x)), (Hadj (t_af x)), e, (start_id _ _ e). ring.
        * rewrite (Hact af). ring.
      + cbn [sc_eop].
        rewrite (sum_over_ext _ _ (fun id => if N.eqb id (af_id (t_af x))
                   then act s dflt (t_af x) + sh * adj_of (t_af x) adj else act s dflt (mkaf id))).
        2: { intros id. rewrite act_update. reflexivity. }
        rewrite sum_over_update by assumption. rewrite Hsum.
        rewrite (act_id s (mkaf (af_id (t_af x))) (t_af x)) by reflexivity. ring.
      + intros af. rewrite act_update. destruct (N.eqb _ _); [|apply Hnn].
        fold (act s dflt (t_af x)). pose proof (Hnn (t_af x)). qc_lra.
    - (* Sell *)
      brej H as b E1. apply gez_mul_exact in E1 as [-> Hb].
      cbn [a_sub exact bind] in H. fold (act s dflt (t_af x)) in H.
      assert (Hmem : act s dflt (t_af x) <= sc_eop s).
      { rewrite Hsum. rewrite (act_id s (t_af x) (mkaf (af_id (t_af x)))) by reflexivity.
        apply (sum_over_member ids (af_id (t_af x)) (fun id => act s dflt (mkaf id))); [|exact Hix].
        intros id. apply Hnn. }
      destruct (Qcltb_spec (act s dflt (t_af x) - sh * adj_of (t_af x) adj) 0) as [Hneg|Hok].
      + (* this row oversells (whichever of the two messages is raised) *)
        exists [], x, w, sh, aps, com, rate, crate, sp. split; [reflexivity|]. split; [exact Ea|].
        split; [exact Hwin|].
        rewrite app_nil_r.
        pose proof (shares_after_adj (af_id (t_af x)) (start (t_af x)) [] seen Hps) as Hsa.
        cbn [app fadj] in Hsa.
        rewrite (Hact (t_af x)), (Hadj (t_af x)) in Hneg.
        assert (E : start (t_af x) + net_after (af_id (t_af x)) [] seen - sh * fadj (af_id (t_af x)) seen
                    = (shares_after (af_id (t_af x)) (start (t_af x)) seen - sh) * fadj (af_id (t_af x)) seen).
        { assert (Hsa' : shares_after (af_id (t_af x)) (start (t_af x)) seen * fadj (af_id (t_af x)) seen
                         = start (t_af x) + net_after (af_id (t_af x)) [] seen) by (rewrite Hsa; ring).
          rewrite <- Hsa'. ring. }
        rewrite E in Hneg. apply mul_neg_pos in Hneg; [|apply fadj_pos; exact Hps].
        remember (shares_after (af_id (t_af x)) (start (t_af x)) seen) as sa. clear - Hneg. qc_lra.
      + destruct (Qcltb_spec (sc_eop s - sh * adj_of (t_af x) adj) 0) as [Hall|Hall].
        { exfalso. apply Hok. qc_lra. }
        apply Hlift. eapply IH; [apply adj_inv_keep; [exact Hadj | rewrite Ea; reflexivity] | exact Hps' | exact Hpw | exact Hids | | | | exact H].
        * intros af. rewrite act_update, Hnet. unfold net_shares, buy_shares, sell_shares. rewrite Ea.
          rewrite (N.eqb_sym (af_id (t_af x)) (af_id af)).
          destruct (N.eqb_spec (af_id af) (af_id (t_af x))) as [e|n0].
          -- rewrite (Hact (t_af x)), (Hadj (t_af x)), e, (start_id _ _ e). ring.
          -- rewrite (Hact af). ring.
        * cbn [sc_eop].
          rewrite (sum_over_ext _ _ (fun id => if N.eqb id (af_id (t_af x))
                     then act s dflt (t_af x) - sh * adj_of (t_af x) adj else act s dflt (mkaf id))).
          2: { intros id. rewrite act_update. reflexivity. }
          rewrite sum_over_update by assumption. rewrite Hsum.
          rewrite (act_id s (mkaf (af_id (t_af x))) (t_af x)) by reflexivity. ring.
        * intros af. rewrite act_update. destruct (N.eqb _ _); [|apply Hnn].
          apply Qcnot_lt_le. exact Hok.
    - (* RoC *)
      apply Hlift. eapply IH; [apply adj_inv_keep; [exact Hadj | rewrite Ea; reflexivity] | exact Hps' | exact Hpw | exact Hids | | exact Hsum | exact Hnn | exact H].
      intros af. rewrite Hnet, (Hact af). unfold net_shares, buy_shares, sell_shares. rewrite Ea.
      destruct (N.eqb _ _); ring.
    - (* SfLA *)
      apply Hlift. eapply IH; [apply adj_inv_keep; [exact Hadj | rewrite Ea; reflexivity] | exact Hps' | exact Hpw | exact Hids | | exact Hsum | exact Hnn | exact H].
      intros af. rewrite Hnet, (Hact af). unfold net_shares, buy_shares, sell_shares. rewrite Ea.
      destruct (N.eqb _ _); ring.
    - (* Split *)
      unfold split_factor in H.
      brej H as f E1. apply pos_div_exact in E1 as (-> & _ & _).
      brej H as nsa E2. apply pos_div_exact in E2 as (-> & _ & _).
      apply Hlift. eapply IH; [ | exact Hps' | exact Hpw | exact Hids | | exact Hsum | exact Hnn | exact H].
      + apply adj_inv_step; [exact Hadj | rewrite Ea; reflexivity|]. unfold split_factor_of. rewrite Ea. reflexivity.
      + intros af. rewrite Hnet. unfold act in *. cbn [sc_active]. rewrite (Hact af).
        unfold net_shares, buy_shares, sell_shares. rewrite Ea. destruct (N.eqb _ _); ring.
  Qed.
End Ahead2.

Definition keys_nodup (st : pstate) : Prop := NoDup (map fst (ps_map st)).

Lemma abs_map_keys m : map fst (abs_map m) = map fst m.
Proof. unfold abs_map. rewrite map_map. reflexivity. Qed.

Lemma shares_of_abs st id : shares_of (abs_map (ps_map st)) id = last_sh st (mkaf id).
Proof.
  unfold shares_of, last_sh, latest_for. rewrite alookup_abs. cbn [af_id mkaf].
  destruct (alookup id (ps_map st)); reflexivity.
Qed.

Lemma sfl_info_rej_witness regof bef t sold aft st r :
  st_inv regof st -> keys_nodup st -> Forall split_pos aft ->
  sfl_info exact bef t sold aft st = Rej r ->
  r = RejScanAllLess \/ r = RejScanAfLess \/
  (is_ahead r /\
   exists w1 x w2 n p c rr cr sp, aft = w1 ++ x :: w2 /\ t_act x = Sell n p c rr cr sp /\
     (t_sd x <= t_sd t + 30)%Z /\
     shares_after (af_id (t_af x)) (shares_after_sale st t sold (t_af x)) w1 < n).
Proof.
  intros Hinv Hk Hp H. unfold sfl_info in H. cbn [a_sub exact bind] in H.
  destruct (Qcltb_spec (s_all (latest_post_status st) - sold) 0) as [|Hall]; [inversion H; left; reflexivity|].
  match type of H with (if Qcltb ?a 0 then _ else _) = _ => destruct (Qcltb_spec a 0) as [|Haf] end;
    [inversion H; right; left; reflexivity|].
  right; right.
  match type of H with bind (fwd_scan exact ?l ?d aft [] ?s0) _ = _ =>
    destruct (fwd_scan exact l d aft [] s0) as [s1| r1 |q] eqn:E1; cbn [bind] in H end.
  - exfalso. destruct (negb _); [discriminate H|].
    match type of H with bind ?m _ = _ => destruct m as [s2| r2 |q] eqn:E2; cbn [bind] in H end.
    + destruct (Qcltb _ _); discriminate H.
    + eapply bwd_scan_norej. exact E2.
    + discriminate H.
  - inversion H; subst r1. clear H. split; [apply fwd_scan_rej in E1; exact E1|].
    match type of E1 with fwd_scan exact ?l ?d aft [] ?s0 = _ => set (dfl := d) in *; set (s0' := s0) in * end.
    assert (Hd : forall af af', af_id af = af_id af' -> dfl af = dfl af').
    { intros af af' e. unfold dfl, latest_for. rewrite e. reflexivity. }
    assert (Hs : forall af af', af_id af = af_id af' -> shares_after_sale st t sold af = shares_after_sale st t sold af').
    { intros af af' e. unfold shares_after_sale, latest_for. rewrite e. reflexivity. }
    assert (Hact : forall af, act s0' dfl af = shares_after_sale st t sold af + net_after (af_id af) [] []).
    { intros af. unfold act, shares_after_sale, s0', dfl. cbn [sc_active alookup net_after].
      destruct (N.eqb (af_id af) (af_id (t_af t))) eqn:Eqs.
      - apply N.eqb_eq in Eqs. unfold latest_for. rewrite Eqs. ring.
      - ring. }
    set (ids := nodup N.eq_dec (map fst (ps_map st) ++ af_id (t_af t) :: map (fun x => af_id (t_af x)) aft)).
    assert (Hnd : NoDup ids) by apply NoDup_nodup.
    assert (Hids : Forall (fun x => In (af_id (t_af x)) ids) aft).
    { apply Forall_forall. intros x Hx. apply nodup_In. apply in_or_app. right. right.
      apply in_map_iff. exists x. split; [reflexivity | exact Hx]. }
    assert (Hdfl : forall af, dfl af = last_sh st af) by reflexivity.
    assert (Hnn : forall af, 0 <= act s0' dfl af).
    { intros af. unfold act, s0'. cbn [sc_active alookup].
      destruct (N.eqb (af_id af) (af_id (t_af t))); [apply Qcnot_lt_le; exact Haf|].
      rewrite Hdfl. apply (last_sh_le_all regof st af Hinv). }
    assert (Hsum : sc_eop s0' = sum_over ids (fun id => act s0' dfl (mkaf id))).
    { unfold s0' at 1. cbn [sc_eop].
      rewrite (sum_over_ext _ _ (fun id => if N.eqb id (af_id (t_af t))
                 then dfl (t_af t) - sold else shares_of (abs_map (ps_map st)) id)).
      2: { intros id. unfold act, s0'. cbn [sc_active alookup af_id mkaf].
           destruct (N.eqb id (af_id (t_af t))); [reflexivity|]. rewrite shares_of_abs. reflexivity. }
      rewrite sum_over_update; [|exact Hnd|].
      2: { apply nodup_In. apply in_or_app. right. left. reflexivity. }
      rewrite <- total_as_sum; [|rewrite abs_map_keys; exact Hk | exact Hnd|].
      2: { rewrite abs_map_keys. intros x Hx. apply nodup_In. apply in_or_app. left. exact Hx. }
      destruct Hinv as (_ & Hsum & _ & Hl). unfold st_sum in Hsum. rewrite Hl, Hsum.
      rewrite shares_of_abs. rewrite (Hdfl (t_af t)). unfold last_sh, latest_for. cbn [af_id mkaf]. ring. }
    destruct (fwd_scan_rej_witness _ dfl (shares_after_sale st t sold) Hd Hs ids Hnd aft [] s0' [] r
                adj_inv_nil (Forall_nil _) Hp Hids Hact Hsum Hnn E1)
      as (w1 & x & w2 & n & p & c & rr & cr & sp & Ew & Ea & Hsd & Hlt).
    exists w1, x, w2, n, p, c, rr, cr, sp. cbn [app] in Hlt. unfold Model.Sfl.window_days in Hsd. auto.
  - discriminate H.
Qed.

(* ---- the walk: shares only depend on purchases, sales and splits ---- *)
Lemma held_fst_id hs af af' : af_id af = af_id af' -> fst (held hs af) = fst (held hs af').
Proof. intros e. unfold held. rewrite e. destruct (alookup _ _); reflexivity. Qed.

Lemma shares_record hs a dn af :
  fst (held (record hs a dn) af) = step_shares (af_id af) (fst (held hs af)) a.
Proof.
  unfold record, step_shares. unfold held at 1. rewrite alookup_aupdate.
  rewrite (N.eqb_sym (af_id (t_af a)) (af_id af)).
  destruct (N.eqb_spec (af_id af) (af_id (t_af a))) as [e|ne].
  - pose proof (held_fst_id hs (t_af a) af (eq_sym e)) as Hf.
    destruct (held hs (t_af a)) as [sh acb]. cbn [fst] in Hf. rewrite <- Hf.
    unfold avg_cost_rule, split_factor_of. destruct (t_act a); cbn [fst]; reflexivity.
  - fold (held hs af). reflexivity.
Qed.

Lemma shares_record_all adj : forall hs af,
  Forall (fun a => is_sfla (t_act a) = true) adj ->
  fst (held (record_all hs adj) af) = fst (held hs af).
Proof.
  induction adj as [|a adj IH]; intros hs af HF; [reflexivity|].
  apply Forall_cons_iff in HF as [Ha HF]. unfold record_all. cbn [fold_left]. fold (record_all (record hs a 0) adj).
  rewrite (IH _ _ HF), shares_record. unfold step_shares. destruct (t_act a); try discriminate Ha.
  destruct (N.eqb _ _); reflexivity.
Qed.

Definition adj_row (t a : tx) : Prop :=
  is_sfla (t_act a) = true /\ af_reg (t_af a) = false /\ t_sd a = t_sd t.

Lemma judge_adj hs bef t aft dn adj : judge hs bef t aft = Goes dn adj -> Forall (adj_row t) adj.
Proof.
  unfold judge. intros H.
  assert (Hloss : forall n g declared, judge_loss hs bef t n g declared aft = Goes dn adj -> Forall (adj_row t) adj).
  { clear H. intros n g declared H. unfold judge_loss in H. cbv zeta in H.
    destruct declared as [[sv force]|].
    - destruct (_ && _); [discriminate|]. inversion H; constructor.
    - destruct (_ && _); [|inversion H; constructor]. inversion H; subst.
      destruct (Qcltb 0 _); [|constructor].
      eapply Forall_impl; [|apply adjustments_shape]. intros a (H1 & H2 & H3 & _). repeat split; assumption. }
  destruct (t_act t).
  - inversion H; constructor.
  - destruct (Qcltb _ _); [discriminate|]. destruct (snd _); [|inversion H; constructor].
    destruct (Qcltb _ 0); [eapply Hloss; exact H|]. destruct sfl; [discriminate|]. inversion H; constructor.
  - destruct (snd _); [|discriminate]. destruct (Qcltb _ _); [discriminate|]. inversion H; constructor.
  - destruct (snd _); [|discriminate]. inversion H; constructor.
  - destruct (_ && _); [discriminate|]. inversion H; constructor.
Qed.

Lemma walk_finds_oversale x n p c rr cr sp w2 :
  t_act x = Sell n p c rr cr sp ->
  forall w1 hs bef,
    shares_after (af_id (t_af x)) (fst (held hs (t_af x))) w1 < n ->
    exists cl, snd (walk hs bef (w1 ++ x :: w2)) = Some cl /\
               (length (fst (walk hs bef (w1 ++ x :: w2))) <= length w1)%nat /\
               (length (fst (walk hs bef (w1 ++ x :: w2))) = length w1 -> cl = OverSale).
Proof.
  intros Ea. induction w1 as [|y w1 IH]; intros hs bef Hlt.
  - cbn [app walk]. unfold judge. rewrite Ea. unfold shares_after in Hlt. cbn [fold_left] in Hlt.
    apply Qcltb_true in Hlt. rewrite Hlt. exists OverSale. cbn. auto.
  - cbn [app walk]. destruct (judge hs bef y (w1 ++ x :: w2)) as [cl|dn adj] eqn:Ej.
    + exists cl. cbn. split; [reflexivity|]. split; [lia | intros Hc; discriminate Hc].
    + specialize (IH (record_all (record hs y dn) adj) (rev adj ++ y :: bef)).
      destruct (walk (record_all (record hs y dn) adj) (rev adj ++ y :: bef) (w1 ++ x :: w2)) as [gs o] eqn:Ew.
      cbn [fst snd length] in *.
      destruct IH as (cl & Ho & Hlen & Hcl).
      * rewrite shares_record_all, shares_record.
        -- unfold shares_after in *. cbn [fold_left] in Hlt. exact Hlt.
        -- eapply Forall_impl; [|eapply judge_adj; exact Ej]. intros a (Ha & _). exact Ha.
      * exists cl. split; [exact Ho|]. split; [lia|]. intros Hc. apply Hcl. lia.
Qed.
