(* Field-level round trips of the CSV codecs: decimals, dates, actions,
   currencies, trimming, superficial-loss markers, split ratios. *)
From Coq Require Import List NArith ZArith Bool Arith Lia.
From ACB Require Import Base.Outcome Model.CsvFields Proofs.CsvDigits.
Import ListNotations.
Local Open Scope N_scope.

(* ---------------------------------------------------------------- validity *)
Lemma valid_dec_spec d :
  valid_dec d = true <->
  d_mant d <= max_mant /\ (d_scale d <= 28)%nat /\ (d_neg d = true -> d_mant d <> 0).
Proof.
  unfold valid_dec. rewrite !andb_true_iff, N.leb_le, Nat.leb_le, negb_true_iff.
  split.
  - intros [[H1 H2] H3]. repeat split; auto. intros Hn E. rewrite Hn, E in H3. discriminate.
  - intros [H1 [H2 H3]]. repeat split; auto.
    destruct (d_neg d); [|reflexivity]. cbn. apply N.eqb_neq. auto.
Qed.

(* ---------------------------------------------------------------- the whole part *)
Definition whole' (w : list N) : list N := match w with [] => [0] | _ => w end.
Lemma whole_chars_eq w : whole_chars w = chars (whole' w).
Proof. destruct w; reflexivity. Qed.
Lemma whole'_props w :
  Forall (fun d => d < 10) w ->
  Forall (fun d => d < 10) (whole' w) /\ val (whole' w) = val w /\ is_nil (whole' w) = false.
Proof. intros H. destruct w; cbn; repeat split; auto. constructor; [lia|constructor]. Qed.

Lemma scan_whole exact w rest :
  Forall (fun d => d < 10) w -> val w <= max_mant -> is_nil w = false ->
  dec_scan exact (chars w ++ rest) 0 0%nat false false = dec_scan exact rest (val w) 0%nat false true.
Proof.
  intros HF Hv Hn. rewrite scan_digits; [|assumption|exact Hv|discriminate].
  rewrite Hn. reflexivity.
Qed.

Lemma parse_signed (exact neg : bool) (w : list N) (rest : bytes) :
  Forall (fun d => d < 10) w -> is_nil w = false ->
  parse_dec_gen exact ((if neg then [45] else []) ++ chars w ++ rest)
  = (x <- dec_scan exact (chars w ++ rest) 0 0%nat false false ;; Ok (dec_of_parts neg x)).
Proof.
  intros HF Hn. destruct neg; [reflexivity|].
  destruct w as [|d w]; [discriminate|]. inversion HF; subst.
  cbn [app chars map]. unfold parse_dec_gen.
  destruct (N.eqb_spec (d + 48) 45); [lia|]. destruct (N.eqb_spec (d + 48) 43); [lia|]. reflexivity.
Qed.

Lemma parse_unsigned (exact : bool) (w : list N) (rest : bytes) :
  Forall (fun d => d < 10) w -> is_nil w = false ->
  parse_dec_gen exact (chars w ++ rest)
  = (x <- dec_scan exact (chars w ++ rest) 0 0%nat false false ;; Ok (dec_of_parts false x)).
Proof. intros HF Hn. exact (parse_signed exact false w rest HF Hn). Qed.

(* ---------------------------------------------------------------- decomposition of a decimal *)
Record dparts (d : dec) (w core : list N) (j : nat) : Prop := {
  dp_w : whole_digits d = w;
  dp_frac : frac_digits d = core ++ zeros j;
  dp_len : length core = trimmed_prec d;
  dp_sum : (trimmed_prec d + j = d_scale d)%nat;
  dp_val : val (w ++ core) * pow10 j = d_mant d;
  dp_fw : Forall (fun x => x < 10) w;
  dp_fc : Forall (fun x => x < 10) core
}.
Lemma dparts_ex d : exists w core j, dparts d w core j.
Proof.
  destruct (mant_digits_split d) as [HM [HL [HV HF]]].
  destruct (frac_core d) as [core [j [HC [Hlen Hsum]]]].
  exists (whole_digits d), core, j.
  rewrite HM, HC in HF. apply Forall_app in HF. destruct HF as [HF1 HF2].
  apply Forall_app in HF2. destruct HF2 as [HF2 _].
  constructor; auto.
  rewrite <- HV, HM, HC, app_assoc, val_app_zeros. reflexivity.
Qed.

Lemma whole_le_mant d w core j : dparts d w core j -> val w <= d_mant d /\ val (w ++ core) <= d_mant d.
Proof.
  intros P. pose proof (dp_val _ _ _ _ P) as Hv. rewrite val_app in *.
  pose proof (pow10_pos j) as Hj. pose proof (pow10_pos (length core)) as Hc.
  set (a := pow10 (length core)) in *. set (b := pow10 j) in *.
  set (x := val w * a + val core) in *.
  assert (H1 : x <= d_mant d) by nia.
  assert (H2 : val w <= x) by (unfold x; nia).
  split; lia.
Qed.

(* ---------------------------------------------------------------- parse (to_string_min_precision k d) *)
Theorem parse_tsmp d k :
  valid_dec d = true -> (k <= 28)%nat ->
  exists d', parse_dec (tsmp k d) = Ok d' /\ dec_same d d' /\ valid_dec d' = true.
Proof.
  intros Hv Hk. apply valid_dec_spec in Hv. destruct Hv as [Hm [Hs Hz]].
  destruct (dparts_ex d) as [w [core [j P]]].
  destruct (whole_le_mant _ _ _ _ P) as [Hw Hwc].
  destruct (whole'_props w (dp_fw _ _ _ _ P)) as [HF' [HV' HN']].
  pose proof (dp_sum _ _ _ _ P) as Hsum. pose proof (dp_len _ _ _ _ P) as Hlen.
  pose proof (dp_val _ _ _ _ P) as Hval.
  set (tp := trimmed_prec d) in *. set (p := Nat.max tp k).
  assert (Hp : (tp <= p /\ p <= 28)%nat) by (unfold p; lia).
  unfold tsmp. fold tp. fold p. unfold fmt_prec, parse_dec.
  rewrite (dp_w _ _ _ _ P), (dp_frac _ _ _ _ P), whole_chars_eq.
  rewrite take_pad_core by lia. rewrite Hlen.
  destruct (Nat.eqb_spec p 0) as [Ep|Ep].
  - (* no fractional digit is printed *)
    rewrite parse_signed by assumption.
    rewrite scan_whole; [|assumption|lia|assumption]. cbn [dec_scan bind].
    assert (Htp : tp = 0%nat) by lia. assert (core = []) by (destruct core; [reflexivity|cbn in Hlen; lia]).
    subst core. rewrite app_nil_r in *. rewrite HV'.
    eexists. split; [reflexivity|]. split.
    + split; cbn [dec_of_parts d_neg d_mant d_scale mk_dec fst snd].
      * destruct (d_neg d) eqn:En; [|reflexivity]. cbn [andb].
        destruct (N.eqb_spec (val w) 0) as [E0|E0]; [|reflexivity].
        exfalso. apply (Hz eq_refl). rewrite <- Hval, E0. reflexivity.
      * rewrite <- Hval. replace j with (d_scale d) by lia. rewrite pow10_0. lia.
    + apply valid_dec_spec. cbn [dec_of_parts d_neg d_mant d_scale mk_dec fst snd].
      repeat split; [lia|lia|].
      intros Hn. apply andb_prop in Hn. destruct Hn as [_ Hn]. apply negb_true_iff, N.eqb_neq in Hn. exact Hn.
  - rewrite parse_signed by assumption.
    rewrite scan_whole; [|assumption|lia|assumption].
    rewrite scan_point, chars_app.
    rewrite scan_digits; [|exact (dp_fc _ _ _ _ P)| |].
    2: { rewrite val_from_spec, HV', <- val_app. lia. }
    2: { intros _. rewrite Hlen. cbn [Nat.add].
         destruct (Nat.eq_dec tp 28) as [E|E]; [right|left; lia].
         split; [lia|]. replace (p - tp)%nat with 0%nat by lia. reflexivity. }
    rewrite val_from_spec, HV', <- val_app, Hlen. cbn [orb Nat.add].
    destruct (scan_zeros (p - tp) (val (w ++ core)) tp ltac:(lia) ltac:(lia)) as [i [Hi [E Hb]]].
    rewrite E. cbn [bind].
    eexists. split; [reflexivity|]. split.
    + split; cbn [dec_of_parts d_neg d_mant d_scale mk_dec fst snd].
      * destruct (d_neg d) eqn:En; [|reflexivity]. cbn [andb].
        pose proof (pow10_pos i).
        destruct (N.eqb_spec (val (w ++ core) * pow10 i) 0) as [E0|E0]; [|reflexivity].
        exfalso. apply (Hz eq_refl). rewrite <- Hval. nia.
      * rewrite <- Hval. replace (d_scale d) with (tp + j)%nat by lia.
        rewrite !pow10_add. lia.
    + apply valid_dec_spec. cbn [dec_of_parts d_neg d_mant d_scale mk_dec fst snd].
      repeat split; [lia|lia|].
      intros Hn. apply andb_prop in Hn. destruct Hn as [_ Hn]. apply negb_true_iff, N.eqb_neq in Hn. exact Hn.
Qed.

(* the re-read decimal (an explicit function so that the expected result of
   reading a table can be written down) *)
Definition rp_dec (k : nat) (d : dec) : dec :=
  match parse_dec (tsmp k d) with Ok d' => d' | _ => d end.
Lemma rp_dec_spec k d :
  valid_dec d = true -> (k <= 28)%nat ->
  parse_dec (tsmp k d) = Ok (rp_dec k d) /\ dec_same d (rp_dec k d) /\ valid_dec (rp_dec k d) = true
  /\ tsmp k (rp_dec k d) = tsmp k d.
Proof.
  intros Hv Hk. destruct (parse_tsmp d k Hv Hk) as [d' [E [Hs Hv']]].
  unfold rp_dec. rewrite E. repeat split; auto; try apply Hs.
  symmetry. apply tsmp_same. exact Hs.
Qed.

(* ---------------------------------------------------------------- the text never needs trimming *)
Definition edge_ok (c : N) : bool := (c <? 128) && negb (is_ascii_ws c).
Lemma trim_start_edge c r : edge_ok c = true -> trim_start (c :: r) = c :: r.
Proof.
  unfold edge_ok. intros H. apply andb_prop in H. destruct H as [H1 H2].
  apply N.ltb_lt in H1. apply negb_true_iff in H2.
  cbn [trim_start]. rewrite H2.
  assert (E2 : forall b, ws2 c b = false).
  { intros b. unfold ws2. destruct (N.eqb_spec c 194); [lia|reflexivity]. }
  assert (E3 : forall b x, ws3 c b x = false).
  { intros b x. unfold ws3. destruct (N.eqb_spec c 225); [lia|].
    destruct (N.eqb_spec c 226); [lia|]. destruct (N.eqb_spec c 227); [lia|]. reflexivity. }
  destruct r as [|b r2]; [reflexivity|]. rewrite E2. destruct r2 as [|x r3]; [reflexivity|].
  rewrite E3. reflexivity.
Qed.
Lemma trim_start_rev_edge c r : edge_ok c = true -> trim_start_rev (c :: r) = c :: r.
Proof.
  unfold edge_ok. intros H. apply andb_prop in H. destruct H as [H1 H2].
  apply N.ltb_lt in H1. apply negb_true_iff in H2.
  cbn [trim_start_rev]. rewrite H2.
  assert (E2 : forall b, ws2 b c = false).
  { intros b. unfold ws2. destruct (N.eqb_spec c 133); [lia|]. destruct (N.eqb_spec c 160); [lia|].
    cbn. apply andb_false_r. }
  assert (E3 : forall b x, ws3 x b c = false).
  { intros b x. unfold ws3.
    destruct (N.eqb_spec c 128); [lia|]. destruct (N.eqb_spec c 168); [lia|].
    destruct (N.eqb_spec c 169); [lia|]. destruct (N.eqb_spec c 175); [lia|].
    destruct (N.eqb_spec c 159); [lia|]. destruct (N.leb_spec 128 c); [lia|].
    cbn. rewrite !andb_false_r. reflexivity. }
  destruct r as [|b r2]; [reflexivity|]. rewrite E2. destruct r2 as [|x r3]; [reflexivity|].
  rewrite E3. reflexivity.
Qed.

(* a text whose first and last bytes are ASCII and not white space *)
Definition edges_ok (s : bytes) : bool :=
  match s, rev s with
  | a :: _, z :: _ => edge_ok a && edge_ok z
  | _, _ => false
  end.
Lemma trim_edges s : edges_ok s = true -> trim s = s /\ is_nil s = false.
Proof.
  unfold edges_ok. destruct s as [|a r] eqn:Es; [discriminate|].
  destruct (rev (a :: r)) as [|z rr] eqn:Er; [discriminate|].
  intros H. apply andb_prop in H. destruct H as [Ha Hz]. split; [|reflexivity].
  unfold trim, trim_end. rewrite trim_start_edge by assumption.
  rewrite Er, trim_start_rev_edge by assumption. rewrite <- Er. apply rev_involutive.
Qed.

Lemma edge_digit d : d < 10 -> edge_ok (d + 48) = true.
Proof.
  intros H. unfold edge_ok, is_ascii_ws. apply andb_true_intro. split; [apply N.ltb_lt; lia|].
  apply negb_true_iff. destruct (N.leb_spec 9 (d + 48)), (N.leb_spec (d + 48) 13), (N.eqb_spec (d + 48) 32);
    try reflexivity; lia.
Qed.

Lemma edges_ok_intro a s z : edge_ok a = true -> edge_ok z = true -> edges_ok (a :: s ++ [z]) = true.
Proof.
  intros Ha Hz. unfold edges_ok. change (a :: s ++ [z]) with ((a :: s) ++ [z]).
  rewrite rev_app_distr. cbn [rev app]. rewrite Ha, Hz. reflexivity.
Qed.

Lemma last_chars ds d : chars (ds ++ [d]) = chars ds ++ [d + 48].
Proof. apply chars_app. Qed.

Lemma edges_all s : is_nil s = false -> forallb edge_ok s = true -> edges_ok s = true.
Proof.
  intros Hn Ha. unfold edges_ok. destruct s as [|a r]; [discriminate|].
  destruct (rev (a :: r)) as [|z rr] eqn:Er.
  - apply (f_equal (@length N)) in Er. rewrite rev_length in Er. discriminate.
  - rewrite forallb_forall in Ha. rewrite (Ha a (or_introl eq_refl)).
    rewrite (Ha z); [reflexivity|]. apply in_rev. rewrite Er. left. reflexivity.
Qed.

Lemma chars_all_edge ds : Forall (fun x => x < 10) ds -> forallb edge_ok (chars ds) = true.
Proof.
  induction 1 as [|x l Hx _ IH]; [reflexivity|]. cbn [chars map forallb]. fold (chars l).
  rewrite edge_digit by assumption. exact IH.
Qed.

Lemma Forall_firstn {T} (P : T -> Prop) n : forall l, Forall P l -> Forall P (firstn n l).
Proof.
  induction n as [|n IH]; intros l H; [constructor|]. destruct l; [constructor|].
  inversion H; subst. cbn. constructor; auto.
Qed.

Lemma digits_parts d :
  Forall (fun x => x < 10) (whole_digits d) /\ Forall (fun x => x < 10) (frac_digits d).
Proof.
  destruct (mant_digits_split d) as [HM [_ [_ HF]]]. rewrite HM in HF. apply Forall_app in HF. exact HF.
Qed.

Lemma take_pad_forall p l : Forall (fun x => x < 10) l -> Forall (fun x => x < 10) (take_pad p l).
Proof.
  intros H. unfold take_pad. apply Forall_firstn. apply Forall_app. split; [assumption|apply Forall_zeros].
Qed.

(* fmt_prec output: '-', digits and '.', never empty *)
Lemma fmt_prec_all_edge p d : forallb edge_ok (fmt_prec p d) = true /\ is_nil (fmt_prec p d) = false.
Proof.
  destruct (digits_parts d) as [HW HF].
  destruct (whole'_props _ HW) as [HW' [_ HN]].
  unfold fmt_prec. rewrite whole_chars_eq. split.
  - rewrite !forallb_app. rewrite (chars_all_edge _ HW').
    destruct (d_neg d); destruct (p =? 0)%nat; cbn [forallb andb]; try reflexivity;
      try (change (edge_ok 46) with true; cbn [andb]; apply chars_all_edge, take_pad_forall, HF);
      change (edge_ok 45) with true; cbn [andb]; try reflexivity;
      change (edge_ok 46) with true; cbn [andb]; apply chars_all_edge, take_pad_forall, HF.
  - destruct (d_neg d); [reflexivity|]. cbn [app]. destruct (whole' (whole_digits d)); [discriminate|reflexivity].
Qed.
Lemma fmt_prec_edges p d : edges_ok (fmt_prec p d) = true.
Proof. destruct (fmt_prec_all_edge p d). apply edges_all; assumption. Qed.
Lemma tsmp_edges k d : edges_ok (tsmp k d) = true.
Proof. apply fmt_prec_edges. Qed.

(* every byte of a rendering is '-', '.', or a digit *)
Lemma fmt_prec_forall (P : N -> bool) p d :
  P 45 = true -> P 46 = true -> (forall x, x < 10 -> P (x + 48) = true) ->
  forallb P (fmt_prec p d) = true.
Proof.
  intros H45 H46 Hd.
  assert (HC : forall ds, Forall (fun x => x < 10) ds -> forallb P (chars ds) = true).
  { induction 1 as [|x l Hx _ IH]; [reflexivity|]. cbn [chars map forallb]. fold (chars l).
    rewrite Hd by assumption. exact IH. }
  destruct (digits_parts d) as [HW HF].
  destruct (whole'_props _ HW) as [HW' _].
  unfold fmt_prec. rewrite whole_chars_eq, !forallb_app, (HC _ HW').
  destruct (d_neg d); destruct (p =? 0)%nat; cbn [forallb andb]; rewrite ?H45, ?H46; cbn [andb];
    try reflexivity; apply HC, take_pad_forall, HF.
Qed.

(* ---------------------------------------------------------------- exact parses used by split ratios *)
Lemma val_zero_zeros l : Forall (fun x => x < 10) l -> val l = 0 -> l = zeros (length l).
Proof.
  induction 1 as [|x l Hx _ IH]; intros Hv; [reflexivity|].
  change (x :: l) with ([x] ++ l) in Hv. rewrite val_app in Hv.
  change (val [x]) with (0 * 10 + x) in Hv. pose proof (pow10_pos (length l)).
  assert (x = 0) by nia. assert (val l = 0) by nia. subst. cbn [length]. change (zeros (S (length l))) with (0 :: zeros (length l)).
  f_equal. auto.
Qed.

Lemma int_frac_parts d :
  val (whole_digits d) = int_part d /\ val (frac_digits d) = d_mant d mod pow10 (d_scale d).
Proof.
  destruct (mant_digits_split d) as [HM [HL [HV HF]]].
  destruct (digits_parts d) as [_ HFr].
  pose proof (val_bound _ HFr) as Hb. rewrite HL in Hb.
  rewrite HM, val_app, HL in HV. pose proof (pow10_pos (d_scale d)).
  unfold int_part. split.
  - apply (N.div_unique _ _ _ (val (frac_digits d))); [assumption|lia].
  - apply (N.mod_unique _ _ (val (whole_digits d))); [assumption|lia].
Qed.

Lemma dec_pos_spec d : dec_pos d = true <-> d_neg d = false /\ d_mant d <> 0.
Proof.
  unfold dec_pos, dec_is_zero. rewrite andb_true_iff, !negb_true_iff, N.eqb_neq. tauto.
Qed.

Lemma take_pad_all l : take_pad (length l) l = l.
Proof.
  unfold take_pad. rewrite firstn_app, Nat.sub_diag. cbn [firstn]. rewrite app_nil_r. apply firstn_all.
Qed.

(* "{}" : the natural rendering parses back to the very same decimal *)
Lemma parse_exact_natural d :
  valid_dec d = true -> dec_pos d = true -> parse_dec_exact (dec_to_string d) = Ok d.
Proof.
  intros Hv Hp. apply valid_dec_spec in Hv. destruct Hv as [Hm [Hs _]].
  apply dec_pos_spec in Hp. destruct Hp as [Hn Hnz].
  destruct (mant_digits_split d) as [HM [HL [HV HF]]].
  destruct (digits_parts d) as [HW HFr]. destruct (whole'_props _ HW) as [HW' [HVW HN]].
  destruct (int_frac_parts d) as [_ _].
  unfold dec_to_string, fmt_prec, parse_dec_exact. rewrite Hn, whole_chars_eq. cbn [app].
  rewrite <- HL at 2. rewrite take_pad_all.
  assert (Hall : val (whole_digits d) * pow10 (d_scale d) + val (frac_digits d) = d_mant d).
  { rewrite <- HV, HM, val_app, HL. reflexivity. }
  pose proof (pow10_pos (d_scale d)).
  destruct (Nat.eqb_spec (d_scale d) 0) as [E0|E0].
  - rewrite parse_unsigned by assumption.
    rewrite scan_whole; [|assumption|nia|assumption]. cbn [dec_scan bind].
    rewrite HVW. unfold dec_of_parts. cbn [fst snd andb].
    assert (frac_digits d = []) by (destruct (frac_digits d); [reflexivity|cbn in HL; lia]).
    rewrite H0, E0 in Hall. change (val []) with 0 in Hall. rewrite pow10_0 in Hall.
    replace (val (whole_digits d)) with (d_mant d) by lia. f_equal.
    destruct d as [dn dm ds]; cbn [d_neg d_mant d_scale mk_dec] in *; subst; reflexivity.
  - rewrite parse_unsigned by assumption.
    rewrite scan_whole; [|assumption|nia|assumption].
    rewrite scan_point. rewrite <- (app_nil_r (chars (frac_digits d))).
    rewrite scan_digits; [|assumption| |].
    2: { rewrite val_from_spec, HVW, HL. lia. }
    2: { intros _. rewrite HL. cbn [Nat.add]. right. split; [lia|reflexivity]. }
    rewrite val_from_spec, HVW, HL, Hall. cbn [dec_scan orb bind Nat.add].
    unfold dec_of_parts. cbn [fst snd andb]. f_equal.
    destruct d as [dn dm ds]; cbn [d_neg d_mant d_scale mk_dec] in *; subst; reflexivity.
Qed.

(* "{:.0}" of a whole number *)
Lemma parse_exact_prec0 d :
  valid_dec d = true -> dec_pos d = true -> dec_is_integer d = true ->
  exists d', parse_dec_exact (fmt_prec 0 d) = Ok d' /\ dec_same d d'.
Proof.
  intros Hv Hp Hi. apply valid_dec_spec in Hv. destruct Hv as [Hm [Hs _]].
  apply dec_pos_spec in Hp. destruct Hp as [Hn Hnz].
  destruct (digits_parts d) as [HW HFr]. destruct (whole'_props _ HW) as [HW' [HVW HN]].
  destruct (int_frac_parts d) as [Hip Hfp].
  unfold dec_is_integer in Hi. apply N.eqb_eq in Hi.
  pose proof (pow10_pos (d_scale d)) as Hpp.
  pose proof (N.div_mod (d_mant d) (pow10 (d_scale d)) ltac:(lia)) as Hdm. rewrite Hi in Hdm.
  unfold fmt_prec, parse_dec_exact. rewrite Hn, whole_chars_eq. cbn [app Nat.eqb].
  eexists. split.
  { rewrite parse_unsigned by assumption.
    rewrite scan_whole; [|assumption| |assumption].
    2: { rewrite HVW, Hip. unfold int_part. nia. }
    cbn [dec_scan bind]. reflexivity. }
  unfold dec_of_parts. cbn [fst snd andb]. split; cbn [d_neg d_mant d_scale mk_dec]; [assumption|].
  rewrite HVW, Hip, pow10_0. unfold int_part. lia.
Qed.

(* "{:.1}" of a whole number *)
Lemma parse_exact_prec1 d :
  valid_dec d = true -> dec_pos d = true -> dec_is_integer d = true -> int_part d * 10 <= max_mant ->
  exists d', parse_dec_exact (fmt_prec 1 d) = Ok d' /\ dec_same d d'.
Proof.
  intros Hv Hp Hi Hfit. apply valid_dec_spec in Hv. destruct Hv as [Hm [Hs _]].
  apply dec_pos_spec in Hp. destruct Hp as [Hn Hnz].
  destruct (mant_digits_split d) as [_ [HL _]].
  destruct (digits_parts d) as [HW HFr]. destruct (whole'_props _ HW) as [HW' [HVW HN]].
  destruct (int_frac_parts d) as [Hip Hfp].
  unfold dec_is_integer in Hi. apply N.eqb_eq in Hi. rewrite Hi in Hfp.
  pose proof (pow10_pos (d_scale d)) as Hpp.
  pose proof (N.div_mod (d_mant d) (pow10 (d_scale d)) ltac:(lia)) as Hdm. rewrite Hi in Hdm.
  assert (HT : take_pad 1 (frac_digits d) = [0]).
  { rewrite (val_zero_zeros _ HFr Hfp), HL. unfold take_pad. rewrite <- zeros_app.
    replace (d_scale d + 1)%nat with (S (d_scale d)) by lia. reflexivity. }
  unfold fmt_prec, parse_dec_exact. rewrite Hn, whole_chars_eq, HT. cbn [app Nat.eqb].
  rewrite parse_unsigned by assumption.
  rewrite scan_whole; [|assumption| |assumption].
  2: { rewrite HVW, Hip. lia. }
  rewrite scan_point. change (chars [0]) with (chars [0] ++ []).
  rewrite scan_digits; [|repeat constructor; lia| |].
  2: { rewrite val_from_spec, HVW, Hip. change (val [0]) with 0. change (pow10 (length [0])) with 10. lia. }
  2: { intros _. left. cbn. lia. }
  cbn [dec_scan orb bind Nat.add length is_nil negb]. eexists. split; [reflexivity|].
  unfold dec_of_parts. cbn [fst snd andb]. split; cbn [d_neg d_mant d_scale mk_dec]; [assumption|].
  rewrite val_from_spec, HVW, Hip. change (val [0]) with 0. change (pow10 (length [0])) with 10.
  change (pow10 1) with 10. unfold int_part. lia.
Qed.

(* ---------------------------------------------------------------- dates *)
Definition year_ok (y : N) : bool :=
  match chars (pad_left 4 (digits y)) with
  | [a; b; c; e] => forallb is_digit [a; b; c; e] && (val [dig a; dig b; dig c; dig e] =? y)
  | _ => false
  end.
Definition two_ok (n : N) : bool :=
  match chars (pad_left 2 (digits n)) with
  | [a; b] => forallb is_digit [a; b] && (val [dig a; dig b] =? n)
  | _ => false
  end.
Lemma all_below (f : N -> bool) (bound : N) :
  forallb f (map N.of_nat (seq 0 (N.to_nat bound))) = true -> forall n, n < bound -> f n = true.
Proof.
  intros H n Hn. rewrite forallb_forall in H. apply H. apply in_map_iff.
  exists (N.to_nat n). split; [apply N2Nat.id|]. apply in_seq. lia.
Qed.
Lemma years_ok : forall y, y <= 9999 -> year_ok y = true.
Proof.
  intros y Hy. apply (all_below year_ok 10000); [vm_compute; reflexivity|lia].
Qed.
Lemma twos_ok : forall n, n <= 31 -> two_ok n = true.
Proof.
  intros n Hn. apply (all_below two_ok 32); [vm_compute; reflexivity|lia].
Qed.

Lemma valid_date_bounds d : valid_date d = true -> dt_y d <= 9999 /\ dt_m d <= 31 /\ dt_d d <= 31.
Proof.
  unfold valid_date. rewrite !andb_true_iff, !N.leb_le. intros [[[[Hy Hm1] Hm2] Hd1] Hd2].
  repeat split; [assumption|lia|].
  unfold days_in_month in Hd2.
  destruct (dt_m d =? 2); [destruct (is_leap (dt_y d)); lia|].
  destruct ((dt_m d =? 4) || (dt_m d =? 6) || (dt_m d =? 9) || (dt_m d =? 11)); lia.
Qed.

Theorem date_roundtrip d :
  valid_date d = true -> parse_date (show_date d) = Ok d /\ edges_ok (show_date d) = true.
Proof.
  intros Hv. destruct (valid_date_bounds d Hv) as [Hy [Hm Hd]].
  pose proof (years_ok _ Hy) as Y. pose proof (twos_ok _ Hm) as M. pose proof (twos_ok _ Hd) as D.
  unfold year_ok in Y. unfold two_ok in M, D. unfold show_date.
  destruct (chars (pad_left 4 (digits (dt_y d)))) as [|y1 [|y2 [|y3 [|y4 [|y5 yr]]]]]; try discriminate.
  destruct (chars (pad_left 2 (digits (dt_m d)))) as [|m1 [|m2 [|m3 mr]]]; try discriminate.
  destruct (chars (pad_left 2 (digits (dt_d d)))) as [|d1 [|d2 [|d3 dr]]]; try discriminate.
  apply andb_prop in Y. destruct Y as [Y1 Y2]. apply andb_prop in M. destruct M as [M1 M2].
  apply andb_prop in D. destruct D as [D1 D2]. apply N.eqb_eq in Y2, M2, D2.
  cbn [forallb] in Y1, M1, D1. repeat rewrite andb_true_iff in Y1. repeat rewrite andb_true_iff in M1.
  repeat rewrite andb_true_iff in D1.
  destruct Y1 as [Ya [Yb [Yc [Yd _]]]]. destruct M1 as [Ma [Mb _]]. destruct D1 as [Da [Db _]].
  cbn [app]. split.
  - unfold parse_date. cbn [forallb]. rewrite Ya, Yb, Yc, Yd, Ma, Mb, Da, Db. cbn [andb N.eqb Pos.eqb].
    rewrite Y2, M2, D2. destruct d as [y m dd]. cbn [dt_y dt_m dt_d] in *. rewrite Hv. reflexivity.
  - assert (E : forall c, is_digit c = true -> edge_ok c = true).
    { intros c Hc. unfold is_digit in Hc. apply andb_prop in Hc. destruct Hc as [H1 H2].
      apply N.leb_le in H1, H2. replace c with ((c - 48) + 48) by lia. apply edge_digit. lia. }
    unfold edges_ok. cbn [rev app]. rewrite (E _ Ya), (E _ Db). reflexivity.
Qed.

(* ---------------------------------------------------------------- actions *)
Theorem act_roundtrip a : parse_act (show_act a) = Ok a /\ edges_ok (show_act a) = true.
Proof. destruct a; split; vm_compute; reflexivity. Qed.

(* ---------------------------------------------------------------- currencies *)
Theorem currency_roundtrip c :
  valid_cur c = true -> currency_new c = c /\ trim c = c /\ is_nil c = false.
Proof.
  unfold valid_cur. rewrite !andb_true_iff, negb_true_iff. intros [[[Hn _] Hu] Ht].
  apply beqb_eq in Hu, Ht. repeat split; auto.
  unfold currency_new. rewrite Hu, Hn. reflexivity.
Qed.

(* ---------------------------------------------------------------- superficial-loss marker *)
Definition rp_sfl (v : sflin) : sflin := {| sf_val := rp_dec 2 (sf_val v); sf_force := sf_force v |}.

Lemma last_not_bang p d : match rev (fmt_prec p d) with c :: _ => c =? 33 | [] => false end = false.
Proof.
  pose proof (fmt_prec_forall (fun c => negb (c =? 33)) p d eq_refl eq_refl) as H.
  assert (Hd : forall x, x < 10 -> negb (x + 48 =? 33) = true).
  { intros x Hx. apply negb_true_iff, N.eqb_neq. lia. }
  specialize (H Hd). rewrite forallb_forall in H.
  destruct (rev (fmt_prec p d)) as [|c r] eqn:E; [reflexivity|].
  apply negb_true_iff. apply H. apply in_rev. rewrite E. left. reflexivity.
Qed.

Lemma last_not_bang_tsmp k d : match rev (tsmp k d) with c :: _ => c =? 33 | [] => false end = false.
Proof. apply last_not_bang. Qed.

Theorem sfl_roundtrip v :
  valid_sfl v = true ->
  parse_sfl (show_sfl v) = Ok (rp_sfl v) /\ dec_same (sf_val v) (sf_val (rp_sfl v))
  /\ show_sfl (rp_sfl v) = show_sfl v /\ edges_ok (show_sfl v) = true.
Proof.
  unfold valid_sfl. rewrite andb_true_iff. intros [Hv Hl].
  destruct (rp_dec_spec 2 (sf_val v) Hv ltac:(lia)) as [E [Hs [Hv' Ht]]].
  assert (Hl' : dec_lez (rp_dec 2 (sf_val v)) = true) by (rewrite <- (dec_same_lez _ _ Hs); exact Hl).
  split; [|split; [exact Hs|split]].
  - unfold parse_sfl, show_sfl, rp_sfl. destruct (sf_force v) eqn:Ef.
    + rewrite rev_app_distr. cbn [rev app N.eqb Pos.eqb]. rewrite removelast_last, E, Hl'. reflexivity.
    + rewrite app_nil_r. rewrite !last_not_bang_tsmp. rewrite E, Hl'. reflexivity.
  - unfold show_sfl, rp_sfl. cbn [sf_val sf_force]. rewrite Ht. reflexivity.
  - unfold show_sfl. destruct (fmt_prec_all_edge (Nat.max (trimmed_prec (sf_val v)) 2) (sf_val v)) as [Ha Hn].
    apply edges_all.
    + unfold tsmp. destruct (fmt_prec _ _); [discriminate|reflexivity].
    + unfold tsmp. rewrite forallb_app, Ha. destruct (sf_force v); reflexivity.
Qed.

(* ---------------------------------------------------------------- split ratios *)
Lemma chars_forall (P : N -> bool) ds :
  (forall x, x < 10 -> P (x + 48) = true) -> Forall (fun x => x < 10) ds -> forallb P (chars ds) = true.
Proof.
  intros Hd. induction 1 as [|x l Hx _ IH]; [reflexivity|]. cbn [chars map forallb]. fold (chars l).
  rewrite Hd by assumption. exact IH.
Qed.
Lemma digit_char_is_digit x : x < 10 -> is_digit (x + 48) = true.
Proof. intros H. apply is_digit_char. exact H. Qed.
Lemma digit_char_is_digdot x : x < 10 -> is_digdot (x + 48) = true.
Proof. intros H. unfold is_digdot. rewrite digit_char_is_digit by assumption. reflexivity. Qed.

(* shape of the rendering of a non-negative decimal *)
Lemma fmt_prec_unsigned p d :
  d_neg d = false ->
  exists w t, Forall (fun x => x < 10) w /\ is_nil w = false /\ Forall (fun x => x < 10) t
              /\ length t = p
              /\ fmt_prec p d = chars w ++ (if (p =? 0)%nat then [] else 46 :: chars t).
Proof.
  intros Hn. destruct (digits_parts d) as [HW HF]. destruct (whole'_props _ HW) as [HW' [_ HN]].
  exists (whole' (whole_digits d)), (take_pad p (frac_digits d)).
  repeat split; auto.
  - apply take_pad_forall, HF.
  - unfold take_pad. rewrite firstn_length, app_length, zeros_length. lia.
  - unfold fmt_prec. rewrite Hn, whole_chars_eq. reflexivity.
Qed.

Lemma hdd_digits s : forallb is_digit s = true -> has_dot_digit s = false.
Proof.
  induction s as [|a r IH]; intros H; [reflexivity|]. cbn [forallb] in H. apply andb_prop in H.
  destruct H as [Ha Hr]. cbn [has_dot_digit]. destruct r as [|b r']; [reflexivity|].
  rewrite (IH Hr). unfold is_digit in Ha. destruct (N.eqb_spec a 46) as [->|_]; [discriminate Ha|reflexivity].
Qed.
Lemma hdd_app_dot x c y : is_digit c = true -> has_dot_digit (x ++ 46 :: c :: y) = true.
Proof.
  intros Hc. induction x as [|a r IH].
  - cbn. rewrite Hc. reflexivity.
  - cbn [app has_dot_digit]. destruct (r ++ 46 :: c :: y) eqn:E.
    + destruct r; discriminate.
    + rewrite IH. apply orb_true_r.
Qed.

Lemma hdd_fmt p d :
  d_neg d = false -> has_dot_digit (fmt_prec p d) = negb (p =? 0)%nat.
Proof.
  intros Hn. destruct (fmt_prec_unsigned p d Hn) as [w [t [HW [_ [HT [HL E]]]]]]. rewrite E.
  destruct (Nat.eqb_spec p 0) as [->|Hp]; cbn [negb].
  - rewrite app_nil_r. apply hdd_digits. apply chars_forall; [apply digit_char_is_digit|assumption].
  - destruct t as [|t0 t']; [cbn in HL; lia|]. inversion HT; subst. cbn [chars map]. apply hdd_app_dot.
    apply digit_char_is_digit. assumption.
Qed.

Lemma digdot_fmt p d : d_neg d = false -> forallb is_digdot (fmt_prec p d) = true /\ is_nil (fmt_prec p d) = false.
Proof.
  intros Hn. destruct (fmt_prec_unsigned p d Hn) as [w [t [HW [HN [HT [HL E]]]]]]. rewrite E. split.
  - rewrite forallb_app, (chars_forall is_digdot w digit_char_is_digdot HW).
    destruct (p =? 0)%nat; [reflexivity|]. cbn [forallb andb].
    change (is_digdot 46) with true. apply (chars_forall is_digdot t digit_char_is_digdot HT).
  - destruct w; [discriminate|reflexivity].
Qed.

Lemma span_digdot_app a rest :
  forallb is_digdot a = true -> match rest with [] => True | c :: _ => is_digdot c = false end ->
  span_digdot (a ++ rest) = (a, rest).
Proof.
  intros Ha Hr. induction a as [|x a IH].
  - cbn [app]. destruct rest as [|c r]; [reflexivity|]. cbn [span_digdot]. rewrite Hr. reflexivity.
  - cbn [forallb] in Ha. apply andb_prop in Ha. destruct Ha as [Hx Ha].
    cbn [app span_digdot]. rewrite Hx, (IH Ha). reflexivity.
Qed.

Lemma parse_ratio_parts a b post' pre' :
  forallb is_digdot a = true -> is_nil a = false -> forallb is_digdot b = true -> is_nil b = false ->
  trim (a ++ s_for ++ b) = a ++ s_for ++ b ->
  parse_dec_exact a = Ok post' -> parse_dec_exact b = Ok pre' ->
  dec_pos post' = true -> dec_pos pre' = true ->
  parse_ratio (a ++ s_for ++ b)
  = Ok (let rio := negb (has_dot_digit a) && negb (has_dot_digit b) in
        let r := {| r_post := post'; r_pre := pre'; r_rio := rio |} in
        if ratio_is_reverse r then r else {| r_post := post'; r_pre := pre'; r_rio := false |}).
Proof.
  intros Ha Na Hb Nb Ht Ea Eb Pa Pb. unfold parse_ratio. rewrite Ht.
  rewrite (span_digdot_app a (s_for ++ b) Ha) by reflexivity. rewrite Na.
  change (strip_for (s_for ++ b)) with (Some b).
  rewrite <- (app_nil_r b) at 1. rewrite (span_digdot_app b [] Hb I). rewrite Nb. cbn [orb negb is_nil].
  rewrite Ea, Pa, Eb, Pb. reflexivity.
Qed.

Lemma is_integer_scale n m s e :
  dec_is_integer (mk_dec n (m * pow10 e) (s + e)) = dec_is_integer (mk_dec n m s).
Proof.
  unfold dec_is_integer. cbn [d_mant d_scale mk_dec]. rewrite pow10_add.
  pose proof (pow10_pos s). pose proof (pow10_pos e).
  rewrite N.mul_mod_distr_r by lia.
  destruct (N.eqb_spec (m mod pow10 s) 0) as [E|E].
  - rewrite E. reflexivity.
  - apply N.eqb_neq. nia.
Qed.
Lemma dec_same_integer a b : dec_same a b -> dec_is_integer a = dec_is_integer b.
Proof.
  intros H. destruct (Nat.le_ge_cases (d_scale a) (d_scale b)) as [Hle|Hle].
  - rewrite (same_scaled a b H Hle), is_integer_scale, <- dec_eta. reflexivity.
  - assert (H' : dec_same b a) by (destruct H; split; auto).
    rewrite (same_scaled b a H' Hle), is_integer_scale, <- dec_eta. reflexivity.
Qed.

Lemma mag_ltb_same a a' b b' : dec_same a a' -> dec_same b b' -> mag_ltb a b = mag_ltb a' b'.
Proof.
  intros [_ Ha] [_ Hb]. unfold mag_ltb.
  pose proof (pow10_pos (d_scale a)) as P1. pose proof (pow10_pos (d_scale a')) as P2.
  pose proof (pow10_pos (d_scale b)) as P3. pose proof (pow10_pos (d_scale b')) as P4.
  set (x := d_mant a) in *. set (x' := d_mant a') in *. set (y := d_mant b) in *. set (y' := d_mant b') in *.
  set (X := pow10 (d_scale a)) in *. set (X' := pow10 (d_scale a')) in *.
  set (Y := pow10 (d_scale b)) in *. set (Y' := pow10 (d_scale b')) in *.
  assert (K : x * Y * (X' * Y') = x' * Y' * (X * Y)).
  { replace (x * Y * (X' * Y')) with (x * X' * (Y * Y')) by lia. rewrite Ha. lia. }
  assert (L : y * X * (X' * Y') = y' * X' * (X * Y)).
  { replace (y * X * (X' * Y')) with (y * Y' * (X * X')) by lia. rewrite Hb. lia. }
  assert (Q1 : 0 < X' * Y') by nia. assert (Q2 : 0 < X * Y) by nia.
  destruct (N.ltb_spec (x * Y) (y * X)) as [H|H], (N.ltb_spec (x' * Y') (y' * X')) as [H'|H']; try reflexivity; exfalso.
  - apply (N.mul_lt_mono_pos_r (X' * Y')) in H; [|assumption]. rewrite K, L in H.
    apply (N.mul_le_mono_r _ _ (X * Y)) in H'. lia.
  - apply (N.mul_lt_mono_pos_r (X * Y)) in H'; [|assumption]. rewrite <- K, <- L in H'.
    apply (N.mul_le_mono_r _ _ (X' * Y')) in H. lia.
Qed.

Definition rp_ratio (r : ratio) : ratio :=
  match parse_ratio (show_ratio r) with Ok r' => r' | _ => r end.

Lemma s_for_edges : forallb edge_ok s_for = true.
Proof. reflexivity. Qed.

Lemma ratio_text_trim a b :
  forallb edge_ok a = true -> is_nil a = false -> forallb edge_ok b = true -> is_nil b = false ->
  trim (a ++ s_for ++ b) = a ++ s_for ++ b /\ edges_ok (a ++ s_for ++ b) = true.
Proof.
  intros Ha Na Hb Nb.
  assert (E : edges_ok (a ++ s_for ++ b) = true).
  { apply edges_all.
    - destruct a; [discriminate|reflexivity].
    - rewrite !forallb_app, Ha, Hb, s_for_edges. reflexivity. }
  split; [apply trim_edges; exact E|exact E].
Qed.

Lemma valid_ratio_spec r :
  valid_ratio r = true ->
  valid_dec (r_post r) = true /\ valid_dec (r_pre r) = true /\ dec_pos (r_post r) = true
  /\ dec_pos (r_pre r) = true
  /\ (r_rio r = true -> ratio_is_reverse r = true /\ dec_is_integer (r_post r) = true /\ dec_is_integer (r_pre r) = true)
  /\ (dec_is_integer (r_post r) = true -> dec_is_integer (r_pre r) = true -> ratio_is_reverse r = true ->
      r_rio r = false -> int_part (r_post r) * 10 <= max_mant /\ int_part (r_pre r) * 10 <= max_mant).
Proof.
  unfold valid_ratio. rewrite !andb_true_iff, !orb_true_iff. intros [[[[[V1 V2] P1] P2] C1] C2].
  repeat split; auto.
  - destruct C1 as [C|C]; [rewrite H in C; discriminate|]. rewrite !andb_true_iff in C. apply C.
  - destruct C1 as [C|C]; [rewrite H in C; discriminate|]. rewrite !andb_true_iff in C. apply C.
  - destruct C1 as [C|C]; [rewrite H in C; discriminate|]. rewrite !andb_true_iff in C. apply C.
  - destruct C2 as [C|C]; [rewrite H, H0, H1, H2 in C; discriminate|].
    rewrite andb_true_iff, !N.leb_le in C. apply C.
  - destruct C2 as [C|C]; [rewrite H, H0, H1, H2 in C; discriminate|].
    rewrite andb_true_iff, !N.leb_le in C. apply C.
Qed.

Theorem ratio_roundtrip r :
  valid_ratio r = true ->
  parse_ratio (show_ratio r) = Ok (rp_ratio r)
  /\ dec_same (r_post r) (r_post (rp_ratio r)) /\ dec_same (r_pre r) (r_pre (rp_ratio r))
  /\ r_rio (rp_ratio r) = r_rio r /\ show_ratio (rp_ratio r) = show_ratio r
  /\ edges_ok (show_ratio r) = true.
Proof.
  intros Hv. destruct (valid_ratio_spec r Hv) as [V1 [V2 [P1 [P2 [C1 C2]]]]].
  pose proof (proj1 (dec_pos_spec _) P1) as [N1 _]. pose proof (proj1 (dec_pos_spec _) P2) as [N2 _].
  (* the two rendered terms and their exact parses *)
  assert (Hparts : exists pa pb post' pre',
    show_ratio r = fmt_prec pa (r_post r) ++ s_for ++ fmt_prec pb (r_pre r)
    /\ parse_dec_exact (fmt_prec pa (r_post r)) = Ok post' /\ parse_dec_exact (fmt_prec pb (r_pre r)) = Ok pre'
    /\ dec_same (r_post r) post' /\ dec_same (r_pre r) pre'
    /\ (negb (pa =? 0)%nat || negb (pb =? 0)%nat = false -> r_rio r = ratio_is_reverse r)
    /\ (negb (pa =? 0)%nat || negb (pb =? 0)%nat = true -> r_rio r = false)
    /\ (forall r', dec_same (r_post r) (r_post r') -> dec_same (r_pre r) (r_pre r') -> r_rio r' = r_rio r ->
        show_ratio r' = fmt_prec pa (r_post r') ++ s_for ++ fmt_prec pb (r_pre r')
        \/ (pa = d_scale (r_post r) /\ pb = d_scale (r_pre r) /\
            show_ratio r' = dec_to_string (r_post r') ++ s_for ++ dec_to_string (r_pre r')))).
  { unfold show_ratio.
    destruct (dec_is_integer (r_post r) && dec_is_integer (r_pre r)) eqn:Ei.
    - apply andb_prop in Ei. destruct Ei as [I1 I2].
      destruct (ratio_is_reverse r && negb (r_rio r)) eqn:Er.
      + apply andb_prop in Er. destruct Er as [R Hrio]. apply negb_true_iff in Hrio.
        destruct (C2 I1 I2 R Hrio) as [F1 F2].
        destruct (parse_exact_prec1 _ V1 P1 I1 F1) as [post' [E1 S1]].
        destruct (parse_exact_prec1 _ V2 P2 I2 F2) as [pre' [E2 S2]].
        exists 1%nat, 1%nat, post', pre'. repeat split; auto; try discriminate; try apply S1; try apply S2.
        intros r' S1' S2' Hr'. left. unfold show_ratio.
        rewrite <- (dec_same_integer _ _ S1'), <- (dec_same_integer _ _ S2'), I1, I2. cbn [andb].
        unfold ratio_is_reverse. rewrite <- (mag_ltb_same _ _ _ _ S1' S2'). fold (ratio_is_reverse r).
        rewrite R, Hr', Hrio. reflexivity.
      + destruct (parse_exact_prec0 _ V1 P1 I1) as [post' [E1 S1]].
        destruct (parse_exact_prec0 _ V2 P2 I2) as [pre' [E2 S2]].
        exists 0%nat, 0%nat, post', pre'. repeat split; auto; try discriminate; try apply S1; try apply S2.
        * intros _. destruct (ratio_is_reverse r) eqn:R; cbn [andb] in Er.
          -- apply negb_false_iff in Er. exact Er.
          -- destruct (r_rio r) eqn:Hrio; [|reflexivity]. destruct (C1 eq_refl) as [R' _]. congruence.
        * intros r' S1' S2' Hr'. left. unfold show_ratio.
          rewrite <- (dec_same_integer _ _ S1'), <- (dec_same_integer _ _ S2'), I1, I2. cbn [andb].
          unfold ratio_is_reverse. rewrite <- (mag_ltb_same _ _ _ _ S1' S2'). fold (ratio_is_reverse r).
          rewrite Hr', Er. reflexivity.
    - exists (d_scale (r_post r)), (d_scale (r_pre r)), (r_post r), (r_pre r).
      assert (Hrio : r_rio r = false).
      { destruct (r_rio r) eqn:Hrio; [|reflexivity]. destruct (C1 eq_refl) as [_ [I1 I2]].
        rewrite I1, I2 in Ei. discriminate. }
      assert (Hsc : negb (d_scale (r_post r) =? 0)%nat || negb (d_scale (r_pre r) =? 0)%nat = true).
      { apply andb_false_iff in Ei. apply orb_true_iff.
        assert (Z : forall d, dec_is_integer d = false -> negb (d_scale d =? 0)%nat = true).
        { intros d Hd. apply negb_true_iff, Nat.eqb_neq. intros E0. unfold dec_is_integer in Hd.
          rewrite E0, pow10_0, N.mod_1_r in Hd. discriminate. }
        destruct Ei as [E|E]; [left|right]; apply Z; exact E. }
      repeat split; try reflexivity; try (apply parse_exact_natural; assumption).
      + intros H. rewrite Hsc in H. discriminate.
      + intros _. exact Hrio.
      + intros r' S1' S2' Hr'. right. repeat split. unfold show_ratio.
        rewrite <- (dec_same_integer _ _ S1'), <- (dec_same_integer _ _ S2'), Ei. reflexivity. }
  destruct Hparts as [pa [pb [post' [pre' [Eshow [E1 [E2 [S1 [S2 [Hr0 [Hr1 Hshow']]]]]]]]]]].
  destruct (digdot_fmt pa _ N1) as [DA NA]. destruct (digdot_fmt pb _ N2) as [DB NB].
  destruct (fmt_prec_all_edge pa (r_post r)) as [EA _]. destruct (fmt_prec_all_edge pb (r_pre r)) as [EB _].
  destruct (ratio_text_trim _ _ EA NA EB NB) as [Htrim Hedges].
  assert (P1' : dec_pos post' = true) by (rewrite <- (dec_same_pos _ _ S1); exact P1).
  assert (P2' : dec_pos pre' = true) by (rewrite <- (dec_same_pos _ _ S2); exact P2).
  pose proof (parse_ratio_parts _ _ _ _ DA NA DB NB Htrim E1 E2 P1' P2') as EP.
  rewrite (hdd_fmt pa _ N1), (hdd_fmt pb _ N2), <- negb_orb in EP. rewrite <- Eshow in EP.
  assert (Hrev : ratio_is_reverse {| r_post := post'; r_pre := pre';
                                      r_rio := negb (negb (pa =? 0)%nat || negb (pb =? 0)%nat) |}
                 = ratio_is_reverse r).
  { unfold ratio_is_reverse. cbn [r_post r_pre]. symmetry. apply mag_ltb_same; assumption. }
  cbv zeta in EP. rewrite Hrev in EP.
  assert (Hres : exists rio', parse_ratio (show_ratio r) = Ok {| r_post := post'; r_pre := pre'; r_rio := rio' |}
                              /\ rio' = r_rio r).
  { destruct (negb (pa =? 0)%nat || negb (pb =? 0)%nat) eqn:Ed.
    - exists false. rewrite (Hr1 eq_refl). split; [|reflexivity]. rewrite EP.
      destruct (ratio_is_reverse r); reflexivity.
    - specialize (Hr0 eq_refl). cbn [negb] in EP. destruct (ratio_is_reverse r) eqn:R.
      + exists true. split; [exact EP|]. symmetry. exact Hr0.
      + exists false. split; [exact EP|]. symmetry. exact Hr0. }
  destruct Hres as [rio' [EP' Hrio']]. subst rio'.
  unfold rp_ratio. rewrite EP'. cbn [r_post r_pre r_rio].
  repeat split; auto; try apply S1; try apply S2.
  - destruct (Hshow' {| r_post := post'; r_pre := pre'; r_rio := r_rio r |} S1 S2 eq_refl) as [Hs|[Hpa [Hpb Hs]]];
      rewrite Hs, Eshow; cbn [r_post r_pre].
    + rewrite (fmt_prec_same pa _ _ S1), (fmt_prec_same pb _ _ S2). reflexivity.
    + subst pa pb. pose proof (parse_exact_natural _ V1 P1) as Q1. pose proof (parse_exact_natural _ V2 P2) as Q2.
      unfold dec_to_string in Q1, Q2. rewrite Q1 in E1. rewrite Q2 in E2.
      inversion E1; inversion E2; subst. reflexivity.
  - rewrite Eshow. exact Hedges.
Qed.

(* ---------------------------------------------------------------- the Display buffer (32 bytes) is never exceeded *)
Lemma digits_head_nonzero n : 0 < n -> match digits n with h :: _ => 0 < h | [] => False end.
Proof.
  induction n as [n IH] using (well_founded_induction N.lt_wf_0). intros Hn.
  pose proof (N.div_mod n 10 ltac:(lia)) as Hdm. pose proof (N.mod_lt n 10 ltac:(lia)) as Hm.
  assert (E : n = (n / 10) * 10 + n mod 10) by lia. rewrite E. rewrite digits_step by lia.
  destruct (N.eqb_spec (n / 10) 0) as [E0|E0].
  - rewrite E0, digits_0. cbn [app]. lia.
  - assert (Hlt : n / 10 < n) by (apply N.div_lt; lia).
    specialize (IH (n / 10) Hlt ltac:(lia)). destruct (digits (n / 10)); [contradiction|exact IH].
Qed.

Lemma val_lower h t : Forall (fun x => x < 10) (h :: t) -> 0 < h -> pow10 (length t) <= val (h :: t).
Proof.
  intros _ Hh. change (h :: t) with ([h] ++ t). rewrite val_app. change (val [h]) with (0 * 10 + h).
  pose proof (pow10_pos (length t)). nia.
Qed.

Lemma pow10_mono a b : (a <= b)%nat -> pow10 a <= pow10 b.
Proof.
  intros H. replace b with (a + (b - a))%nat by lia. rewrite pow10_add. pose proof (pow10_pos (b - a)).
  pose proof (pow10_pos a). nia.
Qed.

Lemma digits_length_bound n : n <= max_mant -> (length (digits n) <= 29)%nat.
Proof.
  intros Hn. destruct (N.eqb_spec n 0) as [->|Hz]; [cbn; lia|].
  pose proof (digits_head_nonzero n ltac:(lia)) as Hh. destruct (digits_val n) as [Hv HF].
  destruct (digits n) as [|h t] eqn:E; [contradiction|].
  pose proof (val_lower h t HF Hh) as Hl. rewrite Hv in Hl.
  destruct (Nat.le_gt_cases (length t) 28) as [H|H]; [cbn [length]; lia|].
  exfalso. assert (H29 : pow10 29 <= pow10 (length t)) by (apply pow10_mono; lia).
  assert (E29 : max_mant < pow10 29) by (vm_compute; reflexivity). lia.
Qed.

Theorem fmt_fits d k :
  valid_dec d = true -> (k <= 2)%nat -> fmt_panics (Nat.max (trimmed_prec d) k) d = false.
Proof.
  intros Hv Hk. apply valid_dec_spec in Hv. destruct Hv as [Hm [Hs _]].
  unfold fmt_panics. apply Nat.ltb_ge. unfold rep_len.
  destruct (frac_core d) as [core [j [_ [Hlen Hsum]]]].
  set (tp := trimmed_prec d) in *.
  assert (Hw : (length (whole_chars (whole_digits d)) <= Nat.max 1 (length (digits (d_mant d)) - d_scale d))%nat).
  { unfold whole_digits. rewrite whole_chars_eq, chars_length.
    set (w := firstn _ _). assert (Hl : (length w <= length (mant_digits d) - d_scale d)%nat) by (apply firstn_le_length).
    unfold mant_digits, pad_left in Hl. rewrite app_length, zeros_length in Hl.
    destruct w; cbn [whole' length] in *; lia. }
  pose proof (digits_length_bound _ Hm) as Hd.
  destruct (Nat.eqb_spec (Nat.max tp k) 0); lia.
Qed.

(* ---------------------------------------------------------------- str::trim is idempotent (any bytes) *)
Lemma trim_start_props s :
  (length (trim_start s) <= length s)%nat /\ trim_start (trim_start s) = trim_start s
  /\ exists p, s = p ++ trim_start s.
Proof.
  induction s as [s IH] using (well_founded_induction (Wf_nat.well_founded_ltof _ (@length N))).
  destruct s as [|a r]; [repeat split; try reflexivity; exists []; reflexivity|].
  assert (IHr : forall x, (length x < length (a :: r))%nat ->
                          (length (trim_start x) <= length x)%nat /\ trim_start (trim_start x) = trim_start x
                          /\ exists p, x = p ++ trim_start x) by (intros x Hx; apply IH; exact Hx).
  cbn [trim_start]. destruct (is_ascii_ws a) eqn:Ea.
  - destruct (IHr r ltac:(cbn; lia)) as [H1 [H2 [p Hp]]]. repeat split; [cbn; lia|exact H2|].
    exists (a :: p). cbn. f_equal. exact Hp.
  - destruct r as [|b r2].
    + repeat split; [lia|cbn [trim_start]; rewrite Ea; reflexivity|exists []; reflexivity].
    + destruct (ws2 a b) eqn:E2.
      * destruct (IHr r2 ltac:(cbn; lia)) as [H1 [H2 [p Hp]]]. repeat split; [cbn; lia|exact H2|].
        exists (a :: b :: p). cbn. do 2 f_equal. exact Hp.
      * destruct r2 as [|c r3].
        -- repeat split; [lia|cbn [trim_start]; rewrite Ea, E2; reflexivity|exists []; reflexivity].
        -- destruct (ws3 a b c) eqn:E3.
           ++ destruct (IHr r3 ltac:(cbn; lia)) as [H1 [H2 [p Hp]]]. repeat split; [cbn; lia|exact H2|].
              exists (a :: b :: c :: p). cbn. do 3 f_equal. exact Hp.
           ++ repeat split; [lia|cbn [trim_start]; rewrite Ea, E2, E3; reflexivity|exists []; reflexivity].
Qed.

Lemma trim_start_rev_props s :
  trim_start_rev (trim_start_rev s) = trim_start_rev s /\ exists p, s = p ++ trim_start_rev s.
Proof.
  induction s as [s IH] using (well_founded_induction (Wf_nat.well_founded_ltof _ (@length N))).
  destruct s as [|a r]; [split; [reflexivity|exists []; reflexivity]|].
  assert (IHr : forall x, (length x < length (a :: r))%nat ->
                          trim_start_rev (trim_start_rev x) = trim_start_rev x
                          /\ exists p, x = p ++ trim_start_rev x) by (intros x Hx; apply IH; exact Hx).
  cbn [trim_start_rev]. destruct (is_ascii_ws a) eqn:Ea.
  - destruct (IHr r ltac:(cbn; lia)) as [H2 [p Hp]]. split; [exact H2|].
    exists (a :: p). cbn. f_equal. exact Hp.
  - destruct r as [|b r2].
    + split; [cbn [trim_start_rev]; rewrite Ea; reflexivity|exists []; reflexivity].
    + destruct (ws2 b a) eqn:E2.
      * destruct (IHr r2 ltac:(cbn; lia)) as [H2 [p Hp]]. split; [exact H2|].
        exists (a :: b :: p). cbn. do 2 f_equal. exact Hp.
      * destruct r2 as [|c r3].
        -- split; [cbn [trim_start_rev]; rewrite Ea, E2; reflexivity|exists []; reflexivity].
        -- destruct (ws3 c b a) eqn:E3.
           ++ destruct (IHr r3 ltac:(cbn; lia)) as [H2 [p Hp]]. split; [exact H2|].
              exists (a :: b :: c :: p). cbn. do 3 f_equal. exact Hp.
           ++ split; [cbn [trim_start_rev]; rewrite Ea, E2, E3; reflexivity|exists []; reflexivity].
Qed.

(* a non-empty prefix of a text that does not start with white space does
   not start with white space either *)
Lemma trim_start_prefix t w : trim_start (t ++ w) = t ++ w -> t <> [] -> trim_start t = t.
Proof.
  intros Hu Hne. destruct t as [|a t1]; [contradiction|].
  assert (Hlen : forall x, (length x < length ((a :: t1) ++ w))%nat -> trim_start x <> (a :: t1) ++ w).
  { intros x Hx E. pose proof (proj1 (trim_start_props x)) as Hl. rewrite E in Hl. lia. }
  cbn [app trim_start] in Hu. cbn [trim_start].
  destruct (is_ascii_ws a) eqn:Ea.
  - exfalso. apply (Hlen (t1 ++ w)); [cbn; lia|exact Hu].
  - destruct t1 as [|b t2]; [reflexivity|]. cbn [app] in Hu.
    destruct (ws2 a b) eqn:E2.
    + exfalso. apply (Hlen (t2 ++ w)); [cbn; lia|exact Hu].
    + destruct t2 as [|c t3]; [reflexivity|]. cbn [app] in Hu.
      destruct (ws3 a b c) eqn:E3; [|reflexivity].
      exfalso. apply (Hlen (t3 ++ w)); [cbn; lia|exact Hu].
Qed.

Theorem trim_idem s : trim (trim s) = trim s.
Proof.
  set (u := trim_start s). set (x := trim_start_rev (rev u)).
  assert (E : trim s = rev x) by reflexivity. rewrite E.
  assert (Hu : trim_start u = u) by apply trim_start_props.
  destruct (trim_start_rev_props (rev u)) as [Hx [p Hp]]. fold x in Hx, Hp.
  assert (Eu : u = rev x ++ rev p).
  { rewrite <- (rev_involutive u), Hp, rev_app_distr. reflexivity. }
  assert (Hs : rev x <> [] -> trim_start (rev x) = rev x).
  { intros Hne. apply (trim_start_prefix (rev x) (rev p)); [rewrite <- Eu; exact Hu|exact Hne]. }
  destruct (rev x) as [|h t] eqn:Er.
  - reflexivity.
  - rewrite <- Er in *. unfold trim, trim_end. rewrite Hs, rev_involutive, Hx; [reflexivity|].
    rewrite Er. discriminate.
Qed.
