(* The effective-cent step of get_delta_superficial_loss_info after the fix
   "treat a superficial loss that rounds to zero effective cents as no
   superficial loss": the rounded product of a negative loss is never
   positive, so LessEqualZeroDecimal::try_from(..).unwrap() (site
   Site.eff_cent) cannot fail - in ANY arithmetic, because
   maybe_round_to_effective_cent returns either its argument or the argument
   rounded to the cent (half away from zero), and the rounding of a negative
   number is at most zero. *)
From Coq Require Import List NArith ZArith QArith Qcanon Bool Lia.
From ACB Require Import Base.Outcome Base.QcExtra Base.Fit Base.Arith Model.Tx Model.Ledger Model.Sfl
     Proofs.Tactics.
Local Open Scope Qc_scope.

Lemma lez_unwrap_ok s q r : lez_unwrap s q = Ok r -> r = q /\ q <= 0.
Proof.
  unfold lez_unwrap. destruct (Qcltb_spec 0 q) as [Hq|Hq]; intros H; inversion H; subst r.
  split; [reflexivity | apply Qcnot_lt_le; exact Hq].
Qed.

Lemma lez_unwrap_nonpos s q : q <= 0 -> lez_unwrap s q = Ok q.
Proof.
  intros H. unfold lez_unwrap. destruct (Qcltb_spec 0 q) as [Hq|_]; [|reflexivity].
  exfalso. apply (Qclt_not_le _ _ Hq). exact H.
Qed.

Lemma rha_nonpos n d : (n <= 0)%Z -> (rha n d <= 0)%Z.
Proof.
  intros Hn. unfold rha.
  pose proof (Z.div_pos (Z.abs n) (Zpos d) (Z.abs_nonneg n) (Pos2Z.is_pos d)) as Hq.
  destruct (Z.ltb_spec n 0) as [Hlt|Hge].
  - destruct (Z.leb _ _); lia.
  - assert (n = 0)%Z by lia. subst n. cbn. reflexivity.
Qed.

Lemma Qcfrac_nonpos' z p : (z <= 0)%Z -> Qcfrac z p <= 0.
Proof.
  intros H. unfold Qcle. assert (E : (this (Qcfrac z p) == z # p)%Q) by apply Qred_correct.
  rewrite E. change (this 0) with (0 # 1)%Q. unfold Qle. cbn [Qnum Qden]. lia.
Qed.

Lemma round2_nonpos q : q <= 0 -> round2 q <= 0.
Proof.
  intros H. unfold round2. apply Qcfrac_nonpos'. apply rha_nonpos.
  unfold Qcle, Qle in H. change (this 0) with (0 # 1)%Q in H. cbn [Qnum Qden] in H. lia.
Qed.

(* maybe_round_to_effective_cent of a non-positive value is non-positive,
   whatever the arithmetic does to the difference it looks at *)
Lemma eff_cent_nonpos A d c : d <= 0 -> eff_cent A d = Ok c -> c <= 0.
Proof.
  intros Hd. unfold eff_cent. destruct (a_sub A (round2 d) d) as [diff| |]; cbn [bind]; try discriminate.
  destruct (Qcltb _ _); intros H; inversion H; subst c; [apply round2_nonpos; exact Hd | exact Hd].
Qed.

(* the unwrap of the repaired code cannot fail *)
Lemma eff_cent_site_ok A d c : d <= 0 -> eff_cent A d = Ok c -> lez_unwrap Site.eff_cent c = Ok c.
Proof. intros Hd H. apply lez_unwrap_nonpos. eapply eff_cent_nonpos; eassumption. Qed.

(* ---- a smaller loss rounds to zero effective cents when a bigger one does ---- *)
Lemma Qcfrac_0 p : Qcfrac 0 p = 0.
Proof.
  apply Qc_is_canon. assert (E : (this (Qcfrac 0 p) == 0 # p)%Q) by apply Qred_correct.
  rewrite E. reflexivity.
Qed.

Lemma rha_tiny n d : (n <= 0)%Z -> (- 2 * n < Zpos d)%Z -> rha n d = 0%Z.
Proof.
  intros Hn Hs. unfold rha. rewrite (Z.abs_neq n Hn).
  assert (Hq : ((- n) / Zpos d = 0)%Z) by (apply Z.div_small; lia).
  assert (Hr : ((- n) mod Zpos d = - n)%Z) by (apply Z.mod_small; lia).
  rewrite Hq, Hr. destruct (Z.leb_spec (Zpos d) (2 * - n)) as [Hc|_]; [lia|].
  destruct (Z.ltb n 0); reflexivity.
Qed.

Definition eff_tol : Qc := Qcfrac 1 10000000000.

Lemma round2_tiny x : x <= 0 -> - eff_tol < x -> round2 x = 0.
Proof.
  intros Hx Ht. unfold round2.
  assert (Hn : (Qnum (this x) <= 0)%Z).
  { unfold Qcle, Qle in Hx. change (this 0) with (0 # 1)%Q in Hx. cbn [Qnum Qden] in Hx. lia. }
  assert (Hs : (- Qnum (this x) * 10000000000 < Zpos (Qden (this x)))%Z).
  { assert (E : this (- eff_tol) = ((-1) # 10000000000)%Q) by (vm_compute; reflexivity).
    unfold Qclt in Ht. rewrite E in Ht. unfold Qlt in Ht. cbn [Qnum Qden] in Ht. lia. }
  rewrite rha_tiny; [apply Qcfrac_0 | lia | lia].
Qed.

Lemma Qcabs_of_nonpos y : y <= 0 -> Qcabs (0 - y) = - y.
Proof.
  intros Hy. replace (0 - y) with (- y) by ring. unfold Qcabs.
  destruct (Qcleb_spec 0 (- y)) as [_|Hc]; [reflexivity | exfalso; apply Hc; qc_lra].
Qed.

Lemma eff_cent_zero_mono x1 x2 c1 :
  x1 <= x2 -> x2 <= 0 -> eff_cent exact x1 = Ok c1 -> ~ c1 < 0 ->
  exists c2, eff_cent exact x2 = Ok c2 /\ ~ c2 < 0.
Proof.
  intros H12 H2 H1 Hn.
  assert (Hx1 : x1 <= 0) by qc_lra.
  pose proof (eff_cent_nonpos exact x1 c1 Hx1 H1) as Hc1.
  assert (Hz : c1 = 0) by (apply Qcle_antisym; [exact Hc1 | apply Qcnot_lt_le; exact Hn]).
  subst c1.
  assert (Hcase : - eff_tol < x1).
  { revert H1. unfold eff_cent. cbn [a_sub exact bind]. fold eff_tol.
    destruct (Qcltb_spec (Qcabs (round2 x1 - x1)) eff_tol) as [Hlt|_]; intros H1.
    - assert (E : round2 x1 = 0) by congruence.
      rewrite E in Hlt. rewrite (Qcabs_of_nonpos x1 Hx1) in Hlt. qc_lra.
    - assert (E : x1 = 0) by congruence. rewrite E. vm_compute. reflexivity. }
  assert (Ht2 : - eff_tol < x2) by qc_lra.
  unfold eff_cent. cbn [a_sub exact bind]. fold eff_tol.
  rewrite (round2_tiny x2 H2 Ht2), (Qcabs_of_nonpos x2 H2).
  destruct (Qcltb_spec (- x2) eff_tol) as [_|Hc]; [|exfalso; apply Hc; qc_lra].
  exists 0. split; [reflexivity | apply Qcle_not_lt; apply Qcle_refl].
Qed.
