(* The effective-cent step of get_delta_superficial_loss_info after the fix
   "treat a superficial loss that rounds to zero effective cents as no
   superficial loss": the rounded product of a negative loss is never
   positive, so LessEqualZeroDecimal::try_from(..).unwrap() (site
   Site.eff_cent) cannot fail - in ANY arithmetic, because
   maybe_round_to_effective_cent returns either its argument or the argument
   rounded to the cent (half away from zero), and the rounding of a negative
   number is at most zero. *)
From Coq Require Import List NArith ZArith QArith Qcanon Bool Lia.
From ACB Require Import Base.Outcome Base.QcExtra Base.Fit Base.Arith Model.Tx Model.Ledger Model.Sfl
     Proofs.Tactics.
Local Open Scope Qc_scope.

Lemma lez_unwrap_ok s q r : lez_unwrap s q = Ok r -> r = q /\ q <= 0.
Proof.
  unfold lez_unwrap. destruct (Qcltb_spec 0 q) as [Hq|Hq]; intros H; inversion H; subst r.
  split; [reflexivity | apply Qcnot_lt_le; exact Hq].
Qed.

Lemma lez_unwrap_nonpos s q : q <= 0 -> lez_unwrap s q = Ok q.
Proof.
  intros H. unfold lez_unwrap. destruct (Qcltb_spec 0 q) as [Hq|_]; [|reflexivity].
  exfalso. apply (Qclt_not_le _ _ Hq). exact H.
Qed.

Lemma rha_nonpos n d : (n <= 0)%Z -> (rha n d <= 0)%Z.
Proof.
  intros Hn. unfold rha.
  pose proof (Z.div_pos (Z.abs n) (Zpos d) (Z.abs_nonneg n) (Pos2Z.is_pos d)) as Hq.
  destruct (Z.ltb_spec n 0) as [Hlt|Hge].
  - destruct (Z.leb _ _); lia.
  - assert (n = 0)%Z by lia. subst n. cbn. reflexivity.
Qed.

Lemma Qcfrac_nonpos' z p : (z <= 0)%Z -> Qcfrac z p <= 0.
Proof.
  intros H. unfold Qcle. assert (E : (this (Qcfrac z p) == z # p)%Q) by apply Qred_correct.
  rewrite E. change (this 0) with (0 # 1)%Q. unfold Qle. cbn [Qnum Qden]. lia.
Qed.

Lemma round2_nonpos q : q <= 0 -> round2 q <= 0.
Proof.
  intros H. unfold round2. apply Qcfrac_nonpos'. apply rha_nonpos.
  unfold Qcle, Qle in H. change (this 0) with (0 # 1)%Q in H. cbn [Qnum Qden] in H. lia.
Qed.

(* maybe_round_to_effective_cent of a non-positive value is non-positive,
   whatever the arithmetic does to the difference it looks at *)
Lemma eff_cent_nonpos A d c : d <= 0 -> eff_cent A d = Ok c -> c <= 0.
Proof.
  intros Hd. unfold eff_cent. destruct (a_sub A (round2 d) d) as [diff| |]; cbn [bind]; try discriminate.
  destruct (Qcltb _ _); intros H; inversion H; subst c; [apply round2_nonpos; exact Hd | exact Hd].
Qed.

(* the unwrap of the repaired code cannot fail *)
Lemma eff_cent_site_ok A d c : d <= 0 -> eff_cent A d = Ok c -> lez_unwrap Site.eff_cent c = Ok c.
Proof. intros Hd H. apply lez_unwrap_nonpos. eapply eff_cent_nonpos; eassumption. Qed.
