(* C10, several securities: the summary of a delta list does not read the read
   indices of its rows - [make_summary] commutes with [erase_d] (the re-emitted
   rows copy the read index, hence equality up to [map erase]) - and every row
   of a summary carries the security of the deltas it is made from.  Any
   arithmetic, both modes. *)
From Coq Require Import List NArith ZArith QArith Qcanon Bool Lia.
From ACB Require Import Base.Outcome Base.QcExtra Base.Arith Model.Tx Model.Ledger Model.Sfl
     Model.DeltaList Model.App Model.Summary Proofs.Tactics Proofs.EraseRi Proofs.C16App.
Import ListNotations.
Local Open Scope Z_scope.

Lemma in_firstn {T} (x : T) n l : In x (firstn n l) -> In x l.
Proof. intros H. rewrite <- (firstn_skipn n l). apply in_or_app. left. exact H. Qed.
Lemma in_skipn {T} (x : T) n l : In x (skipn n l) -> In x l.
Proof. intros H. rewrite <- (firstn_skipn n l). apply in_or_app. right. exact H. Qed.

(* ---------------------------------------------------------------- the ranges *)
Lemma latest_in_range_erase latest ds : forall i acc,
  latest_in_range latest (map erase_d ds) i acc = latest_in_range latest ds i acc.
Proof.
  induction ds as [|d ds IH]; intros i acc; cbn [map latest_in_range]; [reflexivity|].
  change (d_sd (erase_d d)) with (d_sd d). destruct (latest <? d_sd d); [reflexivity | apply IH].
Qed.

Lemma find_sfl_erase l : find is_sfl_delta (map erase_d l) = option_map erase_d (find is_sfl_delta l).
Proof.
  induction l as [|d l IH]; cbn [map find option_map]; [reflexivity|].
  change (is_sfl_delta (erase_d d)) with (is_sfl_delta d). destruct (is_sfl_delta d); [reflexivity | exact IH].
Qed.

Definition erase_snd (p : nat * delta) : nat * delta := (fst p, erase_d (snd p)).

Lemma indexed_erase l : forall i, indexed i (map erase_d l) = map erase_snd (indexed i l).
Proof. induction l as [|d l IH]; intros i; cbn [map indexed]; [reflexivity|]. rewrite IH. reflexivity. Qed.

Lemma back_scan_erase l : forall fd, back_scan fd (map erase_snd l) = back_scan fd l.
Proof.
  induction l as [|[i d] l IH]; intros fd; cbn [map back_scan erase_snd fst snd]; [reflexivity|].
  change (d_sd (erase_d d)) with (d_sd d). change (is_sfl_delta (erase_d d)) with (is_sfl_delta d).
  destruct (d_sd d <? fd); [reflexivity | apply IH].
Qed.

Lemma summary_ranges_erase latest ds : summary_ranges latest (map erase_d ds) = summary_ranges latest ds.
Proof.
  unfold summary_ranges. rewrite latest_in_range_erase.
  destruct (latest_in_range latest ds 0 None) as [idx|]; [|reflexivity].
  rewrite nth_error_map. destruct (nth_error ds idx) as [dl|]; cbn [option_map]; [|reflexivity].
  unfold first_sfl_after. rewrite skipn_map, find_sfl_erase.
  destruct (find is_sfl_delta (skipn (S idx) ds)) as [s|]; cbn [option_map]; [|reflexivity].
  change (d_sd (erase_d s)) with (d_sd s). change (d_sd (erase_d dl)) with (d_sd dl).
  destruct (d_sd s - window_days <=? d_sd dl); [|reflexivity].
  rewrite firstn_map, indexed_erase, <- map_rev, back_scan_erase. reflexivity.
Qed.

Lemma last_idxs_erase l : forall acc, last_idxs (map erase_snd l) acc = last_idxs l acc.
Proof.
  induction l as [|[i d] l IH]; intros acc; cbn [map last_idxs erase_snd fst snd]; [reflexivity|].
  change (t_af (d_tx (erase_d d))) with (t_af (d_tx d)).
  destruct (existsb _ acc); apply IH.
Qed.

Lemma summary_afs_erase rg ds : summary_afs rg (map erase_d ds) = summary_afs rg ds.
Proof.
  unfold summary_afs. destruct (rg_summarizable rg) as [s|]; [|reflexivity].
  rewrite firstn_map, indexed_erase, <- map_rev, last_idxs_erase. reflexivity.
Qed.

(* ---------------------------------------------------------------- the generated and the re-emitted rows *)
Section Any.
  Variable A : arith.

  Lemma simple_summary_erase af d : simple_summary A af (erase_d d) = simple_summary A af d.
  Proof. reflexivity. Qed.

  Lemma yearly_gains_erase af ds : forall acc,
    yearly_gains A af (map erase_d ds) acc = yearly_gains A af ds acc.
  Proof.
    induction ds as [|d ds IH]; intros acc; cbn [map yearly_gains]; [reflexivity|].
    change (t_af (d_tx (erase_d d))) with (t_af (d_tx d)). change (d_sd (erase_d d)) with (d_sd d).
    change (d_gain (erase_d d)) with (d_gain d).
    destruct (negb (aff_eqb (t_af (d_tx d)) af)); [apply IH|].
    destruct (d_gain d) as [g|]; [|apply IH]. destruct (Qceqb g 0); [apply IH|].
    match goal with |- bind ?m _ = bind ?m _ => destruct m; cbn [bind]; try reflexivity end. apply IH.
  Qed.

  Lemma year_sells_erase like af base ys : year_sells A (erase like) af base ys = year_sells A like af base ys.
  Proof.
    induction ys as [|[y g] ys IH]; cbn [year_sells]; [reflexivity|]. rewrite IH. reflexivity.
  Qed.

  Lemma annual_summary_erase af fy ds d :
    annual_summary A af fy (map erase_d ds) (erase_d d) = annual_summary A af fy ds d.
  Proof.
    unfold annual_summary. rewrite yearly_gains_erase.
    change (d_tx (erase_d d)) with (erase (d_tx d)). change (d_post (erase_d d)) with (d_post d).
    do 3 (match goal with |- bind ?m _ = bind ?m _ => destruct m; cbn [bind]; try reflexivity end).
    rewrite year_sells_erase. reflexivity.
  Qed.

  Lemma per_affiliate_erase annual ds dflt afs :
    per_affiliate A annual (map erase_d ds) (erase_d dflt) afs = per_affiliate A annual ds dflt afs.
  Proof.
    induction afs as [|[af i] afs IH]; cbn [per_affiliate]; [reflexivity|].
    rewrite IH, !map_nth, firstn_map. destruct annual.
    - rewrite annual_summary_erase. reflexivity.
    - rewrite simple_summary_erase. reflexivity.
  Qed.

  Lemma keep_delta_erase d : keep_delta (erase_d d) = map_res erase (keep_delta d).
  Proof.
    unfold keep_delta. cbn [erase_d d_tx d_sfl]. destruct (d_sfl d) as [i|]; [|reflexivity].
    cbn [erase t_act]. destruct (t_act (d_tx d)); reflexivity.
  Qed.

  Lemma keep_all_erase l : keep_all (map erase_d l) = map_res (map erase) (keep_all l).
  Proof.
    induction l as [|d l IH]; cbn [map keep_all]; [reflexivity|].
    rewrite keep_delta_erase. destruct (keep_delta d) as [t| |]; cbn [map_res bind]; try reflexivity.
    rewrite IH. destruct (keep_all l); reflexivity.
  Qed.

  Definition erase_parts (p : list tx * list tx) : list tx * list tx := (map erase (fst p), map erase (snd p)).

  Lemma make_summary_parts_erase latest ds annual :
    make_summary_parts A latest (map erase_d ds) annual = map_res erase_parts (make_summary_parts A latest ds annual).
  Proof.
    unfold make_summary_parts. destruct ds as [|dflt r]; [reflexivity|].
    cbn [map]. change (erase_d dflt :: map erase_d r) with (map erase_d (dflt :: r)).
    set (ds := dflt :: r). rewrite summary_ranges_erase.
    destruct (summary_ranges latest ds) as [rg|]; [|reflexivity].
    rewrite summary_afs_erase, per_affiliate_erase.
    destruct (per_affiliate A annual ds dflt (summary_afs rg ds)) as [sums| |]; cbn [bind map_res]; try reflexivity.
    rewrite skipn_map, firstn_map, keep_all_erase.
    destruct (keep_all _) as [kept| |]; cbn [bind map_res]; try reflexivity.
    unfold erase_parts. cbn [fst snd]. rewrite map_map. reflexivity.
  Qed.

  (* THE lemma: the summary of the erased deltas is the erased summary *)
  Theorem make_summary_erase latest ds annual :
    make_summary A latest (map erase_d ds) annual = map_res (map erase) (make_summary A latest ds annual).
  Proof.
    unfold make_summary. rewrite make_summary_parts_erase.
    destruct (make_summary_parts A latest ds annual) as [[g k]| |]; cbn [map_res bind]; try reflexivity.
    unfold erase_parts. cbn [fst snd]. rewrite map_app. reflexivity.
  Qed.

  (* two delta lists equal up to read indices have summaries equal up to read indices *)
  Corollary make_summary_up_to_ri latest annual ds ds' sums' :
    map erase_d ds = map erase_d ds' -> make_summary A latest ds' annual = Ok sums' ->
    exists sums, make_summary A latest ds annual = Ok sums /\ map erase sums = map erase sums'.
  Proof.
    intros E H. pose proof (make_summary_erase latest ds annual) as H1.
    rewrite E, make_summary_erase, H in H1. cbn [map_res] in H1.
    destruct (make_summary A latest ds annual) as [sums| |]; cbn [map_res] in H1; try discriminate.
    exists sums. split; [reflexivity|]. inversion H1. reflexivity.
  Qed.

  (* ---------------------------------------------------------------- the security of the rows of a summary *)
  Lemma year_sells_sec like af base ys l :
    year_sells A like af base ys = Ok l -> Forall (fun t => t_sec t = t_sec like) l.
  Proof.
    revert l. induction ys as [|[y g] ys IH]; cbn [year_sells]; intros l H.
    - inversion H. constructor.
    - bind_as H as gl Egl. bind_as H as amount Ea. bind_as H as rest Er. inversion H; subst l.
      constructor; [reflexivity | apply IH; reflexivity].
  Qed.

  Lemma per_affiliate_sec s annual ds dflt afs l :
    Forall (fun d => t_sec (d_tx d) = s) ds -> t_sec (d_tx dflt) = s ->
    per_affiliate A annual ds dflt afs = Ok l -> Forall (fun t => t_sec t = s) l.
  Proof.
    intros Hds Hd. revert l. induction afs as [|[af i] afs IH]; cbn [per_affiliate]; intros l H.
    - inversion H. constructor.
    - bind_as H as one E1. bind_as H as rest Er. inversion H; subst l.
      apply Forall_app. split; [|apply IH; reflexivity].
      assert (Hn : t_sec (d_tx (nth i ds dflt)) = s).
      { destruct (nth_in_or_default i ds dflt) as [Hin| ->]; [|exact Hd].
        rewrite Forall_forall in Hds. apply Hds. exact Hin. }
      destruct annual.
      + unfold annual_summary in E1. bind_as E1 as ys0 Ey. bind_as E1 as base Eb. bind_as E1 as n En.
        bind_as E1 as sells Es. inversion E1; subst one.
        apply Forall_app. split.
        * destruct (Qcltb 0 n); constructor; [exact Hn | constructor].
        * apply year_sells_sec in Es. eapply Forall_impl; [|exact Es]. intros t Ht. cbv beta in Ht. congruence.
      + unfold simple_summary in E1. destruct (Qcltb 0 (s_sh (d_post (nth i ds dflt)))).
        * bind_as E1 as aps Ea. inversion E1; subst one. constructor; [exact Hn | constructor].
        * inversion E1. constructor.
  Qed.

  Lemma keep_all_sec s l : forall K,
    Forall (fun d => t_sec (d_tx d) = s) l -> keep_all l = Ok K -> Forall (fun t => t_sec t = s) K.
  Proof.
    induction l as [|d l IH]; cbn [keep_all]; intros K Hl H.
    - inversion H. constructor.
    - apply Forall_cons_iff in Hl as [Hd Hl]. bind_as H as t Et. bind_as H as rest Er. inversion H; subst K.
      constructor; [|apply IH; [exact Hl | reflexivity]].
      unfold keep_delta in Et. destruct (d_sfl d) as [i|]; [|inversion Et; subst t; exact Hd].
      destruct (t_act (d_tx d)); try discriminate. inversion Et; subst t. exact Hd.
  Qed.

  Theorem make_summary_sec s latest ds annual sums :
    Forall (fun d => t_sec (d_tx d) = s) ds ->
    make_summary A latest ds annual = Ok sums -> Forall (fun t => t_sec t = s) sums.
  Proof.
    intros Hds H. unfold make_summary in H. bind_as H as p Ep. inversion H; subst sums. clear H.
    unfold make_summary_parts in Ep. destruct ds as [|dflt r]; [inversion Ep; constructor|].
    set (ds := dflt :: r) in *.
    destruct (summary_ranges latest ds) as [rg|]; [|inversion Ep; constructor].
    bind_as Ep as sums Es. bind_as Ep as kept Ek. inversion Ep; subst p. cbn [fst snd].
    apply Forall_app. split.
    - pose proof (per_affiliate_sec s annual ds dflt _ _ Hds (Forall_inv Hds) Es) as Hs.
      apply Forall_forall. intros x Hx. apply in_map_iff in Hx as (y & <- & Hy).
      apply (proj1 (In_sort_txs _ _)) in Hy.
      assert (Hn : forall k l, Forall (fun t => t_sec t = s) l -> Forall (fun t => t_sec t = s) (number_from k l)).
      { clear. intros k l. revert k. induction l as [|t l IH]; intros k Hl; cbn [number_from]; [constructor|].
        apply Forall_cons_iff in Hl as [Ht Hl]. constructor; [exact Ht | apply IH; exact Hl]. }
      specialize (Hn 0%N _ Hs). rewrite Forall_forall in Hn. exact (Hn _ Hy).
    - eapply keep_all_sec; [|exact Ek].
      apply Forall_forall. intros x Hx. apply in_firstn, in_skipn in Hx.
      rewrite Forall_forall in Hds. apply Hds. exact Hx.
  Qed.
End Any.
