(* Transfer of whole RUNS between arithmetics (C01 .. C04 under rounding).

   The bookkeeping model is written once over [A : arith].  This file relates
   the runs of two arithmetics: when every operation that SUCCEEDS in [A]
   returns the same value in [B] ([arith_le A B]) and the operators of [A]
   fail only by their own panics PanicOverflow / PanicDivZero ([op_only A]),
   then every function of the ledger model, up to [run] and [run_app], returns
   in [B] exactly what it returns in [A] - every row, every rejection, every
   panic of a constrained-decimal constructor / assertion / missing entry
   (those depend only on the VALUES, which are equal) - unless the [A] run
   ended with an operator failure; and even then the rows [A] emitted before
   the failure are a prefix of the rows of [B].

   Instance: [rep] = exact arithmetic that refuses (PanicOverflow) every result
   that is not a decimal with at most 28 places and a 96-bit mantissa
   ([fit q <> Some q]).  [arith_le rep exact] and [arith_le rep dec], hence a
   history on which [run rep] does not hit an operator failure has the SAME
   ledger under rust_decimal rounding and in exact arithmetic. *)
From Coq Require Import List NArith ZArith QArith Qcanon Bool Lia.
From ACB Require Import Base.Outcome Base.QcExtra Base.Fit Base.Arith Model.Tx Model.Ledger Model.Sfl
     Model.DeltaList Model.App Proofs.Tactics Proofs.FitProps.
Import ListNotations.
Local Open Scope Qc_scope.

(* ---- operator failures ---- *)
Definition opfailb (p : panic) : bool :=
  match p with PanicOverflow | PanicDivZero => true | _ => false end.
Definition opfail (p : panic) : Prop := opfailb p = true.

(* the run stopped because an operator of the arithmetic failed *)
Definition opstopb (o : option stop) : bool :=
  match o with Some (SPanic p) => opfailb p | _ => false end.

(* ---- refinement of arithmetics ---- *)
Definition arith_le (A B : arith) : Prop :=
  forall a b r,
    (a_add A a b = Ok r -> a_add B a b = Ok r) /\
    (a_sub A a b = Ok r -> a_sub B a b = Ok r) /\
    (a_mul A a b = Ok r -> a_mul B a b = Ok r) /\
    (a_div A a b = Ok r -> a_div B a b = Ok r).

(* the operators never reject and panic only as operators *)
Definition op_only (A : arith) : Prop :=
  forall a b,
    (forall e, a_add A a b <> Rej e) /\ (forall e, a_sub A a b <> Rej e) /\
    (forall e, a_mul A a b <> Rej e) /\ (forall e, a_div A a b <> Rej e) /\
    (forall p, a_add A a b = Panic p -> opfail p) /\ (forall p, a_sub A a b = Panic p -> opfail p) /\
    (forall p, a_mul A a b = Panic p -> opfail p) /\ (forall p, a_div A a b = Panic p -> opfail p).

(* [rsim m n]: n is m, unless m is an operator failure *)
Definition rsim {T} (m n : res T) : Prop := n = m \/ exists p, m = Panic p /\ opfail p.

Definition arith_sim (A B : arith) : Prop :=
  forall a b,
    rsim (a_add A a b) (a_add B a b) /\ rsim (a_sub A a b) (a_sub B a b) /\
    rsim (a_mul A a b) (a_mul B a b) /\ rsim (a_div A a b) (a_div B a b).

Lemma rsim_refl {T} (m : res T) : rsim m m.
Proof. left; reflexivity. Qed.

Lemma rsim_bind {T U} (m n : res T) (f g : T -> res U) :
  rsim m n -> (forall x, rsim (f x) (g x)) -> rsim (bind m f) (bind n g).
Proof.
  intros [->|(p & -> & Hp)] Hf.
  - destruct m as [x|e|p]; cbn [bind]; [apply Hf | apply rsim_refl | apply rsim_refl].
  - right. exists p. split; [reflexivity | exact Hp].
Qed.

Lemma rsim_eq {T} (m n : res T) :
  rsim m n -> (forall p, m = Panic p -> opfailb p = false) -> n = m.
Proof.
  intros [E|(p & E & Hp)] H; [exact E|]. specialize (H p E). unfold opfail in Hp. congruence.
Qed.

Lemma op_sim_one (f g : Qc -> Qc -> res Qc) a b :
  (forall r, f a b = Ok r -> g a b = Ok r) -> (forall e, f a b <> Rej e) ->
  (forall p, f a b = Panic p -> opfail p) -> rsim (f a b) (g a b).
Proof.
  intros Hok Hrej Hp. destruct (f a b) as [r|e|p] eqn:E.
  - left. apply Hok. reflexivity.
  - exfalso. apply (Hrej e). reflexivity.
  - right. exists p. split; [reflexivity | apply Hp; reflexivity].
Qed.

Lemma arith_le_sim A B : arith_le A B -> op_only A -> arith_sim A B.
Proof.
  intros Hle Hop a b. destruct (Hop a b) as (R1 & R2 & R3 & R4 & P1 & P2 & P3 & P4).
  repeat split.
  - apply (op_sim_one (a_add A) (a_add B)); [intros r; apply (Hle a b r) | exact R1 | exact P1].
  - apply (op_sim_one (a_sub A) (a_sub B)); [intros r; apply (Hle a b r) | exact R2 | exact P2].
  - apply (op_sim_one (a_mul A) (a_mul B)); [intros r; apply (Hle a b r) | exact R3 | exact P3].
  - apply (op_sim_one (a_div A) (a_div B)); [intros r; apply (Hle a b r) | exact R4 | exact P4].
Qed.

(* one step of a walk through a model function: a bind whose first component
   is closed by the hint database, an [if], or the end *)
Create HintDb rsimdb.
#[export] Hint Resolve rsim_refl : rsimdb.

Ltac rs_step :=
  first
    [ apply rsim_refl
    | apply rsim_bind; [ solve [eauto 3 with rsimdb] | intros ? ]
    | match goal with
      | |- rsim (if ?c then _ else _) (if ?c then _ else _) => destruct c
      | |- rsim (match ?o with Some _ => _ | None => _ end) (match ?o with Some _ => _ | None => _ end) =>
          destruct o
      end ].
Ltac rs := repeat rs_step.

Section Transfer.
  Variables A B : arith.
  Hypothesis HAB : arith_sim A B.

  (* ---- raw operators ---- *)
  Lemma sim_add a b : rsim (a_add A a b) (a_add B a b). Proof. apply (HAB a b). Qed.
  Lemma sim_sub a b : rsim (a_sub A a b) (a_sub B a b). Proof. apply (HAB a b). Qed.
  Lemma sim_mul a b : rsim (a_mul A a b) (a_mul B a b). Proof. apply (HAB a b). Qed.
  Lemma sim_div a b : rsim (a_div A a b) (a_div B a b). Proof. apply (HAB a b). Qed.
  Hint Resolve sim_add sim_sub sim_mul sim_div : rsimdb.

  (* ---- constrained operators: the constructor sees the same value ---- *)
  Lemma sim_gez_add a b : rsim (gez_add A a b) (gez_add B a b). Proof. unfold gez_add. rs. Qed.
  Lemma sim_gez_mul a b : rsim (gez_mul A a b) (gez_mul B a b). Proof. unfold gez_mul. rs. Qed.
  Lemma sim_gez_div a b : rsim (gez_div A a b) (gez_div B a b). Proof. unfold gez_div. rs. Qed.
  Lemma sim_pos_mul a b : rsim (pos_mul A a b) (pos_mul B a b). Proof. unfold pos_mul. rs. Qed.
  Lemma sim_pos_div a b : rsim (pos_div A a b) (pos_div B a b). Proof. unfold pos_div. rs. Qed.
  Lemma sim_neg_mul a b : rsim (neg_mul A a b) (neg_mul B a b). Proof. unfold neg_mul. rs. Qed.
  Lemma sim_neg_div a b : rsim (neg_div A a b) (neg_div B a b). Proof. unfold neg_div. rs. Qed.
  Lemma sim_neg_mul_pos a b : rsim (neg_mul_pos A a b) (neg_mul_pos B a b). Proof. unfold neg_mul_pos. rs. Qed.
  Hint Resolve sim_gez_add sim_gez_mul sim_gez_div sim_pos_mul sim_pos_div sim_neg_mul sim_neg_div
       sim_neg_mul_pos : rsimdb.

  (* ---- ledger primitives (Model/Ledger.v) ---- *)
  Lemma sim_all_after a o n : rsim (all_after A a o n) (all_after B a o n).
  Proof. unfold all_after. rs. apply sim_add. Qed.
  Hint Resolve sim_all_after : rsimdb.

  Lemma sim_set_latest st af v : rsim (set_latest A st af v) (set_latest B st af v).
  Proof. unfold set_latest. rs. Qed.
  Hint Resolve sim_set_latest : rsimdb.

  Lemma sim_init_state init : rsim (init_state A init) (init_state B init).
  Proof. unfold init_state. destruct init as [i|]; rs. Qed.

  Lemma sim_per_share s : rsim (per_share_acb A s) (per_share_acb B s).
  Proof. unfold per_share_acb. destruct (s_acb s) as [acb|]; rs. Qed.
  Hint Resolve sim_per_share : rsimdb.

  Lemma sim_local_value sh aps rate : rsim (local_value A sh aps rate) (local_value B sh aps rate).
  Proof. unfold local_value. rs. Qed.
  Hint Resolve sim_local_value : rsimdb.

  Lemma sim_split_factor post pre : rsim (split_factor A post pre) (split_factor B post pre).
  Proof. unfold split_factor. apply sim_pos_div. Qed.
  Hint Resolve sim_split_factor : rsimdb.

  Lemma sim_sell_core pre sh aps com rate crate :
    rsim (sell_core A pre sh aps com rate crate) (sell_core B pre sh aps com rate crate).
  Proof. unfold sell_core. rs. Qed.
  Hint Resolve sim_sell_core : rsimdb.

  Lemma sim_nonsell t pre : rsim (delta_nonsell A t pre) (delta_nonsell B t pre).
  Proof.
    unfold delta_nonsell.
    destruct (t_act t) as [sh aps com rate crate | sh aps com rate crate sp | aps rate | sh aps | post pre_ io].
    all: rs.
  Qed.
  Hint Resolve sim_nonsell : rsimdb.

  (* ---- the window scans (Model/Sfl.v) ---- *)
  Lemma sim_fwd_scan last dflt aft : forall adj s,
    rsim (fwd_scan A last dflt aft adj s) (fwd_scan B last dflt aft adj s).
  Proof.
    induction aft as [|x aft IH]; intros adj s; cbn [fwd_scan]; [apply rsim_refl|].
    destruct (Z.ltb last (t_sd x)); [apply rsim_refl|].
    destruct (t_act x) as [sh aps com rate crate | sh aps com rate crate sp | aps rate | sh aps | post pre io];
      rs; apply IH.
  Qed.

  Lemma sim_bwd_scan first dflt bef : forall adj s,
    rsim (bwd_scan A first dflt bef adj s) (bwd_scan B first dflt bef adj s).
  Proof.
    induction bef as [|x bef IH]; intros adj s; cbn [bwd_scan]; [apply rsim_refl|].
    destruct (Z.ltb (t_sd x) first); [apply rsim_refl|].
    destruct (t_act x) as [sh aps com rate crate | sh aps com rate crate sp | aps rate | sh aps | post pre io];
      rs; apply IH.
  Qed.
  Hint Resolve sim_fwd_scan sim_bwd_scan : rsimdb.

  Lemma sim_sfl_info bef t sold aft st :
    rsim (sfl_info A bef t sold aft st) (sfl_info B bef t sold aft st).
  Proof. unfold sfl_info. rs. Qed.
  Hint Resolve sim_sfl_info : rsimdb.

  Lemma sim_sum_buyers active l : forall acc,
    rsim (sum_buyers A active l acc) (sum_buyers B active l acc).
  Proof. induction l as [|a l IH]; intros acc; cbn [sum_buyers]; rs. apply IH. Qed.
  Hint Resolve sim_sum_buyers : rsimdb.

  Lemma sim_sfl_ratio sold ms : rsim (sfl_ratio A sold ms) (sfl_ratio B sold ms).
  Proof.
    unfold sfl_ratio. destruct ms as [s|]; [|apply rsim_refl].
    destruct (sc_buyers s) as [|b bs]; rs.
  Qed.
  Hint Resolve sim_sfl_ratio : rsimdb.

  Lemma sim_eff_cent d : rsim (eff_cent A d) (eff_cent B d).
  Proof. unfold eff_cent. rs. Qed.
  Hint Resolve sim_eff_cent : rsimdb.

  Lemma sim_gen_sfla t loss ps : rsim (gen_sfla A t loss ps) (gen_sfla B t loss ps).
  Proof.
    induction ps as [|[af [n d]] ps IH]; cbn [gen_sfla]; [apply rsim_refl|].
    destruct (negb (Qceqb n 0) && negb (af_reg af)); [|exact IH]. rs.
  Qed.
  Hint Resolve sim_gen_sfla : rsimdb.

  Lemma sim_delta_sfl bef t sold spec aft st loss :
    rsim (delta_sfl A bef t sold spec aft st loss) (delta_sfl B bef t sold spec aft st loss).
  Proof.
    unfold delta_sfl. apply rsim_bind; [apply sim_sfl_info | intros info].
    apply rsim_bind; [apply sim_sfl_ratio | intros m].
    apply rsim_bind.
    - destruct m as [r|]; rs.
    - intros calc. destruct spec as [[sv force]|].
      + apply rsim_bind; [destruct force; rs | intros chk]. rs.
      + destruct m as [r|]; rs.
  Qed.
  Hint Resolve sim_delta_sfl : rsimdb.

  (* ---- delta_for_tx (Model/DeltaList.v) ---- *)
  Lemma sim_delta_for_tx bef t aft st :
    rsim (delta_for_tx A bef t aft st) (delta_for_tx B bef t aft st).
  Proof.
    unfold delta_for_tx. apply rsim_bind; [apply rsim_refl | intros _].
    destruct (t_act t) as [sh aps com rate crate | sh aps com rate crate sp | aps rate | sh aps | post pre io];
      try solve [rs].
    apply rsim_bind; [apply sim_sell_core | intros c].
    destruct (sc_gain c) as [g|]; [|apply rsim_refl].
    destruct (Qcltb g 0).
    - apply rsim_bind; [apply sim_delta_sfl | intros m]. destruct m as [[info inj]|]; rs.
    - destruct sp; apply rsim_refl.
  Qed.

  (* ---- whole runs ----
     Either the A run did not end in an operator failure and the B run is
     identical, or it did and the rows A emitted are a prefix of B's. *)
  Ltac any_tail4 :=
    match goal with
    | |- exists tl b' s' o', ?X = _ =>
        destruct X as [[[tl0 b0] s0] o0]; exists tl0, b0, s0, o0; reflexivity
    end.
  Ltac any_tail2 :=
    match goal with
    | |- exists tl o', ?X = _ =>
        destruct X as [tl0 o0]; exists tl0, o0; reflexivity
    end.

  Lemma run_injected_sim inj : forall bef st aft ds b s o,
    run_injected A bef st inj aft = (ds, b, s, o) ->
    (opstopb o = false /\ run_injected B bef st inj aft = (ds, b, s, o)) \/
    (opstopb o = true /\ exists tl b' s' o', run_injected B bef st inj aft = (ds ++ tl, b', s', o')).
  Proof.
    induction inj as [|t inj IH]; intros bef st aft ds b s o H; cbn [run_injected] in *.
    - inversion H; subst. left. split; reflexivity.
    - destruct (sim_delta_for_tx bef t (inj ++ aft) st) as [Ed|(p & Ed & Hp)].
      2: { rewrite Ed in H. inversion H; subst. right. split; [exact Hp|]. cbn [app]. any_tail4. }
      rewrite Ed. destruct (delta_for_tx A bef t (inj ++ aft) st) as [[d i]|e|p] eqn:EdA.
      + destruct (sim_set_latest st (t_af t) (d_post d)) as [Es|(p & Es & Hp)].
        2: { rewrite Es in H. inversion H; subst. right. split; [exact Hp|]. cbn [app]. any_tail4. }
        rewrite Es. destruct (set_latest A st (t_af t) (d_post d)) as [st1|e|p] eqn:EsA.
        * destruct (run_injected A (t :: bef) st1 inj aft) as [[[ds1 b1] s1] o1] eqn:Er.
          inversion H; subst; clear H.
          destruct (IH _ _ _ _ _ _ _ Er) as [[Ho EB]|[Ho (tl & b' & s' & o' & EB)]]; rewrite EB.
          -- left. split; [exact Ho | reflexivity].
          -- right. split; [exact Ho|]. exists tl, b', s', o'. reflexivity.
        * inversion H; subst. left. split; reflexivity.
        * inversion H; subst. destruct (opfailb p) eqn:Ep.
          -- right. split; [exact Ep|]. exists [], b, s, (Some (SPanic p)). reflexivity.
          -- left. split; [exact Ep | reflexivity].
      + inversion H; subst. left. split; reflexivity.
      + inversion H; subst. destruct (opfailb p) eqn:Ep.
        * right. split; [exact Ep|]. exists [], b, s, (Some (SPanic p)). reflexivity.
        * left. split; [exact Ep | reflexivity].
  Qed.

  Lemma run_loop_sim aft : forall bef st ds o,
    run_loop A bef st aft = (ds, o) ->
    (opstopb o = false /\ run_loop B bef st aft = (ds, o)) \/
    (opstopb o = true /\ exists tl o', run_loop B bef st aft = (ds ++ tl, o')).
  Proof.
    induction aft as [|t aft IH]; intros bef st ds o H; cbn [run_loop] in *.
    - inversion H; subst. left. split; reflexivity.
    - destruct (sim_delta_for_tx bef t aft st) as [Ed|(p & Ed & Hp)].
      2: { rewrite Ed in H. inversion H; subst. right. split; [exact Hp|]. cbn [app]. any_tail2. }
      rewrite Ed. destruct (delta_for_tx A bef t aft st) as [[d inj]|e|p] eqn:EdA.
      + destruct (sim_set_latest st (t_af t) (d_post d)) as [Es|(p & Es & Hp)].
        2: { rewrite Es in H. inversion H; subst. right. split; [exact Hp|]. cbn [app]. any_tail2. }
        rewrite Es. destruct (set_latest A st (t_af t) (d_post d)) as [st1|e|p] eqn:EsA.
        * destruct (run_injected A (t :: bef) st1 inj aft) as [[[dsi b1] s1] o1] eqn:Er.
          destruct (run_injected_sim _ _ _ _ _ _ _ _ Er) as [[Ho EB]|[Ho (tl & b' & s' & o' & EB)]]; rewrite EB.
          -- destruct o1 as [x|].
             ++ inversion H; subst. left. split; [exact Ho | reflexivity].
             ++ destruct (run_loop A b1 s1 aft) as [ds2 o2] eqn:El. inversion H; subst; clear H.
                destruct (IH _ _ _ _ El) as [[Ho2 EB2]|[Ho2 (tl & o' & EB2)]]; rewrite EB2.
                ** left. split; [exact Ho2 | reflexivity].
                ** right. split; [exact Ho2|]. exists tl, o'. rewrite app_comm_cons, app_assoc. reflexivity.
          -- destruct o1 as [x|]; [|discriminate Ho]. inversion H; subst; clear H.
             right. split; [exact Ho|]. destruct o' as [x'|].
             ++ exists tl, (Some x'). reflexivity.
             ++ destruct (run_loop B b' s' aft) as [ds2 o2]. exists (tl ++ ds2), o2.
                rewrite app_comm_cons, app_assoc. reflexivity.
        * inversion H; subst. left. split; reflexivity.
        * inversion H; subst. destruct (opfailb p) eqn:Ep.
          -- right. split; [exact Ep|]. exists [], (Some (SPanic p)). reflexivity.
          -- left. split; [exact Ep | reflexivity].
      + inversion H; subst. left. split; reflexivity.
      + inversion H; subst. destruct (opfailb p) eqn:Ep.
        * right. split; [exact Ep|]. exists [], (Some (SPanic p)). reflexivity.
        * left. split; [exact Ep | reflexivity].
  Qed.

  Lemma run_sim init txs ds o :
    run A init txs = (ds, o) ->
    (opstopb o = false /\ run B init txs = (ds, o)) \/
    (opstopb o = true /\ exists tl o', run B init txs = (ds ++ tl, o')).
  Proof.
    unfold run. destruct txs as [|t txs]; intros H.
    - inversion H; subst. left. split; reflexivity.
    - destruct (sim_init_state init) as [Ei|(p & Ei & Hp)].
      2: { rewrite Ei in H. inversion H; subst. right. split; [exact Hp|]. cbn [app]. any_tail2. }
      rewrite Ei. destruct (init_state A init) as [st|e|p].
      + apply run_loop_sim. exact H.
      + inversion H; subst. left. split; reflexivity.
      + inversion H; subst. destruct (opfailb p) eqn:Ep.
        * right. split; [exact Ep|]. exists [], (Some (SPanic p)). reflexivity.
        * left. split; [exact Ep | reflexivity].
  Qed.

  (* the transfer principle *)
  Theorem run_transfer init txs ds o :
    run A init txs = (ds, o) -> opstopb o = false -> run B init txs = (ds, o).
  Proof.
    intros H Ho. destruct (run_sim _ _ _ _ H) as [[_ E]|[Ho' _]]; [exact E | congruence].
  Qed.

  (* ... and what remains true when A's own operator failed *)
  Theorem run_transfer_prefix init txs ds o :
    run A init txs = (ds, o) -> exists tl o', run B init txs = (ds ++ tl, o').
  Proof.
    intros H. destruct (run_sim _ _ _ _ H) as [[_ E]|[_ (tl & o' & E)]].
    - exists [], o. rewrite app_nil_r. exact E.
    - exists tl, o'. exact E.
  Qed.

  (* the application pipeline: every security *)
  Definition sec_ok (x : N * (list delta * option stop)) : bool := negb (opstopb (snd (snd x))).

  Lemma run_secs_transfer inits all secs : forall l,
    run_secs A inits all secs = Ok l -> forallb sec_ok l = true ->
    run_secs B inits all secs = Ok l.
  Proof.
    induction secs as [|s secs IH]; intros l H Hl; cbn [run_secs] in *; [exact H|].
    bind_as H as rest Er.
    destruct (replace_global_splits _ (txs_of_sec s all)) as [l0|e|p];
      inversion H; subst; clear H; cbn [forallb] in Hl; apply andb_prop in Hl as [Hx Hl];
      rewrite (IH _ eq_refl Hl); cbn [bind]; [|reflexivity|reflexivity].
    destruct (run A (init_for inits s) l0) as [ds o] eqn:Erun.
    unfold sec_ok in Hx. cbn [snd] in Hx. apply negb_true_iff in Hx.
    rewrite (run_transfer _ _ _ _ Erun Hx). reflexivity.
  Qed.

  Theorem run_app_transfer inits rows l :
    run_app A inits rows = Ok l -> forallb sec_ok l = true -> run_app B inits rows = Ok l.
  Proof. unfold run_app. apply run_secs_transfer. Qed.
End Transfer.

(* ---- the representable arithmetic ----
   exact arithmetic that refuses every result [fit] would have to round *)
Definition rep_res (q : Qc) : res Qc :=
  match fit q with
  | Some r => if Qceqb r q then Ok q else Panic PanicOverflow
  | None => Panic PanicOverflow
  end.

Definition rep : arith := {|
  a_add a b := rep_res (a + b);
  a_sub a b := rep_res (a - b);
  a_mul a b := rep_res (a * b);
  a_div a b := if Qceqb b 0 then Panic PanicDivZero else rep_res (a / b);
  a_exact := false
|}.

(* a decimal with at most 28 places whose mantissa fits 96 bits *)
Definition representable (q : Qc) : Prop :=
  exists m s, (s <= 28)%nat /\ (Z.abs m <= max_mant)%Z /\ (this q == m # p10 s)%Q.

Lemma rep_res_ok q r : rep_res q = Ok r -> r = q /\ fit q = Some q.
Proof.
  unfold rep_res. destruct (fit q) as [x|] eqn:E; [|discriminate].
  destruct (Qceqb_spec x q) as [->|_]; [|discriminate]. intros H; inversion H; subst. auto.
Qed.
Lemma rep_res_panic q p : rep_res q = Panic p -> p = PanicOverflow.
Proof.
  unfold rep_res. destruct (fit q) as [x|]; [destruct (Qceqb x q)|]; intros H; inversion H; reflexivity.
Qed.
Lemma rep_res_norej q e : rep_res q <> Rej e.
Proof. unfold rep_res. destruct (fit q) as [x|]; [destruct (Qceqb x q)|]; discriminate. Qed.

Lemma rep_res_of_fit q : fit q = Some q -> rep_res q = Ok q.
Proof. intros E. unfold rep_res. rewrite E. destruct (Qceqb_spec q q) as [_|N]; [reflexivity | contradiction N; reflexivity]. Qed.

Theorem rep_res_iff q : rep_res q = Ok q <-> representable q.
Proof.
  split.
  - intros H. apply rep_res_ok in H as [_ E]. destruct (fit_error q q E) as (s & Hs & _ & m & Hm & Hq).
    exists m, s. auto.
  - intros (m & s & Hs & Hm & Hq). apply rep_res_of_fit. exact (fit_exact q m s Hs Hm Hq).
Qed.

Lemma rep_op_only : op_only rep.
Proof.
  intros a b. cbn [a_add a_sub a_mul a_div rep].
  repeat split; try (intros e; apply rep_res_norej);
    try (intros p H; apply rep_res_panic in H; subst p; reflexivity).
  - intros e. destruct (Qceqb b 0); [discriminate | apply rep_res_norej].
  - intros p H. destruct (Qceqb b 0); [inversion H; reflexivity|].
    apply rep_res_panic in H; subst p; reflexivity.
Qed.

Lemma rep_le_exact : arith_le rep exact.
Proof.
  intros a b r. cbn [a_add a_sub a_mul a_div rep exact].
  repeat split; try (intros H; apply rep_res_ok in H as [-> _]; reflexivity).
  destruct (Qceqb b 0); [discriminate|]. intros H; apply rep_res_ok in H as [-> _]; reflexivity.
Qed.

Lemma rep_le_dec : arith_le rep dec.
Proof.
  intros a b r. cbn [a_add a_sub a_mul a_div rep dec]. unfold fit_res.
  repeat split; try (intros H; apply rep_res_ok in H as [-> E]; rewrite E; reflexivity).
  destruct (Qceqb b 0); [discriminate|]. intros H; apply rep_res_ok in H as [-> E]; rewrite E; reflexivity.
Qed.

Lemma exact_op_only : op_only exact.
Proof.
  intros a b. cbn [a_add a_sub a_mul a_div exact].
  repeat split; try discriminate; intros x; destruct (Qceqb b 0); try discriminate.
  intros H; inversion H; reflexivity.
Qed.

Lemma dec_op_only : op_only dec.
Proof.
  assert (Hr : forall q e, fit_res q <> Rej e) by (intros q e; unfold fit_res; destruct (fit q); discriminate).
  assert (Hp : forall q p, fit_res q = Panic p -> opfail p).
  { intros q p. unfold fit_res. destruct (fit q); [discriminate|]. intros H; inversion H; reflexivity. }
  intros a b. cbn [a_add a_sub a_mul a_div dec].
  repeat split; try apply Hr; try apply Hp.
  - intros e. destruct (Qceqb b 0); [discriminate | apply Hr].
  - intros p. destruct (Qceqb b 0); [intros H; inversion H; reflexivity | apply Hp].
Qed.

(* On a history whose exact intermediate values are all representable the
   rounded ledger IS the exact ledger. *)
Theorem dec_equals_exact_when_representable init txs ds o :
  run rep init txs = (ds, o) -> opstopb o = false ->
  run dec init txs = (ds, o) /\ run exact init txs = (ds, o).
Proof.
  intros H Ho. split.
  - exact (run_transfer rep dec (arith_le_sim _ _ rep_le_dec rep_op_only) _ _ _ _ H Ho).
  - exact (run_transfer rep exact (arith_le_sim _ _ rep_le_exact rep_op_only) _ _ _ _ H Ho).
Qed.

Theorem app_dec_equals_exact_when_representable inits rows l :
  run_app rep inits rows = Ok l -> forallb sec_ok l = true ->
  run_app dec inits rows = Ok l /\ run_app exact inits rows = Ok l.
Proof.
  intros H Hl. split.
  - exact (run_app_transfer rep dec (arith_le_sim _ _ rep_le_dec rep_op_only) _ _ _ H Hl).
  - exact (run_app_transfer rep exact (arith_le_sim _ _ rep_le_exact rep_op_only) _ _ _ H Hl).
Qed.

(* the rows the rounded run shares with the exact run in any case: those the
   representable run emitted before its first refusal *)
Theorem rep_rows_are_common_prefix init txs ds o :
  run rep init txs = (ds, o) ->
  exists tld od tle oe, run dec init txs = (ds ++ tld, od) /\ run exact init txs = (ds ++ tle, oe).
Proof.
  intros H.
  destruct (run_transfer_prefix rep dec (arith_le_sim _ _ rep_le_dec rep_op_only) _ _ _ _ H) as (tld & od & Ed).
  destruct (run_transfer_prefix rep exact (arith_le_sim _ _ rep_le_exact rep_op_only) _ _ _ _ H) as (tle & oe & Ee).
  exists tld, od, tle, oe. auto.
Qed.

(* ---- the statements in terms of [arith_le] ---- *)
Theorem transfer_principle A B init txs ds o :
  arith_le A B -> op_only A ->
  run A init txs = (ds, o) -> opstopb o = false -> run B init txs = (ds, o).
Proof. intros Hle Hop. exact (run_transfer A B (arith_le_sim _ _ Hle Hop) init txs ds o). Qed.

Theorem transfer_prefix A B init txs ds o :
  arith_le A B -> op_only A ->
  run A init txs = (ds, o) -> exists tl o', run B init txs = (ds ++ tl, o').
Proof. intros Hle Hop. exact (run_transfer_prefix A B (arith_le_sim _ _ Hle Hop) init txs ds o). Qed.

Theorem transfer_principle_app A B inits rows l :
  arith_le A B -> op_only A ->
  run_app A inits rows = Ok l -> forallb sec_ok l = true -> run_app B inits rows = Ok l.
Proof. intros Hle Hop. exact (run_app_transfer A B (arith_le_sim _ _ Hle Hop) inits rows l). Qed.

Theorem rep_refines_both : arith_le rep exact /\ arith_le rep dec /\ op_only rep.
Proof. split; [exact rep_le_exact | split; [exact rep_le_dec | exact rep_op_only]]. Qed.

(* every theorem about all runs of the exact ledger reads verbatim for the
   rounded ledger on histories [rep] accepts *)
Theorem exact_theorems_transfer
  (P : option status -> list tx -> list delta -> option stop -> Prop) :
  (forall init txs ds o, run exact init txs = (ds, o) -> P init txs ds o) ->
  forall init txs ds o,
    run rep init txs = (ds, o) -> opstopb o = false ->
    run dec init txs = (ds, o) /\ P init txs ds o.
Proof.
  intros HP init txs ds o H Ho. destruct (dec_equals_exact_when_representable _ _ _ _ H Ho) as [Hd He].
  split; [exact Hd | exact (HP _ _ _ _ He)].
Qed.
