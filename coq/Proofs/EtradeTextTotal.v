(* C19, text layer: the only panic of parse_text is the fee sum of option exercises. *)
From Coq Require Import List NArith ZArith QArith Qcanon Bool Lia.
From ACB Require Import Base.Outcome Base.QcExtra Base.Fit Base.Arith Model.QText Model.Etrade
  Model.EtradeText Proofs.FitProps Proofs.EtradeTextFrame Proofs.EtradeTextRT Proofs.EtradeTextProps.
Import ListNotations.
Local Open Scope N_scope.

(* ---- amounts matched by \d+\.\d+ ---- *)
Definition ddsh (t : text) : Prop := exists a b, t = a ++ 46 :: b /\ digits a /\ digits b /\ b <> [].
Definition optsh (o : option text) : Prop := match o with Some t => ddsh t | None => True end.

Lemma run1_spec p s v r : run1 p s = Some (v, r) -> forallb p v = true /\ v <> [].
Proof.
  unfold run1. destruct (span p s) as [a r'] eqn:E. destruct (span_spec _ _ _ _ E) as [_ H].
  destruct a as [|c a]; [discriminate|]. intros X. inversion X; subst. split; [exact H|discriminate].
Qed.
Lemma dd_spec s v r : dd s = Some (v, r) -> ddsh v.
Proof.
  unfold dd. destruct (run1 is_digit s) as [[a r1]|] eqn:E1; [|discriminate]. cbn [obind].
  destruct (chr 46 r1) as [r2|]; [|discriminate]. cbn [obind].
  destruct (run1 is_digit r2) as [[b r3]|] eqn:E2; [|discriminate]. cbn [obind]. intros X. inversion X; subst.
  destruct (run1_spec _ _ _ _ E1) as [A1 _]. destruct (run1_spec _ _ _ _ E2) as [B1 B2].
  exists a, b. repeat split; assumption.
Qed.

Definition half_mant : Z := 39614081257132168796771975167.

Lemma frac_len_dd a b : digits a -> digits b -> frac_len (a ++ 46 :: b) = length b.
Proof.
  intros Ha Hb. induction a as [|c a IH].
  - cbn [app frac_len is_dot N.eqb Pos.eqb]. rewrite filter_digits by assumption. reflexivity.
  - unfold digits in Ha. cbn [forallb] in Ha. apply andb_true_iff in Ha. destruct Ha as [Hc Ha].
    cbn [app frac_len]. rewrite (digit_not_dot c Hc). apply IH. exact Ha.
Qed.

Lemma qc_range_num (q : Qc) M : (0 <= q)%Qc -> (q <= QcZ M)%Qc ->
  (Z.abs (Qnum (this q)) <= M * Zpos (Qden (this q)))%Z.
Proof.
  intros H0 H1. unfold Qcle in *. unfold QcZ in H1. cbn [this Q2Qc] in H1. rewrite Qred_correct in H1.
  unfold Qle in *. cbn in H0, H1. lia.
Qed.

Lemma dd_value_bound t q : ddsh t -> parse_large t = Ok q -> (0 <= q)%Qc /\ (q <= QcZ half_mant)%Qc.
Proof.
  intros (a & b & -> & Ha & Hb & Hn). unfold parse_large.
  assert (Es : strip_commas (a ++ 46 :: b) = a ++ 46 :: b).
  { unfold strip_commas. rewrite filter_app. cbn [filter is_comma N.eqb Pos.eqb negb].
    fold (strip_commas a). fold (strip_commas b). rewrite !strip_commas_digits by assumption. reflexivity. }
  rewrite Es. destruct (plain_num_ok (a ++ 46 :: b)) eqn:E; [|discriminate]. intros X. inversion X; subst q. clear X.
  unfold plain_num_ok in E. repeat (apply andb_true_iff in E; destruct E as [E ?]).
  match goal with H : (Z.of_N (mantissa _) <=? max_mant)%Z = true |- _ => apply Z.leb_le in H; rename H into HM end.
  unfold plain_num_value. rewrite (frac_len_dd a b Ha Hb).
  set (n := Z.of_N (mantissa (a ++ 46 :: b))) in *. assert (Hn0 : (0 <= n)%Z) by (unfold n; lia).
  destruct b as [|c b]; [congruence|]. cbn [length]. rewrite p10_S.
  set (dn := p10 (length b)).
  split; unfold Qcle; unfold Qcfrac, QcZ; cbn [this Q2Qc]; rewrite !Qred_correct; unfold Qle; cbn.
  - lia.
  - unfold max_mant in HM. unfold half_mant. nia.
Qed.

Lemma add_dec_ok x y : (0 <= x)%Qc -> (x <= QcZ half_mant)%Qc -> (0 <= y)%Qc -> (y <= QcZ half_mant)%Qc ->
  exists r, a_add dec x y = Ok r.
Proof.
  intros X0 X1 Y0 Y1. cbn [a_add dec]. unfold fit_res.
  destruct (fit_total_in_range (x + y)%Qc) as [r Hr].
  - apply qc_range_num.
    + replace 0%Qc with (0 + 0)%Qc by ring. apply Qcplus_le_compat; assumption.
    + assert (E : (QcZ half_mant + QcZ half_mant <= QcZ max_mant)%Qc).
      { unfold Qcle, QcZ, Qcplus. cbn [this Q2Qc]. rewrite !Qred_correct. unfold Qle. cbn. lia. }
      eapply Qcle_trans; [|exact E]. apply Qcplus_le_compat; assumption.
  - exists r. rewrite Hr. reflexivity.
Qed.

(* ---- the captured commission / fee texts of both trade patterns have that shape ---- *)
Lemma first_some_spec {A B} (f : A -> option B) l y : first_some f l = Some y -> exists x, f x = Some y.
Proof.
  induction l as [|x l IH]; [discriminate|]. cbn [first_some]. destruct (f x) eqn:E; [intros X; inversion X; subst; eauto|exact IH].
Qed.
Lemma find_spec {A} (m : text -> option A) : forall s y, find m s = Some y -> exists s', m s' = Some y.
Proof.
  induction s as [|c s IH]; intros y H; cbn [find] in H.
  - destruct (m []) eqn:E; [inversion H; subst; eauto|discriminate].
  - destruct (m (c :: s)) eqn:E; [inversion H; subst; eauto|apply IH; exact H].
Qed.
Lemma find_last_spec {A} (m : text -> option A) : forall s y, find_last m s = Some y -> exists s', m s' = Some y.
Proof.
  induction s as [|c s IH]; intros y H; cbn [find_last] in H; [eauto|].
  destruct (find_last m s) eqn:E; [inversion H; subst; apply IH; reflexivity|eauto].
Qed.

Lemma money_line_spec k s v r : m_money_line k s = Some (v, r) -> ddsh v.
Proof.
  unfold m_money_line. destruct (lit k s) as [r0|]; [|discriminate]. cbn [obind].
  destruct (sp1 r0) as [r1|]; [|discriminate]. cbn [obind]. destruct (chr 36 r1) as [r2|]; [|discriminate]. cbn [obind].
  destruct (dd r2) as [[v' r3]|] eqn:E; [|discriminate]. cbn [obind]. destruct (to_nl r3); [|discriminate]. cbn [obind].
  intros X. inversion X; subst. exact (dd_spec _ _ _ E).
Qed.
Lemma k2_spec s f rest : k2 s = Some (f, rest) -> optsh f.
Proof.
  unfold k2. intros H. apply first_some_spec in H. destruct H as [p H].
  destruct (m_money_line k_FEE p) as [[v n]|] eqn:E.
  - destruct (k3 n) as [r|]; cbn [obind] in H.
    + inversion H; subst. exact (money_line_spec _ _ _ _ E).
    + destruct (k3 p); cbn [obind] in H; [inversion H; subst; exact I|discriminate].
  - destruct (k3 p); cbn [obind] in H; [inversion H; subst; exact I|discriminate].
Qed.
Lemma r2_lines_spec s c f rest : r2_lines s = Some (c, f, rest) -> optsh c /\ optsh f.
Proof.
  unfold r2_lines. intros H. apply first_some_spec in H. destruct H as [p H].
  destruct (m_money_line k_COMMISSION p) as [[v n]|] eqn:E.
  - destruct (k2 n) as [[f' r']|] eqn:E2; cbn [obind] in H.
    + inversion H; subst. split; [exact (money_line_spec _ _ _ _ E)|exact (k2_spec _ _ _ E2)].
    + destruct (k2 p) as [[f' r']|] eqn:E3; cbn [obind] in H; [|discriminate]. inversion H; subst. split; [exact I|exact (k2_spec _ _ _ E3)].
  - destruct (k2 p) as [[f' r']|] eqn:E3; cbn [obind] in H; [|discriminate]. inversion H; subst. split; [exact I|exact (k2_spec _ _ _ E3)].
Qed.

Definition capsh (c : tc_caps) : Prop := optsh (cp_comm c) /\ optsh (cp_fee c).

Lemma pre_rest_spec td sd s c rest : pre_rest td sd s = Some (c, rest) -> capsh c.
Proof.
  unfold pre_rest. intros H.
  repeat match type of H with
  | obind ?m _ = Some _ => let x := fresh "x" in destruct m as [x|] eqn:?; cbn [obind] in H; [|discriminate]; try destruct x as [? ?]
  end.
  destruct p as [c0 f0]. inversion H; subst. exact (r2_lines_spec _ _ _ _ Heqo8).
Qed.

Lemma m_pre_row_spec s c rest : m_pre_row s = Some (c, rest) -> capsh c.
Proof.
  unfold m_pre_row. intros H.
  repeat match type of H with
  | obind ?m _ = Some _ => let x := fresh "x" in destruct m as [x|] eqn:?; cbn [obind] in H; [|discriminate]; try destruct x as [? ?]
  end.
  match type of H with match ?e with _ => _ end = _ => destruct e as [[c1 r1]|] eqn:E1 end.
  - inversion H; subst.
    repeat match type of E1 with
    | obind ?m _ = Some _ => let x := fresh "y" in destruct m as [x|] eqn:?; cbn [obind] in E1; [|discriminate]; try destruct x as [? ?]
    end.
    eapply pre_rest_spec; eassumption.
  - match type of H with (if ?b then _ else _) = _ => destruct b end; [|discriminate].
    match type of H with obind ?m _ = _ => destruct m as [r3|]; cbn [obind] in H; [|discriminate] end.
    eapply pre_rest_spec; eassumption.
Qed.

Lemma m_commission_spec s v r : m_commission s = Some (v, r) -> ddsh v.
Proof.
  unfold m_commission. destruct (lit k_Commission s) as [r0|]; [|discriminate]. cbn [obind].
  destruct (sp1 r0) as [r1|]; [|discriminate]. cbn [obind]. destruct (chr 36 r1) as [r2|]; [|discriminate]. cbn [obind].
  apply dd_spec.
Qed.
Lemma m_tx_fee_spec s v r : m_tx_fee s = Some (v, r) -> ddsh v.
Proof.
  unfold m_tx_fee. destruct (lits_sp1 [k_Transaction; k_Fee] s) as [r0|]; [|discriminate]. cbn [obind].
  destruct (chr 36 r0) as [r2|]; [|discriminate]. cbn [obind]. apply dd_spec.
Qed.
Lemma m_post_spec s c : m_post s = Some c -> capsh c.
Proof.
  unfold m_post. intros H.
  repeat match type of H with
  | obind ?m _ = Some _ => let x := fresh "x" in destruct m as [x|] eqn:?; cbn [obind] in H; [|discriminate]; try destruct x as [? ?]
  end.
  destruct p1 as [sym0 rest0].
  match type of H with context [find_last m_commission ?r] => destruct (find_last m_commission r) as [[v r']|] eqn:EC end;
  match type of H with context [find_last m_tx_fee ?r] => destruct (find_last m_tx_fee r) as [[v2 r2']|] eqn:EF end;
  inversion H; subst; split; cbn [cp_comm cp_fee optsh]; try exact I.
  all: try (destruct (find_last_spec _ _ _ EC) as [s1 H1]; exact (m_commission_spec _ _ _ H1)).
  all: try (destruct (find_last_spec _ _ _ EF) as [s2 H2]; exact (m_tx_fee_spec _ _ _ H2)).
Qed.

(* ---- no panic in the trade parsers ---- *)
Lemma opt_dec_bound o : optsh o -> forall v, opt_dec o = Ok v ->
  (0 <= or_zero v)%Qc /\ (or_zero v <= QcZ half_mant)%Qc.
Proof.
  destruct o as [t|]; cbn [optsh opt_dec]; intros Hs v H.
  - destruct (parse_large t) as [q| |] eqn:E; cbn [bind] in H; try discriminate. inversion H; subst. cbn [or_zero].
    exact (dd_value_bound t q Hs E).
  - inversion H; subst. cbn [or_zero]. split; [apply Qcle_refl|].
    unfold Qcle, QcZ. cbn [this Q2Qc]. rewrite !Qred_correct. unfold Qle. cbn. unfold half_mant. lia.
Qed.
Lemma np_opt_dec o : no_panic (opt_dec o).
Proof.
  destruct o as [t|]; cbn [opt_dec]; [|apply np_ok]. apply np_bind; [apply np_parse_large|intros; apply np_ok].
Qed.
Lemma np_action_of s : no_panic (action_of s).
Proof. unfold action_of. repeat match goal with |- no_panic (if ?c then _ else _) => destruct c end; first [apply np_ok|apply np_rejn]. Qed.
Lemma np_parse_short_mdy d : no_panic (parse_short_mdy d).
Proof. destruct d as [[a b] c]. apply np_parse_mdy. Qed.

Lemma np_trade_of_caps sy acct row c : capsh c -> no_panic (trade_of_caps sy acct row c).
Proof.
  intros [Hc Hf]. unfold trade_of_caps.
  apply np_bind; [destruct sy; [apply np_parse_short_mdy|apply np_parse_mdy]|intros td _].
  apply np_bind; [destruct sy; [apply np_parse_short_mdy|apply np_parse_mdy]|intros sd _].
  apply np_bind; [apply np_action_of|intros a _].
  apply np_bind; [apply np_parse_large|intros pr _]. apply np_bind; [apply np_parse_large|intros n _].
  apply np_bind; [apply np_opt_dec|intros cm Ecm]. apply np_bind; [apply np_opt_dec|intros fe Efe].
  destruct (opt_dec_bound _ Hc cm Ecm) as [C0 C1]. destruct (opt_dec_bound _ Hf fe Efe) as [F0 F1].
  destruct (add_dec_ok _ _ C0 C1 F0 F1) as [r Hr]. rewrite Hr. cbn [bind]. apply np_ok.
Qed.
Lemma np_trades_of_caps acct : forall l row, Forall capsh l -> no_panic (trades_of_caps acct row l).
Proof.
  induction l as [|c l IH]; intros row H; [apply np_ok|]. inversion H; subst. cbn [trades_of_caps].
  apply np_bind; [apply np_trade_of_caps; assumption|intros t0 _].
  apply np_bind; [apply IH; assumption|intros; apply np_ok].
Qed.
Lemma all_matches_fuel_caps : forall fuel s, Forall capsh (all_matches_fuel fuel m_pre_row s).
Proof.
  induction fuel as [|f IH]; intros s; [constructor|]. cbn [all_matches_fuel].
  destruct (find m_pre_row s) as [[c rest]|] eqn:E; [|constructor].
  constructor; [|apply IH]. destruct (find_spec _ _ _ E) as [s' H]. exact (m_pre_row_spec _ _ _ H).
Qed.
Lemma parse_tc_pre_no_panic s : no_panic (parse_tc_pre s).
Proof.
  unfold parse_tc_pre. apply np_bind; [apply np_get1|intros [acct r] _].
  apply np_trades_of_caps. apply all_matches_fuel_caps.
Qed.
Lemma parse_tc_post_no_panic s : no_panic (parse_tc_post s).
Proof.
  unfold parse_tc_post. apply np_bind; [apply np_get1|intros [acct r] _].
  destruct (find m_post s) as [c|] eqn:E; [|apply np_rejn].
  apply np_trade_of_caps. destruct (find_spec _ _ _ E) as [s' H]. exact (m_post_spec _ _ H).
Qed.

Theorem text_panics_only_in_eso s : classify_doc s <> Some KEso -> forall p, parse_text s <> Panic p.
Proof.
  intros Hk. unfold parse_text. destruct (classify_doc s) as [[| | | |]|]; try congruence; intros p.
  - apply np_bind; [apply parse_rsu_no_panic|intros; apply np_ok].
  - apply np_bind; [apply parse_espp_no_panic|intros; apply np_ok].
  - apply np_bind; [apply parse_tc_pre_no_panic|intros; apply np_ok].
  - apply np_bind; [apply parse_tc_post_no_panic|intros; apply np_ok].
  - apply np_rejn.
Qed.

(* and inside an exercise confirmation: only the overflow of the fee sum *)
Theorem eso_panic_is_fee_overflow s p : parse_text s = Panic p -> classify_doc s = Some KEso /\ p = PanicOverflow.
Proof.
  intros H. destruct (classify_doc s) as [k|] eqn:E.
  2:{ exfalso. refine (text_panics_only_in_eso s _ p H). rewrite E. discriminate. }
  destruct k; try (exfalso; refine (text_panics_only_in_eso s _ p H); rewrite E; discriminate).
  split; [reflexivity|]. unfold parse_text in H. rewrite E in H.
  destruct (parse_eso s) as [bs| |p'] eqn:EP; cbn [bind] in H; try discriminate. inversion H; subst p'. clear H.
  unfold parse_eso in EP. destruct (parse_eso_data s) as [e| |p'] eqn:ED; cbn [bind] in EP; try discriminate.
  - destruct (rev (e_grants e)) as [|lastg r]; [discriminate|].
    assert (FS : forall l acc q, fee_sum acc l = Panic q -> q = PanicOverflow).
    { induction l as [|g l IH]; intros acc q Hq; cbn [fee_sum] in Hq; [discriminate|].
      destruct (a_add dec acc (g_fee g)) as [v| |q'] eqn:EA; cbn [bind] in Hq; try discriminate.
      - exact (IH _ _ Hq).
      - inversion Hq; subst. cbn [a_add dec] in EA. unfold fit_res in EA. destruct (fit _); [discriminate|inversion EA; reflexivity]. }
    destruct (fee_sum 0%Qc (e_grants e)) as [fees| |q] eqn:EF; cbn [bind] in EP; try discriminate.
    + exfalso.
      assert (NE : forall l, no_panic (eso_entries e (g_sale lastg) fees l)).
      { induction l as [|g l IH]; cbn [eso_entries]; [apply np_ok|].
        destruct (negb _); [apply np_rejn|]. apply np_bind; [exact IH|intros; apply np_ok]. }
      exact (NE _ p EP).
    + inversion EP; subst. exact (FS _ _ _ EF).
  - exfalso. inversion EP; subst p'. clear EP. revert ED. unfold parse_eso_data.
    destruct (eso_split s) as [[header body]|]; [|discriminate].
    assert (NS : forall key vp b, no_panic (search_for_rows key vp b)).
    { intros. unfold search_for_rows. destruct (all_matches _ _); [apply np_rejn|apply np_ok]. }
    assert (NM : forall l, no_panic (map_res parse_large l)).
    { induction l as [|x l IH]; [apply np_ok|]. cbn [map_res]. apply np_bind; [apply np_parse_large|intros].
      apply np_bind; [exact IH|intros; apply np_ok]. }
    assert (ND : forall key dp b, no_panic (search_for_dec_rows key dp b)).
    { intros. unfold search_for_dec_rows. apply np_bind; [apply NS|intros; apply NM]. }
    intros ED. refine (_ p ED). clear ED.
    apply np_bind; [apply NS|intros]. apply np_bind; [apply ND|intros]. apply np_bind; [apply ND|intros].
    apply np_bind; [apply ND|intros]. apply np_bind; [apply ND|intros].
    destruct (negb _); [apply np_rejn|].
    apply np_bind; [apply np_parse_common|intros]. apply np_bind; [apply np_get1|intros [? ?] _].
    apply np_bind; [apply np_get1|intros [? ?] _]. apply np_bind; [apply np_parse_mdy|intros].
    apply np_bind; [apply np_get1_dec|intros]. apply np_ok.
Qed.
