(* C14 over a whole sequence of cache writes, each run to completion or killed
   at any point: the live file is at all times the complete content of the
   initial year or of one of the years written so far, whatever the temporary
   file holds - by induction over the sequence from rename_atomic. *)
From Coq Require Import List NArith ZArith QArith Qcanon Bool Lia.
From ACB Require Import Base.Outcome Base.QcExtra Base.Fit Base.Arith Model.Rates Model.RatesCache
     Model.CrashFs Proofs.RatesProps Proofs.CacheProps Proofs.CrashProps.
Import ListNotations.
Local Open Scope Z_scope.

(* the directory after a sequence of writes of the years ws: [cur] is the
   year whose complete content the live file holds (None: no live file),
   [tmp] what the temporary file holds.  Every write starts from what the one
   before left behind (its temporary file included) and ends at ANY of its
   crash points - the last of which is its normal end. *)
Inductive after_writes (old0 : option (list row_t)) (tmp0 : option bytes)
  : list (list row_t) -> option (list row_t) -> option bytes -> Prop :=
| aw_nil : after_writes old0 tmp0 [] old0 tmp0
| aw_write : forall ws cur tmp new live' tmp' cur',
    after_writes old0 tmp0 ws cur tmp ->
    post_crash (rename_proc new) (fs_of cur tmp) live' tmp' ->
    live' = option_map render_rows cur' ->
    (cur' = cur \/ cur' = Some new) ->
    after_writes old0 tmp0 (ws ++ [new]) cur' tmp'.

(* the relation loses nothing: every post-crash directory of a write is of
   that form, so the next write starts from a directory [fs_of cur' tmp'] *)
Lemma write_continues cur tmp new live' tmp' :
  post_crash (rename_proc new) (fs_of cur tmp) live' tmp' ->
  exists cur', live' = option_map render_rows cur' /\ (cur' = cur \/ cur' = Some new).
Proof.
  intros H. destruct (rename_atomic cur tmp new live' tmp' H) as [E | E].
  - exists cur. split; [exact E | left; reflexivity].
  - exists (Some new). split; [exact E | right; reflexivity].
Qed.

(* a completed write is one of the outcomes: the live file is the new year *)
Lemma complete_write_is_an_outcome cur tmp new :
  post_crash (rename_proc new) (fs_of cur tmp)
             (cut_file 0 (fs_live (exec (rename_proc new) (fs_of cur tmp))))
             (cut_file 0 (fs_tmp (exec (rename_proc new) (fs_of cur tmp)))).
Proof.
  exists (length (rename_proc new)). cbv zeta. rewrite firstn_all.
  split.
  - destruct (fs_live (exec (rename_proc new) (fs_of cur tmp))) as [x |]; cbn [cut_file option_map persisted]; [ | exact I ].
    exists O. reflexivity.
  - destruct (fs_tmp (exec (rename_proc new) (fs_of cur tmp))) as [x |]; cbn [cut_file option_map persisted]; [ | exact I ].
    exists O. reflexivity.
Qed.

Lemma after_writes_live old0 tmp0 ws cur tmp :
  after_writes old0 tmp0 ws cur tmp ->
  cur = old0 \/ exists new, In new ws /\ cur = Some new.
Proof.
  induction 1 as [ | ws cur tmp new live' tmp' cur' _ IH _ _ Hc ].
  - left. reflexivity.
  - destruct Hc as [-> | ->].
    + destruct IH as [E | (n & Hin & E)]; [left; exact E | right].
      exists n. split; [apply in_or_app; left; exact Hin | exact E].
    + right. exists new. split; [apply in_or_app; right; left; reflexivity | reflexivity].
Qed.

(* whatever the crash points of any number of interrupted writes, every rate a
   later run can read from the live file is the published one *)
Lemma any_number_of_interrupted_writes (pubval : Z -> Qc) old0 tmp0 ws cur tmp :
  match old0 with Some rs => Forall wf_row rs /\ consistent pubval rs | None => True end ->
  Forall (fun new => Forall wf_row new /\ consistent pubval new) ws ->
  after_writes old0 tmp0 ws cur tmp ->
  forall b x v, option_map render_rows cur = Some b -> mget x (parse_csv b) = Some v -> v = pubval x.
Proof.
  intros Ho Hw Ha b x v Eb E.
  destruct (after_writes_live _ _ _ _ _ Ha) as [-> | (new & Hin & ->)].
  - destruct old0 as [rs |]; cbn [option_map] in Eb; [ | discriminate ].
    inversion Eb; subst b. destruct Ho as [W C]. eapply consistent_read; eauto.
  - cbn [option_map] in Eb. inversion Eb; subst b.
    rewrite Forall_forall in Hw. destruct (Hw new Hin) as [W C]. eapply consistent_read; eauto.
Qed.

(* non-vacuity: two interrupted writes in a row - the first killed after 14
   bytes (temporary file left behind), the second killed after its rename *)
Definition seq_new2 : list row_t := [(18997, (12345, 4%nat)); (18998, (12345, 4%nat))].
Lemma seq_example :
  exists tmp1 tmp2,
    after_writes (Some ex_new) None [ex_new; seq_new2] (Some seq_new2) tmp2 /\
    after_writes (Some ex_new) None [ex_new] (Some ex_new) (Some tmp1) /\
    length tmp1 = 14%nat /\
    mget 18998 (parse_csv (render_rows seq_new2)) = Some (ex_pubval 18998).
Proof.
  exists (firstn 14 (render_rows ex_new)).
  exists (cut_file 0 (fs_tmp (exec (rename_proc seq_new2) (fs_of (Some ex_new) (Some (firstn 14 (render_rows ex_new))))))).
  assert (A1 : after_writes (Some ex_new) None [ex_new] (Some ex_new) (Some (firstn 14 (render_rows ex_new)))).
  { change [ex_new] with ([] ++ [ex_new]).
    eapply aw_write with (cur := Some ex_new) (tmp := None) (live' := Some (render_rows ex_new)).
    - apply aw_nil.
    - exists 2%nat. cbv zeta. split.
      + exists O. vm_compute. reflexivity.
      + exists 14%nat. vm_compute. reflexivity.
    - reflexivity.
    - left. reflexivity. }
  split; [ | split; [exact A1 | split; vm_compute; reflexivity ] ].
  change [ex_new; seq_new2] with ([ex_new] ++ [seq_new2]).
  eapply aw_write with (cur := Some ex_new) (live' := Some (render_rows seq_new2)).
  - exact A1.
  - pose proof (complete_write_is_an_outcome (Some ex_new) (Some (firstn 14 (render_rows ex_new))) seq_new2) as H.
    replace (cut_file 0 (fs_live (exec (rename_proc seq_new2) (fs_of (Some ex_new) (Some (firstn 14 (render_rows ex_new)))))))
      with (Some (render_rows seq_new2)) in H by (vm_compute; reflexivity).
    exact H.
  - reflexivity.
  - right. reflexivity.
Qed.
