(* C04: what the look-ahead rejections mean.  While a loss sale looks ahead
   through its 30-day window, the ledger may reject the history because a
   LATER sale cannot be covered: this file shows that such a rejection is
   raised exactly on a later row that sells more shares than its affiliate's
   share ledger holds at that point (shares after the current sale and the
   rows in between, splits applied) - i.e. the history does contain "a sale
   of more shares than the affiliate holds". *)
From Coq Require Import List NArith ZArith QArith Qcanon Bool Lia.
From ACB Require Import Base.Outcome Base.QcExtra Base.Fit Base.Arith Model.Tx Model.Ledger Model.Sfl
     Model.DeltaList Spec.SflRule Proofs.Tactics Proofs.C02Scan Proofs.C04Reject.
Import ListNotations.
Local Open Scope Qc_scope.

Lemma net_after_snoc id w : forall s0 x,
  net_after id s0 (w ++ [x])
  = net_after id s0 w + (if N.eqb (af_id (t_af x)) id then net_shares x * fadj id (s0 ++ w) else 0).
Proof.
  induction w as [|y w IH]; intros s0 x; cbn [app net_after].
  - rewrite app_nil_r. ring.
  - rewrite IH. rewrite <- app_assoc. cbn [app]. ring.
Qed.

Lemma fadj_pos id seen : Forall split_pos seen -> 0 < fadj id seen.
Proof.
  induction seen as [|s seen IH]; intros HF; cbn [fadj]; [reflexivity|].
  apply Forall_cons_iff in HF as [Hs HF]. specialize (IH HF).
  destruct (split_of id s) eqn:E; [|assert (E1 : 1 * fadj id seen = fadj id seen) by ring; rewrite E1; exact IH].
  apply Qcmul_pos; [|exact IH]. apply Qcinv_pos.
  unfold split_of in E. apply andb_prop in E as [E _]. unfold split_pos in Hs. unfold split_factor_of.
  destruct (t_act s); try discriminate E. destruct Hs as [Hp Hq]. apply Qcdiv_pos; assumption.
Qed.

Definition act (s : scan) (dflt : aff -> Qc) (af : aff) : Qc :=
  match alookup (af_id af) (sc_active s) with Some d => d | None => dflt af end.

Lemma act_update s dflt k v af eop acq buyers :
  act {| sc_eop := eop; sc_acq := acq; sc_buyers := buyers; sc_active := aupdate k v (sc_active s) |} dflt af
  = if N.eqb (af_id af) k then v else act s dflt af.
Proof. unfold act. cbn [sc_active]. rewrite alookup_aupdate. destruct (N.eqb (af_id af) k); reflexivity. Qed.

Lemma mul_neg_pos a f : a * f < 0 -> 0 < f -> a < 0.
Proof.
  intros H Hf. apply Qcnot_le_lt. intros Ha. apply (Qcle_not_lt _ _ (Qcmul_nonneg _ _ Ha (Qclt_le_weak _ _ Hf)) H).
Qed.

Tactic Notation "brej" hyp(H) "as" simple_intropattern(x) ident(E) :=
  match type of H with
  | bind ?m _ = Rej _ =>
      destruct m as [x| |] eqn:E; cbn [bind] in H; [ | nrx0 E | discriminate H ]
  end.

Section Ahead.
  Variable last : Z.
  Variable dflt start : aff -> Qc.
  Hypothesis dflt_id : forall af af', af_id af = af_id af' -> dflt af = dflt af'.
  Hypothesis start_id : forall af af', af_id af = af_id af' -> start af = start af'.

  Lemma fwd_scan_af_neg w : forall adj s seen,
    adj_inv adj seen -> Forall split_pos seen -> Forall split_pos w ->
    (forall af, act s dflt af = start af + net_after (af_id af) [] seen) ->
    fwd_scan exact last dflt w adj s = Rej RejAheadAfNegative ->
    exists w1 x w2 n p c r cr sp, w = w1 ++ x :: w2 /\ t_act x = Sell n p c r cr sp /\
      shares_after (af_id (t_af x)) (start (t_af x)) (seen ++ w1) < n.
  Proof.
    induction w as [|x w IH]; intros adj s seen Hadj Hps Hpw Hact H; cbn [fwd_scan] in H; [discriminate|].
    apply Forall_cons_iff in Hpw as [Hpx Hpw].
    assert (Hps' : Forall split_pos (seen ++ [x])) by (apply Forall_app; split; [exact Hps | constructor; [exact Hpx | constructor]]).
    destruct (Z.ltb last (t_sd x)); [discriminate|].
    assert (Hlift : (exists w1 x0 w2 n p c r cr sp, w = w1 ++ x0 :: w2 /\ t_act x0 = Sell n p c r cr sp /\
                       shares_after (af_id (t_af x0)) (start (t_af x0)) ((seen ++ [x]) ++ w1) < n) ->
                    exists w1 x0 w2 n p c r cr sp, x :: w = w1 ++ x0 :: w2 /\ t_act x0 = Sell n p c r cr sp /\
                       shares_after (af_id (t_af x0)) (start (t_af x0)) (seen ++ w1) < n).
    { intros (w1 & x0 & w2 & n & p & c & r & cr & sp & Ew & Ea & Hlt).
      exists (x :: w1), x0, w2, n, p, c, r, cr, sp. split; [rewrite Ew; reflexivity|]. split; [exact Ea|].
      rewrite <- app_assoc in Hlt. exact Hlt. }
    assert (Hnet : forall af, net_after (af_id af) [] (seen ++ [x])
                              = net_after (af_id af) [] seen
                                + (if N.eqb (af_id (t_af x)) (af_id af) then net_shares x * fadj (af_id af) seen else 0)).
    { intros af. rewrite net_after_snoc. reflexivity. }
    destruct (t_act x) as [sh aps com rate crate | sh aps com rate crate sp | aps rate | sh aps | post pre io] eqn:Ea.
    - (* Buy *)
      brej H as b E1. apply gez_div_exact in E1 as [-> _]. unfold Qcdiv in H.
      brej H as eop E2. brej H as na E3. apply gez_add_exact in E3 as [-> _]. brej H as acq E4.
      apply Hlift. eapply IH; [apply adj_inv_keep; [exact Hadj | rewrite Ea; reflexivity] | exact Hps' | exact Hpw | | exact H].
      intros af. rewrite act_update, Hnet. unfold net_shares, buy_shares, sell_shares. rewrite Ea.
      rewrite (N.eqb_sym (af_id (t_af x)) (af_id af)).
      destruct (N.eqb_spec (af_id af) (af_id (t_af x))) as [e|n0].
      + fold (act s dflt (t_af x)). rewrite (Hact (t_af x)), (Hadj (t_af x)), e, (start_id _ _ e). ring.
      + rewrite (Hact af). ring.
    - (* Sell *)
      brej H as b E1. apply gez_div_exact in E1 as [-> _]. unfold Qcdiv in H.
      cbn [a_sub exact bind] in H.
      destruct (Qcltb (sc_eop s - sh * / adj_of (t_af x) adj) 0); [discriminate H|].
      fold (act s dflt (t_af x)) in H.
      destruct (Qcltb_spec (act s dflt (t_af x) - sh * / adj_of (t_af x) adj) 0) as [Hneg|_].
      + (* this row oversells *)
        exists [], x, w, sh, aps, com, rate, crate, sp. split; [reflexivity|]. split; [exact Ea|].
        rewrite app_nil_r.
        pose proof (shares_after_adj (af_id (t_af x)) (start (t_af x)) [] seen Hps) as Hsa.
        cbn [app fadj] in Hsa.
        rewrite (Hact (t_af x)), (Hadj (t_af x)) in Hneg.
        assert (E : start (t_af x) + net_after (af_id (t_af x)) [] seen - sh * fadj (af_id (t_af x)) seen
                    = (shares_after (af_id (t_af x)) (start (t_af x)) seen - sh) * fadj (af_id (t_af x)) seen).
        { assert (Hsa' : shares_after (af_id (t_af x)) (start (t_af x)) seen * fadj (af_id (t_af x)) seen
                         = start (t_af x) + net_after (af_id (t_af x)) [] seen) by (rewrite Hsa; ring).
          rewrite <- Hsa'. ring. }
        rewrite E in Hneg. apply mul_neg_pos in Hneg; [|apply fadj_pos; exact Hps].
        remember (shares_after (af_id (t_af x)) (start (t_af x)) seen) as sa. clear - Hneg. qc_lra.
      + apply Hlift. eapply IH; [apply adj_inv_keep; [exact Hadj | rewrite Ea; reflexivity] | exact Hps' | exact Hpw | | exact H].
        intros af. rewrite act_update, Hnet. unfold net_shares, buy_shares, sell_shares. rewrite Ea.
        rewrite (N.eqb_sym (af_id (t_af x)) (af_id af)).
        destruct (N.eqb_spec (af_id af) (af_id (t_af x))) as [e|n0].
        * rewrite (Hact (t_af x)), (Hadj (t_af x)), e, (start_id _ _ e). ring.
        * rewrite (Hact af). ring.
    - (* RoC *)
      apply Hlift. eapply IH; [apply adj_inv_keep; [exact Hadj | rewrite Ea; reflexivity] | exact Hps' | exact Hpw | | exact H].
      intros af. rewrite Hnet, (Hact af). unfold net_shares, buy_shares, sell_shares. rewrite Ea.
      destruct (N.eqb _ _); ring.
    - (* SfLA *)
      apply Hlift. eapply IH; [apply adj_inv_keep; [exact Hadj | rewrite Ea; reflexivity] | exact Hps' | exact Hpw | | exact H].
      intros af. rewrite Hnet, (Hact af). unfold net_shares, buy_shares, sell_shares. rewrite Ea.
      destruct (N.eqb _ _); ring.
    - (* Split *)
      unfold split_factor in H.
      brej H as f E1. apply pos_div_exact in E1 as (-> & _ & _).
      brej H as nsa E2. apply pos_mul_exact in E2 as [-> _].
      apply Hlift. eapply IH; [ | exact Hps' | exact Hpw | | exact H].
      + apply adj_inv_step; [exact Hadj | rewrite Ea; reflexivity|]. unfold split_factor_of. rewrite Ea. reflexivity.
      + intros af. rewrite Hnet. unfold act in *. cbn [sc_active]. rewrite (Hact af).
        unfold net_shares, buy_shares, sell_shares. rewrite Ea. destruct (N.eqb _ _); ring.
  Qed.
End Ahead.

(* get_superficial_loss_info: the per-affiliate look-ahead rejection *)
Definition shares_after_sale (st : pstate) (t : tx) (sold : Qc) (af : aff) : Qc :=
  match latest_for st af with Some s => s_sh s | None => 0 end
  - (if N.eqb (af_id af) (af_id (t_af t)) then sold else 0).

Theorem ahead_af_rejection_is_future_oversale bef t sold aft st :
  Forall split_pos aft ->
  sfl_info exact bef t sold aft st = Rej RejAheadAfNegative ->
  exists w1 x w2 n p c r cr sp, aft = w1 ++ x :: w2 /\ t_act x = Sell n p c r cr sp /\
    shares_after (af_id (t_af x)) (shares_after_sale st t sold (t_af x)) w1 < n.
Proof.
  intros Hp H. unfold sfl_info in H. cbn [a_sub exact bind] in H.
  destruct (Qcltb _ 0); [discriminate H|]. destruct (Qcltb _ 0); [discriminate H|].
  match type of H with bind (fwd_scan exact ?l ?d aft [] ?s0) _ = _ =>
    destruct (fwd_scan exact l d aft [] s0) as [s1| r |q] eqn:E1; cbn [bind] in H end.
  - destruct (negb _); [discriminate H|].
    match type of H with bind ?m _ = _ => destruct m as [s2| r |q] eqn:E2; cbn [bind] in H end.
    + destruct (Qcltb _ _); discriminate H.
    + exfalso. eapply bwd_scan_norej. exact E2.
    + discriminate H.
  - inversion H; subst r. clear H.
    match type of E1 with fwd_scan exact ?l ?d aft [] ?s0 = _ => set (dfl := d) in *; set (s0' := s0) in * end.
    assert (Hd : forall af af', af_id af = af_id af' -> dfl af = dfl af').
    { intros af af' e. unfold dfl, latest_for. rewrite e. reflexivity. }
    assert (Hs : forall af af', af_id af = af_id af' -> shares_after_sale st t sold af = shares_after_sale st t sold af').
    { intros af af' e. unfold shares_after_sale, latest_for. rewrite e. reflexivity. }
    assert (Hact : forall af, act s0' dfl af = shares_after_sale st t sold af + net_after (af_id af) [] []).
    { intros af. unfold act, shares_after_sale, s0', dfl. cbn [sc_active alookup net_after].
      destruct (N.eqb (af_id af) (af_id (t_af t))) eqn:E.
      - apply N.eqb_eq in E. unfold latest_for. rewrite E. ring.
      - ring. }
    destruct (fwd_scan_af_neg _ dfl (shares_after_sale st t sold) Hs aft [] s0' [] adj_inv_nil (Forall_nil _) Hp Hact E1)
      as (w1 & x & w2 & n & p & c & r & cr & sp & Ew & Ea & Hlt).
    exists w1, x, w2, n, p, c, r, cr, sp. cbn [app] in Hlt. auto.
  - discriminate H.
Qed.
