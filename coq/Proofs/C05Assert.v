(* C05: the all-affiliate assert_eq! of set_latest_post_status
   (portfolio_status.rs, Site.set_latest_all) after the repair "compute the
   all-affiliate share balance with one expression everywhere".

   For ANY arithmetic (no hypothesis on the operators at all): the balance that
   delta_for_tx writes into the post status and the value that
   set_latest_post_status expects are two evaluations of the SAME expression
   [all_after] on the SAME inputs - the tracker's latest all-affiliate balance
   and the affiliate's last share balance are exactly the two fields of the
   pre status (next_pre_all / next_pre_sh), and the third argument is the new
   share balance of the row.  So the assertion compares a value with itself. *)
From Coq Require Import List NArith ZArith QArith Qcanon Bool.
From ACB Require Import Base.Outcome Base.QcExtra Base.Arith Model.Tx Model.Ledger Model.Sfl
     Model.DeltaList Proofs.Tactics Proofs.AllAfter Proofs.C05Sites.
Import ListNotations.
Local Open Scope Qc_scope.

Section Any.
  Variable A : arith.

  Lemma nonsell_all_after t pre d :
    delta_nonsell A t pre = Ok d ->
    all_after A (s_all pre) (s_sh pre) (s_sh (d_post d)) = Ok (s_all (d_post d)).
  Proof.
    unfold delta_nonsell. intros H.
    destruct (t_act t) as [n price com rate crate | n price com rate crate sp | amount rate
                          | n amount | post pre_ io].
    - bind_as H as nsh E1. bind_as H as r E0. bind_as H as nall E2.
      apply gez_unwrap_ok in E2 as [-> _].
      destruct (s_acb pre).
      + bind_as H as v E3. bind_as H as c E4. bind_as H as pr E5. bind_as H as nacb E6.
        inversion H; subst d; cbn [d_post mk_delta s_sh s_all]. exact E0.
      + inversion H; subst d; cbn [d_post mk_delta s_sh s_all]. exact E0.
    - discriminate.
    - destruct (s_acb pre); [|destruct (negb _); discriminate].
      destruct (af_reg _); [discriminate|].
      bind_as H as v E1. bind_as H as red E2. bind_as H as nacb E3. destruct (Qcltb _ _); [discriminate|].
      inversion H; subst d; cbn [d_post mk_delta s_sh s_all]. apply all_after_same.
    - destruct (s_acb pre); [|destruct (negb _); discriminate].
      destruct (af_reg _); [discriminate|].
      bind_as H as m E1. bind_as H as amt E2. bind_as H as nacb E3.
      inversion H; subst d; cbn [d_post mk_delta s_sh s_all]. apply all_after_same.
    - bind_as H as m E0. bind_as H as qd E1. bind_as H as nsh E2. bind_as H as nall E3.
      destruct (Qcltb _ _); [discriminate|]. destruct (_ && _); [discriminate|].
      inversion H; subst d; cbn [d_post mk_delta s_sh s_all]. exact E3.
  Qed.

  Lemma sell_core_all_after pre n price com rate crate c :
    sell_core A pre n price com rate crate = Ok c ->
    all_after A (s_all pre) (s_sh pre) (sc_sh c) = Ok (sc_all c).
  Proof.
    unfold sell_core. intros H.
    bind_as H as nsh E1. destruct (Qcltb nsh 0); [discriminate|].
    bind_as H as nall E2. destruct (Qcltb nall 0); [discriminate|].
    bind_as H as maps E3. destruct maps as [acbps|].
    - bind_as H as nacb E4. bind_as H as v E5. bind_as H as cm E6. bind_as H as payout E7.
      bind_as H as cost E8. bind_as H as g E9. inversion H; subst c; cbn [sc_sh sc_all]. exact E2.
    - inversion H; subst c; cbn [sc_sh sc_all]. exact E2.
  Qed.

  (* every row: the post status carries all_after of the pre status *)
  Lemma delta_all_after_pre bef t aft st d inj :
    delta_for_tx A bef t aft st = Ok (d, inj) ->
    all_after A (s_all (next_pre_status st (t_af t))) (s_sh (next_pre_status st (t_af t))) (s_sh (d_post d))
    = Ok (s_all (d_post d)).
  Proof.
    unfold delta_for_tx. intros H. bind_as H as u Eu.
    destruct (t_act t) as [n price com rate crate | n price com rate crate sp | amount rate
                          | n amount | post pre_ io] eqn:Ea.
    2: { bind_as H as c Ec. apply sell_core_all_after in Ec.
         assert (Hd : s_all (d_post d) = sc_all c /\ s_sh (d_post d) = sc_sh c).
         { destruct (sc_gain c) as [g|].
           - destruct (Qcltb g 0).
             + bind_as H as m Em. destruct m as [[info inj']|]; [bind_as H as g' Eg|]; inversion H; subst; cbn; auto.
             + destruct sp; [discriminate|]. inversion H; subst; cbn; auto.
           - inversion H; subst; cbn; auto. }
         destruct Hd as [-> ->]. exact Ec. }
    all: bind_as H as d0 Ed; inversion H; subst d0 inj; clear H;
      apply nonsell_all_after in Ed; exact Ed.
  Qed.

  (* ... which is what the tracker evaluates: its inputs are the pre status *)
  Theorem delta_all_after bef t aft st d inj :
    delta_for_tx A bef t aft st = Ok (d, inj) ->
    all_after A (ps_all st) (last_sh st (t_af t)) (s_sh (d_post d)) = Ok (s_all (d_post d)).
  Proof.
    intros H. apply delta_all_after_pre in H. rewrite next_pre_all, next_pre_sh in H. exact H.
  Qed.

  (* the assertion site cannot fail: the only panic left in
     set_latest_post_status after a row of delta_for_tx is the OTHER assertion
     (registered flag against cost base) *)
  Theorem set_latest_after_delta bef t aft st d inj :
    delta_for_tx A bef t aft st = Ok (d, inj) ->
    set_latest A st (t_af t) (d_post d)
    = if negb (Bool.eqb (af_reg (t_af t)) (is_none (s_acb (d_post d))))
      then Panic (PanicAssert Site.set_latest_acb)
      else Ok {| ps_map := aupdate (af_id (t_af t)) (d_post d) (ps_map st);
                 ps_all := s_all (d_post d); ps_latest := t_af t |}.
  Proof.
    intros H. apply delta_all_after in H. unfold set_latest. unfold last_sh in H. rewrite H. cbn [bind].
    destruct (negb (Bool.eqb _ _)); [reflexivity|].
    destruct (Qceqb_spec (s_all (d_post d)) (s_all (d_post d))) as [_|N]; [reflexivity | contradiction N; reflexivity].
  Qed.

  Theorem status_assertion_cannot_fail bef t aft st d inj p :
    delta_for_tx A bef t aft st = Ok (d, inj) ->
    set_latest A st (t_af t) (d_post d) = Panic p -> p = PanicAssert Site.set_latest_acb.
  Proof.
    intros H. rewrite (set_latest_after_delta _ _ _ _ _ _ H).
    destruct (negb (Bool.eqb _ _)); intros E; inversion E; reflexivity.
  Qed.
End Any.
