(* C20 (pages): proofs about Model/Pages.v *)
From Coq Require Import List NArith ZArith Bool Arith Lia FinFun.
From ACB Require Import Base.Outcome Model.Pages.
Import ListNotations.
Local Open Scope N_scope.

(* ---------- safe_page_chunks ---------- *)
Lemma page_ok_spec n p : page_ok n p = true <-> 1 <= p <= n.
Proof.
  unfold page_ok. rewrite andb_true_iff, N.leb_le, N.ltb_lt. lia.
Qed.

Lemma memN_spec p l : memN p l = true <-> In p l.
Proof.
  unfold memN. rewrite existsb_exists. split.
  - intros [x [Hin Heq]]. apply N.eqb_eq in Heq. subst. exact Hin.
  - intros Hin. exists p. split; [exact Hin | apply N.eqb_refl].
Qed.

Lemma pages_upto_spec n p : In p (pages_upto n) <-> 1 <= p <= n.
Proof.
  unfold pages_upto. rewrite in_map_iff. split.
  - intros [k [Hk Hin]]. apply in_seq in Hin. subst p. lia.
  - intros Hp. exists (N.to_nat p). split; [apply N2Nat.id|]. apply in_seq. lia.
Qed.

Lemma pages_upto_length n : length (pages_upto n) = N.to_nat n.
Proof. unfold pages_upto. rewrite map_length, seq_length. reflexivity. Qed.

Lemma pages_upto_nodup n : NoDup (pages_upto n).
Proof.
  unfold pages_upto. apply FinFun.Injective_map_NoDup.
  - intros a b Hab. apply Nat2N.inj. exact Hab.
  - apply seq_NoDup.
Qed.

Lemma safe_groups_concat n gs :
  concat (safe_groups n gs) = filter (page_ok n) (concat gs).
Proof.
  induction gs as [|c r IH]; [reflexivity|].
  cbn [safe_groups concat]. rewrite filter_app. unfold safe_chunk.
  destruct (filter (page_ok n) c) as [|x s] eqn:E.
  - rewrite IH. reflexivity.
  - cbn [concat]. rewrite IH. reflexivity.
Qed.

Lemma safe_groups_nonempty n gs : Forall (fun g => g <> []) (safe_groups n gs).
Proof.
  induction gs as [|c r IH]; [constructor|].
  cbn [safe_groups]. destruct (safe_chunk n c) as [|x s] eqn:E; [exact IH|].
  constructor; [discriminate | exact IH].
Qed.

Lemma distinct_count_nodup l : distinct_count l = length (nodup N.eq_dec l).
Proof.
  induction l as [|p r IH]; [reflexivity|].
  cbn [distinct_count nodup].
  destruct (in_dec N.eq_dec p r) as [Hin|Hnin].
  - apply memN_spec in Hin. rewrite Hin. exact IH.
  - destruct (memN p r) eqn:E.
    + apply memN_spec in E. contradiction.
    + cbn [length]. rewrite IH. reflexivity.
Qed.

(* a duplicate-free sub-list of 1..n with n elements is all of 1..n *)
Lemma full_count_covers n l :
  (forall p, In p l -> 1 <= p <= n) ->
  distinct_count l = N.to_nat n ->
  forall p, 1 <= p <= n -> In p l.
Proof.
  intros Hsub Hcnt p Hp. rewrite distinct_count_nodup in Hcnt.
  apply (nodup_In N.eq_dec).
  apply (NoDup_length_incl (l := nodup N.eq_dec l) (l' := pages_upto n)).
  - apply NoDup_nodup.
  - rewrite pages_upto_length. lia.
  - intros q Hq. apply nodup_In in Hq. apply pages_upto_spec. apply Hsub. exact Hq.
  - apply pages_upto_spec. exact Hp.
Qed.

Lemma covers_full_count n l :
  (forall p, In p l -> 1 <= p <= n) ->
  (forall p, 1 <= p <= n -> In p l) ->
  distinct_count l = N.to_nat n.
Proof.
  intros Hsub Hcov. rewrite distinct_count_nodup.
  apply Nat.le_antisymm.
  - rewrite <- pages_upto_length. apply NoDup_incl_length; [apply NoDup_nodup|].
    intros q Hq. apply nodup_In in Hq. apply pages_upto_spec. apply Hsub. exact Hq.
  - rewrite <- pages_upto_length. apply NoDup_incl_length; [apply pages_upto_nodup|].
    intros q Hq. apply nodup_In. apply Hcov. apply pages_upto_spec. exact Hq.
Qed.

Lemma safe_found_in_range n hints p :
  In p (concat (safe_groups n hints)) -> 1 <= p <= n.
Proof.
  rewrite safe_groups_concat. intros H. apply filter_In in H. apply page_ok_spec. apply H.
Qed.

Theorem chunks_in_range n hints p :
  In p (concat (safe_page_chunks n hints)) -> 1 <= p <= n.
Proof.
  unfold safe_page_chunks.
  destruct (Nat.eqb (distinct_count (concat (safe_groups n hints))) (N.to_nat n)).
  - apply safe_found_in_range.
  - rewrite concat_app. cbn [concat]. rewrite app_nil_r. intros H.
    apply in_app_or in H. destruct H as [H|H].
    + apply safe_found_in_range in H. exact H.
    + apply filter_In in H. apply pages_upto_spec. apply H.
Qed.

Theorem chunks_cover n hints p :
  1 <= p <= n -> In p (concat (safe_page_chunks n hints)).
Proof.
  intros Hp. unfold safe_page_chunks.
  destruct (Nat.eqb (distinct_count (concat (safe_groups n hints))) (N.to_nat n)) eqn:E.
  - apply Nat.eqb_eq in E.
    apply (full_count_covers n); [apply safe_found_in_range | exact E | exact Hp].
  - rewrite concat_app. cbn [concat]. rewrite app_nil_r. apply in_or_app.
    destruct (memN p (concat (safe_groups n hints))) eqn:M.
    + left. apply memN_spec. exact M.
    + right. apply filter_In. split; [apply pages_upto_spec; exact Hp|]. rewrite M. reflexivity.
Qed.

Theorem chunks_nonempty n hints : Forall (fun g => g <> []) (safe_page_chunks n hints).
Proof.
  unfold safe_page_chunks.
  destruct (Nat.eqb (distinct_count (concat (safe_groups n hints))) (N.to_nat n)) eqn:E.
  - apply safe_groups_nonempty.
  - apply Forall_app. split; [apply safe_groups_nonempty|].
    constructor; [|constructor]. intros Hnil.
    apply Nat.eqb_neq in E. apply E.
    apply covers_full_count; [apply safe_found_in_range|].
    intros p Hp.
    destruct (memN p (concat (safe_groups n hints))) eqn:M; [apply memN_spec; exact M|].
    exfalso.
    assert (Hin : In p (filter (fun p => negb (memN p (concat (safe_groups n hints)))) (pages_upto n))).
    { apply filter_In. split; [apply pages_upto_spec; exact Hp|]. rewrite M. reflexivity. }
    rewrite Hnil in Hin. exact Hin.
Qed.

(* the hinted groups keep their order; the remainder is ascending *)
Theorem chunks_prefix n hints :
  exists rest, safe_page_chunks n hints = safe_groups n hints ++ rest.
Proof.
  unfold safe_page_chunks.
  destruct (Nat.eqb _ _); [exists []; rewrite app_nil_r; reflexivity | eexists; reflexivity].
Qed.

(* ---------- cache ---------- *)
Section IterProofs.
  Variable T : Type.
  Variable prov : N -> option T.
  Variable txt : N -> T.

  Notation cacheT := (list (option T)).

  Lemma set_nth_length i v (c : cacheT) : length (set_nth T i v c) = length c.
  Proof.
    revert i. induction c as [|x r IH]; intros i; [reflexivity|].
    destruct i; cbn [set_nth length]; [reflexivity | rewrite IH; reflexivity].
  Qed.

  Lemma set_nth_same i v (c : cacheT) :
    (i < length c)%nat -> nth_error (set_nth T i v c) i = Some v.
  Proof.
    revert i. induction c as [|x r IH]; intros i Hi; [cbn in Hi; lia|].
    destruct i; cbn [set_nth nth_error]; [reflexivity|]. apply IH. cbn in Hi. lia.
  Qed.

  Lemma set_nth_other i j v (c : cacheT) :
    i <> j -> nth_error (set_nth T i v c) j = nth_error c j.
  Proof.
    revert i j. induction c as [|x r IH]; intros i j Hij; [reflexivity|].
    destruct i, j; cbn [set_nth nth_error]; try reflexivity; [lia|]. apply IH. lia.
  Qed.

  Lemma resize_length (c : cacheT) len : length (resize T c len) = len.
  Proof.
    unfold resize. rewrite app_length, repeat_length, firstn_length. lia.
  Qed.

  Lemma resize_grow_nth (c : cacheT) len j :
    (length c <= len)%nat -> (j < length c)%nat ->
    nth_error (resize T c len) j = nth_error c j.
  Proof.
    intros Hle Hj. unfold resize. rewrite firstn_all2 by exact Hle.
    apply nth_error_app1. exact Hj.
  Qed.

  (* the cache holds the text of page p *)
  Definition has (c : cacheT) (p : N) : Prop :=
    nth_error c (N.to_nat p - 1) = Some (Some (txt p)).

  Lemma store_grow_has (c : cacheT) p :
    p <> 0 -> has (store T ResizeGrow c p (txt p)) p.
  Proof.
    intros Hp. unfold has, store.
    apply set_nth_same.
    destruct (Nat.ltb (length c) (N.to_nat p - 1 + 1)) eqn:E.
    - rewrite resize_length. lia.
    - apply Nat.ltb_ge in E. lia.
  Qed.

  Lemma store_grow_keeps (c : cacheT) p q :
    p <> 0 -> q <> 0 -> has c q -> has (store T ResizeGrow c p (txt p)) q.
  Proof.
    intros Hp Hq Hhas. destruct (N.eq_dec p q) as [->|Hne]; [apply store_grow_has; exact Hq|].
    unfold has, store in *.
    rewrite set_nth_other by lia.
    assert (Hlen : (N.to_nat q - 1 < length c)%nat).
    { apply nth_error_Some. rewrite Hhas. discriminate. }
    destruct (Nat.ltb (length c) (N.to_nat p - 1 + 1)) eqn:E; [|exact Hhas].
    apply Nat.ltb_lt in E. rewrite resize_grow_nth by lia. exact Hhas.
  Qed.

  Lemma fetch_all g :
    (forall p, In p g -> prov p = Some (txt p)) -> fetch T prov g = Some (map txt g).
  Proof.
    induction g as [|p r IH]; intros H; [reflexivity|].
    cbn [fetch map]. rewrite (H p (or_introl eq_refl)). rewrite IH; [reflexivity|].
    intros q Hq. apply H. right. exact Hq.
  Qed.

  Lemma store_all_grow g : forall (c : cacheT),
    (forall p, In p g -> p <> 0) ->
    exists c', store_all T ResizeGrow c g (map txt g) = Some c' /\
               (forall q, q <> 0 -> has c q -> has c' q) /\
               (forall p, In p g -> has c' p).
  Proof.
    induction g as [|p r IH]; intros c Hnz.
    - exists c. cbn. repeat split; auto. intros p [].
    - cbn [store_all map].
      assert (Hp : p <> 0) by (apply Hnz; left; reflexivity).
      destruct (p =? 0) eqn:E; [apply N.eqb_eq in E; contradiction|].
      destruct (IH (store T ResizeGrow c p (txt p))) as [c' [Hs [Hkeep Hall]]].
      { intros q Hq. apply Hnz. right. exact Hq. }
      exists c'. split; [exact Hs|]. split.
      + intros q Hq Hhas. apply Hkeep; [exact Hq|]. apply store_grow_keeps; assumption.
      + intros q [->|Hq]; [|apply Hall; exact Hq].
        apply Hkeep; [exact Hp|]. apply store_grow_has. exact Hp.
  Qed.

  Lemma yield_group_all (c : cacheT) g :
    (forall p, In p g -> p <> 0 /\ has c p) ->
    yield_group T c g = (map (fun p => (p, txt p)) g, None).
  Proof.
    induction g as [|p r IH]; intros H; [reflexivity|].
    cbn [yield_group map].
    destruct (H p (or_introl eq_refl)) as [Hp Hhas].
    destruct (p =? 0) eqn:E; [apply N.eqb_eq in E; contradiction|].
    unfold has in Hhas. rewrite Hhas. rewrite IH; [reflexivity|].
    intros q Hq. apply H. right. exact Hq.
  Qed.

  (* a group list the iterator can serve: no empty group, no page 0, every
     page extractable *)
  Definition servable (groups : list (list N)) : Prop :=
    Forall (fun g => g <> [] /\ forall p, In p g -> p <> 0 /\ prov p = Some (txt p)) groups.

  Theorem run_iter_grow_all groups : forall (c : cacheT),
    servable groups ->
    run_iter T prov ResizeGrow c groups
    = (map (fun p => (p, txt p)) (concat groups), groups, IterDone).
  Proof.
    induction groups as [|g r IH]; intros c Hs; [reflexivity|].
    inversion Hs as [|g' r' [Hne Hg] Hr]; subst.
    cbn [run_iter concat].
    rewrite fetch_all by (intros p Hp; apply Hg; exact Hp).
    destruct (store_all_grow g c) as [c' [Hst [_ Hall]]].
    { intros p Hp. apply Hg. exact Hp. }
    rewrite Hst.
    destruct g as [|p0 g0]; [contradiction Hne; reflexivity|].
    rewrite yield_group_all.
    2:{ intros p Hp. split; [apply Hg; exact Hp | apply Hall; exact Hp]. }
    rewrite IH by exact Hr. rewrite map_app. reflexivity.
  Qed.
End IterProofs.

(* the iterator over the sanitised groups of an n-page document *)
Theorem iter_yields_all (T : Type) (prov : N -> option T) (txt : N -> T) n hints :
  (forall p, 1 <= p <= n -> prov p = Some (txt p)) ->
  run_iter T prov ResizeGrow [] (safe_page_chunks n hints)
  = (map (fun p => (p, txt p)) (concat (safe_page_chunks n hints)),
     safe_page_chunks n hints, IterDone).
Proof.
  intros Hprov. apply run_iter_grow_all.
  unfold servable. apply Forall_forall. intros g Hg. split.
  - pose proof (chunks_nonempty n hints) as Hne. rewrite Forall_forall in Hne. apply Hne. exact Hg.
  - intros p Hp.
    assert (Hr : 1 <= p <= n).
    { apply (chunks_in_range n hints). apply in_concat. exists g. split; assumption. }
    split; [lia | apply Hprov; exact Hr].
Qed.

(* The code up to 90a5400 (resize on every store): a descending group loses
   the earlier page and the iterator indexes past the end of the cache. *)
Definition ident_prov (n : N) (p : N) : option N := if page_ok n p then Some p else None.

Lemma descending_group_always_panics :
  run_iter N (ident_prov 4) ResizeAlways [] (safe_page_chunks 4 [[4; 2]])
  = ([], [[4; 2]], IterPanic PSite.cache_index).
Proof. vm_compute. reflexivity. Qed.

Lemma descending_group_grow_ok :
  run_iter N (ident_prov 4) ResizeGrow [] (safe_page_chunks 4 [[4; 2]])
  = ([(4, 4); (2, 2); (1, 1); (3, 3)], [[4; 2]; [1; 3]], IterDone).
Proof. vm_compute. reflexivity. Qed.
