(* What the transfer principle (Proofs/DecTransfer.v) gives for the rounded
   arithmetic on a history without rounding: the theorems about [run exact]
   read verbatim for [run dec]. *)
From Coq Require Import List NArith ZArith QArith Qcanon Bool.
From ACB Require Import Base.Outcome Base.QcExtra Base.Fit Base.Arith Model.Tx Model.Ledger Model.Sfl
     Model.DeltaList Spec.AvgCost Proofs.C01Refine Proofs.DecTransfer.
Import ListNotations.

(* C01 for the real arithmetic: every row of the ROUNDED ledger carries the
   balance, cost base and gain of the average-cost rules *)
Theorem dec_refines_spec_when_representable init txs ds o :
  run rep init txs = (ds, o) -> opstopb o = false ->
  Forall (fun t => valid_tx t = true) txs ->
  run dec init txs = (ds, o) /\
  map obs_of ds = spec_rows (spec_init init) (effective ds).
Proof.
  intros H Ho HV. destruct (dec_equals_exact_when_representable _ _ _ _ H Ho) as [Hd He].
  split; [exact Hd|]. exact (run_exact_refines_spec_valid init txs ds o He HV).
Qed.

(* C02 for the real arithmetic, on windows without splits and with ten-place
   share counts: the ROUNDED scans compute the declarative rule *)
From ACB Require Import Spec.SflRule Proofs.C02Scan Proofs.DecScan.

Theorem dec_scan_eq_rule_without_splits bef t sold aft st r :
  scan_inputs_small bef t sold aft st = true ->
  sd_sorted aft -> sd_sorted_desc bef ->
  sfl_info dec bef t sold aft st = Ok r ->
  match r with
  | Some s =>
      sc_acq s = rule_acquired bef t aft /\
      sc_eop s = rule_held_end (all_after_sale st sold) t aft /\
      rule_superficial bef t aft (all_after_sale st sold)
  | None => ~ rule_superficial bef t aft (all_after_sale st sold)
  end.
Proof.
  intros Hs Ha Hb H. rewrite (dec_scan_exact_without_splits _ _ _ _ _ Hs) in H.
  exact (sfl_info_rule bef t sold aft st r Ha Hb H).
Qed.

(* C03 for the real arithmetic on such histories: gains are conserved in the
   ROUNDED ledger *)
From ACB Require Import Proofs.C03Conserve.
Theorem dec_conservation_when_representable init txs ds :
  run rep init txs = (ds, None) ->
  Forall c03_row txs ->
  run dec init txs = (ds, None) /\
  forall p rest, ds = p ++ rest -> head_not_sfla rest -> Forall not_over p ->
    sum_gains p
    = (sum_proceeds p - (sum_costs p + total_acb (spec_init init)) + sum_roc (spec_init init) p
       + total_acb (after (spec_init init) p))%Qc.
Proof.
  intros H HV. destruct (dec_equals_exact_when_representable _ _ _ _ H eq_refl) as [Hd He].
  split; [exact Hd|]. exact (run_conserved init txs ds He HV).
Qed.
