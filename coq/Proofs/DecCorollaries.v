(* What the transfer principle (Proofs/DecTransfer.v) gives for the rounded
   arithmetic on a history without rounding: the theorems about [run exact]
   read verbatim for [run dec]. *)
From Coq Require Import List NArith ZArith QArith Qcanon Bool.
From ACB Require Import Base.Outcome Base.QcExtra Base.Fit Base.Arith Model.Tx Model.Ledger Model.Sfl
     Model.DeltaList Spec.AvgCost Proofs.C01Refine Proofs.DecTransfer.
Import ListNotations.

(* C01 for the real arithmetic: every row of the ROUNDED ledger carries the
   balance, cost base and gain of the average-cost rules *)
Theorem dec_refines_spec_when_representable init txs ds o :
  run rep init txs = (ds, o) -> opstopb o = false ->
  Forall (fun t => valid_tx t = true) txs ->
  run dec init txs = (ds, o) /\
  map obs_of ds = spec_rows (spec_init init) (effective ds).
Proof.
  intros H Ho HV. destruct (dec_equals_exact_when_representable _ _ _ _ H Ho) as [Hd He].
  split; [exact Hd|]. exact (run_exact_refines_spec_valid init txs ds o He HV).
Qed.
