(* csv group: affiliate from_strep lemmas (in progress) *)
