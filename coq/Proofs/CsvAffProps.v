(* Affiliate::from_strep and name(): from_strep (name a) = a for every
   affiliate a produced by from_strep from ASCII text, including the
   registered marker "(R)".  (affiliate.rs AffiliateData::from_strep) *)
From Coq Require Import List NArith ZArith Bool Arith Lia.
From ACB Require Import Base.Outcome Model.CsvFields Proofs.CsvDigits Proofs.CsvFieldProps.
Import ListNotations.
Local Open Scope N_scope.

(* ---------------------------------------------------------------- trim on ASCII text *)
Fixpoint dropws (s : bytes) : bytes :=
  match s with
  | a :: r => if is_ascii_ws a then dropws r else s
  | [] => []
  end.

Lemma is_ascii_cons a r : is_ascii (a :: r) = true <-> a < 128 /\ is_ascii r = true.
Proof. unfold is_ascii. cbn [forallb]. rewrite andb_true_iff, N.ltb_lt. tauto. Qed.
Lemma is_ascii_app a b : is_ascii (a ++ b) = is_ascii a && is_ascii b.
Proof. apply forallb_app. Qed.
Lemma is_ascii_rev a : is_ascii (rev a) = is_ascii a.
Proof.
  induction a as [|x a IH]; [reflexivity|]. cbn [rev]. rewrite is_ascii_app, IH. unfold is_ascii. cbn [forallb].
  rewrite andb_true_r. apply andb_comm.
Qed.

Lemma trim_start_ascii s : is_ascii s = true -> trim_start s = dropws s.
Proof.
  induction s as [|a r IH]; intros H; [reflexivity|]. apply is_ascii_cons in H. destruct H as [Ha Hr].
  destruct (is_ascii_ws a) eqn:E.
  - cbn [trim_start dropws]. rewrite E. apply IH. exact Hr.
  - cbn [dropws]. rewrite E. apply trim_start_edge. unfold edge_ok. rewrite E.
    apply andb_true_intro. split; [apply N.ltb_lt; exact Ha|reflexivity].
Qed.
Lemma trim_start_rev_ascii s : is_ascii s = true -> trim_start_rev s = dropws s.
Proof.
  induction s as [|a r IH]; intros H; [reflexivity|]. apply is_ascii_cons in H. destruct H as [Ha Hr].
  destruct (is_ascii_ws a) eqn:E.
  - cbn [trim_start_rev dropws]. rewrite E. apply IH. exact Hr.
  - cbn [dropws]. rewrite E. apply trim_start_rev_edge. unfold edge_ok. rewrite E.
    apply andb_true_intro. split; [apply N.ltb_lt; exact Ha|reflexivity].
Qed.

Lemma dropws_spec s : exists a, s = a ++ dropws s /\ forallb is_ascii_ws a = true.
Proof.
  induction s as [|x r IH]; [exists []; split; reflexivity|]. cbn [dropws].
  destruct (is_ascii_ws x) eqn:E.
  - destruct IH as [a [H1 H2]]. exists (x :: a). split; [cbn; f_equal; exact H1|cbn; rewrite E; exact H2].
  - exists []. split; reflexivity.
Qed.
Lemma dropws_ascii s : is_ascii s = true -> is_ascii (dropws s) = true.
Proof.
  intros H. destruct (dropws_spec s) as [a [E _]]. rewrite E, is_ascii_app in H. apply andb_prop in H. apply H.
Qed.

Definition trim_a (s : bytes) : bytes := rev (dropws (rev (dropws s))).
Lemma trim_ascii s : is_ascii s = true -> trim s = trim_a s.
Proof.
  intros H. unfold trim, trim_end, trim_a. rewrite (trim_start_ascii s H).
  rewrite trim_start_rev_ascii; [reflexivity|]. rewrite is_ascii_rev. apply dropws_ascii. exact H.
Qed.

(* s = a ++ trim_a s ++ b *)
Lemma trim_a_spec s : exists a b, s = a ++ trim_a s ++ b.
Proof.
  destruct (dropws_spec s) as [a [E1 _]]. destruct (dropws_spec (rev (dropws s))) as [b [E2 _]].
  exists a, (rev b). unfold trim_a. rewrite <- rev_app_distr, <- E2, rev_involutive. exact E1.
Qed.

(* the first and last bytes of a trimmed text are not white space *)
Lemma dropws_head s : match dropws s with a :: _ => is_ascii_ws a = false | [] => True end.
Proof.
  induction s as [|x r IH]; [exact I|]. cbn [dropws]. destruct (is_ascii_ws x) eqn:E; [exact IH|exact E].
Qed.
Lemma dropws_fix s : match s with a :: _ => is_ascii_ws a = false | [] => True end -> dropws s = s.
Proof. destruct s as [|a r]; [reflexivity|]. intros H. cbn [dropws]. rewrite H. reflexivity. Qed.

Lemma dropws_last s z : is_ascii_ws z = false -> dropws (s ++ [z]) = dropws s ++ [z].
Proof.
  intros Hz. induction s as [|x r IH]; cbn [app dropws]; [rewrite Hz; reflexivity|].
  destruct (is_ascii_ws x); [exact IH|reflexivity].
Qed.

Lemma trim_a_idem s : trim_a (trim_a s) = trim_a s.
Proof.
  unfold trim_a. set (u := dropws (rev (dropws s))).
  pose proof (dropws_head (rev (dropws s))) as Hu. fold u in Hu.
  (* rev u ends with the head of u (non ws) and starts with the last byte of dropws s *)
  assert (E1 : dropws (rev u) = rev u).
  { destruct (dropws_spec (rev (dropws s))) as [b [Eb _]]. fold u in Eb.
    destruct u as [|z u'] eqn:Eu; [reflexivity|].
    (* dropws s = rev (b ++ z :: u') = rev u' ++ [z] ++ rev b; its head is non-ws *)
    apply dropws_fix. pose proof (dropws_head s) as Hs.
    assert (Es : dropws s = rev (z :: u') ++ rev b).
    { rewrite <- rev_app_distr, <- Eb, rev_involutive. reflexivity. }
    rewrite Es in Hs. destruct (rev (z :: u')) as [|h t] eqn:Er.
    - apply (f_equal (@length N)) in Er. rewrite rev_length in Er. discriminate.
    - exact Hs. }
  rewrite E1, rev_involutive. f_equal. apply dropws_fix. exact Hu.
Qed.

Lemma trim_a_nonws_ends s :
  trim_a s <> [] ->
  exists h m z, (trim_a s = h :: m ++ [z] \/ (trim_a s = [h] /\ z = h)) /\ is_ascii_ws h = false /\ is_ascii_ws z = false.
Proof.
  intros Hne. pose proof (trim_a_idem s) as Hid. unfold trim_a in Hid at 1. set (t := trim_a s) in *.
  (* head: dropws t = t since t = trim_a t *)
  assert (Hd : dropws t = t /\ dropws (rev t) = rev t).
  { assert (A : dropws (rev (dropws t)) = rev t) by (rewrite <- (rev_involutive (dropws _)), Hid; reflexivity).
    pose proof (dropws_head (rev (dropws t))) as H1. rewrite A in H1.
    destruct (dropws_spec t) as [a [Ea _]].
    assert (B : length (dropws t) = length t).
    { apply (f_equal (@length N)) in A. rewrite rev_length in A.
      destruct (dropws_spec (rev (dropws t))) as [b [Eb _]]. apply (f_equal (@length N)) in Eb.
      rewrite app_length, rev_length in Eb. apply (f_equal (@length N)) in Ea. rewrite app_length in Ea. lia. }
    assert (a = []) by (apply (f_equal (@length N)) in Ea; rewrite app_length in Ea; destruct a; [reflexivity|cbn in Ea; lia]).
    subst a. cbn in Ea. split; [symmetry; exact Ea|]. rewrite <- Ea in A. exact A. }
  destruct Hd as [D1 D2].
  pose proof (dropws_head t) as H1. rewrite D1 in H1.
  pose proof (dropws_head (rev t)) as H2. rewrite D2 in H2.
  destruct t as [|h r] eqn:Et; [contradiction|].
  destruct (rev (h :: r)) as [|z rr] eqn:Er.
  - apply (f_equal (@length N)) in Er. rewrite rev_length in Er. discriminate.
  - exists h. destruct r as [|x r'].
    + exists [], h. split; [right; split; reflexivity|split; exact H1].
    + assert (E : h :: x :: r' = rev rr ++ [z]).
      { rewrite <- (rev_involutive (h :: x :: r')), Er. reflexivity. }
      destruct (rev rr) as [|h' m] eqn:Em.
      * cbn in E. discriminate.
      * cbn in E. inversion E; subst. exists m, z. repeat split; auto.
Qed.

(* ---------------------------------------------------------------- the marker "(R)" *)
Lemma has_reg_cons x r : has_reg r = true -> has_reg (x :: r) = true.
Proof.
  intros H. destruct r as [|b [|c r']]; try discriminate. cbn [has_reg] in *. rewrite H. apply orb_true_r.
Qed.
Lemma has_reg_app_l a m : has_reg m = true -> has_reg (a ++ m) = true.
Proof. induction a as [|x a IH]; intros H; [exact H|]. cbn [app]. apply has_reg_cons. auto. Qed.
Lemma has_reg_app_r m b : has_reg m = true -> has_reg (m ++ b) = true.
Proof.
  induction m as [|x r IH]; intros H; [discriminate|].
  destruct r as [|y [|z r']]; try discriminate. cbn [app has_reg] in *.
  apply orb_prop in H. destruct H as [H|H]; [rewrite H; reflexivity|].
  rewrite (IH H). apply orb_true_r.
Qed.
Lemma no_reg_sub a m b : has_reg (a ++ m ++ b) = false -> has_reg m = false.
Proof.
  intros H. destruct (has_reg m) eqn:E; [|reflexivity].
  rewrite (has_reg_app_l a (m ++ b) (has_reg_app_r m b E)) in H. discriminate.
Qed.

(* one-step unfoldings *)
Definition hit (a : N) (r : bytes) : bool := match r with b :: c :: _ => is_reg3 a b c | _ => false end.
Lemma has_reg_step a r : has_reg (a :: r) = hit a r || has_reg r.
Proof. destruct r as [|b [|c r']]; reflexivity. Qed.
Lemma repl_reg_step a r :
  repl_reg (a :: r) = if hit a r then 32 :: repl_reg (skipn 2 r) else a :: repl_reg r.
Proof. destruct r as [|b [|c r']]; reflexivity. Qed.
Lemma repl_reg_head c r : exists t, repl_reg (c :: r) = c :: t \/ repl_reg (c :: r) = 32 :: t.
Proof. rewrite repl_reg_step. destruct (hit c r); eexists; [right|left]; reflexivity. Qed.
Lemma hit_space r : hit 32 r = false.
Proof. destruct r as [|b [|c r']]; reflexivity. Qed.
Lemma is_reg3_mid a c : is_reg3 a 32 c = false.
Proof. unfold is_reg3. cbn. rewrite andb_false_r. reflexivity. Qed.
Lemma is_reg3_last a b : is_reg3 a b 32 = false.
Proof. unfold is_reg3. cbn. apply andb_false_r. Qed.

Lemma hit_repl a r : hit a r = false -> hit a (repl_reg r) = false.
Proof.
  intros H. destruct r as [|b r']; [reflexivity|]. rewrite repl_reg_step.
  destruct (hit b r') eqn:Eb.
  - unfold hit. destruct (repl_reg (skipn 2 r')); [reflexivity|apply is_reg3_mid].
  - destruct r' as [|c r'']; [reflexivity|].
    destruct (repl_reg_head c r'') as [t [E|E]]; rewrite E; cbn [hit].
    + exact H.
    + apply is_reg3_last.
Qed.

Lemma repl_reg_no_reg s : has_reg (repl_reg s) = false.
Proof.
  induction s as [s IH] using (well_founded_induction (Wf_nat.well_founded_ltof _ (@length N))).
  destruct s as [|a r]; [reflexivity|]. rewrite repl_reg_step. destruct (hit a r) eqn:E.
  - rewrite has_reg_step, hit_space. cbn [orb]. apply IH. unfold ltof.
    destruct r as [|b [|c r']]; cbn; lia.
  - rewrite has_reg_step, (hit_repl a r E). cbn [orb]. apply IH. unfold ltof. cbn. lia.
Qed.

(* ---------------------------------------------------------------- runs of spaces *)
Fixpoint nodbl (s : bytes) : bool :=
  match s with
  | a :: r => negb ((a =? 32) && (match r with b :: _ => b =? 32 | [] => false end)) && nodbl r
  | [] => true
  end.
Lemma collapse_nodbl_fix s : nodbl s = true -> collapse s = s.
Proof.
  induction s as [|a r IH]; intros H; [reflexivity|]. cbn [nodbl] in H. apply andb_prop in H.
  destruct H as [H1 H2]. apply negb_true_iff in H1. cbn [collapse]. rewrite H1, (IH H2). reflexivity.
Qed.
Definition dbl (a : N) (r : bytes) : bool := (a =? 32) && (match r with b :: _ => b =? 32 | [] => false end).
Lemma collapse_step a r : collapse (a :: r) = if dbl a r then collapse r else a :: collapse r.
Proof. reflexivity. Qed.
(* the first byte survives (a dropped space is followed by a space) *)
Lemma collapse_head b r : exists t, collapse (b :: r) = b :: t.
Proof.
  revert b. induction r as [|c r IH]; intros b.
  - exists []. cbn. rewrite andb_false_r. reflexivity.
  - rewrite collapse_step. destruct (dbl b (c :: r)) eqn:E.
    + unfold dbl in E. apply andb_prop in E. destruct E as [Eb Ec]. apply N.eqb_eq in Eb, Ec. subst.
      apply IH.
    + eexists. reflexivity.
Qed.
Lemma collapse_nodbl s : nodbl (collapse s) = true.
Proof.
  induction s as [|a r IH]; [reflexivity|]. rewrite collapse_step.
  destruct (dbl a r) eqn:E; [exact IH|].
  cbn [nodbl]. rewrite IH, andb_true_r. apply negb_true_iff.
  destruct r as [|b r']; [apply andb_false_r|].
  destruct (collapse_head b r') as [t Et]. rewrite Et. exact E.
Qed.
Lemma nodbl_tail x r : nodbl (x :: r) = true -> nodbl r = true.
Proof. cbn [nodbl]. intros H. apply andb_prop in H. apply H. Qed.
Lemma nodbl_app_l a m : nodbl (a ++ m) = true -> nodbl m = true.
Proof. induction a as [|x a IH]; intros H; [exact H|]. apply IH. apply (nodbl_tail x). exact H. Qed.
Lemma nodbl_app_r m b : nodbl (m ++ b) = true -> nodbl m = true.
Proof.
  induction m as [|x r IH]; intros H; [reflexivity|]. cbn [app nodbl] in *. apply andb_prop in H.
  destruct H as [H1 H2]. rewrite (IH H2), andb_true_r.
  destruct r as [|y r']; [rewrite andb_false_r; reflexivity|exact H1].
Qed.
Lemma nodbl_sub a m b : nodbl (a ++ m ++ b) = true -> nodbl m = true.
Proof. intros H. apply nodbl_app_l in H. apply nodbl_app_r in H. exact H. Qed.

Lemma collapse_keeps_no_reg s : has_reg s = false -> has_reg (collapse s) = false.
Proof.
  induction s as [|a r IH]; intros H; [reflexivity|].
  rewrite has_reg_step in H. apply orb_false_iff in H. destruct H as [Hh Hr].
  rewrite collapse_step. destruct (dbl a r) eqn:E; [apply IH; exact Hr|].
  rewrite has_reg_step, (IH Hr), orb_false_r.
  destruct r as [|b r1]; [reflexivity|].
  rewrite collapse_step. destruct (dbl b r1) eqn:Eb.
  - (* b is a dropped space; the kept text starts with a space *)
    unfold dbl in Eb. apply andb_prop in Eb. destruct Eb as [_ Ec].
    destruct r1 as [|c r2]; [discriminate|]. apply N.eqb_eq in Ec. subst c.
    destruct (collapse_head 32 r2) as [t Et]. rewrite Et. unfold hit. destruct t; [reflexivity|apply is_reg3_mid].
  - destruct r1 as [|c r2]; [reflexivity|]. destruct (collapse_head c r2) as [t Et]. rewrite Et.
    cbn [hit] in *. exact Hh.
Qed.

(* ---------------------------------------------------------------- ASCII is preserved *)
Lemma is_ascii_skipn n s : is_ascii s = true -> is_ascii (skipn n s) = true.
Proof.
  revert s. induction n as [|n IH]; intros s H; [exact H|]. destruct s as [|a r]; [reflexivity|].
  cbn [skipn]. apply IH. apply is_ascii_cons in H. apply H.
Qed.
Lemma repl_reg_ascii s : is_ascii s = true -> is_ascii (repl_reg s) = true.
Proof.
  induction s as [s IH] using (well_founded_induction (Wf_nat.well_founded_ltof _ (@length N))).
  intros H. destruct s as [|a r]; [reflexivity|]. apply is_ascii_cons in H. destruct H as [Ha H].
  rewrite repl_reg_step. destruct (hit a r).
  - apply is_ascii_cons. split; [lia|]. apply IH; [|apply is_ascii_skipn; exact H].
    unfold ltof. destruct r as [|b [|c r']]; cbn; lia.
  - apply is_ascii_cons. split; [exact Ha|]. apply IH; [unfold ltof; cbn; lia|exact H].
Qed.
Lemma collapse_ascii s : is_ascii s = true -> is_ascii (collapse s) = true.
Proof.
  induction s as [|a r IH]; intros H; [reflexivity|]. apply is_ascii_cons in H. destruct H as [Ha H].
  cbn [collapse]. destruct ((a =? 32) && _); [apply IH; exact H|].
  apply is_ascii_cons. split; [exact Ha|apply IH; exact H].
Qed.
Lemma trim_a_ascii s : is_ascii s = true -> is_ascii (trim_a s) = true.
Proof.
  intros H. destruct (trim_a_spec s) as [a [b E]]. rewrite E, !is_ascii_app in H.
  apply andb_prop in H. destruct H as [_ H]. apply andb_prop in H. apply H.
Qed.

(* ---------------------------------------------------------------- the pretty name *)
Definition pretty_of (s : bytes) : bytes :=
  let p0 := if has_reg s then repl_reg s else s in
  let p1 := trim (collapse p0) in
  if is_nil p1 then s_default else p1.

Record pretty_ok (p : bytes) : Prop := {
  po_ascii : is_ascii p = true;
  po_noreg : has_reg p = false;
  po_nodbl : nodbl p = true;
  po_trim : trim_a p = p;
  po_ne : p <> []
}.

Lemma pretty_of_ok s : is_ascii s = true -> pretty_ok (pretty_of s).
Proof.
  intros Ha. unfold pretty_of. set (p0 := if has_reg s then repl_reg s else s).
  assert (A0 : is_ascii p0 = true) by (unfold p0; destruct (has_reg s); [apply repl_reg_ascii|]; exact Ha).
  assert (R0 : has_reg p0 = false) by (unfold p0; destruct (has_reg s) eqn:E; [apply repl_reg_no_reg|exact E]).
  assert (Ac : is_ascii (collapse p0) = true) by (apply collapse_ascii; exact A0).
  rewrite (trim_ascii _ Ac).
  destruct (is_nil (trim_a (collapse p0))) eqn:En.
  - constructor; try reflexivity. discriminate.
  - destruct (trim_a_spec (collapse p0)) as [a [b E]].
    constructor.
    + apply trim_a_ascii. exact Ac.
    + apply (no_reg_sub a _ b). rewrite <- E. apply collapse_keeps_no_reg. exact R0.
    + apply (nodbl_sub a _ b). rewrite <- E. apply collapse_nodbl.
    + apply trim_a_idem.
    + intros E0. rewrite E0 in En. discriminate.
Qed.

(* ---------------------------------------------------------------- from_strep on a pretty name *)
Lemma from_strep_data_eq s :
  from_strep_data s =
  if has_reg s
  then {| a_id := lower (pretty_of s) ++ s_reg_suffix; a_name := pretty_of s ++ s_reg_suffix; a_reg := true |}
  else {| a_id := lower (pretty_of s); a_name := pretty_of s; a_reg := false |}.
Proof. unfold from_strep_data, pretty_of. destruct (has_reg s); reflexivity. Qed.

Lemma pretty_fix p : pretty_ok p -> pretty_of p = p /\ has_reg p = false.
Proof.
  intros [Ha Hr Hd Ht Hn]. split; [|exact Hr]. unfold pretty_of. rewrite Hr, (collapse_nodbl_fix p Hd).
  rewrite (trim_ascii p Ha), Ht. destruct p; [contradiction|reflexivity].
Qed.

(* "(R)" after the name *)
Lemma has_reg_suffix p : has_reg (p ++ s_reg_suffix) = true.
Proof. apply has_reg_app_l. reflexivity. Qed.

Lemma repl_reg_suffix p : has_reg p = false -> repl_reg (p ++ s_reg_suffix) = p ++ [32; 32].
Proof.
  induction p as [|a r IH]; intros H; [reflexivity|].
  rewrite has_reg_step in H. apply orb_false_iff in H. destruct H as [Hh Hr].
  cbn [app]. rewrite repl_reg_step.
  assert (E : hit a (r ++ s_reg_suffix) = false).
  { destruct r as [|b [|c r']]; cbn [app hit s_reg_suffix].
    - apply is_reg3_mid.
    - apply is_reg3_last.
    - exact Hh. }
  rewrite E. f_equal. apply IH. exact Hr.
Qed.

Lemma collapse_two_spaces p z m :
  nodbl (p) = true -> p = m ++ [z] -> z <> 32 -> collapse (p ++ [32; 32]) = p ++ [32].
Proof.
  intros Hd -> Hz. rewrite <- app_assoc. cbn [app].
  induction m as [|x r IH].
  - cbn. destruct (N.eqb_spec z 32); [contradiction|reflexivity].
  - cbn [app collapse]. cbn [app nodbl] in Hd. apply andb_prop in Hd. destruct Hd as [H1 H2].
    apply negb_true_iff in H1.
    assert (E : (match r ++ [z; 32; 32] with b :: _ => b =? 32 | [] => false end)
                = (match r ++ [z] with b :: _ => b =? 32 | [] => false end)) by (destruct r; reflexivity).
    rewrite E, H1. f_equal. apply IH. exact H2.
Qed.

Lemma trim_a_one_space p :
  trim_a p = p -> p <> [] -> trim_a (p ++ [32]) = p.
Proof.
  intros Ht Hn. assert (Hne : trim_a p <> []) by (rewrite Ht; exact Hn).
  destruct (trim_a_nonws_ends p Hne) as [h [m [z [Hs [Hh Hz]]]]]. rewrite Ht in Hs.
  unfold trim_a.
  assert (D1 : dropws (p ++ [32]) = p ++ [32]).
  { apply dropws_fix. destruct Hs as [->|[-> _]]; exact Hh. }
  rewrite D1, rev_app_distr. cbn [rev app dropws]. change (is_ascii_ws 32) with true. cbv iota.
  assert (D2 : dropws (rev p) = rev p).
  { apply dropws_fix. destruct Hs as [->|[-> ->]].
    - change (h :: m ++ [z]) with ((h :: m) ++ [z]). rewrite rev_app_distr. exact Hz.
    - exact Hh. }
  rewrite D2. apply rev_involutive.
Qed.

Theorem from_strep_name_pretty p :
  pretty_ok p ->
  from_strep_data p = {| a_id := lower p; a_name := p; a_reg := false |}
  /\ from_strep_data (p ++ s_reg_suffix)
     = {| a_id := lower p ++ s_reg_suffix; a_name := p ++ s_reg_suffix; a_reg := true |}.
Proof.
  intros Hp. destruct (pretty_fix p Hp) as [Hf Hr]. destruct Hp as [Ha _ Hd Ht Hn]. split.
  - rewrite from_strep_data_eq, Hr, Hf. reflexivity.
  - rewrite from_strep_data_eq, has_reg_suffix.
    assert (Hpo : pretty_of (p ++ s_reg_suffix) = p).
    { unfold pretty_of. rewrite has_reg_suffix, (repl_reg_suffix p Hr).
      assert (Hne : trim_a p <> []) by (rewrite Ht; exact Hn).
      destruct (trim_a_nonws_ends p Hne) as [h [m [z [Hs [Hh Hz]]]]]. rewrite Ht in Hs.
      assert (Hz32 : z <> 32) by (intros ->; discriminate Hz).
      assert (Hc : collapse (p ++ [32; 32]) = p ++ [32]).
      { destruct Hs as [Hs|[Hs ->]].
        - apply (collapse_two_spaces p z (h :: m) Hd); [exact Hs|exact Hz32].
        - apply (collapse_two_spaces p h [] Hd); [exact Hs|exact Hz32]. }
      rewrite Hc. rewrite trim_ascii by (rewrite is_ascii_app, Ha; reflexivity).
      rewrite (trim_a_one_space p Ht Hn). destruct p; [contradiction|reflexivity]. }
    rewrite Hpo. reflexivity.
Qed.

(* C11 field theorem: Affiliate::from_strep (name a) = a *)
Theorem from_strep_name s :
  is_ascii s = true -> from_strep_data (a_name (from_strep_data s)) = from_strep_data s.
Proof.
  intros Ha. pose proof (pretty_of_ok s Ha) as Hp.
  destruct (from_strep_name_pretty _ Hp) as [E1 E2].
  rewrite (from_strep_data_eq s). destruct (has_reg s); cbn [a_name]; [exact E2|exact E1].
Qed.

(* the written name is never blank and needs no trimming *)
Theorem from_strep_name_cell s :
  is_ascii s = true ->
  trim (a_name (from_strep_data s)) = a_name (from_strep_data s) /\ a_name (from_strep_data s) <> [].
Proof.
  intros Ha. pose proof (pretty_of_ok s Ha) as [Pa Pr Pd Pt Pn].
  rewrite (from_strep_data_eq s). destruct (has_reg s); cbn [a_name].
  - split; [|intros E; apply app_eq_nil in E; destruct E; discriminate].
    assert (Hne : trim_a (pretty_of s) <> []) by (rewrite Pt; exact Pn).
    destruct (trim_a_nonws_ends _ Hne) as [h [m [z [Hs [Hh Hz]]]]]. rewrite Pt in Hs.
    rewrite trim_ascii by (rewrite is_ascii_app, Pa; reflexivity).
    unfold trim_a.
    assert (D1 : dropws (pretty_of s ++ s_reg_suffix) = pretty_of s ++ s_reg_suffix).
    { apply dropws_fix. destruct Hs as [->|[-> _]]; exact Hh. }
    rewrite D1, rev_app_distr. cbn [rev app s_reg_suffix dropws]. change (is_ascii_ws 41) with false. cbv iota.
    change (41 :: 82 :: 40 :: 32 :: rev (pretty_of s)) with (rev s_reg_suffix ++ rev (pretty_of s)).
    rewrite <- rev_app_distr. apply rev_involutive.
  - split; [|exact Pn]. rewrite (trim_ascii _ Pa). exact Pt.
Qed.
