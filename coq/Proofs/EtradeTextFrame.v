(* C19, text layer: a small framework to reason about unanchored regex search
   ([find], [find_last]) over STRUCTURED documents: a document is a list of
   segments, each a literal text or a field (a non-empty text all of whose
   characters lie in a finite character class).  A matcher that needs the
   first characters of its input to satisfy a pointwise guard cannot match at
   a position where the guard cannot hold for ANY value of the fields; that is
   decided on the abstract document by computation ([may_match], [seek],
   [clear_all]) and proved sound here once. *)
From Coq Require Import List NArith ZArith Bool Lia.
From ACB Require Import Model.QText Model.EtradeText.
Import ListNotations.
Local Open Scope N_scope.

(* ---- finite character classes ---- *)
Definition nrange (a n : nat) : list N := map N.of_nat (seq a n).
Lemma in_nrange a n c : (N.of_nat a <= c) -> (c < N.of_nat (a + n)) -> In c (nrange a n).
Proof.
  intros H1 H2. unfold nrange. apply in_map_iff. exists (N.to_nat c). split; [apply N2Nat.id|].
  apply in_seq. lia.
Qed.

Record cls : Type := {
  mem : N -> bool;
  reps : list N;
  reps_ok : forall c, mem c = true -> In c reps
}.

Definition is_upper (c : N) : bool := (65 <=? c) && (c <=? 90).
Definition is_lower (c : N) : bool := (97 <=? c) && (c <=? 122).

Lemma in_app_l {A} (x : A) a b : In x a -> In x (a ++ b).
Proof. intros; apply in_or_app; auto. Qed.
Lemma in_app_r {A} (x : A) a b : In x b -> In x (a ++ b).
Proof. intros; apply in_or_app; auto. Qed.

Ltac range_tac :=
  match goal with
  | H : (_ <=? _) && (_ <=? _) = true |- _ =>
      apply andb_true_iff in H; destruct H as [?H1 ?H2];
      apply N.leb_le in H1; apply N.leb_le in H2
  end.

Lemma c_digit_reps c (H : is_digit c = true) : In c (nrange 48 10).
Proof. unfold is_digit in H. range_tac. apply in_nrange; lia. Qed.
Definition c_digit : cls := {| mem := is_digit; reps := nrange 48 10; reps_ok := c_digit_reps |}.

Definition is_updot (c : N) : bool := is_upper c || is_dot c.
Lemma c_updot_reps c (H : is_updot c = true) : In c (nrange 65 26 ++ [46]).
Proof.
  unfold is_updot in H. apply orb_true_iff in H. destruct H as [H|H].
  - unfold is_upper in H. range_tac. apply in_app_l, in_nrange; lia.
  - unfold is_dot in H. apply N.eqb_eq in H. subst. apply in_app_r. left; reflexivity.
Qed.
Definition c_updot : cls := {| mem := is_updot; reps := nrange 65 26 ++ [46]; reps_ok := c_updot_reps |}.

(* [\d,] *)
Lemma c_dc_reps c (H : is_dc c = true) : In c (nrange 48 10 ++ [44]).
Proof.
  unfold is_dc in H. apply orb_true_iff in H. destruct H as [H|H].
  - unfold is_digit in H. range_tac. apply in_app_l, in_nrange; lia.
  - unfold is_comma in H. apply N.eqb_eq in H. subst. apply in_app_r. left; reflexivity.
Qed.
Definition c_dc : cls := {| mem := is_dc; reps := nrange 48 10 ++ [44]; reps_ok := c_dc_reps |}.

(* account numbers: letters, digits, '-' *)
Definition is_acct (c : N) : bool := is_digit c || is_upper c || is_lower c || (c =? 45).
Lemma c_acct_reps c (H : is_acct c = true) : In c (nrange 48 10 ++ nrange 65 26 ++ nrange 97 26 ++ [45]).
Proof.
  unfold is_acct in H. repeat (apply orb_true_iff in H; destruct H as [H|H]).
  - unfold is_digit in H. range_tac. apply in_app_l, in_nrange; lia.
  - unfold is_upper in H. range_tac. apply in_app_r, in_app_l, in_nrange; lia.
  - unfold is_lower in H. range_tac. apply in_app_r, in_app_r, in_app_l, in_nrange; lia.
  - apply N.eqb_eq in H. subst. apply in_app_r, in_app_r, in_app_r. left; reflexivity.
Qed.
Definition c_acct : cls := {| mem := is_acct; reps := nrange 48 10 ++ nrange 65 26 ++ nrange 97 26 ++ [45]; reps_ok := c_acct_reps |}.

(* words of a transaction / exercise type: letters, '-', single spaces *)
Definition is_typec (c : N) : bool := is_upper c || is_lower c || (c =? 45) || (c =? 32).
Lemma c_type_reps c (H : is_typec c = true) : In c (nrange 65 26 ++ nrange 97 26 ++ [45; 32]).
Proof.
  unfold is_typec in H. repeat (apply orb_true_iff in H; destruct H as [H|H]).
  - unfold is_upper in H. range_tac. apply in_app_l, in_nrange; lia.
  - unfold is_lower in H. range_tac. apply in_app_r, in_app_l, in_nrange; lia.
  - apply N.eqb_eq in H. subst. apply in_app_r, in_app_r. left; reflexivity.
  - apply N.eqb_eq in H. subst. apply in_app_r, in_app_r. right; left; reflexivity.
Qed.
Definition c_type : cls := {| mem := is_typec; reps := nrange 65 26 ++ nrange 97 26 ++ [45; 32]; reps_ok := c_type_reps |}.

(* ---- structured documents ---- *)
Inductive seg : Type := SL (t : text) | SF (k : cls) (v : text).
Inductive aseg : Type := AL (t : text) | AF (k : cls).

Definition seg_text (s : seg) : text := match s with SL t => t | SF _ v => v end.
Definition abs1 (s : seg) : aseg := match s with SL t => AL t | SF k _ => AF k end.
Fixpoint flat (d : list seg) : text :=
  match d with [] => [] | s :: r => seg_text s ++ flat r end.
Definition seg_ok (s : seg) : Prop :=
  match s with SL _ => True | SF k v => v <> [] /\ forallb (mem k) v = true end.

Lemma flat_app a b : flat (a ++ b) = flat a ++ flat b.
Proof. induction a as [|s a IH]; cbn; [reflexivity|]. rewrite IH, app_assoc. reflexivity. Qed.

(* ---- guards ---- *)
Definition guard := list (N -> bool).
Fixpoint prefix_sat (g : guard) (s : text) : bool :=
  match g, s with
  | [], _ => true
  | _ :: _, [] => false
  | p :: g', c :: s' => p c && prefix_sat g' s'
  end.
Definition guarded {A} (m : text -> option A) (g : guard) : Prop :=
  forall s, prefix_sat g s = false -> m s = None.
Definition glit (k : text) : guard := map N.eqb k.

Lemma prefix_sat_glit k : forall s, prefix_sat (glit k) s = starts_with k s.
Proof.
  unfold starts_with. induction k as [|x k IH]; intros s; [reflexivity|].
  destruct s as [|c s]; [reflexivity|]. cbn [glit map prefix_sat strip_prefix].
  destruct (x =? c); [apply IH|reflexivity].
Qed.

Lemma guarded_lit {A} (k : text) (cont : text -> option A) :
  guarded (fun s => obind (lit k s) cont) (glit k).
Proof.
  intros s H. rewrite prefix_sat_glit in H. unfold starts_with, lit in *.
  destruct (strip_prefix k s); [discriminate|reflexivity].
Qed.

(* ---- may the guard hold at the head of a concretisation of the abstract text?
   [open]: what to answer when the description is exhausted (true: unknown
   continuation; false: the text ends there) ---- *)
Fixpoint skip_empty (d : list aseg) : list aseg :=
  match d with AL [] :: r => skip_empty r | _ => d end.

Fixpoint may_match (open : bool) (g : guard) (d : list aseg) : bool :=
  match g with
  | [] => true
  | p :: g' =>
      match skip_empty d with
      | [] => open
      | AL [] :: _ => true
      | AL (x :: t) :: r => p x && may_match open g' (AL t :: r)
      | AF k :: r => existsb p (reps k) && (may_match open g' (AF k :: r) || may_match open g' r)
      end
  end.

(* s starts with a concretisation of d ([open]) / is one ([closed]) *)
Inductive conc (open : bool) : list aseg -> text -> Prop :=
| conc_nil_open s : open = true -> conc open [] s
| conc_nil_closed : conc open [] []
| conc_lit t r s : conc open r s -> conc open (AL t :: r) (t ++ s)
| conc_fld k r v s : v <> [] -> forallb (mem k) v = true -> conc open r s -> conc open (AF k :: r) (v ++ s).

Lemma conc_skip_empty open d s : conc open d s -> conc open (skip_empty d) s.
Proof.
  induction 1 as [s H| |t r s H IH|k r v s Hv Hm H IH]; cbn [skip_empty].
  - constructor; assumption.
  - constructor 2.
  - destruct t as [|x t]; [exact IH|constructor; assumption].
  - constructor; assumption.
Qed.

Lemma may_match_sound open g : forall d s,
  conc open d s -> prefix_sat g s = true -> may_match open g d = true.
Proof.
  induction g as [|p g IH]; intros d s Hc Hs; [reflexivity|].
  cbn [may_match]. apply conc_skip_empty in Hc.
  destruct Hc as [s Ho| |t r s Hc|k r v s Hv Hm Hc].
  - exact Ho.
  - cbn in Hs. discriminate.
  - destruct t as [|x t]; [reflexivity|].
    cbn [app prefix_sat] in Hs. apply andb_true_iff in Hs. destruct Hs as [Hp Hs].
    rewrite Hp. cbn [andb]. apply (IH (AL t :: r) (t ++ s)); [constructor; exact Hc|exact Hs].
  - destruct v as [|c v]; [congruence|]. cbn [app prefix_sat] in Hs.
    apply andb_true_iff in Hs. destruct Hs as [Hp Hs].
    cbn [forallb] in Hm. apply andb_true_iff in Hm. destruct Hm as [Hmc Hmv].
    assert (He : existsb p (reps k) = true).
    { apply existsb_exists. exists c. split; [apply reps_ok; exact Hmc|exact Hp]. }
    rewrite He. cbn [andb]. apply orb_true_iff.
    destruct v as [|c2 v].
    + right. apply (IH r s); assumption.
    + left. apply (IH (AF k :: r) ((c2 :: v) ++ s)); [|exact Hs].
      constructor; [discriminate|exact Hmv|exact Hc].
Qed.

Definition absd (d : list seg) : list aseg := map abs1 d.

Lemma conc_flat open (d : list seg) : Forall seg_ok d -> open = true \/ True -> forall tail,
  (open = true \/ tail = []) -> conc open (absd d) (flat d ++ tail).
Proof.
  intros Hok _ tail Ht. induction Hok as [|s d Hs Hd IH]; cbn [absd map flat app].
  - destruct Ht as [Ho|Ht]; [constructor; exact Ho|subst; constructor 2].
  - rewrite <- app_assoc. destruct s as [t|k v]; cbn [abs1 seg_text].
    + constructor. exact IH.
    + destruct Hs as [Hv Hm]. constructor; assumption.
Qed.

(* ---- find: skip to the first position where the guard may hold ---- *)
Section Seek.
Variable g : guard.
Variable open : bool.

(* positions inside a literal t (followed by r); k = what to do after it *)
Fixpoint seek_lit (t : text) (r : list seg) (k : list seg) : list seg :=
  match t with
  | [] => k
  | _ :: t' => if may_match open g (AL t :: absd r) then SL t :: r else seek_lit t' r k
  end.
Fixpoint seek (d : list seg) : list seg :=
  match d with
  | [] => []
  | SL t :: r => seek_lit t r (seek r)
  | SF k v :: r => if may_match open g (AF k :: absd r) then d else seek r
  end.
End Seek.

Lemma find_cons_none {A} (m : text -> option A) c s : m (c :: s) = None -> find m (c :: s) = find m s.
Proof. intros H. cbn [find]. rewrite H. reflexivity. Qed.

Lemma find_hit {A} (m : text -> option A) s x : m s = Some x -> find m s = Some x.
Proof. intros H. destruct s; cbn [find]; rewrite H; reflexivity. Qed.

Section SeekSound.
Context {A : Type} (m : text -> option A) (g : guard) (Hg : guarded m g).

Lemma guard_fails d s : conc true d s -> may_match true g d = false -> m s = None.
Proof.
  intros Hc Hm. apply Hg. destruct (prefix_sat g s) eqn:E; [|reflexivity].
  rewrite (may_match_sound true g d s Hc E) in Hm. discriminate.
Qed.

Lemma find_seek_lit t r k tail :
  Forall seg_ok r ->
  find m (flat k ++ tail) = find m (flat r ++ tail) ->
  find m (flat (seek_lit g true t r k) ++ tail) = find m (flat (SL t :: r) ++ tail).
Proof.
  intros Hr Hk. induction t as [|x t IH]; cbn [seek_lit].
  - exact Hk.
  - destruct (may_match true g (AL (x :: t) :: absd r)) eqn:E; [reflexivity|].
    rewrite IH. cbn [flat seg_text app]. symmetry. apply find_cons_none.
    apply (guard_fails (AL (x :: t) :: absd r)); [|exact E].
    rewrite <- app_assoc. change (x :: t ++ flat r ++ tail) with ((x :: t) ++ (flat r ++ tail)).
    constructor. apply conc_flat; auto.
Qed.

Lemma find_field_skip k v r tail :
  forallb (mem k) v = true -> Forall seg_ok r ->
  may_match true g (AF k :: absd r) = false ->
  find m (v ++ flat r ++ tail) = find m (flat r ++ tail).
Proof.
  intros Hm Hr E. induction v as [|c v IH]; [reflexivity|].
  cbn [forallb] in Hm. apply andb_true_iff in Hm. destruct Hm as [Hc Hv].
  cbn [app]. rewrite find_cons_none; [apply IH; exact Hv|].
  apply (guard_fails (AF k :: absd r)); [|exact E].
  change (c :: v ++ flat r ++ tail) with ((c :: v) ++ (flat r ++ tail)).
  constructor; [discriminate|cbn [forallb]; rewrite Hc, Hv; reflexivity|apply conc_flat; auto].
Qed.

Lemma find_seek d tail :
  Forall seg_ok d -> find m (flat (seek g true d) ++ tail) = find m (flat d ++ tail).
Proof.
  intros Hd. induction Hd as [|s d Hs Hd IH]; [reflexivity|].
  destruct s as [t|k v]; cbn [seek].
  - exact (find_seek_lit t d (seek g true d) tail Hd IH).
  - destruct (may_match true g (AF k :: absd d)) eqn:E; [reflexivity|].
    rewrite IH. cbn [flat seg_text]. rewrite <- app_assoc. symmetry.
    destruct Hs as [_ Hm]. apply (find_field_skip k); assumption.
Qed.

(* usable form: compute [seek] once *)
Lemma find_seek_eq d d' :
  Forall seg_ok d -> seek g true d = d' -> find m (flat d) = find m (flat d').
Proof.
  intros Hd E. rewrite <- (app_nil_r (flat d)), <- (app_nil_r (flat d')), <- E.
  symmetry. apply find_seek. exact Hd.
Qed.
End SeekSound.

(* ---- no match anywhere in a complete text ---- *)
Section Clear.
Variable g : guard.
Fixpoint clear_lit (t : text) (r : list seg) : bool :=
  match t with
  | [] => true
  | _ :: t' => negb (may_match false g (AL t :: absd r)) && clear_lit t' r
  end.
Fixpoint clear_all (d : list seg) : bool :=
  match d with
  | [] => true
  | SL t :: r => clear_lit t r && clear_all r
  | SF k v :: r => negb (may_match false g (AF k :: absd r)) && clear_all r
  end.
End Clear.

Section ClearSound.
Context {A : Type} (m : text -> option A) (g : guard) (Hg : guarded m g).
Hypothesis Hnil : m [] = None.

Lemma guard_fails_closed d s : conc false d s -> may_match false g d = false -> m s = None.
Proof.
  intros Hc Hm. apply Hg. destruct (prefix_sat g s) eqn:E; [|reflexivity].
  rewrite (may_match_sound false g d s Hc E) in Hm. discriminate.
Qed.

Lemma conc_flat_closed d : Forall seg_ok d -> conc false (absd d) (flat d).
Proof.
  intros H. rewrite <- (app_nil_r (flat d)). apply conc_flat; auto.
Qed.

Lemma find_last_none_lit t r :
  Forall seg_ok r -> clear_lit g t r = true -> find_last m (flat r) = None ->
  find_last m (t ++ flat r) = None.
Proof.
  intros Hr Hc Hn. induction t as [|x t IH]; [exact Hn|].
  cbn [clear_lit] in Hc. apply andb_true_iff in Hc. destruct Hc as [H1 H2].
  cbn [app find_last]. rewrite (IH H2).
  apply (guard_fails_closed (AL (x :: t) :: absd r)); [|apply negb_true_iff; exact H1].
  change (x :: t ++ flat r) with ((x :: t) ++ flat r). constructor. apply conc_flat_closed. exact Hr.
Qed.

Lemma find_last_none_fld k v r :
  forallb (mem k) v = true -> Forall seg_ok r ->
  may_match false g (AF k :: absd r) = false -> find_last m (flat r) = None ->
  find_last m (v ++ flat r) = None.
Proof.
  intros Hm Hr E Hn. induction v as [|c v IH]; [exact Hn|].
  cbn [forallb] in Hm. apply andb_true_iff in Hm. destruct Hm as [Hc Hv].
  cbn [app find_last]. rewrite (IH Hv).
  apply (guard_fails_closed (AF k :: absd r)); [|exact E].
  change (c :: v ++ flat r) with ((c :: v) ++ flat r).
  constructor; [discriminate|cbn [forallb]; rewrite Hc, Hv; reflexivity|apply conc_flat_closed; exact Hr].
Qed.

Lemma find_last_none d : Forall seg_ok d -> clear_all g d = true -> find_last m (flat d) = None.
Proof.
  intros Hd. induction Hd as [|s d Hs Hd IH]; intros Hc; [exact Hnil|].
  destruct s as [t|k v]; cbn [clear_all] in Hc; apply andb_true_iff in Hc; destruct Hc as [H1 H2];
    cbn [flat seg_text].
  - apply find_last_none_lit; auto.
  - destruct Hs as [_ Hm]. apply (find_last_none_fld k); auto. apply negb_true_iff; exact H1.
Qed.
End ClearSound.

Lemma find_last_app_some {A} (m : text -> option A) p s x :
  find_last m s = Some x -> find_last m (p ++ s) = Some x.
Proof. intros H. induction p as [|c p IH]; [exact H|]. cbn [app find_last]. rewrite IH. reflexivity. Qed.

Lemma find_last_cons {A} (m : text -> option A) c s :
  find_last m s = None -> find_last m (c :: s) = m (c :: s).
Proof. intros H. cbn [find_last]. rewrite H. reflexivity. Qed.

(* the same for [find] on a complete text: no match at all *)
Lemma find_none {A} (m : text -> option A) (g : guard) :
  guarded m g -> m [] = None -> forall d, Forall seg_ok d -> clear_all g d = true -> find m (flat d) = None.
Proof.
  intros Hg Hnil d Hd Hc.
  assert (H : find_last m (flat d) = None) by (apply (find_last_none m g Hg Hnil); assumption).
  clear Hc Hd. induction (flat d) as [|c s IH]; cbn [find].
  - rewrite Hnil. reflexivity.
  - cbn [find_last] in H. destruct (find_last m s) eqn:E; [discriminate|]. rewrite H. apply IH. reflexivity.
Qed.

(* ---- spans over fields ---- *)
Lemma span_all p v r :
  forallb p v = true -> match r with [] => True | c :: _ => p c = false end -> span p (v ++ r) = (v, r).
Proof.
  intros Hv Hr. induction v as [|c v IH]; cbn [app span].
  - destruct r as [|c r]; [reflexivity|]. cbn [span]. rewrite Hr. reflexivity.
  - cbn [forallb] in Hv. apply andb_true_iff in Hv. destruct Hv as [Hc Hv]. rewrite Hc, (IH Hv). reflexivity.
Qed.

Lemma run1_all p v r :
  v <> [] -> forallb p v = true -> match r with [] => True | c :: _ => p c = false end ->
  run1 p (v ++ r) = Some (v, r).
Proof.
  intros Hn Hv Hr. unfold run1. rewrite span_all by assumption. destruct v; [congruence|reflexivity].
Qed.

Lemma skip_spaces_nonspace c r : is_space c = false -> skip_spaces (c :: r) = c :: r.
Proof. intros H. cbn [skip_spaces]. rewrite H. reflexivity. Qed.

(* ---- no match inside a described prefix, whatever follows it (open tail) ---- *)
Section ClearOpen.
Variable g : guard.
Fixpoint clear_lit_o (t : text) (r : list seg) : bool :=
  match t with
  | [] => true
  | _ :: t' => negb (may_match true g (AL t :: absd r)) && clear_lit_o t' r
  end.
Fixpoint clear_open (d : list seg) : bool :=
  match d with
  | [] => true
  | SL t :: r => clear_lit_o t r && clear_open r
  | SF k v :: r => negb (may_match true g (AF k :: absd r)) && clear_open r
  end.
End ClearOpen.

Section ClearOpenSound.
Context {A : Type} (m : text -> option A) (g : guard) (Hg : guarded m g).

Lemma find_last_none_open_lit t r tail :
  Forall seg_ok r -> clear_lit_o g t r = true -> find_last m (flat r ++ tail) = None ->
  find_last m (t ++ flat r ++ tail) = None.
Proof.
  intros Hr Hc Hn. induction t as [|x t IH]; [exact Hn|].
  cbn [clear_lit_o] in Hc. apply andb_true_iff in Hc. destruct Hc as [H1 H2].
  cbn [app find_last]. rewrite (IH H2).
  apply (guard_fails m g Hg (AL (x :: t) :: absd r)); [|apply negb_true_iff; exact H1].
  change (x :: t ++ flat r ++ tail) with ((x :: t) ++ (flat r ++ tail)). constructor. apply conc_flat; auto.
Qed.

Lemma find_last_none_open_fld k v r tail :
  forallb (mem k) v = true -> Forall seg_ok r ->
  may_match true g (AF k :: absd r) = false -> find_last m (flat r ++ tail) = None ->
  find_last m (v ++ flat r ++ tail) = None.
Proof.
  intros Hm Hr E Hn. induction v as [|c v IH]; [exact Hn|].
  cbn [forallb] in Hm. apply andb_true_iff in Hm. destruct Hm as [Hc Hv].
  cbn [app find_last]. rewrite (IH Hv).
  apply (guard_fails m g Hg (AF k :: absd r)); [|exact E].
  change (c :: v ++ flat r ++ tail) with ((c :: v) ++ (flat r ++ tail)).
  constructor; [discriminate|cbn [forallb]; rewrite Hc, Hv; reflexivity|apply conc_flat; auto].
Qed.

Lemma find_last_none_open d tail :
  Forall seg_ok d -> clear_open g d = true -> find_last m tail = None -> find_last m (flat d ++ tail) = None.
Proof.
  intros Hd. induction Hd as [|s d Hs Hd IH]; intros Hc Hn; [exact Hn|].
  destruct s as [t|k v]; cbn [clear_open] in Hc; apply andb_true_iff in Hc; destruct Hc as [H1 H2];
    cbn [flat seg_text]; rewrite <- app_assoc.
  - apply find_last_none_open_lit; auto.
  - destruct Hs as [_ Hm]. apply (find_last_none_open_fld k); auto. apply negb_true_iff; exact H1.
Qed.
End ClearOpenSound.
