(* Sorting and layout: the per-security row order used by the bookkeeping is
   "the rows of the security, in input order, stably sorted by settlement
   date"; it does not depend on anything else in the input layout. *)
From Coq Require Import List NArith ZArith Bool Lia Sorted Permutation.
From ACB Require Import Model.Tx Model.App Proofs.EraseRi.
Import ListNotations.
Local Open Scope Z_scope.

Definition set_ri (t : tx) (k : N) : tx :=
  {| t_sec := t_sec t; t_td := t_td t; t_sd := t_sd t; t_act := t_act t;
     t_af := t_af t; t_glob := t_glob t; t_ri := k |}.

(* the read index is the position in the concatenated input *)
Fixpoint number_from (k : N) (l : list tx) : list tx :=
  match l with
  | [] => []
  | t :: r => set_ri t k :: number_from (k + 1) r
  end.
Definition number (l : list tx) : list tx := number_from 0 l.

Lemma number_from_app k l1 l2 :
  number_from k (l1 ++ l2) = number_from k l1 ++ number_from (k + N.of_nat (length l1)) l2.
Proof.
  revert k. induction l1 as [|t l1 IH]; intros k; cbn [app number_from length].
  - f_equal. lia.
  - rewrite IH. f_equal. f_equal. f_equal. lia.
Qed.

Lemma erase_set_ri t k : erase (set_ri t k) = erase t.
Proof. reflexivity. Qed.
Lemma map_erase_number k l : map erase (number_from k l) = map erase l.
Proof. revert k. induction l as [|t l IH]; intros k; cbn [number_from map]; [reflexivity|]. rewrite IH. reflexivity. Qed.

(* stable insertion sort by settlement date only *)
Fixpoint insert_sd (t : tx) (l : list tx) : list tx :=
  match l with
  | [] => [t]
  | h :: r => if t_sd t <=? t_sd h then t :: l else h :: insert_sd t r
  end.
Definition sort_sd (l : list tx) : list tx := fold_right insert_sd [] l.

(* ---- sort_txs on increasing read indices is the stable sort by date ---- *)
Lemma insert_tx_sd x L :
  Forall (fun y => (t_ri x < t_ri y)%N) L ->
  map erase (insert_tx x L) = insert_sd (erase x) (map erase L).
Proof.
  induction L as [|h L IH]; intros HF; cbn [insert_tx insert_sd map]; [reflexivity|].
  apply Forall_cons_iff in HF as [Hh HF]. cbn [erase t_sd].
  unfold tx_leb.
  destruct (t_sd x <? t_sd h) eqn:E1.
  - assert (E : t_sd x <=? t_sd h = true) by (apply Z.leb_le; apply Z.ltb_lt in E1; lia).
    rewrite E. reflexivity.
  - cbn [orb]. destruct (t_sd x =? t_sd h) eqn:E2.
    + assert (E : t_sd x <=? t_sd h = true) by (apply Z.leb_le; apply Z.eqb_eq in E2; lia).
      assert (En : N.leb (t_ri x) (t_ri h) = true) by (apply N.leb_le; lia).
      rewrite E, En. reflexivity.
    + assert (E : t_sd x <=? t_sd h = false)
        by (apply Z.leb_gt; apply Z.ltb_ge in E1; apply Z.eqb_neq in E2; lia).
      rewrite E. cbn [andb map]. rewrite (IH HF). reflexivity.
Qed.

Lemma insert_tx_ri_bound x L k :
  Forall (fun y => (k <= t_ri y)%N) L -> (k <= t_ri x)%N ->
  Forall (fun y => (k <= t_ri y)%N) (insert_tx x L).
Proof.
  induction L as [|h L IH]; intros HF Hx; cbn [insert_tx].
  - constructor; [assumption | constructor].
  - apply Forall_cons_iff in HF as [Hh HF].
    destruct (tx_leb x h); repeat (constructor; auto).
Qed.

Lemma sort_number_bound k l : Forall (fun y => (k <= t_ri y)%N) (sort_txs (number_from k l)).
Proof.
  revert k. induction l as [|t l IH]; intros k; cbn [number_from]; [constructor|].
  unfold sort_txs. cbn [fold_right]. fold (sort_txs (number_from (k + 1) l)).
  apply insert_tx_ri_bound.
  - eapply Forall_impl; [|apply IH]. intros y Hy. cbv beta in Hy. lia.
  - cbn. lia.
Qed.

Theorem sort_number_is_stable k l :
  map erase (sort_txs (number_from k l)) = sort_sd (map erase l).
Proof.
  revert k. induction l as [|t l IH]; intros k; cbn [number_from map]; [reflexivity|].
  unfold sort_txs, sort_sd. cbn [fold_right].
  fold (sort_txs (number_from (k + 1) l)). fold (sort_sd (map erase l)).
  rewrite insert_tx_sd.
  - rewrite IH. reflexivity.
  - eapply Forall_impl; [|apply (sort_number_bound (k + 1) l)].
    intros y Hy. cbv beta in Hy. cbn [set_ri t_ri]. lia.
Qed.

(* ---- the stable sort is characterised by sortedness + per-date order ---- *)
Definition sd_sorted (l : list tx) : Prop := StronglySorted (fun a b => t_sd a <= t_sd b) l.
Definition on_day (k : Z) (t : tx) : bool := t_sd t =? k.

Lemma insert_sd_sorted x L : sd_sorted L -> sd_sorted (insert_sd x L).
Proof.
  induction L as [|h L IH]; intros Hs; cbn [insert_sd].
  - constructor; constructor.
  - apply StronglySorted_inv in Hs as [Hs Hh].
    destruct (t_sd x <=? t_sd h) eqn:E.
    + apply Z.leb_le in E. constructor.
      * constructor; assumption.
      * constructor; [exact E|]. eapply Forall_impl; [|exact Hh]. intros y Hy. cbv beta in *. lia.
    + apply Z.leb_gt in E. constructor; [apply IH; assumption|].
      assert (Hin : forall y, In y (insert_sd x L) -> y = x \/ In y L).
      { clear. induction L as [|h L IH]; cbn [insert_sd]; intros y Hy.
        - destruct Hy as [->|[]]; auto.
        - destruct (t_sd x <=? t_sd h).
          + destruct Hy as [->|Hy]; auto.
          + destruct Hy as [->|Hy]; [right; left; reflexivity|].
            destruct (IH _ Hy); auto. right; right; assumption. }
      apply Forall_forall. intros y Hy. destruct (Hin _ Hy) as [->|Hy'].
      * lia.
      * rewrite Forall_forall in Hh. apply Hh. exact Hy'.
Qed.

Lemma sort_sd_sorted l : sd_sorted (sort_sd l).
Proof.
  induction l as [|t l IH]; cbn; [constructor|]. apply insert_sd_sorted. exact IH.
Qed.

Lemma insert_sd_on_day k x L :
  sd_sorted L ->
  filter (on_day k) (insert_sd x L) = if on_day k x then x :: filter (on_day k) L else filter (on_day k) L.
Proof.
  induction L as [|h L IH]; intros Hs; cbn [insert_sd filter]; [reflexivity|].
  apply StronglySorted_inv in Hs as [Hs Hh].
  destruct (t_sd x <=? t_sd h) eqn:E; cbn [filter].
  - reflexivity.
  - rewrite (IH Hs). apply Z.leb_gt in E.
    unfold on_day. destruct (t_sd h =? k) eqn:Eh; destruct (t_sd x =? k) eqn:Ex; try reflexivity.
    (* x and h on the same day k: impossible since sd x > sd h *)
    apply Z.eqb_eq in Eh. apply Z.eqb_eq in Ex. lia.
Qed.

Lemma sort_sd_on_day k l : filter (on_day k) (sort_sd l) = filter (on_day k) l.
Proof.
  induction l as [|t l IH]; cbn [sort_sd fold_right filter]; [reflexivity|].
  fold (sort_sd l). rewrite insert_sd_on_day by apply sort_sd_sorted. rewrite IH. reflexivity.
Qed.

Theorem sorted_unique l1 l2 :
  sd_sorted l1 -> sd_sorted l2 ->
  (forall k, filter (on_day k) l1 = filter (on_day k) l2) -> l1 = l2.
Proof.
  revert l2. induction l1 as [|x l1 IH]; intros l2 H1 H2 Hf.
  - destruct l2 as [|y l2]; [reflexivity|].
    specialize (Hf (t_sd y)). cbn [filter] in Hf. unfold on_day in Hf. rewrite Z.eqb_refl in Hf. discriminate.
  - destruct l2 as [|y l2].
    + specialize (Hf (t_sd x)). cbn [filter] in Hf. unfold on_day in Hf. rewrite Z.eqb_refl in Hf. discriminate.
    + apply StronglySorted_inv in H1 as [H1 Hx]. apply StronglySorted_inv in H2 as [H2 Hy].
      assert (Hxy : t_sd x = t_sd y).
      { pose proof (Hf (t_sd x)) as Fx. pose proof (Hf (t_sd y)) as Fy.
        cbn [filter] in Fx, Fy. unfold on_day in Fx, Fy. rewrite Z.eqb_refl in Fx, Fy.
        destruct (t_sd y =? t_sd x) eqn:E; [apply Z.eqb_eq in E; lia|].
        destruct (t_sd x =? t_sd y) eqn:E'; [apply Z.eqb_eq in E'; lia|].
        (* x occurs in l2 (on day sd x) hence sd y <= sd x; symmetrically *)
        assert (In x l2) as Hin2.
        { assert (In x (filter (fun t => t_sd t =? t_sd x) l2)) by (rewrite <- Fx; left; reflexivity).
          apply filter_In in H. tauto. }
        assert (In y l1) as Hin1.
        { assert (In y (filter (fun t => t_sd t =? t_sd y) l1)) by (rewrite Fy; left; reflexivity).
          apply filter_In in H. tauto. }
        rewrite Forall_forall in Hx, Hy. specialize (Hx _ Hin1). specialize (Hy _ Hin2).
        apply Z.eqb_neq in E. lia. }
      assert (x = y).
      { specialize (Hf (t_sd x)). cbn [filter] in Hf. unfold on_day in Hf.
        rewrite Z.eqb_refl in Hf. rewrite <- Hxy, Z.eqb_refl in Hf. inversion Hf; reflexivity. }
      subst y. f_equal. apply IH; try assumption.
      intros k. specialize (Hf k). cbn [filter] in Hf.
      destruct (on_day k x); [inversion Hf; reflexivity | exact Hf].
Qed.

(* two inputs with the same rows per settlement date, in the same relative
   order, have the same stable sort *)
Corollary sort_sd_layout l l' :
  (forall k, filter (on_day k) l = filter (on_day k) l') -> sort_sd l = sort_sd l'.
Proof.
  intros H. apply sorted_unique; try apply sort_sd_sorted.
  intros k. rewrite !sort_sd_on_day. apply H.
Qed.

(* ---- per security ---- *)
Lemma filter_comm {T} (p q : T -> bool) l : filter p (filter q l) = filter q (filter p l).
Proof.
  induction l as [|x l IH]; cbn [filter]; [reflexivity|].
  destruct (q x) eqn:Eq; destruct (p x) eqn:Ep; cbn [filter]; rewrite ?Eq, ?Ep, IH; reflexivity.
Qed.

Lemma filter_sorted p l : sd_sorted l -> sd_sorted (filter p l).
Proof.
  induction l as [|x l IH]; intros Hs; cbn [filter]; [constructor|].
  apply StronglySorted_inv in Hs as [Hs Hx].
  destruct (p x); [|apply IH; exact Hs]. constructor; [apply IH; exact Hs|].
  apply Forall_forall. intros y Hy. apply filter_In in Hy as [Hy _].
  rewrite Forall_forall in Hx. apply Hx. exact Hy.
Qed.

Lemma txs_of_sec_erase s l : map erase (txs_of_sec s l) = txs_of_sec s (map erase l).
Proof.
  unfold txs_of_sec. induction l as [|x l IH]; cbn [filter map]; [reflexivity|].
  cbn [erase t_sec]. destruct (N.eqb (t_sec x) s); cbn [map]; rewrite IH; reflexivity.
Qed.

Theorem sec_rows_spec s l :
  map erase (txs_of_sec s (sort_txs (number l))) = sort_sd (txs_of_sec s (map erase l)).
Proof.
  rewrite txs_of_sec_erase. unfold number. rewrite sort_number_is_stable.
  apply sorted_unique.
  - apply filter_sorted, sort_sd_sorted.
  - apply sort_sd_sorted.
  - intros k. unfold txs_of_sec. rewrite filter_comm, sort_sd_on_day, sort_sd_on_day. apply filter_comm.
Qed.
