(* The bookkeeping never looks at the read index of a row (it is only the
   tie-break of the sort): running on rows whose read indices are erased gives
   the same report with erased indices.  Any arithmetic. *)
From Coq Require Import List NArith ZArith QArith Qcanon Bool Lia.
From ACB Require Import Base.Outcome Base.QcExtra Base.Arith Model.Tx Model.Ledger Model.Sfl
     Model.DeltaList Model.App Proofs.Tactics.
Import ListNotations.
Local Open Scope Qc_scope.

Definition erase (t : tx) : tx :=
  {| t_sec := t_sec t; t_td := t_td t; t_sd := t_sd t; t_act := t_act t;
     t_af := t_af t; t_glob := t_glob t; t_ri := 0 |}.
Definition erase_d (d : delta) : delta :=
  {| d_tx := erase (d_tx d); d_pre := d_pre d; d_post := d_post d; d_gain := d_gain d; d_sfl := d_sfl d |}.

Lemma erase_idem t : erase (erase t) = erase t.
Proof. reflexivity. Qed.

Section Any.
  Variable A : arith.

  Lemma fwd_scan_erase last dflt aft adj s :
    fwd_scan A last dflt (map erase aft) adj s = fwd_scan A last dflt aft adj s.
  Proof.
    revert adj s. induction aft as [|x aft IH]; intros adj s; cbn [map fwd_scan]; [reflexivity|].
    cbn [erase t_sd t_af t_act].
    destruct (Z.ltb last (t_sd x)); [reflexivity|].
    destruct (t_act x);
      repeat (match goal with |- bind ?m _ = bind ?m _ => destruct m; cbn [bind]; try reflexivity end);
      try (destruct (Qcltb _ _); try reflexivity);
      repeat (match goal with |- bind ?m _ = bind ?m _ => destruct m; cbn [bind]; try reflexivity end);
      try (destruct (Qcltb _ _); try reflexivity);
      apply IH.
  Qed.

  Lemma bwd_scan_erase first dflt bef adj s :
    bwd_scan A first dflt (map erase bef) adj s = bwd_scan A first dflt bef adj s.
  Proof.
    revert adj s. induction bef as [|x bef IH]; intros adj s; cbn [map bwd_scan]; [reflexivity|].
    cbn [erase t_sd t_af t_act].
    destruct (Z.ltb (t_sd x) first); [reflexivity|].
    destruct (t_act x);
      repeat (match goal with |- bind ?m _ = bind ?m _ => destruct m; cbn [bind]; try reflexivity end);
      apply IH.
  Qed.

  Lemma sfl_info_erase bef t sold aft st :
    sfl_info A (map erase bef) (erase t) sold (map erase aft) st = sfl_info A bef t sold aft st.
  Proof.
    unfold sfl_info. cbn [erase t_af t_sd].
    destruct (a_sub A _ sold); cbn [bind]; try reflexivity.
    destruct (Qcltb _ _); [reflexivity|].
    destruct (a_sub A _ sold); cbn [bind]; try reflexivity.
    destruct (Qcltb _ _); [reflexivity|].
    rewrite fwd_scan_erase.
    destruct (fwd_scan A _ _ _ _ _); cbn [bind]; try reflexivity.
    destruct (negb _); [reflexivity|].
    rewrite bwd_scan_erase. reflexivity.
  Qed.

  Definition map_res {T U} (f : T -> U) (r : res T) : res U :=
    match r with Ok v => Ok (f v) | Rej e => Rej e | Panic p => Panic p end.

  Lemma gen_sfla_erase t loss ps :
    gen_sfla A (erase t) loss ps = map_res (map erase) (gen_sfla A t loss ps).
  Proof.
    induction ps as [|[af [n dn]] ps IH]; cbn [gen_sfla map_res map]; [reflexivity|].
    destruct (negb (Qceqb n 0) && negb (af_reg af)); [|exact IH].
    destruct (a_div A n dn); cbn [bind map_res]; try reflexivity.
    destruct (gez_unwrap _ _); cbn [bind map_res]; try reflexivity.
    destruct (pos_unwrap _ _); cbn [bind map_res]; try reflexivity.
    destruct (neg_mul A _ _); cbn [bind map_res]; try reflexivity.
    destruct (pos_mul A _ _); cbn [bind map_res]; try reflexivity.
    rewrite IH. destruct (gen_sfla A t loss ps); cbn [bind map_res map]; reflexivity.
  Qed.

  Lemma delta_sfl_erase bef t sold spec aft st loss :
    delta_sfl A (map erase bef) (erase t) sold spec (map erase aft) st loss
    = map_res (option_map (fun p => (fst p, map erase (snd p)))) (delta_sfl A bef t sold spec aft st loss).
  Proof.
    unfold delta_sfl. rewrite sfl_info_erase.
    destruct (sfl_info A bef t sold aft st) as [i| |]; cbn [bind map_res]; try reflexivity.
    destruct (sfl_ratio A sold i) as [m| |]; cbn [bind map_res]; try reflexivity.
    match goal with |- bind ?c _ = _ => destruct c as [calc| |]; cbn [bind map_res]; try reflexivity end.
    destruct spec as [[sv force]|].
    - match goal with |- bind ?c _ = _ => destruct c as [u| |]; cbn [bind map_res]; try reflexivity end.
      destruct (negb (Qcltb sv 0)); [reflexivity|].
      destruct (neg_div A sv loss); cbn [bind map_res]; try reflexivity.
      destruct (pos_mul A _ sold); cbn [bind map_res]; reflexivity.
    - destruct m as [r|]; [|reflexivity].
      destruct (negb (Qcltb calc 0)); [reflexivity|].
      rewrite gen_sfla_erase. destruct (gen_sfla A t _ _); cbn [bind map_res]; reflexivity.
  Qed.

  Ltac estep :=
    match goal with
    | |- bind ?m _ = map_res _ (bind ?m _) => destruct m; cbn [bind map_res]; try reflexivity
    | |- context [match s_acb ?p with Some _ => _ | None => _ end] =>
        destruct (s_acb p); cbn [bind map_res]; try reflexivity
    | |- (if ?c then _ else _) = map_res _ (if ?c then _ else _) =>
        destruct c; cbn [bind map_res]; try reflexivity
    end.

  Lemma delta_nonsell_erase t pre :
    delta_nonsell A (erase t) pre = map_res erase_d (delta_nonsell A t pre).
  Proof.
    unfold delta_nonsell. cbn [erase t_act t_af].
    destruct (t_act t) as [n price com rate crate | n price com rate crate sp | amount rate
                          | n amount | post pre_ io]; cbn [map_res]; try reflexivity;
      repeat estep.
  Qed.

  Lemma delta_for_tx_erase bef t aft st :
    delta_for_tx A (map erase bef) (erase t) (map erase aft) st
    = map_res (fun p => (erase_d (fst p), map erase (snd p))) (delta_for_tx A bef t aft st).
  Proof.
    unfold delta_for_tx. cbn [erase t_af t_act].
    destruct (sanity_check _ _); cbn [bind map_res]; try reflexivity.
    destruct (t_act t) as [n price com rate crate | n price com rate crate sp | amount rate
                          | n amount | post pre_ io] eqn:Ea.
    2: { destruct (sell_core A _ n price com rate crate) as [c| |]; cbn [bind map_res]; try reflexivity.
         destruct (sc_gain c) as [g|]; [|reflexivity].
         destruct (Qcltb g 0).
         - fold (erase t). rewrite delta_sfl_erase.
           destruct (delta_sfl A bef t n sp aft st g) as [m| |]; cbn [bind map_res]; try reflexivity.
           destruct m as [[info inj]|]; cbn [option_map fst snd].
           + destruct (a_sub A g (sf_amount info)); cbn [bind map_res]; reflexivity.
           + reflexivity.
         - destruct sp; reflexivity. }
    all: fold (erase t); rewrite delta_nonsell_erase;
      destruct (delta_nonsell A t _); cbn [bind map_res]; reflexivity.
  Qed.

  Lemma run_injected_erase bef st inj aft :
    run_injected A (map erase bef) st (map erase inj) (map erase aft)
    = let '(ds, bef', st', o) := run_injected A bef st inj aft in (map erase_d ds, map erase bef', st', o).
  Proof.
    revert bef st. induction inj as [|t inj IH]; intros bef st; cbn [map run_injected]; [reflexivity|].
    rewrite <- map_app, delta_for_tx_erase.
    destruct (delta_for_tx A bef t (inj ++ aft) st) as [[d i]| |]; cbn [map_res fst snd]; try reflexivity.
    cbn [erase t_af erase_d d_post].
    destruct (set_latest A st (t_af t) (d_post d)) as [st1| |]; try reflexivity.
    change (erase t :: map erase bef) with (map erase (t :: bef)). rewrite IH.
    destruct (run_injected A (t :: bef) st1 inj aft) as [[[ds b] s] o]. reflexivity.
  Qed.

  Lemma run_loop_erase bef st aft :
    run_loop A (map erase bef) st (map erase aft)
    = let '(ds, o) := run_loop A bef st aft in (map erase_d ds, o).
  Proof.
    revert bef st. induction aft as [|t aft IH]; intros bef st; cbn [map run_loop]; [reflexivity|].
    rewrite delta_for_tx_erase.
    destruct (delta_for_tx A bef t aft st) as [[d inj]| |]; cbn [map_res fst snd]; try reflexivity.
    cbn [erase t_af erase_d d_post].
    destruct (set_latest A st (t_af t) (d_post d)) as [st1| |]; try reflexivity.
    change (erase t :: map erase bef) with (map erase (t :: bef)). rewrite run_injected_erase.
    destruct (run_injected A (t :: bef) st1 inj aft) as [[[dsi b1] st2] o1].
    destruct o1; [reflexivity|]. rewrite IH.
    destruct (run_loop A b1 st2 aft) as [ds o]. cbn [map]. rewrite map_app. reflexivity.
  Qed.

  Theorem run_erase init txs :
    run A init (map erase txs) = let '(ds, o) := run A init txs in (map erase_d ds, o).
  Proof.
    unfold run. destruct txs as [|t txs]; [reflexivity|]. cbn [map].
    destruct (init_state A init) as [st| |]; try reflexivity.
    change (erase t :: map erase txs) with (map erase (t :: txs)).
    change (@nil tx) with (map erase []). apply run_loop_erase.
  Qed.
End Any.
