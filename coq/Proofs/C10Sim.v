(* C10: one row in two runs.  The full history and (summary ++ later rows)
   process a row from ledger states that agree on what can be observed, with
   different rows behind it; the row reports the same as long as the two
   window scans see the same (C10Scan.v). *)
From Coq Require Import List NArith ZArith QArith Qcanon Bool Lia.
From ACB Require Import Base.Outcome Base.QcExtra Base.Arith Model.Tx Model.Ledger Model.Sfl
     Model.DeltaList Model.App Model.Summary Proofs.Tactics Proofs.C15Full Proofs.C04Sum
     Proofs.RenderProps Proofs.C10Scan Proofs.C04Inv Proofs.C05NoPanic Proofs.C10Zero Proofs.AllAfter.
Import ListNotations.
Local Open Scope Qc_scope.

(* two ledger states that agree on every affiliate's shares and cost base, on
   the total and on the total as of the latest row *)
(* the registered flag of an affiliate is a function of its id (as in the
   program, where it is read off the "(R)" suffix of the name) *)
Definition srel (regof : N -> bool) (s1 s2 : pstate) : Prop :=
  ps_all s1 = ps_all s2 /\ lp s1 = lp s2 /\ (forall af, fst (obs s1 af) = fst (obs s2 af))
  /\ (forall af, goodaf regof af -> snd (obs s1 af) = snd (obs s2 af)).

Lemma srel_refl regof s : srel regof s s.
Proof. repeat split. Qed.

Lemma srel_pre regof s1 s2 af : srel regof s1 s2 -> goodaf regof af -> next_pre_status s2 af = next_pre_status s1 af.
Proof. intros (Ha & _ & Ho1 & Ho2) Hg. rewrite !next_pre_obs, Ha, (Ho1 af), (Ho2 af Hg). reflexivity. Qed.

Lemma set_latest_srel regof s1 s2 af v s1' :
  srel regof s1 s2 -> set_latest exact s1 af v = Ok s1' ->
  exists s2', set_latest exact s2 af v = Ok s2' /\ srel regof s1' s2'.
Proof.
  intros (Ha & Hl & Ho1 & Ho2) H.
  assert (E2 : exists s2', set_latest exact s2 af v = Ok s2').
  { revert H. unfold set_latest. rewrite !all_after_exact. cbn [bind]. rewrite !obs_fst, (Ho1 af), Ha.
    destruct (negb (Bool.eqb _ _)); [discriminate|]. destruct (negb (Qceqb _ _)); [discriminate|].
    intros _. eexists. reflexivity. }
  destruct E2 as [s2' E2]. exists s2'. split; [exact E2|].
  destruct (set_latest_all _ _ _ _ H) as [A1 L1]. destruct (set_latest_all _ _ _ _ E2) as [A2 L2].
  split; [|split; [|split]].
  - rewrite A1, A2. reflexivity.
  - rewrite L1, L2. reflexivity.
  - intros af2. rewrite (obs_set _ _ _ _ af2 H), (obs_set _ _ _ _ af2 E2).
    destruct (N.eqb (af_id af2) (af_id af)); [reflexivity | apply Ho1].
  - intros af2 Hg. rewrite (obs_set _ _ _ _ af2 H), (obs_set _ _ _ _ af2 E2).
    destruct (N.eqb (af_id af2) (af_id af)); [reflexivity | apply Ho2; exact Hg].
Qed.

(* ---------------------------------------------------------------- what the scans of a sale settling on [sd] see *)
Definition FwdEq (sd : Z) (aft2 aft1 : list tx) : Prop :=
  forall dflt adj s, fwd_scan exact (sd + window_days) dflt aft2 adj s
                     = fwd_scan exact (sd + window_days) dflt aft1 adj s.
Definition BwdEq (sd : Z) (bef2 bef1 : list tx) : Prop :=
  forall dflt adj s, bwd_scan exact (sd - window_days) dflt bef2 adj s
                     = bwd_scan exact (sd - window_days) dflt bef1 adj s.
Definition BwdLe (sd : Z) (bef2 bef1 : list tx) : Prop :=
  forall dflt adj s s1, bwd_scan exact (sd - window_days) dflt bef1 adj s = Ok s1 ->
    exists s2, bwd_scan exact (sd - window_days) dflt bef2 adj s = Ok s2 /\ sc_acq s2 <= sc_acq s1.

Lemma FwdEq_refl sd aft : FwdEq sd aft aft.
Proof. intros dflt adj s. reflexivity. Qed.

Lemma dflt_srel regof s1 s2 : srel regof s1 s2 -> forall af,
  match latest_for s2 af with Some s => s_sh s | None => 0 end
  = match latest_for s1 af with Some s => s_sh s | None => 0 end.
Proof. intros (_ & _ & Ho & _) af. rewrite !obs_fst, (Ho af). reflexivity. Qed.

Section Reg.
  Variable regof : N -> bool.

Lemma sfl_info_eq bef2 bef1 t2 t1 sold aft2 aft1 st2 st1 :
  srel regof st1 st2 -> t_sd t2 = t_sd t1 -> t_af t2 = t_af t1 ->
  FwdEq (t_sd t1) aft2 aft1 -> BwdEq (t_sd t1) bef2 bef1 ->
  sfl_info exact bef2 t2 sold aft2 st2 = sfl_info exact bef1 t1 sold aft1 st1.
Proof.
  intros HR Hsd Haf HF HB. pose proof (dflt_srel _ _ _ HR) as Hd. destruct HR as (Ha & Hl & Ho & _).
  unfold sfl_info. rewrite Hsd, Haf. fold (lp st2) (lp st1). rewrite <- Hl, (Hd (t_af t1)).
  cbn [a_sub exact bind].
  destruct (Qcltb (lp st1 - sold) 0); [reflexivity|]. destruct (Qcltb _ 0); [reflexivity|].
  rewrite (fwd_scan_ext exact _ _ _ _ Hd), HF.
  destruct (fwd_scan exact _ _ aft1 _ _) as [s1| |]; cbn [bind]; try reflexivity.
  destruct (negb _); [reflexivity|].
  rewrite (bwd_scan_ext exact _ _ _ _ Hd), HB. reflexivity.
Qed.

Lemma sfl_info_none bef2 bef1 t2 t1 sold aft2 aft1 st2 st1 :
  srel regof st1 st2 -> t_sd t2 = t_sd t1 -> t_af t2 = t_af t1 ->
  FwdEq (t_sd t1) aft2 aft1 -> BwdLe (t_sd t1) bef2 bef1 ->
  sfl_info exact bef1 t1 sold aft1 st1 = Ok None ->
  sfl_info exact bef2 t2 sold aft2 st2 = Ok None.
Proof.
  intros HR Hsd Haf HF HB. pose proof (dflt_srel _ _ _ HR) as Hd. destruct HR as (Ha & Hl & Ho & _).
  unfold sfl_info. rewrite Hsd, Haf. fold (lp st2) (lp st1). rewrite <- Hl, (Hd (t_af t1)).
  cbn [a_sub exact bind].
  destruct (Qcltb (lp st1 - sold) 0); [discriminate|]. destruct (Qcltb _ 0); [discriminate|].
  rewrite (fwd_scan_ext exact _ _ _ _ Hd), HF. intros H.
  bind_as H as s1 E1. cbn [bind].
  destruct (negb _); [reflexivity|].
  bind_as H as s2 E2.
  destruct (HB _ _ _ _ E2) as (s2' & E2' & Hle).
  rewrite (bwd_scan_ext exact _ _ _ _ Hd), E2'. cbn [bind].
  destruct (Qcltb_spec 0 (sc_acq s2)) as [|Hn]; [discriminate|].
  destruct (Qcltb_spec 0 (sc_acq s2')) as [Hp|]; [|reflexivity].
  exfalso. apply Hn. qc_lra.
Qed.

Lemma delta_sfl_eq bef2 bef1 t sold spec aft2 aft1 st2 st1 loss :
  srel regof st1 st2 -> FwdEq (t_sd t) aft2 aft1 -> BwdEq (t_sd t) bef2 bef1 ->
  delta_sfl exact bef2 t sold spec aft2 st2 loss = delta_sfl exact bef1 t sold spec aft1 st1 loss.
Proof.
  intros HR HF HB. unfold delta_sfl.
  rewrite (sfl_info_eq bef2 bef1 t t sold aft2 aft1 st2 st1 HR eq_refl eq_refl HF HB). reflexivity.
Qed.

(* a superficial scan of the full history: the re-run, which sees at most the
   same acquisitions, finds none or fewer, and the same shares at the end of
   the window *)
Lemma sfl_info_le bef2 bef1 t2 t1 sold aft2 aft1 st2 st1 s1 :
  srel regof st1 st2 -> t_sd t2 = t_sd t1 -> t_af t2 = t_af t1 ->
  FwdEq (t_sd t1) aft2 aft1 -> BwdLe (t_sd t1) bef2 bef1 ->
  sfl_info exact bef1 t1 sold aft1 st1 = Ok (Some s1) ->
  sfl_info exact bef2 t2 sold aft2 st2 = Ok None \/
  exists s2, sfl_info exact bef2 t2 sold aft2 st2 = Ok (Some s2)
             /\ sc_eop s2 = sc_eop s1 /\ sc_acq s2 <= sc_acq s1.
Proof.
  intros HR Hsd Haf HF HB. pose proof (dflt_srel _ _ _ HR) as Hd. destruct HR as (Ha & Hl & Ho & _).
  unfold sfl_info. rewrite Hsd, Haf. fold (lp st2) (lp st1). rewrite <- Hl, (Hd (t_af t1)).
  cbn [a_sub exact bind].
  destruct (Qcltb (lp st1 - sold) 0); [discriminate|]. destruct (Qcltb _ 0); [discriminate|].
  rewrite (fwd_scan_ext exact _ _ _ _ Hd), HF. intros H.
  bind_as H as sf E1. cbn [bind].
  destruct (negb _); [discriminate|].
  bind_as H as sb E2.
  destruct (HB _ _ _ _ E2) as (s2' & E2' & Hle).
  rewrite (bwd_scan_ext exact _ _ _ _ Hd), E2'. cbn [bind].
  destruct (Qcltb_spec 0 (sc_acq sb)) as [_|]; [|discriminate]. inversion H; subst s1. clear H.
  destruct (Qcltb 0 (sc_acq s2')); [right | left; reflexivity].
  exists s2'. split; [reflexivity|]. split; [|exact Hle].
  rewrite (C05NoPanic.bwd_scan_eop _ _ _ _ _ _ E2'), (C05NoPanic.bwd_scan_eop _ _ _ _ _ _ E2). reflexivity.
Qed.

(* no superficial loss in the full history (no cell on the row): none in the
   re-run, which sees at most the same acquisitions.  Either the scans of the
   full history found none, or (since the fix "treat a superficial loss that
   rounds to zero effective cents as no superficial loss") the denied amount
   rounded to zero effective cents - then the re-run's, at most as large, does
   too (Proofs/C10Zero.v). *)
Lemma delta_sfl_none bef2 bef1 t sold aft2 aft1 st2 st1 loss :
  srel regof st1 st2 -> FwdEq (t_sd t) aft2 aft1 -> BwdLe (t_sd t) bef2 bef1 ->
  st_ok st1 -> 0 < sold -> loss < 0 ->
  delta_sfl exact bef1 t sold None aft1 st1 loss = Ok None ->
  delta_sfl exact bef2 t sold None aft2 st2 loss = Ok None.
Proof.
  intros HR HF HB Hok Hsold Hloss H.
  destruct (sfl_info exact bef1 t sold aft1 st1) as [[s1|]| |] eqn:Ei.
  - assert (Hd2 : forall a, 0 <= C05NoPanic.dflt_of st2 a).
    { intros a. unfold C05NoPanic.dflt_of. rewrite (dflt_srel _ _ _ HR a). apply (C05NoPanic.dflt_nonneg st1 a Hok). }
    destruct (sfl_info_le bef2 bef1 t t sold aft2 aft1 st2 st1 s1 HR eq_refl eq_refl HF HB Ei)
      as [E2|(s2 & E2 & Heop & Hacq)].
    + unfold delta_sfl. rewrite E2. reflexivity.
    + exact (delta_sfl_zero_rerun bef1 bef2 t sold aft1 aft2 st1 st2 loss s1 s2 Hd2 Hsold Hloss Ei H E2 Heop Hacq).
  - unfold delta_sfl.
    rewrite (sfl_info_none bef2 bef1 t t sold aft2 aft1 st2 st1 HR eq_refl eq_refl HF HB Ei).
    reflexivity.
  - unfold delta_sfl in H. rewrite Ei in H. discriminate H.
  - unfold delta_sfl in H. rewrite Ei in H. discriminate H.
Qed.

(* a cell with a non-zero value always yields a superficial loss *)
Lemma delta_sfl_spec_some bef t sold sv force aft st loss r :
  sv < 0 -> delta_sfl exact bef t sold (Some (sv, force)) aft st loss = Ok r -> r <> None.
Proof.
  intros Hsv H. unfold delta_sfl in H.
  bind_as H as i Ei. bind_as H as m Em. bind_as H as calc Ec. bind_as H as u Eu.
  apply Qcltb_true in Hsv. rewrite Hsv in H. cbn [negb] in H.
  bind_as H as q Eq. bind_as H as n En. inversion H. discriminate.
Qed.

Lemma Qcdiv_neg_neg a b : a < 0 -> b < 0 -> 0 < a / b.
Proof.
  intros Ha Hb. assert (Hb0 : b <> 0) by (intros E; rewrite E in Hb; qc_lra).
  assert (E : a / b = (- a) / (- b)).
  { field. split; [|exact Hb0]. intros E. apply Hb0. qc_lra. }
  rewrite E. apply Qcdiv_pos; qc_lra.
Qed.

Definition force_of (sp : option (Qc * bool)) : bool := match sp with Some (_, f) => f | None => false end.

(* the re-emitted sale: its cell holds the value the full history computed
   (or was given); the re-run accepts it, denies the same amount and
   generates no adjustment rows *)
Lemma delta_sfl_kept bef2 bef1 t2 t1 sold spec1 aft2 aft1 st2 st1 loss info inj :
  srel regof st1 st2 -> t_sd t2 = t_sd t1 -> t_af t2 = t_af t1 ->
  FwdEq (t_sd t1) aft2 aft1 -> BwdEq (t_sd t1) bef2 bef1 ->
  loss < 0 -> 0 < sold ->
  delta_sfl exact bef1 t1 sold spec1 aft1 st1 loss = Ok (Some (info, inj)) ->
  exists info',
    delta_sfl exact bef2 t2 sold (Some (sf_amount info, force_of spec1)) aft2 st2 loss = Ok (Some (info', []))
    /\ sf_amount info' = sf_amount info.
Proof.
  intros HR Hsd Haf HF HB Hloss Hsold H. unfold delta_sfl in *.
  rewrite (sfl_info_eq bef2 bef1 t2 t1 sold aft2 aft1 st2 st1 HR Hsd Haf HF HB).
  bind_as H as i Ei. cbn [bind]. bind_as H as m Em. cbn [bind]. bind_as H as calc Ec. cbn [bind].
  destruct spec1 as [[sv force]|]; cbn [force_of].
  - bind_as H as u Eu. destruct (Qcltb sv 0) eqn:Esv; cbn [negb] in H; [|discriminate].
    bind_as H as q Eq. bind_as H as n En. inversion H; subst info inj. cbn [sf_amount].
    rewrite Eu. cbn [bind]. rewrite Esv. cbn [negb]. rewrite Eq. cbn [bind]. rewrite En. cbn [bind].
    eexists. split; reflexivity.
  - destruct m as [r|]; [|discriminate].
    destruct (Qcltb_spec calc 0) as [Hc|]; cbn [negb] in H; [|discriminate].
    bind_as H as txs Etx. inversion H; subst info inj. cbn [sf_amount].
    cbn [a_sub exact bind].
    assert (E0 : Qcltb (Qcfrac 1 1000) (Qcabs (calc - calc)) = false).
    { apply Qcltb_false. replace (calc - calc) with 0 by ring. vm_compute. discriminate. }
    rewrite E0. cbn [bind]. apply Qcltb_true in Hc as Hc'. rewrite Hc'. cbn [negb].
    pose proof (Qcdiv_neg_neg _ _ Hc Hloss) as Hq.
    assert (Hl0 : loss <> 0) by (intros E; rewrite E in Hloss; qc_lra).
    unfold neg_div. cbn [a_div exact]. destruct (Qceqb_spec loss 0) as [|_]; [contradiction|].
    cbn [bind]. unfold pos_unwrap. apply Qcltb_true in Hq as Hq'. rewrite Hq'. cbn [bind].
    unfold pos_mul. cbn [a_mul exact bind]. unfold pos_unwrap.
    assert (Hn : Qcltb 0 (calc / loss * sold) = true) by (apply Qcltb_true; apply Qcmul_pos; assumption).
    rewrite Hn. eexists. split; reflexivity.
Qed.

(* ---------------------------------------------------------------- one row, the same in both runs *)
(* a superficial-loss cell supplied with the row is not zero *)
Definition spec_nz (t : tx) : Prop :=
  match t_act t with Sell _ _ _ _ _ (Some (sv, _)) => sv < 0 | _ => True end.
Definition loss_row (d : delta) : Prop :=
  is_sell (t_act (d_tx d)) = true /\ exists g, d_gain d = Some g /\ g < 0.

Definition sell_pos (t : tx) : Prop :=
  match t_act t with Sell sh _ _ _ _ _ => 0 < sh | _ => True end.

Lemma delta_for_tx_sim bef2 bef1 t aft2 aft1 st2 st1 d inj :
  srel regof st1 st2 -> goodaf regof (t_af t) -> spec_nz t -> st_ok st1 -> sell_pos t ->
  delta_for_tx exact bef1 t aft1 st1 = Ok (d, inj) ->
  FwdEq (t_sd t) aft2 aft1 ->
  (d_sfl d <> None -> BwdEq (t_sd t) bef2 bef1) ->
  (d_sfl d = None -> loss_row d -> BwdLe (t_sd t) bef2 bef1) ->
  delta_for_tx exact bef2 t aft2 st2 = Ok (d, inj).
Proof.
  intros HR Hga Hnz Hok Hsp H HF HBe HBl. unfold delta_for_tx in *. rewrite (srel_pre _ _ _ _ HR Hga).
  set (pre := next_pre_status st1 (t_af t)) in *.
  destruct (sanity_check pre (t_af t)) as [[]| |]; cbn [bind] in *; try discriminate.
  destruct (t_act t) as [sh aps com rate crate|sh aps com rate crate spec|aps rate|sh aps|post pre_ io] eqn:Ea;
    try exact H.
  destruct (sell_core exact pre sh aps com rate crate) as [c| |]; cbn [bind] in *; try discriminate.
  destruct (sc_gain c) as [g|] eqn:Eg; [|exact H].
  destruct (Qcltb_spec g 0) as [Hg|Hg]; [|exact H].
  bind_as H as m Em. destruct m as [[info inj']|].
  - bind_as H as g' Eg'. inversion H; subst d inj. clear H.
    rewrite (delta_sfl_eq bef2 bef1 t sh spec aft2 aft1 st2 st1 g HR HF), Em.
    + cbn [bind]. rewrite Eg'. reflexivity.
    + apply HBe. cbn [mk_delta d_sfl]. discriminate.
  - inversion H; subst d inj. clear H.
    destruct spec as [[sv force]|].
    + exfalso. unfold spec_nz in Hnz. rewrite Ea in Hnz.
      exact (delta_sfl_spec_some _ _ _ _ _ _ _ _ _ Hnz Em eq_refl).
    + unfold sell_pos in Hsp. rewrite Ea in Hsp.
      rewrite (delta_sfl_none bef2 bef1 t sh aft2 aft1 st2 st1 g HR HF); [reflexivity| |exact Hok|exact Hsp|exact Hg|exact Em].
      apply HBl; [reflexivity|]. split; cbn [mk_delta d_tx d_gain]; [rewrite Ea; reflexivity|].
      exists g. split; [reflexivity | exact Hg].
Qed.

(* rows that are not sales do not look around *)
Lemma delta_for_tx_nonsell bef2 bef1 t aft2 aft1 st2 st1 :
  srel regof st1 st2 -> goodaf regof (t_af t) -> is_sell (t_act t) = false ->
  delta_for_tx exact bef2 t aft2 st2 = delta_for_tx exact bef1 t aft1 st1.
Proof.
  intros HR Hga Hs. unfold delta_for_tx. rewrite (srel_pre _ _ _ _ HR Hga).
  destruct (t_act t); try reflexivity. discriminate.
Qed.

(* ---------------------------------------------------------------- the re-emitted sale *)
Lemma delta_for_tx_kept bef2 bef1 t1 aft2 aft1 st2 st1 d inj info sh aps com rate crate spec1 :
  srel regof st1 st2 -> goodaf regof (t_af t1) ->
  t_act t1 = Sell sh aps com rate crate spec1 -> 0 < sh ->
  delta_for_tx exact bef1 t1 aft1 st1 = Ok (d, inj) -> d_sfl d = Some info ->
  FwdEq (t_sd t1) aft2 aft1 -> BwdEq (t_sd t1) bef2 bef1 ->
  exists info',
    delta_for_tx exact bef2 (respec t1 (Some (sf_amount info, force_of spec1))) aft2 st2
    = Ok ({| d_tx := respec t1 (Some (sf_amount info, force_of spec1)); d_pre := d_pre d; d_post := d_post d;
             d_gain := d_gain d; d_sfl := Some info' |}, [])
    /\ sf_amount info' = sf_amount info.
Proof.
  intros HR Hga Ea Hsh H Hsfl HF HB. unfold delta_for_tx in *.
  rewrite respec_af. rewrite (srel_pre _ _ _ _ HR Hga).
  set (pre := next_pre_status st1 (t_af t1)) in *.
  destruct (sanity_check pre (t_af t1)) as [[]| |]; cbn [bind] in *; try discriminate.
  set (t2 := respec t1 (Some (sf_amount info, force_of spec1))).
  assert (Ea2 : t_act t2 = Sell sh aps com rate crate (Some (sf_amount info, force_of spec1))).
  { unfold t2, respec. rewrite Ea. reflexivity. }
  rewrite Ea in H. rewrite Ea2.
  destruct (sell_core exact pre sh aps com rate crate) as [c| |]; cbn [bind] in *; try discriminate.
  destruct (sc_gain c) as [g|] eqn:Eg.
  2: { inversion H; subst d. discriminate. }
  destruct (Qcltb_spec g 0) as [Hg|Hg].
  2: { destruct spec1; [discriminate|]. inversion H; subst d. discriminate. }
  bind_as H as m Em. destruct m as [[info0 inj']|].
  2: { inversion H; subst d. discriminate. }
  bind_as H as g' Eg'. inversion H; subst d inj. clear H. cbn [mk_delta d_sfl] in Hsfl.
  inversion Hsfl; subst info0. clear Hsfl.
  destruct (delta_sfl_kept bef2 bef1 t2 t1 sh spec1 aft2 aft1 st2 st1 g info inj' HR
              (respec_sd _ _) (respec_af _ _) HF HB Hg Hsh Em) as (info' & E' & Ham).
  rewrite E'. cbn [bind]. rewrite Ham, Eg'. exists info'. split; [reflexivity | exact Ham].
Qed.
End Reg.
