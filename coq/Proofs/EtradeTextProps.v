(* C19, text layer: proofs about Model/EtradeText.v and Spec/EtradeLayout.v. *)
From Coq Require Import String Ascii.
From Coq Require Import List NArith ZArith QArith Qcanon Bool Lia.
From ACB Require Import Base.Outcome Base.QcExtra Base.Fit Base.Arith Model.QText Model.Etrade
  Model.EtradeText Spec.EtradeLayoutChunks Spec.EtradeLayout.
Import ListNotations.
Local Open Scope N_scope.

(* ====================================================================
   1. Totality: the text layer can panic (rust_decimal `+` overflow in the
      fee sum of parse_eso_entries), and only there.                      *)

Definition t (s : string) : text := txt s.

Definition overflow_grant (num : string) : grant_lay :=
  {| gl_num := t num; gl_fmv := t "90.25"; gl_shares := t "100"; gl_sale := t "120.00";
     gl_fee := t "79228162514264337593543950335" |}.
Definition overflow_witness : text :=
  render_eso true {| ol_sym := t "FOO"; ol_date := (t "02", t "21", t "2024"); ol_type := t "Same-Day Sale";
                     ol_sold := t "35"; ol_grants := [overflow_grant "1234"; overflow_grant "1235"] |}.

Lemma text_never_panics_refuted : parse_text overflow_witness = Panic PanicOverflow.
Proof. vm_compute. reflexivity. Qed.

Lemma doc_never_panics_refuted : exists s, parse_doc s = Panic PanicOverflow.
Proof. exists overflow_witness. vm_compute. reflexivity. Qed.

(* ---- no other panic ---- *)
Definition no_panic {A} (r : res A) : Prop := forall p, r <> Panic p.

Lemma np_ok {A} (a : A) : no_panic (Ok a).
Proof. intros p H; discriminate. Qed.
Lemma np_rej {A} r : no_panic (@Rej A r).
Proof. intros p H; discriminate. Qed.
Lemma np_rejn {A} n : no_panic (@rejn A n).
Proof. apply np_rej. Qed.
Lemma np_bind {A B} (m : res A) (f : A -> res B) :
  no_panic m -> (forall a, m = Ok a -> no_panic (f a)) -> no_panic (bind m f).
Proof.
  intros Hm Hf. destruct m as [a|r|p]; cbn.
  - apply Hf; reflexivity.
  - apply np_rej.
  - exfalso; exact (Hm p eq_refl).
Qed.
Lemma np_get1 {A} (m : text -> option A) s : no_panic (get1 m s).
Proof. unfold get1. destruct (find m s); [apply np_ok | apply np_rejn]. Qed.
Lemma np_parse_large x : no_panic (parse_large x).
Proof. unfold parse_large. destruct (plain_num_ok _); [apply np_ok | apply np_rejn]. Qed.
Lemma np_get1_dec m s : no_panic (get1_dec m s).
Proof.
  unfold get1_dec. apply np_bind; [apply np_get1|]. intros [x r] _. apply np_parse_large.
Qed.
Lemma np_get1_opt_dec m s : no_panic (get1_opt_dec m s).
Proof.
  unfold get1_opt_dec. destruct (find m s) as [[x r]|]; [|apply np_ok].
  apply np_bind; [apply np_parse_large|]. intros; apply np_ok.
Qed.
Lemma np_parse_mdy d : no_panic (parse_mdy d).
Proof.
  unfold parse_mdy. destruct d as [[m dd] y].
  repeat match goal with |- no_panic (if ?c then _ else _) => destruct c end;
    first [apply np_ok | apply np_rejn].
Qed.
Lemma np_parse_common s : no_panic (parse_common s).
Proof.
  unfold parse_common. repeat (apply np_bind; [apply np_get1|intros ? _]). apply np_get1.
Qed.

Ltac np_step :=
  first [ apply np_ok | apply np_rejn | apply np_get1 | apply np_get1_dec | apply np_get1_opt_dec
        | apply np_parse_mdy | apply np_parse_common | apply np_parse_large ].
Ltac np_binds :=
  repeat (apply np_bind; [np_step | let a := fresh "a" in intros a _; try destruct a as [? ?]]).

Lemma parse_rsu_no_panic s : no_panic (parse_rsu s).
Proof. unfold parse_rsu. np_binds. np_step. Qed.
Lemma parse_espp_no_panic s : no_panic (parse_espp s).
Proof. unfold parse_espp. np_binds. np_step. Qed.

(* ====================================================================
   2. The per-grant zip of parse_eso_data stops at the shortest row list. *)
Definition min6 (a b c d e f : nat) : nat :=
  Nat.min a (Nat.min b (Nat.min c (Nat.min d (Nat.min e f)))).

Lemma zip_grants_length idx : forall nums fmvs shares sales fees,
  length (zip_grants idx nums fmvs shares sales fees)
  = min6 (length idx) (length nums) (length fmvs) (length shares) (length sales) (length fees).
Proof.
  unfold min6. induction idx as [|i idx IH]; intros nums fmvs shares sales fees; [reflexivity|].
  destruct nums as [|n nums]; [reflexivity|].
  destruct fmvs as [|f fmvs]; [reflexivity|].
  destruct shares as [|s shares]; [reflexivity|].
  destruct sales as [|p sales]; [reflexivity|].
  destruct fees as [|e fees]; [cbn [zip_grants length]; lia|].
  cbn [zip_grants length]. rewrite IH. lia.
Qed.

Definition dg : eso_grant := {| g_num := 0; g_fmv := 0%Qc; g_shares := 0%Qc; g_sale := 0%Qc; g_fee := 0%Qc |}.

(* the k-th grant is made of the k-th entries of the five value lists: a
   missing row of an earlier grant shifts the values of the later ones *)
Lemma zip_grants_nth idx : forall nums fmvs shares sales fees k,
  (k < length (zip_grants idx nums fmvs shares sales fees))%nat ->
  nth k (zip_grants idx nums fmvs shares sales fees) dg
  = {| g_num := nth k nums 0; g_fmv := nth k fmvs 0%Qc; g_shares := nth k shares 0%Qc;
       g_sale := nth k sales 0%Qc; g_fee := nth k fees 0%Qc |}.
Proof.
  induction idx as [|i idx IH]; intros nums fmvs shares sales fees k Hk; [cbn in Hk; lia|].
  destruct nums as [|n nums]; [cbn in Hk; lia|].
  destruct fmvs as [|f fmvs]; [cbn in Hk; lia|].
  destruct shares as [|s shares]; [cbn in Hk; lia|].
  destruct sales as [|p sales]; [cbn in Hk; lia|].
  destruct fees as [|e fees]; [cbn in Hk; lia|].
  destruct k as [|k]; [reflexivity|].
  cbn [zip_grants nth]. apply IH. cbn [zip_grants length] in Hk. lia.
Qed.

(* a grant whose fee row is missing is silently dropped: the document names
   two grants (two "Grant Number" rows, 100 and 200 exercised shares), the
   parse succeeds with ONE benefit *)
Definition dropped_grant_witness : text := t "
Account Number 11223344
Tax Payment Method Sell-to-cover
Company Name (Symbol) FOO Inc.
(FOO)

Exercise Type: Same-Day Sale Registration

Shares Sold 35

Exercise Details

Grant 1
Grant Number 1234
Exercise Market Value $1,000.00
Shares Exercised 100
Sale Price $120.00
Comission/Fee $10.00

Grant 2
Grant Number 1235
Exercise Market Value $90.25
Shares Exercised 200
Sale Price $120.00

Exercise Date:  02/21/2024

Provided by FOO Inc.
John Doe
Employee ID: 1111
STOCK PLAN EXERCISE CONFIRMATION
".

Definition w_note_1234 : text := t "Option Grant 1234".
Definition grant_number_rows (s : text) : nat :=
  match eso_split s with
  | Some (_, body) => length (all_matches (m_row k_grant_number vp_digits) body)
  | None => O
  end.

Lemma eso_grant_dropped :
  grant_number_rows dropped_grant_witness = 2%nat /\
  exists b, parse_text dropped_grant_witness = Ok (Benefits [b])
            /\ tb_note b = t "Option Grant 1234" /\ Qceqb (tb_shares b) (QcZ 100) = true
            /\ match tb_stc_fee b with Some f => Qceqb f (QcZ 10) | None => false end = true.
Proof.
  split; [vm_compute; reflexivity|].
  eexists. split; [vm_compute; reflexivity|].
  split; [vm_compute; reflexivity|]. split; vm_compute; reflexivity.
Qed.
