(* C19, text layer: proofs about Model/EtradeText.v and Spec/EtradeLayout.v. *)
From Coq Require Import String Ascii.
From Coq Require Import List NArith ZArith QArith Qcanon Bool Lia.
From ACB Require Import Base.Outcome Base.QcExtra Base.Fit Base.Arith Model.QText Model.Etrade
  Model.EtradeText Spec.EtradeLayoutChunks Spec.EtradeLayout.
Import ListNotations.
Local Open Scope N_scope.

(* ====================================================================
   1. Totality: the text layer can panic (rust_decimal `+` overflow in the
      fee sum of parse_eso_entries), and only there.                      *)

Definition t (s : string) : text := txt s.

Definition overflow_grant (num : string) : grant_lay :=
  {| gl_num := t num; gl_fmv := t "90.25"; gl_shares := t "100"; gl_sale := t "120.00";
     gl_fee := t "79228162514264337593543950335" |}.
Definition overflow_witness : text :=
  render_eso true {| ol_sym := t "FOO"; ol_date := (t "02", t "21", t "2024"); ol_type := t "Same-Day Sale";
                     ol_sold := t "35"; ol_grants := [overflow_grant "1234"; overflow_grant "1235"] |}.

Lemma text_never_panics_refuted : parse_text overflow_witness = Panic PanicOverflow.
Proof. vm_compute. reflexivity. Qed.

Lemma doc_never_panics_refuted : exists s, parse_doc s = Panic PanicOverflow.
Proof. exists overflow_witness. vm_compute. reflexivity. Qed.

(* ---- no other panic ---- *)
Definition no_panic {A} (r : res A) : Prop := forall p, r <> Panic p.

Lemma np_ok {A} (a : A) : no_panic (Ok a).
Proof. intros p H; discriminate. Qed.
Lemma np_rej {A} r : no_panic (@Rej A r).
Proof. intros p H; discriminate. Qed.
Lemma np_rejn {A} n : no_panic (@rejn A n).
Proof. apply np_rej. Qed.
Lemma np_bind {A B} (m : res A) (f : A -> res B) :
  no_panic m -> (forall a, m = Ok a -> no_panic (f a)) -> no_panic (bind m f).
Proof.
  intros Hm Hf. destruct m as [a|r|p]; cbn.
  - apply Hf; reflexivity.
  - apply np_rej.
  - exfalso; exact (Hm p eq_refl).
Qed.
Lemma np_get1 {A} (m : text -> option A) s : no_panic (get1 m s).
Proof. unfold get1. destruct (find m s); [apply np_ok | apply np_rejn]. Qed.
Lemma np_parse_large x : no_panic (parse_large x).
Proof. unfold parse_large. destruct (plain_num_ok _); [apply np_ok | apply np_rejn]. Qed.
Lemma np_get1_dec m s : no_panic (get1_dec m s).
Proof.
  unfold get1_dec. apply np_bind; [apply np_get1|]. intros [x r] _. apply np_parse_large.
Qed.
Lemma np_get1_opt_dec m s : no_panic (get1_opt_dec m s).
Proof.
  unfold get1_opt_dec. destruct (find m s) as [[x r]|]; [|apply np_ok].
  apply np_bind; [apply np_parse_large|]. intros; apply np_ok.
Qed.
Lemma np_parse_mdy d : no_panic (parse_mdy d).
Proof.
  unfold parse_mdy. destruct d as [[m dd] y].
  repeat match goal with |- no_panic (if ?c then _ else _) => destruct c end;
    first [apply np_ok | apply np_rejn].
Qed.
Lemma np_parse_common s : no_panic (parse_common s).
Proof.
  unfold parse_common. repeat (apply np_bind; [apply np_get1|intros ? _]). apply np_get1.
Qed.

Ltac np_step :=
  first [ apply np_ok | apply np_rejn | apply np_get1 | apply np_get1_dec | apply np_get1_opt_dec
        | apply np_parse_mdy | apply np_parse_common | apply np_parse_large ].
Ltac np_binds :=
  repeat (apply np_bind; [np_step | let a := fresh "a" in intros a _; try destruct a as [? ?]]).

Lemma parse_rsu_no_panic s : no_panic (parse_rsu s).
Proof. unfold parse_rsu. np_binds. np_step. Qed.
Lemma parse_espp_no_panic s : no_panic (parse_espp s).
Proof. unfold parse_espp. np_binds. np_step. Qed.

(* ====================================================================
   2. The per-grant zip of parse_eso_data stops at the shortest row list. *)
Definition min6 (a b c d e f : nat) : nat :=
  Nat.min a (Nat.min b (Nat.min c (Nat.min d (Nat.min e f)))).

Lemma zip_grants_length idx : forall nums fmvs shares sales fees,
  length (zip_grants idx nums fmvs shares sales fees)
  = min6 (length idx) (length nums) (length fmvs) (length shares) (length sales) (length fees).
Proof.
  unfold min6. induction idx as [|i idx IH]; intros nums fmvs shares sales fees; [reflexivity|].
  destruct nums as [|n nums]; [reflexivity|].
  destruct fmvs as [|f fmvs]; [reflexivity|].
  destruct shares as [|s shares]; [reflexivity|].
  destruct sales as [|p sales]; [reflexivity|].
  destruct fees as [|e fees]; [cbn [zip_grants length]; lia|].
  cbn [zip_grants length]. rewrite IH. lia.
Qed.

Definition dg : eso_grant := {| g_num := 0; g_fmv := 0%Qc; g_shares := 0%Qc; g_sale := 0%Qc; g_fee := 0%Qc |}.

(* the k-th grant is made of the k-th entries of the five value lists: a
   missing row of an earlier grant shifts the values of the later ones *)
Lemma zip_grants_nth idx : forall nums fmvs shares sales fees k,
  (k < length (zip_grants idx nums fmvs shares sales fees))%nat ->
  nth k (zip_grants idx nums fmvs shares sales fees) dg
  = {| g_num := nth k nums 0; g_fmv := nth k fmvs 0%Qc; g_shares := nth k shares 0%Qc;
       g_sale := nth k sales 0%Qc; g_fee := nth k fees 0%Qc |}.
Proof.
  induction idx as [|i idx IH]; intros nums fmvs shares sales fees k Hk; [cbn in Hk; lia|].
  destruct nums as [|n nums]; [cbn in Hk; lia|].
  destruct fmvs as [|f fmvs]; [cbn in Hk; lia|].
  destruct shares as [|s shares]; [cbn in Hk; lia|].
  destruct sales as [|p sales]; [cbn in Hk; lia|].
  destruct fees as [|e fees]; [cbn in Hk; lia|].
  destruct k as [|k]; [reflexivity|].
  cbn [zip_grants nth]. apply IH. cbn [zip_grants length] in Hk. lia.
Qed.

(* the regression document of the fixed defect c454485: two grants named, the
   second without its fee row -- now a diagnostic *)
Definition dropped_grant_witness : text := t "
Account Number 11223344
Tax Payment Method Sell-to-cover
Company Name (Symbol) FOO Inc.
(FOO)

Exercise Type: Same-Day Sale Registration

Shares Sold 35

Exercise Details

Grant 1
Grant Number 1234
Exercise Market Value $1,000.00
Shares Exercised 100
Sale Price $120.00
Comission/Fee $10.00

Grant 2
Grant Number 1235
Exercise Market Value $90.25
Shares Exercised 200
Sale Price $120.00

Exercise Date:  02/21/2024

Provided by FOO Inc.
John Doe
Employee ID: 1111
STOCK PLAN EXERCISE CONFIRMATION
".

Definition w_note_1234 : text := t "Option Grant 1234".
Definition grant_number_rows (s : text) : nat :=
  match eso_split s with
  | Some (_, body) => length (all_matches (m_row k_grant_number vp_digits) body)
  | None => O
  end.

Lemma eso_incomplete_rejected :
  grant_number_rows dropped_grant_witness = 2%nat /\
  parse_text dropped_grant_witness = Rej (RejOther TErr.eso_incomplete).
Proof. split; vm_compute; reflexivity. Qed.

(* ====================================================================
   3. parse_eso: either an error or exactly one benefit per `Grant <n>` marker,
      the k-th built from the k-th row of each kind.                        *)
Lemma rows_complete_spec n a b c d e :
  rows_complete n a b c d e = true -> a = n /\ b = n /\ c = n /\ d = n /\ e = n.
Proof.
  unfold rows_complete. intros H. repeat (apply andb_true_iff in H; destruct H as [H ?]).
  repeat split; apply Nat.eqb_eq; assumption.
Qed.

Definition grant_markers (body : text) : nat := length (all_matches m_grant_idx body).

Theorem eso_data_complete s e : parse_eso_data s = Ok e ->
  exists header body nums fmvs shares sales fees,
    eso_split s = Some (header, body) /\
    search_for_rows k_grant_number vp_digits body = Ok nums /\
    search_for_dec_rows k_exercise_mv true body = Ok fmvs /\
    search_for_dec_rows k_shares_exercised false body = Ok shares /\
    search_for_dec_rows k_sale_price true body = Ok sales /\
    search_for_dec_rows k_comission_fee true body = Ok fees /\
    length nums = grant_markers body /\ length fmvs = grant_markers body /\
    length shares = grant_markers body /\ length sales = grant_markers body /\
    length fees = grant_markers body /\ length (e_grants e) = grant_markers body /\
    forall k, (k < grant_markers body)%nat ->
      nth k (e_grants e) dg
      = {| g_num := u64_or_zero (nth k nums []); g_fmv := nth k fmvs 0%Qc; g_shares := nth k shares 0%Qc;
           g_sale := nth k sales 0%Qc; g_fee := nth k fees 0%Qc |}.
Proof.
  unfold parse_eso_data. destruct (eso_split s) as [[header body]|]; [|discriminate].
  destruct (search_for_rows k_grant_number vp_digits body) as [nums| |] eqn:E1; cbn [bind]; try discriminate.
  destruct (search_for_dec_rows k_exercise_mv true body) as [fmvs| |] eqn:E2; cbn [bind]; try discriminate.
  destruct (search_for_dec_rows k_shares_exercised false body) as [shares| |] eqn:E3; cbn [bind]; try discriminate.
  destruct (search_for_dec_rows k_sale_price true body) as [sales| |] eqn:E4; cbn [bind]; try discriminate.
  destruct (search_for_dec_rows k_comission_fee true body) as [fees| |] eqn:E5; cbn [bind]; try discriminate.
  destruct (rows_complete _ _ _ _ _ _) eqn:RC; cbn [negb]; [|discriminate].
  apply rows_complete_spec in RC. destruct RC as (L1 & L2 & L3 & L4 & L5).
  destruct (parse_common s) as [sym| |]; cbn [bind]; try discriminate.
  destruct (get1 m_exercise_type s) as [[ty r1]| |]; cbn [bind]; try discriminate.
  destruct (get1 m_exercise_date s) as [[d r2]| |]; cbn [bind]; try discriminate.
  destruct (parse_mdy d) as [date| |]; cbn [bind]; try discriminate.
  destruct (get1_dec m_eso_shares_sold header) as [sold| |]; cbn [bind]; try discriminate.
  intros H. inversion H; subst e; clear H. cbn [e_grants].
  exists header, body, nums, fmvs, shares, sales, fees. unfold grant_markers.
  assert (LZ : length (zip_grants (all_matches m_grant_idx body) (map u64_or_zero nums) fmvs shares sales fees)
               = length (all_matches m_grant_idx body)).
  { rewrite zip_grants_length, map_length, L1, L2, L3, L4, L5. unfold min6. lia. }
  repeat split; auto.
  intros k Hk. rewrite zip_grants_nth by (rewrite LZ; exact Hk).
  change 0 with (u64_or_zero []) at 1. rewrite map_nth. reflexivity.
Qed.

Definition db : tbenefit :=
  {| tb_sec := []; tb_date := 0%Z; tb_settle := 0%Z; tb_price := 0%Qc; tb_shares := 0%Qc;
     tb_stc_td := None; tb_stc_sd := None; tb_stc_price := None; tb_stc_shares := None; tb_stc_fee := None;
     tb_note := []; tb_sell_note := None |}.

Lemma eso_entries_each e ls fees : forall gs bs, eso_entries e ls fees gs = Ok bs ->
  length bs = length gs /\
  forall k, (k < length gs)%nat ->
    tb_price (nth k bs db) = g_fmv (nth k gs dg) /\ tb_shares (nth k bs db) = g_shares (nth k gs dg)
    /\ tb_note (nth k bs db) = k_option_grant_ ++ digits_of_N (g_num (nth k gs dg))
    /\ tb_sec (nth k bs db) = e_sym e /\ tb_date (nth k bs db) = e_date e.
Proof.
  induction gs as [|g gs IH]; intros bs H; cbn [eso_entries] in H.
  - inversion H; subst. split; [reflexivity|]. intros k Hk. cbn in Hk. lia.
  - destruct (negb (Qceqb (g_sale g) ls)); [discriminate|].
    destruct (eso_entries e ls fees gs) as [rest| |] eqn:E; cbn [bind] in H; try discriminate.
    inversion H; subst bs; clear H. destruct (IH rest eq_refl) as [IL IK].
    split; [cbn [length]; rewrite IL; reflexivity|].
    intros k Hk. destruct k as [|k]; [cbn [nth tb_price tb_shares tb_note tb_sec tb_date]; repeat split|].
    cbn [nth]. apply IK. cbn [length] in Hk. lia.
Qed.

Theorem eso_each_grant_once s bs : parse_eso s = Ok bs ->
  exists e, parse_eso_data s = Ok e /\ length bs = length (e_grants e) /\
    forall k, (k < length bs)%nat ->
      tb_price (nth k bs db) = g_fmv (nth k (e_grants e) dg)
      /\ tb_shares (nth k bs db) = g_shares (nth k (e_grants e) dg)
      /\ tb_note (nth k bs db) = k_option_grant_ ++ digits_of_N (g_num (nth k (e_grants e) dg))
      /\ tb_sec (nth k bs db) = e_sym e /\ tb_date (nth k bs db) = e_date e.
Proof.
  unfold parse_eso. destruct (parse_eso_data s) as [e| |]; cbn [bind]; try discriminate.
  destruct (rev (e_grants e)) as [|lastg r]; [discriminate|].
  destruct (fee_sum 0%Qc (e_grants e)) as [fees| |]; cbn [bind]; try discriminate.
  intros H. exists e. split; [reflexivity|].
  destruct (eso_entries_each e (g_sale lastg) fees (e_grants e) bs H) as [HL HK].
  split; [exact HL|]. intros k Hk. apply HK. rewrite <- HL. exact Hk.
Qed.

Theorem eso_rows_complete_or_error s bs : parse_eso s = Ok bs ->
  exists header body nums fmvs shares sales fees,
    eso_split s = Some (header, body) /\
    search_for_rows k_grant_number vp_digits body = Ok nums /\
    search_for_dec_rows k_exercise_mv true body = Ok fmvs /\
    search_for_dec_rows k_shares_exercised false body = Ok shares /\
    search_for_dec_rows k_sale_price true body = Ok sales /\
    search_for_dec_rows k_comission_fee true body = Ok fees /\
    length bs = grant_markers body /\
    length nums = length bs /\ length fmvs = length bs /\ length shares = length bs /\
    length sales = length bs /\ length fees = length bs /\
    forall k, (k < length bs)%nat ->
      tb_price (nth k bs db) = nth k fmvs 0%Qc /\ tb_shares (nth k bs db) = nth k shares 0%Qc
      /\ tb_note (nth k bs db) = k_option_grant_ ++ digits_of_N (u64_or_zero (nth k nums [])).
Proof.
  intros H. destruct (eso_each_grant_once s bs H) as (e & He & HL & HK).
  destruct (eso_data_complete s e He) as (header & body & nums & fmvs & shares & sales & fees &
    S0 & S1 & S2 & S3 & S4 & S5 & L1 & L2 & L3 & L4 & L5 & LG & NK).
  exists header, body, nums, fmvs, shares, sales, fees.
  assert (LB : length bs = grant_markers body) by (rewrite HL; exact LG).
  repeat split; auto; try (rewrite LB; assumption).
  - destruct (HK k H0) as (P & _). rewrite P, NK by (rewrite <- LB; exact H0). reflexivity.
  - destruct (HK k H0) as (_ & P & _). rewrite P, NK by (rewrite <- LB; exact H0). reflexivity.
  - destruct (HK k H0) as (_ & _ & P & _). rewrite P, NK by (rewrite <- LB; exact H0). reflexivity.
Qed.
