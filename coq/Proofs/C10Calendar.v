(* C10, annual mode: the calendar facts the generated 1-January rows need, for
   ALL day numbers and years (no range restriction): both Hinnant functions
   (Model/Gains.v year_of_day, Model/Summary.v jan1) are periodic in the
   400-year era of 146097 days; one era is swept by computation. *)
From Coq Require Import List ZArith Bool Lia.
From ACB Require Import Model.Gains Model.Summary.
Local Open Scope Z_scope.

Lemma jan1_shift y k : jan1 (y + 400 * k) = jan1 y + 146097 * k.
Proof.
  unfold jan1. replace (y + 400 * k - 1) with (y - 1 + k * 400) by lia.
  rewrite Z.div_add by lia. cbv zeta.
  replace (y - 1 + k * 400 - ((y - 1) / 400 + k) * 400) with (y - 1 - (y - 1) / 400 * 400) by lia.
  lia.
Qed.

Lemma year_of_day_shift d k : year_of_day (d + 146097 * k) = year_of_day d + 400 * k.
Proof.
  unfold year_of_day. replace (d + 146097 * k - 1 + 306) with (d - 1 + 306 + k * 146097) by lia.
  rewrite Z.div_add by lia.
  replace (d - 1 + 306 + k * 146097 - ((d - 1 + 306) / 146097 + k) * 146097)
    with (d - 1 + 306 - (d - 1 + 306) / 146097 * 146097) by lia.
  cbv zeta. destruct (_ <? 10); lia.
Qed.

Fixpoint all_from (n : nat) (d : Z) (p : Z -> bool) : bool :=
  match n with O => true | S k => p d && all_from k (d + 1) p end.
Lemma all_from_spec n d p : all_from n d p = true -> forall k, 0 <= k < Z.of_nat n -> p (d + k) = true.
Proof.
  revert d. induction n as [|n IH]; intros d H k Hk; [lia|].
  cbn [all_from] in H. apply andb_prop in H as [Hd H].
  destruct (Z.eq_dec k 0) as [->|Hn]; [rewrite Z.add_0_r; exact Hd|].
  replace (d + k) with (d + 1 + (k - 1)) by lia. apply IH; [exact H | lia].
Qed.

(* a year has at least 365 days *)
Definition jan1_step_ok (y : Z) : bool := jan1 y + 365 <=? jan1 (y + 1).
Lemma jan1_sweep : all_from 400 0 jan1_step_ok = true.
Proof. vm_compute. reflexivity. Qed.
Lemma jan1_next y : jan1 y + 365 <= jan1 (y + 1).
Proof.
  pose proof (Z.div_mod y 400 ltac:(lia)) as E. pose proof (Z.mod_pos_bound y 400 ltac:(lia)) as Hb.
  pose proof (all_from_spec _ _ _ jan1_sweep (y mod 400) ltac:(lia)) as H.
  unfold jan1_step_ok in H. apply Z.leb_le in H. cbn [Z.add] in H.
  replace y with (y mod 400 + 400 * (y / 400)) at 1 2 by lia.
  replace (y mod 400 + 400 * (y / 400) + 1) with (y mod 400 + 1 + 400 * (y / 400)) by lia.
  rewrite !jan1_shift. lia.
Qed.
Lemma jan1_lt a b : a < b -> jan1 a + 365 <= jan1 b.
Proof.
  intros H. replace b with (a + 1 + (b - a - 1)) by lia.
  assert (Hn : 0 <= b - a - 1) by lia. revert Hn. generalize (b - a - 1). clear H b.
  apply natlike_ind.
  - rewrite Z.add_0_r. apply jan1_next.
  - intros x Hx IH. pose proof (jan1_next (a + 1 + x)) as H1.
    replace (a + 1 + Z.succ x) with (a + 1 + x + 1) by lia. lia.
Qed.
Lemma jan1_le a b : a <= b -> jan1 a <= jan1 b.
Proof. intros H. destruct (Z.eq_dec a b) as [->|Hn]; [lia|]. pose proof (jan1_lt a b ltac:(lia)). lia. Qed.
Lemma jan1_inj a b : jan1 a = jan1 b -> a = b.
Proof.
  intros E. destruct (Z.lt_trichotomy a b) as [H|[H|H]]; [|exact H|].
  - pose proof (jan1_lt a b H). lia.
  - pose proof (jan1_lt b a H). lia.
Qed.

(* the year of a day: 1 January of it is not later than the day, and 1 January
   of the next is *)
Definition year_ok (d : Z) : bool :=
  let y := year_of_day d in (jan1 y <=? d) && (d <? jan1 (y + 1)).
Lemma year_sweep : all_from (Z.to_nat 146097) 0 year_ok = true.
Proof. vm_compute. reflexivity. Qed.
Lemma year_civil_aux r q : 0 <= r < 146097 ->
  jan1 (year_of_day (r + 146097 * q)) <= r + 146097 * q < jan1 (year_of_day (r + 146097 * q) + 1).
Proof.
  intros Hb. pose proof (all_from_spec _ _ _ year_sweep r) as H.
  rewrite Z2Nat.id in H by lia. specialize (H ltac:(lia)).
  unfold year_ok in H. cbn [Z.add] in H. apply andb_prop in H as [H1 H2].
  apply Z.leb_le in H1. apply Z.ltb_lt in H2.
  rewrite year_of_day_shift.
  replace (year_of_day r + 400 * q + 1) with (year_of_day r + 1 + 400 * q) by lia.
  rewrite !jan1_shift. lia.
Qed.
Theorem year_civil d : jan1 (year_of_day d) <= d < jan1 (year_of_day d + 1).
Proof.
  pose proof (Z.div_mod d 146097 ltac:(lia)) as E. pose proof (Z.mod_pos_bound d 146097 ltac:(lia)) as Hb.
  revert E Hb. generalize (d mod 146097). generalize (d / 146097). intros q r E Hb. subst d.
  replace (146097 * q + r) with (r + 146097 * q) by lia. apply year_civil_aux. exact Hb.
Qed.
Lemma year_mono a b : a <= b -> year_of_day a <= year_of_day b.
Proof.
  intros H. destruct (Z_le_gt_dec (year_of_day a) (year_of_day b)) as [Hl|Hg]; [exact Hl|].
  pose proof (year_civil a) as [Ha _]. pose proof (year_civil b) as [_ Hb].
  pose proof (jan1_le (year_of_day b + 1) (year_of_day a) ltac:(lia)). lia.
Qed.
