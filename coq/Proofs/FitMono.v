(* Order properties of the rust_decimal rounding operator [fit]:
   - [fit_idem]: results are values (rounding a result again returns it);
   - [fit_ge_rep]: rounding never crosses a VALUE from above: if r is a value
     and r <= x then r <= fit x.  The scale used for x may be coarser than the
     scale of r - then x is beyond 2^96 / 10 at r's scale and the last digit of
     2^96 - 1 = ...335 decides that the coarser grid still has a point between
     r and x.  (Full monotonicity x1 <= x2 -> fit x1 <= fit x2 is not needed
     and not proved here.) *)
From Coq Require Import QArith Qcanon ZArith Lia.
From ACB Require Import Base.QcExtra Base.Fit Proofs.FitProps.
Local Open Scope Z_scope.

Lemma Qcfrac_this m p : (this (Qcfrac m p) == m # p)%Q.
Proof. unfold Qcfrac, Q2Qc. cbn [this]. apply Qred_correct. Qed.

Lemma this_frac (x : Qc) : (this x == Qnum (this x) # Qden (this x))%Q.
Proof. destruct (this x); reflexivity. Qed.

Theorem fit_idem q r : fit q = Some r -> fit r = Some r.
Proof.
  unfold fit at 1. intros H. apply fit_from_some in H as (s & Hs & -> & Hm).
  apply (fit_exact _ (rhe (Qnum (this q) * Zpos (p10 s)) (Qden (this q))) s);
    [exact Hs | exact Hm | apply Qcfrac_this].
Qed.

(* the scale used is the LARGEST that fits: the next one does not *)
Lemma fit_from_some_max s n d r :
  fit_from s n d = Some r ->
  exists s', (s' <= s)%nat /\
             r = Qcfrac (rhe (n * Zpos (p10 s')) d) (p10 s') /\
             Z.abs (rhe (n * Zpos (p10 s')) d) <= max_mant /\
             ((s' < s)%nat -> max_mant < Z.abs (rhe (n * Zpos (p10 (S s'))) d)).
Proof.
  induction s as [|s IH]; cbn [fit_from]; intros H.
  - destruct (Z.leb_spec (Z.abs (rhe (n * Zpos (p10 0)) d)) max_mant); [|discriminate].
    inversion H; subst. exists 0%nat. repeat split; auto. intros Hlt; lia.
  - destruct (Z.leb_spec (Z.abs (rhe (n * Zpos (p10 (S s))) d)) max_mant) as [Hle|Hgt].
    + inversion H; subst. exists (S s). repeat split; auto. intros Hlt; lia.
    + destruct (IH H) as (s' & Hs & Hr & Hm & Hmax). exists s'. split; [lia|]. split; [exact Hr|].
      split; [exact Hm|]. intros _. destruct (Nat.eq_dec s' s) as [->|Hne]; [exact Hgt | apply Hmax; lia].
Qed.

Lemma pow10_ge1 j : 1 <= 10 ^ Z.of_nat j.
Proof. pose proof (Z.pow_pos_nonneg 10 (Z.of_nat j) ltac:(lia) ltac:(lia)). lia. Qed.

(* the integer core *)
Lemma rhe_ge_int N d K : K * Zpos d <= N -> K <= rhe N d.
Proof. intros H. pose proof (rhe_bounds N d) as Hb. nia. Qed.
Lemma rhe_le_int N d K : N <= K * Zpos d -> rhe N d <= K.
Proof. intros H. pose proof (rhe_bounds N d) as Hb. nia. Qed.

Theorem fit_ge_rep (x y r : Qc) : fit x = Some y -> fit r = Some r -> (r <= x)%Qc -> (r <= y)%Qc.
Proof.
  intros Hx Hr Hle. unfold fit in Hx, Hr.
  apply fit_from_some_max in Hx as (s' & Hs' & -> & Hm & Hmax).
  apply fit_from_some in Hr as (sr & Hsr & Er & Hmr).
  set (n := Qnum (this x)) in *. set (d := Qden (this x)) in *.
  set (mr := rhe (Qnum (this r) * Zpos (p10 sr)) (Qden (this r))) in *.
  pose proof (Qcfrac_this mr (p10 sr)) as Hrq. rewrite <- Er in Hrq.
  pose proof (this_frac x) as Hxq. fold n d in Hxq.
  unfold Qcle in Hle. rewrite Hrq, Hxq in Hle. unfold Qle in Hle. cbn [Qnum Qden] in Hle.
  unfold Qcle. rewrite Hrq, Qcfrac_this. unfold Qle. cbn [Qnum Qden].
  set (m := rhe (n * Zpos (p10 s')) d) in *.
  pose proof (Pos2Z.is_pos d) as Hd. pose proof (Pos2Z.is_pos (p10 s')) as Hps. pose proof (Pos2Z.is_pos (p10 sr)) as Hpr.
  destruct (le_lt_dec sr s') as [Hc|Hc].
  - (* r is on the grid of the scale used for x *)
    assert (Ep : Zpos (p10 s') = Zpos (p10 sr) * 10 ^ Z.of_nat (s' - sr)).
    { rewrite <- p10_add. f_equal. f_equal. lia. }
    pose proof (pow10_ge1 (s' - sr)) as HP. set (P := 10 ^ Z.of_nat (s' - sr)) in *.
    assert (Hk : mr * P <= m).
    { subst m. apply rhe_ge_int. rewrite Ep. nia. }
    rewrite Ep. nia.
  - (* x needed a coarser scale than r has *)
    assert (Hlt : (s' < 28)%nat) by lia. specialize (Hmax Hlt).
    rewrite p10_S in Hmax. rewrite Pos2Z.inj_mul in Hmax.
    set (N := n * Zpos (p10 s')) in *.
    replace (n * (10 * Zpos (p10 s'))) with (10 * N) in Hmax by (subst N; ring).
    pose proof (rhe_bounds (10 * N) d) as Hb1. set (m1 := rhe (10 * N) d) in *.
    pose proof (rhe_bounds N d) as Hb. fold m in Hb.
    assert (Ep : Zpos (p10 sr) = 10 * Zpos (p10 s') * 10 ^ Z.of_nat (sr - S s')).
    { replace sr with (S s' + (sr - S s'))%nat at 1 by lia. rewrite p10_add, p10_S, Pos2Z.inj_mul. ring. }
    pose proof (pow10_ge1 (sr - S s')) as HQ. set (Q := 10 ^ Z.of_nat (sr - S s')) in *.
    rewrite Ep in Hle |- *.
    assert (HleN : mr * Zpos d <= 10 * N * Q) by (subst N; nia).
    destruct (Z_le_gt_dec 0 m1) as [Hp|Hn].
    + assert (H1 : max_mant + 1 <= m1) by lia.
      assert (H20 : (2 * max_mant + 1) * Zpos d <= 20 * N) by nia.
      assert (Hm20d : (2 * max_mant - 9) * Zpos d <= 20 * m * Zpos d) by nia.
      assert (Hm20 : 2 * max_mant - 9 <= 20 * m) by nia.
      assert (Hm10 : max_mant <= 10 * m) by (unfold max_mant in *; lia).
      assert (Hmr' : mr <= max_mant) by lia.
      assert (Hm0 : 0 <= m) by (unfold max_mant in *; lia).
      nia.
    + exfalso. assert (H1 : m1 <= - (max_mant + 1)) by lia.
      assert (H20 : 20 * N <= - (2 * max_mant + 1) * Zpos d) by nia.
      assert (HN : N < 0) by (unfold max_mant in *; nia).
      assert (H3 : 10 * N * Q <= 10 * N) by nia.
      assert (Hmr' : - max_mant <= mr) by lia.
      unfold max_mant in *. nia.
Qed.

