(* C18: proofs about Model/Questrade.v, Model/FxTracker.v against Spec/QtExport.v *)
From Coq Require Import List NArith ZArith QArith Qcanon Bool Lia Permutation.
From ACB Require Import Base.Outcome Base.QcExtra Base.Fit Base.Arith Model.QText
     Model.FxTracker Model.Questrade Spec.QtExport.
Import ListNotations.
Local Open Scope N_scope.

(* ---------- text equality ---------- *)
Lemma text_eqb_eq a : forall b, text_eqb a b = true -> a = b.
Proof.
  induction a as [|x a IH]; intros [|y b] H; try discriminate; [reflexivity|].
  cbn [text_eqb] in H. apply andb_true_iff in H. destruct H as [Hx Hr].
  apply N.eqb_eq in Hx. subst. f_equal. apply IH. exact Hr.
Qed.

Lemma text_eqb_refl a : text_eqb a a = true.
Proof. induction a as [|x a IH]; [reflexivity|]. cbn [text_eqb]. rewrite N.eqb_refl, IH. reflexivity. Qed.

Lemma text_eqb_neq a b : text_eqb a b = false -> a <> b.
Proof. intros H E. subst. rewrite text_eqb_refl in H. discriminate. Qed.

(* ---------- actions ---------- *)
Lemma trade_action_iff act :
  is_trade_action act = true <->
  (mem_text act allowed_actions = true /\ mem_text act ignored_actions = false /\
   text_eqb act t_FXT = false /\ text_eqb act t_DIV = false).
Proof.
  split.
  - unfold is_trade_action, is_buy_action, is_sell_action. rewrite !orb_true_iff.
    intros [[H|H]|[H|H]]; apply text_eqb_eq in H; subst; vm_compute; auto.
  - unfold mem_text, allowed_actions, is_trade_action, is_buy_action, is_sell_action.
    cbn [existsb]. intros [H [_ [H1 H2]]]. rewrite H1, H2 in H.
    rewrite !orb_false_r in H.
    destruct (text_eqb act t_BUY), (text_eqb act t_SELL), (text_eqb act t_DIS), (text_eqb act t_LIQ);
      cbn in H |- *; try reflexivity; discriminate.
Qed.

Lemma not_trade_action act :
  (mem_text act allowed_actions = false \/ mem_text act ignored_actions = true \/
   text_eqb act t_FXT = true \/ text_eqb act t_DIV = true) ->
  is_trade_action act = false.
Proof.
  intros H. destruct (is_trade_action act) eqn:E; [|reflexivity].
  apply trade_action_iff in E. destruct E as [E1 [E2 [E3 E4]]].
  destruct H as [H|[H|[H|H]]]; congruence.
Qed.

Lemma buy_flag act :
  is_trade_action act = true -> (text_eqb act t_BUY || text_eqb act t_DIS) = is_buy_action act.
Proof. reflexivity. Qed.

Lemma currency_usd curs : text_eqb (currency_of curs) t_USD = text_eqb (upper curs) t_USD.
Proof. unfold currency_of. destruct (upper curs); reflexivity. Qed.

(* ---------- Qc helpers ---------- *)
Local Open Scope Qc_scope.
Lemma Qcabs_signed a : (if Qcltb 0 a then Qcabs a else - Qcabs a) = a.
Proof.
  unfold Qcabs. destruct (Qcltb 0 a) eqn:E1; destruct (Qcleb 0 a) eqn:E2; qc_bool; try ring.
  - exfalso. qc_lra.
  - assert (a = 0) by qc_lra. subst. ring.
Qed.

Lemma Qcabs_pos a : a <> 0 -> 0 < Qcabs a.
Proof.
  intros H. unfold Qcabs. destruct (Qcleb 0 a) eqn:E; qc_bool.
  - destruct (Qceqb_spec a 0) as [->|Hne]; [contradiction H; reflexivity|].
    apply Qcle_lt_or_eq in E. destruct E as [E|E]; [exact E|]. subst. contradiction H. reflexivity.
  - qc_lra.
Qed.
Local Close Scope Qc_scope.

(* ---------- one row ---------- *)
(* case analysis of a [gbind] / [if] / [match] chain ending in [Ok e] *)
Ltac gb H :=
  match type of H with
  | gbind ?g _ _ = Ok _ =>
      let E := fresh "G" in
      destruct g eqn:E; cbn [gbind] in H; cbv beta in H
  end.

Lemma eff_inv t f a e x : eff t f a e = Ok x ->
  e_trades x = t /\ e_fx x = f /\ e_adj x = a /\ e_err x = e.
Proof. unfold eff. intros H. inversion H. cbn. auto. Qed.

Lemma add_implicit_exact t :
  add_implicit_fxt exact t =
  let amount := ((if b_buy t then - (b_price t * b_shares t) else b_price t * b_shares t) - b_comm t)%Qc in
  if Qceqb amount 0 then Ok ([], None)
  else match fx_tx (b_cur t) (b_td t) (b_tdt t) amount (b_reg t) (b_row t) (b_acct t) None with
       | inl e => Ok ([], Some e)
       | inr x => Ok ([x], None)
       end.
Proof. reflexivity. Qed.

Theorem row_trades n q adj e :
  row_effect exact n q adj = Ok e ->
  e_trades e = match trade_of_row n q with Some t => [t] | None => [] end.
Proof.
  intros H. unfold row_effect in H. unfold trade_of_row, action_of, date_of, str_of, dec_of.
  gb H; [| apply eff_inv in H; destruct H as [-> _]; reflexivity | discriminate].
  destruct (negb (mem_text (upper v) allowed_actions) && negb (mem_text (upper v) ignored_actions)) eqn:Eun.
  { apply eff_inv in H. destruct H as [-> _].
    rewrite not_trade_action; [reflexivity|]. apply andb_true_iff in Eun. destruct Eun as [Ea _].
    apply negb_true_iff in Ea. left. exact Ea. }
  destruct (mem_text (upper v) ignored_actions) eqn:Eig.
  { apply eff_inv in H. destruct H as [-> _]. rewrite not_trade_action; [reflexivity|]. right. left. exact Eig. }
  assert (Hall : mem_text (upper v) allowed_actions = true).
  { try rewrite Eig in Eun. cbn [negb] in Eun. rewrite andb_true_r in Eun. apply negb_false_iff in Eun. exact Eun. }
  gb H; [| apply eff_inv in H; destruct H as [-> _]; destruct (is_trade_action (upper v)); reflexivity | discriminate].
  rename v0 into tdt.
  destruct (parse_date tdt) as [td|] eqn:Etd;
    [| apply eff_inv in H; destruct H as [-> _]; destruct (is_trade_action (upper v)); reflexivity].
  gb H; [| apply eff_inv in H; destruct H as [-> _]; destruct (is_trade_action (upper v)); reflexivity | discriminate].
  rename v0 into sdt.
  destruct (parse_date sdt) as [sd|] eqn:Esd;
    [| apply eff_inv in H; destruct H as [-> _]; destruct (is_trade_action (upper v)); reflexivity].
  gb H; [| apply eff_inv in H; destruct H as [-> _]; destruct (is_trade_action (upper v)); reflexivity | discriminate].
  rename v0 into atype.
  gb H; [| apply eff_inv in H; destruct H as [-> _]; destruct (is_trade_action (upper v)); reflexivity | discriminate].
  rename v0 into anum.
  destruct (text_eqb (upper v) t_FXT) eqn:Efxt.
  { rewrite not_trade_action by (right; right; left; exact Efxt).
    gb H; [| apply eff_inv in H; destruct H as [-> _]; reflexivity | discriminate].
    gb H; [| apply eff_inv in H; destruct H as [-> _]; reflexivity | discriminate].
    destruct (add_fxt_row exact adj _) as [[[adj' fx] er]| |]; cbn [bind] in H; try discriminate.
    apply eff_inv in H. destruct H as [-> _]. reflexivity. }
  gb H; [| apply eff_inv in H; destruct H as [-> _]; destruct (is_trade_action (upper v)); reflexivity | discriminate].
  rename v0 into sym.
  destruct sym as [|c s];
    [apply eff_inv in H; destruct H as [-> _]; destruct (is_trade_action (upper v)); reflexivity|].
  destruct (text_eqb (upper v) t_DIV) eqn:Ediv.
  { rewrite not_trade_action by (right; right; right; exact Ediv).
    gb H; [| apply eff_inv in H; destruct H as [-> _]; reflexivity | discriminate].
    destruct (text_eqb (upper v0) t_USD).
    - gb H; [| apply eff_inv in H; destruct H as [-> _]; reflexivity | discriminate].
      destruct (fx_tx _ _ _ _ _ _ _ _); apply eff_inv in H; destruct H as [-> _]; reflexivity.
    - apply eff_inv in H. destruct H as [-> _]. reflexivity. }
  assert (Htr : is_trade_action (upper v) = true) by (apply trade_action_iff; auto).
  rewrite Htr.
  gb H; [| apply eff_inv in H; destruct H as [-> _]; reflexivity | discriminate].
  rename v0 into price.
  gb H; [| apply eff_inv in H; destruct H as [-> _]; reflexivity | discriminate].
  rename v0 into qty.
  gb H; [| apply eff_inv in H; destruct H as [-> _]; reflexivity | discriminate].
  rename v0 into comm.
  gb H; [| apply eff_inv in H; destruct H as [-> _]; reflexivity | discriminate].
  rename v0 into curs.
  match type of H with (if ?c then _ else _) = _ => destruct c end.
  - apply eff_inv in H. destruct H as [-> _]. reflexivity.
  - rewrite add_implicit_exact in H. cbv zeta in H.
    match type of H with context [Qceqb ?a 0] => destruct (Qceqb a 0) end.
    + cbn [bind] in H. apply eff_inv in H. destruct H as [-> _]. reflexivity.
    + destruct (fx_tx _ _ _ _ _ _ _ _); cbn [bind] in H; apply eff_inv in H; destruct H as [-> _]; reflexivity.
Qed.

Theorem convert_rows_trades rows : forall n adj ts fs adj' errs,
  convert_rows exact n rows adj = Ok (ts, fs, adj', errs) -> ts = expected_trades n rows.
Proof.
  induction rows as [|q r IH]; intros n adj ts fs adj' errs H.
  - cbn in H. inversion H. reflexivity.
  - cbn [convert_rows] in H.
    destruct (row_effect exact n q adj) as [e| |] eqn:Er; cbn [bind] in H; try discriminate.
    destruct (convert_rows exact (n + 1) r (e_adj e)) as [[[[ts' fs'] a'] errs']| |] eqn:Ec;
      cbn [bind] in H; try discriminate.
    inversion H; subst. cbn [expected_trades].
    rewrite (row_trades n q adj e Er), (IH _ _ _ _ _ _ Ec). reflexivity.
Qed.

(* ---------- FX transactions ---------- *)
Lemma fx_tx_inr cur td tdt amount reg row acct rate t :
  fx_tx cur td tdt amount reg row acct rate = inr t ->
  cur = t_USD /\
  t = {| b_sec := t_USD ++ t_dotFX; b_td := td; b_sd := td; b_tdt := tdt; b_sdt := tdt;
         b_buy := Qcltb 0 amount; b_price := 1%Qc; b_shares := Qcabs amount; b_comm := 0%Qc;
         b_cur := t_USD; b_rate := rate; b_reg := reg; b_row := row; b_acct := acct;
         b_tb := Some (if Qcltb 0 amount then 1 else 2) |}.
Proof.
  unfold fx_tx. destruct (text_eqb cur t_USD) eqn:E; [|discriminate].
  apply text_eqb_eq in E. subst. intros H. inversion H. auto.
Qed.

Lemma fx_tx_usd td tdt amount reg row acct rate :
  exists t, fx_tx t_USD td tdt amount reg row acct rate = inr t.
Proof. unfold fx_tx. rewrite text_eqb_refl. eexists. reflexivity. Qed.

Lemma fx_signed cur td tdt amount reg row acct rate t :
  fx_tx cur td tdt amount reg row acct rate = inr t -> signed_shares t = amount.
Proof.
  intros H. apply fx_tx_inr in H. destruct H as [_ ->]. unfold signed_shares. cbn.
  apply Qcabs_signed.
Qed.

Lemma fx_is_fx cur td tdt amount reg row acct rate t :
  fx_tx cur td tdt amount reg row acct rate = inr t -> is_fx t = true.
Proof. intros H. apply fx_tx_inr in H. destruct H as [_ ->]. reflexivity. Qed.

(* the pending first row of a conversion, as the USD it stands for *)
Definition pend_usd (adj : option fxt_row) : Qc :=
  match adj with
  | Some fr => if text_eqb (fr_cur fr) t_USD then fr_amount fr else 0%Qc
  | None => 0%Qc
  end.
Definition pend_of (adj : option fxt_row) : option (text * Qc) :=
  option_map (fun fr => (fr_cur fr, fr_amount fr)) adj.
Definition adj_sane (adj : option fxt_row) : Prop :=
  match adj with Some fr => fr_amount fr <> 0%Qc | None => True end.

(* a completed, accepted conversion *)
Lemma add_fxt_pair a fr adj' fx :
  add_fxt_row exact (Some a) fr = Ok (adj', fx, None) ->
  exists cad other t,
    ((text_eqb (fr_cur a) t_CAD = true /\ cad = a /\ other = fr) \/
     (text_eqb (fr_cur a) t_CAD = false /\ cad = fr /\ other = a)) /\
    fr_cur cad = t_CAD /\ fr_cur other = t_USD /\ fr_amount other <> 0%Qc /\
    adj' = None /\ fx = [t] /\
    fx_tx (fr_cur other) (fr_td other) (fr_tdt other) (fr_amount other) (fr_reg other)
          (fr_row fr) (fr_acct other) (Some (Qcabs (fr_amount cad / fr_amount other))) = inr t.
Proof.
  unfold add_fxt_row. intros H.
  set (co := if text_eqb (fr_cur a) t_CAD then (a, fr) else (fr, a)) in *.
  assert (Hco : (text_eqb (fr_cur a) t_CAD = true /\ fst co = a /\ snd co = fr) \/
                (text_eqb (fr_cur a) t_CAD = false /\ fst co = fr /\ snd co = a)).
  { subst co. destruct (text_eqb (fr_cur a) t_CAD); [left|right]; auto. }
  destruct co as [cad other]. cbn [fst snd] in Hco.
  destruct (negb (text_eqb (fr_cur cad) t_CAD) || text_eqb (fr_cur other) t_CAD) eqn:E1; [discriminate|].
  apply orb_false_iff in E1. destruct E1 as [E1 E1']. apply negb_false_iff in E1.
  destruct (negb (date_eqb (fr_td other) (fr_td cad))); [discriminate|].
  destruct (negb (Bool.eqb (fr_reg other) (fr_reg cad)) || negb (account_eqb (fr_acct other) (fr_acct cad)));
    [discriminate|].
  cbn [a_mul a_div exact bind] in H.
  destruct (Qcltb 0 (fr_amount cad * fr_amount other)); [discriminate|].
  destruct (Qceqb (fr_amount other) 0) eqn:Ez; cbn [bind] in H; [discriminate|].
  destruct (fx_tx (fr_cur other) (fr_td other) (fr_tdt other) (fr_amount other) (fr_reg other)
                  (fr_row fr) (fr_acct other) (Some (Qcabs (fr_amount cad / fr_amount other)))) as [er|t] eqn:Ef;
    [discriminate|].
  inversion H; subst. exists cad, other, t.
  pose proof (fx_tx_inr _ _ _ _ _ _ _ _ _ Ef) as [Hcur _].
  qc_bool. apply text_eqb_eq in E1. repeat split; auto.
Qed.

(* ---------- facts about the action of a row ---------- *)
Lemma ignored_not_special act :
  mem_text act ignored_actions = true ->
  is_buy_action act = false /\ is_sell_action act = false /\
  text_eqb act t_DIV = false /\ text_eqb act t_FXT = false.
Proof.
  intros H.
  assert (Hn : is_trade_action act = false) by (apply not_trade_action; auto).
  unfold is_trade_action in Hn. apply orb_false_iff in Hn. destruct Hn as [H1 H2].
  repeat split; auto.
  - destruct (text_eqb act t_DIV) eqn:E; [|reflexivity]. apply text_eqb_eq in E. subst. vm_compute in H. discriminate.
  - destruct (text_eqb act t_FXT) eqn:E; [|reflexivity]. apply text_eqb_eq in E. subst. vm_compute in H. discriminate.
Qed.

Lemma fxt_not_other act :
  text_eqb act t_FXT = true ->
  is_buy_action act = false /\ is_sell_action act = false /\ text_eqb act t_DIV = false.
Proof. intros H. apply text_eqb_eq in H. subst. vm_compute. auto. Qed.

Lemma div_not_other act :
  text_eqb act t_DIV = true ->
  is_buy_action act = false /\ is_sell_action act = false /\ text_eqb act t_FXT = false.
Proof. intros H. apply text_eqb_eq in H. subst. vm_compute. auto. Qed.

Lemma buy_not_sell act : is_buy_action act = true -> is_sell_action act = false.
Proof.
  unfold is_buy_action, is_sell_action. rewrite orb_true_iff.
  intros [H|H]; apply text_eqb_eq in H; subst; reflexivity.
Qed.

Lemma trade_buy_or_sell act :
  is_trade_action act = true -> is_buy_action act = false -> is_sell_action act = true.
Proof. unfold is_trade_action. intros H Hb. rewrite Hb in H. exact H. Qed.

Lemma cad_not_usd c : text_eqb c t_CAD = true -> text_eqb c t_USD = false.
Proof. intros H. apply text_eqb_eq in H. subst. reflexivity. Qed.
Lemma usd_not_cad c : text_eqb c t_USD = true -> text_eqb c t_CAD = false.
Proof. intros H. apply text_eqb_eq in H. subst. reflexivity. Qed.

Lemma alias_nonnil c s : alias_symbol (c :: s) <> [].
Proof. unfold alias_symbol. destruct (text_eqb (c :: s) t_H038778); discriminate. Qed.

Local Open Scope Qc_scope.
Lemma Qcdiv_nonzero a b : a <> 0 -> b <> 0 -> a / b <> 0.
Proof.
  intros Ha Hb E. apply Ha.
  replace a with ((a / b) * b) by (field; exact Hb). rewrite E. ring.
Qed.
Lemma Qcabs_nonneg' a : Qcleb 0 (Qcabs a) = true.
Proof. apply Qcleb_true. apply Qcabs_nonneg. Qed.
Lemma Qcabs_pos' a : a <> 0 -> Qcltb 0 (Qcabs a) = true.
Proof. intros H. apply Qcltb_true. apply Qcabs_pos. exact H. Qed.
Local Close Scope Qc_scope.

(* ---------- what a row without error does ---------- *)
Definition row_good (n : N) (q : qrow) (adj : option fxt_row) (e : effect) : Prop :=
  Forall (fun t => is_fx t = true) (e_fx e) /\
  (signed_sum (e_fx e) + pend_usd (e_adj e) = pend_usd adj + row_usd_flow q)%Qc /\
  (forall r, conversions (pend_of adj) n (q :: r)
             = rated (e_fx e) ++ conversions (pend_of (e_adj e)) (n + 1) r) /\
  (row_sane q = true -> adj_sane adj ->
   Forall (fun t => acb_accepts t = true) (e_trades e ++ e_fx e) /\ adj_sane (e_adj e)).

Tactic Notation "leaf" hyp(H) "as" ident(a) ident(b) ident(c) ident(d) :=
  apply eff_inv in H; destruct H as (a & b & c & d).
Ltac err_leaf H Hnone :=
  apply eff_inv in H; let He := fresh "He" in
  destruct H as (_ & _ & _ & He); rewrite Hnone in He; discriminate He.

(* a row that emits nothing, leaves the tracker alone and moves no USD *)
Lemma row_good_nothing n q adj e :
  e_trades e = [] -> e_fx e = [] -> e_adj e = adj ->
  row_usd_flow q = 0%Qc -> is_fxt_row q = false -> row_good n q adj e.
Proof.
  intros Ht Hf Ha Hflow Hfxt. unfold row_good. rewrite Ht, Hf, Ha. repeat split.
  - constructor.
  - rewrite Hflow. cbn. ring.
  - intros r. cbn [conversions rated flat_map app]. rewrite Hfxt. reflexivity.
  - constructor.
  - assumption.
Qed.

Lemma row_good_intro n q adj e :
  Forall (fun t => is_fx t = true) (e_fx e) ->
  (signed_sum (e_fx e) + pend_usd (e_adj e) = pend_usd adj + row_usd_flow q)%Qc ->
  (forall r, conversions (pend_of adj) n (q :: r)
             = rated (e_fx e) ++ conversions (pend_of (e_adj e)) (n + 1) r) ->
  (row_sane q = true -> adj_sane adj -> Forall (fun t => acb_accepts t = true) (e_trades e ++ e_fx e)) ->
  (row_sane q = true -> adj_sane adj -> adj_sane (e_adj e)) ->
  row_good n q adj e.
Proof. intros H1 H2 H3 H4 H5. unfold row_good. repeat split; auto. Qed.

Lemma row_ok n q adj e :
  row_effect exact n q adj = Ok e -> e_err e = None -> row_good n q adj e.
Proof.
  intros H Hnone. unfold row_effect in H.
  gb H; [| err_leaf H Hnone | discriminate].
  set (act := upper v) in *.
  assert (Hact : action_of q = act) by (unfold action_of, str_of; rewrite G; reflexivity).
  destruct (negb (mem_text act allowed_actions) && negb (mem_text act ignored_actions)) eqn:Eun;
    [err_leaf H Hnone|].
  destruct (mem_text act ignored_actions) eqn:Eig.
  { leaf H as Ht Hf Ha He. destruct (ignored_not_special act Eig) as (B1 & B2 & B3 & B4).
    apply row_good_nothing; auto.
    - unfold row_usd_flow. rewrite Hact, B1, B2, B3, B4. reflexivity.
    - unfold is_fxt_row. rewrite Hact. exact B4. }
  assert (Hall : mem_text act allowed_actions = true).
  { cbn [negb] in Eun. rewrite andb_true_r in Eun. apply negb_false_iff in Eun. exact Eun. }
  gb H; [| err_leaf H Hnone | discriminate]. rename v0 into tdt.
  destruct (parse_date tdt) as [td|] eqn:Etd; [| err_leaf H Hnone].
  gb H; [| err_leaf H Hnone | discriminate]. rename v0 into sdt.
  destruct (parse_date sdt) as [sd|] eqn:Esd; [| err_leaf H Hnone].
  gb H; [| err_leaf H Hnone | discriminate]. rename v0 into atype.
  gb H; [| err_leaf H Hnone | discriminate]. rename v0 into anum.
  destruct (text_eqb act t_FXT) eqn:Efxt.
  { destruct (fxt_not_other act Efxt) as (B1 & B2 & B3).
    gb H; [| err_leaf H Hnone | discriminate]. rename v0 into curs.
    gb H; [| err_leaf H Hnone | discriminate]. rename v0 into amount.
    assert (Hcur : row_currency q = currency_of curs) by (unfold row_currency, str_of; rewrite G4; reflexivity).
    assert (Hnet : dec_or0 Col.net (q_net q) = amount) by (unfold dec_or0, dec_of; rewrite G5; reflexivity).
    assert (Hflow : row_usd_flow q = if text_eqb (currency_of curs) t_USD then amount else 0%Qc).
    { unfold row_usd_flow. rewrite Hact, B1, B2, B3, Efxt, Hcur, Hnet. reflexivity. }
    assert (Hisf : is_fxt_row q = true) by (unfold is_fxt_row; rewrite Hact; exact Efxt).
    assert (Hsane : row_sane q = true -> amount <> 0%Qc).
    { unfold row_sane. rewrite Hact. unfold is_trade_action. rewrite B1, B2, Efxt, Hnet. cbn [orb].
      intros Hs. apply negb_true_iff in Hs. qc_bool. exact Hs. }
    match type of H with bind (add_fxt_row exact adj ?fr0) _ = _ => set (fr := fr0) in * end.
    destruct (add_fxt_row exact adj fr) as [[[adj' fx] er]| |] eqn:Eadd; cbn [bind] in H; try discriminate.
    destruct adj as [a|].
    - leaf H as Ht Hf Ha He. rewrite Hnone in He. subst er.
      destruct (add_fxt_pair a fr adj' fx Eadd) as (cad & other & t & Hco & Hcad & Hoth & Hnz & -> & -> & Hfx).
      pose proof (fx_tx_inr _ _ _ _ _ _ _ _ _ Hfx) as [_ Ht'].
      apply row_good_intro; rewrite ?Ht, ?Hf, ?Ha.
      + constructor; [|constructor]. apply (fx_is_fx _ _ _ _ _ _ _ _ _ Hfx).
      + cbn [signed_sum fold_right pend_usd]. rewrite (fx_signed _ _ _ _ _ _ _ _ _ Hfx), Hflow.
        destruct Hco as [(Ec & -> & ->)|(Ec & -> & ->)].
        * rewrite (cad_not_usd _ Ec). cbn [fr_cur fr] in Hoth |- *. rewrite Hoth. cbn. ring.
        * cbn [fr_cur fr] in Hcad. rewrite Hcad. rewrite Hoth. cbn. ring.
      + intros r. cbn [conversions pend_of option_map]. rewrite Hisf, Hnet.
        subst t. cbn [rated flat_map b_rate b_shares b_row app].
        destruct Hco as [(Ec & -> & ->)|(Ec & -> & ->)]; rewrite Ec; reflexivity.
      + intros Hs Hadj. cbn [app]. constructor; [|constructor].
        subst t. unfold acb_accepts. cbn.
        rewrite (Qcabs_pos' _ Hnz). cbn.
        apply Qcltb_true. apply Qcabs_pos. apply Qcdiv_nonzero; [|exact Hnz].
        destruct Hco as [(Ec & -> & ->)|(Ec & -> & ->)]; [exact Hadj | exact (Hsane Hs)].
      + intros _ _. exact I.
    - cbn in Eadd. injection Eadd as <- <- <-. leaf H as Ht Hf Ha He.
      apply row_good_intro; rewrite ?Ht, ?Hf, ?Ha.
      + constructor.
      + cbn [signed_sum fold_right pend_usd fr_cur fr fr_amount]. rewrite Hflow. ring.
      + intros r. cbn [conversions pend_of option_map rated flat_map app fr fr_cur fr_amount].
        rewrite Hisf, Hcur, Hnet. reflexivity.
      + intros _ _. constructor.
      + intros Hs _. cbn. exact (Hsane Hs). }
  gb H; [| err_leaf H Hnone | discriminate]. rename v0 into sym.
  destruct sym as [|c s]; [err_leaf H Hnone|].
  destruct (text_eqb act t_DIV) eqn:Ediv.
  { destruct (div_not_other act Ediv) as (B1 & B2 & B3).
    gb H; [| err_leaf H Hnone | discriminate]. rename v0 into curs.
    assert (Hcur : row_currency q = currency_of curs) by (unfold row_currency, str_of; rewrite G5; reflexivity).
    assert (Hisf : is_fxt_row q = false) by (unfold is_fxt_row; rewrite Hact; exact B3).
    destruct (text_eqb (upper curs) t_USD) eqn:Eusd.
    - gb H; [| err_leaf H Hnone | discriminate]. rename v0 into amount.
      assert (Hnet : dec_or0 Col.net (q_net q) = amount) by (unfold dec_or0, dec_of; rewrite G6; reflexivity).
      destruct (fx_tx t_USD td tdt amount (is_registered_type atype) n
                      {| ac_type := atype; ac_num := anum |} None) as [er|t] eqn:Efx; [err_leaf H Hnone|].
      leaf H as Ht Hf Ha He.
      pose proof (fx_tx_inr _ _ _ _ _ _ _ _ _ Efx) as [_ Ht'].
      apply row_good_intro; rewrite ?Ht, ?Hf, ?Ha.
      + constructor; [|constructor]. apply (fx_is_fx _ _ _ _ _ _ _ _ _ Efx).
      + cbn [signed_sum fold_right]. rewrite (fx_signed _ _ _ _ _ _ _ _ _ Efx).
        unfold row_usd_flow. rewrite Hact, B1, B2, Ediv, Hcur, currency_usd, Eusd, Hnet. cbn [orb]. ring.
      + intros r. cbn [conversions]. rewrite Hisf. subst t. reflexivity.
      + intros Hs _. cbn [app]. constructor; [|constructor]. subst t. unfold acb_accepts. cbn.
        assert (Hnz : amount <> 0%Qc).
        { unfold row_sane in Hs. rewrite Hact in Hs. unfold is_trade_action in Hs.
          rewrite B1, B2, B3, Ediv, Hcur, currency_usd, Eusd, Hnet in Hs. cbn in Hs.
          apply negb_true_iff in Hs. qc_bool. exact Hs. }
        rewrite (Qcabs_pos' _ Hnz). reflexivity.
      + intros _ Hadj. exact Hadj.
    - leaf H as Ht Hf Ha He. apply row_good_nothing; auto.
      unfold row_usd_flow. rewrite Hact, B1, B2, Ediv, Hcur, currency_usd, Eusd. reflexivity. }
  assert (Htr : is_trade_action act = true) by (apply trade_action_iff; auto).
  gb H; [| err_leaf H Hnone | discriminate]. rename v0 into price.
  gb H; [| err_leaf H Hnone | discriminate]. rename v0 into qty.
  gb H; [| err_leaf H Hnone | discriminate]. rename v0 into comm.
  gb H; [| err_leaf H Hnone | discriminate]. rename v0 into curs.
  assert (Hcur : row_currency q = currency_of curs) by (unfold row_currency, str_of; rewrite G8; reflexivity).
  assert (Hp : dec_or0 Col.price (q_price q) = price) by (unfold dec_or0, dec_of; rewrite G5; reflexivity).
  assert (Hq : dec_or0 Col.qty (q_qty q) = qty) by (unfold dec_or0, dec_of; rewrite G6; reflexivity).
  assert (Hc : dec_or0 Col.comm (q_comm q) = comm) by (unfold dec_or0, dec_of; rewrite G7; reflexivity).
  assert (Hisf : is_fxt_row q = false) by (unfold is_fxt_row; rewrite Hact; exact Efxt).
  match type of H with context [cur_is_default (b_cur ?t0)] => set (t := t0) in * end.
  assert (Hflow : row_usd_flow q =
                  if text_eqb (currency_of curs) t_USD
                  then ((if b_buy t then - (price * Qcabs qty) else price * Qcabs qty) - Qcabs comm)%Qc
                  else 0%Qc).
  { unfold row_usd_flow. rewrite Hact, Hcur, Hp, Hq, Hc. subst t. cbn [b_buy].
    change (text_eqb act t_BUY || text_eqb act t_DIS) with (is_buy_action act).
    destruct (is_buy_action act) eqn:Eb.
    - destruct (text_eqb (currency_of curs) t_USD); [ring | reflexivity].
    - rewrite (trade_buy_or_sell act Htr Eb). reflexivity. }
  assert (Htacc : row_sane q = true -> acb_accepts t = true).
  { unfold row_sane. rewrite Hact, Htr, Hq, Hp, Hcur. intros Hs.
    apply andb_true_iff in Hs. destruct Hs as [Hs Hcc]. apply andb_true_iff in Hs. destruct Hs as [Hqz Hpp].
    apply negb_true_iff in Hqz. qc_bool.
    unfold acb_accepts. subst t. cbn [b_shares b_price b_comm b_sec b_rate b_cur].
    rewrite (Qcabs_pos' _ Hqz), Qcabs_nonneg'. apply Qcleb_true in Hpp. rewrite Hpp, Hcc.
    destruct (alias_symbol (c :: s)) eqn:Eal; [exfalso; apply (alias_nonnil c s); exact Eal|]. reflexivity. }
  destruct (cur_is_default (b_cur t)) eqn:Edef.
  - leaf H as Ht Hf Ha He. apply row_good_intro; rewrite ?Ht, ?Hf, ?Ha.
    + constructor.
    + rewrite Hflow. unfold cur_is_default in Edef. subst t. cbn [b_cur] in Edef. rewrite (cad_not_usd _ Edef). cbn. ring.
    + intros r. cbn [conversions rated flat_map app]. rewrite Hisf. reflexivity.
    + intros Hs _. cbn [app]. constructor; [exact (Htacc Hs)|constructor].
    + intros _ Hadj. exact Hadj.
  - rewrite add_implicit_exact in H. cbv zeta in H.
    match type of H with context [Qceqb ?a 0] => set (amt := a) in * end.
    assert (Hamt : amt = ((if b_buy t then - (price * Qcabs qty) else price * Qcabs qty) - Qcabs comm)%Qc) by reflexivity.
    destruct (Qceqb amt 0) eqn:Ez; cbn [bind] in H.
    + leaf H as Ht Hf Ha He. qc_bool. apply row_good_intro; rewrite ?Ht, ?Hf, ?Ha.
      * constructor.
      * rewrite Hflow, <- Hamt, Ez. destruct (text_eqb (currency_of curs) t_USD); cbn; ring.
      * intros r. cbn [conversions rated flat_map app]. rewrite Hisf. reflexivity.
      * intros Hs _. cbn [app]. constructor; [exact (Htacc Hs)|constructor].
      * intros _ Hadj. exact Hadj.
    + destruct (fx_tx (b_cur t) (b_td t) (b_tdt t) amt (b_reg t) (b_row t) (b_acct t) None) as [er|x] eqn:Efx;
        cbn [bind] in H; [err_leaf H Hnone|].
      leaf H as Ht Hf Ha He.
      pose proof (fx_tx_inr _ _ _ _ _ _ _ _ _ Efx) as [Husd Hx].
      qc_bool. apply row_good_intro; rewrite ?Ht, ?Hf, ?Ha.
      * constructor; [|constructor]. apply (fx_is_fx _ _ _ _ _ _ _ _ _ Efx).
      * cbn [signed_sum fold_right]. rewrite (fx_signed _ _ _ _ _ _ _ _ _ Efx), Hflow, <- Hamt.
        subst t. cbn [b_cur] in Husd. rewrite Husd. cbn. ring.
      * intros r. cbn [conversions]. rewrite Hisf. subst x. reflexivity.
      * intros Hs _. cbn [app]. constructor; [exact (Htacc Hs)|]. constructor; [|constructor].
        subst x. unfold acb_accepts. cbn. rewrite (Qcabs_pos' _ Ez). reflexivity.
      * intros _ Hadj. exact Hadj.
Qed.

(* FX transactions carry a tie-break, whatever happens to the row *)
Lemma add_fxt_fx adj fr adj' fx er :
  add_fxt_row exact adj fr = Ok (adj', fx, er) -> Forall (fun t => is_fx t = true) fx.
Proof.
  unfold add_fxt_row. destruct adj as [a|]; [|intros H; inversion H; constructor].
  destruct (if text_eqb (fr_cur a) t_CAD then (a, fr) else (fr, a)) as [cad other].
  destruct (negb (text_eqb (fr_cur cad) t_CAD) || text_eqb (fr_cur other) t_CAD);
    [intros H; inversion H; constructor|].
  destruct (negb (date_eqb (fr_td other) (fr_td cad))); [intros H; inversion H; constructor|].
  destruct (negb (Bool.eqb (fr_reg other) (fr_reg cad)) || negb (account_eqb (fr_acct other) (fr_acct cad)));
    [intros H; inversion H; constructor|].
  cbn [a_mul a_div exact bind].
  destruct (Qcltb 0 (fr_amount cad * fr_amount other)); [intros H; inversion H; constructor|].
  destruct (Qceqb (fr_amount other) 0); cbn [bind]; [intros H; inversion H; constructor|].
  destruct (fx_tx _ _ _ _ _ _ _ _) as [x|t] eqn:Ef; intros H; inversion H; subst; constructor; [|constructor].
  apply (fx_is_fx _ _ _ _ _ _ _ _ _ Ef).
Qed.

Lemma add_implicit_fx t fx er :
  add_implicit_fxt exact t = Ok (fx, er) -> Forall (fun t => is_fx t = true) fx.
Proof.
  rewrite add_implicit_exact. cbv zeta.
  match goal with |- context [Qceqb ?a 0] => destruct (Qceqb a 0) end; [intros H; inversion H; constructor|].
  destruct (fx_tx _ _ _ _ _ _ _ _) as [x|y] eqn:Ef; intros H; inversion H; subst; constructor; [|constructor].
  apply (fx_is_fx _ _ _ _ _ _ _ _ _ Ef).
Qed.

Lemma row_fx_are_fx n q adj e :
  row_effect exact n q adj = Ok e -> Forall (fun t => is_fx t = true) (e_fx e).
Proof.
  intros H. unfold row_effect in H.
  repeat match type of H with
         | gbind ?g _ _ = Ok _ =>
             destruct g; cbn [gbind] in H; cbv beta in H; [ | | discriminate H]
         | (if ?c then _ else _) = Ok _ => destruct c
         | match parse_date ?s with _ => _ end = Ok _ => destruct (parse_date s)
         | match ?sym with [] => _ | _ :: _ => _ end = Ok _ => destruct sym
         end;
  first
    [ apply eff_inv in H; destruct H as (_ & -> & _ & _); repeat constructor
    | match type of H with
      | bind (add_fxt_row exact ?a ?f) _ = _ =>
          let Ea := fresh "Ea" in
          destruct (add_fxt_row exact a f) as [[[adj' fx] er]| |] eqn:Ea; cbn [bind] in H; try discriminate H;
          apply eff_inv in H; destruct H as (_ & -> & _ & _); apply (add_fxt_fx _ _ _ _ _ Ea)
      | bind (add_implicit_fxt exact ?t) _ = _ =>
          let Ea := fresh "Ea" in
          destruct (add_implicit_fxt exact t) as [[fx er]| |] eqn:Ea; cbn [bind] in H; try discriminate H;
          apply eff_inv in H; destruct H as (_ & -> & _ & _); apply (add_implicit_fx _ _ _ Ea)
      | match fx_tx ?a ?b ?c ?d ?e0 ?f ?g ?h with _ => _ end = _ =>
          let Ef := fresh "Ef" in
          destruct (fx_tx a b c d e0 f g h) as [x|t] eqn:Ef; apply eff_inv in H; destruct H as (_ & -> & _ & _);
          constructor; [|constructor]; apply (fx_is_fx _ _ _ _ _ _ _ _ _ Ef)
      end ].
Qed.

(* ---------- all rows ---------- *)
Lemma signed_sum_cons x l : signed_sum (x :: l) = (signed_shares x + signed_sum l)%Qc.
Proof. reflexivity. Qed.
Lemma signed_sum_app a b : signed_sum (a ++ b) = (signed_sum a + signed_sum b)%Qc.
Proof.
  induction a as [|x a IH].
  - change (signed_sum []) with 0%Qc. cbn [app]. ring.
  - rewrite <- app_comm_cons, !signed_sum_cons, IH. ring.
Qed.

Lemma rated_app a b : rated (a ++ b) = rated a ++ rated b.
Proof. unfold rated. apply flat_map_app. Qed.

Lemma convert_rows_fx rows : forall n adj ts fs adj' errs,
  convert_rows exact n rows adj = Ok (ts, fs, adj', errs) -> Forall (fun t => is_fx t = true) fs.
Proof.
  induction rows as [|q r IH]; intros n adj ts fs adj' errs H.
  - cbn in H. inversion H. constructor.
  - cbn [convert_rows] in H.
    destruct (row_effect exact n q adj) as [e| |] eqn:Er; cbn [bind] in H; try discriminate.
    destruct (convert_rows exact (n + 1) r (e_adj e)) as [[[[ts' fs'] a'] errs']| |] eqn:Ec;
      cbn [bind] in H; try discriminate.
    inversion H; subst. apply Forall_app. split; [apply (row_fx_are_fx _ _ _ _ Er) | apply (IH _ _ _ _ _ _ Ec)].
Qed.

Lemma expected_trades_are_trades rows : forall n,
  Forall (fun t => is_trade t = true /\ b_rate t = None) (expected_trades n rows).
Proof.
  induction rows as [|q r IH]; intros n; [constructor|].
  cbn [expected_trades]. apply Forall_app. split; [|apply IH].
  unfold trade_of_row.
  destruct (is_trade_action (action_of q)); [|constructor].
  repeat match goal with
         | |- Forall _ (match match ?x with _ => _ end with _ => _ end) => destruct x; try constructor
         end.
  all: try (split; reflexivity). all: try constructor.
Qed.

Lemma filter_trades ts fs :
  Forall (fun t => is_trade t = true) ts -> Forall (fun t => is_fx t = true) fs ->
  filter is_trade (ts ++ fs) = ts /\ filter is_fx (ts ++ fs) = fs.
Proof.
  intros Ht Hf. rewrite !filter_app. split.
  - replace (filter is_trade fs) with (@nil btx).
    + rewrite app_nil_r. induction Ht as [|x l Hx _ IH]; [reflexivity|]. cbn [filter]. rewrite Hx, IH. reflexivity.
    + induction Hf as [|x l Hx _ IH]; [reflexivity|]. cbn [filter]. unfold is_trade. rewrite Hx. cbn. exact IH.
  - replace (filter is_fx ts) with (@nil btx).
    + cbn [app]. induction Hf as [|x l Hx _ IH]; [reflexivity|]. cbn [filter]. rewrite Hx, IH. reflexivity.
    + induction Ht as [|x l Hx _ IH]; [reflexivity|]. cbn [filter]. unfold is_trade in Hx.
      apply negb_true_iff in Hx. rewrite Hx. exact IH.
Qed.

Lemma convert_split rows txs errs :
  convert exact rows = Ok (txs, errs) ->
  exists ts fs adj' errs', convert_rows exact 2 rows None = Ok (ts, fs, adj', errs') /\
    txs = ts ++ fs /\ errs = errs' ++ unpaired_error adj'.
Proof.
  unfold convert. destruct (convert_rows exact 2 rows None) as [[[[ts fs] a] er]| |]; cbn [bind]; try discriminate.
  intros H. inversion H. exists ts, fs, a, er. auto.
Qed.

(* one row per trade activity, in order, whatever else goes wrong in the sheet *)
Theorem convert_trades rows txs errs :
  convert exact rows = Ok (txs, errs) -> filter is_trade txs = expected_trades 2 rows.
Proof.
  intros H. destruct (convert_split _ _ _ H) as (ts & fs & adj' & errs' & Hc & -> & _).
  pose proof (convert_rows_trades _ _ _ _ _ _ _ Hc) as ->.
  apply filter_trades.
  - pose proof (expected_trades_are_trades rows 2) as Hf. rewrite Forall_forall in *. intros x Hx. apply Hf. exact Hx.
  - apply (convert_rows_fx _ _ _ _ _ _ _ Hc).
Qed.

(* no error anywhere *)
Lemma convert_rows_ok rows : forall n adj ts fs adj',
  convert_rows exact n rows adj = Ok (ts, fs, adj', []) ->
  (signed_sum fs + pend_usd adj' = pend_usd adj + usd_flow rows)%Qc /\
  conversions (pend_of adj) n rows = rated fs /\
  (forallb row_sane rows = true -> adj_sane adj ->
   Forall (fun t => acb_accepts t = true) (ts ++ fs) /\ adj_sane adj').
Proof.
  induction rows as [|q r IH]; intros n adj ts fs adj' H.
  - cbn in H. inversion H; subst. cbn. split; [ring|]. split; [reflexivity|]. intros _ Hadj. split; [constructor|exact Hadj].
  - cbn [convert_rows] in H.
    destruct (row_effect exact n q adj) as [e| |] eqn:Er; cbn [bind] in H; try discriminate.
    destruct (convert_rows exact (n + 1) r (e_adj e)) as [[[[ts' fs'] a'] errs']| |] eqn:Ec;
      cbn [bind] in H; try discriminate.
    inversion H as [[H1 H2 H3 H4]]. subst ts fs adj'.
    destruct (e_err e) eqn:Ee; [discriminate H4|]. cbn [app] in H4. subst errs'.
    destruct (row_ok n q adj e Er Ee) as (_ & Hcash & Hrate & Hacc).
    destruct (IH _ _ _ _ _ Ec) as (IHcash & IHrate & IHacc).
    split; [|split].
    + rewrite signed_sum_app. cbn [usd_flow fold_right]. fold (usd_flow r).
      transitivity (signed_sum (e_fx e) + (pend_usd (e_adj e) + usd_flow r))%Qc; [rewrite <- IHcash; ring|].
      transitivity ((signed_sum (e_fx e) + pend_usd (e_adj e)) + usd_flow r)%Qc; [ring|]. rewrite Hcash. ring.
    + rewrite Hrate, IHrate, rated_app. reflexivity.
    + intros Hsane Hadj.
      cbn [forallb] in Hsane. apply andb_true_iff in Hsane. destruct Hsane as [Hq Hr].
      destruct (Hacc Hq Hadj) as [Ha1 Ha2]. destruct (IHacc Hr Ha2) as [Hb1 Hb2].
      split; [|exact Hb2].
      apply Forall_app in Ha1. destruct Ha1 as [Ha1 Ha1']. apply Forall_app in Hb1. destruct Hb1 as [Hb1 Hb1'].
      repeat (apply Forall_app; split); assumption.
Qed.

Lemma convert_no_error rows txs :
  convert exact rows = Ok (txs, []) ->
  exists ts fs, convert_rows exact 2 rows None = Ok (ts, fs, None, []) /\ txs = ts ++ fs.
Proof.
  intros H. destruct (convert_split _ _ _ H) as (ts & fs & adj' & errs' & Hc & -> & He).
  symmetry in He. apply app_eq_nil in He. destruct He as [-> Hu].
  destruct adj' as [a|]; [discriminate Hu|]. exists ts, fs. auto.
Qed.

Theorem convert_cash rows txs :
  convert exact rows = Ok (txs, []) -> signed_sum (filter is_fx txs) = usd_flow rows.
Proof.
  intros H. destruct (convert_no_error _ _ H) as (ts & fs & Hc & ->).
  destruct (convert_rows_ok _ _ _ _ _ _ Hc) as (Hcash & _ & _).
  pose proof (convert_rows_trades _ _ _ _ _ _ _ Hc) as Hts.
  destruct (filter_trades ts fs) as [_ ->].
  - subst ts. pose proof (expected_trades_are_trades rows 2) as Hf. rewrite Forall_forall in *. intros x Hx. apply Hf. exact Hx.
  - apply (convert_rows_fx _ _ _ _ _ _ _ Hc).
  - cbn [pend_usd] in Hcash. replace (signed_sum fs) with (signed_sum fs + 0)%Qc by ring.
    rewrite Hcash. ring.
Qed.

Lemma rated_trades rows n : rated (expected_trades n rows) = [].
Proof.
  pose proof (expected_trades_are_trades rows n) as H.
  induction H as [|x l [_ Hx] _ IH]; [reflexivity|].
  unfold rated in *. cbn [flat_map]. rewrite Hx, IH. reflexivity.
Qed.

Theorem convert_rates rows txs :
  convert exact rows = Ok (txs, []) -> rated txs = conversions None 2 rows.
Proof.
  intros H. destruct (convert_no_error _ _ H) as (ts & fs & Hc & ->).
  destruct (convert_rows_ok _ _ _ _ _ _ Hc) as (_ & Hrate & _).
  pose proof (convert_rows_trades _ _ _ _ _ _ _ Hc) as ->.
  rewrite rated_app, rated_trades. cbn [app pend_of option_map] in *. symmetry. exact Hrate.
Qed.

Theorem convert_accepted rows txs :
  convert exact rows = Ok (txs, []) -> forallb row_sane rows = true ->
  Forall (fun t => acb_accepts t = true) txs.
Proof.
  intros H Hs. destruct (convert_no_error _ _ H) as (ts & fs & Hc & ->).
  destruct (convert_rows_ok _ _ _ _ _ _ Hc) as (_ & _ & Hacc). apply Hacc; [exact Hs | exact I].
Qed.

(* ---------- run_with_args: filters, rate, sort ---------- *)
Lemma insert_sorted_perm x l : Permutation (insert_sorted x l) (x :: l).
Proof.
  induction l as [|y r IH]; [apply Permutation_refl|].
  cbn [insert_sorted]. destruct (btx_le x y); [apply Permutation_refl|].
  apply perm_trans with (y :: x :: r); [apply perm_skip; exact IH | apply perm_swap].
Qed.

Lemma sort_btx_perm l : Permutation (sort_btx l) l.
Proof.
  induction l as [|x r IH]; [apply perm_nil|].
  unfold sort_btx in *. cbn [fold_right].
  apply perm_trans with (x :: fold_right insert_sorted [] r); [apply insert_sorted_perm | apply perm_skip; exact IH].
Qed.

Lemma perm_filter {A} (f : A -> bool) l l' : Permutation l l' -> Permutation (filter f l) (filter f l').
Proof.
  intros H. induction H as [| x l l' _ IH | x y l | l l' l'' _ IH1 _ IH2].
  - apply perm_nil.
  - cbn [filter]. destruct (f x); [apply perm_skip|]; exact IH.
  - cbn [filter]. destruct (f x), (f y); try apply Permutation_refl. apply perm_swap.
  - apply perm_trans with (filter f l'); assumption.
Qed.

Lemma filter_comm {A} (f g : A -> bool) l : filter f (filter g l) = filter g (filter f l).
Proof.
  induction l as [|x r IH]; [reflexivity|].
  cbn [filter]. destruct (g x) eqn:Eg, (f x) eqn:Ef; cbn [filter]; rewrite ?Eg, ?Ef, IH; reflexivity.
Qed.

Lemma filter_map_inv {A} (p : A -> bool) (f : A -> A) l :
  (forall x, p (f x) = p x) -> filter p (map f l) = map f (filter p l).
Proof.
  intros H. induction l as [|x r IH]; [reflexivity|].
  cbn [map filter]. rewrite H. destruct (p x); cbn [map]; rewrite IH; reflexivity.
Qed.

Lemma apply_rate_is_trade r t : is_trade (apply_rate r t) = is_trade t.
Proof. unfold apply_rate. destruct r; [|reflexivity]. destruct (text_eqb (b_cur t) t_USD); reflexivity. Qed.
Lemma apply_rate_is_fx r t : is_fx (apply_rate r t) = is_fx t.
Proof. unfold apply_rate. destruct r; [|reflexivity]. destruct (text_eqb (b_cur t) t_USD); reflexivity. Qed.
Lemma apply_rate_signed r t : signed_shares (apply_rate r t) = signed_shares t.
Proof. unfold apply_rate. destruct r; [|reflexivity]. destruct (text_eqb (b_cur t) t_USD); reflexivity. Qed.

(* which transactions the options keep *)
Definition keeps (o : opts) (t : btx) : bool :=
  match o_account o with Some f => f (account_str (b_acct t)) | None => true end
  && match o_security o with Some f => f (b_sec t) | None => true end
  && (if o_no_fx o then negb (is_fx_security (b_sec t)) else true).

Lemma filter_and {A} (f g : A -> bool) l : filter (fun x => f x && g x) l = filter g (filter f l).
Proof.
  induction l as [|x r IH]; [reflexivity|]. cbn [filter].
  destruct (f x); cbn [andb filter]; [destruct (g x)|]; rewrite IH; reflexivity.
Qed.
Lemma filter_true {A} (l : list A) : filter (fun _ => true) l = l.
Proof. induction l as [|x r IH]; [reflexivity|]. cbn [filter]. rewrite IH. reflexivity. Qed.

Lemma post_process_shape o txs out :
  post_process o txs = Some out ->
  let pre := map (apply_rate (o_rate o)) (filter (keeps o) txs) in
  out = if o_no_sort o then pre else sort_btx pre.
Proof.
  unfold post_process. intros H.
  assert (Hk : forall t1, (match o_account o with
                           | Some f => Some (filter (fun t => f (account_str (b_acct t))) txs)
                           | None => if Nat.ltb 1 (length (distinct_accounts (map b_acct txs))) then None else Some txs
                           end) = Some t1 ->
          t1 = filter (fun t => match o_account o with Some f => f (account_str (b_acct t)) | None => true end) txs).
  { intros t1. destruct (o_account o); [intros E; inversion E; reflexivity|].
    destruct (Nat.ltb 1 _); [discriminate|]. intros E; inversion E. rewrite filter_true. reflexivity. }
  destruct (match o_account o with Some f => _ | None => _ end) as [t1|] eqn:E1; [|discriminate].
  specialize (Hk t1 eq_refl). inversion H as [Hout]. clear H. cbv zeta.
  assert (Hf : (if o_no_fx o
                then filter (fun t => negb (is_fx_security (b_sec t)))
                       match o_security o with Some f => filter (fun t => f (b_sec t)) t1 | None => t1 end
                else match o_security o with Some f => filter (fun t => f (b_sec t)) t1 | None => t1 end)
               = filter (keeps o) txs).
  { unfold keeps. rewrite !filter_and. rewrite <- Hk.
    destruct (o_security o); destruct (o_no_fx o); rewrite ?filter_true; reflexivity. }
  rewrite Hf. reflexivity.
Qed.

(* one output row per trade activity that passes the filters; in input order
   when --no-sort is given, a permutation of it otherwise *)
Theorem run_trades o txs out :
  post_process o txs = Some out ->
  Permutation (filter is_trade out)
              (map (apply_rate (o_rate o)) (filter (keeps o) (filter is_trade txs))) /\
  (o_no_sort o = true ->
   filter is_trade out = map (apply_rate (o_rate o)) (filter (keeps o) (filter is_trade txs))).
Proof.
  intros H. pose proof (post_process_shape o txs out H) as Hs. cbv zeta in Hs.
  assert (Hpre : filter is_trade (map (apply_rate (o_rate o)) (filter (keeps o) txs))
                 = map (apply_rate (o_rate o)) (filter (keeps o) (filter is_trade txs))).
  { rewrite filter_map_inv by (intros x; apply apply_rate_is_trade). rewrite filter_comm. reflexivity. }
  split.
  - rewrite Hs. destruct (o_no_sort o).
    + rewrite Hpre. apply Permutation_refl.
    + rewrite <- Hpre. apply perm_filter. apply sort_btx_perm.
  - intros Hn. rewrite Hs, Hn. exact Hpre.
Qed.

Lemma apply_rate_accepts r t :
  (forall x, r = Some x -> (0 < x)%Qc) -> acb_accepts t = true -> acb_accepts (apply_rate r t) = true.
Proof.
  intros Hr Ha. unfold apply_rate. destruct r as [x|]; [|exact Ha].
  destruct (text_eqb (b_cur t) t_USD) eqn:Eu; [|exact Ha].
  unfold acb_accepts in *. cbn [b_shares b_price b_comm b_sec b_rate b_cur].
  rewrite !andb_true_iff in Ha. destruct Ha as [[[[H1 H2] H3] H4] _].
  rewrite H1, H2, H3, H4, (usd_not_cad _ Eu). cbn [andb]. apply Qcltb_true. apply Hr. reflexivity.
Qed.

Theorem run_accepted o txs out :
  post_process o txs = Some out ->
  (forall x, o_rate o = Some x -> (0 < x)%Qc) ->
  Forall (fun t => acb_accepts t = true) txs -> Forall (fun t => acb_accepts t = true) out.
Proof.
  intros H Hr Ha. pose proof (post_process_shape o txs out H) as Hs. cbv zeta in Hs.
  assert (Hpre : Forall (fun t => acb_accepts t = true) (map (apply_rate (o_rate o)) (filter (keeps o) txs))).
  { rewrite Forall_forall in *. intros y Hy. apply in_map_iff in Hy. destruct Hy as [t [<- Ht]].
    apply filter_In in Ht. apply apply_rate_accepts; [exact Hr | apply Ha; apply Ht]. }
  rewrite Hs. destruct (o_no_sort o); [exact Hpre|].
  rewrite Forall_forall in *. intros y Hy. apply Hpre.
  apply (Permutation_in y (sort_btx_perm _)). exact Hy.
Qed.

Lemma signed_sum_perm l l' : Permutation l l' -> signed_sum l = signed_sum l'.
Proof.
  intros H. induction H as [| x l l' _ IH | x y l | l l' l'' _ IH1 _ IH2].
  - reflexivity.
  - rewrite !signed_sum_cons, IH. reflexivity.
  - rewrite !signed_sum_cons. ring.
  - rewrite IH1. exact IH2.
Qed.

(* sorting and --usd-exchange-rate do not move cash *)
Theorem run_cash o txs out :
  post_process o txs = Some out ->
  (forall t, In t txs -> keeps o t = true) ->
  signed_sum (filter is_fx out) = signed_sum (filter is_fx txs).
Proof.
  intros H Hk. pose proof (post_process_shape o txs out H) as Hs. cbv zeta in Hs.
  assert (Hkeep : filter (keeps o) txs = txs).
  { clear H Hs. induction txs as [|x r IH]; [reflexivity|]. cbn [filter].
    rewrite (Hk x (or_introl eq_refl)), IH; [reflexivity|]. intros t Ht. apply Hk. right. exact Ht. }
  rewrite Hkeep in Hs.
  assert (Hpre : signed_sum (filter is_fx (map (apply_rate (o_rate o)) txs)) = signed_sum (filter is_fx txs)).
  { rewrite filter_map_inv by (intros x; apply apply_rate_is_fx).
    clear. induction (filter is_fx txs) as [|x r IH]; [reflexivity|].
    cbn [map]. rewrite !signed_sum_cons, apply_rate_signed, IH. reflexivity. }
  rewrite Hs. destruct (o_no_sort o); [exact Hpre|].
  rewrite <- Hpre. apply signed_sum_perm. apply perm_filter. apply sort_btx_perm.
Qed.

(* ---------- column layout ---------- *)
Lemma last_index_app a b name :
  last_index (a ++ b) name =
  match last_index b name with
  | Some j => Some (length a + j)%nat
  | None => last_index a name
  end.
Proof.
  induction a as [|x a IH]; cbn [app last_index length].
  - destruct (last_index b name); reflexivity.
  - rewrite IH. destruct (last_index b name); [reflexivity|]. reflexivity.
Qed.

Lemma last_index_lt l name i : last_index l name = Some i -> (i < length l)%nat.
Proof.
  revert i. induction l as [|x l IH]; intros i H; [discriminate|].
  cbn [last_index] in H. destruct (last_index l name) as [j|].
  - inversion H. specialize (IH j eq_refl). cbn. lia.
  - destruct (cell_is name x); inversion H. cbn. lia.
Qed.

Definition insert_at {A} (k : nat) (x : A) (l : list A) : list A := firstn k l ++ x :: skipn k l.

(* a new column: header cell h, one cell per row *)
Definition insert_col (k : nat) (h : cell) (cells : list cell) (sh : sheet) : sheet :=
  match sh with
  | [] => []
  | hdr :: rows =>
      insert_at k h hdr :: map (fun cr => insert_at k (fst cr) (snd cr)) (combine cells rows)
  end.

Lemma get_insert k h c hdr row name :
  length row = length hdr -> (k <= length hdr)%nat -> cell_is name h = false ->
  get HeaderEnumerated (insert_at k h hdr) (insert_at k c row) name = get HeaderEnumerated hdr row name.
Proof.
  intros Hlen Hk Hh. unfold get, header_index, insert_at.
  assert (Hla : length (firstn k hdr) = k) by (apply firstn_length_le; exact Hk).
  assert (Hra : length (firstn k row) = k) by (apply firstn_length_le; lia).
  pose proof (firstn_skipn k hdr) as Hhdr. pose proof (firstn_skipn k row) as Hrow.
  remember (firstn k hdr) as ha. remember (skipn k hdr) as hb.
  remember (firstn k row) as ra. remember (skipn k row) as rb.
  rewrite <- Hhdr, <- Hrow. rewrite !last_index_app.
  cbn [last_index]. rewrite Hh.
  destruct (last_index hb name) as [j|] eqn:Eb.
  - rewrite Hla. rewrite !nth_error_app2 by lia. rewrite Hra.
    replace (k + S j - k)%nat with (S j) by lia. replace (k + j - k)%nat with j by lia. reflexivity.
  - destruct (last_index ha name) as [i|] eqn:Ea; [|reflexivity].
    apply last_index_lt in Ea. rewrite Hla in Ea.
    rewrite !nth_error_app1 by lia. reflexivity.
Qed.

Definition unrelated_header (h : cell) : bool :=
  forallb (fun name => negb (cell_is name h)) used_headers.

Lemma read_row_insert k h c hdr row :
  length row = length hdr -> (k <= length hdr)%nat -> unrelated_header h = true ->
  read_row HeaderEnumerated (insert_at k h hdr) (insert_at k c row) = read_row HeaderEnumerated hdr row.
Proof.
  intros Hlen Hk Hu. unfold unrelated_header, used_headers in Hu. cbn [forallb] in Hu.
  repeat (apply andb_true_iff in Hu; destruct Hu as [?Hn Hu]).
  repeat match goal with Hx : negb _ = true |- _ => apply negb_true_iff in Hx end.
  unfold read_row. rewrite !get_insert by assumption. reflexivity.
Qed.

(* inserting a column whose header is blank, not a string, or any string that
   is not one of the named headers changes nothing *)
Theorem layout_insert k h cells hdr rows :
  Forall (fun r => length r = length hdr) rows -> (k <= length hdr)%nat ->
  length cells = length rows -> unrelated_header h = true ->
  sheet_rows HeaderEnumerated (insert_col k h cells (hdr :: rows))
  = sheet_rows HeaderEnumerated (hdr :: rows).
Proof.
  intros Hrect Hk Hlen Hu. cbn [insert_col sheet_rows]. f_equal.
  revert cells Hlen. induction Hrect as [|r rows Hr _ IH]; intros cells Hlen.
  - destruct cells; reflexivity.
  - destruct cells as [|c cells]; [discriminate|]. cbn [combine map fst snd].
    rewrite (read_row_insert k h c hdr r Hr Hk Hu). f_equal. apply IH. cbn in Hlen. lia.
Qed.

(* --- permutation of the columns --- *)
Definition permute (p : list nat) (l : list cell) : list cell := map (fun i => nth i l CEmpty) p.
Definition permute_cols (p : list nat) (sh : sheet) : sheet := map (permute p) sh.

Definition at_name (hdr : list cell) (name : text) (i : nat) : Prop :=
  exists s, nth_error hdr i = Some (CStr s) /\ text_eqb s name = true.

Lemma last_index_at hdr name i : last_index hdr name = Some i -> at_name hdr name i.
Proof.
  revert i. induction hdr as [|x l IH]; intros i H; [discriminate|].
  cbn [last_index] in H. destruct (last_index l name) as [j|].
  - inversion H. apply (IH j eq_refl).
  - destruct (cell_is name x) eqn:E; inversion H. unfold cell_is in E. destruct x; try discriminate.
    exists s. split; [reflexivity | exact E].
Qed.

Lemma last_index_none hdr name : last_index hdr name = None -> forall i, ~ at_name hdr name i.
Proof.
  induction hdr as [|x l IH]; intros H i [s [Hn He]]; [destruct i; discriminate|].
  cbn [last_index] in H. destruct (last_index l name) as [j|] eqn:El; [discriminate|].
  destruct (cell_is name x) eqn:E; [discriminate|].
  destruct i as [|i].
  - cbn in Hn. inversion Hn; subst. cbn in E. congruence.
  - apply (IH eq_refl i). exists s. auto.
Qed.

Lemma at_name_some hdr name i : at_name hdr name i -> exists j, last_index hdr name = Some j.
Proof.
  intros H. destruct (last_index hdr name) as [j|] eqn:E; [exists j; reflexivity|].
  exfalso. apply (last_index_none hdr name E i H).
Qed.

Definition unique_name (hdr : list cell) (name : text) : Prop :=
  forall i j, at_name hdr name i -> at_name hdr name j -> i = j.

Lemma get_unique hdr row name i :
  unique_name hdr name -> at_name hdr name i ->
  get HeaderEnumerated hdr row name = match nth_error row i with Some c => Cell c | None => OutOfRow end.
Proof.
  intros Hu Hi. unfold get, header_index. destruct (at_name_some hdr name i Hi) as [j Ej].
  rewrite Ej. rewrite (Hu j i (last_index_at _ _ _ Ej) Hi). reflexivity.
Qed.

Lemma get_absent hdr row name :
  (forall i, ~ at_name hdr name i) -> get HeaderEnumerated hdr row name = NoCol.
Proof.
  intros H. unfold get, header_index. destruct (last_index hdr name) as [j|] eqn:E; [|reflexivity].
  exfalso. apply (H j). apply last_index_at. exact E.
Qed.

Lemma nth_error_permute p l j :
  nth_error (permute p l) j = option_map (fun i => nth i l CEmpty) (nth_error p j).
Proof. unfold permute. apply nth_error_map. Qed.

Lemma at_name_permute p hdr name j :
  at_name (permute p hdr) name j <-> exists i, nth_error p j = Some i /\ at_name hdr name i.
Proof.
  unfold at_name. rewrite nth_error_permute. split.
  - intros [s [Hn He]]. destruct (nth_error p j) as [i|]; [|discriminate]. cbn in Hn. inversion Hn as [Hi].
    exists i. split; [reflexivity|]. exists s. split; [|exact He].
    destruct (nth_error hdr i) as [c|] eqn:E.
    + rewrite (nth_error_nth _ _ CEmpty E) in Hi. subst. reflexivity.
    + apply nth_error_None in E. rewrite nth_overflow in Hi by exact E. discriminate.
  - intros [i [Hp [s [Hn He]]]]. rewrite Hp. cbn. exists s. split; [|exact He].
    rewrite (nth_error_nth _ _ CEmpty Hn). reflexivity.
Qed.

Lemma get_permute p hdr row name :
  NoDup p -> (forall i, (i < length hdr)%nat -> In i p) ->
  length row = length hdr -> unique_name hdr name ->
  get HeaderEnumerated (permute p hdr) (permute p row) name = get HeaderEnumerated hdr row name.
Proof.
  intros Hnd Hall Hlen Hu.
  destruct (last_index hdr name) as [i|] eqn:E.
  - pose proof (last_index_at _ _ _ E) as Hi.
    assert (Hlt : (i < length hdr)%nat) by (apply (last_index_lt _ _ _ E)).
    destruct (In_nth_error p i (Hall i Hlt)) as [j Hj].
    assert (Hu' : unique_name (permute p hdr) name).
    { intros j1 j2 H1 H2. apply at_name_permute in H1. apply at_name_permute in H2.
      destruct H1 as [i1 [P1 A1]]. destruct H2 as [i2 [P2 A2]].
      assert (i1 = i2) by (apply Hu; assumption). subst i2.
      apply (proj1 (NoDup_nth_error p) Hnd).
      - apply nth_error_Some. rewrite P1. discriminate.
      - rewrite P1, P2. reflexivity. }
    rewrite (get_unique (permute p hdr) (permute p row) name j Hu').
    2:{ apply at_name_permute. exists i. auto. }
    rewrite (get_unique hdr row name i Hu Hi).
    rewrite nth_error_permute, Hj. cbn [option_map].
    destruct (nth_error row i) as [c|] eqn:Er.
    + rewrite (nth_error_nth _ _ CEmpty Er). reflexivity.
    + apply nth_error_None in Er. lia.
  - rewrite (get_absent hdr row name (last_index_none _ _ E)).
    apply get_absent. intros j Hj. apply at_name_permute in Hj. destruct Hj as [i [_ Hi]].
    apply (last_index_none _ _ E i Hi).
Qed.

Theorem layout_permute p hdr rows :
  NoDup p -> (forall i, (i < length hdr)%nat -> In i p) ->
  Forall (fun r => length r = length hdr) rows ->
  Forall (unique_name hdr) used_headers ->
  sheet_rows HeaderEnumerated (permute_cols p (hdr :: rows))
  = sheet_rows HeaderEnumerated (hdr :: rows).
Proof.
  intros Hnd Hall Hrect Hu. cbn [permute_cols map sheet_rows]. f_equal.
  rewrite map_map. apply map_ext_in. intros r Hr.
  rewrite Forall_forall in Hrect. specialize (Hrect r Hr).
  unfold used_headers in Hu.
  repeat match goal with
         | Hx : Forall _ (_ :: _) |- _ => inversion Hx; clear Hx; subst
         end.
  unfold read_row. rewrite !get_permute by assumption. reflexivity.
Qed.

(* the whole run only looks at the rows *)
Lemma run_ext A pol o sh sh' :
  sheet_rows pol sh = sheet_rows pol sh' -> run A pol o sh = run A pol o sh'.
Proof. unfold run. intros ->. reflexivity. Qed.

(* ---------- examples and the pre-fix header reading ---------- *)
Definition ex_header : list cell := [CStr [84;114;97;110;115;97;99;116;105;111;110;32;68;97;116;101]; CStr [83;101;116;116;108;101;109;101;110;116;32;68;97;116;101]; CStr [65;99;116;105;111;110]; CStr [83;121;109;98;111;108]; CStr [68;101;115;99;114;105;112;116;105;111;110]; CStr [81;117;97;110;116;105;116;121]; CStr [80;114;105;99;101]; CStr [71;114;111;115;115;32;65;109;111;117;110;116]; CStr [67;111;109;109;105;115;115;105;111;110]; CStr [78;101;116;32;65;109;111;117;110;116]; CStr [67;117;114;114;101;110;99;121]; CStr [65;99;99;111;117;110;116;32;35]; CStr [65;99;116;105;118;105;116;121;32;84;121;112;101]; CStr [65;99;99;111;117;110;116;32;84;121;112;101]].
Definition ex_rows : list (list cell) :=
  [[CStr [50;48;50;51;45;48;49;45;48;51;32;49;50;58;48;48;58;48;48;32;65;77]; CStr [50;48;50;51;45;48;49;45;48;53;32;49;50;58;48;48;58;48;48;32;65;77]; CStr [66;117;121]; CStr [70;79;79]; CStr [100]; CFloat (Some (Qcfrac (10) 1)) [49;48]; CFloat (Some (Qcfrac (25) 2)) [49;50;46;53]; CFloat (Some (Qcfrac (0) 1)) [48]; CFloat (Some (Qcfrac (-99) 20)) [45;52;46;57;53]; CFloat (Some (Qcfrac (-2599) 20)) [45;49;50;57;46;57;53]; CStr [85;83;68]; CStr [49;50;51;52;53;54;55;56]; CStr [84;114;97;100;101;115]; CStr [73;110;100;105;118;105;100;117;97;108;32;109;97;114;103;105;110]];
   [CStr [50;48;50;51;45;48;49;45;48;52;32;49;50;58;48;48;58;48;48;32;65;77]; CStr [50;48;50;51;45;48;49;45;48;54;32;49;50;58;48;48;58;48;48;32;65;77]; CStr [83;101;108;108]; CStr [70;79;79]; CStr [100]; CFloat (Some (Qcfrac (-3) 1)) [45;51]; CFloat (Some (Qcfrac (13) 1)) [49;51]; CFloat (Some (Qcfrac (0) 1)) [48]; CFloat (Some (Qcfrac (-99) 20)) [45;52;46;57;53]; CFloat (Some (Qcfrac (681) 20)) [51;52;46;48;53]; CStr [67;65;68]; CStr [49;50;51;52;53;54;55;56]; CStr [84;114;97;100;101;115]; CStr [73;110;100;105;118;105;100;117;97;108;32;109;97;114;103;105;110]];
   [CStr [50;48;50;51;45;48;49;45;48;52;32;49;50;58;48;48;58;48;48;32;65;77]; CStr [50;48;50;51;45;48;49;45;48;52;32;49;50;58;48;48;58;48;48;32;65;77]; CStr [70;88;84]; CEmpty; CStr [100]; CFloat (Some (Qcfrac (0) 1)) [48]; CFloat (Some (Qcfrac (0) 1)) [48]; CFloat (Some (Qcfrac (0) 1)) [48]; CFloat (Some (Qcfrac (0) 1)) [48]; CFloat (Some (Qcfrac (-1350) 1)) [45;49;51;53;48]; CStr [67;65;68]; CStr [49;50;51;52;53;54;55;56]; CStr [84;114;97;100;101;115]; CStr [73;110;100;105;118;105;100;117;97;108;32;109;97;114;103;105;110]];
   [CStr [50;48;50;51;45;48;49;45;48;52;32;49;50;58;48;48;58;48;48;32;65;77]; CStr [50;48;50;51;45;48;49;45;48;52;32;49;50;58;48;48;58;48;48;32;65;77]; CStr [70;88;84]; CEmpty; CStr [100]; CFloat (Some (Qcfrac (0) 1)) [48]; CFloat (Some (Qcfrac (0) 1)) [48]; CFloat (Some (Qcfrac (0) 1)) [48]; CFloat (Some (Qcfrac (0) 1)) [48]; CFloat (Some (Qcfrac (1000) 1)) [49;48;48;48]; CStr [85;83;68]; CStr [49;50;51;52;53;54;55;56]; CStr [84;114;97;100;101;115]; CStr [73;110;100;105;118;105;100;117;97;108;32;109;97;114;103;105;110]];
   [CStr [50;48;50;51;45;48;49;45;48;57;32;49;50;58;48;48;58;48;48;32;65;77]; CStr [50;48;50;51;45;48;49;45;48;57;32;49;50;58;48;48;58;48;48;32;65;77]; CStr [68;73;86]; CStr [70;79;79]; CStr [100]; CFloat (Some (Qcfrac (0) 1)) [48]; CFloat (Some (Qcfrac (0) 1)) [48]; CFloat (Some (Qcfrac (0) 1)) [48]; CFloat (Some (Qcfrac (0) 1)) [48]; CFloat (Some (Qcfrac (617) 50)) [49;50;46;51;52]; CStr [85;83;68]; CStr [49;50;51;52;53;54;55;56]; CStr [84;114;97;100;101;115]; CStr [73;110;100;105;118;105;100;117;97;108;32;109;97;114;103;105;110]];
   [CStr [50;48;50;51;45;48;49;45;49;48;32;49;50;58;48;48;58;48;48;32;65;77]; CStr [50;48;50;51;45;48;49;45;49;48;32;49;50;58;48;48;58;48;48;32;65;77]; CStr [68;69;80]; CEmpty; CStr [100]; CFloat (Some (Qcfrac (0) 1)) [48]; CFloat (Some (Qcfrac (0) 1)) [48]; CFloat (Some (Qcfrac (0) 1)) [48]; CFloat (Some (Qcfrac (0) 1)) [48]; CFloat (Some (Qcfrac (500) 1)) [53;48;48]; CStr [67;65;68]; CStr [49;50;51;52;53;54;55;56]; CStr [84;114;97;100;101;115]; CStr [73;110;100;105;118;105;100;117;97;108;32;109;97;114;103;105;110]]].
Definition ex_sheet : sheet := ex_header :: ex_rows.
Definition junk : cell := CStr [106;117;110;107].
Definition no_opts : opts :=
  {| o_account := None; o_security := None; o_no_fx := false; o_no_sort := false; o_rate := None |}.

(* a blank-headed column before Quantity (column 5) *)
Definition ex_sheet_blank : sheet := insert_col 5 CEmpty [junk; junk; junk; junk; junk; junk] ex_sheet.

Definition out_rows (r : res run_result) : list btx :=
  match r with Ok (RunOut rows _) => rows | _ => [] end.
Definition out_errs (r : res run_result) : list (N * N) :=
  match r with Ok (RunOut _ e) => e | Ok (RunFatal e) => e | _ => [] end.

(* the code before the fix: the column indices shift, Quantity reads "junk" *)
Lemma blank_header_filtered_differs :
  out_errs (run exact HeaderFiltered no_opts ex_sheet) = [] /\
  length (out_rows (run exact HeaderFiltered no_opts ex_sheet)) = 5%nat /\
  out_errs (run exact HeaderFiltered no_opts ex_sheet_blank)
  = [(2, QErr.bad_number Col.qty); (3, QErr.bad_number Col.qty); (5, QErr.fxt_not_one_cad)]%N /\
  length (out_rows (run exact HeaderFiltered no_opts ex_sheet_blank)) = 0%nat.
Proof. vm_compute. repeat split. Qed.

Lemma blank_header_enumerated_same :
  run exact HeaderEnumerated no_opts ex_sheet_blank = run exact HeaderEnumerated no_opts ex_sheet.
Proof.
  apply run_ext. unfold ex_sheet_blank, ex_sheet.
  apply layout_insert; [ | vm_compute; lia | reflexivity | reflexivity].
  repeat constructor.
Qed.

Lemma ex_sheet_facts :
  exists rows txs,
    sheet_rows HeaderEnumerated ex_sheet = Some rows /\
    convert exact rows = Ok (txs, []) /\ forallb row_sane rows = true /\
    length (filter is_trade txs) = 2%nat /\ length (filter is_fx txs) = 3%nat /\
    Qceqb (usd_flow rows) (Qcfrac 88239 100) = true /\
    map (fun c => (this (fst (fst c)), this (snd (fst c)), snd c)) (rated txs)
    = [(1000 # 1, 27 # 20, 5%N)]%Q.
Proof.
  eexists. eexists. split; [reflexivity|]. split; [vm_compute; reflexivity|].
  vm_compute. repeat split.
Qed.
