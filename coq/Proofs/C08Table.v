(* C08, rendered tables: the table of a security is a function of that
   security's ledger outcome (its deltas and its error) only; the read index of
   a row occurs in it only as the token of the memo cell.  Any arithmetic. *)
From Coq Require Import List NArith ZArith QArith Qcanon Bool Lia.
From ACB Require Import Model.CsvFields.
From ACB Require Import Base.Outcome Base.QcExtra Base.Arith Model.Tx Model.Ledger Model.Sfl
     Model.DeltaList Model.App Model.Gains Model.Render Model.AppRender
     Proofs.Tactics Proofs.EraseRi Proofs.SortLayout Proofs.Layout.
Import ListNotations.

Notation rmap := Render.map_res.

Lemma gain_rows_erase ds : gain_rows (map erase_d ds) = gain_rows ds.
Proof. unfold gain_rows. rewrite map_map. apply map_ext. intros d. reflexivity. Qed.

Lemma own_gains_erase A r : own_gains A (erase_result r) = own_gains A r.
Proof. unfold own_gains, erase_result. cbn [fst snd]. rewrite gain_rows_erase. reflexivity. Qed.

Lemma footer_gains_erase A r : footer_gains A (erase_result r) = footer_gains A r.
Proof. unfold footer_gains. rewrite own_gains_erase. reflexivity. Qed.

Definition blank_state (st : rstate) : rstate :=
  {| rs_rows := map blank_memo_row (rs_rows st); rs_sfl := rs_sfl st; rs_over := rs_over st |}.

Section Erase.
  Variable A : arith.
  Variable full : bool.
  Variable cur : tx -> bytes * bytes.
  (* the currency codes of a row are the row's own: not a matter of where in
     the input the row stands *)
  Hypothesis Hcur : forall t, cur (erase t) = cur t.

  Lemma sfl_note_erase d : sfl_note A full (erase_d d) = sfl_note A full d.
  Proof. reflexivity. Qed.

  Lemma row_parts_erase d note : row_parts A full cur (erase_d d) note = row_parts A full cur d note.
  Proof.
    unfold row_parts, commission_cell. cbn [erase_d d_tx].
    change (t_act (erase (d_tx d))) with (t_act (d_tx d)).
    destruct (t_act (d_tx d)); rewrite ?Hcur; reflexivity.
  Qed.

  Lemma render_row_erase d note :
    render_row A full cur (erase_d d) note = rmap blank_memo_row (render_row A full cur d note).
  Proof.
    unfold render_row. rewrite row_parts_erase.
    destruct (row_parts A full cur d note) as [p| |]; cbn [bind Render.map_res]; try reflexivity.
    change (acb_per_share A full (erase_d d)) with (acb_per_share A full d).
    destruct (acb_per_share A full d) as [aps| |]; cbn [bind Render.map_res]; try reflexivity.
    change (acb_delta_cell A full (erase_d d)) with (acb_delta_cell A full d).
    destruct (acb_delta_cell A full d) as [dl| |]; cbn [bind Render.map_res]; reflexivity.
  Qed.

  Lemma render_step_erase st d :
    render_step A full cur (blank_state st) (erase_d d) = rmap blank_state (render_step A full cur st d).
  Proof.
    unfold render_step. rewrite sfl_note_erase.
    destruct (sfl_note A full d) as [note| |]; cbn [bind Render.map_res]; try reflexivity.
    rewrite render_row_erase.
    destruct (render_row A full cur d note) as [row| |]; cbn [bind Render.map_res]; try reflexivity.
    destruct note as [n|]; unfold blank_state; cbn [rs_rows rs_sfl rs_over];
      rewrite map_app; reflexivity.
  Qed.

  Lemma render_loop_erase ds : forall st,
    render_loop A full cur (blank_state st) (map erase_d ds) = rmap blank_state (render_loop A full cur st ds).
  Proof.
    induction ds as [|d ds IH]; intros st; cbn [map render_loop]; [reflexivity|].
    rewrite render_step_erase.
    destruct (render_step A full cur st d) as [st'| |]; cbn [bind Render.map_res]; try reflexivity.
    apply IH.
  Qed.

  (* the read indices of the rows occur in a table as the memo tokens only *)
  Theorem render_table_erase ds g :
    render_table A full cur (map erase_d ds) g = rmap blank_memo (render_table A full cur ds g).
  Proof.
    unfold render_table.
    change {| rs_rows := []; rs_sfl := false; rs_over := false |}
      with (blank_state {| rs_rows := []; rs_sfl := false; rs_over := false |}) at 1.
    rewrite render_loop_erase.
    destruct (render_loop A full cur _ ds) as [st| |]; cbn [bind Render.map_res]; try reflexivity.
    destruct (year_values A full g (years_sorted g)) as [yv| |]; cbn [bind Render.map_res]; try reflexivity.
    destruct (plus_minus A full (g_total g) false) as [t| |]; cbn [bind Render.map_res]; reflexivity.
  Qed.

  Theorem own_table_erase r :
    own_table A full cur (erase_result r) = rmap blank_memo (own_table A full cur r).
  Proof.
    unfold own_table. rewrite footer_gains_erase.
    destruct (footer_gains A r) as [g| |]; cbn [bind Render.map_res]; try reflexivity.
    unfold erase_result. cbn [fst]. apply render_table_erase.
  Qed.

  (* two outcomes equal up to read indices: same error, same own gains, same
     table up to the memo tokens *)
  Theorem same_outcome_same_entry r r' :
    erase_result r = erase_result r' ->
    snd r = snd r' /\ own_errors r = own_errors r' /\
    own_gains A r = own_gains A r' /\
    footer_gains A r = footer_gains A r' /\
    rmap blank_memo (own_table A full cur r) = rmap blank_memo (own_table A full cur r').
  Proof.
    intros H.
    assert (Hs : snd r = snd r') by (apply (f_equal snd) in H; exact H).
    split; [exact Hs|]. split; [unfold own_errors; rewrite Hs; reflexivity|].
    split; [rewrite <- (own_gains_erase A r), H; apply own_gains_erase|].
    split; [rewrite <- (footer_gains_erase A r), H; apply footer_gains_erase|].
    rewrite <- !own_table_erase, H. reflexivity.
  Qed.

  (* C08 for the rendered table: rows of other securities, in any interleaving,
     failing or not, change nothing in the table of s *)
  Theorem table_independent init s a b i :
    interleave a b i ->
    Forall (fun y => N.eqb (t_sec y) s = false) b ->
    let ri := sec_result_of A init (txs_of_sec s (sort_txs (number i))) in
    let ra := sec_result_of A init (txs_of_sec s (sort_txs (number a))) in
    snd ri = snd ra /\ own_errors ri = own_errors ra /\
    own_gains A ri = own_gains A ra /\
    footer_gains A ri = footer_gains A ra /\
    rmap blank_memo (own_table A full cur ri) = rmap blank_memo (own_table A full cur ra).
  Proof.
    intros Hi Hb ri ra. apply same_outcome_same_entry.
    apply (independent_of_other_securities A init s a b i Hi Hb).
  Qed.
End Erase.
