(* C10: the holdings at the cut.  After the summarised prefix the ledger
   remembers, of every affiliate, the post status of its last reported row;
   last_idxs / sort_afis / per_affiliate (Model/Summary.v) generate one
   purchase from exactly those rows. *)
From Coq Require Import List NArith ZArith QArith Qcanon Bool Lia Sorted Permutation.
From ACB Require Import Base.Outcome Base.QcExtra Base.Arith Model.Tx Model.Ledger Model.Sfl
     Model.DeltaList Model.App Model.Summary Spec.AvgCost Proofs.Tactics Proofs.C15Full Proofs.C04Sum
     Proofs.C04Inv Proofs.C04Reject Proofs.SortPerm Proofs.RenderProps Proofs.C01Refine Proofs.SummaryProps
     Proofs.C10Scan Proofs.C10Sim Proofs.C10Roundtrip.
Import ListNotations.
Local Open Scope Qc_scope.

Lemma find_app {T} (f : T -> bool) a b :
  find f (a ++ b) = match find f a with Some x => Some x | None => find f b end.
Proof. induction a as [|x a IH]; cbn [app find]; [reflexivity|]. destruct (f x); [reflexivity | exact IH]. Qed.

(* ---------------------------------------------------------------- what the ledger remembers *)
Definition same_id (id : N) (d : delta) : bool := N.eqb id (af_id (t_af (d_tx d))).
Definition last_of (id : N) (ds : list delta) : option delta := find (same_id id) (rev ds).
Definition post_obs (d : delta) : Qc * option Qc := (s_sh (d_post d), s_acb (d_post d)).
Definition obs_after (id : N) (acc : Qc * option Qc) (ds : list delta) : Qc * option Qc :=
  match last_of id ds with Some d => post_obs d | None => acc end.

Lemma last_of_cons id d ds :
  last_of id (d :: ds) = match last_of id ds with
                         | Some x => Some x
                         | None => if same_id id d then Some d else None
                         end.
Proof. unfold last_of. cbn [rev]. rewrite find_app. cbn [find]. reflexivity. Qed.
Lemma last_of_app id a b :
  last_of id (a ++ b) = match last_of id b with Some x => Some x | None => last_of id a end.
Proof. unfold last_of. rewrite rev_app_distr, find_app. reflexivity. Qed.

Lemma obs_after_cons id acc d ds :
  obs_after id acc (d :: ds) = obs_after id (if same_id id d then post_obs d else acc) ds.
Proof. unfold obs_after. rewrite last_of_cons. destruct (last_of id ds); [reflexivity|]. destruct (same_id id d); reflexivity. Qed.
Lemma obs_after_app id acc a b : obs_after id acc (a ++ b) = obs_after id (obs_after id acc a) b.
Proof. unfold obs_after. rewrite last_of_app. destruct (last_of id b); reflexivity. Qed.

Lemma obs_step st af v st1 d af2 :
  set_latest exact st af v = Ok st1 -> t_af (d_tx d) = af -> d_post d = v ->
  obs st1 af2 = if same_id (af_id af2) d then post_obs d else obs st af2.
Proof. intros Hs <- <-. rewrite (obs_set _ _ _ _ af2 Hs). reflexivity. Qed.

Lemma run_injected_obs inj : forall bef st aft ds b st',
  run_injected exact bef st inj aft = (ds, b, st', None) ->
  forall af, obs st' af = obs_after (af_id af) (obs st af) ds.
Proof.
  induction inj as [|t inj IH]; intros bef st aft ds b st' H af; cbn [run_injected] in H.
  - inversion H; subst. reflexivity.
  - destruct (delta_for_tx exact bef t (inj ++ aft) st) as [[d i]| |] eqn:Ed; try discriminate.
    destruct (set_latest exact st (t_af t) (d_post d)) as [st1| |] eqn:Es; try discriminate.
    destruct (run_injected exact (t :: bef) st1 inj aft) as [[[ds0 b0] s0] o0] eqn:Er.
    inversion H; subst. rewrite obs_after_cons, (IH _ _ _ _ _ _ Er af).
    rewrite (obs_step _ _ _ _ d af Es (f_equal t_af (delta_tx_eq _ _ _ _ _ _ _ Ed)) eq_refl). reflexivity.
Qed.

Lemma run_part_obs l1 : forall bef st l2 ds b st',
  run_part exact bef st l1 l2 = (ds, b, st', None) ->
  forall af, obs st' af = obs_after (af_id af) (obs st af) ds.
Proof.
  induction l1 as [|t l IH]; intros bef st l2 ds b st' H af; cbn [run_part] in H.
  - inversion H; subst. reflexivity.
  - destruct (delta_for_tx exact bef t (l ++ l2) st) as [[d inj]| |] eqn:Ed; try discriminate.
    destruct (set_latest exact st (t_af t) (d_post d)) as [st1| |] eqn:Es; try discriminate.
    destruct (run_injected exact (t :: bef) st1 inj (l ++ l2)) as [[[dsi b1] st2] o1] eqn:Ei.
    destruct o1; [discriminate|].
    destruct (run_part exact b1 st2 l l2) as [[[ds' b2] st3] o'] eqn:Er. inversion H; subst.
    rewrite obs_after_cons, obs_after_app, (IH _ _ _ _ _ _ Er af), (run_injected_obs _ _ _ _ _ _ _ Ei af).
    rewrite (obs_step _ _ _ _ d af Es (f_equal t_af (delta_tx_eq _ _ _ _ _ _ _ Ed)) eq_refl). reflexivity.
Qed.

(* ---------------------------------------------------------------- the total, and the keys of the map *)
Definition st_inv2 (st : pstate) : Prop := st_sum st /\ NoDup (map fst (ps_map st)) /\ st_ok st.

Lemma set_latest_inv2 st af v st1 : set_latest exact st af v = Ok st1 -> status_ok v -> st_inv2 st -> st_inv2 st1.
Proof.
  intros Hs Hv (H1 & H2 & H3). destruct (set_latest_sum _ _ _ _ Hs H1) as (Em & _ & Hs1).
  split; [exact Hs1|]. split; [rewrite Em; apply keys_aupdate_nodup; exact H2|].
  eapply set_latest_ok; eassumption.
Qed.
Lemma run_injected_inv2 inj : forall bef st aft ds b st',
  run_injected exact bef st inj aft = (ds, b, st', None) -> st_inv2 st -> st_inv2 st'.
Proof.
  induction inj as [|t inj IH]; intros bef st aft ds b st' H Hi; cbn [run_injected] in H.
  - inversion H; subst. exact Hi.
  - destruct (delta_for_tx exact bef t (inj ++ aft) st) as [[d i]| |] eqn:Ed; try discriminate.
    destruct (set_latest exact st (t_af t) (d_post d)) as [st1| |] eqn:Es; try discriminate.
    destruct (run_injected exact (t :: bef) st1 inj aft) as [[[ds0 b0] s0] o0] eqn:Er.
    inversion H; subst. eapply IH; [exact Er|].
    destruct (delta_for_tx_ok _ _ _ _ _ _ _ Ed (proj2 (proj2 Hi))) as [_ (Hok & _)].
    eapply set_latest_inv2; eassumption.
Qed.
Lemma run_part_inv2 l1 : forall bef st l2 ds b st',
  run_part exact bef st l1 l2 = (ds, b, st', None) -> st_inv2 st -> st_inv2 st'.
Proof.
  induction l1 as [|t l IH]; intros bef st l2 ds b st' H Hi; cbn [run_part] in H.
  - inversion H; subst. exact Hi.
  - destruct (delta_for_tx exact bef t (l ++ l2) st) as [[d inj]| |] eqn:Ed; try discriminate.
    destruct (set_latest exact st (t_af t) (d_post d)) as [st1| |] eqn:Es; try discriminate.
    destruct (run_injected exact (t :: bef) st1 inj (l ++ l2)) as [[[dsi b1] st2] o1] eqn:Ei.
    destruct o1; [discriminate|].
    destruct (run_part exact b1 st2 l l2) as [[[ds' b2] st3] o'] eqn:Er. inversion H; subst.
    eapply IH; [exact Er|]. eapply run_injected_inv2; [exact Ei|].
    destruct (delta_for_tx_ok _ _ _ _ _ _ _ Ed (proj2 (proj2 Hi))) as [_ (Hok & _)].
    eapply set_latest_inv2; eassumption.
Qed.
Lemma st0_inv2 : st_inv2 st0.
Proof. split; [reflexivity|]. split; [constructor|]. split; [constructor | cbn; qc_lra]. Qed.

(* the holdings as an association list *)
Definition hs_assoc (hs : list hold_row) : holdings :=
  map (fun h : hold_row => (af_id (fst (fst h)), (s_sh (snd (fst h)), s_acb (snd (fst h))))) hs.
Lemma total_held_assoc hs : total_shares (hs_assoc hs) = total_held hs.
Proof. induction hs as [|h hs IH]; cbn [hs_assoc map total_shares total_held fst snd]; [reflexivity|]. fold (hs_assoc hs). rewrite IH. reflexivity. Qed.
Lemma held_obs_assoc hs af x : fst (held_obs hs af (0, x)) = shares_of (hs_assoc hs) (af_id af).
Proof.
  unfold held_obs, find_hold, shares_of. induction hs as [|h hs IH]; cbn [find hs_assoc map alookup fst snd]; [reflexivity|].
  fold (hs_assoc hs). rewrite (N.eqb_sym (af_id af)). destruct (N.eqb (af_id (fst (fst h))) (af_id af)); [reflexivity | exact IH].
Qed.
Lemma keys_assoc hs : map fst (hs_assoc hs) = map (fun h : hold_row => af_id (fst (fst h))) hs.
Proof. unfold hs_assoc. rewrite map_map. reflexivity. Qed.

(* from the observations to the total *)
Lemma total_from_obs regof st (hs : list hold_row) :
  st_inv2 st ->
  NoDup (map (fun h : hold_row => af_id (fst (fst h))) hs) ->
  Forall (fun h : hold_row => 0 < s_sh (snd (fst h))) hs ->
  (forall af, goodaf regof af -> obs st af = held_obs hs af (0, if af_reg af then None else Some 0)) ->
  ps_all st = total_held hs.
Proof.
  intros (Hsum & Hnd & _) Hndh Hpos Hobs. unfold st_sum in Hsum. rewrite Hsum, <- total_held_assoc.
  set (m := abs_map (ps_map st)). set (ks := map fst m).
  assert (Hndm : NoDup (map fst m)).
  { unfold m, abs_map. rewrite map_map. cbn [fst]. exact Hnd. }
  assert (Hg : forall k, fst (obs st {| af_id := k; af_reg := regof k; af_dflt := false |})
                         = shares_of (hs_assoc hs) k).
  { intros k. assert (Hgk : goodaf regof {| af_id := k; af_reg := regof k; af_dflt := false |}) by reflexivity.
    rewrite (Hobs _ Hgk). apply (held_obs_assoc hs {| af_id := k; af_reg := regof k; af_dflt := false |}). }
  assert (Hincl : incl (map fst (hs_assoc hs)) ks).
  { intros k Hk. rewrite keys_assoc in Hk. apply in_map_iff in Hk as (h & <- & Hh).
    rewrite Forall_forall in Hpos. specialize (Hpos h Hh).
    pose proof (Hg (af_id (fst (fst h)))) as E. rewrite obs_sh_shares in E. cbn [af_id] in E. fold m in E.
    assert (Es : shares_of (hs_assoc hs) (af_id (fst (fst h))) = s_sh (snd (fst h))).
    { unfold shares_of. rewrite (SortPerm.alookup_in _ (s_sh (snd (fst h)), s_acb (snd (fst h)))); [reflexivity| |].
      - rewrite keys_assoc. exact Hndh.
      - unfold hs_assoc. apply in_map_iff. exists h. split; [reflexivity | exact Hh]. }
    rewrite Es in E. unfold shares_of in E. unfold ks.
    destruct (alookup (af_id (fst (fst h))) m) as [v|] eqn:El.
    - apply alookup_some_in in El. apply in_map_iff. exists (af_id (fst (fst h)), v). split; [reflexivity | exact El].
    - exfalso. rewrite <- E in Hpos. qc_lra. }
  rewrite <- (sum_superset m Hndm ks Hndm (incl_refl _)).
  rewrite <- (sum_superset (hs_assoc hs) ltac:(rewrite keys_assoc; exact Hndh) ks Hndm Hincl).
  apply sum_ids_ext. intros k _. rewrite <- (Hg k), obs_sh_shares. reflexivity.
Qed.

(* ---------------------------------------------------------------- last_idxs *)
Definition id_in (af : aff) (acc : list (aff * nat)) : bool := existsb (fun x => aff_eqb (fst x) af) acc.
Definition fid (id : N) (x : nat * delta) : bool := same_id id (snd x).

Lemma last_idxs_spec r : forall acc,
  (forall af i, In (af, i) (last_idxs r acc) ->
     In (af, i) acc \/ (id_in af acc = false /\ exists d, find (fid (af_id af)) r = Some (i, d) /\ af = t_af (d_tx d)))
  /\ (NoDup (map (fun x => af_id (fst x)) acc) -> NoDup (map (fun x => af_id (fst x)) (last_idxs r acc)))
  /\ (forall x, In x r -> exists a, In a (last_idxs r acc) /\ af_id (fst a) = af_id (t_af (d_tx (snd x))))
  /\ incl acc (last_idxs r acc).
Proof.
  induction r as [|[i d] r IH]; intros acc; cbn [last_idxs].
  - repeat split; auto. intros x []. apply incl_refl.
  - fold (id_in (t_af (d_tx d)) acc). destruct (id_in (t_af (d_tx d)) acc) eqn:Ein.
    + destruct (IH acc) as (I1 & I2 & I3 & I4). repeat split; auto.
      * intros af j Hin. destruct (I1 af j Hin) as [Ha|(Hn & d' & Hf & Haf)]; [left; exact Ha|right].
        split; [exact Hn|]. exists d'. split; [|exact Haf]. cbn [find]. unfold fid at 1, same_id. cbn [snd].
        destruct (N.eqb_spec (af_id af) (af_id (t_af (d_tx d)))) as [E|_]; [|exact Hf].
        exfalso. unfold id_in in *. apply existsb_exists in Ein as (x & Hx & Hex).
        assert (Ht : existsb (fun x0 => aff_eqb (fst x0) af) acc = true); [|congruence].
        apply existsb_exists. exists x. split; [exact Hx|]. unfold aff_eqb in *. rewrite E. exact Hex.
      * intros x [<-|Hx]; [|apply I3; exact Hx]. cbn [snd].
        unfold id_in in Ein. apply existsb_exists in Ein as (x & Hx & Hex).
        exists x. split; [apply I4; exact Hx|]. unfold aff_eqb in Hex. apply N.eqb_eq in Hex. exact Hex.
    + destruct (IH (acc ++ [(t_af (d_tx d), i)])) as (I1 & I2 & I3 & I4). repeat split.
      * intros af j Hin. destruct (I1 af j Hin) as [Ha|(Hn & d' & Hf & Haf)].
        -- apply in_app_or in Ha as [Ha|[Ha|[]]]; [left; exact Ha|right]. inversion Ha; subst af j.
           split; [exact Ein|]. exists d. split; [|reflexivity]. cbn [find]. unfold fid, same_id. cbn [snd].
           rewrite N.eqb_refl. reflexivity.
        -- right. unfold id_in in Hn. rewrite existsb_app in Hn. apply orb_false_iff in Hn as [Hn1 Hn2].
           split; [exact Hn1|]. exists d'. split; [|exact Haf]. cbn [find]. unfold fid at 1, same_id. cbn [snd].
           cbn [existsb fst orb] in Hn2. rewrite orb_false_r in Hn2. unfold aff_eqb in Hn2.
           rewrite N.eqb_sym, Hn2. exact Hf.
      * intros Hnd. apply I2. rewrite map_app. cbn [map fst]. apply NoDup_snoc; [exact Hnd|].
        intros Hc. apply in_map_iff in Hc as (x & Ex & Hx).
        assert (Ht : id_in (t_af (d_tx d)) acc = true); [|congruence].
        unfold id_in. apply existsb_exists. exists x. split; [exact Hx|]. unfold aff_eqb. rewrite Ex. apply N.eqb_refl.
      * intros x [<-|Hx]; [|apply I3; exact Hx]. cbn [snd].
        exists (t_af (d_tx d), i). split; [|reflexivity]. apply I4. apply in_or_app. right. left. reflexivity.
      * intros x Hx. apply I4. apply in_or_app. left. exact Hx.
Qed.

Lemma indexed_In {T} (l : list T) : forall k i x, In (i, x) (indexed k l) -> (k <= i)%nat /\ nth_error l (i - k) = Some x.
Proof.
  induction l as [|y l IH]; intros k i x H; cbn [indexed] in H; [destruct H|].
  destruct H as [H|H].
  - inversion H; subst. rewrite Nat.sub_diag. split; [lia | reflexivity].
  - destruct (IH _ _ _ H) as [Hle Hn]. split; [lia|].
    replace (i - k)%nat with (S (i - S k)) by lia. exact Hn.
Qed.
Lemma nth_error_indexed {T} (l : list T) : forall k i x, nth_error l i = Some x -> In ((i + k)%nat, x) (indexed k l).
Proof.
  induction l as [|y l IH]; intros k i x Hi; [destruct i; discriminate|].
  destruct i as [|i]; cbn [nth_error indexed] in *.
  - inversion Hi; subst. left. reflexivity.
  - right. replace (S i + k)%nat with (i + S k)%nat by lia. apply IH. exact Hi.
Qed.
Lemma indexed_snd {T} (l : list T) k : map snd (indexed k l) = l.
Proof. revert k. induction l as [|y l IH]; intros k; cbn [indexed map snd]; [reflexivity|]. rewrite IH. reflexivity. Qed.
Lemma find_map_snd {U} (f : U -> bool) (l : list (nat * U)) i x :
  find (fun p => f (snd p)) l = Some (i, x) -> find f (map snd l) = Some x.
Proof.
  induction l as [|[j y] l IH]; cbn [find map snd]; [discriminate|].
  destruct (f y); [intros H; inversion H; reflexivity | exact IH].
Qed.

Lemma ins_afi_perm a l : Permutation (ins_afi a l) (a :: l).
Proof.
  induction l as [|b l IH]; cbn [ins_afi]; [reflexivity|].
  destruct (N.leb _ _); [reflexivity|]. rewrite IH. apply perm_swap.
Qed.
Lemma sort_afis_perm l : Permutation (sort_afis l) l.
Proof. induction l as [|a l IH]; cbn; [constructor|]. rewrite ins_afi_perm. constructor. exact IH. Qed.

(* the affiliates of the summary, with their last summarised row *)
Definition afs_of (dsP : list delta) : list (aff * nat) := sort_afis (last_idxs (rev (indexed 0 dsP)) []).

Lemma afs_of_spec dsP :
  NoDup (map (fun x : aff * nat => af_id (fst x)) (afs_of dsP))
  /\ (forall af i, In (af, i) (afs_of dsP) ->
        exists d, nth_error dsP i = Some d /\ af = t_af (d_tx d) /\ last_of (af_id af) dsP = Some d)
  /\ (forall id d, last_of id dsP = Some d -> exists i, In (t_af (d_tx d), i) (afs_of dsP)).
Proof.
  unfold afs_of. set (r := rev (indexed 0 dsP)).
  destruct (last_idxs_spec r []) as (I1 & I2 & I3 & _).
  pose proof (sort_afis_perm (last_idxs r [])) as Hp.
  assert (Hspec : forall af i, In (af, i) (last_idxs r []) ->
            exists d, nth_error dsP i = Some d /\ af = t_af (d_tx d) /\ last_of (af_id af) dsP = Some d).
  { intros af i Hin. destruct (I1 af i Hin) as [[]|(_ & d & Hf & Haf)]. exists d.
    pose proof (find_some _ _ Hf) as [Hin' _]. unfold r in Hin'. apply in_rev in Hin'.
    apply indexed_In in Hin' as [_ Hn]. rewrite Nat.sub_0_r in Hn.
    repeat split; [exact Hn | exact Haf|].
    unfold last_of. apply (find_map_snd (same_id (af_id af))) in Hf.
    unfold r in Hf. rewrite map_rev, indexed_snd in Hf. exact Hf. }
  split; [|split].
  - eapply Permutation_NoDup; [apply Permutation_map; symmetry; exact Hp|]. apply I2. constructor.
  - intros af i Hin. apply Hspec. eapply Permutation_in; [exact Hp | exact Hin].
  - intros id d Hl. unfold last_of in Hl. pose proof (find_some _ _ Hl) as [Hin Hid].
    apply in_rev in Hin. apply In_nth_error in Hin as [i Hi].
    assert (Hr : In (i, d) r).
    { unfold r. apply -> in_rev. rewrite <- (Nat.add_0_r i). apply nth_error_indexed. exact Hi. }
    destruct (I3 _ Hr) as ([af j] & Ha & Eid). cbn [fst snd] in Eid.
    destruct (Hspec af j Ha) as (d' & Hn' & Haf & Hl').
    unfold same_id in Hid. apply N.eqb_eq in Hid.
    assert (Ed : d' = d).
    { rewrite Eid, <- Hid in Hl'. unfold last_of in Hl'. rewrite Hl in Hl'. inversion Hl'; reflexivity. }
    subst d'. exists j. rewrite <- Haf. eapply Permutation_in; [symmetry; exact Hp | exact Ha].
Qed.

(* ---------------------------------------------------------------- the generated purchases *)
Definition hs_of (ds : list delta) (dflt : delta) (afs : list (aff * nat)) : list hold_row :=
  flat_map (fun x : aff * nat => let d := nth (snd x) ds dflt in
              if Qcltb 0 (s_sh (d_post d)) then [(fst x, d_post d, d_sd d)] else []) afs.

Lemma per_affiliate_simple like ds dflt afs :
  (forall x, In x afs -> let d := nth (snd x) ds dflt in
     t_sec (d_tx d) = t_sec like /\ (0 < s_sh (d_post d) -> holding_ok (fst x) (d_post d))) ->
  per_affiliate exact false ds dflt afs = Ok (map (hold_tx like) (hs_of ds dflt afs)).
Proof.
  induction afs as [|[af i] afs IH]; intros H; cbn [per_affiliate hs_of flat_map]; [reflexivity|].
  fold (hs_of ds dflt afs). rewrite IH by (intros x Hx; apply H; right; exact Hx).
  destruct (H (af, i) (or_introl eq_refl)) as [Hsec Hok]. cbn [fst snd] in *.
  set (d := nth i ds dflt) in *.
  destruct (Qcltb_spec 0 (s_sh (d_post d))) as [Hp|Hp].
  - rewrite (simple_summary_exact af d (Hok Hp)). cbn [bind app map hold_tx].
    unfold summary_buy, mk_tx. rewrite Hsec. reflexivity.
  - unfold simple_summary. destruct (Qcltb_spec 0 (s_sh (d_post d))); [contradiction|]. reflexivity.
Qed.

Lemma find_hold_hs_of ds dflt afs : NoDup (map (fun x : aff * nat => af_id (fst x)) afs) -> forall af,
  find_hold (hs_of ds dflt afs) af
  = match find (fun x : aff * nat => N.eqb (af_id (fst x)) (af_id af)) afs with
    | Some x => let d := nth (snd x) ds dflt in
                if Qcltb 0 (s_sh (d_post d)) then Some (fst x, d_post d, d_sd d) else None
    | None => None
    end.
Proof.
  induction afs as [|x afs IH]; intros Hnd af; [reflexivity|].
  apply NoDup_cons_iff in Hnd as [Hni Hnd]. cbn [hs_of flat_map find]. fold (hs_of ds dflt afs).
  unfold find_hold in *. rewrite find_app.
  destruct (N.eqb (af_id (fst x)) (af_id af)) eqn:E.
  - cbv zeta. destruct (Qcltb 0 (s_sh (d_post (nth (snd x) ds dflt)))).
    + cbn [find fst]. rewrite E. reflexivity.
    + cbn [find]. rewrite (IH Hnd af).
      destruct (find (fun x0 : aff * nat => N.eqb (af_id (fst x0)) (af_id af)) afs) as [y|] eqn:Ef; [|reflexivity].
      exfalso. apply find_some in Ef as [Hy Ey]. apply N.eqb_eq in E. apply N.eqb_eq in Ey.
      apply Hni. apply in_map_iff. exists y. split; [congruence | exact Hy].
  - destruct (Qcltb 0 (s_sh (d_post (nth (snd x) ds dflt)))).
    + cbn [find fst]. rewrite E. apply (IH Hnd af).
    + cbn [find]. apply (IH Hnd af).
Qed.

Lemma hs_of_in ds dflt afs h : In h (hs_of ds dflt afs) ->
  exists x, In x afs /\ let d := nth (snd x) ds dflt in
                       0 < s_sh (d_post d) /\ h = (fst x, d_post d, d_sd d).
Proof.
  unfold hs_of. intros H. apply in_flat_map in H as (x & Hx & Hh). exists x. split; [exact Hx|]. cbv zeta in *.
  destruct (Qcltb_spec 0 (s_sh (d_post (nth (snd x) ds dflt)))) as [Hp|]; [|destruct Hh].
  destruct Hh as [<-|[]]. split; [exact Hp | reflexivity].
Qed.

Lemma hs_of_nodup ds dflt afs : NoDup (map (fun x : aff * nat => af_id (fst x)) afs) ->
  NoDup (map (fun h : hold_row => af_id (fst (fst h))) (hs_of ds dflt afs)).
Proof.
  induction afs as [|x afs IH]; intros Hnd; [constructor|].
  apply NoDup_cons_iff in Hnd as [Hni Hnd]. cbn [hs_of flat_map]. fold (hs_of ds dflt afs).
  cbv zeta. destruct (Qcltb 0 (s_sh (d_post (nth (snd x) ds dflt)))); cbn [app map fst]; [|apply IH; exact Hnd].
  constructor; [|apply IH; exact Hnd]. intros Hc. apply in_map_iff in Hc as (h & Eh & Hh).
  apply hs_of_in in Hh as (y & Hy & _ & ->). cbn [fst] in Eh. apply Hni. apply in_map_iff. exists y. split; assumption.
Qed.

(* the ledger state after the summarised rows, and the holdings of the summary *)
Theorem holdings_at_cut regof dsP rest dflt st1 :
  (forall af, obs st1 af = obs_after (af_id af) (obs st0 af) dsP) ->
  Forall row_ok dsP -> Forall (gooddelta regof) dsP ->
  (forall x, In x (afs_of dsP) -> let post := d_post (nth (snd x) (dsP ++ rest) dflt) in
       s_sh post = 0 -> forall c, s_acb post = Some c -> c = 0) ->
  let hs := hs_of (dsP ++ rest) dflt (afs_of dsP) in
  NoDup (map (fun h : hold_row => af_id (fst (fst h))) hs)
  /\ Forall (fun h : hold_row => holding_ok (fst (fst h)) (snd (fst h))) hs
  /\ Forall (fun h : hold_row => exists d, In d dsP /\ snd h = d_sd d) hs
  /\ (forall x, In x (afs_of dsP) -> let d := nth (snd x) (dsP ++ rest) dflt in
        In d dsP /\ (0 < s_sh (d_post d) -> holding_ok (fst x) (d_post d)))
  /\ (forall af, goodaf regof af -> obs st1 af = held_obs hs af (0, if af_reg af then None else Some 0)).
Proof.
  intros Hobs Hok Hgood HK3 hs.
  destruct (afs_of_spec dsP) as (Hnd & Hspec & Hcomp).
  assert (Hnth : forall i d, nth_error dsP i = Some d -> nth i (dsP ++ rest) dflt = d).
  { intros i d Hn. rewrite app_nth1 by (apply nth_error_Some; congruence).
    apply nth_error_nth. exact Hn. }
  assert (Hx : forall x, In x (afs_of dsP) -> let d := nth (snd x) (dsP ++ rest) dflt in
              In d dsP /\ fst x = t_af (d_tx d) /\ last_of (af_id (fst x)) dsP = Some d
              /\ (0 < s_sh (d_post d) -> holding_ok (fst x) (d_post d))).
  { intros [af i] Hin. cbn [fst snd]. destruct (Hspec af i Hin) as (d & Hn & Haf & Hl).
    rewrite (Hnth i d Hn). split; [eapply nth_error_In; exact Hn|]. split; [exact Haf|]. split; [exact Hl|].
    intros Hp. split; [exact Hp|]. rewrite Forall_forall in Hok.
    destruct (Hok d (nth_error_In _ _ Hn)) as ((_ & _ & Hacb) & Hr1 & Hr2). rewrite Haf.
    destruct (s_acb (d_post d)) as [c|] eqn:Ec.
    - split; [|apply Hacb; reflexivity]. destruct (af_reg (t_af (d_tx d))) eqn:Er; [|reflexivity].
      destruct (Hr1 eq_refl) as [Hn' _]. discriminate.
    - destruct (af_reg (t_af (d_tx d))) eqn:Er; [reflexivity|]. exfalso. apply (Hr2 eq_refl). reflexivity. }
  split; [apply hs_of_nodup; exact Hnd|]. split; [|split; [|split]].
  - apply Forall_forall. intros h Hh. apply hs_of_in in Hh as (x & Hxin & Hp & ->). cbn [fst snd].
    destruct (Hx x Hxin) as (_ & _ & _ & Hho). apply Hho. exact Hp.
  - apply Forall_forall. intros h Hh. apply hs_of_in in Hh as (x & Hxin & Hp & ->). cbn [fst snd].
    destruct (Hx x Hxin) as (Hin & _). eexists. split; [exact Hin | reflexivity].
  - intros x Hxin. destruct (Hx x Hxin) as (Hin & _ & _ & Hho). split; assumption.
  - intros af Hg. rewrite (Hobs af). unfold held_obs. unfold hs. rewrite (find_hold_hs_of _ _ _ Hnd af).
    unfold obs_after.
    destruct (find (fun x : aff * nat => N.eqb (af_id (fst x)) (af_id af)) (afs_of dsP)) as [x|] eqn:Ef.
    + apply find_some in Ef as [Hxin Eid]. apply N.eqb_eq in Eid.
      destruct (Hx x Hxin) as (Hin & Haf & Hl & _). rewrite Eid in Hl. rewrite Hl. cbv zeta.
      set (d := nth (snd x) (dsP ++ rest) dflt) in *.
      destruct (Qcltb_spec 0 (s_sh (d_post d))) as [Hp|Hp]; [reflexivity|].
      rewrite Forall_forall in Hok, Hgood. destruct (Hok d Hin) as ((Hsh & _ & _) & Hr1 & Hr2).
      assert (Hz : s_sh (d_post d) = 0) by (apply Qcle_antisym; [apply Qcnot_lt_le; exact Hp | exact Hsh]).
      assert (Hreg : af_reg af = af_reg (t_af (d_tx d))).
      { specialize (Hgood d Hin). unfold gooddelta, goodtx, goodaf in *. rewrite Hg, Hgood, <- Haf, Eid. reflexivity. }
      unfold post_obs. rewrite Hz, Hreg. f_equal.
      destruct (af_reg (t_af (d_tx d))) eqn:Er.
      * destruct (Hr1 eq_refl) as [Hn' _]. exact Hn'.
      * destruct (s_acb (d_post d)) as [c|] eqn:Ec; [|exfalso; apply (Hr2 eq_refl); reflexivity].
        f_equal. apply (HK3 x Hxin Hz c Ec).
    + destruct (last_of (af_id af) dsP) as [d|] eqn:El; [|reflexivity].
      exfalso. destruct (Hcomp _ _ El) as (i & Hin).
      apply (find_none _ _ Ef) in Hin. cbn [fst] in Hin.
      unfold last_of in El. apply find_some in El as [_ Eid]. unfold same_id in Eid.
      apply N.eqb_eq in Eid. rewrite <- Eid, N.eqb_refl in Hin. discriminate.
Qed.
