(* C10: the round trip at the level of the ledger loop.  The full history is
   cut in three: the summarised prefix P, the rows K re-emitted verbatim
   (sales with their superficial loss made explicit, generated adjustments as
   ordinary rows) and the later rows T.  The re-run processes the generated
   purchases G, then K' = the re-emitted rows, then T. *)
From Coq Require Import List NArith ZArith QArith Qcanon Bool Lia.
From ACB Require Import Base.Outcome Base.QcExtra Base.Arith Model.Tx Model.Ledger Model.Sfl
     Model.DeltaList Model.App Model.Summary Proofs.Tactics Proofs.C15Full Proofs.C04Sum
     Proofs.RenderProps Proofs.C01Refine Proofs.SummaryProps Proofs.C10Scan Proofs.C10Sim Proofs.C10Cut Proofs.C04Inv.
Import ListNotations.
Local Open Scope Qc_scope.

Definition all_before (first : Z) (B : list tx) : Prop := Forall (fun b => (t_sd b < first)%Z) B.
Lemma all_before_out first B : all_before first B -> out_of first B.
Proof. destruct B as [|b B]; intros H; cbn [out_of]; [exact I | exact (Forall_inv H)]. Qed.
Lemma all_before_inert A first B : all_before first B -> inert A first B.
Proof. intros H. apply out_inert. apply all_before_out. exact H. Qed.

(* the window condition of a reported row: the rows B1 (full history) and B2
   (re-run) standing before the common part lie before its window *)
Definition wcond (B1 B2 : list tx) (d : delta) : Prop :=
  (d_sfl d <> None -> inert exact (d_sd d - window_days) B1 /\ inert exact (d_sd d - window_days) B2)
  /\ (d_sfl d = None -> loss_row d -> inert exact (d_sd d - window_days) B2).

Lemma sfla_not_sell t : is_sfla (t_act t) = true -> is_sell (t_act t) = false.
Proof. destruct (t_act t); try discriminate; reflexivity. Qed.

(* a row without superficial loss generates no rows *)
Lemma delta_for_tx_noinj A bef t aft st d inj :
  delta_for_tx A bef t aft st = Ok (d, inj) -> d_sfl d = None -> inj = [].
Proof.
  unfold delta_for_tx. intros H Hn. bind_as H as u Eu.
  destruct (t_act t) as [n price com rate crate | n price com rate crate sp | amount rate
                        | n amount | post pre_ io];
    try (bind_as H as d0 Ed; inversion H; reflexivity).
  bind_as H as c Ec. destruct (sc_gain c) as [g|]; [|inversion H; reflexivity].
  destruct (Qcltb g 0).
  - bind_as H as m Em. destruct m as [[info inj']|]; [|inversion H; reflexivity].
    bind_as H as g' Eg. inversion H; subst. discriminate.
  - destruct sp; [discriminate|]. inversion H; reflexivity.
Qed.

(* ---------------------------------------------------------------- shapes of a run *)
Lemma run_injected_shape inj : Forall (fun x => is_sfla (t_act x) = true) inj ->
  forall bef st aft dsi b st',
  run_injected exact bef st inj aft = (dsi, b, st', None) ->
  map d_tx dsi = inj /\ Forall (fun d => d_sfl d = None) dsi /\ b = rev inj ++ bef.
Proof.
  induction 1 as [|t inj Ht HF IH]; intros bef st aft dsi b st' H; cbn [run_injected] in H.
  - inversion H; subst. repeat split. constructor.
  - destruct (delta_for_tx exact bef t (inj ++ aft) st) as [[d i]| |] eqn:Ed; try discriminate.
    destruct (set_latest exact st (t_af t) (d_post d)) as [st1| |]; try discriminate.
    destruct (run_injected exact (t :: bef) st1 inj aft) as [[[ds b0] s0] o0] eqn:Er.
    inversion H; subst. clear H.
    destruct (IH _ _ _ _ _ _ Er) as (E1 & E2 & E3).
    pose proof (delta_for_tx_sfl _ _ _ _ _ _ _ Ed) as [Etx Hs].
    repeat split.
    + cbn [map]. rewrite Etx, E1. reflexivity.
    + constructor; [|exact E2]. destruct (d_sfl d) eqn:E; [|reflexivity].
      exfalso. assert (Hn : Some s <> None) by discriminate. destruct (Hs Hn) as [_ Hsell].
      rewrite (sfla_not_sell _ Ht) in Hsell. discriminate.
    + rewrite E3. cbn [rev]. rewrite <- app_assoc. reflexivity.
Qed.

Lemma run_part_bef l1 : forall bef st l2 ds b st',
  run_part exact bef st l1 l2 = (ds, b, st', None) -> b = rev (map d_tx ds) ++ bef.
Proof.
  induction l1 as [|t l1 IH]; intros bef st l2 ds b st' H; cbn [run_part] in H.
  - inversion H; subst. reflexivity.
  - destruct (delta_for_tx exact bef t (l1 ++ l2) st) as [[d inj]| |] eqn:Ed; try discriminate.
    destruct (set_latest exact st (t_af t) (d_post d)) as [st1| |]; try discriminate.
    destruct (run_injected exact (t :: bef) st1 inj (l1 ++ l2)) as [[[dsi b1] st2] o] eqn:Ei.
    destruct o; [discriminate|].
    destruct (run_part exact b1 st2 l1 l2) as [[[ds' b2] st3] o'] eqn:Er. inversion H; subst. clear H.
    destruct (run_injected_shape inj (C01Refine.delta_for_tx_inj _ _ _ _ _ _ _ Ed) _ _ _ _ _ _ Ei) as (E1 & _ & E3).
    rewrite (IH _ _ _ _ _ _ Er), E3. cbn [map rev]. rewrite map_app, rev_app_distr, E1.
    rewrite (delta_tx_eq _ _ _ _ _ _ _ Ed). rewrite <- !app_assoc. reflexivity.
Qed.

(* the ledger state stays well formed along an accepted run *)
Lemma step_ok bef t aft st d inj st1 :
  delta_for_tx exact bef t aft st = Ok (d, inj) -> set_latest exact st (t_af t) (d_post d) = Ok st1 ->
  st_ok st -> st_ok st1.
Proof.
  intros Ed Es Hok. destruct (delta_for_tx_ok exact _ _ _ _ _ _ Ed Hok) as [_ (Hs & _)].
  exact (set_latest_ok exact _ _ _ _ Es Hok Hs).
Qed.
Lemma run_injected_ok inj : forall bef st aft ds b st',
  run_injected exact bef st inj aft = (ds, b, st', None) -> st_ok st -> st_ok st'.
Proof.
  induction inj as [|t inj IH]; intros bef st aft ds b st' H Hi; cbn [run_injected] in H.
  - inversion H; subst. exact Hi.
  - destruct (delta_for_tx exact bef t (inj ++ aft) st) as [[d i]| |] eqn:Ed; try discriminate.
    destruct (set_latest exact st (t_af t) (d_post d)) as [st1| |] eqn:Es; try discriminate.
    destruct (run_injected exact (t :: bef) st1 inj aft) as [[[ds0 b0] s0] o0] eqn:Er.
    inversion H; subst. eapply IH; [exact Er|]. eapply step_ok; eassumption.
Qed.
Lemma run_part_ok l1 : forall bef st l2 ds b st',
  run_part exact bef st l1 l2 = (ds, b, st', None) -> st_ok st -> st_ok st'.
Proof.
  induction l1 as [|t l IH]; intros bef st l2 ds b st' H Hi; cbn [run_part] in H.
  - inversion H; subst. exact Hi.
  - destruct (delta_for_tx exact bef t (l ++ l2) st) as [[d inj]| |] eqn:Ed; try discriminate.
    destruct (set_latest exact st (t_af t) (d_post d)) as [st1| |] eqn:Es; try discriminate.
    destruct (run_injected exact (t :: bef) st1 inj (l ++ l2)) as [[[dsi b1] st2] o1] eqn:Ei.
    destruct o1; [discriminate|].
    destruct (run_part exact b1 st2 l l2) as [[[ds' b2] st3] o'] eqn:Er. inversion H; subst.
    eapply IH; [exact Er|]. eapply run_injected_ok; [exact Ei|]. eapply step_ok; eassumption.
Qed.

Definition gooddelta (regof : N -> bool) (d : delta) : Prop := goodtx regof (d_tx d).

Section Tail.
  Variables B1 B2 : list tx.
  Variable regof : N -> bool.

  (* ---------------------------------------------------------------- generated adjustments, the same in both runs *)
  Lemma injected_sim inj : Forall (fun x => is_sfla (t_act x) = true /\ goodtx regof x) inj ->
    forall D1 D2 st1 st2 aft1 aft2 dsi b1 st1',
    Forall2 row_sim D2 D1 -> srel regof st1 st2 ->
    run_injected exact (D1 ++ B1) st1 inj aft1 = (dsi, b1, st1', None) ->
    exists D1' D2' st2', run_injected exact (D2 ++ B2) st2 inj aft2 = (dsi, D2' ++ B2, st2', None)
       /\ b1 = D1' ++ B1 /\ Forall2 row_sim D2' D1' /\ srel regof st1' st2'.
  Proof.
    induction 1 as [|t inj [Ht Hgt] HF IH]; intros D1 D2 st1 st2 aft1 aft2 dsi b1 st1' HD HR H; cbn [run_injected] in *.
    - inversion H; subst. exists D1, D2, st2. auto.
    - rewrite (delta_for_tx_nonsell regof (D2 ++ B2) (D1 ++ B1) t (inj ++ aft2) (inj ++ aft1) st2 st1 HR Hgt (sfla_not_sell _ Ht)).
      destruct (delta_for_tx exact (D1 ++ B1) t (inj ++ aft1) st1) as [[d i]| |]; try discriminate.
      destruct (set_latest exact st1 (t_af t) (d_post d)) as [st1a| |] eqn:Es; try discriminate.
      destruct (set_latest_srel _ _ _ _ _ _ HR Es) as (st2a & Es2 & HRa). rewrite Es2.
      destruct (run_injected exact (t :: D1 ++ B1) st1a inj aft1) as [[[ds b] s'] o'] eqn:Er.
      inversion H; subst. clear H.
      assert (HD' : Forall2 row_sim (t :: D2) (t :: D1)) by (constructor; [apply row_sim_refl | exact HD]).
      destruct (IH (t :: D1) (t :: D2) st1a st2a aft1 aft2 ds b1 st1' HD' HRa Er) as (D1' & D2' & st2' & E & Eb & HD2 & HR2).
      cbn [app] in E. rewrite E. exists D1', D2', st2'. auto.
  Qed.

  (* ---------------------------------------------------------------- the later rows *)
  Lemma later_sim T : forall D1 D2 st1 st2 dsT,
    Forall2 row_sim D2 D1 -> srel regof st1 st2 -> Forall spec_nz T ->
    st_ok st1 -> Forall sell_pos T ->
    run_loop exact (D1 ++ B1) st1 T = (dsT, None) -> Forall (wcond B1 B2) dsT ->
    Forall (gooddelta regof) dsT ->
    run_loop exact (D2 ++ B2) st2 T = (dsT, None).
  Proof.
    induction T as [|t T IH]; intros D1 D2 st1 st2 dsT HD HR Hnz Hok Hsp H HW HG; cbn [run_loop] in *.
    - exact H.
    - apply Forall_cons_iff in Hnz as [Hnt Hnz]. apply Forall_cons_iff in Hsp as [Hspt Hsp].
      destruct (delta_for_tx exact (D1 ++ B1) t T st1) as [[d inj]| |] eqn:Ed; try discriminate.
      destruct (set_latest exact st1 (t_af t) (d_post d)) as [st1a| |] eqn:Es; try discriminate.
      destruct (run_injected exact (t :: D1 ++ B1) st1a inj T) as [[[dsi b1] st1b] o] eqn:Ei.
      destruct o; [discriminate|].
      destruct (run_loop exact b1 st1b T) as [ds o'] eqn:Er. inversion H; subst dsT o'. clear H.
      apply Forall_cons_iff in HW as [[HW1 HW2] HW]. apply Forall_app in HW as [HWi HWr].
      apply Forall_cons_iff in HG as [HGd HG]. apply Forall_app in HG as [HGi HGr].
      pose proof (delta_tx_eq _ _ _ _ _ _ _ Ed) as Etx. unfold d_sd in HW1, HW2. rewrite Etx in HW1, HW2.
      unfold gooddelta in HGd. rewrite Etx in HGd.
      pose proof (C01Refine.delta_for_tx_inj _ _ _ _ _ _ _ Ed) as Hsf.
      assert (Hinj : Forall (fun x => is_sfla (t_act x) = true /\ goodtx regof x) inj).
      { destruct (run_injected_shape inj Hsf _ _ _ _ _ _ Ei) as (E1 & _ & _). rewrite <- E1 in Hsf |- *.
        clear -Hsf HGi. induction dsi as [|x r IHr]; cbn [map] in *; constructor.
        - split; [exact (Forall_inv Hsf) | exact (Forall_inv HGi)].
        - apply IHr; [exact (Forall_inv_tail HGi) | exact (Forall_inv_tail Hsf)]. }
      assert (Hok1b : st_ok st1b).
      { eapply run_injected_ok; [exact Ei|]. exact (step_ok _ _ _ _ _ _ _ Ed Es Hok). }
      rewrite (delta_for_tx_sim regof (D2 ++ B2) (D1 ++ B1) t T T st2 st1 d inj HR HGd Hnt Hok Hspt Ed (FwdEq_refl _ _)).
      + destruct (set_latest_srel _ _ _ _ _ _ HR Es) as (st2a & Es2 & HRa). rewrite Es2.
        assert (HD' : Forall2 row_sim (t :: D2) (t :: D1)) by (constructor; [apply row_sim_refl | exact HD]).
        destruct (injected_sim inj Hinj (t :: D1) (t :: D2) st1a st2a T T
                    dsi b1 st1b HD' HRa Ei) as (D1' & D2' & st2b & E & Eb & HD2 & HR2).
        cbn [app] in E. rewrite E. subst b1.
        rewrite (IH D1' D2' st1b st2b ds HD2 HR2 Hnz Hok1b Hsp Er HWr HGr). reflexivity.
      + intros Hs dflt adj s. destruct (HW1 Hs) as [Ho1 Ho2]. apply bwd_same; assumption.
      + intros Hs Hl dflt adj s s1 Hb. eapply bwd_prefix; [exact HD | exact (HW2 Hs Hl) | exact Hb].
  Qed.
End Tail.

(* ---------------------------------------------------------------- re-emission *)
Lemma keep_all_app a b : keep_all (a ++ b) = (x <- keep_all a ;; y <- keep_all b ;; Ok (x ++ y)).
Proof.
  induction a as [|d a IH]; cbn [app keep_all bind].
  - destruct (keep_all b); reflexivity.
  - destruct (keep_delta d); cbn [bind]; try reflexivity. rewrite IH.
    destruct (keep_all a); cbn [bind]; try reflexivity. destruct (keep_all b); reflexivity.
Qed.
Lemma keep_all_nosfl ds : Forall (fun d => d_sfl d = None) ds -> keep_all ds = Ok (map d_tx ds).
Proof.
  induction 1 as [|d ds Hd HF IH]; cbn [keep_all map]; [reflexivity|].
  unfold keep_delta. rewrite Hd. cbn [bind]. rewrite IH. reflexivity.
Qed.
Lemma keep_delta_sfl d i sh aps com rate crate spec :
  d_sfl d = Some i -> t_act (d_tx d) = Sell sh aps com rate crate spec ->
  keep_delta d = Ok (respec (d_tx d) (Some (sf_amount i, force_of spec))).
Proof. intros Hs Ha. unfold keep_delta, respec. rewrite Hs, Ha. reflexivity. Qed.
Lemma keep_delta_sim d k : keep_delta d = Ok k -> row_sim k (d_tx d).
Proof.
  unfold keep_delta. destruct (d_sfl d) as [i|].
  - destruct (t_act (d_tx d)) eqn:Ea; try discriminate. intros H. inversion H; subst k.
    eexists. unfold respec. rewrite Ea. reflexivity.
  - intros H. inversion H; subst. apply row_sim_refl.
Qed.

Lemma fw_rel_sflas c inj r2 r1 :
  Forall (fun x => is_sfla (t_act x) = true) inj -> Forall (fun x => t_sd x = c) inj ->
  fw_rel c r2 r1 -> fw_rel c (inj ++ r2) r1.
Proof.
  induction 1 as [|t inj Ht HF IH]; intros Hsd Hr; cbn [app]; [exact Hr|].
  apply Forall_cons_iff in Hsd as [Ht2 Hsd]. apply fw_sfla; auto.
Qed.

(* the re-emitted rows are the original rows with sales re-specified and the
   generated adjustments made explicit *)
Lemma kept_fw K : forall bef st T ds b st' K',
  run_part exact bef st K T = (ds, b, st', None) -> keep_all ds = Ok K' -> forall c, fw_rel c K' K.
Proof.
  induction K as [|t K IH]; intros bef st T ds b st' K' H Hk c; cbn [run_part] in H.
  - inversion H; subst. cbn in Hk. inversion Hk. constructor.
  - destruct (delta_for_tx exact bef t (K ++ T) st) as [[d inj]| |] eqn:Ed; try discriminate.
    destruct (set_latest exact st (t_af t) (d_post d)) as [st1| |]; try discriminate.
    destruct (run_injected exact (t :: bef) st1 inj (K ++ T)) as [[[dsi b1] st2] o] eqn:Ei.
    destruct o; [discriminate|].
    destruct (run_part exact b1 st2 K T) as [[[ds' b2] st3] o'] eqn:Er. inversion H; subst. clear H.
    pose proof (C01Refine.delta_for_tx_inj _ _ _ _ _ _ _ Ed) as Hsf.
    destruct (run_injected_shape inj Hsf _ _ _ _ _ _ Ei) as (E1 & E2 & _).
    cbn [keep_all] in Hk. bind_as Hk as kd Ekd. rewrite keep_all_app, (keep_all_nosfl _ E2), E1 in Hk.
    destruct (keep_all ds') as [K''| |] eqn:Ek; cbn [bind] in Hk; try discriminate.
    inversion Hk; subst K'. clear Hk.
    apply fw_cons.
    + rewrite <- (delta_tx_eq _ _ _ _ _ _ _ Ed). apply keep_delta_sim. exact Ekd.
    + apply fw_rel_sflas; [exact Hsf | exact (delta_for_tx_inj_sd _ _ _ _ _ _ _ Ed) |].
      eapply IH; eassumption.
Qed.

(* [sell_pos] (a sale sells a positive number of shares) is defined in C10Sim.v *)

Section Kept.
  Variables B1 B2 T : list tx.
  Variable regof : N -> bool.

  (* the generated adjustments of the full history, as ordinary rows of the re-run *)
  Lemma explicit_inj inj : Forall (fun x => is_sfla (t_act x) = true /\ goodtx regof x) inj ->
    forall D1 D2 st1 st2 aft1 X dsi b1 st1',
    Forall2 row_sim D2 D1 -> srel regof st1 st2 ->
    run_injected exact (D1 ++ B1) st1 inj aft1 = (dsi, b1, st1', None) ->
    exists D1' D2' st2', run_part exact (D2 ++ B2) st2 inj X = (dsi, D2' ++ B2, st2', None)
       /\ b1 = D1' ++ B1 /\ Forall2 row_sim D2' D1' /\ srel regof st1' st2'.
  Proof.
    induction 1 as [|t inj [Ht Hgt] HF IH]; intros D1 D2 st1 st2 aft1 X dsi b1 st1' HD HR H;
      cbn [run_injected run_part] in *.
    - inversion H; subst. exists D1, D2, st2. auto.
    - rewrite (delta_for_tx_nonsell regof (D2 ++ B2) (D1 ++ B1) t (inj ++ X) (inj ++ aft1) st2 st1 HR Hgt (sfla_not_sell _ Ht)).
      destruct (delta_for_tx exact (D1 ++ B1) t (inj ++ aft1) st1) as [[d i]| |] eqn:Ed; try discriminate.
      destruct (set_latest exact st1 (t_af t) (d_post d)) as [st1a| |] eqn:Es; try discriminate.
      destruct (set_latest_srel _ _ _ _ _ _ HR Es) as (st2a & Es2 & HRa). rewrite Es2.
      destruct (run_injected exact (t :: D1 ++ B1) st1a inj aft1) as [[[ds b] s'] o'] eqn:Er.
      inversion H; subst. clear H.
      pose proof (delta_for_tx_sfl _ _ _ _ _ _ _ Ed) as [Etx Hs].
      assert (Hi : i = []).
      { eapply delta_for_tx_noinj; [exact Ed|]. destruct (d_sfl d) eqn:E; [|reflexivity].
        exfalso. assert (Hn : Some s <> None) by discriminate. destruct (Hs Hn) as [_ Hsell].
        rewrite (sfla_not_sell _ Ht) in Hsell. discriminate. }
      subst i. cbn [run_injected].
      assert (HD' : Forall2 row_sim (t :: D2) (t :: D1)) by (constructor; [apply row_sim_refl | exact HD]).
      destruct (IH (t :: D1) (t :: D2) st1a st2a aft1 X ds b1 st1' HD' HRa Er) as (D1' & D2' & st2' & E & Eb & HD2 & HR2).
      cbn [app] in E. rewrite E. exists D1', D2', st2'. cbn [app]. auto.
  Qed.

  Lemma kept_sim K : forall D1 D2 st1 st2 dsK b1 st1' K',
    Forall2 row_sim D2 D1 -> srel regof st1 st2 -> Forall spec_nz K -> Forall sell_pos K ->
    st_ok st1 ->
    run_part exact (D1 ++ B1) st1 K T = (dsK, b1, st1', None) ->
    keep_all dsK = Ok K' -> Forall (wcond B1 B2) dsK -> Forall (gooddelta regof) dsK ->
    exists dsK' D1' D2' st2',
      run_part exact (D2 ++ B2) st2 K' T = (dsK', D2' ++ B2, st2', None)
      /\ b1 = D1' ++ B1 /\ Forall2 row_sim D2' D1' /\ srel regof st1' st2'
      /\ map d_post dsK' = map d_post dsK /\ map d_gain dsK' = map d_gain dsK.
  Proof.
    induction K as [|t K IH]; intros D1 D2 st1 st2 dsK b1 st1' K' HD HR Hnz Hsp Hok H Hk HW HG; cbn [run_part] in H.
    - inversion H; subst. cbn in Hk. inversion Hk; subst K'. cbn [run_part].
      exists [], D1, D2, st2. split; [reflexivity|]. split; [reflexivity|]. split; [exact HD|].
      split; [exact HR|]. split; reflexivity.
    - apply Forall_cons_iff in Hnz as [Hnt Hnz]. apply Forall_cons_iff in Hsp as [Hspt Hsp].
      destruct (delta_for_tx exact (D1 ++ B1) t (K ++ T) st1) as [[d inj]| |] eqn:Ed; try discriminate.
      destruct (set_latest exact st1 (t_af t) (d_post d)) as [st1a| |] eqn:Es; try discriminate.
      destruct (run_injected exact (t :: D1 ++ B1) st1a inj (K ++ T)) as [[[dsi bi] st1b] o] eqn:Ei.
      destruct o; [discriminate|].
      destruct (run_part exact bi st1b K T) as [[[ds' b2] st3] o'] eqn:Er. inversion H; subst. clear H.
      pose proof (C01Refine.delta_for_tx_inj _ _ _ _ _ _ _ Ed) as Hsf.
      destruct (run_injected_shape inj Hsf _ _ _ _ _ _ Ei) as (E1 & E2 & _).
      cbn [keep_all] in Hk. bind_as Hk as kd Ekd. rewrite keep_all_app, (keep_all_nosfl _ E2), E1 in Hk.
      destruct (keep_all ds') as [K''| |] eqn:Ek; cbn [bind] in Hk; try discriminate.
      inversion Hk; subst K'. clear Hk.
      apply Forall_cons_iff in HW as [[HW1 HW2] HW]. apply Forall_app in HW as [HWi HWr].
      apply Forall_cons_iff in HG as [HGd HG]. apply Forall_app in HG as [HGi HGr].
      pose proof (delta_for_tx_sfl _ _ _ _ _ _ _ Ed) as [Etx Hsell].
      unfold d_sd in HW1, HW2. rewrite Etx in HW1, HW2. unfold gooddelta in HGd. rewrite Etx in HGd.
      assert (Hinj : Forall (fun x => is_sfla (t_act x) = true /\ goodtx regof x) inj).
      { rewrite <- E1 in Hsf |- *.
        clear -Hsf HGi. induction dsi as [|x r IHr]; cbn [map] in *; constructor.
        - split; [exact (Forall_inv Hsf) | exact (Forall_inv HGi)].
        - apply IHr; [exact (Forall_inv_tail HGi) | exact (Forall_inv_tail Hsf)]. }
      assert (HFw : FwdEq (t_sd t) (inj ++ K'' ++ T) (K ++ T)).
      { intros dflt adj s. apply (fwd_rel_same exact _ _ _ _ (t_sd t)).
        - apply fw_rel_sflas; [exact Hsf | exact (delta_for_tx_inj_sd _ _ _ _ _ _ _ Ed) |].
          apply fw_rel_app. eapply kept_fw; eassumption.
        - unfold window_days. lia. }
      destruct (set_latest_srel _ _ _ _ _ _ HR Es) as (st2a & Es2 & HRa).
      (* the row itself *)
      assert (Hrow : exists d2, delta_for_tx exact (D2 ++ B2) kd (inj ++ K'' ++ T) st2 = Ok (d2, [])
                                /\ d_post d2 = d_post d /\ d_gain d2 = d_gain d /\ row_sim kd t /\ t_af kd = t_af t).
      { destruct (d_sfl d) as [info|] eqn:Esfl.
        - assert (Hn : Some info <> None) by discriminate. destruct (Hsell Hn) as [_ Hs].
          destruct (t_act t) as [| sh aps com rate crate spec | | |] eqn:Ea; try discriminate.
          rewrite (keep_delta_sfl d info sh aps com rate crate spec Esfl) in Ekd by (rewrite Etx; exact Ea).
          inversion Ekd; subst kd. clear Ekd. rewrite Etx.
          unfold sell_pos in Hspt. rewrite Ea in Hspt.
          destruct (HW1 Hn) as [Ho1 Ho2].
          destruct (delta_for_tx_kept regof (D2 ++ B2) (D1 ++ B1) t (inj ++ K'' ++ T) (K ++ T) st2 st1 d inj info
                      sh aps com rate crate spec HR HGd Ea Hspt Ed Esfl HFw) as (info' & E' & _).
          { intros dflt adj s. apply bwd_same; assumption. }
          eexists. split; [exact E'|]. cbn [d_post d_gain]. repeat split.
          + eexists. reflexivity.
          + apply respec_af.
        - unfold keep_delta in Ekd. rewrite Esfl, Etx in Ekd. inversion Ekd; subst kd. clear Ekd.
          pose proof (delta_for_tx_noinj _ _ _ _ _ _ _ Ed Esfl) as Hi. clear E1. subst inj.
          exists d. split; [|repeat split; apply row_sim_refl].
          apply (delta_for_tx_sim regof (D2 ++ B2) (D1 ++ B1) t ([] ++ K'' ++ T) (K ++ T) st2 st1 d [] HR HGd Hnt Hok Hspt Ed HFw).
          + intros Hs. rewrite Esfl in Hs. contradiction.
          + intros _ Hl dflt adj s s1 Hb. eapply bwd_prefix; [exact HD | exact (HW2 eq_refl Hl) | exact Hb]. }
      destruct Hrow as (d2 & Ed2 & Ep2 & Eg2 & Hsim & Haf2).
      assert (HD' : Forall2 row_sim (kd :: D2) (t :: D1)) by (constructor; assumption).
      destruct (explicit_inj inj Hinj (t :: D1) (kd :: D2) st1a st2a (K ++ T) (K'' ++ T) dsi bi st1b HD' HRa Ei)
        as (D1a & D2a & st2b & Einj & Eb & HDa & HRb).
      subst bi.
      assert (Hok1b : st_ok st1b).
      { eapply run_injected_ok; [exact Ei|]. exact (step_ok _ _ _ _ _ _ _ Ed Es Hok). }
      destruct (IH D1a D2a st1b st2b ds' b1 st1' K'' HDa HRb Hnz Hsp Hok1b Er Ek HWr HGr)
        as (dsK' & D1' & D2' & st2' & Erun & Eb1 & HD2 & HR2 & Epost & Egain).
      exists (d2 :: dsi ++ dsK'), D1', D2', st2'.
      split; [|split; [exact Eb1|split; [exact HD2|split; [exact HR2|split]]]].
      + cbn [app run_part]. rewrite <- app_assoc, Ed2, Haf2, Ep2, Es2. cbn [run_injected].
        rewrite run_part_app. cbn [app] in Einj. rewrite Einj, Erun. reflexivity.
      + cbn [map]. rewrite !map_app, Ep2, Epost. reflexivity.
      + cbn [map]. rewrite !map_app, Eg2, Egain. reflexivity.
  Qed.
End Kept.

(* ---------------------------------------------------------------- the generated purchases *)
Lemma core_obs st af : core_of st af = obs st af.
Proof. unfold core_of, obs. destruct (latest_for st af); reflexivity. Qed.

Definition held_obs (hs : list hold_row) (af : aff) (dflt : Qc * option Qc) : Qc * option Qc :=
  match find_hold hs af with
  | Some h => (s_sh (snd (fst h)), s_acb (snd (fst h)))
  | None => dflt
  end.

Lemma buys_part like : forall (hs : list hold_row) bef st l2,
  0 <= ps_all st -> lp st = ps_all st ->
  NoDup (map (fun h : hold_row => af_id (fst (fst h))) hs) ->
  Forall (fun h : hold_row => holding_ok (fst (fst h)) (snd (fst h)) /\ fresh st (fst (fst h))) hs ->
  exists ds st',
    run_part exact bef st (map (hold_tx like) hs) l2 = (ds, rev (map (hold_tx like) hs) ++ bef, st', None)
    /\ map (fun d => (s_sh (d_post d), s_acb (d_post d))) ds
       = map (fun h : hold_row => (s_sh (snd (fst h)), s_acb (snd (fst h)))) hs
    /\ ps_all st' = ps_all st + total_held hs /\ lp st' = ps_all st'
    /\ (forall af, obs st' af = held_obs hs af (obs st af)).
Proof.
  induction hs as [|[[af hold] date] hs IH]; intros bef st l2 Hall Hlp Hnd HF.
  - exists [], st. cbn [map run_part rev app total_held held_obs find_hold find]. repeat split; auto. ring.
  - inversion Hnd as [|? ? Hnin Hnd']; subst. pose proof (Forall_inv HF) as [Hok Hfr].
    pose proof (Forall_inv_tail HF) as HF'. cbn [fst snd] in Hok, Hfr, Hnin.
    destruct (delta_buy_fresh bef (map (hold_tx like) hs ++ l2) st like date af hold Hfr Hall Hok)
      as [d [st1 [E1 [E2 [Es [Ea [Eall Emap]]]]]]].
    assert (Hall1 : 0 <= ps_all st1).
    { rewrite Eall. destruct Hok as [Hs _]. apply Qclt_le_weak in Hs. qc_lra. }
    assert (HF1 : Forall (fun h : hold_row => holding_ok (fst (fst h)) (snd (fst h)) /\ fresh st1 (fst (fst h))) hs).
    { apply Forall_forall. intros h Hh. pose proof (proj1 (Forall_forall _ _) HF' h Hh) as [Ho Hf].
      split; [exact Ho|]. unfold fresh, latest_for in *. rewrite Emap.
      rewrite alookup_aupdate_other; [exact Hf|].
      intros Eid. apply Hnin. apply in_map_iff. exists h. split; [exact Eid|exact Hh]. }
    destruct (set_latest_all _ _ _ _ E2) as [A1 L1].
    assert (Hlp1 : lp st1 = ps_all st1) by (rewrite A1, L1; reflexivity).
    destruct (IH (summary_buy like date af hold :: bef) st1 l2 Hall1 Hlp1 Hnd' HF1)
      as [ds [st' [Hrun [Hobs [Htot [Hlp' Hcore]]]]]].
    exists (d :: ds), st'. split; [|split; [|split; [|split]]].
    + cbn [map hold_tx run_part]. rewrite E1.
      change (t_af (summary_buy like date af hold)) with af. rewrite E2. cbn [run_injected].
      rewrite Hrun. cbn [app rev]. rewrite <- app_assoc. reflexivity.
    + cbn [map fst snd]. rewrite Es, Ea, Hobs. reflexivity.
    + rewrite Htot, Eall. cbn [total_held fst snd]. ring.
    + exact Hlp'.
    + intros af'. rewrite (Hcore af'). unfold held_obs. cbn [find_hold find fst snd]. fold (find_hold hs af').
      rewrite (obs_set _ _ _ _ af' E2).
      destruct (N.eqb_spec (af_id af) (af_id af')) as [E|E].
      * rewrite find_hold_none by (rewrite <- E; exact Hnin).
        rewrite <- E, N.eqb_refl, Es, Ea. reflexivity.
      * destruct (find_hold hs af'); [reflexivity|].
        destruct (N.eqb_spec (af_id af') (af_id af)) as [E'|_]; [symmetry in E'; contradiction | reflexivity].
Qed.

Definition st0 : pstate := {| ps_map := []; ps_all := 0; ps_latest := default_aff |}.

(* ---------------------------------------------------------------- the round trip, at the level of the ledger loop
   [B1]/[st1]: rows and ledger state of the full history after the summarised
   prefix; [K]: the rows re-emitted verbatim, [T]: the later rows; [hs]: the
   holdings the summary purchases are generated from.  Every reported row of
   K and T with a superficial loss has B1 and the generated purchases before
   its window; every other sale at a loss has the generated purchases before
   its window.  Then (generated purchases ++ re-emitted rows ++ later rows) is
   accepted, the re-emitted rows report the same balances and gains and the
   later rows are reported EXACTLY as by the full history. *)
Lemma obs_fst_id st a b : af_id a = af_id b -> fst (obs st a) = fst (obs st b).
Proof. intros E. unfold obs, latest_for. rewrite E. destruct (alookup (af_id b) (ps_map st)); reflexivity. Qed.
Lemma held_obs_fst_id hs a b x y : af_id a = af_id b -> fst (held_obs hs a (0, x)) = fst (held_obs hs b (0, y)).
Proof. intros E. unfold held_obs, find_hold. rewrite E. destruct (find _ hs); reflexivity. Qed.

Theorem roundtrip_run regof like (hs : list hold_row) K T B1 st1 dsK bK stK dsT K' :
  NoDup (map (fun h : hold_row => af_id (fst (fst h))) hs) ->
  Forall (fun h : hold_row => holding_ok (fst (fst h)) (snd (fst h))) hs ->
  ps_all st1 = total_held hs -> lp st1 = ps_all st1 ->
  (forall af, goodaf regof af -> obs st1 af = held_obs hs af (0, if af_reg af then None else Some 0)) ->
  run_part exact B1 st1 K T = (dsK, bK, stK, None) ->
  run_loop exact bK stK T = (dsT, None) ->
  keep_all dsK = Ok K' ->
  Forall (wcond B1 (rev (map (hold_tx like) hs))) (dsK ++ dsT) ->
  Forall (gooddelta regof) (dsK ++ dsT) ->
  Forall spec_nz (K ++ T) -> Forall sell_pos (K ++ T) -> st_ok st1 ->
  exists dsG dsK',
    run exact None (map (hold_tx like) hs ++ K' ++ T) = (dsG ++ dsK' ++ dsT, None)
    /\ map (fun d => (s_sh (d_post d), s_acb (d_post d))) dsG
       = map (fun h : hold_row => (s_sh (snd (fst h)), s_acb (snd (fst h)))) hs
    /\ map d_post dsK' = map d_post dsK /\ map d_gain dsK' = map d_gain dsK
    /\ Forall (fun d => exists g, In g (map (hold_tx like) hs ++ K') /\ d_sd d = t_sd g) (dsG ++ dsK').
Proof.
  intros Hnd HF Htot Hlp Hobs HK HT Hk HW HGd Hnz Hsp0 Hok1.
  apply Forall_app in Hsp0 as [Hsp Hspt].
  apply Forall_app in HW as [HWk HWt]. apply Forall_app in Hnz as [Hnzk Hnzt].
  apply Forall_app in HGd as [HGk HGt].
  assert (HF0 : Forall (fun h : hold_row => holding_ok (fst (fst h)) (snd (fst h)) /\ fresh st0 (fst (fst h))) hs).
  { apply Forall_forall. intros x Hx. split; [apply (proj1 (Forall_forall _ _) HF x Hx)|reflexivity]. }
  destruct (buys_part like hs [] st0 (K' ++ T) ltac:(cbn; qc_lra) eq_refl Hnd HF0)
    as (dsG & stG & HG & HobsG & HtotG & HlpG & HcoreG).
  rewrite app_nil_r in HG.
  set (B2 := rev (map (hold_tx like) hs)) in *.
  assert (Hgood : forall af, goodaf regof af -> obs st1 af = obs stG af).
  { intros af Hg. rewrite (Hobs af Hg), (HcoreG af). unfold held_obs. destruct (find_hold hs af); reflexivity. }
  assert (HR : srel regof st1 stG).
  { split; [|split; [|split]].
    - rewrite HtotG, Htot. cbn [ps_all st0]. ring.
    - rewrite Hlp, HlpG, HtotG, Htot. cbn [ps_all st0]. ring.
    - intros af. set (af' := {| af_id := af_id af; af_reg := regof (af_id af); af_dflt := af_dflt af |}).
      assert (Hg : goodaf regof af') by reflexivity.
      rewrite (obs_fst_id st1 af af' eq_refl), (obs_fst_id stG af af' eq_refl), (Hgood af' Hg). reflexivity.
    - intros af Hg. rewrite (Hgood af Hg). reflexivity. }
  pose proof (run_part_ok K B1 st1 T dsK bK stK HK Hok1) as HokK.
  destruct (kept_sim B1 B2 T regof K [] [] st1 stG dsK bK stK K' (Forall2_nil _) HR Hnzk Hsp Hok1 HK Hk HWk HGk)
    as (dsK' & D1' & D2' & st2' & Erun & Eb1 & HD2 & HR2 & Epost & Egain).
  cbn [app] in Erun. subst bK.
  pose proof (later_sim B1 B2 regof T D1' D2' stK st2' dsT HD2 HR2 Hnzt HokK Hspt HT HWt HGt) as ET.
  exists dsG, dsK'. split; [|split; [exact HobsG|split; [assumption|split; [assumption|]]]].
  2: { apply Forall_app. split.
       - eapply (run_part_sdP exact (fun z => exists g, In g (map (hold_tx like) hs ++ K') /\ z = t_sd g)); [|exact HG].
         apply Forall_forall. intros g Hg. exists g. split; [apply in_or_app; left; exact Hg | reflexivity].
       - eapply (run_part_sdP exact (fun z => exists g, In g (map (hold_tx like) hs ++ K') /\ z = t_sd g)); [|exact Erun].
         apply Forall_forall. intros g Hg. exists g. split; [apply in_or_app; right; exact Hg | reflexivity]. }
  rewrite run_None. fold st0. rewrite run_loop_app, HG, run_loop_app, Erun, ET. reflexivity.
Qed.
