(* Crash-safety of the CSV exchange-rate cache write (C14): the in-place
   procedure (code before 1bcf18f) is refuted, the temp-file + sync + rename
   procedure (code after) is proved safe; the reader is shown to read back
   exactly what a complete write rendered. *)
From Coq Require Import List NArith ZArith QArith Qcanon Bool Lia.
From ACB Require Import Base.Outcome Base.QcExtra Base.Fit Base.Arith Model.Rates Model.RatesCache
     Model.CrashFs Spec.RateRule Proofs.RatesProps Proofs.CacheProps.
Import ListNotations.
Local Open Scope Z_scope.

(* ------------------------------------------------------------ file system *)
Lemma exec_app p q s : exec (p ++ q) s = exec q (exec p s).
Proof. unfold exec. apply fold_left_app. Qed.

(* steps that leave the live file alone *)
Definition tmp_only (st : step) : bool :=
  match st with
  | Create Tmp | Append Tmp _ | Flush | Sync Tmp => true
  | _ => false
  end.

Lemma exec_step_tmp_only s st : tmp_only st = true -> fs_live (exec_step s st) = fs_live s.
Proof.
  destruct st as [[|] | [|] b | | [|] | a b]; cbn [tmp_only]; intros H; try discriminate; cbn [exec_step get_file].
  - reflexivity.
  - destruct (fs_tmp s); reflexivity.
  - reflexivity.
  - destruct (fs_tmp s); reflexivity.
Qed.

Lemma exec_tmp_only p : forall s, forallb tmp_only p = true -> fs_live (exec p s) = fs_live s.
Proof.
  induction p as [| st t IH]; intros s H; [reflexivity | ].
  cbn [forallb] in H. apply andb_true_iff in H. destruct H as [H1 H2].
  change (exec (st :: t) s) with (exec t (exec_step s st)).
  rewrite IH by exact H2. apply exec_step_tmp_only. exact H1.
Qed.

Lemma forallb_firstn {A} (f : A -> bool) n l : forallb f l = true -> forallb f (firstn n l) = true.
Proof.
  revert l. induction n as [| k IH]; intros l H; [reflexivity | ].
  destruct l as [| x t]; [reflexivity | ].
  cbn [forallb firstn] in *. apply andb_true_iff in H. destruct H as [H1 H2].
  rewrite H1, (IH t H2). reflexivity.
Qed.

Definition appends (f : fname) (rs : list row_t) : list step := map (fun r => Append f (render_row r)) rs.

Lemma exec_appends_tmp : forall rs s d p,
  fs_tmp s = Some {| f_durable := d; f_pending := p |} ->
  fs_tmp (exec (appends Tmp rs) s) = Some {| f_durable := d; f_pending := p ++ render_rows rs |} /\
  fs_live (exec (appends Tmp rs) s) = fs_live s.
Proof.
  induction rs as [| r t IH]; intros s d p H.
  - cbn. rewrite app_nil_r. auto.
  - change (exec (appends Tmp (r :: t)) s) with (exec (appends Tmp t) (exec_step s (Append Tmp (render_row r)))).
    cbn [exec_step get_file]. rewrite H. cbn [set_file f_durable f_pending].
    destruct (IH {| fs_live := fs_live s;
                    fs_tmp := Some {| f_durable := d; f_pending := p ++ render_row r |} |}
                 d (p ++ render_row r) eq_refl) as [H1 H2].
    rewrite H1, H2. cbn [fs_live render_rows flat_map]. rewrite <- app_assoc. auto.
Qed.

Lemma appends_tmp_only rs : forallb tmp_only (appends Tmp rs) = true.
Proof. induction rs as [| r t IH]; [reflexivity | exact IH]. Qed.

(* the steps of rename_proc before the rename *)
Definition rename_pre (rs : list row_t) : list step :=
  Create Tmp :: appends Tmp rs ++ [Flush; Sync Tmp].

Lemma rename_proc_split rs : rename_proc rs = rename_pre rs ++ [Rename Tmp Live].
Proof.
  unfold rename_proc, rename_pre, appends. cbn [app]. f_equal.
  rewrite <- app_assoc. reflexivity.
Qed.

Lemma rename_pre_tmp_only rs : forallb tmp_only (rename_pre rs) = true.
Proof.
  unfold rename_pre. cbn [forallb tmp_only]. rewrite forallb_app, appends_tmp_only. reflexivity.
Qed.

Lemma rename_pre_exec rs s :
  fs_tmp (exec (rename_pre rs) s) = Some {| f_durable := render_rows rs; f_pending := [] |}.
Proof.
  unfold rename_pre.
  change (exec (Create Tmp :: appends Tmp rs ++ [Flush; Sync Tmp]) s)
    with (exec (appends Tmp rs ++ [Flush; Sync Tmp]) (exec_step s (Create Tmp))).
  rewrite exec_app.
  destruct (exec_appends_tmp rs (exec_step s (Create Tmp)) [] [] eq_refl) as [H1 _].
  set (s1 := exec (appends Tmp rs) (exec_step s (Create Tmp))) in *.
  change (exec [Flush; Sync Tmp] s1) with (exec_step (exec_step s1 Flush) (Sync Tmp)).
  cbn [exec_step get_file]. rewrite H1. cbn [set_file fs_tmp f_durable f_pending app].
  reflexivity.
Qed.

Lemma firstn_app_last {A} n (l : list A) x :
  firstn n (l ++ [x]) = firstn n l \/ firstn n (l ++ [x]) = l ++ [x].
Proof.
  destruct (Nat.le_gt_cases n (length l)) as [L | G].
  - left. rewrite firstn_app. replace (n - length l)%nat with O by lia.
    cbn [firstn]. apply app_nil_r.
  - right. apply firstn_all2. rewrite app_length. cbn [length]. lia.
Qed.

(* atomicity: whatever the crash point, the live file is the complete old
   content (or still absent) or the complete new content *)
Lemma rename_atomic old tmp0 new live tmp :
  post_crash (rename_proc new) (fs_of old tmp0) live tmp ->
  live = option_map render_rows old \/ live = Some (render_rows new).
Proof.
  intros [n [Hl _]]. cbv zeta in Hl. rewrite rename_proc_split in Hl.
  destruct (firstn_app_last n (rename_pre new) (Rename Tmp Live)) as [E | E]; rewrite E in Hl; clear E.
  - left. rewrite exec_tmp_only in Hl by (apply forallb_firstn, rename_pre_tmp_only).
    unfold fs_of in Hl. cbn [fs_live] in Hl.
    destruct old as [rs |]; cbn [option_map] in *.
    + destruct live as [b |]; [ | contradiction ]. destruct Hl as [k Hk].
      cbn [durable_file f_durable f_pending] in Hk. rewrite firstn_nil, app_nil_r in Hk. congruence.
    + destruct live; [contradiction | reflexivity].
  - right. rewrite exec_app in Hl.
    change (exec [Rename Tmp Live] (exec (rename_pre new) (fs_of old tmp0)))
      with (exec_step (exec (rename_pre new) (fs_of old tmp0)) (Rename Tmp Live)) in Hl.
    cbn [exec_step get_file] in Hl. rewrite rename_pre_exec in Hl.
    cbn [set_file fs_live] in Hl.
    destruct live as [b |]; [ | contradiction ]. destruct Hl as [k Hk].
    cbn [f_durable f_pending] in Hk. rewrite firstn_nil, app_nil_r in Hk. congruence.
Qed.

(* ------------------------------------------------------------------ digits *)
Lemma digit_facts k : 0 <= k <= 9 ->
  is_digit (digit k) = true /\ dval (digit k) = k /\
  digit k <> COMMA /\ digit k <> LF /\ digit k <> DOT /\ digit k <> DASH /\ digit k <> PLUS.
Proof.
  intros H.
  assert (C : k = 0 \/ k = 1 \/ k = 2 \/ k = 3 \/ k = 4 \/ k = 5 \/ k = 6 \/ k = 7 \/ k = 8 \/ k = 9) by lia.
  repeat (destruct C as [-> | C]); try subst k; vm_compute; repeat split; discriminate.
Qed.

Definition plain (bs : bytes) : Prop := Forall (fun b => is_digit b = true) bs.

Lemma is_digit_not_sep b : is_digit b = true ->
  b <> COMMA /\ b <> LF /\ b <> DOT /\ b <> DASH /\ b <> PLUS.
Proof.
  unfold is_digit, COMMA, LF, DOT, DASH, PLUS. intros H. apply andb_true_iff in H.
  destruct H as [H1 H2]. apply N.leb_le in H1. apply N.leb_le in H2. repeat split; lia.
Qed.

Lemma num_acc_app a l1 l2 :
  plain l1 -> num_acc a (l1 ++ l2) = match num_acc a l1 with Some v => num_acc v l2 | None => None end.
Proof.
  revert a. induction l1 as [| b t IH]; intros a H; cbn [app num_acc]; [reflexivity | ].
  inversion H as [| ? ? Hb Ht]; subst. rewrite Hb. apply IH. exact Ht.
Qed.

Lemma num_acc_plain a l : plain l -> exists v, num_acc a l = Some v.
Proof.
  revert a. induction l as [| b t IH]; intros a H; cbn [num_acc]; [eauto | ].
  inversion H as [| ? ? Hb Ht]; subst. rewrite Hb. apply IH. exact Ht.
Qed.

Lemma digits_fuel_spec : forall fuel n acc,
  0 <= n < 2 ^ Z.of_nat fuel -> (0 < fuel)%nat -> plain acc ->
  plain (digits_fuel fuel n acc) /\
  (length acc < length (digits_fuel fuel n acc))%nat /\
  forall a, num_acc a (digits_fuel fuel n acc)
            = num_acc (a * 10 ^ Z.of_nat (length (digits_fuel fuel n acc) - length acc) + n) acc.
Proof.
  induction fuel as [| k IH]; intros n acc Hn Hf Hacc; [lia | ].
  cbn [digits_fuel].
    assert (Hm : 0 <= n mod 10 <= 9) by (pose proof (Z.mod_pos_bound n 10 ltac:(lia)); lia).
    destruct (digit_facts _ Hm) as (Hd & Hv & _).
    assert (Hacc' : plain (digit (n mod 10) :: acc)) by (constructor; assumption).
    destruct (n / 10 =? 0) eqn:E.
    + apply Z.eqb_eq in E. split; [exact Hacc' | ]. split; [cbn [length]; lia | ].
      intros a. cbn [length num_acc]. rewrite Hd, Hv.
      replace (S (length acc) - length acc)%nat with 1%nat by lia.
      f_equal. pose proof (Z.div_mod n 10 ltac:(lia)). change (10 ^ Z.of_nat 1) with 10. lia.
    + apply Z.eqb_neq in E.
      assert (Hn' : 0 <= n / 10 < 2 ^ Z.of_nat k).
      { split; [apply Z.div_pos; lia | ].
        apply Z.div_lt_upper_bound; [lia | ].
        rewrite Nat2Z.inj_succ, Z.pow_succ_r in Hn by lia. lia. }
      assert (Hk : (0 < k)%nat).
      { destruct k; [ | lia ]. cbn in Hn'. pose proof (Z.div_pos n 10). lia. }
      destruct (IH (n / 10) (digit (n mod 10) :: acc) Hn' Hk Hacc') as (P & L & V).
      split; [exact P | ]. cbn [length] in L. split; [lia | ].
      intros a. rewrite V. cbn [length num_acc]. rewrite Hd, Hv.
      set (len := length (digits_fuel k (n / 10) (digit (n mod 10) :: acc))) in *.
      replace (len - length acc)%nat with (S (len - S (length acc)))%nat by lia.
      f_equal. rewrite Nat2Z.inj_succ, Z.pow_succ_r by lia.
      pose proof (Z.div_mod n 10 ltac:(lia)). lia.
Qed.

Lemma digits_of_spec n : 0 <= n ->
  plain (digits_of n) /\ digits_of n <> [] /\ num_of (digits_of n) = Some n.
Proof.
  intros Hn. unfold digits_of, num_of.
  assert (B : 0 <= n < 2 ^ Z.of_nat (S (Z.to_nat (Z.log2 n)))).
  { split; [exact Hn | ]. rewrite Nat2Z.inj_succ, Z2Nat.id by apply Z.log2_nonneg.
    destruct (Z.eq_dec n 0) as [-> | NZ]; [cbn; lia | ].
    apply Z.log2_spec. lia. }
  destruct (digits_fuel_spec _ n [] B ltac:(lia) (Forall_nil _)) as (P & L & V).
  split; [exact P | ]. split.
  - intros E. rewrite E in L. cbn in L. lia.
  - rewrite V. cbn [num_acc]. f_equal; lia.
Qed.

Lemma plain_no_sep sep bs : plain bs -> is_digit sep = false -> ~ In sep bs.
Proof.
  intros P Hs Hin. unfold plain in P. rewrite Forall_forall in P.
  specialize (P _ Hin). congruence.
Qed.

(* ------------------------------------------------------------- splitting *)
Lemma split_first_no sep bs : ~ In sep bs -> split_first sep bs = (bs, None).
Proof.
  induction bs as [| b t IH]; intros H; cbn [split_first]; [reflexivity | ].
  destruct (N.eqb_spec b sep) as [E | NE]; [exfalso; apply H; left; exact E | ].
  rewrite IH by (intros X; apply H; right; exact X). reflexivity.
Qed.

Lemma split_first_app sep l1 l2 : ~ In sep l1 -> split_first sep (l1 ++ sep :: l2) = (l1, Some l2).
Proof.
  induction l1 as [| b t IH]; intros H; cbn [app split_first].
  - rewrite N.eqb_refl. reflexivity.
  - destruct (N.eqb_spec b sep) as [E | NE]; [exfalso; apply H; left; exact E | ].
    rewrite IH by (intros X; apply H; right; exact X). reflexivity.
Qed.

Lemma split_on_nonnil sep bs : split_on sep bs <> [].
Proof.
  induction bs as [| b t IH]; cbn [split_on]; [discriminate | ].
  destruct (split_on sep t) as [| cur rest]; [contradiction | ].
  destruct (b =? sep)%N; discriminate.
Qed.

Lemma split_on_no sep bs : ~ In sep bs -> split_on sep bs = [bs].
Proof.
  induction bs as [| b t IH]; intros H; cbn [split_on]; [reflexivity | ].
  rewrite IH by (intros X; apply H; right; exact X).
  destruct (N.eqb_spec b sep) as [E | NE]; [exfalso; apply H; left; exact E | reflexivity].
Qed.

Lemma split_on_app sep l1 l2 : ~ In sep l1 -> split_on sep (l1 ++ sep :: l2) = l1 :: split_on sep l2.
Proof.
  induction l1 as [| b t IH]; intros H; cbn [app split_on].
  - rewrite N.eqb_refl. pose proof (split_on_nonnil sep l2) as NN.
    destruct (split_on sep l2) as [| cur rest]; [contradiction | reflexivity].
  - rewrite IH by (intros X; apply H; right; exact X).
    destruct (N.eqb_spec b sep) as [E | NE]; [exfalso; apply H; left; exact E | reflexivity].
Qed.

(* ------------------------------------------------------------------ dates *)
Lemma is_leap_len y : year_len y = if is_leap y then 366 else 365.
Proof.
  unfold is_leap. pose proof (year_len_bounds y) as B.
  destruct (year_len y =? 366) eqn:E; [apply Z.eqb_eq in E | apply Z.eqb_neq in E]; lia.
Qed.

Lemma civil_spec d :
  let '(y, m, dd) := civil d in
  y = year_of d /\ 1 <= m <= 12 /\ 1 <= dd <= 31 /\ day_of_civil y m dd = Some d.
Proof.
  unfold civil. set (y := year_of d). set (doy := d - jan1 y).
  pose proof (year_of_spec d) as S. fold y in S.
  pose proof (is_leap_len y) as L. unfold year_len in L.
  assert (Hdoy : 0 <= doy < (if is_leap y then 366 else 365)) by (unfold doy; lia).
  assert (Hd : d = jan1 y + doy) by (unfold doy; lia).
  clearbody doy. clear S L. unfold day_of_civil.
  destruct (is_leap y); unfold month_of_doy; cbn [cum_days];
    repeat match goal with
           | |- context [if ?a <? ?b then _ else _] => destruct (Z.ltb_spec a b)
           end;
    cbn [cum_days Z.add Pos.add Pos.succ Pos.add_carry];
    (split; [reflexivity | ]); (split; [lia | ]); (split; [lia | ]);
    match goal with
    | |- (if ?c then _ else _) = _ =>
        replace c with true
          by (symmetry; repeat (apply andb_true_intro; split); apply Z.leb_le; lia)
    end; f_equal; lia.
Qed.

Lemma num_digits2 n : 0 <= n <= 99 -> num_of (digits2 n) = Some n /\ plain (digits2 n).
Proof.
  intros H. unfold digits2, num_of.
  assert (H1 : 0 <= n / 10 <= 9) by (Z.div_mod_to_equations; lia).
  assert (H2 : 0 <= n mod 10 <= 9) by (Z.div_mod_to_equations; lia).
  destruct (digit_facts _ H1) as (D1 & V1 & _). destruct (digit_facts _ H2) as (D2 & V2 & _).
  split.
  - cbn [num_acc]. rewrite D1, D2, V1, V2. f_equal. Z.div_mod_to_equations; lia.
  - repeat constructor; assumption.
Qed.

Lemma num_digits4 n : 0 <= n <= 9999 -> num_of (digits4 n) = Some n /\ plain (digits4 n).
Proof.
  intros H. unfold digits4, num_of.
  assert (H1 : 0 <= n / 1000 <= 9) by (Z.div_mod_to_equations; lia).
  assert (H2 : 0 <= (n / 100) mod 10 <= 9) by (Z.div_mod_to_equations; lia).
  assert (H3 : 0 <= (n / 10) mod 10 <= 9) by (Z.div_mod_to_equations; lia).
  assert (H4 : 0 <= n mod 10 <= 9) by (Z.div_mod_to_equations; lia).
  destruct (digit_facts _ H1) as (D1 & V1 & _). destruct (digit_facts _ H2) as (D2 & V2 & _).
  destruct (digit_facts _ H3) as (D3 & V3 & _). destruct (digit_facts _ H4) as (D4 & V4 & _).
  split.
  - cbn [num_acc]. rewrite D1, D2, D3, D4, V1, V2, V3, V4. f_equal. Z.div_mod_to_equations; lia.
  - repeat constructor; assumption.
Qed.

Definition no_seps (bs : bytes) : Prop := ~ In COMMA bs /\ ~ In LF bs.

Lemma render_date_spec d :
  0 <= year_of d <= 9999 ->
  parse_date (render_date d) = Some d /\ no_seps (render_date d) /\ render_date d <> [].
Proof.
  intros Hy. unfold render_date.
  pose proof (civil_spec d) as C. destruct (civil d) as [[y m] dd].
  destruct C as (-> & Hm & Hdd & Hc).
  destruct (num_digits4 _ Hy) as (N4 & P4).
  destruct (num_digits2 m ltac:(lia)) as (N2 & P2).
  destruct (num_digits2 dd ltac:(lia)) as (N2' & P2').
  assert (Hplain : forall b, In b (digits4 (year_of d) ++ [DASH] ++ digits2 m ++ [DASH] ++ digits2 dd) ->
                             is_digit b = true \/ b = DASH).
  { intros b Hin. unfold plain in *. rewrite Forall_forall in P4, P2, P2'.
    repeat (apply in_app_or in Hin; destruct Hin as [Hin | Hin]); auto.
    - destruct Hin as [<- | []]. auto.
    - destruct Hin as [<- | []]. auto. }
  split; [ | split ].
  - unfold digits4, digits2 in *. cbn [app].
    unfold parse_date.
    assert (H1 : 0 <= year_of d / 1000 <= 9) by (Z.div_mod_to_equations; lia).
    destruct (digit_facts _ H1) as (_ & _ & _ & _ & _ & ND & NP).
    replace (digit (year_of d / 1000) =? DASH)%N with false by (symmetry; apply N.eqb_neq; exact ND).
    replace (digit (year_of d / 1000) =? PLUS)%N with false by (symmetry; apply N.eqb_neq; exact NP).
    unfold parse_ymd. rewrite N.eqb_refl. cbn [andb].
    rewrite N4, N2, N2'. rewrite Z.mul_1_l. exact Hc.
  - split; intros Hin; apply Hplain in Hin; destruct Hin as [Hd | Hd];
      try (apply is_digit_not_sep in Hd; tauto); discriminate.
  - unfold digits4. discriminate.
Qed.

(* --------------------------------------------------------------- decimals *)
Lemma pad_zeros_spec n bs :
  plain bs -> plain (pad_zeros n bs) /\ length (pad_zeros n bs) = (n + length bs)%nat /\
              num_of (pad_zeros n bs) = num_of bs.
Proof.
  intros P. induction n as [| k IH]; cbn [pad_zeros]; [auto | ].
  destruct IH as (P' & L & V).
  destruct (digit_facts 0 ltac:(lia)) as (D & Vd & _).
  split; [constructor; assumption | ]. split; [cbn [length]; lia | ].
  unfold num_of in *. cbn [num_acc]. rewrite D, Vd. exact V.
Qed.

Lemma plain_firstn n bs : plain bs -> plain (firstn n bs).
Proof.
  revert bs. induction n as [| k IH]; intros bs P; [constructor | ].
  destruct bs as [| b t]; [constructor | ]. inversion P; subst. cbn [firstn]. constructor; auto.
  apply IH. assumption.
Qed.
Lemma plain_skipn n bs : plain bs -> plain (skipn n bs).
Proof.
  revert bs. induction n as [| k IH]; intros bs P; [exact P | ].
  destruct bs as [| b t]; [constructor | ]. inversion P; subst. cbn [skipn]. apply IH. assumption.
Qed.

Lemma plain_no_seps bs : plain bs -> no_seps bs /\ ~ In DOT bs.
Proof.
  intros P. repeat split; apply plain_no_sep; try exact P; reflexivity.
Qed.

Lemma parse_dec_digit_first b t : is_digit b = true -> parse_dec (b :: t) = parse_udec (b :: t).
Proof.
  intros H. apply is_digit_not_sep in H. destruct H as (_ & _ & _ & ND & NP).
  unfold parse_dec.
  replace (b =? DASH)%N with false by (symmetry; apply N.eqb_neq; exact ND).
  replace (b =? PLUS)%N with false by (symmetry; apply N.eqb_neq; exact NP). reflexivity.
Qed.

Lemma render_dec_spec m s :
  0 <= m <= max_mant -> (s <= 28)%nat ->
  parse_dec (render_dec (m, s)) = Some (dec_value (m, s)) /\ no_seps (render_dec (m, s)).
Proof.
  intros Hm Hs. destruct (digits_of_spec m ltac:(lia)) as (P & NE & V).
  unfold render_dec, dec_value. cbn [fst snd].
  destruct s as [| s'].
  - split; [ | apply plain_no_seps; exact P ].
    destruct (digits_of m) as [| b t] eqn:Ed; [contradiction | ].
    rewrite parse_dec_digit_first by (inversion P; assumption).
    unfold parse_udec. rewrite split_first_no by (apply plain_no_seps; exact P).
    rewrite V. cbn [num_of num_acc]. rewrite app_nil_r, V.
    cbn [length Nat.add Nat.eqb Nat.ltb Nat.leb].
    replace (m <=? max_mant) with true by (symmetry; apply Z.leb_le; lia). reflexivity.
  - set (s := S s') in *.
    destruct (pad_zeros_spec (S s - length (digits_of m)) (digits_of m) P) as (P' & L' & V').
    set (ds' := pad_zeros (S s - length (digits_of m)) (digits_of m)) in *.
    set (k := (length ds' - s)%nat).
    assert (Hk : (1 <= k)%nat) by (unfold k; lia).
    assert (Hfp : length (skipn k ds') = s) by (rewrite skipn_length; unfold k; lia).
    assert (Hip : length (firstn k ds') = k) by (rewrite firstn_length; unfold k; lia).
    pose proof (plain_firstn k ds' P') as Pi. pose proof (plain_skipn k ds' P') as Pf.
    split.
    + destruct (firstn k ds') as [| b t] eqn:Ei; [cbn [length] in Hip; lia | ].
      cbn [app]. rewrite parse_dec_digit_first by (inversion Pi; assumption).
      change (b :: t ++ DOT :: skipn k ds') with ((b :: t) ++ DOT :: skipn k ds').
      unfold parse_udec. rewrite split_first_app by (apply plain_no_seps; exact Pi).
      destruct (num_acc_plain 0 _ Pi) as [vi Evi]. destruct (num_acc_plain 0 _ Pf) as [vf Evf].
      unfold num_of. rewrite Evi, Evf.
      replace (length (b :: t) + length (skipn k ds') =? 0)%nat with false
        by (symmetry; apply Nat.eqb_neq; cbn [length]; lia).
      rewrite Hfp.
      replace (28 <? s)%nat with false by (symmetry; apply Nat.ltb_ge; lia).
      rewrite <- Ei, firstn_skipn. fold (num_of ds'). rewrite V', V.
      replace (m <=? max_mant) with true by (symmetry; apply Z.leb_le; lia). reflexivity.
    + assert (Hall : forall b, In b (firstn k ds' ++ [DOT] ++ skipn k ds') -> is_digit b = true \/ b = DOT).
      { intros b Hin. unfold plain in Pi, Pf. rewrite Forall_forall in Pi, Pf.
        apply in_app_or in Hin. destruct Hin as [Hin | Hin]; [auto | ].
        apply in_app_or in Hin. destruct Hin as [[<- | []] | Hin]; auto. }
      split; intros Hin; apply Hall in Hin; destruct Hin as [Hd | Hd];
        try (apply is_digit_not_sep in Hd; tauto); discriminate.
Qed.

(* ------------------------------------------------------------- whole file *)
Definition wf_row (r : row_t) : Prop :=
  0 <= year_of (fst r) <= 9999 /\ 0 <= fst (snd r) <= max_mant /\ (snd (snd r) <= 28)%nat.

Definition body (r : row_t) : bytes := render_date (fst r) ++ COMMA :: render_dec (snd r).

Lemma render_row_body r : render_row r = body r ++ [LF].
Proof. unfold render_row, body. rewrite <- !app_assoc. reflexivity. Qed.

Lemma body_spec r :
  wf_row r ->
  ~ In LF (body r) /\ body r <> [] /\
  split_on COMMA (body r) = [render_date (fst r); render_dec (snd r)] /\
  parse_date (render_date (fst r)) = Some (fst r) /\
  parse_dec (render_dec (snd r)) = Some (dec_value (snd r)).
Proof.
  intros (Hy & Hm & Hs). destruct r as [d [m s]]. cbn [fst snd] in *.
  destruct (render_date_spec d Hy) as (Pd & (NCd & NLd) & NEd).
  destruct (render_dec_spec m s Hm Hs) as (Pv & (NCv & NLv)).
  unfold body. cbn [fst snd]. repeat split; try assumption.
  - intros Hin. apply in_app_or in Hin. destruct Hin as [Hin | [Hin | Hin]]; try tauto. discriminate.
  - destruct (render_date d); [contradiction | discriminate].
  - rewrite split_on_app by exact NCd. rewrite split_on_no by exact NCv. reflexivity.
Qed.

Lemma lines_of_rows rows :
  Forall wf_row rows -> split_on LF (render_rows rows) = map body rows ++ [[]].
Proof.
  induction rows as [| r t IH]; intros H; [reflexivity | ].
  inversion H as [| ? ? Hr Ht]; subst.
  cbn [render_rows flat_map map app]. rewrite render_row_body, <- app_assoc. cbn [app].
  rewrite split_on_app by (apply body_spec; exact Hr).
  fold (render_rows t). rewrite IH by exact Ht. reflexivity.
Qed.

Lemma filter_bodies rows :
  Forall wf_row rows -> filter nonempty (map body rows ++ [[]]) = map body rows.
Proof.
  induction rows as [| r t IH]; intros H; [reflexivity | ].
  inversion H as [| ? ? Hr Ht]; subst. cbn [map app filter].
  destruct (body_spec r Hr) as (_ & NE & _).
  destruct (body r) as [| b bs] eqn:Eb; [contradiction | ]. cbn [nonempty].
  rewrite IH by exact Ht. reflexivity.
Qed.

(* what the reader makes of a completely written file: the rows, as values *)
Lemma parse_render_rows rows :
  Forall wf_row rows -> parse_csv (render_rows rows) = map row_value rows.
Proof.
  intros H. unfold parse_csv. rewrite lines_of_rows, filter_bodies by exact H.
  rewrite map_map.
  assert (Hrec : forall n0, n0 = 2%nat ->
            flat_map (parse_record n0) (map (fun r => split_on COMMA (body r)) rows) = map row_value rows).
  { intros n0 ->. induction H as [| r t Hr Ht IH]; [reflexivity | ].
    cbn [map flat_map]. rewrite IH.
    destruct (body_spec r Hr) as (_ & _ & Sp & Pd & Pv). rewrite Sp.
    unfold parse_record. cbn [length Nat.eqb]. rewrite Pd, Pv. reflexivity. }
  destruct rows as [| r0 t]; [reflexivity | ].
  cbn [map]. inversion H as [| ? ? Hr0 Ht]; subst.
  destruct (body_spec r0 Hr0) as (_ & _ & Sp & _).
  change (split_on COMMA (body r0) :: map (fun x => split_on COMMA (body x)) t)
    with (map (fun x => split_on COMMA (body x)) (r0 :: t)).
  apply Hrec. rewrite Sp. reflexivity.
Qed.

(* ------------------------------------------------------------------ safety *)
(* [pubval x]: what a correct cache holds for day x (the published rate, or
   the zero placeholder); rows agree with it *)
Definition consistent (pubval : Z -> Qc) (rows : list row_t) : Prop :=
  forall r, In r rows -> dec_value (snd r) = pubval (fst r).

Lemma mget_In x v l : mget x l = Some v -> In (x, v) l.
Proof.
  induction l as [| [d r] t IH]; cbn [mget]; [discriminate | ].
  destruct (mget x t) as [v' |].
  - intros E. inversion E; subst. right. apply IH. reflexivity.
  - destruct (Z.eqb_spec d x) as [-> | NE]; [ | discriminate ].
    intros E. inversion E; subst. left. reflexivity.
Qed.

Lemma consistent_read pubval rows x v :
  Forall wf_row rows -> consistent pubval rows ->
  mget x (parse_csv (render_rows rows)) = Some v -> v = pubval x.
Proof.
  intros W C E. rewrite parse_render_rows in E by exact W.
  apply mget_In in E. apply in_map_iff in E. destruct E as (r & Er & Hin).
  unfold row_value in Er. inversion Er; subst. apply C. exact Hin.
Qed.

(* the procedure the code follows after the fix: whatever the crash point, a
   later run reads only rates identical to the published ones *)
Lemma rename_safe pubval old tmp0 new live tmp :
  Forall wf_row new -> consistent pubval new ->
  match old with Some rs => Forall wf_row rs /\ consistent pubval rs | None => True end ->
  post_crash (rename_proc new) (fs_of old tmp0) live tmp ->
  forall b x v, live = Some b -> mget x (parse_csv b) = Some v -> v = pubval x.
Proof.
  intros Wn Cn Ho Hc b x v El E.
  destruct (rename_atomic old tmp0 new live tmp Hc) as [H | H]; rewrite H in El.
  - destruct old as [rs |]; cbn [option_map] in El; [ | discriminate ].
    inversion El; subst b. destruct Ho as [Wo Co]. eapply consistent_read; eauto.
  - inversion El; subst b. eapply consistent_read; eauto.
Qed.

(* ---- the procedure before the fix: a cut inside the digits of a rate ---- *)
(* new content "2022-01-05,1.2345\n"; the crash leaves "2022-01-05,1.2" *)
Definition ex_new : list row_t := [(18997, (12345, 4%nat))].
Definition ex_pubval : Z -> Qc := fun _ => Qcfrac 12345 10000.

Lemma inplace_unsafe :
  Forall wf_row ex_new /\ consistent ex_pubval ex_new /\
  exists live tmp,
    post_crash (inplace_proc ex_new) (fs_of (Some ex_new) None) (Some live) tmp /\
    live = map Z.to_N [50; 48; 50; 50; 45; 48; 49; 45; 48; 53; 44; 49; 46; 50] /\
    mget 18997 (parse_csv live) = Some (Qcfrac 12 10) /\
    Qcfrac 12 10 <> ex_pubval 18997.
Proof.
  split; [ | split ].
  - repeat constructor; vm_compute; intros; discriminate.
  - intros r [<- | []]. vm_compute. reflexivity.
  - eexists. exists None. split; [ | split; [reflexivity | split] ].
    + exists 2%nat. cbv zeta. split.
      * vm_compute. exists 14%nat. reflexivity.
      * vm_compute. exact I.
    + vm_compute. reflexivity.
    + vm_compute. intros H. discriminate H.
Qed.

(* the same crash point is harmless for the fixed procedure *)
Lemma rename_example :
  exists live tmp,
    post_crash (rename_proc ex_new) (fs_of (Some ex_new) None) (Some live) (Some tmp) /\
    live = render_rows ex_new /\
    tmp = map Z.to_N [50; 48; 50; 50; 45; 48; 49; 45; 48; 53; 44; 49; 46; 50] /\
    mget 18997 (parse_csv live) = Some (ex_pubval 18997).
Proof.
  eexists. eexists. split; [ | split; [reflexivity | split; [reflexivity | ] ] ].
  - exists 2%nat. cbv zeta. split.
    + vm_compute. exists 0%nat. reflexivity.
    + vm_compute. exists 14%nat. reflexivity.
  - vm_compute. reflexivity.
Qed.

(* ---- statements of Properties/C14.v ---- *)

Lemma inplace_refuted :
  exists (pubval : Z -> Qc) old new live tmp x v,
    Forall wf_row new /\ consistent pubval new /\
    Forall wf_row old /\ consistent pubval old /\
    post_crash (inplace_proc new) (fs_of (Some old) None) (Some live) tmp /\
    mget x (parse_csv live) = Some v /\ v <> pubval x.
Proof.
  destruct inplace_unsafe as (W & C & live & tmp & H & _ & E & N).
  exists ex_pubval, ex_new, ex_new, live, tmp, 18997, (Qcfrac 12 10).
  repeat split; assumption.
Qed.

Lemma c14_example :
  Forall wf_row ex_new /\ consistent ex_pubval ex_new /\
  exists live tmp,
    post_crash (rename_proc ex_new) (fs_of (Some ex_new) None) (Some live) (Some tmp) /\
    live = render_rows ex_new /\
    tmp = map Z.to_N [50; 48; 50; 50; 45; 48; 49; 45; 48; 53; 44; 49; 46; 50] /\
    mget 18997 (parse_csv live) = Some (ex_pubval 18997).
Proof.
  destruct inplace_unsafe as (W & C & _).
  split; [exact W | ]. split; [exact C | ]. exact rename_example.
Qed.

(* ---- a later run over the directory a crash left behind ---- *)
Section Later.
  Variable truth : calendar.

  (* a year of rows is the text of what a run with (t, a) wrote *)
  Definition file_of_run (y : Z) (rows : list row_t) (t a : Z) : Prop :=
    Forall wf_row rows /\ map row_value rows = written truth y t a.

  Definition cache_of_live (y : Z) (live : option bytes) : list (Z * list drate) :=
    match live with Some b => [(y, parse_csv b)] | None => [] end.

  Lemma crash_cache_ok y old tmp0 new live tmp t0 a0 tn an :
    file_of_run y new tn an -> tn <= t0 -> an <= a0 -> tn <= an <= tn + 1 ->
    match old with
    | Some rs => exists to ao, file_of_run y rs to ao /\ to <= t0 /\ ao <= a0 /\ to <= ao <= to + 1
    | None => True
    end ->
    post_crash (rename_proc new) (fs_of old tmp0) live tmp ->
    CacheOk truth t0 a0 (cache_of_live y live).
  Proof.
    intros [Wn En] H1 H2 H3 Ho Hc.
    destruct (rename_atomic old tmp0 new live tmp Hc) as [E | E]; subst live.
    - destruct old as [rs |]; cbn [option_map cache_of_live]; [ | apply CacheOk_nil ].
      destruct Ho as (to & ao & [Wo Eo] & G1 & G2 & G3).
      intros y' rates Ey. cbn [aget] in Ey. destruct (y =? y') eqn:Eq; [ | discriminate ].
      apply Z.eqb_eq in Eq. subst y'. inversion Ey; subst rates.
      rewrite parse_render_rows by exact Wo. exists to, ao. repeat split; try lia. exact Eo.
    - cbn [cache_of_live]. intros y' rates Ey. cbn [aget] in Ey.
      destruct (y =? y') eqn:Eq; [ | discriminate ].
      apply Z.eqb_eq in Eq. subst y'. inversion Ey; subst rates.
      rewrite parse_render_rows by exact Wn. exists tn, an. repeat split; try lia. exact En.
  Qed.

  Lemma later_runs_unaffected y old tmp0 new live tmp t0 a0 tn an runs params :
    file_of_run y new tn an -> tn <= t0 -> an <= a0 -> tn <= an <= tn + 1 ->
    match old with
    | Some rs => exists to ao, file_of_run y rs to ao /\ to <= t0 /\ ao <= a0 /\ to <= ao <= to + 1
    | None => True
    end ->
    post_crash (rename_proc new) (fs_of old tmp0) live tmp ->
    runs_ok truth t0 a0 runs params ->
    exists s' outs,
      history true {| s_years := []; s_fresh := []; s_cache := cache_of_live y live; s_dl := [] |} runs
        = Ok (s', outs) /\
      map fst outs = ref_answers truth runs params /\
      Forall (fun o => NoDup (snd o)) outs.
  Proof.
    intros Hn H1 H2 H3 Ho Hc Hr.
    apply (history_transparent truth runs params t0 a0); [exact Hr | ].
    cbn [s_cache]. eapply crash_cache_ok; eauto.
  Qed.
End Later.
