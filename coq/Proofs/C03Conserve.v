(* C03: money is conserved.  For error-free histories of non-registered
   affiliates without user-supplied superficial-loss entries, at every point
   where a row and its automatic adjustments have been applied and no sale so
   far is flagged as potentially over-applied:
     gains = proceeds - purchase costs (incl. opening ACB) + returns of capital + ACB held. *)
From Coq Require Import List NArith ZArith QArith Qcanon Bool Lia.
From ACB Require Import Base.Outcome Base.QcExtra Base.Fit Base.Arith Model.Tx Model.Ledger Model.Sfl
     Model.DeltaList Spec.AvgCost Proofs.Tactics Proofs.C01Refine Proofs.C04Inv Proofs.C04Sum.
Import ListNotations.
Local Open Scope Qc_scope.

Definition acb0 (o : option Qc) : Qc := match o with Some c => c | None => 0 end.

Fixpoint total_acb (hs : holdings) : Qc :=
  match hs with
  | [] => 0
  | (_, h) :: r => acb0 (snd h) + total_acb r
  end.
Definition acb_of (hs : holdings) (k : N) : Qc :=
  match alookup k hs with Some h => acb0 (snd h) | None => 0 end.

Lemma total_acb_update k h hs :
  total_acb (aupdate k h hs) = total_acb hs - acb_of hs k + acb0 (snd h).
Proof.
  unfold acb_of. induction hs as [|[k' h'] hs IH]; cbn [aupdate alookup total_acb].
  - ring.
  - destruct (N.eqb k k'); cbn [total_acb]; [ring | rewrite IH; ring].
Qed.

Definition proceeds_of (t : tx) : Qc :=
  match t_act t with Sell n p c r cr _ => n * p * r - c * cr | _ => 0 end.
Definition cost_of (t : tx) : Qc :=
  match t_act t with Buy n p c r cr => n * p * r + c * cr | _ => 0 end.
Definition roc_of (hs : holdings) (t : tx) : Qc :=
  match t_act t with Roc a r => a * fst (held hs (t_af t)) * r | _ => 0 end.

Definition upd (hs : holdings) (d : delta) : holdings :=
  aupdate (af_id (t_af (d_tx d))) (hold_of (d_post d)) hs.
Definition after (hs : holdings) (ds : list delta) : holdings := fold_left upd ds hs.

(* running totals over report rows *)
Fixpoint sum_gains (ds : list delta) : Qc :=
  match ds with [] => 0 | d :: r => acb0 (d_gain d) + sum_gains r end.
Fixpoint sum_proceeds (ds : list delta) : Qc :=
  match ds with [] => 0 | d :: r => proceeds_of (d_tx d) + sum_proceeds r end.
Fixpoint sum_costs (ds : list delta) : Qc :=
  match ds with [] => 0 | d :: r => cost_of (d_tx d) + sum_costs r end.
Fixpoint sum_roc (hs : holdings) (ds : list delta) : Qc :=
  match ds with [] => 0 | d :: r => roc_of hs (d_tx d) + sum_roc (upd hs d) r end.

(* the conservation law for a list of report rows starting from holdings hs *)
Definition conserved (hs : holdings) (ds : list delta) : Prop :=
  sum_gains ds
  = sum_proceeds ds - (sum_costs ds + total_acb hs) + sum_roc hs ds + total_acb (after hs ds).

(* defect of one row and of a list of rows *)
Definition inc_row (hs : holdings) (d : delta) : Qc :=
  acb0 (d_gain d) - proceeds_of (d_tx d) + cost_of (d_tx d) - roc_of hs (d_tx d)
  - (acb0 (s_acb (d_post d)) - acb_of hs (af_id (t_af (d_tx d)))).
Fixpoint phi (hs : holdings) (ds : list delta) : Qc :=
  match ds with [] => 0 | d :: r => inc_row hs d + phi (upd hs d) r end.

Lemma phi_sums hs ds :
  phi hs ds = sum_gains ds - sum_proceeds ds + sum_costs ds - sum_roc hs ds
              - (total_acb (after hs ds) - total_acb hs).
Proof.
  revert hs. induction ds as [|d ds IH]; intros hs; cbn [phi sum_gains sum_proceeds sum_costs sum_roc after fold_left].
  - ring.
  - fold (after (upd hs d) ds). rewrite IH. unfold inc_row.
    unfold upd at 3. rewrite total_acb_update. unfold hold_of; cbn [snd]. ring.
Qed.

Lemma conserved_phi hs ds : conserved hs ds <-> phi hs ds = 0.
Proof.
  unfold conserved. rewrite phi_sums. split; intros H.
  - rewrite H. ring.
  - assert (E : sum_gains ds = sum_gains ds - 0) by ring. rewrite E, <- H. ring.
Qed.

Lemma phi_app hs p q : phi hs (p ++ q) = phi hs p + phi (after hs p) q.
Proof.
  revert hs. induction p as [|d p IH]; intros hs; cbn [app phi after fold_left].
  - ring.
  - fold (after (upd hs d) p). rewrite IH. ring.
Qed.

(* ---- one row ---- *)
Definition row_defect (d : delta) : Qc :=
  match t_act (d_tx d) with
  | Sell _ _ _ _ _ _ => - denied_of d
  | Sfla n a => - (n * a)
  | _ => 0
  end.

Lemma acb_of_held hs af : af_reg af = false -> acb_of hs (af_id af) = acb0 (snd (held hs af)).
Proof.
  intros Hr. unfold acb_of, held. destruct (alookup (af_id af) hs); [reflexivity|].
  unfold default_holding. rewrite Hr. reflexivity.
Qed.

Lemma row_inc bef t aft st d inj :
  delta_for_tx exact bef t aft st = Ok (d, inj) ->
  sell_positive t -> af_reg (t_af t) = false ->
  inc_row (abs_map (ps_map st)) d = row_defect d.
Proof.
  intros H Hpos Hreg.
  pose proof (delta_for_tx_refines _ _ _ _ _ _ H Hpos) as [Htx Hrule].
  unfold inc_row, row_defect, proceeds_of, cost_of, roc_of. rewrite Htx.
  rewrite (acb_of_held _ _ Hreg), held_next_pre.
  unfold delta_for_tx in H. bind_as H as u Eu. destruct u. apply (sanity_ok) in Eu as [_ Hn].
  specialize (Hn Hreg).
  destruct (s_acb (next_pre_status st (t_af t))) as [c|] eqn:Eacb; [|congruence].
  unfold hold_of in *. rewrite Eacb in *. cbn [fst snd acb0].
  destruct (t_act t) as [n price com rate crate | n price com rate crate sp | amount rate
                        | n amount | post pre_ io]; cbn [avg_cost_rule option_map] in Hrule;
    inversion Hrule as [[Hs Ha Hg]]; rewrite <- ?Ha, <- ?Hg; cbn [acb0]; ring.
Qed.

(* ---- the automatic adjustments of a sale add up to the denied amount ---- *)
Definition sfla_amount (t : tx) : Qc := match t_act t with Sfla n a => n * a | _ => 0 end.
Fixpoint sfla_sum (l : list tx) : Qc :=
  match l with [] => 0 | t :: r => sfla_amount t + sfla_sum r end.

Definition nonreg (a : aff) : Prop := af_reg a = false.

Fixpoint psum (ps : list (aff * (Qc * Qc))) : Qc :=
  match ps with [] => 0 | (_, (n, _)) :: r => n + psum r end.

Lemma gen_sfla_sum t loss ps l total :
  gen_sfla exact t loss ps = Ok l ->
  Forall (fun p => nonreg (fst p) /\ snd (snd p) = total) ps ->
  sfla_sum l * total = - loss * psum ps.
Proof.
  revert l. induction ps as [|[af [n dn]] ps IH]; cbn [gen_sfla psum]; intros l H HF.
  - inversion H; subst. cbn. ring.
  - apply Forall_cons_iff in HF as [[Hnr Hd] HF']. cbn [fst snd] in Hnr, Hd. subst dn.
    unfold nonreg in Hnr.
    rewrite Hnr in H. cbn [negb andb] in H. rewrite andb_true_r in H.
    destruct (Qceqb_spec n 0) as [Hn0|Hn0]; cbn [negb] in H.
    + subst n. rewrite (IH _ H HF'). ring.
    + cbn [a_div exact] in H. destruct (Qceqb_spec total 0) as [|Ht]; cbn [bind] in H; [discriminate|].
      bind_as H as q1 E1. apply gez_unwrap_ok in E1 as [-> _].
      bind_as H as q2 E2. apply pos_unwrap_ok in E2 as [-> _].
      bind_as H as m Em. unfold neg_mul in Em. cbn [a_mul exact bind] in Em.
      apply pos_unwrap_ok in Em as [-> _].
      bind_as H as amt Ea. apply pos_mul_exact in Ea as [-> _].
      bind_as H as rest Er. inversion H; subst l. cbn [sfla_sum sfla_amount t_act].
      rewrite Qcmult_plus_distr_l, (IH _ eq_refl HF'). field. exact Ht.
Qed.

Lemma portions_spec active total l ps :
  portions active total l = Ok ps ->
  Forall nonreg l ->
  Forall (fun p => nonreg (fst p) /\ snd (snd p) = total) ps /\
  psum ps = fold_right (fun af acc => match alookup (af_id af) active with Some d => d | None => 0 end + acc) 0 l.
Proof.
  revert ps. induction l as [|af l IH]; cbn [portions fold_right]; intros ps H HF.
  - inversion H; subst. split; [constructor | reflexivity].
  - inversion HF; subst. destruct (alookup (af_id af) active) as [dv|]; [|discriminate].
    bind_as H as rest Er. inversion H; subst ps. specialize (IH _ eq_refl H3) as [IH1 IH2].
    split; [constructor; [split; [assumption | reflexivity] | assumption] | cbn [psum]; rewrite IH2; reflexivity].
Qed.

Lemma sum_buyers_spec active l acc total :
  sum_buyers exact active l acc = Ok total ->
  total = acc + fold_right (fun af a => match alookup (af_id af) active with Some d => d | None => 0 end + a) 0 l.
Proof.
  revert acc. induction l as [|af l IH]; cbn [sum_buyers fold_right]; intros acc H.
  - inversion H; ring.
  - bind_as H as acc' Ea. apply gez_add_exact in Ea as [-> _]. rewrite (IH _ H). ring.
Qed.

Lemma add_aff_nonreg a l : nonreg a -> Forall nonreg l -> Forall nonreg (add_aff a l).
Proof.
  intros Ha. induction l as [|b l IH]; cbn [add_aff]; intros HF.
  - constructor; [assumption | constructor].
  - destruct (aff_eqb a b); [assumption|]. inversion HF; subst. constructor; auto.
Qed.

Lemma ins_aff_nonreg a l : nonreg a -> Forall nonreg l -> Forall nonreg (ins_aff a l).
Proof.
  intros Ha. induction l as [|b l IH]; cbn [ins_aff]; intros HF.
  - constructor; [assumption | constructor].
  - destruct (N.leb _ _); [constructor; assumption|]. inversion HF; subst. constructor; auto.
Qed.

Lemma sort_affs_nonreg l : Forall nonreg l -> Forall nonreg (sort_affs l).
Proof.
  unfold sort_affs. induction l as [|a l IH]; cbn [fold_right]; intros HF; [constructor|].
  inversion HF; subst. apply ins_aff_nonreg; auto.
Qed.

Definition tx_nonreg (t : tx) : Prop := nonreg (t_af t).

Lemma fwd_scan_props A last dflt aft adj s s' :
  fwd_scan A last dflt aft adj s = Ok s' ->
  Forall tx_nonreg aft -> Forall nonreg (sc_buyers s) -> Forall nonreg (sc_buyers s').
Proof.
  revert adj s. induction aft as [|t aft IH]; cbn [fwd_scan]; intros adj s H HF Hb.
  - inversion H; subst; assumption.
  - inversion HF as [|x y Ht HF']; subst.
    destruct (Z.ltb last (t_sd t)); [inversion H; subst; assumption|].
    destruct (t_act t).
    + bind_as H as b E1. bind_as H as eop E2. bind_as H as na E3. bind_as H as acq E4.
      eapply IH; eauto. cbn. apply add_aff_nonreg; assumption.
    + bind_as H as b E1. bind_as H as eop E2. destruct (Qcltb eop 0); [discriminate|].
      bind_as H as na E3. destruct (Qcltb na 0); [discriminate|]. eapply IH; eauto.
    + eapply IH; eauto.
    + eapply IH; eauto.
    + bind_as H as f E1. bind_as H as nsa E2. eapply IH; eauto.
Qed.

Lemma bwd_scan_props A first dflt bef adj s s' :
  bwd_scan A first dflt bef adj s = Ok s' ->
  Forall tx_nonreg bef -> Forall nonreg (sc_buyers s) ->
  Forall nonreg (sc_buyers s') /\ sc_eop s' = sc_eop s.
Proof.
  revert adj s. induction bef as [|t bef IH]; cbn [bwd_scan]; intros adj s H HF Hb.
  - inversion H; subst; auto.
  - inversion HF as [|x y Ht HF']; subst.
    destruct (Z.ltb (t_sd t) first); [inversion H; subst; auto|].
    destruct (t_act t).
    + bind_as H as b E1. bind_as H as acq E2.
      eapply IH in H; eauto. cbn. apply add_aff_nonreg; assumption.
    + eapply IH; eauto.
    + eapply IH; eauto.
    + eapply IH; eauto.
    + bind_as H as f E1. bind_as H as nsa E2. eapply IH; eauto.
Qed.

Lemma min3_pos a b c : 0 < a -> 0 < b -> 0 < c -> 0 < min3 a b c.
Proof. intros. unfold min3. destruct (Qcltb b a); destruct (Qcltb c _); assumption. Qed.

(* a sale without user-supplied value: its generated rows add up to minus the
   denied amount, unless the report flags it as potentially over-applied *)
Lemma delta_sfl_sum bef t sold aft st loss info inj :
  delta_sfl exact bef t sold None aft st loss = Ok (Some (info, inj)) ->
  0 < sold -> Forall tx_nonreg bef -> Forall tx_nonreg aft ->
  sf_over info = false ->
  sfla_sum inj = - sf_amount info.
Proof.
  unfold delta_sfl. intros H Hsold Hb Ha Hover.
  bind_as H as i Ei. bind_as H as m Em. bind_as H as calc Ec.
  destruct m as [r|]; [|discriminate].
  destruct (negb (Qcltb calc 0)); [discriminate|]. rename calc into c.
  bind_as H as txs Et. inversion H; subst info inj; clear H.
  cbn [sf_amount sf_over] in *.
  (* the scan *)
  unfold sfl_info in Ei. cbn [a_sub exact bind] in Ei.
  if_inv Ei. if_inv Ei.
  bind_as Ei as s1 E1. destruct (Qcltb_spec 0 (sc_eop s1)) as [Heop|]; cbn [negb] in Ei;
    [|inversion Ei; subst i; discriminate Em].
  bind_as Ei as s2 E2. destruct (Qcltb_spec 0 (sc_acq s2)) as [Hacq|];
    [|inversion Ei; subst i; discriminate Em].
  inversion Ei; subst i; clear Ei.
  apply fwd_scan_props in E1; [|assumption|constructor].
  apply bwd_scan_props in E2 as [Hbuy Heq]; [|assumption|assumption].
  (* the ratio *)
  unfold sfl_ratio in Em. destruct (sc_buyers s2) as [|b0 bs] eqn:Eb; [discriminate|].
  rewrite <- Eb in *.
  bind_as Em as total Es. bind_as Em as ps Ep. inversion Em; subst r; clear Em.
  cbn [sr_over sr_portions sr_num sr_den] in *.
  apply sum_buyers_spec in Es. rewrite Qcplus_0_l in Es.
  assert (Hnum : 0 < min3 sold (sc_acq s2) (sc_eop s2)) by (apply min3_pos; [assumption|assumption|rewrite Heq; assumption]).
  apply Qcltb_false in Hover.
  assert (Htot : 0 < total) by (eapply Qclt_le_trans; eauto).
  destruct (Qcltb_spec 0 total) as [_|]; [|contradiction].
  apply portions_spec in Ep as [Hps Hsum]; [|apply sort_affs_nonreg; assumption].
  pose proof (gen_sfla_sum _ _ _ _ _ Et Hps) as Hg.
  rewrite Hsum, <- Es in Hg.
  assert (Ht0 : total <> 0) by (apply Qclt_not_eq'; assumption).
  assert (Hx : sfla_sum txs = sfla_sum txs * total / total) by (field; exact Ht0).
  rewrite Hx, Hg. field. exact Ht0.
Qed.

(* ---- whole runs ---- *)
Definition sfla_row (d : delta) : Prop := is_sfla (t_act (d_tx d)) = true.
Definition head_not_sfla (ds : list delta) : Prop :=
  match ds with [] => True | d :: _ => is_sfla (t_act (d_tx d)) = false end.
Definition not_over (d : delta) : Prop :=
  match d_sfl d with Some i => sf_over i = false | None => True end.

(* input rows of C03: non-registered affiliate, no user-supplied SfLA rows,
   no user-supplied superficial loss on sales, valid quantities *)
Definition c03_row (t : tx) : Prop :=
  nonreg (t_af t) /\ valid_tx t = true /\
  match t_act t with
  | Sfla _ _ => False
  | Sell _ _ _ _ _ sp => sp = None
  | _ => True
  end.

Lemma gen_sfla_nonreg A t loss ps l :
  gen_sfla A t loss ps = Ok l ->
  Forall (fun x => is_sfla (t_act x) = true /\ nonreg (t_af x)) l.
Proof.
  revert l. induction ps as [|[af [n dn]] ps IH]; cbn [gen_sfla]; intros l H.
  - inversion H; constructor.
  - destruct (negb (Qceqb n 0) && negb (af_reg af)) eqn:Ec.
    + bind_as H as q Eq. bind_as H as q1 Eq1. bind_as H as q2 Eq2. bind_as H as m Em.
      bind_as H as amt Ea. bind_as H as rest Er.
      inversion H; subst l. constructor; [|eauto].
      cbn. split; [reflexivity|]. apply andb_prop in Ec as [_ Ec]. unfold nonreg.
      now destruct (af_reg af).
    + eauto.
Qed.

Lemma delta_sfl_inj_nonreg A bef t sold spec aft st loss info inj :
  delta_sfl A bef t sold spec aft st loss = Ok (Some (info, inj)) ->
  Forall (fun x => is_sfla (t_act x) = true /\ nonreg (t_af x)) inj.
Proof.
  unfold delta_sfl. intros H.
  bind_as H as i Ei. bind_as H as m Em. bind_as H as calc Ecalc.
  destruct spec as [[sv force]|].
  - bind_as H as u Eu. destruct (negb (Qcltb sv 0)); [discriminate|].
    bind_as H as q Eq. bind_as H as nn En. inversion H; constructor.
  - destruct m as [r|]; [|discriminate].
    destruct (negb (Qcltb calc 0)); [discriminate|].
    bind_as H as txs Et. inversion H; subst. eapply gen_sfla_nonreg; eauto.
Qed.

Lemma delta_for_tx_inj_nonreg A bef t aft st d inj :
  delta_for_tx A bef t aft st = Ok (d, inj) ->
  Forall (fun x => is_sfla (t_act x) = true /\ nonreg (t_af x)) inj.
Proof.
  unfold delta_for_tx. intros H. bind_as H as u Eu.
  destruct (t_act t) as [n price com rate crate | n price com rate crate sp | amount rate
                        | n amount | post pre_ io];
    try (bind_as H as d0 Ed; inversion H; constructor).
  bind_as H as c Ec. destruct (sc_gain c) as [g|]; [|inversion H; constructor].
  destruct (Qcltb g 0).
  - bind_as H as m Em. destruct m as [[info inj']|]; [|inversion H; constructor].
    bind_as H as g' Eg. inversion H; subst. eapply delta_sfl_inj_nonreg; eauto.
  - destruct sp; [discriminate|]. inversion H; constructor.
Qed.

Lemma split_after_sfla (dsi ds2 p rest : list delta) :
  p ++ rest = dsi ++ ds2 -> Forall sfla_row dsi -> head_not_sfla rest ->
  exists p2, p = dsi ++ p2 /\ ds2 = p2 ++ rest.
Proof.
  revert p. induction dsi as [|x dsi IH]; intros p H HF Hh.
  - exists p. auto.
  - inversion HF as [|y z Hx HF']; subst. destruct p as [|y p].
    + cbn in H. subst rest. cbn in Hh. unfold sfla_row in Hx. congruence.
    + cbn in H. inversion H; subst. destruct (IH _ H2 HF' Hh) as (p2 & -> & ->).
      exists p2. auto.
Qed.

Lemma sell_inj bef t aft st d inj n price com rate crate :
  delta_for_tx exact bef t aft st = Ok (d, inj) ->
  t_act t = Sell n price com rate crate None ->
  (d_sfl d = None /\ inj = []) \/
  (exists info g, d_sfl d = Some info /\
                  delta_sfl exact bef t n None aft st g = Ok (Some (info, inj))).
Proof.
  unfold delta_for_tx. intros H Ea. bind_as H as u Eu. rewrite Ea in H.
  bind_as H as c Ec. destruct (sc_gain c) as [g|].
  - destruct (Qcltb g 0).
    + bind_as H as m Em. destruct m as [[info inj']|].
      * bind_as H as g' Eg. inversion H; subst. right. exists info, g. auto.
      * inversion H; subst. left. auto.
    + inversion H; subst. left; auto.
  - inversion H; subst. left; auto.
Qed.

Lemma nonsell_inj bef t aft st d inj :
  delta_for_tx exact bef t aft st = Ok (d, inj) -> is_sell (t_act t) = false -> inj = [].
Proof.
  unfold delta_for_tx. intros H Hs. bind_as H as u Eu.
  destruct (t_act t); try discriminate Hs; bind_as H as d0 Ed0; inversion H; reflexivity.
Qed.

Lemma run_injected_phi bef st inj aft ds bef' st' :
  run_injected exact bef st inj aft = (ds, bef', st', None) ->
  Forall (fun x => is_sfla (t_act x) = true /\ nonreg (t_af x)) inj ->
  phi (abs_map (ps_map st)) ds = - sfla_sum inj /\
  abs_map (ps_map st') = after (abs_map (ps_map st)) ds /\
  Forall sfla_row ds /\
  bef' = rev inj ++ bef.
Proof.
  revert bef st ds bef' st'. induction inj as [|t inj IH]; intros bef st ds bef' st' H HF;
    cbn [run_injected] in H.
  - inversion H; subst. cbn. split; [ring|]. split; [reflexivity|]. split; [constructor|reflexivity].
  - destruct (delta_for_tx exact bef t (inj ++ aft) st) as [[d i]| |] eqn:Ed; try discriminate H.
    destruct (set_latest exact st (t_af t) (d_post d)) as [st1| |] eqn:Es; try discriminate H.
    destruct (run_injected exact (t :: bef) st1 inj aft) as [[[ds1 b1] s1] o1] eqn:Er.
    inversion H; subst; clear H.
    inversion HF as [|x y [Hs Hn] HF']; subst.
    pose proof (row_inc _ _ _ _ _ _ Ed (sfla_sell_positive _ Hs) Hn) as Hinc.
    pose proof (delta_tx_eq _ _ _ _ _ _ _ Ed) as Htx.
    apply set_latest_map in Es.
    specialize (IH _ _ _ _ _ Er HF') as (IH1 & IH2 & IH3 & IH4).
    assert (Hupd : upd (abs_map (ps_map st)) d = abs_map (ps_map st1))
      by (unfold upd; rewrite Htx, aupdate_abs, Es; reflexivity).
    cbn [phi after fold_left sfla_sum rev]. rewrite Hupd, IH1, Hinc.
    unfold row_defect, sfla_amount. rewrite Htx.
    assert (Hrow : sfla_row d) by (unfold sfla_row; rewrite Htx; exact Hs).
    destruct (t_act t); try discriminate Hs.
    split; [ring|]. split; [exact IH2|]. split; [constructor; assumption|].
    rewrite IH4, <- app_assoc. reflexivity.
Qed.

Lemma rev_nonreg l : Forall tx_nonreg l -> Forall tx_nonreg (rev l).
Proof. intros H. apply Forall_rev. exact H. Qed.

Lemma run_loop_conserved bef st aft ds :
  run_loop exact bef st aft = (ds, None) ->
  Forall c03_row aft -> Forall tx_nonreg bef ->
  forall p rest, ds = p ++ rest -> head_not_sfla rest -> Forall not_over p ->
                 phi (abs_map (ps_map st)) p = 0.
Proof.
  revert bef st ds. induction aft as [|t aft IH]; intros bef st ds H Hrows Hbef p rest Hsplit Hh Hno;
    cbn [run_loop] in H.
  - inversion H; subst. destruct p; [reflexivity | discriminate].
  - destruct (delta_for_tx exact bef t aft st) as [[d inj]| |] eqn:Ed; try discriminate H.
    destruct (set_latest exact st (t_af t) (d_post d)) as [st1| |] eqn:Es; try discriminate H.
    destruct (run_injected exact (t :: bef) st1 inj aft) as [[[dsi b1] st2] o1] eqn:Er.
    destruct o1 as [s1|]; [discriminate H|].
    destruct (run_loop exact b1 st2 aft) as [ds2 o2] eqn:El.
    inversion H as [[Hds Ho]]; clear H. rewrite Ho in El. clear Ho o2.
    rewrite <- Hds in Hsplit. clear Hds ds.
    apply Forall_cons_iff in Hrows as [(Hnr & Hval & Hshape) Hrows'].
    destruct p as [|d0 p]; [reflexivity|].
    cbn [app] in Hsplit. inversion Hsplit as [[Hd0 H1]]. subst d0. clear Hsplit. symmetry in H1.
    pose proof (delta_for_tx_inj_nonreg _ _ _ _ _ _ _ Ed) as Hinj.
    pose proof (valid_sell_positive _ Hval) as Hpos.
    pose proof (row_inc _ _ _ _ _ _ Ed Hpos Hnr) as Hinc.
    pose proof (delta_tx_eq _ _ _ _ _ _ _ Ed) as Htx.
    pose proof Es as Es'. apply set_latest_map in Es'.
    assert (Hupd : upd (abs_map (ps_map st)) d = abs_map (ps_map st1))
      by (unfold upd; rewrite Htx, aupdate_abs, Es'; reflexivity).
    pose proof (run_injected_phi _ _ _ _ _ _ _ Er Hinj) as (Hp1 & Hp2 & Hp3 & Hp4).
    destruct (split_after_sfla _ _ _ _ H1 Hp3 Hh) as (p2 & -> & ->).
    apply Forall_cons_iff in Hno as [Hno_d Hno_rest].
    apply Forall_app in Hno_rest as [_ Hno2].
    cbn [phi]. rewrite Hupd, phi_app, Hp1, <- Hp2, Hinc.
    assert (Hb1 : Forall tx_nonreg b1).
    { rewrite Hp4. apply Forall_app. split.
      - apply rev_nonreg. eapply Forall_impl; [|exact Hinj]. intros a [_ Ha]; exact Ha.
      - constructor; assumption. }
    rewrite (IH _ _ _ El Hrows' Hb1 p2 rest eq_refl Hh Hno2).
    (* the row and its generated rows cancel *)
    unfold row_defect. rewrite Htx.
    destruct (t_act t) as [n price com rate crate | n price com rate crate sp | amount rate
                          | n amount | post pre_ io] eqn:Ea.
    2: { subst sp.
      destruct (sell_inj _ _ _ _ _ _ _ _ _ _ _ Ed Ea) as [[Hnone ->]|(info & g & Hsome & Hds)].
      * unfold denied_of. rewrite Hnone. cbn. ring.
      * unfold not_over in Hno_d. rewrite Hsome in Hno_d.
        assert (Hn0 : 0 < n).
        { unfold sell_positive in Hpos. rewrite Ea in Hpos. exact Hpos. }
        assert (Haft : Forall tx_nonreg aft).
        { eapply Forall_impl; [|exact Hrows']. intros a (Ha & _); exact Ha. }
        rewrite (delta_sfl_sum _ _ _ _ _ _ _ _ Hds Hn0 Hbef Haft Hno_d).
        unfold denied_of. rewrite Hsome. ring. }
    3: contradiction.
    all: rewrite (nonsell_inj _ _ _ _ _ _ Ed) by (rewrite Ea; reflexivity); cbn [sfla_sum]; ring.
Qed.

Theorem run_conserved init txs ds :
  run exact init txs = (ds, None) ->
  Forall c03_row txs ->
  forall p rest, ds = p ++ rest -> head_not_sfla rest -> Forall not_over p ->
                 conserved (spec_init init) p.
Proof.
  unfold run. intros H Hrows p rest Hsplit Hh Hno. apply conserved_phi.
  destruct txs as [|t txs].
  - inversion H; subst. destruct p; [reflexivity | discriminate].
  - destruct (init_state exact init) as [st| |] eqn:Ei; try discriminate H.
    rewrite <- (init_state_abs _ _ Ei).
    eapply run_loop_conserved; eauto.
Qed.
