(* Proofs about the E*TRADE matching model (Model/Etrade.v): property C19. *)
From Coq Require Import List NArith ZArith QArith Qcanon Bool Lia Permutation Sorted.
From ACB Require Import Base.Outcome Base.QcExtra Base.Fit Base.Arith Model.Etrade Proofs.Tactics.
Import ListNotations.
Local Open Scope Z_scope.

(* ======================================================================
   1. Sub-lists (subsequences)                                              *)
Inductive subseq {T} : list T -> list T -> Prop :=
| ss_nil : subseq [] []
| ss_skip x l m : subseq m l -> subseq m (x :: l)
| ss_take x l m : subseq m l -> subseq (x :: m) (x :: l).

Lemma subseq_nil_l {T} (l : list T) : subseq [] l.
Proof. induction l; constructor; assumption. Qed.

Lemma subseq_refl {T} (l : list T) : subseq l l.
Proof. induction l; constructor; assumption. Qed.

Lemma subseq_In {T} (m l : list T) x : subseq m l -> In x m -> In x l.
Proof.
  induction 1 as [|y l m Hs IH|y l m Hs IH]; cbn; intros Hin; auto.
  destruct Hin as [->|Hin]; auto.
Qed.

Lemma subseq_trans {T} (a b c : list T) : subseq a b -> subseq b c -> subseq a c.
Proof.
  intros Hab Hbc. revert a Hab.
  induction Hbc as [|x l m Hs IH|x l m Hs IH]; intros a Hab.
  - exact Hab.
  - constructor. apply IH; exact Hab.
  - inversion Hab as [|y l' m' Hs'|y l' m' Hs']; subst.
    + constructor. apply IH; assumption.
    + apply ss_take. apply IH; assumption.
Qed.

Lemma subseq_filter {T} (p : T -> bool) (l : list T) : subseq (filter p l) l.
Proof.
  induction l as [|x l IH]; cbn; [constructor|].
  destruct (p x); constructor; exact IH.
Qed.

Lemma subseq_map {T U} (f : T -> U) (m l : list T) : subseq m l -> subseq (map f m) (map f l).
Proof. induction 1; cbn; constructor; assumption. Qed.

Lemma subseq_cons_map {T} (x : T) (cs : list (list T)) (l : list T) :
  Forall (fun c => subseq c l) cs -> Forall (fun c => subseq c (x :: l)) (map (cons x) cs).
Proof.
  intros H. apply Forall_forall. intros c Hc. apply in_map_iff in Hc.
  destruct Hc as [c' [<- Hc']]. apply ss_take. rewrite Forall_forall in H. auto.
Qed.

(* ======================================================================
   2. Combinations                                                          *)
Lemma combs_spec {T} (l : list T) : forall n c, In c (combs n l) -> subseq c l /\ length c = n.
Proof.
  induction l as [|x r IH]; intros n c Hin.
  - destruct n; cbn in Hin.
    + destruct Hin as [<-|[]]. split; [constructor | reflexivity].
    + destruct Hin.
  - destruct n as [|k]; cbn [combs] in Hin.
    + destruct Hin as [<-|[]]. split; [apply subseq_nil_l | reflexivity].
    + apply in_app_or in Hin. destruct Hin as [Hin|Hin].
      * apply in_map_iff in Hin. destruct Hin as [c' [<- Hc']].
        destruct (IH k c' Hc') as [Hs Hl]. split; [apply ss_take; exact Hs | cbn; lia].
      * destruct (IH (S k) c Hin) as [Hs Hl]. split; [apply ss_skip; exact Hs | exact Hl].
Qed.

Lemma all_combos_spec {T} (l : list T) c : In c (all_combos l) -> subseq c l /\ c <> [].
Proof.
  unfold all_combos. intros Hin. apply in_flat_map in Hin.
  destruct Hin as [n [Hn Hc]]. apply in_rev in Hn. apply in_seq in Hn.
  destruct (combs_spec l n c Hc) as [Hs Hl]. split; [exact Hs|].
  intros ->. cbn in Hl. lia.
Qed.

(* The search space is exponential: 2^n - 1 candidate sets for n candidate
   trades (every non-empty sub-list is enumerated once). *)
Fixpoint sum1 {T} (n : nat) (l : list T) : nat :=
  match n with O => O | S k => (sum1 k l + length (combs (S k) l))%nat end.

Lemma combs_0_length {T} (l : list T) : length (combs 0 l) = 1%nat.
Proof. destruct l; reflexivity. Qed.

Lemma combs_S_nil {T} k : @combs T (S k) [] = [].
Proof. reflexivity. Qed.

Lemma combs_S_cons_length {T} k (x : T) r :
  length (combs (S k) (x :: r)) = (length (combs k r) + length (combs (S k) r))%nat.
Proof. cbn [combs]. rewrite app_length, map_length. reflexivity. Qed.

Lemma sum1_nil {T} n : @sum1 T n [] = 0%nat.
Proof. induction n; cbn [sum1]; [reflexivity|]. rewrite IHn. reflexivity. Qed.

Lemma sum1_cons {T} n (x : T) r :
  (1 + sum1 (S n) (x :: r) = (1 + sum1 n r) + (1 + sum1 (S n) r))%nat.
Proof.
  induction n as [|n IH].
  - cbn [sum1]. rewrite combs_S_cons_length, combs_0_length. lia.
  - change (sum1 (S (S n)) (x :: r)) with (sum1 (S n) (x :: r) + length (combs (S (S n)) (x :: r)))%nat.
    change (sum1 (S (S n)) r) with (sum1 (S n) r + length (combs (S (S n)) r))%nat.
    rewrite combs_S_cons_length.
    change (sum1 (S n) r) with (sum1 n r + length (combs (S n) r))%nat in *.
    lia.
Qed.

Lemma sum1_pow {T} (l : list T) : forall n, (length l <= n)%nat -> (1 + sum1 n l = 2 ^ length l)%nat.
Proof.
  induction l as [|x r IH]; intros n Hn.
  - rewrite sum1_nil. reflexivity.
  - destruct n as [|n]; [cbn in Hn; lia|]. cbn [length] in Hn.
    rewrite sum1_cons. rewrite (IH n) by lia. rewrite (IH (S n)) by lia.
    cbn [length]. rewrite Nat.pow_succ_r'. lia.
Qed.

Lemma flat_map_length_seq {T} (l : list T) n :
  length (flat_map (fun k => combs k l) (seq 1 n)) = sum1 n l.
Proof.
  induction n as [|n IH]; [reflexivity|].
  rewrite seq_S, flat_map_app, app_length, IH. cbn [flat_map sum1]. rewrite app_nil_r.
  reflexivity.
Qed.

Lemma all_combos_length {T} (l : list T) : (length (all_combos l) = 2 ^ length l - 1)%nat.
Proof.
  unfold all_combos.
  assert (H : Permutation (flat_map (fun k => combs k l) (rev (seq 1 (length l))))
                          (flat_map (fun k => combs k l) (seq 1 (length l)))).
  { apply Permutation_flat_map. apply Permutation_sym, Permutation_rev. }
  rewrite (Permutation_length H), flat_map_length_seq.
  pose proof (sum1_pow l (length l) (le_n _)). lia.
Qed.

(* ======================================================================
   3. Stable insertion sort                                                 *)
Lemma insert_by_perm {T} (le : T -> T -> bool) x l : Permutation (insert_by le x l) (x :: l).
Proof.
  induction l as [|y r IH]; cbn; [reflexivity|].
  destruct (le x y); [reflexivity|].
  rewrite IH. apply perm_swap.
Qed.

Lemma sort_by_perm {T} (le : T -> T -> bool) l : Permutation (sort_by le l) l.
Proof.
  induction l as [|x r IH]; cbn; [reflexivity|].
  unfold sort_by in IH. rewrite insert_by_perm. constructor. exact IH.
Qed.

Lemma sort_by_In {T} (le : T -> T -> bool) l x : In x (sort_by le l) <-> In x l.
Proof.
  split; apply Permutation_in; [apply sort_by_perm | apply Permutation_sym, sort_by_perm].
Qed.

Section SortSorted.
  Context {T : Type} (le : T -> T -> bool).
  Hypothesis le_total : forall x y, le x y = true \/ le y x = true.
  Hypothesis le_trans : forall x y z, le x y = true -> le y z = true -> le x z = true.

  Lemma insert_by_sorted x l :
    StronglySorted (fun a b => le a b = true) l ->
    StronglySorted (fun a b => le a b = true) (insert_by le x l).
  Proof.
    induction 1 as [|y r Hs IH Hall]; cbn.
    - constructor; constructor.
    - destruct (le x y) eqn:E.
      + constructor; [constructor; assumption|].
        constructor; [exact E|].
        rewrite Forall_forall in *. intros z Hz. eapply le_trans; [exact E | auto].
      + constructor; [exact IH|].
        rewrite Forall_forall in *. intros z Hz.
        apply (Permutation_in _ (insert_by_perm le x r)) in Hz. destruct Hz as [<-|Hz]; auto.
        destruct (le_total x y) as [H|H]; [congruence | exact H].
  Qed.

  Lemma sort_by_sorted l : StronglySorted (fun a b => le a b = true) (sort_by le l).
  Proof.
    induction l as [|x r IH]; cbn; [constructor|].
    apply insert_by_sorted. exact IH.
  Qed.
End SortSorted.

(* sorting an already strictly increasing list of indices changes nothing *)
Lemma sort_idx_subseq n : forall i js, subseq js (seq i n) -> sort_by nat_leb_pair js = js.
Proof.
  induction n as [|n IH]; intros i js Hs; cbn [seq] in Hs.
  - inversion Hs; subst. reflexivity.
  - inversion Hs as [|x l m Hs'|x l m Hs']; subst.
    + eapply IH; eassumption.
    + cbn [sort_by fold_right]. fold (sort_by nat_leb_pair m). rewrite (IH (S i) m Hs').
      destruct m as [|j m']; [reflexivity|].
      assert (Hj : In j (seq (S i) n)) by (eapply subseq_In; [exact Hs' | left; reflexivity]).
      apply in_seq in Hj. cbn [insert_by]. unfold nat_leb_pair.
      destruct (Nat.leb_spec i j); [reflexivity | lia].
Qed.

(* ======================================================================
   4. Tagged lists and removal by index                                     *)
Lemma tag_from_cons {T} i (x : T) l : tag_from i (x :: l) = (i, x) :: tag_from (S i) l.
Proof. reflexivity. Qed.

Lemma tag_from_fst {T} (l : list T) : forall i, map fst (tag_from i l) = seq i (length l).
Proof. induction l as [|x r IH]; intros i; [reflexivity|]. rewrite tag_from_cons. cbn. rewrite IH. reflexivity. Qed.

Lemma tag_from_snd {T} (l : list T) : forall i, map snd (tag_from i l) = l.
Proof. induction l as [|x r IH]; intros i; [reflexivity|]. rewrite tag_from_cons. cbn. rewrite IH. reflexivity. Qed.

Lemma tag_from_ge {T} (l : list T) : forall i it, In it (tag_from i l) -> (i <= fst it)%nat.
Proof.
  intros i it Hin. apply (in_map fst) in Hin. rewrite tag_from_fst in Hin. apply in_seq in Hin. lia.
Qed.

Lemma remove_all_app {T} (a b : list nat) (l : list T) :
  remove_all (a ++ b) l = (l' <- remove_all a l ;; remove_all b l').
Proof.
  revert l. induction a as [|i a IH]; intros l; cbn [app remove_all]; [reflexivity|].
  destruct (remove_at i l) as [l'| |]; cbn [bind]; [apply IH | reflexivity | reflexivity].
Qed.

Lemma remove_all_map_S {T} (js : list nat) (x : T) : forall l l',
  remove_all js l = Ok l' -> remove_all (map S js) (x :: l) = Ok (x :: l').
Proof.
  induction js as [|j js IH]; intros l l' H; cbn [map remove_all] in *.
  - inversion H; subst. reflexivity.
  - bind_as H as l1 E1. cbn [remove_at]. rewrite E1. cbn [bind]. apply IH. exact H.
Qed.

Lemma map_sub_S {T} (m : list (nat * T)) i :
  (forall it, In it m -> (S i <= fst it)%nat) ->
  map (fun it => (fst it - i)%nat) m = map S (map (fun it => (fst it - S i)%nat) m).
Proof.
  intros H. rewrite map_map. apply map_ext_in. intros it Hin. specialize (H it Hin). lia.
Qed.

(* Removing, from the highest index down, the positions of a sub-list of the
   tagged pool removes exactly that sub-list. *)
Lemma remove_subseq {T} (l : list T) : forall i (m : list (nat * T)),
  subseq m (tag_from i l) ->
  exists l', remove_all (rev (map (fun it => (fst it - i)%nat) m)) l = Ok l'
             /\ Permutation l (map snd m ++ l') /\ subseq l' l.
Proof.
  induction l as [|x r IH]; intros i m Hs.
  - cbn in Hs. inversion Hs; subst. exists []. cbn. repeat split; constructor.
  - rewrite tag_from_cons in Hs. inversion Hs as [|y l0 m0 Hs'|y l0 m0 Hs']; subst.
    + destruct (IH (S i) m Hs') as [l' [Hr [Hp Hsub]]].
      exists (x :: l'). split; [|split].
      * rewrite (map_sub_S m i).
        -- rewrite <- map_rev. apply remove_all_map_S. exact Hr.
        -- intros it Hin. apply (tag_from_ge r (S i)). eapply subseq_In; eassumption.
      * rewrite Hp. apply Permutation_middle.
      * apply ss_take. exact Hsub.
    + destruct (IH (S i) m0 Hs') as [l' [Hr [Hp Hsub]]].
      exists l'. split; [|split].
      * cbn [map rev fst]. rewrite Nat.sub_diag. rewrite remove_all_app.
        rewrite (map_sub_S m0 i).
        -- rewrite <- map_rev. rewrite (remove_all_map_S _ x r l' Hr). cbn [bind remove_all remove_at]. reflexivity.
        -- intros it Hin. apply (tag_from_ge r (S i)). eapply subseq_In; eassumption.
      * cbn [map snd app]. constructor. exact Hp.
      * apply ss_skip. exact Hsub.
Qed.

Lemma remove_matched {T} (l : list T) (m : list (nat * T)) :
  subseq m (tag l) ->
  exists l', remove_all (rev (sort_by nat_leb_pair (map fst m))) l = Ok l'
             /\ Permutation l (map snd m ++ l') /\ subseq l' l.
Proof.
  intros Hs. unfold tag in Hs.
  assert (Hsort : sort_by nat_leb_pair (map fst m) = map fst m).
  { apply (sort_idx_subseq (length l) 0). rewrite <- tag_from_fst. apply subseq_map. exact Hs. }
  rewrite Hsort. destruct (remove_subseq l 0 m Hs) as [l' [Hr H]].
  exists l'. split; [|exact H].
  rewrite <- Hr. f_equal. f_equal. apply map_ext. intros it. lia.
Qed.

(* ======================================================================
   5. find_sell_to_cover_trade_set                                          *)
Definition eligible (b : benefit) (t : trade) : Prop :=
  t_sec t = b_sec b /\ t_act t = ASell /\ b_date b <= t_td t <= b_date b + 5.

Lemma in_window_true b it :
  in_window b it = true -> t_act (snd it) = ASell /\ b_date b <= t_td (snd it) <= b_date b + 5.
Proof.
  unfold in_window. rewrite !andb_true_iff, !Z.leb_le. intros [[Ha H1] H2].
  split; [|lia]. destruct (t_act (snd it)); [discriminate | reflexivity].
Qed.

Lemma same_security_true b (c : list itrade) :
  same_security b c = true -> Forall (fun it => t_sec (snd it) = b_sec b) c.
Proof.
  unfold same_security. rewrite forallb_forall, Forall_forall. intros H it Hin.
  apply N.eqb_eq. apply H. exact Hin.
Qed.

Section WithA.
Variable A : arith.

Lemma matching_combos_spec b sh : forall cs ms,
  matching_combos A b sh cs = Ok ms ->
  forall m, In m ms ->
    In m cs /\ same_security b m = true /\ sum_shares A (trades_of m) = Ok sh.
Proof.
  induction cs as [|c r IH]; intros ms H m Hin; cbn [matching_combos] in H.
  - inversion H; subst. destruct Hin.
  - destruct (same_security b c) eqn:Es.
    + bind_as H as n En. bind_as H as rest Er. inversion H; subst ms; clear H.
      destruct (Qceqb_spec n sh) as [->|Hne].
      * destruct Hin as [<-|Hin].
        -- split; [left; reflexivity|]. split; assumption.
        -- destruct (IH rest eq_refl m Hin) as [H1 H2]. split; [right; exact H1 | exact H2].
      * destruct (IH rest eq_refl m Hin) as [H1 H2]. split; [right; exact H1 | exact H2].
    + destruct (IH ms H m Hin) as [H1 H2]. split; [right; exact H1 | exact H2].
Qed.

Lemma score_spec b c d c' :
  score A b c = Ok (d, c') -> c' = c /\ (b_stc_price b = None -> d = dec_max).
Proof.
  unfold score. intros H. bind_as H as tv E1. bind_as H as tsh E2. bind_as H as avg E3.
  destruct (b_stc_price b) as [p|].
  - bind_as H as dd E4. inversion H; subst. split; [reflexivity | discriminate].
  - inversion H; subst. split; reflexivity.
Qed.

Lemma map_res_score_spec b : forall ms scored,
  map_res (score A b) ms = Ok scored ->
  forall d m, In (d, m) scored -> In m ms /\ (b_stc_price b = None -> d = dec_max).
Proof.
  induction ms as [|c r IH]; intros scored H d m Hin; cbn [map_res] in H.
  - inversion H; subst. destruct Hin.
  - bind_as H as y Ey. bind_as H as ys Eys. inversion H; subst scored; clear H.
    destruct Hin as [->|Hin].
    + apply score_spec in Ey. destruct Ey as [-> Hd]. split; [left; reflexivity | exact Hd].
    + destruct (IH ys eq_refl d m Hin) as [H1 H2]. split; [right; exact H1 | exact H2].
Qed.

Lemma find_found b sh cands m :
  find_sell_to_cover_trade_set A b sh cands = Ok (Found m) ->
  subseq m cands /\ m <> [] /\ same_security b m = true /\ sum_shares A (trades_of m) = Ok sh.
Proof.
  unfold find_sell_to_cover_trade_set. intros H. bind_as H as ms Em.
  assert (Hall : forall x, In x ms -> subseq x cands /\ x <> [] /\ same_security b x = true
                                      /\ sum_shares A (trades_of x) = Ok sh).
  { intros x Hx. destruct (matching_combos_spec b sh _ _ Em x Hx) as [H1 [H2 H3]].
    destruct (all_combos_spec cands x H1) as [H4 H5]. auto. }
  destruct ms as [|m1 [|m2 ms']].
  - discriminate H.
  - inversion H; subst. apply Hall. left; reflexivity.
  - bind_as H as scored Esc.
    destruct (sort_by score_le scored) as [|[d m'] rest] eqn:Es; [discriminate H|].
    destruct (Qceqb d dec_max); inversion H; subst m'; clear H.
    assert (Hin : In (d, m) scored).
    { apply (sort_by_In score_le). rewrite Es. left; reflexivity. }
    destruct (map_res_score_spec b _ _ Esc d m Hin) as [Hm _]. apply Hall. exact Hm.
Qed.

(* Not a guess: without a sale price to compare with, a set is returned only
   when it is the only set of candidate trades that adds up. *)
Lemma find_noprice_unique b sh cands m :
  b_stc_price b = None ->
  find_sell_to_cover_trade_set A b sh cands = Ok (Found m) ->
  matching_combos A b sh (all_combos cands) = Ok [m].
Proof.
  unfold find_sell_to_cover_trade_set. intros Hp H. bind_as H as ms Em.
  destruct ms as [|m1 [|m2 ms']].
  - discriminate H.
  - inversion H; subst. reflexivity.
  - exfalso. bind_as H as scored Esc.
    destruct (sort_by score_le scored) as [|[d m'] rest] eqn:Es; [discriminate H|].
    assert (Hin : In (d, m') scored).
    { apply (sort_by_In score_le). rewrite Es. left; reflexivity. }
    destruct (map_res_score_spec b _ _ Esc d m' Hin) as [_ Hd]. rewrite (Hd Hp) in H.
    destruct (Qceqb_spec dec_max dec_max) as [_|Hne]; [discriminate H | apply Hne; reflexivity].
Qed.

(* ======================================================================
   6. amend_benefit_sales                                                   *)
Definition amend_b (b : benefit) (m : list trade) : benefit :=
  match b_stc_shares b, m with
  | Some _, t0 :: _ => set_stc_dates b (t_td t0) (t_sd t0)
  | _, _ => b
  end.

Definition matched_ok (b : benefit) (m : list trade) : Prop :=
  match b_stc_shares b with
  | None => m = []
  | Some sh => m <> [] /\ Forall (eligible b) m /\ sum_shares A m = Ok sh
  end.

Lemma found_eligible b sh left m :
  find_sell_to_cover_trade_set A b sh (candidates b left) = Ok (Found m) ->
  subseq m (tag left) /\ m <> [] /\ Forall (eligible b) (trades_of m)
  /\ sum_shares A (trades_of m) = Ok sh.
Proof.
  intros H. destruct (find_found _ _ _ _ H) as [Hs [Hne [Hsec Hsum]]].
  split; [|split; [exact Hne|split; [|exact Hsum]]].
  - eapply subseq_trans; [exact Hs | apply subseq_filter].
  - apply same_security_true in Hsec. unfold trades_of. rewrite Forall_forall in *.
    intros t Ht. apply in_map_iff in Ht. destruct Ht as [it [<- Hit]].
    assert (Hw : in_window b it = true).
    { pose proof (subseq_In _ _ it Hs Hit) as Hc. unfold candidates in Hc.
      apply filter_In in Hc. apply Hc. }
    apply in_window_true in Hw. unfold eligible. split; [apply Hsec; exact Hit | exact Hw].
Qed.

Lemma amend_loop_spec : forall bs i left am,
  amend_loop A i bs left = Ok am ->
  length (am_matched am) = length bs
  /\ Permutation left (concat (am_matched am) ++ am_left am)
  /\ subseq (am_left am) left
  /\ Forall (fun m => subseq m left) (am_matched am)
  /\ am_benefits am = map (fun bm => amend_b (fst bm) (snd bm)) (combine bs (am_matched am))
  /\ (am_errs am = [] -> Forall2 matched_ok bs (am_matched am)).
Proof.
  induction bs as [|b r IH]; intros i left am H; cbn [amend_loop] in H.
  - inversion H; subst am; clear H. cbn.
    repeat split; try constructor; try apply subseq_refl; try reflexivity.
  - destruct (b_stc_shares b) as [sh|] eqn:Esh.
    + bind_as H as f Ef. destruct f as [m|e].
      * destruct m as [|[i0 t0] m'] eqn:Em; [discriminate H|]. rewrite <- Em in *.
        destruct (found_eligible _ _ _ _ Ef) as [Hs [Hne [Hel Hsum]]].
        destruct (remove_matched left m Hs) as [l' [Hr [Hp Hsub]]].
        rewrite Hr in H. cbn [bind] in H. bind_as H as rr Err. inversion H; subst am; clear H.
        destruct (IH _ _ _ Err) as [H1 [H2 [H3 [H4 [H5 H6]]]]].
        cbn [am_cons am_matched am_left am_benefits am_errs].
        assert (Hsm : subseq (trades_of m) left).
        { unfold trades_of. rewrite <- (tag_from_snd left 0). apply subseq_map. exact Hs. }
        split; [cbn [length]; congruence|].
        split; [cbn [concat]; rewrite <- app_assoc; rewrite Hp; apply Permutation_app_head; exact H2|].
        split; [eapply subseq_trans; eassumption|].
        split; [constructor; [exact Hsm|]; eapply Forall_impl; [|exact H4];
                intros x Hx; cbn beta in Hx; eapply subseq_trans; eassumption|].
        split.
        -- cbn [combine map fst snd]. rewrite H5. f_equal.
           unfold amend_b. rewrite Esh. rewrite Em. reflexivity.
        -- cbn [app]. intros He. constructor; [|apply H6; exact He].
           unfold matched_ok. rewrite Esh. split; [|split; assumption].
           rewrite Em. discriminate.
      * bind_as H as rr Err. inversion H; subst am; clear H.
        destruct (IH _ _ _ Err) as [H1 [H2 [H3 [H4 [H5 H6]]]]].
        cbn [am_cons am_matched am_left am_benefits am_errs].
        split; [cbn [length]; congruence|].
        split; [cbn [concat app]; exact H2|].
        split; [exact H3|].
        split; [constructor; [apply subseq_nil_l | exact H4]|].
        split.
        -- cbn [combine map fst snd]. rewrite H5. f_equal. unfold amend_b. rewrite Esh. reflexivity.
        -- cbn [app]. discriminate.
    + bind_as H as rr Err. inversion H; subst am; clear H.
      destruct (IH _ _ _ Err) as [H1 [H2 [H3 [H4 [H5 H6]]]]].
      cbn [am_cons am_matched am_left am_benefits am_errs].
      split; [cbn [length]; congruence|].
      split; [cbn [concat app]; exact H2|].
      split; [exact H3|].
      split; [constructor; [apply subseq_nil_l | exact H4]|].
      split.
      * cbn [combine map fst snd]. rewrite H5. f_equal. unfold amend_b. rewrite Esh. reflexivity.
      * cbn [app]. intros He. constructor; [|apply H6; exact He].
        unfold matched_ok. rewrite Esh. reflexivity.
Qed.

(* ======================================================================
   7. txs_from_data                                                         *)
(* The rows a benefit contributes, given the trades consumed by it. *)
Definition spec_rows_of (b : benefit) (m : list trade) : list rowc :=
  buy_core b ::
  match b_stc_shares b, b_stc_price b, b_stc_fee b, m with
  | Some sh, Some p, Some f, t0 :: _ =>
      [{| c_sec := b_sec b; c_td := t_td t0; c_sd := t_sd t0; c_act := ASell; c_shares := sh;
          c_price := p; c_comm := f; c_memo := MemoPlanSell (b_note b) (b_sell_note b) |}]
  | _, _, _, _ => []
  end.

(* what an accepted benefit looks like: sold shares come with price and fee;
   no sold shares means no sell-to-cover field at all *)
Definition stc_complete (b : benefit) : Prop :=
  match b_stc_shares b with
  | Some _ => b_stc_price b <> None /\ b_stc_fee b <> None
  | None => b_stc_td b = None /\ b_stc_sd b = None /\ b_stc_price b = None /\ b_stc_fee b = None
  end.

Lemma benefit_rows_spec : forall bms i rows,
  Forall (fun bm => matched_ok (fst bm) (snd bm)) bms ->
  benefit_rows i (map (fun bm => amend_b (fst bm) (snd bm)) bms) = Ok rows ->
  map r_core rows = flat_map (fun bm => spec_rows_of (fst bm) (snd bm)) bms
  /\ Forall stc_complete (map fst bms).
Proof.
  induction bms as [|[b m] r IH]; intros i rows Hok H; cbn [map benefit_rows fst snd] in H.
  - inversion H; subst. split; [reflexivity | constructor].
  - inversion Hok as [|x l Hb Hr]; subst. cbn [fst snd] in Hb.
    bind_as H as s Es. bind_as H as rest Er. inversion H; subst rows; clear H.
    destruct (IH _ _ Hr Er) as [IH1 IH2].
    cbn [flat_map map fst snd]. unfold matched_ok in Hb. unfold spec_rows_of, stc_complete.
    unfold amend_b in Es. destruct (b_stc_shares b) as [sh|] eqn:Esh.
    + destruct Hb as [Hne [Hel Hsum]]. destruct m as [|t0 m']; [contradiction|].
      unfold sell_to_cover_data in Es. cbn [set_stc_dates b_stc_td b_stc_sd b_stc_price b_stc_shares b_stc_fee] in Es.
      rewrite Esh in Es.
      destruct (b_stc_price b) as [p|] eqn:Ep; destruct (b_stc_fee b) as [f|] eqn:Efee;
        try discriminate Es.
      inversion Es; subst s; clear Es.
      split.
      * cbn [map app r_core]. rewrite IH1. unfold amend_b. rewrite Esh. reflexivity.
      * constructor; [|exact IH2]. cbn [fst]. rewrite Esh. split; congruence.
    + subst m. unfold sell_to_cover_data in Es. rewrite Esh in Es.
      destruct (b_stc_td b) eqn:E1; destruct (b_stc_sd b) eqn:E2; destruct (b_stc_price b) eqn:E3;
        destruct (b_stc_fee b) eqn:E4; try discriminate Es.
      inversion Es; subst s; clear Es.
      split.
      * cbn [map app r_core]. rewrite IH1. unfold amend_b. rewrite Esh. reflexivity.
      * constructor; [|exact IH2]. cbn [fst]. rewrite Esh. auto.
Qed.

End WithA.

Lemma manual_rows_core : forall ts base, map r_core (manual_rows base ts) = map manual_core ts.
Proof. induction ts as [|t r IH]; intros base; cbn; [reflexivity|]. rewrite IH. reflexivity. Qed.

Lemma row_le_iff x y :
  row_le x y = true <->
  (c_sd (r_core x) < c_sd (r_core y)
   \/ (c_sd (r_core x) = c_sd (r_core y) /\ (r_ri x <= r_ri y)%nat)).
Proof.
  unfold row_le. rewrite orb_true_iff, andb_true_iff, Z.ltb_lt, Z.eqb_eq, Nat.leb_le. reflexivity.
Qed.

Lemma row_le_total x y : row_le x y = true \/ row_le y x = true.
Proof. rewrite !row_le_iff. lia. Qed.

Lemma row_le_trans x y z : row_le x y = true -> row_le y z = true -> row_le x z = true.
Proof. rewrite !row_le_iff. lia. Qed.

Lemma StronglySorted_weaken {T} (R S : T -> T -> Prop) (l : list T) :
  (forall x y, R x y -> S x y) -> StronglySorted R l -> StronglySorted S l.
Proof.
  intros H. induction 1 as [|x l Hs IH Hall]; constructor; [exact IH|].
  eapply Forall_impl; [|exact Hall]. intros y. apply H.
Qed.

Lemma Forall2_combine {T U} (P : T -> U -> Prop) l1 l2 :
  Forall2 P l1 l2 -> Forall (fun p => P (fst p) (snd p)) (combine l1 l2).
Proof. induction 1; cbn; constructor; assumption. Qed.

Lemma map_fst_combine {T U} : forall (l1 : list T) (l2 : list U),
  length l2 = length l1 -> map fst (combine l1 l2) = l1.
Proof.
  induction l1 as [|x r IH]; intros l2 H; [reflexivity|].
  destruct l2 as [|y l2]; [discriminate H|]. cbn. rewrite IH; [reflexivity | cbn in H; lia].
Qed.

Lemma Forall2_In_l {T U} (P : T -> U -> Prop) l1 l2 x :
  Forall2 P l1 l2 -> In x l1 -> exists y, In y l2 /\ P x y.
Proof.
  induction 1 as [|a b l1 l2 Hab Hf IH]; intros Hin; [destruct Hin|].
  destruct Hin as [->|Hin].
  - exists b. split; [left; reflexivity | exact Hab].
  - destruct (IH Hin) as [y [Hy Hp]]. exists y. split; [right; exact Hy | exact Hp].
Qed.

(* ======================================================================
   8. The whole run                                                         *)
Definition sorted_by_settlement (rows : list row) : Prop :=
  StronglySorted (fun x y => c_sd (r_core x) <= c_sd (r_core y)) rows.

Theorem extract_structure : forall A bs ts rows,
  extract A bs ts = Ok rows ->
  exists (ms : list (list trade)) (left : list trade),
    length ms = length bs
    /\ Permutation ts (concat ms ++ left)
    /\ Forall (fun m => subseq m ts) ms /\ subseq left ts
    /\ Forall2 (matched_ok A) bs ms
    /\ Forall stc_complete bs
    /\ Permutation (map r_core rows)
         (flat_map (fun bm => spec_rows_of (fst bm) (snd bm)) (combine bs ms) ++ map manual_core left)
    /\ sorted_by_settlement rows.
Proof.
  intros A bs ts rows H. unfold extract, amend_benefit_sales in H. bind_as H as am Eam.
  destruct (amend_loop_spec A _ _ _ _ Eam) as [H1 [H2 [H3 [H4 [H5 H6]]]]].
  destruct (am_errs am) as [|e es] eqn:Ee; [|discriminate H].
  specialize (H6 eq_refl).
  unfold txs_from_data in H. bind_as H as brs Eb. inversion H; subst rows; clear H.
  rewrite H5 in Eb.
  destruct (benefit_rows_spec A _ _ _ (Forall2_combine _ _ _ H6) Eb) as [Hc Hcomp].
  rewrite (map_fst_combine bs (am_matched am) H1) in Hcomp.
  exists (am_matched am), (am_left am).
  repeat split; try assumption.
  - rewrite (sort_by_perm row_le). rewrite map_app, manual_rows_core, Hc. reflexivity.
  - unfold sorted_by_settlement.
    eapply StronglySorted_weaken; [|apply (sort_by_sorted row_le row_le_total row_le_trans)].
    intros x y Hxy. cbn beta in Hxy. apply row_le_iff in Hxy. lia.
Qed.

(* ---- corollaries used by Properties/C19.v ---- *)
Definition is_plan_buy (c : rowc) : bool :=
  match c_act c, c_memo c with ABuy, MemoPlan _ => true | _, _ => false end.

Lemma filter_perm {T} (p : T -> bool) (l l' : list T) :
  Permutation l l' -> Permutation (filter p l) (filter p l').
Proof.
  induction 1 as [|x l l' Hp IH|x y l|l l' l'' H1 IH1 H2 IH2]; cbn.
  - constructor.
  - destruct (p x); [constructor|]; exact IH.
  - destruct (p x), (p y); try reflexivity. apply perm_swap.
  - etransitivity; eassumption.
Qed.

Lemma filter_plan_buy_spec : forall bms : list (benefit * list trade),
  filter is_plan_buy (flat_map (fun bm => spec_rows_of (fst bm) (snd bm)) bms) = map (fun bm => buy_core (fst bm)) bms.
Proof.
  induction bms as [|[b m] r IH]; [reflexivity|].
  cbn [flat_map map fst snd]. rewrite filter_app, IH. unfold spec_rows_of.
  destruct (b_stc_shares b), (b_stc_price b), (b_stc_fee b), m; reflexivity.
Qed.

Lemma filter_plan_buy_manual (l : list trade) : filter is_plan_buy (map manual_core l) = [].
Proof.
  induction l as [|t r IH]; [reflexivity|]. cbn [map filter]. rewrite IH.
  unfold is_plan_buy, manual_core. cbn. destruct (t_act t); reflexivity.
Qed.

Theorem each_benefit_one_buy : forall A bs ts rows,
  extract A bs ts = Ok rows ->
  Permutation (filter is_plan_buy (map r_core rows)) (map buy_core bs).
Proof.
  intros A bs ts rows H.
  destruct (extract_structure A bs ts rows H) as [ms [left [Hl [_ [_ [_ [_ [_ [Hp _]]]]]]]]].
  rewrite (filter_perm is_plan_buy _ _ Hp), filter_app, filter_plan_buy_spec, filter_plan_buy_manual, app_nil_r.
  rewrite <- (map_map fst buy_core), (map_fst_combine bs ms Hl). reflexivity.
Qed.

Theorem unmatched_is_error : forall A bs ts b sh,
  In b bs -> b_stc_shares b = Some sh ->
  (forall m, subseq m ts -> m <> [] -> Forall (eligible b) m -> sum_shares A m <> Ok sh) ->
  forall rows, extract A bs ts <> Ok rows.
Proof.
  intros A bs ts b sh Hin Hsh Hno rows H.
  destruct (extract_structure A bs ts rows H) as [ms [left [_ [_ [Hsub [_ [Hok _]]]]]]].
  destruct (Forall2_In_l _ _ _ b Hok Hin) as [m [Hm Hmo]].
  unfold matched_ok in Hmo. rewrite Hsh in Hmo. destruct Hmo as [Hne [Hel Hsum]].
  rewrite Forall_forall in Hsub. apply (Hno m (Hsub m Hm) Hne Hel Hsum).
Qed.

Definition wf_benefit (b : benefit) : Prop :=
  (0 < b_shares b)%Qc /\ (0 <= b_price b)%Qc
  /\ (forall sh, b_stc_shares b = Some sh -> (0 < sh)%Qc)
  /\ (forall p, b_stc_price b = Some p -> (0 <= p)%Qc)
  /\ (forall f, b_stc_fee b = Some f -> (0 <= f)%Qc).
Definition wf_trade (t : trade) : Prop :=
  (0 < t_shares t)%Qc /\ (0 <= t_price t)%Qc /\ (0 <= t_comm t)%Qc.

Lemma accepts_intro c :
  (0 < c_shares c)%Qc -> (0 <= c_price c)%Qc -> (0 <= c_comm c)%Qc -> acb_accepts c = true.
Proof.
  intros H1 H2 H3. unfold acb_accepts. rewrite !andb_true_iff.
  repeat split; [apply Qcltb_true | apply Qcleb_true | apply Qcleb_true]; assumption.
Qed.

Theorem accepted_by_acb : forall A bs ts rows,
  Forall wf_benefit bs -> Forall wf_trade ts ->
  extract A bs ts = Ok rows ->
  Forall (fun r => acb_accepts (r_core r) = true) rows.
Proof.
  intros A bs ts rows Hwb Hwt H.
  destruct (extract_structure A bs ts rows H) as [ms [left [Hl [_ [_ [Hleft [_ [_ [Hp _]]]]]]]]].
  assert (Hall : Forall (fun c => acb_accepts c = true) (map r_core rows)).
  { eapply Permutation_Forall; [apply Permutation_sym; exact Hp|].
    apply Forall_app. split; apply Forall_forall; intros c Hc.
    - apply in_flat_map in Hc. destruct Hc as [[b m] [Hbm Hc]]. cbn [fst snd] in Hc.
      apply in_combine_l in Hbm. rewrite Forall_forall in Hwb.
      destruct (Hwb b Hbm) as [W1 [W2 [W3 [W4 W5]]]].
      unfold spec_rows_of in Hc. destruct Hc as [<-|Hc].
      + apply accepts_intro; cbn; [exact W1 | exact W2 | apply Qcle_refl].
      + destruct (b_stc_shares b) as [sh|]; [|destruct Hc].
        destruct (b_stc_price b) as [p|]; [|destruct Hc].
        destruct (b_stc_fee b) as [f|]; [|destruct Hc].
        destruct m as [|t0 m']; [destruct Hc|]. destruct Hc as [<-|[]].
        apply accepts_intro; cbn; auto.
    - apply in_map_iff in Hc. destruct Hc as [t [<- Ht]].
      rewrite Forall_forall in Hwt. destruct (Hwt t (subseq_In _ _ t Hleft Ht)) as [W1 [W2 W3]].
      apply accepts_intro; cbn; assumption. }
  rewrite Forall_forall in *. intros r Hr. apply Hall. apply in_map. exact Hr.
Qed.

(* ======================================================================
   9. rust_decimal sums of whole share counts are exact
   Trade confirmations state whole share counts (the layouts read \d+): as long
   as the total stays below 2^96 the sum computed with [dec] is the true sum,
   so "share counts adding up to the sold shares" in matched_ok dec is meant
   literally.                                                               *)
Lemma Qred_int n : Qred (n # 1) = (n # 1)%Q.
Proof.
  unfold Qred.
  pose proof (Z.ggcd_gcd n 1) as Hg. pose proof (Z.ggcd_correct_divisors n 1) as Hd.
  destruct (Z.ggcd n 1) as [g [aa bb]]. cbn [fst snd] in *.
  rewrite Z.gcd_1_r in Hg. subst g. destruct Hd as [Ha Hb].
  rewrite Z.mul_1_l in Ha, Hb. subst aa bb. reflexivity.
Qed.

Lemma this_Qcfrac_int n : this (Qcfrac n 1) = (n # 1)%Q.
Proof. unfold Qcfrac, Q2Qc. cbn [this]. apply Qred_int. Qed.

Lemma Qcfrac_scale n (p : positive) : Qcfrac (n * Zpos p) p = Qcfrac n 1.
Proof. unfold Qcfrac. apply Q2Qc_eq_iff. unfold Qeq. cbn [Qnum Qden]. lia. Qed.

Lemma Qcfrac_int_add a b : (Qcfrac a 1 + Qcfrac b 1)%Qc = Qcfrac (a + b) 1.
Proof.
  unfold Qcplus. rewrite !this_Qcfrac_int. unfold Qcfrac. apply Q2Qc_eq_iff.
  unfold Qeq, Qplus. cbn [Qnum Qden]. lia.
Qed.

Lemma rhe_1 k : rhe k 1 = k.
Proof.
  unfold rhe. rewrite Z.div_1_r, Z.mod_1_r. cbn. reflexivity.
Qed.

Lemma fit_from_int n : Z.abs n <= max_mant -> forall s, fit_from s n 1 = Some (Qcfrac n 1).
Proof.
  intros Hn. induction s as [|s IH].
  - cbn [fit_from p10]. rewrite rhe_1, Z.mul_1_r.
    destruct (Z.leb_spec (Z.abs n) max_mant); [reflexivity | lia].
  - cbn [fit_from]. rewrite rhe_1.
    destruct (Z.leb (Z.abs (n * Zpos (p10 (S s)))) max_mant).
    + rewrite Qcfrac_scale. reflexivity.
    + exact IH.
Qed.

Lemma fit_int n : Z.abs n <= max_mant -> fit (Qcfrac n 1) = Some (Qcfrac n 1).
Proof.
  intros Hn. unfold fit. rewrite this_Qcfrac_int. cbn [Qnum Qden]. apply fit_from_int. exact Hn.
Qed.

Definition whole_shares (t : trade) (z : Z) : Prop := 0 <= z /\ t_shares t = Qcfrac z 1.
Definition zsum (zs : list Z) : Z := fold_right Z.add 0 zs.

Lemma zsum_nonneg ts zs : Forall2 whole_shares ts zs -> 0 <= zsum zs.
Proof. induction 1 as [|t z ts zs [Hz _] Hf IH]; unfold zsum in *; cbn [fold_right]; lia. Qed.

Lemma sum_from_whole_dec : forall ts zs a,
  0 <= a -> Forall2 whole_shares ts zs -> a + zsum zs <= max_mant ->
  sum_from dec (fun t => Ok (t_shares t)) ts (Qcfrac a 1) = Ok (Qcfrac (a + zsum zs) 1).
Proof.
  intros ts zs a Ha Hf. revert a Ha.
  induction Hf as [|t z ts zs [Hz Ht] Hf IH]; intros a Ha Hmax; cbn [sum_from zsum fold_right bind].
  - rewrite Z.add_0_r. reflexivity.
  - pose proof (zsum_nonneg _ _ Hf) as Hr. fold (zsum zs) in *.
    assert (Hmax' : a + (z + zsum zs) <= max_mant) by exact Hmax.
    cbn [a_add dec]. rewrite Ht, Qcfrac_int_add. unfold fit_res.
    rewrite fit_int by lia. cbn [bind]. rewrite IH by lia. f_equal. f_equal. lia.
Qed.

Lemma sum_from_whole_exact : forall ts zs a,
  Forall2 whole_shares ts zs ->
  sum_from exact (fun t => Ok (t_shares t)) ts (Qcfrac a 1) = Ok (Qcfrac (a + zsum zs) 1).
Proof.
  intros ts zs a Hf. revert a.
  induction Hf as [|t z ts zs [Hz Ht] Hf IH]; intros a; cbn [sum_from zsum fold_right bind].
  - rewrite Z.add_0_r. reflexivity.
  - fold (zsum zs). cbn [a_add exact bind]. rewrite Ht, Qcfrac_int_add, IH. f_equal. f_equal. lia.
Qed.

Theorem dec_sum_whole_shares_exact : forall ts zs,
  Forall2 whole_shares ts zs -> zsum zs <= max_mant ->
  sum_shares dec ts = Ok (Qcfrac (zsum zs) 1) /\ sum_shares exact ts = sum_shares dec ts.
Proof.
  intros ts zs Hf Hmax. unfold sum_shares.
  change 0%Qc with (Qcfrac 0 1).
  rewrite (sum_from_whole_dec ts zs 0) by (try lia; assumption).
  rewrite (sum_from_whole_exact ts zs 0 Hf). split; reflexivity.
Qed.
