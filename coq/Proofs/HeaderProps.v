(* C07, columns: the value found for each known column does not depend on the
   order of the columns, on unrecognised columns, nor on how a header cell is
   spelt as long as it is recognised as the same column - provided no known
   column name occurs twice. *)
From Coq Require Import List NArith Bool Permutation Lia.
From ACB Require Import Model.Tx Model.Header Proofs.C02Scan.
Import ListNotations.

Section HeaderProps.
  Variable cell : Type.
  Variable recognise : cell -> option N.
  Variable blank : cell -> bool.
  Variable trim : cell -> cell.

  Notation put := (put cell blank trim).

  (* the known, non-blank cells of a record *)
  Definition known (l : list (option N * cell)) : list (N * cell) :=
    flat_map (fun hc => match fst hc with
                        | Some n => if blank (snd hc) then [] else [(n, trim (snd hc))]
                        | None => [] end) l.

  Lemma fold_put_known l m :
    fold_left put l m = fold_left (fun acc kv => aupdate (fst kv) (snd kv) acc) (known l) m.
  Proof.
    revert m. induction l as [|[h c] l IH]; intros m; cbn [fold_left known flat_map]; [reflexivity|].
    unfold Header.put at 2. cbn [fst snd].
    destruct h as [n|]; [|apply IH].
    destruct (blank c); [apply IH|]. cbn [app fold_left fst snd]. apply IH.
  Qed.

  Lemma alookup_fold_notin (k : N) (l : list (N * cell)) m :
    ~ In k (map fst l) ->
    alookup k (fold_left (fun acc kv => aupdate (fst kv) (snd kv) acc) l m) = alookup k m.
  Proof.
    revert m. induction l as [|[k' v] l IH]; intros m Hn; cbn [fold_left]; [reflexivity|].
    cbn [map fst] in Hn. rewrite IH by (intros H; apply Hn; right; exact H).
    cbn [fst snd]. rewrite alookup_aupdate.
    destruct (N.eqb k k') eqn:E; [|reflexivity].
    apply N.eqb_eq in E. subst k'. exfalso. apply Hn. left; reflexivity.
  Qed.

  Lemma alookup_fold_in (k : N) v (l : list (N * cell)) m :
    NoDup (map fst l) -> In (k, v) l ->
    alookup k (fold_left (fun acc kv => aupdate (fst kv) (snd kv) acc) l m) = Some v.
  Proof.
    revert m. induction l as [|[k' v'] l IH]; intros m Hnd Hin; [contradiction|].
    cbn [map fst] in Hnd. apply NoDup_cons_iff in Hnd as [Hni Hnd]. cbn [fold_left fst snd].
    destruct Hin as [E|Hin].
    - inversion E; subst k' v'. rewrite alookup_fold_notin by exact Hni.
      rewrite alookup_aupdate, N.eqb_refl. reflexivity.
    - apply IH; assumption.
  Qed.

  Theorem value_perm (l1 l2 : list (option N * cell)) (name : N) :
    Permutation l1 l2 -> NoDup (map fst (known l1)) ->
    alookup name (fold_left put l1 []) = alookup name (fold_left put l2 []).
  Proof.
    intros Hp Hnd. rewrite !fold_put_known.
    assert (Hpk : Permutation (known l1) (known l2)).
    { unfold known. clear Hnd. induction Hp; cbn [flat_map].
      - constructor.
      - apply Permutation_app_head. assumption.
      - rewrite !app_assoc. apply Permutation_app_tail. apply Permutation_app_comm.
      - etransitivity; eassumption. }
    assert (Hnd2 : NoDup (map fst (known l2))).
    { eapply Permutation_NoDup; [|exact Hnd]. apply Permutation_map. exact Hpk. }
    destruct (in_dec N.eq_dec name (map fst (known l1))) as [Hin|Hni].
    - apply in_map_iff in Hin as ([k v] & Hk & Hin). cbn [fst] in Hk. subst k.
      rewrite (alookup_fold_in name v _ _ Hnd Hin).
      rewrite (alookup_fold_in name v _ _ Hnd2); [reflexivity|].
      eapply Permutation_in; eassumption.
    - rewrite alookup_fold_notin by exact Hni.
      rewrite alookup_fold_notin; [reflexivity|].
      intros H. apply Hni. eapply Permutation_in; [|exact H].
      apply Permutation_sym, Permutation_map. exact Hpk.
  Qed.

  (* a column whose header is not recognised (or any number of them) changes nothing *)
  Theorem unknown_columns_ignored (l : list (option N * cell)) :
    fold_left put l [] = fold_left put (filter (fun hc => match fst hc with Some _ => true | None => false end) l) [].
  Proof.
    rewrite !fold_put_known. f_equal. unfold known.
    induction l as [|[h c] l IH]; cbn [flat_map filter fst]; [reflexivity|].
    destruct h as [n|]; cbn [flat_map fst snd app]; rewrite IH; reflexivity.
  Qed.

  (* spelling of a header cell (case, padding) only matters through [recognise] *)
  Theorem header_spelling (header header' row : list cell) :
    map recognise header = map recognise header' ->
    row_values cell recognise blank trim header row = row_values cell recognise blank trim header' row.
  Proof. intros H. unfold row_values, col_names. rewrite H. reflexivity. Qed.
End HeaderProps.
