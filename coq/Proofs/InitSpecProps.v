(* The text layer of --symbol-base (Model/InitSpec.v): which specifications
   are accepted, what they mean, which one decides. *)
From Coq Require Import List NArith ZArith Bool Arith Lia.
From Coq Require String Ascii.
From ACB Require Import Base.Outcome Model.CsvFields Model.InitSpec Proofs.CsvDigits Proofs.CsvFieldProps.
Import ListNotations.
Local Open Scope N_scope.

(* ASCII text literal *)
Definition B (s : String.string) : bytes := map Ascii.N_of_ascii (String.list_ascii_of_string s).

(* ---------------------------------------------------------------- str::split *)
Lemma split_on_nonempty sep s : split_on sep s <> [].
Proof.
  induction s as [|c r IH]; cbn [split_on]; [discriminate|].
  destruct (c =? sep); [discriminate|]. destruct (split_on sep r); [contradiction|discriminate].
Qed.

Lemma split_on_nosep sep a : ~ In sep a -> split_on sep a = [a].
Proof.
  induction a as [|c r IH]; intros H; [reflexivity|]. cbn [split_on].
  destruct (N.eqb_spec c sep) as [E|E]; [exfalso; apply H; left; exact E|].
  rewrite IH; [reflexivity|]. intros Hi. apply H. right. exact Hi.
Qed.

Lemma split_on_app sep a r : ~ In sep a -> split_on sep (a ++ sep :: r) = a :: split_on sep r.
Proof.
  induction a as [|c a IH]; intros H; cbn [app split_on].
  - rewrite N.eqb_refl. reflexivity.
  - destruct (N.eqb_spec c sep) as [E|E]; [exfalso; apply H; left; exact E|].
    rewrite IH; [reflexivity|]. intros Hi. apply H. right. exact Hi.
Qed.

Lemma split_on_inv sep s : forall a t,
  split_on sep s = a :: t ->
  ~ In sep a /\ match t with
                | [] => s = a
                | _ :: _ => exists r, s = a ++ sep :: r /\ split_on sep r = t
                end.
Proof.
  induction s as [|c r IH]; intros a t H; cbn [split_on] in H.
  - inversion H; subst. split; [intros []|reflexivity].
  - destruct (N.eqb_spec c sep) as [E|E].
    + inversion H as [[Ha Ht]]. subst a. split; [intros []|].
      destruct (split_on sep r) as [|h t0] eqn:Es; [exfalso; exact (split_on_nonempty _ _ Es)|].
      exists r. subst c. split; [reflexivity|exact Es].
    + destruct (split_on sep r) as [|h t0] eqn:Es; [exfalso; exact (split_on_nonempty _ _ Es)|].
      inversion H as [[Ha Ht]]. subst a t.
      destruct (IH h t0 eq_refl) as [Hh Hm]. split.
      * intros [Hi|Hi]; [apply E; exact Hi|exact (Hh Hi)].
      * destruct t0 as [|h2 t1].
        -- subst r. reflexivity.
        -- destruct Hm as [r' [Hr Hs]]. exists r'. split; [subst r; reflexivity|exact Hs].
Qed.

Definition no_colon (s : bytes) : Prop := ~ In colon s.

(* exactly three parts = exactly two separators *)
Lemma split_three s a b d :
  split_on colon s = [a; b; d] <->
  s = a ++ colon :: b ++ colon :: d /\ no_colon a /\ no_colon b /\ no_colon d.
Proof.
  split.
  - intros H. destruct (split_on_inv _ _ _ _ H) as [Ha [r1 [E1 H1]]].
    destruct (split_on_inv _ _ _ _ H1) as [Hb [r2 [E2 H2]]].
    destruct (split_on_inv _ _ _ _ H2) as [Hd E3].
    subst. repeat split; assumption.
  - intros [E [Ha [Hb Hd]]]. subst s.
    rewrite split_on_app by exact Ha. rewrite split_on_app by exact Hb.
    rewrite split_on_nosep by exact Hd. reflexivity.
Qed.

Lemma split_on_length sep s : length (split_on sep s) = S (count_occ N.eq_dec s sep).
Proof.
  induction s as [|c r IH]; [reflexivity|]. cbn [split_on count_occ].
  destruct (N.eqb_spec c sep) as [E|E].
  - destruct (N.eq_dec c sep); [|contradiction]. cbn [length]. rewrite IH. reflexivity.
  - destruct (N.eq_dec c sep); [contradiction|].
    destruct (split_on sep r) as [|h t] eqn:Es; [exfalso; exact (split_on_nonempty _ _ Es)|].
    cbn [length] in *. exact IH.
Qed.

(* ---------------------------------------------------------------- Decimal::from_str never panics, two error classes *)
Lemma dec_round_res exact data c sc :
  match dec_round exact data c sc with
  | Ok _ => True | Rej r => r = rej_dec \/ r = rej_unmodelled | Panic _ => False
  end.
Proof.
  unfold dec_round. destruct exact; [left; reflexivity|].
  destruct (is_digit c).
  - destruct (c - 48 <? 5); [exact I|]. destruct (max_mant <? data + 1); [|exact I].
    destruct sc; [left; reflexivity|exact I].
  - destruct (c =? 95); [right|left]; reflexivity.
Qed.

Lemma dec_scan_res exact s : forall data sc pt has,
  match dec_scan exact s data sc pt has with
  | Ok _ => True | Rej r => r = rej_dec \/ r = rej_unmodelled | Panic _ => False
  end.
Proof.
  induction s as [|c r IH]; intros data sc pt has; cbn [dec_scan].
  - destruct has; [exact I|left; reflexivity].
  - destruct (is_digit c).
    + destruct (max_mant <? data * 10 + (c - 48)).
      * destruct pt; [apply dec_round_res|left; reflexivity].
      * destruct (pt && (28 <=? (if pt then S sc else sc))%nat && negb (is_nil r));
          [apply dec_round_res|apply IH].
    + destruct ((c =? 46) && negb pt); [apply IH|].
      destruct ((c =? 95) && has); [right|left]; reflexivity.
Qed.

Lemma parse_dec_res s :
  match parse_dec s with
  | Ok _ => True | Rej r => r = rej_dec \/ r = rej_unmodelled | Panic _ => False
  end.
Proof.
  unfold parse_dec, parse_dec_gen. destruct s as [|c r]; [left; reflexivity|].
  destruct (c =? 45); [|destruct (c =? 43)];
    match goal with |- context [dec_scan false ?t ?a ?b ?p ?h] =>
      pose proof (dec_scan_res false t a b p h) as H; destruct (dec_scan false t a b p h); cbn [bind]; auto end.
Qed.

(* ---------------------------------------------------------------- amounts *)
Definition amount_text (b : bytes) (n : dec) : Prop := parse_dec b = Ok n /\ dec_gez n = true.

Lemma parse_amount_ok ef en b n : parse_amount ef en b = Ok n <-> amount_text b n.
Proof.
  unfold parse_amount, amount_text. destruct (parse_dec b) as [d|r|p].
  - destruct (dec_gez d) eqn:E; split.
    + intros H. inversion H; subst. auto.
    + intros [H _]. exact H.
    + discriminate.
    + intros [H H2]. inversion H; subst. congruence.
  - split; [discriminate|intros [H _]; discriminate].
  - split; [discriminate|intros [H _]; discriminate].
Qed.

Lemma parse_amount_res ef en b :
  match parse_amount ef en b with
  | Ok n => amount_text b n
  | Rej r => (r = ef /\ parse_dec b = Rej rej_dec)
             \/ (r = en /\ exists n, parse_dec b = Ok n /\ dec_gez n = false)
             \/ (r = rej_unmodelled /\ parse_dec b = Rej rej_unmodelled)
  | Panic _ => False
  end.
Proof.
  unfold parse_amount, amount_text. pose proof (parse_dec_res b) as H.
  destruct (parse_dec b) as [d|r|p].
  - destruct (dec_gez d) eqn:E; [auto|]. right. left. split; [reflexivity|]. exists d. auto.
  - destruct H as [H|H]; subst r; [left|right; right]; split; reflexivity.
  - exact H.
Qed.

(* ---------------------------------------------------------------- one specification *)
(* the well-formed specifications and what they denote *)
Definition wf_spec (s sym : bytes) (n c : dec) : Prop :=
  exists a b d,
    s = a ++ colon :: b ++ colon :: d /\ no_colon a /\ no_colon b /\ no_colon d
    /\ trim a = sym /\ sym <> []
    /\ amount_text b n /\ amount_text d c.

Lemma is_nil_false {T} (l : list T) : is_nil l = false <-> l <> [].
Proof. destruct l; split; intros H; try discriminate; try reflexivity. contradiction. Qed.

Theorem spec_accepted_iff_wellformed s sym n c :
  parse_spec s = Ok (sym, n, c) <-> wf_spec s sym n c.
Proof.
  unfold parse_spec, wf_spec. split.
  - intros H.
    destruct (split_on colon s) as [|a [|b [|d [|x t]]]] eqn:Es; try discriminate.
    apply split_three in Es. destruct Es as [E [Ha [Hb Hd]]].
    destruct (is_nil (trim a)) eqn:En; [discriminate|].
    apply bind_ok in H. destruct H as [n' [Hn H]].
    apply bind_ok in H. destruct H as [c' [Hc H]]. inversion H; subst sym n' c'.
    apply parse_amount_ok in Hn. apply parse_amount_ok in Hc. apply is_nil_false in En.
    exists a, b, d.
    exact (conj E (conj Ha (conj Hb (conj Hd (conj eq_refl (conj En (conj Hn Hc))))))).
  - intros [a [b [d [E [Ha [Hb [Hd [Ht [Hne [Hn Hc]]]]]]]]]].
    assert (Es : split_on colon s = [a; b; d]) by (apply split_three; auto).
    rewrite Es, Ht. apply is_nil_false in Hne. rewrite Hne.
    rewrite (proj2 (parse_amount_ok _ _ b n) Hn). cbn [bind].
    rewrite (proj2 (parse_amount_ok _ _ d c) Hc). reflexivity.
Qed.

(* the rejections, one constructor per message, in the order of the checks *)
Inductive amount_error (e_fmt e_neg : rej) (b : bytes) : rej -> Prop :=
| AE_fmt : parse_dec b = Rej rej_dec -> amount_error e_fmt e_neg b e_fmt
| AE_neg n : parse_dec b = Ok n -> dec_gez n = false -> amount_error e_fmt e_neg b e_neg
| AE_unmodelled : parse_dec b = Rej rej_unmodelled -> amount_error e_fmt e_neg b rej_unmodelled.

Inductive spec_rejected (s : bytes) : rej -> Prop :=
| SR_parts : count_occ N.eq_dec s colon <> 2%nat -> spec_rejected s rej_spec_parts
| SR_symbol a b d :
    s = a ++ colon :: b ++ colon :: d -> no_colon a -> no_colon b -> no_colon d ->
    trim a = [] -> spec_rejected s rej_spec_symbol
| SR_shares a b d e :
    s = a ++ colon :: b ++ colon :: d -> no_colon a -> no_colon b -> no_colon d ->
    trim a <> [] -> amount_error rej_spec_shares rej_spec_shares_neg b e -> spec_rejected s e
| SR_acb a b d n e :
    s = a ++ colon :: b ++ colon :: d -> no_colon a -> no_colon b -> no_colon d ->
    trim a <> [] -> amount_text b n -> amount_error rej_spec_acb rej_spec_acb_neg d e -> spec_rejected s e.

Lemma parse_amount_rej ef en b e : parse_amount ef en b = Rej e <-> amount_error ef en b e.
Proof.
  split.
  - intros H. pose proof (parse_amount_res ef en b) as R. rewrite H in R.
    destruct R as [[E1 E2]|[[E1 [n [E2 E3]]]|[E1 E2]]]; subst e.
    + apply AE_fmt. exact E2.
    + apply (AE_neg _ _ _ n); assumption.
    + apply AE_unmodelled. exact E2.
  - intros H. unfold parse_amount. destruct H as [H|n H H2|H]; rewrite H; [reflexivity| |reflexivity].
    rewrite H2. reflexivity.
Qed.

Lemma split_count_three s :
  count_occ N.eq_dec s colon = 2%nat -> exists a b d, split_on colon s = [a; b; d].
Proof.
  intros H. pose proof (split_on_length colon s) as L. rewrite H in L.
  destruct (split_on colon s) as [|a [|b [|d [|x t]]]]; try discriminate.
  exists a, b, d. reflexivity.
Qed.

Theorem spec_rejected_iff s e : parse_spec s = Rej e <-> spec_rejected s e.
Proof.
  split.
  - intros H. unfold parse_spec in H.
    destruct (Nat.eq_dec (count_occ N.eq_dec s colon) 2) as [C|C].
    + destruct (split_count_three s C) as [a [b [d Es]]]. rewrite Es in H.
      apply split_three in Es. destruct Es as [E [Ha [Hb Hd]]].
      destruct (is_nil (trim a)) eqn:En.
      * inversion H; subst e. apply (SR_symbol s a b d); auto. destruct (trim a); [reflexivity|discriminate].
      * apply is_nil_false in En.
        destruct (parse_amount rej_spec_shares rej_spec_shares_neg b) as [n|r|p] eqn:Pn; cbn [bind] in H.
        -- apply parse_amount_ok in Pn.
           destruct (parse_amount rej_spec_acb rej_spec_acb_neg d) as [c|r|p] eqn:Pc; cbn [bind] in H;
             [discriminate| |discriminate].
           inversion H; subst r. apply parse_amount_rej in Pc. apply (SR_acb s a b d n e); auto.
        -- inversion H; subst r. apply parse_amount_rej in Pn. apply (SR_shares s a b d e); auto.
        -- discriminate.
    + pose proof (split_on_length colon s) as L.
      destruct (split_on colon s) as [|a [|b [|d [|x t]]]] eqn:Es; try (inversion H; subst e; apply SR_parts; exact C).
      exfalso. apply C. cbn [length] in L. lia.
  - intros H. unfold parse_spec. destruct H as [C|a b d E Ha Hb Hd Ht|a b d e E Ha Hb Hd Ht He|a b d n e E Ha Hb Hd Ht Hn He].
    + pose proof (split_on_length colon s) as L.
      destruct (split_on colon s) as [|a [|b [|d [|x t]]]]; try reflexivity.
      exfalso. apply C. cbn [length] in L. lia.
    + rewrite (proj2 (split_three s a b d)) by auto. rewrite Ht. reflexivity.
    + rewrite (proj2 (split_three s a b d)) by auto. apply is_nil_false in Ht. rewrite Ht.
      apply parse_amount_rej in He. rewrite He. reflexivity.
    + rewrite (proj2 (split_three s a b d)) by auto. apply is_nil_false in Ht. rewrite Ht.
      rewrite (proj2 (parse_amount_ok rej_spec_shares rej_spec_shares_neg b n) Hn). cbn [bind].
      apply parse_amount_rej in He. rewrite He. reflexivity.
Qed.

Lemma parse_spec_no_panic s p : parse_spec s <> Panic p.
Proof.
  unfold parse_spec. destruct (split_on colon s) as [|a [|b [|d [|x t]]]]; try discriminate.
  destruct (is_nil (trim a)); [discriminate|].
  pose proof (parse_amount_res rej_spec_shares rej_spec_shares_neg b) as R1.
  destruct (parse_amount rej_spec_shares rej_spec_shares_neg b); cbn [bind]; [|discriminate|contradiction].
  pose proof (parse_amount_res rej_spec_acb rej_spec_acb_neg d) as R2.
  destruct (parse_amount rej_spec_acb rej_spec_acb_neg d); cbn [bind]; [discriminate|discriminate|contradiction].
Qed.

(* a specification is either well formed or rejected, never both *)
Lemma spec_wf_or_rejected s :
  (exists sym n c, wf_spec s sym n c) \/ (exists e, spec_rejected s e).
Proof.
  destruct (parse_spec s) as [[[sym n] c]|e|p] eqn:E.
  - left. exists sym, n, c. apply spec_accepted_iff_wellformed. exact E.
  - right. exists e. apply spec_rejected_iff. exact E.
  - exfalso. exact (parse_spec_no_panic _ _ E).
Qed.
Lemma spec_wf_not_rejected s sym n c e : wf_spec s sym n c -> ~ spec_rejected s e.
Proof.
  intros H R. apply spec_accepted_iff_wellformed in H. apply spec_rejected_iff in R. congruence.
Qed.

(* ---------------------------------------------------------------- plain decimal texts
   [sign] digits [. digits] with at least one digit, at most 28 fractional
   digits and a mantissa below 2^96: accepted, and read as written *)
Definition sign_bytes (sg : option bool) : bytes :=
  match sg with None => [] | Some true => [45] | Some false => [43] end.
Definition sign_neg (sg : option bool) : bool := match sg with Some true => true | _ => false end.
Definition all_digits (ds : list N) : Prop := Forall (fun d => d < 10) ds.

Lemma parse_sign sg t :
  match t with c :: _ => c <> 45 /\ c <> 43 | [] => True end ->
  parse_dec (sign_bytes sg ++ t)
  = (x <- dec_scan false t 0 0%nat false false ;; Ok (dec_of_parts (sign_neg sg) x)).
Proof.
  intros H. destruct sg as [[|]|]; [reflexivity|reflexivity|].
  cbn [sign_bytes app sign_neg]. destruct t as [|c r]; [reflexivity|].
  destruct H as [H1 H2]. unfold parse_dec, parse_dec_gen.
  destruct (N.eqb_spec c 45); [contradiction|]. destruct (N.eqb_spec c 43); [contradiction|]. reflexivity.
Qed.

Lemma scan_plain_int w :
  all_digits w -> w <> [] -> val w <= max_mant ->
  dec_scan false (chars w) 0 0%nat false false = Ok (val w, 0%nat).
Proof.
  intros Hw Hne Hv. rewrite <- (app_nil_r (chars w)).
  rewrite scan_digits; [|exact Hw|exact Hv|discriminate].
  apply is_nil_false in Hne. rewrite Hne. reflexivity.
Qed.

Lemma scan_plain_frac w f :
  all_digits w -> all_digits f -> w ++ f <> [] -> val (w ++ f) <= max_mant -> (length f <= 28)%nat ->
  dec_scan false (chars w ++ 46 :: chars f) 0 0%nat false false = Ok (val (w ++ f), length f).
Proof.
  intros Hw Hf Hne Hv Hl. rewrite val_app in Hv. pose proof (pow10_pos (length f)) as Hp.
  rewrite scan_digits; [|exact Hw|unfold val in *; nia|discriminate].
  rewrite scan_point. rewrite <- (app_nil_r (chars f)).
  rewrite scan_digits; [|exact Hf| |].
  2: { rewrite val_from_spec. exact Hv. }
  2: { intros _. right. split; [cbn [Nat.add]; exact Hl|reflexivity]. }
  cbn [dec_scan Nat.add orb]. rewrite val_from_spec, val_app.
  destruct w as [|x w]; destruct f as [|y f]; try reflexivity. exfalso. apply Hne. reflexivity.
Qed.

Lemma chars_head_not_sign w t :
  all_digits w ->
  match t with c :: _ => c <> 45 /\ c <> 43 | [] => True end ->
  match chars w ++ t with c :: _ => c <> 45 /\ c <> 43 | [] => True end.
Proof.
  intros Hw Ht. destruct w as [|x w]; [exact Ht|]. inversion Hw; subst. cbn. lia.
Qed.

Theorem parse_plain_integer sg w :
  all_digits w -> w <> [] -> val w <= max_mant ->
  parse_dec (sign_bytes sg ++ chars w) = Ok (mk_dec (sign_neg sg && negb (val w =? 0)) (val w) 0).
Proof.
  intros Hw Hne Hv. rewrite parse_sign.
  - rewrite scan_plain_int by assumption. reflexivity.
  - rewrite <- (app_nil_r (chars w)). apply chars_head_not_sign; [exact Hw|exact I].
Qed.

Theorem parse_plain_fraction sg w f :
  all_digits w -> all_digits f -> w ++ f <> [] -> val (w ++ f) <= max_mant -> (length f <= 28)%nat ->
  parse_dec (sign_bytes sg ++ chars w ++ 46 :: chars f)
  = Ok (mk_dec (sign_neg sg && negb (val (w ++ f) =? 0)) (val (w ++ f)) (length f)).
Proof.
  intros Hw Hf Hne Hv Hl. rewrite parse_sign.
  - rewrite scan_plain_frac by assumption. reflexivity.
  - apply chars_head_not_sign; [exact Hw|]. split; lia.
Qed.

(* Display ("{}") of a non-negative decimal is read back as the very same
   decimal: same mantissa, same scale *)
Lemma parse_natural d :
  valid_dec d = true -> d_neg d = false -> parse_dec (dec_to_string d) = Ok d.
Proof.
  intros Hv Hn. apply valid_dec_spec in Hv. destruct Hv as [Hm [Hs _]].
  destruct (mant_digits_split d) as [HM [HL [HV HF]]].
  destruct (digits_parts d) as [HW HFr]. destruct (whole'_props _ HW) as [HW' [HVW HN]].
  assert (Hall : val (whole' (whole_digits d) ++ frac_digits d) = d_mant d).
  { rewrite val_app, HVW, <- HV, HM, val_app. reflexivity. }
  unfold dec_to_string, fmt_prec. rewrite Hn, whole_chars_eq.
  change (@nil N ++ ?x) with (sign_bytes None ++ x).
  destruct (Nat.eqb_spec (d_scale d) 0) as [E0|E0].
  - assert (Hf : frac_digits d = []) by (destruct (frac_digits d); [reflexivity|cbn in HL; lia]).
    rewrite Hf, app_nil_r in Hall. rewrite app_nil_r.
    rewrite parse_plain_integer; [|exact HW'|apply is_nil_false; exact HN|lia].
    rewrite Hall. cbn [sign_neg andb]. rewrite <- E0, <- Hn. symmetry. f_equal. apply dec_eta.
  - rewrite <- HL at 1. rewrite take_pad_all.
    rewrite parse_plain_fraction; [|exact HW'|exact HFr| |lia|lia].
    2: { intros E. apply app_eq_nil in E. destruct E as [E _]. rewrite E in HN. discriminate. }
    rewrite Hall, HL. cbn [sign_neg andb]. rewrite <- Hn. symmetry. f_equal. apply dec_eta.
Qed.

(* ---------------------------------------------------------------- round trip of a specification *)
Lemma fmt_prec_no_colon p d : no_colon (fmt_prec p d).
Proof.
  intros Hi.
  pose proof (fmt_prec_forall (fun c => negb (c =? colon)) p d eq_refl eq_refl) as H.
  assert (Hd : forall x, x < 10 -> negb (x + 48 =? colon) = true).
  { intros x Hx. apply negb_true_iff, N.eqb_neq. unfold colon. lia. }
  specialize (H Hd). rewrite forallb_forall in H. specialize (H _ Hi).
  rewrite N.eqb_refl in H. discriminate.
Qed.

(* a symbol as the user means it: no ':', no white space at either end *)
Definition plain_symbol (sym : bytes) : Prop := no_colon sym /\ trim sym = sym /\ sym <> [].
(* a non-negative 96-bit decimal *)
Definition amount_value (n : dec) : Prop := valid_dec n = true /\ d_neg n = false.
Definition show_spec (sym : bytes) (n c : dec) : bytes :=
  sym ++ colon :: dec_to_string n ++ colon :: dec_to_string c.

Lemma amount_value_text n : amount_value n -> amount_text (dec_to_string n) n.
Proof.
  intros [Hv Hn]. split; [apply parse_natural; assumption|]. unfold dec_gez. rewrite Hn. reflexivity.
Qed.

Theorem spec_roundtrip sym n c :
  plain_symbol sym -> amount_value n -> amount_value c ->
  parse_spec (show_spec sym n c) = Ok (sym, n, c).
Proof.
  intros [Hc [Ht Hne]] Hn Hcst. apply spec_accepted_iff_wellformed.
  exists sym, (dec_to_string n), (dec_to_string c).
  repeat match goal with |- _ /\ _ => split end; try assumption; try reflexivity;
    try apply fmt_prec_no_colon; apply amount_value_text; assumption.
Qed.

(* ---------------------------------------------------------------- the list of specifications *)
Lemma beqb_true_iff a b : beqb a b = true <-> a = b.
Proof. split; [apply beqb_eq|intros ->; apply beqb_refl]. Qed.

Lemma al_find_insert {V} k k' (v : V) l :
  al_find k (al_insert k' v l) = if beqb k' k then Some v else al_find k l.
Proof.
  induction l as [|[k0 v0] r IH]; cbn [al_insert al_find].
  - reflexivity.
  - destruct (beqb k0 k') eqn:E0.
    + apply beqb_eq in E0. subst k0. cbn [al_find]. destruct (beqb k' k); reflexivity.
    + cbn [al_find]. rewrite IH. destruct (beqb k0 k) eqn:E1; [|reflexivity].
      apply beqb_eq in E1. subst k0. destruct (beqb k' k) eqn:E2; [|reflexivity].
      apply beqb_eq in E2. subst k'. rewrite beqb_refl in E0. discriminate.
Qed.

Lemma al_insert_keys {V} k (v : V) l :
  NoDup (map fst l) -> NoDup (map fst (al_insert k v l))
  /\ forall x, In x (map fst (al_insert k v l)) <-> x = k \/ In x (map fst l).
Proof.
  induction l as [|[k0 v0] r IH]; intros ND; cbn [al_insert map fst].
  - split; [constructor; [intros []|constructor]|]. intros x. cbn. intuition.
  - inversion ND as [|? ? Hn ND']; subst. destruct (IH ND') as [IH1 IH2].
    destruct (beqb k0 k) eqn:E.
    + apply beqb_eq in E. subst k0. cbn [map fst]. split; [exact ND|].
      intros x. cbn. intuition.
    + cbn [map fst]. split.
      * constructor; [|exact IH1]. intros Hi. apply IH2 in Hi. destruct Hi as [Hi|Hi]; [|exact (Hn Hi)].
        subst k0. rewrite beqb_refl in E. discriminate.
      * intros x. cbn. rewrite IH2. intuition.
Qed.

(* the first rejected specification decides; nothing is returned for the
   specifications before it *)
Lemma parse_specs_rej specs : forall acc e,
  parse_specs specs acc = Rej e <->
  exists pre s post, specs = pre ++ s :: post
    /\ Forall (fun x => exists v, parse_spec x = Ok v) pre /\ parse_spec s = Rej e.
Proof.
  induction specs as [|s r IH]; intros acc e; cbn [parse_specs].
  - split; [discriminate|]. intros [pre [s [post [E _]]]]. destruct pre; discriminate.
  - destruct (parse_spec s) as [x|e0|p] eqn:Ps; cbn [bind].
    + rewrite IH. split.
      * intros [pre [s' [post [E [Hp Hs]]]]]. exists (s :: pre), s', post. subst r.
        split; [reflexivity|]. split; [constructor; [exists x; exact Ps|exact Hp]|exact Hs].
      * intros [pre [s' [post [E [Hp Hs]]]]]. destruct pre as [|s0 pre].
        -- cbn [app] in E. inversion E; subst. congruence.
        -- cbn [app] in E. inversion E; subst. inversion Hp; subst. exists pre, s', post. auto.
    + split.
      * intros H. inversion H; subst. exists [], s, r. auto.
      * intros [pre [s' [post [E [Hp Hs]]]]]. destruct pre as [|s0 pre]; cbn [app] in E; inversion E; subst.
        -- congruence.
        -- inversion Hp as [|? ? [v Hv] _]; subst. congruence.
    + exfalso. exact (parse_spec_no_panic _ _ Ps).
Qed.

Lemma parse_specs_ok specs : forall acc,
  (exists l, parse_specs specs acc = Ok l) <-> Forall (fun x => exists v, parse_spec x = Ok v) specs.
Proof.
  induction specs as [|s r IH]; intros acc; cbn [parse_specs].
  - split; [constructor|]. intros _. exists acc. reflexivity.
  - destruct (parse_spec s) as [x|e0|p] eqn:Ps; cbn [bind].
    + rewrite IH. split; [intros H; constructor; [exists x; exact Ps|exact H]|].
      intros H. inversion H; assumption.
    + split; [intros [l H]; discriminate|]. intros H. inversion H as [|? ? [v Hv] _]; subst. congruence.
    + exfalso. exact (parse_spec_no_panic _ _ Ps).
Qed.

Lemma parse_specs_no_panic specs : forall acc p, parse_specs specs acc <> Panic p.
Proof.
  induction specs as [|s r IH]; intros acc p; cbn [parse_specs]; [discriminate|].
  destruct (parse_spec s) as [x|e0|p0] eqn:Ps; cbn [bind]; [apply IH|discriminate|].
  exfalso. exact (parse_spec_no_panic _ _ Ps).
Qed.

(* the value kept for a symbol is that of the LAST specification naming it *)
Fixpoint last_for (k : bytes) (specs : list bytes) : option (dec * dec) :=
  match specs with
  | [] => None
  | s :: r =>
      match last_for k r with
      | Some v => Some v
      | None =>
          match parse_spec s with
          | Ok (sym, n, c) => if beqb sym k then Some (n, c) else None
          | _ => None
          end
      end
  end.

Lemma parse_specs_find k specs : forall acc l,
  parse_specs specs acc = Ok l ->
  al_find k l = match last_for k specs with Some v => Some v | None => al_find k acc end.
Proof.
  induction specs as [|s r IH]; intros acc l H; cbn [parse_specs last_for] in *.
  - inversion H; subst. reflexivity.
  - destruct (parse_spec s) as [[[sym n] c]|e0|p] eqn:Ps; cbn [bind fst snd] in H; try discriminate.
    rewrite (IH _ _ H). destruct (last_for k r); [reflexivity|].
    rewrite al_find_insert. destruct (beqb sym k); reflexivity.
Qed.

Lemma last_for_some k specs v :
  last_for k specs = Some v <->
  exists pre s post, specs = pre ++ s :: post /\ parse_spec s = Ok (k, fst v, snd v)
    /\ Forall (fun x => forall n c, parse_spec x <> Ok (k, n, c)) post.
Proof.
  induction specs as [|s r IH]; cbn [last_for].
  - split; [discriminate|]. intros [pre [s [post [E _]]]]. destruct pre; discriminate.
  - destruct (last_for k r) as [v'|] eqn:L.
    + split.
      * intros H. inversion H; subst v'. destruct (proj1 IH eq_refl) as [pre [s' [post [E [Hs Hp]]]]].
        exists (s :: pre), s', post. subst r. auto.
      * intros [pre [s' [post [E [Hs Hp]]]]]. destruct pre as [|s0 pre]; cbn [app] in E; inversion E; subst.
        -- exfalso. assert (Hn : last_for k post = None).
           { clear - Hp. induction post as [|x post IHp]; [reflexivity|]. inversion Hp as [|? ? Hx Hp']; subst.
             cbn [last_for]. rewrite (IHp Hp'). destruct (parse_spec x) as [[[sym n] c]|e|p] eqn:Px; try reflexivity.
             destruct (beqb sym k) eqn:Ek; [|reflexivity]. apply beqb_eq in Ek. subst sym.
             exfalso. exact (Hx n c eq_refl). }
           congruence.
        -- f_equal. assert (Hx : Some v' = Some v); [|inversion Hx; reflexivity].
           apply IH. exists pre, s', post. auto.
    + assert (Hr : Forall (fun x => forall n c, parse_spec x <> Ok (k, n, c)) r).
      { clear - L. induction r as [|x r IHr]; [constructor|]. cbn [last_for] in L.
        destruct (last_for k r) eqn:Lr; [discriminate|]. constructor; [|apply IHr; reflexivity].
        intros n c Px. rewrite Px, beqb_refl in L. discriminate. }
      split.
      * intros H. destruct (parse_spec s) as [[[sym n] c]|e|p] eqn:Ps; try discriminate.
        destruct (beqb sym k) eqn:Ek; [|discriminate]. apply beqb_eq in Ek. subst sym.
        inversion H; subst v. exists [], s, r. auto.
      * intros [pre [s' [post [E [Hs Hp]]]]]. destruct pre as [|s0 pre]; cbn [app] in E; inversion E; subst.
        -- rewrite Hs, beqb_refl. destruct v; reflexivity.
        -- exfalso. rewrite Forall_forall in Hr. apply (Hr s' (in_elt s' pre post) _ _ Hs).
Qed.

Lemma last_for_none k specs :
  last_for k specs = None <-> Forall (fun x => forall n c, parse_spec x <> Ok (k, n, c)) specs.
Proof.
  split.
  - intros L. induction specs as [|x r IHr]; [constructor|]. cbn [last_for] in L.
    destruct (last_for k r) eqn:Lr; [discriminate|]. constructor; [|apply IHr; reflexivity].
    intros n c Px. rewrite Px, beqb_refl in L. discriminate.
  - intros H. destruct (last_for k specs) as [v|] eqn:L; [|reflexivity]. exfalso.
    apply last_for_some in L. destruct L as [pre [s [post [E [Hs _]]]]]. subst specs.
    rewrite Forall_forall in H. exact (H s (in_elt s pre post) _ _ Hs).
Qed.

Lemma parse_specs_nodup specs : forall acc l,
  NoDup (map fst acc) -> parse_specs specs acc = Ok l -> NoDup (map fst l).
Proof.
  induction specs as [|s r IH]; intros acc l ND H; cbn [parse_specs] in H.
  - inversion H; subst. exact ND.
  - destruct (parse_spec s) as [x|e0|p]; cbn [bind] in H; try discriminate.
    apply (IH _ _ (proj1 (al_insert_keys _ _ _ ND)) H).
Qed.

(* ---------------------------------------------------------------- statements of Properties/C16.v *)
Definition wellformed (s : bytes) : Prop := exists sym n c, wf_spec s sym n c.

Lemma wellformed_iff s : wellformed s <-> exists v, parse_spec s = Ok v.
Proof.
  split.
  - intros [sym [n [c H]]]. exists (sym, n, c). apply spec_accepted_iff_wellformed. exact H.
  - intros [[[sym n] c] H]. exists sym, n, c. apply spec_accepted_iff_wellformed. exact H.
Qed.

Lemma Forall_iff {T} (P Q : T -> Prop) l : (forall x, P x <-> Q x) -> Forall P l <-> Forall Q l.
Proof. intros H. split; apply Forall_impl; intros x; apply H. Qed.

Theorem malformed_rejected_first specs :
  (forall e, parse_initial_status specs = Rej e <->
     exists pre s post, specs = pre ++ s :: post /\ Forall wellformed pre /\ spec_rejected s e)
  /\ ((exists l, parse_initial_status specs = Ok l) <-> Forall wellformed specs)
  /\ (forall p, parse_initial_status specs <> Panic p).
Proof.
  unfold parse_initial_status. split; [|split].
  - intros e. rewrite parse_specs_rej. split; intros [pre [s [post [E [Hp Hs]]]]]; exists pre, s, post;
      (split; [exact E|]); (split; [|apply spec_rejected_iff; exact Hs]);
      revert Hp; apply Forall_impl; intros x; apply wellformed_iff.
  - rewrite parse_specs_ok. apply Forall_iff. intros x. symmetry. apply wellformed_iff.
  - apply parse_specs_no_panic.
Qed.

Theorem last_spec_wins specs l :
  parse_initial_status specs = Ok l ->
  NoDup (map fst l)
  /\ (forall k v, al_find k l = Some v <->
        exists pre s post, specs = pre ++ s :: post /\ wf_spec s k (fst v) (snd v)
          /\ Forall (fun x => forall n c, ~ wf_spec x k n c) post)
  /\ (forall k, al_find k l = None <-> Forall (fun x => forall n c, ~ wf_spec x k n c) specs).
Proof.
  unfold parse_initial_status. intros H. split; [|split].
  - apply (parse_specs_nodup specs [] l); [constructor|exact H].
  - intros k v. rewrite (parse_specs_find k _ _ _ H). cbn [al_find].
    assert (E : match last_for k specs with Some v0 => Some v0 | None => None end = last_for k specs)
      by (destruct (last_for k specs); reflexivity).
    rewrite E, last_for_some.
    split; intros [pre [s [post [E1 [Hs Hp]]]]]; exists pre, s, post; (split; [exact E1|]);
      (split; [apply spec_accepted_iff_wellformed; exact Hs|]);
      revert Hp; apply Forall_impl; intros x Hx n c; specialize (Hx n c);
      rewrite spec_accepted_iff_wellformed in *; exact Hx.
  - intros k. rewrite (parse_specs_find k _ _ _ H). cbn [al_find].
    assert (E : match last_for k specs with Some v0 => Some v0 | None => None end = last_for k specs)
      by (destruct (last_for k specs); reflexivity).
    rewrite E, last_for_none. apply Forall_iff. intros x.
    split; intros Hx n c; specialize (Hx n c); rewrite spec_accepted_iff_wellformed in *; exact Hx.
Qed.

(* two specifications: same symbol - the later one replaces the earlier;
   different symbols (be it only by the case of a letter) - both are kept *)
Theorem two_specs sym1 sym2 n1 c1 n2 c2 :
  plain_symbol sym1 -> plain_symbol sym2 ->
  amount_value n1 -> amount_value c1 -> amount_value n2 -> amount_value c2 ->
  parse_initial_status [show_spec sym1 n1 c1; show_spec sym2 n2 c2]
  = Ok (if beqb sym1 sym2 then [(sym2, (n2, c2))] else [(sym1, (n1, c1)); (sym2, (n2, c2))]).
Proof.
  intros S1 S2 N1 C1 N2 C2. unfold parse_initial_status. cbn [parse_specs].
  rewrite !spec_roundtrip by assumption. cbn [bind fst snd al_insert].
  destruct (beqb sym1 sym2); reflexivity.
Qed.

(* the round trip with its hypotheses spelled out *)
Theorem spec_roundtrip_explicit sym n c :
  ~ In colon sym -> trim sym = sym -> sym <> [] ->
  d_neg n = false -> d_mant n <= max_mant -> (d_scale n <= 28)%nat ->
  d_neg c = false -> d_mant c <= max_mant -> (d_scale c <= 28)%nat ->
  parse_spec (sym ++ colon :: dec_to_string n ++ colon :: dec_to_string c) = Ok (sym, n, c).
Proof.
  intros H1 H2 H3 Nn Nm Ns Cn Cm Cs. apply spec_roundtrip.
  - repeat split; assumption.
  - split; [apply valid_dec_spec; repeat split; try assumption; rewrite Nn; discriminate|exact Nn].
  - split; [apply valid_dec_spec; repeat split; try assumption; rewrite Cn; discriminate|exact Cn].
Qed.

Theorem plain_decimal_text sg w f :
  all_digits w -> all_digits f -> w ++ f <> [] -> val (w ++ f) <= max_mant -> (length f <= 28)%nat ->
  parse_dec (sign_bytes sg ++ chars w ++ 46 :: chars f)
  = Ok (mk_dec (sign_neg sg && negb (val (w ++ f) =? 0)) (val (w ++ f)) (length f))
  /\ (f = [] -> parse_dec (sign_bytes sg ++ chars w)
                = Ok (mk_dec (sign_neg sg && negb (val w =? 0)) (val w) 0)).
Proof.
  intros Hw Hf Hne Hv Hl. split; [apply parse_plain_fraction; assumption|].
  intros ->. rewrite app_nil_r in *. apply parse_plain_integer; assumption.
Qed.
