(* C10 at the application level (several securities), both modes: the summary of
   the history is the concatenation of the per-security summaries, the re-run of
   (summary ++ later rows) decomposes per security, and - read indices being the
   only difference between "the security's rows inside the whole input" and "the
   security's rows alone" - the round trip of every security
   (C10Entry.roundtrip_single_security, C10AnnualEntry.roundtrip_annual_single_security)
   gives the round trip of the application
   (Model/SummaryApp.v app_roundtrip). *)
From Coq Require Import List NArith ZArith QArith Qcanon Bool Lia Sorted.
From ACB Require Import Base.Outcome Base.QcExtra Base.Arith Model.Tx Model.Ledger Model.Sfl
     Model.DeltaList Model.App Model.Summary Model.SummaryObs Model.SummaryApp
     Proofs.Tactics Proofs.EraseRi Proofs.SortLayout Proofs.Layout Proofs.C15Full Proofs.C16App Proofs.C08Agg
     Proofs.C10Entry Proofs.C10Examples Proofs.C10AnnualEx Proofs.C10Erase.
Import ListNotations.
Local Open Scope Z_scope.

(* ================================================================ A. one security inside an input, up to read indices *)
Lemma sec_run_result A rows : sec_run A rows = sec_result_of A None (sort_txs rows).
Proof. reflexivity. Qed.

Lemma run_app_none A rows :
  run_app A [] rows
  = Ok (map (fun s => (s, sec_result_of A None (txs_of_sec s (sort_txs rows)))) (securities (sort_txs rows))).
Proof. rewrite run_app_per_security. reflexivity. Qed.

(* the run of one security depends on its rows up to read indices only *)
Lemma sec_run_up_to_ri A l l' : map erase l = map erase l' ->
  erase_result (sec_run A (number l)) = erase_result (sec_run A (number l')).
Proof.
  intros E. rewrite !sec_run_result, <- !sec_result_of_erase. unfold number.
  rewrite !sort_number_is_stable, E. reflexivity.
Qed.

(* what the application computes for security [s] of an input is, up to read
   indices, the run of the rows of [s] alone *)
Lemma app_sec_result A s l :
  erase_result (sec_result_of A None (txs_of_sec s (sort_txs (number l))))
  = erase_result (sec_run A (number (txs_of_sec s l))).
Proof.
  rewrite sec_run_result, <- !sec_result_of_erase, sec_rows_spec. unfold number.
  rewrite sort_number_is_stable, txs_of_sec_erase. reflexivity.
Qed.

Lemma erase_result_eq (r r' : result) :
  erase_result r = erase_result r' -> map erase_d (fst r) = map erase_d (fst r') /\ snd r = snd r'.
Proof. unfold erase_result. intros H. injection H as H1 H2. split; assumption. Qed.

(* ================================================================ B. the comparison does not read the read indices *)
Lemma same_reports_erase_l a : forall b, same_reports (map erase_d a) b = same_reports a b.
Proof.
  induction a as [|x a IH]; intros [|y b]; cbn [map same_reports]; try reflexivity.
  rewrite IH. reflexivity.
Qed.

Lemma later_obs_erase latest ds : later_obs latest (map erase_d ds) = map erase_d (later_obs latest ds).
Proof. unfold later_obs. rewrite later_deltas_erase, filter_erase_d. reflexivity. Qed.

Definition later_of (obs : bool) (latest : Z) : list delta -> list delta :=
  if obs then later_obs latest else later_deltas latest.

Lemma same_later_up_to_ri obs latest a a' b b' :
  map erase_d a = map erase_d a' -> map erase_d b = map erase_d b' ->
  same_reports (later_of obs latest a) (later_of obs latest b)
  = same_reports (later_of obs latest a') (later_of obs latest b').
Proof.
  intros Ea Eb.
  assert (H : forall x y, same_reports (later_of obs latest x) (later_of obs latest y)
                          = same_reports (later_of obs latest (map erase_d x)) (later_of obs latest (map erase_d y))).
  { intros x y. unfold later_of. destruct obs.
    - rewrite !later_obs_erase, same_reports_erase, same_reports_erase_l. reflexivity.
    - rewrite !later_deltas_erase, same_reports_erase, same_reports_erase_l. reflexivity. }
  rewrite (H a b), (H a' b'), Ea, Eb. reflexivity.
Qed.

(* ================================================================ C. the CSV layer *)
Lemma through_csv_app a b : through_csv a = a -> through_csv b = b -> through_csv (a ++ b) = a ++ b.
Proof.
  unfold through_csv. rewrite forallb_app.
  destruct (forallb _ a); destruct (forallb _ b); cbn [andb]; intros Ha Hb; try reflexivity.
  rewrite map_app, Ha, Hb. reflexivity.
Qed.

Lemma through_csv_flat_map (f : N -> list tx) SL :
  (forall s, In s SL -> through_csv (f s) = f s) -> through_csv (flat_map f SL) = flat_map f SL.
Proof.
  induction SL as [|a SL IH]; intros H; cbn [flat_map]; [reflexivity|].
  apply through_csv_app; [apply H; left; reflexivity | apply IH; intros s Hs; apply H; right; exact Hs].
Qed.

Lemma forallb_erase (p : tx -> bool) l : (forall t, p (erase t) = p t) -> forallb p (map erase l) = forallb p l.
Proof. intros H. induction l as [|t l IH]; cbn [map forallb]; [reflexivity|]. rewrite H, IH. reflexivity. Qed.

Lemma through_csv_up_to_ri l l' : map erase l = map erase l' -> through_csv l' = l' -> through_csv l = l.
Proof.
  intros E. unfold through_csv.
  set (p := fun t : tx => N.eqb (af_id (t_af t)) default_id).
  assert (Ep : forallb p l = forallb p l').
  { rewrite <- (forallb_erase p l), <- (forallb_erase p l'), E by reflexivity. reflexivity. }
  rewrite Ep. destruct (forallb p l'); [|reflexivity]. clear Ep p.
  revert l' E. induction l as [|x l IH]; intros [|y l'] E H; cbn [map] in *; try discriminate E; [reflexivity|].
  assert (El : map erase l = map erase l') by (apply (f_equal (@tl tx)) in E; exact E).
  assert (Ex : erase x = erase y) by (apply (f_equal (hd x)) in E; exact E).
  assert (Hl := f_equal (@tl tx) H). assert (Hy := f_equal (hd y) H). cbn [tl hd] in Hl, Hy.
  f_equal; [|apply (IH l' El Hl)].
  assert (Ea : t_act x = t_act y) by (apply (f_equal t_act) in Ex; exact Ex).
  assert (Eg : t_glob x = t_glob y) by (apply (f_equal t_glob) in Ex; exact Ex).
  rewrite Ea. destruct (is_split (t_act y)); [|reflexivity].
  apply (f_equal t_glob) in Hy. cbn [t_glob] in Hy. rewrite <- Hy in Eg.
  destruct x as [xs xtd xsd xa xaf xg xri]; cbn [t_glob t_sec t_td t_sd t_act t_af t_ri] in *. subst xg. rewrite <- Ea. reflexivity.
Qed.

(* ================================================================ D. rows of a security *)
Lemma later_rows_of_sec s latest k k' l :
  map erase (txs_of_sec s (rows_after latest (SortLayout.number_from k l)))
  = map erase (rows_after latest (SortLayout.number_from k' (txs_of_sec s l))).
Proof.
  pose proof (filter_erase (fun z => latest <? z)) as F. cbv beta in F.
  rewrite txs_of_sec_erase. unfold rows_after. rewrite !F, !map_erase_number, txs_of_sec_erase.
  unfold txs_of_sec. apply filter_comm.
Qed.

Lemma txs_of_sec_all s l : Forall (fun x => t_sec x = s) l -> txs_of_sec s l = l.
Proof.
  unfold txs_of_sec. induction 1 as [|x l Hx Hl IH]; cbn [filter]; [reflexivity|].
  rewrite Hx, N.eqb_refl, IH. reflexivity.
Qed.
Lemma txs_of_sec_none s t l : Forall (fun x => t_sec x = t) l -> t <> s -> txs_of_sec s l = [].
Proof.
  unfold txs_of_sec. intros H Hn. induction H as [|x l Hx Hl IH]; cbn [filter]; [reflexivity|].
  rewrite Hx. destruct (N.eqb_spec t s) as [E|_]; [contradiction | exact IH].
Qed.
Lemma txs_of_sec_app s a b : txs_of_sec s (a ++ b) = txs_of_sec s a ++ txs_of_sec s b.
Proof. unfold txs_of_sec. apply filter_app. Qed.

Lemma txs_of_sec_flat_map s (f : N -> list tx) SL :
  (forall t, In t SL -> Forall (fun x => t_sec x = t) (f t)) -> NoDup SL ->
  (In s SL -> txs_of_sec s (flat_map f SL) = f s) /\ (~ In s SL -> txs_of_sec s (flat_map f SL) = []).
Proof.
  induction SL as [|a SL IH]; intros Hf Hnd; cbn [flat_map].
  - split; [intros [] | reflexivity].
  - apply NoDup_cons_iff in Hnd as [Ha Hnd].
    destruct (IH (fun t Ht => Hf t (or_intror Ht)) Hnd) as [I1 I2].
    pose proof (Hf a (or_introl eq_refl)) as Hfa. rewrite txs_of_sec_app. split.
    + intros [->|Hin].
      * rewrite (txs_of_sec_all _ _ Hfa), (I2 Ha), app_nil_r. reflexivity.
      * assert (a <> s) by (intros ->; contradiction).
        rewrite (txs_of_sec_none s a _ Hfa), (I1 Hin) by assumption. reflexivity.
    + intros Hn. assert (a <> s) by (intros ->; apply Hn; left; reflexivity).
      rewrite (txs_of_sec_none s a _ Hfa) by assumption. apply I2. intros Hs. apply Hn. right. exact Hs.
Qed.

Lemma txs_of_sec_absent s l : ~ In s (securities l) -> txs_of_sec s l = [].
Proof.
  rewrite securities_in. unfold txs_of_sec. induction l as [|x l IH]; intros H; cbn [filter]; [reflexivity|].
  destruct (N.eqb_spec (t_sec x) s) as [E|_].
  - exfalso. apply H. left. exact E.
  - apply IH. intros Hs. apply H. right. exact Hs.
Qed.

Lemma sec_erase_Forall s l l' : map erase l = map erase l' -> Forall (fun x => t_sec x = s) l' -> Forall (fun x => t_sec x = s) l.
Proof.
  revert l'. induction l as [|x l IH]; intros [|y l'] E H; cbn [map] in E; try discriminate E; [constructor|].
  assert (El : map erase l = map erase l') by (apply (f_equal (@tl tx)) in E; exact E).
  assert (Ex : erase x = erase y) by (apply (f_equal (hd x)) in E; exact E).
  apply Forall_cons_iff in H as [Hy H]. constructor; [|apply (IH l' El H)].
  apply (f_equal t_sec) in Ex. cbn [erase t_sec] in Ex. congruence.
Qed.

(* ================================================================ E. the application run as a table over the securities *)
Section Table.
  Variable A : arith.
  Variable R : N -> result.

  Definition sum_of (latest : Z) (annual : bool) (s : N) : list tx :=
    match make_summary A latest (fst (R s)) annual with Ok x => x | _ => [] end.

  (* the summary of the application: per security, in the order of the run *)
  Lemma all_summaries_map latest annual SL :
    (forall s, In s SL -> exists x, make_summary A latest (fst (R s)) annual = Ok x) ->
    all_summaries A latest annual (map (fun s => (s, R s)) SL) = Ok (flat_map (sum_of latest annual) SL).
  Proof.
    induction SL as [|a SL IH]; intros H; cbn [map all_summaries flat_map]; [reflexivity|].
    destruct (H a (or_introl eq_refl)) as [x Hx]. unfold sum_of at 1.
    destruct (R a) as [ds o]. cbn [fst] in Hx |- *. rewrite Hx. cbn [bind].
    rewrite IH by (intros s Hs; apply H; right; exact Hs). reflexivity.
  Qed.

  Lemma app_stops_map SL : (forall s, In s SL -> snd (R s) = None) -> app_stops (map (fun s => (s, R s)) SL) = false.
  Proof.
    unfold app_stops. induction SL as [|a SL IH]; intros H; cbn [map existsb snd]; [reflexivity|].
    rewrite (H a (or_introl eq_refl)). cbn [orb]. apply IH. intros s Hs. apply H. right. exact Hs.
  Qed.

  Lemma sec_deltas_map s SL :
    (In s SL -> sec_deltas s (map (fun t => (t, R t)) SL) = fst (R s))
    /\ (~ In s SL -> sec_deltas s (map (fun t => (t, R t)) SL) = []).
  Proof.
    unfold sec_deltas. induction SL as [|a SL [I1 I2]]; cbn [map find fst].
    - split; [intros [] | reflexivity].
    - destruct (N.eqb_spec a s) as [->|Hn].
      + split; [reflexivity|]. intros H. exfalso. apply H. left. reflexivity.
      + split.
        * intros [E|Hs]; [contradiction | apply I1; exact Hs].
        * intros H. apply I2. intros Hs. apply H. right. exact Hs.
  Qed.
End Table.

Lemma sec_deltas_run A s L :
  sec_deltas s (map (fun t => (t, sec_result_of A None (txs_of_sec t L))) (securities L))
  = fst (sec_result_of A None (txs_of_sec s L)).
Proof.
  destruct (sec_deltas_map (fun t => sec_result_of A None (txs_of_sec t L)) s (securities L)) as [I1 I2].
  destruct (in_dec N.eq_dec s (securities L)) as [Hin|Hn]; [apply I1; exact Hin|].
  rewrite (I2 Hn), (txs_of_sec_absent _ _ Hn). reflexivity.
Qed.

(* ================================================================ F. the hypotheses, security by security *)
(* the hypotheses of C10_roundtrip_simple_single_security ([annual] = false) /
   C10_roundtrip_annual_single_security_partial ([annual] = true) on the rows of
   security [s] of the history, numbered within the security *)
Definition sec_class (annual : bool) (latest : Z) (rows : list tx) : bool :=
  if annual then K_annual_row_in_window exact latest true rows else K_summary_buy_in_window exact latest false rows.
Definition sec_hyps (regof : N -> bool) (annual : bool) (latest : Z) (rows0 : list tx) (s : N) : Prop :=
  Forall (rowQ regof s) (txs_of_sec s rows0)
  /\ forallb valid_tx (txs_of_sec s rows0) = true
  /\ K_zero_sfl_cell (txs_of_sec s rows0) = false
  /\ history_ok exact (Summary.number_from 0 (txs_of_sec s rows0)) = true
  /\ sec_class annual latest (Summary.number_from 0 (txs_of_sec s rows0)) = false
  /\ K_zero_balance_acb exact latest (Summary.number_from 0 (txs_of_sec s rows0)) = false
  /\ (forall sums, make_summary exact latest (fst (sec_run exact (Summary.number_from 0 (txs_of_sec s rows0)))) annual = Ok sums ->
                   through_csv sums = sums).

Section Key.
  Variable regof : N -> bool.
  Variable annual : bool.
  Variable latest : Z.
  Variable rows0 : list tx.
  Let R (s : N) : result := sec_result_of exact None (txs_of_sec s (sort_txs (number rows0))).

  (* what the round trip of security [s] alone says about [s] inside the history *)
  Lemma sec_key s : sec_hyps regof annual latest rows0 s ->
    exists x sums' ds' ds2',
      snd (R s) = None
      /\ make_summary exact latest (fst (R s)) annual = Ok x /\ through_csv x = x /\ Forall (fun t => t_sec t = s) x
      /\ map erase x = map erase sums' /\ map erase_d (fst (R s)) = map erase_d ds'
      /\ sec_run exact (number (sums' ++ rows_after latest (number (txs_of_sec s rows0)))) = (ds2', None)
      /\ (forall obs, same_reports (later_of obs latest ds') (later_of obs latest ds2') = true).
  Proof.
    intros (HQ & Hv & Hz & Hok & HK1 & HK3 & Hcsv).
    assert (Hboth : roundtrip_ok exact latest annual (Summary.number_from 0 (txs_of_sec s rows0)) = true
                    /\ roundtrip_obs_ok exact latest annual (Summary.number_from 0 (txs_of_sec s rows0)) = true).
    { unfold sec_class in HK1. destruct annual.
      - exact (roundtrip_annual_single_security_exec regof s latest (txs_of_sec s rows0) HQ Hv Hz Hok HK1 HK3 Hcsv).
      - exact (roundtrip_single_security_exec regof s latest (txs_of_sec s rows0) HQ Hv Hz Hok HK1 HK3 Hcsv). }
    destruct Hboth as [Hrt Hobs].
    unfold roundtrip_ok, roundtrip_of in Hrt. unfold roundtrip_obs_ok, roundtrip_obs_of in Hobs.
    rewrite !number_from_eq in *. fold (number (txs_of_sec s rows0)) in *.
    set (rs := number (txs_of_sec s rows0)) in *.
    destruct (make_summary exact latest (fst (sec_run exact rs)) annual) as [sums'| |] eqn:Ems;
      [|discriminate Hrt|discriminate Hrt].
    specialize (Hcsv sums' eq_refl). rewrite Hcsv in Hrt, Hobs. rewrite number_from_eq in Hrt, Hobs.
    fold (number (sums' ++ rows_after latest rs)) in *.
    destruct (sec_run exact (number (sums' ++ rows_after latest rs))) as [ds2' o2] eqn:E2.
    cbv beta iota zeta in Hrt, Hobs. destruct o2 as [st|]; [discriminate Hrt|].
    pose proof (app_sec_result exact s rows0) as H1. apply erase_result_eq in H1 as [H1a H1b].
    fold (R s) in H1a, H1b. fold rs in H1a, H1b.
    assert (HsN : snd (sec_run exact rs) = None).
    { unfold history_ok in Hok. destruct (snd (sec_run exact rs)); [discriminate Hok | reflexivity]. }
    destruct (make_summary_up_to_ri exact latest annual _ _ sums' H1a Ems) as (x & Ex & Exs).
    assert (Hds : Forall (fun d => t_sec (d_tx d) = s) (fst (sec_run exact rs))).
    { assert (HQr : Forall (rowQ regof s) rs).
      { unfold rs, number. rewrite <- number_from_eq. apply number_from_Forall; [intros t i H; exact H | exact HQ]. }
      assert (Hng : Forall (fun t => t_glob t = false) rs).
      { eapply Forall_impl; [|exact HQr]. intros t Ht. apply Ht. }
      rewrite (sec_run_noglob exact rs Hng) in HsN |- *.
      destruct (run exact None (sort_txs rs)) as [ds o] eqn:Erun. cbn [fst snd] in HsN |- *. subst o.
      rewrite run_None in Erun.
      pose proof (run_loop_rowQ regof s _ _ _ _ (Forall_sort_txs _ _ HQr) (Forall_nil _) Erun) as HdQ.
      eapply Forall_impl; [|exact HdQ]. intros d Hd. apply Hd. }
    exists x, sums', (fst (sec_run exact rs)), ds2'.
    split; [congruence|]. split; [exact Ex|].
    split; [apply (through_csv_up_to_ri _ _ Exs Hcsv)|].
    split; [apply (sec_erase_Forall s _ _ Exs), (make_summary_sec exact s latest _ annual sums' Hds Ems)|].
    split; [exact Exs|]. split; [exact H1a|]. split; [exact E2|].
    intros [|]; unfold later_of; [exact Hobs | exact Hrt].
  Qed.
End Key.

(* ================================================================ G. the round trip of the application *)
Theorem roundtrip_app regof annual latest rows0 :
  (forall s, In s (securities rows0) -> sec_hyps regof annual latest rows0 s) ->
  app_history_ok exact (Summary.number_from 0 rows0) = true
  /\ forall obs, app_roundtrip exact obs latest annual (Summary.number_from 0 rows0) = true.
Proof.
  intros Hall. rewrite number_from_eq. fold (number rows0).
  set (R := fun s : N => sec_result_of exact None (txs_of_sec s (sort_txs (number rows0)))).
  set (SL := securities (sort_txs (number rows0))).
  assert (HSL : forall s, In s SL -> sec_hyps regof annual latest rows0 s).
  { intros s Hs. apply Hall. apply securities_in. apply run_has_security in Hs. exact Hs. }
  assert (Hnd : NoDup SL) by (apply strongly_sorted_nodup, securities_sorted).
  pose proof (fun s Hs => sec_key regof annual latest rows0 s (HSL s Hs)) as Hkey. fold R in Hkey.
  assert (Hstop : app_stops (map (fun s => (s, R s)) SL) = false).
  { apply app_stops_map. intros s Hs. destruct (Hkey s Hs) as (x & sums' & ds' & ds2' & H1 & _). exact H1. }
  split.
  { unfold app_history_ok. rewrite run_app_none.
    change (negb (app_stops (map (fun s => (s, R s)) SL)) = true). rewrite Hstop. reflexivity. }
  intros obs. unfold app_roundtrip. rewrite run_app_none. fold SL.
  change (fun s : N => (s, sec_result_of exact None (txs_of_sec s (sort_txs (number rows0)))))
    with (fun s : N => (s, R s)).
  set (f := sum_of exact R latest annual).
  assert (Hf : forall s, In s SL -> make_summary exact latest (fst (R s)) annual = Ok (f s)).
  { intros s Hs. destruct (Hkey s Hs) as (x & sums' & ds' & ds2' & _ & H2 & _). unfold f, sum_of. rewrite H2. reflexivity. }
  rewrite (all_summaries_map exact R latest annual SL) by (intros s Hs; exists (f s); apply Hf; exact Hs).
  fold f.
  assert (Hfsec : forall t, In t SL -> Forall (fun x => t_sec x = t) (f t)).
  { intros s Hs. destruct (Hkey s Hs) as (x & sums' & ds' & ds2' & _ & H2 & _ & H4 & _).
    rewrite (Hf s Hs) in H2. inversion H2; subst x. exact H4. }
  rewrite through_csv_flat_map.
  2: { intros s Hs. destruct (Hkey s Hs) as (x & sums' & ds' & ds2' & _ & H2 & H3 & _).
       rewrite (Hf s Hs) in H2. inversion H2; subst x. exact H3. }
  rewrite number_from_eq. set (input2 := flat_map f SL ++ rows_after latest (number rows0)).
  fold (number input2). rewrite run_app_none.
  set (R2 := fun s : N => sec_result_of exact None (txs_of_sec s (sort_txs (number input2)))).
  set (SL2 := securities (sort_txs (number input2))).
  change (fun s : N => (s, sec_result_of exact None (txs_of_sec s (sort_txs (number input2)))))
    with (fun s : N => (s, R2 s)).
  (* every security of the history, in the re-run *)
  assert (Hre : forall s, In s SL -> snd (R2 s) = None
              /\ same_reports (later_of obs latest (fst (R s))) (later_of obs latest (fst (R2 s))) = true).
  { intros s Hs. destruct (Hkey s Hs) as (x & sums' & ds' & ds2' & _ & H2 & _ & _ & H5 & H6 & H7 & H8).
    rewrite (Hf s Hs) in H2. inversion H2; subst x. clear H2.
    pose proof (app_sec_result exact s input2) as E1. fold (R2 s) in E1.
    assert (Ein : map erase (txs_of_sec s input2)
                  = map erase (sums' ++ rows_after latest (number (txs_of_sec s rows0)))).
    { unfold input2. rewrite txs_of_sec_app, !map_app.
      rewrite (proj1 (txs_of_sec_flat_map s f SL Hfsec Hnd) Hs), H5. f_equal.
      unfold number. apply later_rows_of_sec. }
    rewrite (sec_run_up_to_ri exact _ _ Ein), H7 in E1.
    apply erase_result_eq in E1 as [E1a E1b]. cbn [fst snd] in E1a, E1b.
    split; [exact E1b|].
    rewrite (same_later_up_to_ri obs latest _ _ _ _ H6 E1a). apply H8. }
  (* the re-run has no other security *)
  assert (Hsub : forall s, In s SL2 -> In s SL).
  { intros s Hs. apply run_has_security in Hs. apply run_has_security.
    unfold input2 in Hs. rewrite map_app in Hs. apply in_app_or in Hs as [Hs|Hs].
    - apply in_map_iff in Hs as (y & Ey & Hy). apply in_flat_map in Hy as (t & Ht & Hyt).
      pose proof (Hfsec t Ht) as HF. rewrite Forall_forall in HF. rewrite (HF y Hyt) in Ey. subst t.
      apply run_has_security in Ht. exact Ht.
    - apply in_map_iff in Hs as (y & Ey & Hy). unfold rows_after in Hy. apply filter_In in Hy as [Hy _].
      rewrite <- (map_sec_number 0 rows0). apply in_map_iff. exists y. split; [exact Ey | exact Hy]. }
  rewrite app_stops_map by (intros s Hs; apply (Hre s (Hsub s Hs))). cbn [negb andb].
  apply forallb_forall. intros p Hp. apply in_map_iff in Hp as (s & <- & Hs). cbn [fst snd].
  unfold SL2, R2. rewrite sec_deltas_run. fold (R2 s).
  change (if obs then later_obs latest else later_deltas latest) with (later_of obs latest).
  apply (Hre s Hs).
Qed.

(* the same with the hypotheses as a [Forall] over the securities of the input,
   one statement per mode *)
Corollary roundtrip_simple_app regof latest rows0 :
  Forall (sec_hyps regof false latest rows0) (securities rows0) ->
  app_history_ok exact (Summary.number_from 0 rows0) = true
  /\ app_roundtrip exact false latest false (Summary.number_from 0 rows0) = true
  /\ app_roundtrip exact true latest false (Summary.number_from 0 rows0) = true.
Proof.
  intros H. rewrite Forall_forall in H. destruct (roundtrip_app regof false latest rows0 H) as [H1 H2].
  split; [exact H1|]. split; apply H2.
Qed.

Corollary roundtrip_annual_app regof latest rows0 :
  Forall (sec_hyps regof true latest rows0) (securities rows0) ->
  app_history_ok exact (Summary.number_from 0 rows0) = true
  /\ app_roundtrip exact false latest true (Summary.number_from 0 rows0) = true
  /\ app_roundtrip exact true latest true (Summary.number_from 0 rows0) = true.
Proof.
  intros H. rewrite Forall_forall in H. destruct (roundtrip_app regof true latest rows0 H) as [H1 H2].
  split; [exact H1|]. split; apply H2.
Qed.

(* ================================================================ H. step (b) on its own, any arithmetic, both modes *)
(* the summary of the application is the concatenation of the per-security
   summaries, in the order of the run (increasing security number) *)
Theorem app_summary_decomposes A latest annual rows :
  let R := fun s => sec_result_of A None (txs_of_sec s (sort_txs rows)) in
  let SL := securities (sort_txs rows) in
  run_app A [] rows = Ok (map (fun s => (s, R s)) SL)
  /\ ((forall s, In s SL -> exists x, make_summary A latest (fst (R s)) annual = Ok x) ->
      all_summaries A latest annual (map (fun s => (s, R s)) SL) = Ok (flat_map (sum_of A R latest annual) SL)
      /\ forall s, In s SL ->
           make_summary A latest (fst (R s)) annual = Ok (sum_of A R latest annual s)
           /\ (Forall (fun d => t_sec (d_tx d) = s) (fst (R s)) ->
               Forall (fun t => t_sec t = s) (sum_of A R latest annual s))).
Proof.
  intros R SL. split; [apply run_app_none|]. intros H. split; [apply all_summaries_map; exact H|].
  intros s Hs. destruct (H s Hs) as [x Hx]. unfold sum_of. rewrite Hx. split; [reflexivity|].
  intros Hd. exact (make_summary_sec A s latest _ annual x Hd Hx).
Qed.

(* the re-run of (any rows [sums] ++ later rows) computes for security [s], up
   to read indices, what the rows of [s] among [sums] followed by the later
   rows of [s] alone give *)
Theorem app_rerun_per_security A s latest sums rows0 :
  erase_result (sec_result_of A None
                  (txs_of_sec s (sort_txs (number (sums ++ rows_after latest (number rows0))))))
  = erase_result (sec_run A (number (txs_of_sec s sums ++ rows_after latest (number (txs_of_sec s rows0))))).
Proof.
  rewrite app_sec_result. apply sec_run_up_to_ri.
  rewrite txs_of_sec_app, !map_app. f_equal. unfold number. apply later_rows_of_sec.
Qed.
