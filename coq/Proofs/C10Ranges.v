(* C10: what get_summary_range_delta_indicies (Model/Summary.v summary_ranges)
   computes on a delta list sorted by settlement date: the list is cut in
   three - summarised, re-emitted, later - and the summarised rows settle more
   than 30 days before every superficial loss among the others. *)
From Coq Require Import List NArith ZArith QArith Qcanon Bool Lia Sorted.
From ACB Require Import Base.Outcome Base.QcExtra Base.Arith Model.Tx Model.Ledger Model.Sfl
     Model.DeltaList Model.App Model.Summary.
Import ListNotations.
Local Open Scope Z_scope.

Definition d_sorted (ds : list delta) : Prop := StronglySorted (fun a b => d_sd a <= d_sd b) ds.

(* ---------------------------------------------------------------- sorted lists *)
Lemma ss_app_inv {T} (R : T -> T -> Prop) a b :
  StronglySorted R (a ++ b) ->
  StronglySorted R a /\ StronglySorted R b /\ Forall (fun x => Forall (R x) b) a.
Proof.
  induction a as [|x a IH]; cbn [app]; intros H.
  - repeat split; [constructor | exact H | constructor].
  - apply StronglySorted_inv in H as [H Hx]. destruct (IH H) as (Ha & Hb & Hab).
    apply Forall_app in Hx as [Hxa Hxb]. repeat split; [constructor | | constructor]; assumption.
Qed.
Lemma ss_app {T} (R : T -> T -> Prop) a b :
  StronglySorted R a -> StronglySorted R b -> Forall (fun x => Forall (R x) b) a -> StronglySorted R (a ++ b).
Proof.
  induction a as [|x a IH]; cbn [app]; intros Ha Hb Hab; [exact Hb|].
  apply StronglySorted_inv in Ha as [Ha Hx]. apply Forall_cons_iff in Hab as [Hxb Hab].
  constructor; [apply IH; assumption | apply Forall_app; split; assumption].
Qed.
Lemma ss_rev {T} (R : T -> T -> Prop) l :
  StronglySorted R l -> StronglySorted (fun a b => R b a) (rev l).
Proof.
  induction 1 as [|x l Hs IH Hx]; cbn [rev]; [constructor|].
  apply ss_app; [exact IH | repeat constructor |].
  apply Forall_rev. eapply Forall_impl; [|exact Hx]. intros y Hy. repeat constructor. exact Hy.
Qed.

(* ---------------------------------------------------------------- step 1 *)
Fixpoint cnt_le (latest : Z) (ds : list delta) : nat :=
  match ds with
  | [] => O
  | d :: r => if latest <? d_sd d then O else S (cnt_le latest r)
  end.

Lemma lir_eq latest ds : forall i acc,
  latest_in_range latest ds i acc = match cnt_le latest ds with O => acc | S n => Some (i + n)%nat end.
Proof.
  induction ds as [|d r IH]; intros i acc; cbn [latest_in_range cnt_le]; [reflexivity|].
  destruct (latest <? d_sd d); [reflexivity|]. rewrite IH.
  destruct (cnt_le latest r); f_equal; lia.
Qed.

Lemma cnt_le_spec latest ds : d_sorted ds ->
  Forall (fun d => d_sd d <= latest) (firstn (cnt_le latest ds) ds)
  /\ Forall (fun d => latest < d_sd d) (skipn (cnt_le latest ds) ds)
  /\ (cnt_le latest ds <= length ds)%nat.
Proof.
  induction 1 as [|d r Hs IH Hd]; cbn [cnt_le firstn skipn length].
  - repeat split; constructor.
  - destruct (latest <? d_sd d) eqn:E; cbn [firstn skipn].
    + apply Z.ltb_lt in E. repeat split; [constructor| |lia]. constructor; [exact E|].
      eapply Forall_impl; [|exact Hd]. intros x Hx. cbv beta in Hx. lia.
    + apply Z.ltb_ge in E. destruct IH as (H1 & H2 & H3). repeat split; [constructor; assumption|assumption|lia].
Qed.

(* ---------------------------------------------------------------- step 3 *)
Fixpoint back_cnt (fd : Z) (r : list delta) : nat * Z :=
  match r with
  | [] => (O, fd)
  | d :: r' =>
      if d_sd d <? fd then (O, fd)
      else let '(n, f) := back_cnt (if is_sfl_delta d then d_sd d - window_days else fd) r' in (S n, f)
  end.

Lemma indexed_app {T} k (a b : list T) : indexed k (a ++ b) = indexed k a ++ indexed (k + length a) b.
Proof.
  revert k. induction a as [|x a IH]; intros k; cbn [app indexed length].
  - f_equal. lia.
  - rewrite IH. do 3 f_equal. lia.
Qed.

Lemma back_scan_cnt p : forall k fd,
  back_scan fd (rev (indexed k p))
  = let n := fst (back_cnt fd (rev p)) in
    if (n <? length p)%nat then Some (k + (length p - 1 - n))%nat else None.
Proof.
  induction p as [|x p IH] using rev_ind; intros k fd.
  - reflexivity.
  - rewrite indexed_app, !rev_app_distr. cbn [indexed rev app back_scan back_cnt].
    rewrite app_length. cbn [length].
    destruct (d_sd x <? fd).
    + cbn [fst]. assert (E : (0 <? length p + 1)%nat = true) by (apply Nat.ltb_lt; lia). rewrite E.
      f_equal. lia.
    + rewrite IH. destruct (back_cnt (if is_sfl_delta x then d_sd x - window_days else fd) (rev p)) as [n f].
      cbn [fst].
      destruct (n <? length p)%nat eqn:E.
      * apply Nat.ltb_lt in E. assert (E' : (S n <? length p + 1)%nat = true) by (apply Nat.ltb_lt; lia).
        rewrite E'. f_equal. lia.
      * apply Nat.ltb_ge in E. assert (E' : (S n <? length p + 1)%nat = false) by (apply Nat.ltb_ge; lia).
        rewrite E'. reflexivity.
Qed.

Definition desc (r : list delta) : Prop := StronglySorted (fun a b => d_sd b <= d_sd a) r.

Lemma back_cnt_spec r : desc r -> forall fd,
  Forall (fun d => d_sd d - window_days <= fd) r ->
  let '(n, f) := back_cnt fd r in
  f <= fd /\ (n <= length r)%nat
  /\ Forall (fun d => f <= d_sd d /\ (is_sfl_delta d = true -> f <= d_sd d - window_days)) (firstn n r)
  /\ Forall (fun d => d_sd d < f) (skipn n r).
Proof.
  induction 1 as [|d r Hs IH Hd]; intros fd Hinv; cbn [back_cnt].
  - cbn. repeat split; try constructor; lia.
  - apply Forall_cons_iff in Hinv as [Hid Hinv].
    destruct (d_sd d <? fd) eqn:E.
    + apply Z.ltb_lt in E. cbn [firstn skipn length]. repeat split; try constructor; try lia.
      eapply Forall_impl; [|exact Hd]. intros x Hx. cbv beta in Hx. lia.
    + apply Z.ltb_ge in E.
      set (fd' := if is_sfl_delta d then d_sd d - window_days else fd).
      assert (Hfd' : fd' <= fd) by (unfold fd'; destruct (is_sfl_delta d); lia).
      assert (Hinv' : Forall (fun x => d_sd x - window_days <= fd') r).
      { unfold fd'. destruct (is_sfl_delta d); [|exact Hinv].
        eapply Forall_impl; [|exact Hd]. intros x Hx. cbv beta in Hx. lia. }
      specialize (IH fd' Hinv'). destruct (back_cnt fd' r) as [n f].
      destruct IH as (H1 & H2 & H3 & H4). cbn [firstn skipn length].
      repeat split; try lia; [|exact H4]. constructor; [|exact H3].
      split.
      * unfold fd', window_days in *. destruct (is_sfl_delta d); lia.
      * intros Hsfl. unfold fd' in H1. rewrite Hsfl in H1. exact H1.
Qed.

(* ---------------------------------------------------------------- the three parts *)
Lemma find_first_sorted (p : delta -> bool) l x : d_sorted l -> find p l = Some x ->
  In x l /\ forall y, In y l -> p y = true -> d_sd x <= d_sd y.
Proof.
  induction 1 as [|d r Hs IH Hd]; cbn [find]; [discriminate|].
  destruct (p d) eqn:E.
  - intros H. inversion H; subst x. split; [left; reflexivity|]. intros y [->|Hy] _; [lia|].
    rewrite Forall_forall in Hd. apply Hd. exact Hy.
  - intros H. destruct (IH H) as [Hin Hle]. split; [right; exact Hin|].
    intros y [->|Hy] Hp; [congruence | apply Hle; assumption].
Qed.

Lemma nth_error_last_le ds n dl : d_sorted ds -> nth_error ds n = Some dl ->
  Forall (fun d => d_sd d <= d_sd dl) (firstn (S n) ds).
Proof.
  intros Hs. revert n. induction Hs as [|d r Hs IH Hd]; intros n H.
  - destruct n; discriminate.
  - destruct n as [|n]; cbn [nth_error] in H.
    + inversion H; subst. cbn. repeat constructor. lia.
    + change (firstn (S (S n)) (d :: r)) with (d :: firstn (S n) r). constructor; [|apply IH; exact H].
      rewrite Forall_forall in Hd. apply Hd. eapply nth_error_In. exact H.
Qed.

Lemma nth_error_in_firstn {T} (l : list T) n x : nth_error l n = Some x -> In x (firstn (S n) l).
Proof.
  revert n. induction l as [|y l IH]; intros n H; [destruct n; discriminate|].
  destruct n as [|n]; cbn [nth_error] in H.
  - inversion H; subst. left; reflexivity.
  - change (firstn (S (S n)) (y :: l)) with (y :: firstn (S n) l). right. apply IH. exact H.
Qed.

Lemma In_skipn {T} (x : T) n l : In x (skipn n l) -> In x l.
Proof. intros H. rewrite <- (firstn_skipn n l). apply in_or_app. right. exact H. Qed.

Theorem summary_ranges_cut latest ds rg :
  d_sorted ds -> summary_ranges latest ds = Some rg ->
  exists dsP dsK dsT c1,
    ds = dsP ++ dsK ++ dsT /\ length dsP = first_unsum rg /\ length (dsP ++ dsK) = S (rg_latest rg)
    /\ dsP ++ dsK <> [] /\ c1 <= latest
    /\ Forall (fun d => d_sd d <= c1) dsP
    /\ Forall (fun d => c1 < d_sd d /\ d_sd d <= latest) dsK
    /\ Forall (fun d => latest < d_sd d) dsT
    /\ (forall s, In s (dsK ++ dsT) -> is_sfl_delta s = true -> c1 < d_sd s - window_days).
Proof.
  intros Hs H. unfold summary_ranges in H. rewrite lir_eq in H.
  destruct (cnt_le_spec latest ds Hs) as (HP & HT & Hlen).
  destruct (cnt_le latest ds) as [|n] eqn:Ecnt; [discriminate|]. cbn [Nat.add] in H.
  destruct (nth_error ds n) as [dl|] eqn:Enth; [|discriminate].
  set (p := firstn (S n) ds) in *. set (dsT := skipn (S n) ds) in *.
  assert (Eds : ds = p ++ dsT) by (symmetry; apply firstn_skipn).
  assert (Hlp : length p = S n) by (unfold p; rewrite firstn_length; lia).
  assert (Hpne : p <> []) by (intros E; rewrite E in Hlp; discriminate).
  pose proof (nth_error_last_le ds n dl Hs Enth) as Hdl. fold p in Hdl.
  assert (Hdlin : In dl p).
  { unfold p. apply nth_error_in_firstn. exact Enth. }
  assert (Hdll : d_sd dl <= latest) by (rewrite Forall_forall in HP; apply HP; exact Hdlin).
  assert (HsT : d_sorted dsT).
  { rewrite Eds in Hs. apply ss_app_inv in Hs. tauto. }
  (* the whole prefix is summarised *)
  assert (Hwhole : (forall s, In s dsT -> is_sfl_delta s = true -> d_sd dl < d_sd s - window_days) ->
                   rg = {| rg_latest := n; rg_summarizable := Some n |} ->
                   exists dsP dsK dsT c1,
                     ds = dsP ++ dsK ++ dsT /\ length dsP = first_unsum rg /\ length (dsP ++ dsK) = S (rg_latest rg)
                     /\ dsP ++ dsK <> [] /\ c1 <= latest
                     /\ Forall (fun d => d_sd d <= c1) dsP
                     /\ Forall (fun d => c1 < d_sd d /\ d_sd d <= latest) dsK
                     /\ Forall (fun d => latest < d_sd d) dsT
                     /\ (forall s, In s (dsK ++ dsT) -> is_sfl_delta s = true -> c1 < d_sd s - window_days)).
  { intros Hsfl ->. exists p, [], dsT, (d_sd dl). cbn [app first_unsum rg_summarizable rg_latest].
    rewrite app_nil_r. repeat split; auto; constructor. }
  unfold first_sfl_after in H. fold dsT in H.
  destruct (find is_sfl_delta dsT) as [s1|] eqn:Efind.
  2: { apply Hwhole; [|inversion H; reflexivity]. intros s Hin Hsfl.
       rewrite (find_none _ _ Efind s Hin) in Hsfl. discriminate. }
  destruct (find_first_sorted _ _ _ HsT Efind) as [Hs1in Hs1first].
  assert (Hs1 : latest < d_sd s1) by (rewrite Forall_forall in HT; apply HT; exact Hs1in).
  destruct (d_sd s1 - window_days <=? d_sd dl) eqn:Efd.
  2: { apply Z.leb_gt in Efd. apply Hwhole; [|inversion H; reflexivity]. intros s Hin Hsfl.
       specialize (Hs1first s Hin Hsfl). lia. }
  apply Z.leb_le in Efd. inversion H; subst rg. clear H Hwhole.
  cbn [first_unsum rg_summarizable rg_latest]. fold p. rewrite back_scan_cnt. cbv zeta.
  set (fd := d_sd s1 - window_days) in *.
  assert (Hdesc : desc (rev p)).
  { unfold desc. apply (ss_rev (fun a b => d_sd a <= d_sd b)).
    rewrite Eds in Hs. apply ss_app_inv in Hs. tauto. }
  assert (Hinv : Forall (fun d => d_sd d - window_days <= fd) (rev p)).
  { apply Forall_rev. eapply Forall_impl; [|exact HP]. intros x Hx. cbv beta in Hx. unfold fd. lia. }
  pose proof (back_cnt_spec (rev p) Hdesc fd Hinv) as Hspec.
  destruct (back_cnt fd (rev p)) as [c f]. cbn [fst]. destruct Hspec as (Hf & Hc & HK & HPp).
  rewrite rev_length in Hc.
  rewrite firstn_rev in HK. rewrite skipn_rev in HPp.
  apply Forall_rev in HK. apply Forall_rev in HPp. rewrite rev_involutive in HK, HPp.
  set (n1 := (length p - c)%nat) in *.
  exists (firstn n1 p), (skipn n1 p), dsT, (f - 1).
  assert (En1 : (match (if (c <? length p)%nat then Some (0 + (length p - 1 - c))%nat else None) with
                 | Some s => S s | None => O end) = n1).
  { unfold n1. destruct (c <? length p)%nat eqn:E; [apply Nat.ltb_lt in E | apply Nat.ltb_ge in E]; lia. }
  unfold first_unsum. cbn [rg_summarizable rg_latest]. rewrite En1. rewrite app_assoc, firstn_skipn.
  split; [exact Eds|]. split; [rewrite firstn_length; unfold n1; lia|]. split; [exact Hlp|].
  split; [exact Hpne|]. split; [unfold fd in *; lia|].
  split; [eapply Forall_impl; [|exact HPp]; intros x Hx; cbv beta in Hx; lia|].
  split.
  { apply Forall_forall. intros x Hx. rewrite Forall_forall in HK. destruct (HK x Hx) as [Hfx _].
    split; [lia|]. rewrite Forall_forall in HP. apply HP. fold p. eapply In_skipn. exact Hx. }
  split; [exact HT|].
  intros s Hin Hsfl. apply in_app_or in Hin as [Hin|Hin].
  - rewrite Forall_forall in HK. destruct (HK s Hin) as [_ Hk]. specialize (Hk Hsfl). lia.
  - specialize (Hs1first s Hin Hsfl). unfold fd in *. lia.
Qed.
